(* Proofs/Alias.v — C10: (1) NoRef is an invariant of every history (one
   preservation lemma per retention point / table operation); (2) on a NoRef
   state every library step and every observation is independent of the
   buffer store and of the buffer the frame arrived in; (3) hence the
   transcript of a history depends only on its packet-level projection:
   scribbling over / reusing receive buffers is unobservable. *)
From PV Require Import Base.Prelude Base.Text Model.Alias.
Open Scope N_scope.
Open Scope list_scope.

(* ---------------------------------------------------------------- *)
(* generic list facts *)

Lemma forallb_remove_first {A} (p q : A -> bool) l :
  forallb p l = true -> forallb p (remove_first q l) = true.
Proof.
  induction l as [|x r IH]; simpl; auto.
  intros H. apply andb_true_iff in H as [Hx Hr].
  destruct (q x); simpl; auto. rewrite Hx. simpl. auto.
Qed.

Lemma forallb_map_id {A} (p : A -> bool) (f : A -> A) l :
  (forall x, p x = true -> p (f x) = true) -> forallb p l = true -> forallb p (map f l) = true.
Proof.
  intros Hf. induction l as [|x r IH]; simpl; auto.
  intros H. apply andb_true_iff in H as [Hx Hr]. rewrite Hf by auto. simpl. auto.
Qed.

Lemma forallb_map_all {A B} (p : B -> bool) (f : A -> B) l :
  (forall x, p (f x) = true) -> forallb p (map f l) = true.
Proof. intros Hf. induction l as [|x r IH]; simpl; auto. rewrite Hf. auto. Qed.

Lemma forallb_snoc {A} (p : A -> bool) l x :
  forallb p l = true -> p x = true -> forallb p (l ++ [x]) = true.
Proof. intros Hl Hx. rewrite forallb_app. rewrite Hl. simpl. rewrite Hx. reflexivity. Qed.

Lemma forallb_set_nth {A} (p : A -> bool) i x l :
  forallb p l = true -> p x = true -> forallb p (set_nth i x l) = true.
Proof.
  revert i. induction l as [|y r IH]; intros [|i] Hl Hx; simpl in *; auto;
    apply andb_true_iff in Hl as [Hy Hr]; apply andb_true_iff; split; auto.
Qed.

Lemma forallb_nth {A} (p : A -> bool) i l d :
  forallb p l = true -> p d = true -> p (nth i l d) = true.
Proof.
  revert i. induction l as [|y r IH]; intros [|i] Hl Hd; simpl in *; auto;
    apply andb_true_iff in Hl as [Hy Hr]; auto.
Qed.

Lemma forallb_filter {A} (p q : A -> bool) l : forallb p l = true -> forallb p (filter q l) = true.
Proof.
  induction l as [|x r IH]; simpl; auto. intros H. apply andb_true_iff in H as [Hx Hr].
  destruct (q x); simpl; auto. rewrite Hx. auto.
Qed.

Lemma find_some_forallb {A} (p q : A -> bool) l x :
  forallb p l = true -> find q l = Some x -> p x = true.
Proof.
  intros Hl Hf. apply find_some in Hf as [Hin _].
  rewrite forallb_forall in Hl. auto.
Qed.

Lemma find_ext_forallb {A} (p : A -> bool) (q1 q2 : A -> bool) l :
  forallb p l = true -> (forall x, p x = true -> q1 x = q2 x) -> find q1 l = find q2 l.
Proof.
  intros Hl Hq. induction l as [|x r IH]; simpl; auto.
  simpl in Hl. apply andb_true_iff in Hl as [Hx Hr].
  rewrite (Hq x Hx). destruct (q2 x); auto.
Qed.

Lemma remove_first_ext_forallb {A} (p : A -> bool) (q1 q2 : A -> bool) l :
  forallb p l = true -> (forall x, p x = true -> q1 x = q2 x) -> remove_first q1 l = remove_first q2 l.
Proof.
  intros Hl Hq. induction l as [|x r IH]; simpl; auto.
  simpl in Hl. apply andb_true_iff in Hl as [Hx Hr].
  rewrite (Hq x Hx). destruct (q2 x); auto. rewrite IH; auto.
Qed.

Lemma map_ext_forallb {A B} (p : A -> bool) (f g : A -> B) l :
  forallb p l = true -> (forall x, p x = true -> f x = g x) -> map f l = map g l.
Proof.
  intros Hl Hq. induction l as [|x r IH]; simpl; auto.
  simpl in Hl. apply andb_true_iff in Hl as [Hx Hr].
  rewrite (Hq x Hx), IH; auto.
Qed.

Lemma insert_by_in {A} (le : A -> A -> bool) x z l : In x (insert_by le z l) -> x = z \/ In x l.
Proof.
  induction l as [|w l' IHl]; simpl.
  - intros [E|[]]; auto.
  - destruct (le z w); simpl.
    + intros [E|[E|E]]; auto.
    + intros [E|E]; auto. destruct (IHl E); auto.
Qed.

Lemma forallb_sort_by {A} (p : A -> bool) (le : A -> A -> bool) l :
  forallb p l = true -> forallb p (sort_by le l) = true.
Proof.
  intros H. rewrite forallb_forall in *. intros x Hx. apply H. clear H.
  unfold sort_by in Hx. induction l as [|y r IH]; simpl in *; auto.
  destruct (insert_by_in _ _ _ _ Hx); subst; auto.
Qed.

Ltac split_ok :=
  repeat match goal with
         | H : _ && _ = true |- _ => apply andb_true_iff in H; destruct H
         end.
Ltac and_ok := repeat (apply andb_true_iff; split).

(* ---------------------------------------------------------------- *)
(* retained values *)

Lemma copies_all : forall k, copies k = true.
Proof. destruct k; reflexivity. Qed.
(* from here on the proofs use [copies] only through [copies_all] *)
Global Opaque copies.

Lemma deref_owned s1 s2 v : owned v = true -> deref s1 v = deref s2 v.
Proof. destruct v; simpl; [reflexivity|discriminate]. Qed.

Definition src_ok (x : src) : bool := match x with Held v => owned v | _ => true end.

(* two call contexts for the same frame *)
Definition cxeq (cx1 cx2 : ctx) : Prop := cx_frame cx1 = cx_frame cx2.

Lemma rd_owned cx1 cx2 v : owned v = true -> rd cx1 v = rd cx2 v.
Proof. apply deref_owned. Qed.

Lemma src_val_indep cx1 cx2 x : cxeq cx1 cx2 -> src_ok x = true -> src_val cx1 x = src_val cx2 x.
Proof. intros E H. destruct x; simpl; auto. - rewrite E. reflexivity. - apply rd_owned. exact H. Qed.

Lemma retain_owned k cx x : owned (retain k cx x) = true.
Proof. unfold retain. rewrite copies_all. reflexivity. Qed.

Lemma retain_indep k cx1 cx2 x :
  cxeq cx1 cx2 -> src_ok x = true -> retain k cx1 x = retain k cx2 x.
Proof. intros E H. unfold retain. rewrite copies_all. f_equal. apply src_val_indep; auto. Qed.

Lemma lval_indep cx1 cx2 l : cxeq cx1 cx2 -> lval cx1 l = lval cx2 l.
Proof. intros E. unfold lval. rewrite E. reflexivity. Qed.

Lemma join_labels_indep cx1 cx2 ls : cxeq cx1 cx2 -> join_labels cx1 ls = join_labels cx2 ls.
Proof.
  intros E. induction ls as [|l r IH]; simpl; auto.
  rewrite (lval_indep cx1 cx2 l E). destruct r; auto. rewrite IH. reflexivity.
Qed.

Lemma nm_empty_ok : nm_ok nm_empty = true.
Proof. reflexivity. Qed.
Lemma names0_ok : forallb nm_ok names0 = true.
Proof. reflexivity. Qed.
Lemma get_name_ok i l : forallb nm_ok l = true -> nm_ok (get_name i l) = true.
Proof. intros H. unfold get_name. apply forallb_nth; auto. Qed.

(* ---------------------------------------------------------------- *)
(* state invariant: components *)

Lemma no_ref_iff st :
  no_ref st = true <->
  forallb host_ok (st_hosts st) = true /\ forallb mac_ok (st_macs st) = true /\ forallb lease_ok (st_leases st) = true /\
  forallb router_ok (st_routers st) = true /\ forallb dns_ok (st_dns st) = true /\ forallb mcache_ok (st_mcache st) = true.
Proof.
  unfold no_ref. rewrite !andb_true_iff. tauto.
Qed.

Ltac nr_destruct H :=
  let Hh := fresh "Hh" in let Hm := fresh "Hm" in let Hl := fresh "Hl" in
  let Hr := fresh "Hr" in let Hd := fresh "Hd" in let Hc := fresh "Hc" in
  apply no_ref_iff in H; destruct H as (Hh & Hm & Hl & Hr & Hd & Hc).
Ltac nr_split := apply no_ref_iff; cbn [st_hosts st_macs st_leases st_routers st_dns st_mcache
                                        set_hosts set_macs set_next set_leases set_routers set_dns set_mcache];
                 repeat split.

Lemma set_hosts_no_ref st x : no_ref st = true -> forallb host_ok x = true -> no_ref (set_hosts st x) = true.
Proof. intros H Hx. nr_destruct H. nr_split; auto. Qed.
Lemma set_macs_no_ref st x : no_ref st = true -> forallb mac_ok x = true -> no_ref (set_macs st x) = true.
Proof. intros H Hx. nr_destruct H. nr_split; auto. Qed.
Lemma set_next_no_ref st x : no_ref st = true -> no_ref (set_next st x) = true.
Proof. intros H. nr_destruct H. nr_split; auto. Qed.
Lemma set_leases_no_ref st x : no_ref st = true -> forallb lease_ok x = true -> no_ref (set_leases st x) = true.
Proof. intros H Hx. nr_destruct H. nr_split; auto. Qed.
Lemma set_routers_no_ref st x : no_ref st = true -> forallb router_ok x = true -> no_ref (set_routers st x) = true.
Proof. intros H Hx. nr_destruct H. nr_split; auto. Qed.
Lemma set_dns_no_ref st x : no_ref st = true -> forallb dns_ok x = true -> no_ref (set_dns st x) = true.
Proof. intros H Hx. nr_destruct H. nr_split; auto. Qed.
Lemma set_mcache_no_ref st x : no_ref st = true -> forallb mcache_ok x = true -> no_ref (set_mcache st x) = true.
Proof. intros H Hx. nr_destruct H. nr_split; auto. Qed.

Lemma nr_hosts st : no_ref st = true -> forallb host_ok (st_hosts st) = true.
Proof. intros H. nr_destruct H. auto. Qed.
Lemma nr_macs st : no_ref st = true -> forallb mac_ok (st_macs st) = true.
Proof. intros H. nr_destruct H. auto. Qed.
Lemma nr_leases st : no_ref st = true -> forallb lease_ok (st_leases st) = true.
Proof. intros H. nr_destruct H. auto. Qed.

Lemma find_host_ok key st h : no_ref st = true -> find_host key (st_hosts st) = Some h -> host_ok h = true.
Proof. intros H F. eapply find_some_forallb; [apply nr_hosts; eauto | exact F]. Qed.
Lemma me_by_id_ok id st e : no_ref st = true -> me_by_id id (st_macs st) = Some e -> mac_ok e = true.
Proof. intros H F. eapply find_some_forallb; [apply nr_macs; eauto | exact F]. Qed.
Lemma find_lease_ok key st l : no_ref st = true -> find_lease key (st_leases st) = Some l -> lease_ok l = true.
Proof. intros H F. eapply find_some_forallb; [apply nr_leases; eauto | exact F]. Qed.

(* updates that keep the retained fields *)
Definition me_same (f : macentry -> macentry) : Prop := forall e, mac_ok e = true -> mac_ok (f e) = true.
Definition h_same (f : host -> host) : Prop := forall h, host_ok h = true -> host_ok (f h) = true.

Lemma upd_me_no_ref id f st : me_same f -> no_ref st = true -> no_ref (upd_me id f st) = true.
Proof.
  intros Hf H. unfold upd_me. apply set_macs_no_ref; auto.
  apply forallb_map_id; [|apply nr_macs; auto]. intros e He. destruct (Nat.eqb _ _); auto.
Qed.
Lemma upd_host_no_ref key f st : h_same f -> no_ref st = true -> no_ref (upd_host key f st) = true.
Proof.
  intros Hf H. unfold upd_host. apply set_hosts_no_ref; auto.
  apply forallb_map_id; [|apply nr_hosts; auto]. intros e He. destruct (beqb _ _); auto.
Qed.

Lemma me_same_hosts x : me_same (fun e => me_with_hosts e (x e)). Proof. intros e H; exact H. Qed.
Lemma me_same_online x : me_same (fun e => me_with_online e x). Proof. intros e H; exact H. Qed.
Lemma me_same_ip4 x : me_same (fun e => me_with_ip4 e x). Proof. intros e H; exact H. Qed.
Lemma me_same_offer x : me_same (fun e => me_with_offer e x). Proof. intros e H; exact H. Qed.
Lemma me_same_captured x : me_same (fun e => me_with_captured e x). Proof. intros e H; exact H. Qed.
Lemma h_same_online x : h_same (fun h => h_with_online h x). Proof. intros e H; exact H. Qed.
Lemma h_same_dirty x : h_same (fun h => h_with_dirty h x). Proof. intros e H; exact H. Qed.
Lemma h_same_od x y : h_same (fun h => h_with_dirty (h_with_online h x) y). Proof. intros e H; exact H. Qed.

(* ---------------------------------------------------------------- *)
(* session: MAC table, host table *)

Section Session.
Variables cx1 cx2 : ctx.
Hypothesis E : cxeq cx1 cx2.

Lemma find_mac_indep mac ms :
  forallb mac_ok ms = true -> find_mac cx1 mac ms = find_mac cx2 mac ms.
Proof.
  intros H. unfold find_mac. apply find_ext_forallb with (p := mac_ok); auto.
  intros e He. unfold mac_ok in He. split_ok. rewrite (rd_owned cx1 cx2); auto.
Qed.

Lemma mac_find_or_create_ok x st :
  no_ref st = true -> src_ok x = true ->
  mac_find_or_create cx1 x st = mac_find_or_create cx2 x st /\
  no_ref (fst (mac_find_or_create cx1 x st)) = true /\ mac_ok (snd (mac_find_or_create cx1 x st)) = true.
Proof.
  intros H Hx. pose proof (nr_macs _ H) as Hm. unfold mac_find_or_create.
  rewrite (src_val_indep cx1 cx2) by auto. rewrite find_mac_indep by auto.
  destruct (find_mac cx2 _ _) as [e|] eqn:He; cbn [fst snd].
  - split; [reflexivity|split]; [exact H|]. eapply find_some_forallb; eauto.
  - rewrite (retain_indep _ cx1 cx2) by auto. split; [reflexivity|split].
    + apply set_next_no_ref. apply set_macs_no_ref; [exact H|]. apply forallb_snoc; [exact Hm|].
      unfold mac_ok; cbn [me_mac me_names]. rewrite retain_owned. reflexivity.
    + unfold mac_ok; cbn [me_mac me_names]. rewrite retain_owned. reflexivity.
Qed.

Lemma delete_host_ok key st :
  no_ref st = true ->
  delete_host cx1 key st = delete_host cx2 key st /\ no_ref (delete_host cx1 key st) = true.
Proof.
  intros H. pose proof (nr_macs _ H) as Hm. pose proof (nr_hosts _ H) as Hh. unfold delete_host.
  destruct (find_host key (st_hosts st)) as [h|]; auto.
  set (macs1 := map _ (st_macs st)).
  assert (Hm1 : forallb mac_ok macs1 = true).
  { apply forallb_map_id; auto. intros e He. destruct (Nat.eqb _ _); auto. }
  assert (Hh1 : forallb host_ok (remove_first (fun h' => beqb (h_key h') key) (st_hosts st)) = true)
    by (apply forallb_remove_first; auto).
  destruct (me_by_id (h_me h) macs1) as [e|] eqn:He.
  - pose proof (find_some_forallb mac_ok _ _ _ Hm1 He) as Hok.
    destruct (is_nil (me_hosts e)).
    + split.
      * f_equal. apply remove_first_ext_forallb with (p := mac_ok); auto.
        intros e' He'. unfold mac_ok in He', Hok. split_ok.
        rewrite (rd_owned cx1 cx2 (me_mac e')), (rd_owned cx1 cx2 (me_mac e)); auto.
      * apply set_macs_no_ref; [apply set_hosts_no_ref; auto|]. apply forallb_remove_first; auto.
    + split; auto. apply set_macs_no_ref; [apply set_hosts_no_ref; auto|]; auto.
  - split; auto. apply set_macs_no_ref; [apply set_hosts_no_ref; auto|]; auto.
Qed.

Lemma fresh_host_ok xmac xip st :
  no_ref st = true -> src_ok xmac = true -> src_ok xip = true ->
  fresh_host cx1 xmac xip st = fresh_host cx2 xmac xip st /\ no_ref (fresh_host cx1 xmac xip st) = true.
Proof.
  intros H Hm Hi. unfold fresh_host.
  rewrite (src_val_indep cx1 cx2 xip) by auto.
  destruct (mac_find_or_create_ok xmac st H Hm) as (Eq & Hn & Hok). rewrite Eq in *.
  destruct (mac_find_or_create cx2 xmac st) as [st1 e]. cbn [fst snd] in *.
  rewrite (retain_indep _ cx1 cx2) by auto. split; auto.
  apply upd_me_no_ref; [apply me_same_hosts with (x := fun e' => me_hosts e' ++ [src_val cx2 xip])|].
  apply set_hosts_no_ref; auto. apply forallb_snoc; [apply nr_hosts; auto|].
  unfold host_ok; cbn [h_ip h_mac h_names]. rewrite retain_owned. unfold mac_ok in Hok. split_ok. and_ok; auto.
Qed.

Lemma find_or_create_host_ok xmac xip st :
  no_ref st = true -> src_ok xmac = true -> src_ok xip = true ->
  find_or_create_host cx1 xmac xip st = find_or_create_host cx2 xmac xip st /\
  no_ref (find_or_create_host cx1 xmac xip st) = true.
Proof.
  intros H Hm Hi. unfold find_or_create_host.
  rewrite (src_val_indep cx1 cx2 xip) by auto.
  rewrite (src_val_indep cx1 cx2 xmac) by auto.
  destruct (delete_host_ok (src_val cx2 xip) st H) as [Ed Hd]. rewrite Ed in *.
  destruct (find_host _ _) as [h|].
  - destruct (me_by_id _ _) as [e|] eqn:He.
    + pose proof (me_by_id_ok _ _ _ H He) as Hok. unfold mac_ok in Hok. split_ok.
      rewrite (rd_owned cx1 cx2 (me_mac e)) by auto.
      destruct (beqb _ _); auto. apply fresh_host_ok; auto.
    + apply fresh_host_ok; auto.
  - apply fresh_host_ok; auto.
Qed.

Lemma online_transition_no_ref key st : no_ref st = true -> no_ref (online_transition key st) = true.
Proof.
  intros H. unfold online_transition.
  destruct (find_host key (st_hosts st)) as [h|]; auto.
  destruct (h_online h); auto.
  set (st1 := upd_me _ _ st). assert (H1 : no_ref st1 = true) by (apply upd_me_no_ref; auto using me_same_online).
  set (st2 := upd_host _ _ st1). assert (H2 : no_ref st2 = true) by (apply upd_host_no_ref; auto using h_same_od).
  destruct (Nat.eqb _ _); auto.
  destruct (me_by_id _ _) as [e|]; auto.
  destruct (beqb _ _); auto.
  set (st3 := upd_me _ _ st2). assert (H3 : no_ref st3 = true) by (apply upd_me_no_ref; auto using me_same_ip4).
  apply set_hosts_no_ref; auto. apply forallb_map_id; [|apply nr_hosts; auto].
  intros v Hv. destruct (_ && _); auto.
Qed.

Lemma merge1_ok old new :
  owned old = true -> owned new = true ->
  merge1 cx1 old new = merge1 cx2 old new /\ owned (fst (merge1 cx1 old new)) = true.
Proof.
  intros Ho Hn. unfold merge1. rewrite (rd_owned cx1 cx2 new), (rd_owned cx1 cx2 old) by auto.
  destruct (_ && _); auto.
Qed.

Lemma merge_ok e n :
  nm_ok e = true -> nm_ok n = true ->
  merge cx1 e n = merge cx2 e n /\ nm_ok (fst (merge cx1 e n)) = true.
Proof.
  intros He Hn. unfold nm_ok in He, Hn. split_ok. unfold merge.
  destruct (merge1_ok (n_name e) (n_name n)) as [E1 O1]; auto.
  destruct (merge1_ok (n_model e) (n_model n)) as [E2 O2]; auto.
  destruct (merge1_ok (n_os e) (n_os n)) as [E3 O3]; auto.
  destruct (merge1_ok (n_manuf e) (n_manuf n)) as [E4 O4]; auto.
  rewrite E1, E2, E3, E4 in *.
  destruct (merge1 cx2 (n_name e) (n_name n)), (merge1 cx2 (n_model e) (n_model n)),
           (merge1 cx2 (n_os e) (n_os n)), (merge1 cx2 (n_manuf e) (n_manuf n)). cbn [fst] in *.
  split; auto. unfold nm_ok; cbn [n_name n_model n_manuf n_os]. and_ok; auto.
Qed.

Lemma h_same_names x : forallb nm_ok x = true -> h_same (fun h => h_with_names h x).
Proof. intros Hx h H. unfold host_ok in *. cbn [h_with_names h_ip h_mac h_names]. split_ok. and_ok; auto. Qed.
Lemma me_same_names x : forallb nm_ok x = true -> me_same (fun e => me_with_names e x).
Proof. intros Hx e H. unfold mac_ok in *. cbn [me_with_names me_mac me_names]. split_ok. and_ok; auto. Qed.

Lemma host_names_ok h : host_ok h = true -> forallb nm_ok (h_names h) = true.
Proof. unfold host_ok. intros H. split_ok. auto. Qed.
Lemma mac_names_ok e : mac_ok e = true -> forallb nm_ok (me_names e) = true.
Proof. unfold mac_ok. intros H. split_ok. auto. Qed.

Lemma update_name_ok i key n st :
  no_ref st = true -> nm_ok n = true ->
  update_name cx1 i key n st = update_name cx2 i key n st /\ no_ref (update_name cx1 i key n st) = true.
Proof.
  intros H Hn. unfold update_name.
  destruct (find_host key (st_hosts st)) as [h|] eqn:Hf; auto.
  pose proof (find_host_ok _ _ _ H Hf) as Hok.
  destruct (merge_ok (get_name i (h_names h)) n) as [Em Om]; auto using get_name_ok, host_names_ok.
  rewrite Em in *. destruct (merge cx2 (get_name i (h_names h)) n) as [hn notify]. cbn [fst] in *.
  assert (H1 : no_ref (upd_host key (fun h' => h_with_names h' (set_nth i hn (h_names h'))) st) = true).
  { unfold upd_host. apply set_hosts_no_ref; auto. apply forallb_map_id; [|apply nr_hosts; auto].
    intros h' Hh'. destruct (beqb _ _); auto. apply h_same_names; auto.
    apply forallb_set_nth; auto using host_names_ok. }
  destruct notify; auto.
  set (st2 := upd_host key (fun h' => h_with_dirty h' true) _).
  assert (H2 : no_ref st2 = true) by (apply upd_host_no_ref; auto using h_same_dirty).
  split.
  - unfold upd_me. f_equal. apply map_ext_forallb with (p := mac_ok); [apply nr_macs; auto|].
    intros e He. destruct (Nat.eqb _ _); auto.
    destruct (merge_ok (get_name i (me_names e)) hn) as [Em2 _]; auto using get_name_ok, mac_names_ok.
    rewrite Em2. reflexivity.
  - unfold upd_me. apply set_macs_no_ref; auto. apply forallb_map_id; [|apply nr_macs; auto].
    intros e He. destruct (Nat.eqb _ _); auto. apply me_same_names; auto.
    apply forallb_set_nth; auto using mac_names_ok.
    destruct (merge_ok (get_name i (me_names e)) hn) as [_ Om2]; auto using get_name_ok, mac_names_ok.
Qed.

Lemma dhcpv4_update_ok xmac ip n st :
  no_ref st = true -> src_ok xmac = true -> nm_ok n = true ->
  dhcpv4_update cx1 xmac ip n st = dhcpv4_update cx2 xmac ip n st /\ no_ref (dhcpv4_update cx1 xmac ip n st) = true.
Proof.
  intros H Hm Hn. unfold dhcpv4_update. destruct (ip_unspec_or_invalid ip); auto.
  destruct (find_or_create_host_ok xmac (Fresh ip) st H Hm eq_refl) as [E1 N1]. rewrite E1 in *.
  destruct (update_name_ok NM_DHCP ip n _ N1 Hn) as [E2 N2]. rewrite E2 in *.
  destruct (find_host ip _) as [h|]; auto. split; auto.
  apply online_transition_no_ref. apply upd_me_no_ref; auto using me_same_offer.
Qed.

Lemma set_dhcpv4_offer_ok xmac ip n st :
  no_ref st = true -> src_ok xmac = true -> nm_ok n = true ->
  set_dhcpv4_offer cx1 xmac ip n st = set_dhcpv4_offer cx2 xmac ip n st /\ no_ref (set_dhcpv4_offer cx1 xmac ip n st) = true.
Proof.
  intros H Hm Hn. unfold set_dhcpv4_offer.
  destruct (mac_find_or_create_ok xmac st H Hm) as (Eq & N1 & Hok). rewrite Eq in *.
  destruct (mac_find_or_create cx2 xmac st) as [st1 e]. cbn [fst snd] in *. split; auto.
  unfold upd_me. apply set_macs_no_ref; auto. apply forallb_map_id; [|apply nr_macs; auto].
  intros e' He'. destruct (Nat.eqb _ _); auto.
  unfold mac_ok in *. cbn [me_with_names me_with_offer me_mac me_names]. split_ok. and_ok; auto.
  apply forallb_set_nth; auto.
Qed.

Lemma is_captured_indep mac st : no_ref st = true -> is_captured cx1 mac st = is_captured cx2 mac st.
Proof. intros H. unfold is_captured. rewrite find_mac_indep by (apply nr_macs; auto). reflexivity. Qed.

Lemma capture_ok xmac st :
  no_ref st = true -> src_ok xmac = true ->
  capture cx1 xmac st = capture cx2 xmac st /\ no_ref (capture cx1 xmac st) = true.
Proof.
  intros H Hm. unfold capture.
  destruct (mac_find_or_create_ok xmac st H Hm) as (Eq & N1 & Hok). rewrite Eq in *.
  destruct (mac_find_or_create cx2 xmac st) as [st1 e]. cbn [fst snd] in *.
  destruct (_ || _); split; auto. apply upd_me_no_ref; auto using me_same_captured.
Qed.

Lemma release_ok mac st :
  no_ref st = true -> release cx1 mac st = release cx2 mac st /\ no_ref (release cx1 mac st) = true.
Proof.
  intros H. unfold release. rewrite find_mac_indep by (apply nr_macs; auto).
  destruct (find_mac cx2 mac (st_macs st)); split; auto. apply upd_me_no_ref; auto using me_same_captured.
Qed.

End Session.

(* ---------------------------------------------------------------- *)
(* outputs: notifications, Parse *)

Section Outputs.
Variables cx1 cx2 : ctx.
Hypothesis E : cxeq cx1 cx2.

Lemma show_nm_indep n : nm_ok n = true -> show_nm cx1 n = show_nm cx2 n.
Proof.
  intros H. unfold nm_ok in H. split_ok. unfold show_nm.
  rewrite (rd_owned cx1 cx2 (n_name n)), (rd_owned cx1 cx2 (n_model n)),
          (rd_owned cx1 cx2 (n_manuf n)), (rd_owned cx1 cx2 (n_os n)); auto.
Qed.

Lemma show_names_indep l : forallb nm_ok l = true -> show_names cx1 l = show_names cx2 l.
Proof.
  intros H. unfold show_names. f_equal. apply map_ext_forallb with (p := nm_ok); auto.
  intros n Hn. apply show_nm_indep; auto.
Qed.

Lemma notification_indep h e : host_ok h = true -> mac_ok e = true -> notification cx1 h e = notification cx2 h e.
Proof.
  intros Hh He. unfold notification.
  pose proof (host_names_ok _ Hh) as Hn1. pose proof (mac_names_ok _ He) as Hn2.
  unfold host_ok in Hh. unfold mac_ok in He. split_ok.
  rewrite (rd_owned cx1 cx2 (h_ip h)), (rd_owned cx1 cx2 (h_mac h)) by auto.
  rewrite (show_names_indep [_; _; _; _; _]); auto.
  cbn [forallb]. rewrite !get_name_ok; auto.
Qed.

Lemma me_of_ok h st : no_ref st = true -> mac_ok (me_of h st) = true.
Proof.
  intros H. unfold me_of. destruct (me_by_id _ _) eqn:F; [eapply me_by_id_ok; eauto | reflexivity].
Qed.

Lemma make_offline_ok key st :
  no_ref st = true ->
  make_offline cx1 key st = make_offline cx2 key st /\ no_ref (fst (make_offline cx1 key st)) = true.
Proof.
  intros H. unfold make_offline.
  destruct (find_host key (st_hosts st)) as [h0|]; auto.
  set (st1 := upd_host key _ st).
  assert (H1 : no_ref st1 = true) by (apply upd_host_no_ref; auto using h_same_od).
  destruct (find_host key (st_hosts st1)) as [h|] eqn:F; auto.
  rewrite (notification_indep h (me_of h st1)); eauto using find_host_ok, me_of_ok.
  split; auto. cbn [fst]. apply upd_me_no_ref; auto using me_same_online.
Qed.

Lemma fold_make_offline_ok l : forall st outs,
  no_ref st = true ->
  fold_left (fun acc k => let '(s', o) := make_offline cx1 k (fst acc) in (s', snd acc ++ o)) l (st, outs) =
  fold_left (fun acc k => let '(s', o) := make_offline cx2 k (fst acc) in (s', snd acc ++ o)) l (st, outs) /\
  no_ref (fst (fold_left (fun acc k => let '(s', o) := make_offline cx1 k (fst acc) in (s', snd acc ++ o)) l (st, outs))) = true.
Proof.
  induction l as [|k r IH]; intros st outs H; cbn [fold_left fst snd]; auto.
  destruct (make_offline_ok k st H) as [Em Nm]. rewrite Em in *.
  destruct (make_offline cx2 k st) as [s' o]. cbn [fst] in Nm. apply IH; auto.
Qed.

Lemma notify_host_ok key trans st :
  no_ref st = true ->
  notify_host cx1 key trans st = notify_host cx2 key trans st /\ no_ref (fst (notify_host cx1 key trans st)) = true.
Proof.
  intros H. unfold notify_host.
  destruct (find_host key (st_hosts st)) as [h|]; auto.
  destruct (negb (h_dirty h)); auto.
  match goal with |- context [fold_left _ ?l (st, [])] => set (offl := l) end.
  destruct (fold_make_offline_ok offl st [] H) as [Ef Nf]. rewrite Ef. rewrite Ef in Nf. clear Ef.
  match goal with |- context [fold_left ?f offl (st, [])] => destruct (fold_left f offl (st, [])) as [st1 outs] end.
  cbn [fst] in Nf.
  destruct (find_host key (st_hosts st1)) as [h1|] eqn:F; auto.
  rewrite (notification_indep h1 (me_of h1 st1)); eauto using find_host_ok, me_of_ok.
  split; auto. cbn [fst]. apply upd_host_no_ref; auto using h_same_dirty.
Qed.

Lemma parse_create_ok xmac xip st :
  no_ref st = true -> src_ok xmac = true -> src_ok xip = true ->
  parse_create cx1 xmac xip st = parse_create cx2 xmac xip st /\
  no_ref (fst (fst (parse_create cx1 xmac xip st))) = true.
Proof.
  intros H Hm Hi. unfold parse_create.
  rewrite (src_val_indep cx1 cx2 xip) by auto.
  destruct (find_or_create_host_ok cx1 cx2 E xmac xip st H Hm Hi) as [E1 N1]. rewrite E1 in *.
  destruct (find_host _ _) as [h|]; auto.
  destruct (h_online h); auto. split; auto. cbn [fst]. apply online_transition_no_ref; auto.
Qed.

Lemma parse_hosts_ok c st :
  no_ref st = true ->
  parse_hosts c cx1 st = parse_hosts c cx2 st /\ no_ref (fst (fst (parse_hosts c cx1 st))) = true.
Proof.
  intros H. unfold parse_hosts. rewrite E.
  repeat match goal with |- context [if ?b then _ else _] => destruct b end; auto;
    apply parse_create_ok; auto.
Qed.

End Outputs.

(* ---------------------------------------------------------------- *)
(* observation of the tables *)

Section Dump.
Variables cx1 cx2 : ctx.

Lemma show_rvs_indep l : forallb owned l = true -> show_rvs cx1 l = show_rvs cx2 l.
Proof.
  intros H. unfold show_rvs. f_equal. apply map_ext_forallb with (p := owned); auto.
  intros v Hv. rewrite (rd_owned cx1 cx2 v); auto.
Qed.

Lemma show_host_indep h : host_ok h = true -> show_host cx1 h = show_host cx2 h.
Proof.
  intros H. pose proof (host_names_ok _ H). unfold host_ok in H. split_ok. unfold show_host.
  rewrite (rd_owned cx1 cx2 (h_ip h)), (rd_owned cx1 cx2 (h_mac h)), (show_names_indep cx1 cx2) by auto. reflexivity.
Qed.
Lemma show_mac_indep e : mac_ok e = true -> show_mac cx1 e = show_mac cx2 e.
Proof.
  intros H. pose proof (mac_names_ok _ H). unfold mac_ok in H. split_ok. unfold show_mac.
  rewrite (rd_owned cx1 cx2 (me_mac e)), (show_names_indep cx1 cx2) by auto. reflexivity.
Qed.
Lemma show_lease_indep l : lease_ok l = true -> show_lease cx1 l = show_lease cx2 l.
Proof.
  intros H. unfold lease_ok in H. split_ok. unfold show_lease.
  rewrite (rd_owned cx1 cx2 (l_key l)), (rd_owned cx1 cx2 (l_cid l)), (rd_owned cx1 cx2 (l_mac l)),
          (rd_owned cx1 cx2 (l_xid l)), (rd_owned cx1 cx2 (l_name l)) by auto. reflexivity.
Qed.
Lemma show_router_indep r : router_ok r = true -> show_router cx1 r = show_router cx2 r.
Proof.
  intros H. unfold router_ok in H. split_ok. unfold show_router.
  rewrite (rd_owned cx1 cx2 (r_ip r)), (rd_owned cx1 cx2 (r_mac r)), (rd_owned cx1 cx2 (r_slla r)),
          (rd_owned cx1 cx2 (r_route r)), (show_rvs_indep (r_prefixes r)), (show_rvs_indep (r_rdnss r)),
          (show_rvs_indep (r_dnssl r)) by auto. reflexivity.
Qed.
Lemma show_rec_indep r : rec_ok r = true -> show_rec cx1 r = show_rec cx2 r.
Proof.
  intros H. unfold rec_ok in H. split_ok. unfold show_rec.
  rewrite (rd_owned cx1 cx2 (dr_val r)), (rd_owned cx1 cx2 (dr_name r)) by auto. reflexivity.
Qed.
Lemma show_recs_indep l : forallb rec_ok l = true -> map (show_rec cx1) (rec_sorted l) = map (show_rec cx2) (rec_sorted l).
Proof.
  intros H. apply map_ext_forallb with (p := rec_ok); [apply forallb_sort_by; auto|]. apply show_rec_indep.
Qed.
Lemma show_dns_indep e : dns_ok e = true -> show_dns cx1 e = show_dns cx2 e.
Proof.
  intros H. unfold dns_ok in H. split_ok. unfold show_dns.
  rewrite (rd_owned cx1 cx2 (d_name e)), (show_recs_indep (d_a e)), (show_recs_indep (d_aaaa e)),
          (show_recs_indep (d_cname e)), (show_recs_indep (d_ptr e)) by auto. reflexivity.
Qed.

Lemma show_mcache_indep c : mcache_ok c = true -> show_mcache cx1 c = show_mcache cx2 c.
Proof.
  intros H. unfold mcache_ok in H. split_ok. unfold show_mcache.
  rewrite (rd_owned cx1 cx2 (mc_key c)) by auto. f_equal. f_equal. f_equal.
  apply map_ext_forallb with (p := fun x : rv * rv * rv => owned (fst (fst x)) && owned (snd (fst x)) && owned (snd x)); auto.
  intros x Hx. split_ok.
  rewrite (rd_owned cx1 cx2 (fst (fst x))), (rd_owned cx1 cx2 (snd (fst x))), (rd_owned cx1 cx2 (snd x)) by auto. reflexivity.
Qed.

End Dump.

Lemma dump_indep s1 s2 st : no_ref st = true -> dump s1 st = dump s2 st.
Proof.
  intros H. nr_destruct H. unfold dump. cbv zeta.
  rewrite (map_ext_forallb host_ok (show_host (nocx s1)) (show_host (nocx s2)))
    by (auto using forallb_sort_by, show_host_indep).
  rewrite (map_ext_forallb mac_ok (show_mac (nocx s1)) (show_mac (nocx s2))) by (auto using show_mac_indep).
  rewrite (map_ext_forallb lease_ok (show_lease (nocx s1)) (show_lease (nocx s2)))
    by (auto using forallb_sort_by, show_lease_indep).
  rewrite (map_ext_forallb router_ok (show_router (nocx s1)) (show_router (nocx s2)))
    by (auto using forallb_sort_by, show_router_indep).
  rewrite (map_ext_forallb dns_ok (show_dns (nocx s1)) (show_dns (nocx s2)))
    by (auto using forallb_sort_by, show_dns_indep).
  rewrite (map_ext_forallb mcache_ok (show_mcache (nocx s1)) (show_mcache (nocx s2)))
    by (auto using forallb_sort_by, show_mcache_indep).
  reflexivity.
Qed.

(* ---------------------------------------------------------------- *)
(* handlers *)

Section Handlers.
Variables cx1 cx2 : ctx.
Hypothesis E : cxeq cx1 cx2.

Lemma l_with_ok l xid name ip : lease_ok l = true -> owned xid = true -> owned name = true -> lease_ok (l_with l xid name ip) = true.
Proof. intros H Hx Hn. unfold lease_ok in *. cbn [l_with l_key l_cid l_mac l_xid l_name]. split_ok. and_ok; auto. Qed.

Lemma upd_lease_no_ref key f st :
  (forall l, lease_ok l = true -> lease_ok (f l) = true) -> no_ref st = true -> no_ref (upd_lease key f st) = true.
Proof.
  intros Hf H. unfold upd_lease. apply set_leases_no_ref; auto.
  apply forallb_map_id; [|apply nr_leases; auto]. intros l Hl. destruct (beqb _ _); auto.
Qed.

Lemma lease_find_or_create_ok xcid xmac xname st :
  no_ref st = true -> src_ok xcid = true -> src_ok xmac = true -> src_ok xname = true ->
  lease_find_or_create cx1 xcid xmac xname st = lease_find_or_create cx2 xcid xmac xname st /\
  no_ref (lease_find_or_create cx1 xcid xmac xname st) = true.
Proof.
  intros H Hc Hm Hn. unfold lease_find_or_create.
  rewrite (src_val_indep cx1 cx2 xcid), (src_val_indep cx1 cx2 xname), (src_val_indep cx1 cx2 xmac) by auto.
  rewrite !(retain_indep _ cx1 cx2) by auto.
  rewrite (is_captured_indep cx1 cx2 _ st H).
  assert (Hcreate : forall st0, no_ref st0 = true ->
    no_ref (set_leases st0 (remove_first (fun l' => beqb (l_kval l') (src_val cx2 xcid)) (st_leases st0) ++
      [{| l_key := retain RP_lease_key cx2 xcid; l_kval := src_val cx2 xcid; l_cid := retain RP_lease_cid cx2 xcid;
          l_mac := retain RP_lease_mac cx2 xmac; l_xid := Owned []; l_name := retain RP_lease_name cx2 xname; l_ip := [];
          l_sub := is_captured cx2 (src_val cx2 xmac) st |}])) = true).
  { intros st0 H0. apply set_leases_no_ref; auto. apply forallb_snoc.
    - apply forallb_remove_first. apply nr_leases; auto.
    - unfold lease_ok; cbn [l_key l_cid l_mac l_xid l_name]. rewrite !retain_owned. reflexivity. }
  destruct (find_lease _ _) as [l|] eqn:F; auto.
  pose proof (find_lease_ok _ _ _ H F) as Hok. pose proof Hok as Hok'. unfold lease_ok in Hok'. split_ok.
  rewrite (rd_owned cx1 cx2 (l_name l)), (rd_owned cx1 cx2 (l_mac l)) by auto.
  match goal with |- context [if ?b then upd_lease ?k ?f st else st] =>
    assert (Nupd : no_ref (if b then upd_lease k f st else st) = true) end.
  { destruct (_ && _); auto. apply upd_lease_no_ref; auto. intros l' Hl'.
    pose proof Hl' as Hl2. unfold lease_ok in Hl2. split_ok. apply l_with_ok; auto using retain_owned. }
  destruct (_ && beqb (rd cx2 (l_mac l)) _); auto.
Qed.

Lemma show_decl_indep typ cid mac xid ip :
  owned cid = true -> owned mac = true -> owned xid = true ->
  show_decl cx1 typ cid mac xid ip = show_decl cx2 typ cid mac xid ip.
Proof.
  intros H1 H2 H3. unfold show_decl.
  rewrite (rd_owned cx1 cx2 cid), (rd_owned cx1 cx2 mac), (rd_owned cx1 cx2 xid) by auto. reflexivity.
Qed.

Lemma show_reply_indep typ yi : show_reply cx1 typ yi = show_reply cx2 typ yi.
Proof. unfold show_reply. rewrite E. reflexivity. Qed.

Lemma dm_name_entry_ok m : dm_name_entry cx1 m = dm_name_entry cx2 m /\ nm_ok (dm_name_entry cx1 m) = true.
Proof.
  unfold dm_name_entry. assert (Hs : src_ok (dm_name_src m) = true) by (unfold dm_name_src; destruct (dm_name m); reflexivity).
  rewrite (retain_indep _ cx1 cx2) by auto. split; [reflexivity|].
  unfold nm_ok; cbn [n_name n_model n_manuf n_os]. rewrite retain_owned. reflexivity.
Qed.

Lemma dm_cid_src_ok m : src_ok (dm_cid_src m) = true.
Proof. unfold dm_cid_src. destruct (dm_cid m); reflexivity. Qed.
Lemma dm_name_src_ok m : src_ok (dm_name_src m) = true.
Proof. unfold dm_name_src. destruct (dm_name m); reflexivity. Qed.

Lemma decl_frame_indep typ (xcid xmac : src) ip :
  src_ok xcid = true -> src_ok xmac = true ->
  show_decl cx1 typ (retain RP_decline_cid cx1 xcid) (retain RP_decline_mac cx1 xmac) (retain RP_decline_xid cx1 (fsl L_DHCP_XID)) ip =
  show_decl cx2 typ (retain RP_decline_cid cx2 xcid) (retain RP_decline_mac cx2 xmac) (retain RP_decline_xid cx2 (fsl L_DHCP_XID)) ip.
Proof.
  intros Hc Hm. rewrite !(retain_indep _ cx1 cx2) by auto. apply show_decl_indep; apply retain_owned.
Qed.

Lemma dhcp_step0_ok m st :
  no_ref st = true ->
  dhcp_step0 cx1 m st = dhcp_step0 cx2 m st /\ no_ref (fst (dhcp_step0 cx1 m st)) = true.
Proof.
  intros H. unfold dhcp_step0. cbv zeta.
  pose proof (dm_cid_src_ok m) as Hc. pose proof (dm_name_src_ok m) as Hn.
  rewrite (src_val_indep cx1 cx2 (dm_cid_src m)) by auto.
  assert (Hreq : match dm_reqip m with Some l => lval cx1 l | None => [] end =
                 match dm_reqip m with Some l => lval cx2 l | None => [] end)
    by (destruct (dm_reqip m); auto using lval_indep).
  rewrite Hreq. clear Hreq.
  destruct (dm_name_entry_ok m) as [En On]. rewrite En in *.
  destruct (lease_find_or_create_ok (dm_cid_src m) (fsl L_DHCP_CHADDR) (dm_name_src m) st H Hc eq_refl Hn) as [E1 N1].
  rewrite E1 in *.
  set (st1 := lease_find_or_create cx2 (dm_cid_src m) (fsl L_DHCP_CHADDR) (dm_name_src m) st) in *.
  set (key := src_val cx2 (dm_cid_src m)).
  set (reqip := match dm_reqip m with Some l => lval cx2 l | None => [] end).
  destruct (dm_type m =? 1).
  { (* discover *)
    destruct (dm_res m =? 2).
    - rewrite (retain_indep _ cx1 cx2 (fsl L_DHCP_XID)) by auto.
      set (st2 := upd_lease key _ st1).
      assert (N2 : no_ref st2 = true).
      { apply upd_lease_no_ref; auto. intros l Hl. pose proof Hl as Hl2. unfold lease_ok in Hl2. split_ok.
        apply l_with_ok; auto using retain_owned. }
      destruct (find_lease key (st_leases st2)) as [l|] eqn:F; auto.
      pose proof (find_lease_ok _ _ _ N2 F) as Hok. unfold lease_ok in Hok. split_ok.
      destruct (set_dhcpv4_offer_ok cx1 cx2 E (Held (l_mac l)) (dm_yi m) (dm_name_entry cx2 m) st2) as [E3 N3]; auto.
      rewrite E3 in *. rewrite show_reply_indep. split; [|exact N3].
      f_equal. f_equal. destruct (ip_unspec_or_invalid reqip); auto.
      f_equal. apply decl_frame_indep; auto.
    - split; auto. cbn [fst]. apply set_leases_no_ref; auto. apply forallb_remove_first. apply nr_leases; auto. }
  destruct (dm_type m =? 3).
  { (* request *)
    destruct (dm_cls m =? 0); auto.
    match goal with |- context [if ?b then dhcpv4_update cx1 ?x ?ip ?n st1 else st1] =>
      assert (H2 : (if b then dhcpv4_update cx1 x ip n st1 else st1) = (if b then dhcpv4_update cx2 x ip n st1 else st1) /\
                   no_ref (if b then dhcpv4_update cx1 x ip n st1 else st1) = true) end.
    { destruct (dm_cls m =? 3); auto. apply dhcpv4_update_ok; auto. }
    destruct H2 as [E2 N2]. rewrite E2 in *.
    match goal with |- context [find_lease key (st_leases ?s)] => set (st2 := s) in * end.
    destruct (dm_res m =? 5).
    - destruct (find_lease key (st_leases st2)) as [l|] eqn:F; auto.
      pose proof (find_lease_ok _ _ _ N2 F) as Hok. unfold lease_ok in Hok. split_ok.
      rewrite (retain_indep _ cx1 cx2 (dm_name_src m)) by auto.
      set (st3 := upd_lease key _ st2).
      assert (N3 : no_ref st3 = true).
      { apply upd_lease_no_ref; auto. intros l' Hl'. pose proof Hl' as Hl2. unfold lease_ok in Hl2. split_ok.
        apply l_with_ok; auto using retain_owned. }
      destruct (dhcpv4_update_ok cx1 cx2 E (Held (l_mac l)) (dm_yi m) (dm_name_entry cx2 m) st3) as [E4 N4]; auto.
      rewrite E4 in *. rewrite show_reply_indep. split; [reflexivity|exact N4].
    - destruct (dm_res m =? 6); auto.
      rewrite show_reply_indep. split; auto. f_equal. f_equal.
      destruct (dm_cls m =? 3); auto. f_equal. apply decl_frame_indep; auto. }
  destruct ((dm_type m =? 4) || (dm_type m =? 7)).
  { destruct (lease_find_or_create_ok (dm_cid_src m) (fsl L_DHCP_CHADDR) (Fresh []) st H Hc eq_refl eq_refl) as [E5 N5].
    rewrite E5 in *. split; [reflexivity|exact N5]. }
  destruct (dm_type m =? 2); auto.
  split; auto. f_equal. f_equal. apply decl_frame_indep; auto.
Qed.

Lemma dhcp_step_ok m st :
  no_ref st = true ->
  dhcp_step cx1 m st = dhcp_step cx2 m st /\ no_ref (fst (dhcp_step cx1 m st)) = true.
Proof.
  intros H. unfold dhcp_step. destruct (dhcp_step0_ok m st H) as [E0 N0]. rewrite E0 in *.
  destruct (dhcp_step0 cx2 m st) as [st1 outs]. cbn [fst] in *.
  rewrite (src_val_indep cx1 cx2 (dm_cid_src m)) by (auto using dm_cid_src_ok).
  split; [reflexivity|]. apply upd_lease_no_ref; [|exact N0]. intros l Hl. exact Hl.
Qed.

Lemma hunt_step_indep ip st : no_ref st = true -> hunt_step cx1 ip st = hunt_step cx2 ip st.
Proof.
  intros H. unfold hunt_step. destruct (find _ (st_leases st)) as [l|] eqn:F; auto.
  pose proof (find_some_forallb lease_ok _ _ _ (nr_leases _ H) F) as Hok. unfold lease_ok in Hok. split_ok.
  destruct (l_sub l); auto.
  rewrite (retain_indep _ cx1 cx2 (Held (l_mac l))), (retain_indep _ cx1 cx2 (Held (l_cid l))) by auto.
  rewrite (show_decl_indep "7"); auto using retain_owned.
Qed.

Lemma ra_xmac_ok m : src_ok (ra_xmac m) = true.
Proof. unfold ra_xmac. destruct (ra_slla m); reflexivity. Qed.

Lemma ra_mk_ok m old :
  match old with Some r => router_ok r = true | None => True end ->
  ra_mk cx1 m old = ra_mk cx2 m old /\ router_ok (ra_mk cx2 m old) = true.
Proof.
  intros Ho. pose proof (ra_xmac_ok m) as Hx. split.
  - unfold ra_mk. rewrite E.
    rewrite !(retain_indep _ cx1 cx2 (fsl L_IP6_SRC)), !(retain_indep _ cx1 cx2 (ra_xmac m)) by auto.
    f_equal;
      try (apply map_ext; intros p; cbv beta; rewrite ?(join_labels_indep cx1 cx2 _ E); apply retain_indep; auto; fail);
      try (destruct (ra_slla m); auto; apply retain_indep; auto; fail);
      try (destruct (ra_route m) as [[pl off]|]; auto; apply retain_indep; auto; fail).
  - unfold ra_mk, router_ok. cbn [r_ip r_mac r_slla r_prefixes r_rdnss r_dnssl r_route]. and_ok.
    + destruct old as [r|]; [unfold router_ok in Ho; split_ok; auto | apply retain_owned].
    + destruct old as [r|]; [unfold router_ok in Ho; split_ok; auto | apply retain_owned].
    + destruct (ra_slla m); [apply retain_owned | reflexivity].
    + apply forallb_map_all. intros p. apply retain_owned.
    + apply forallb_map_all. intros p. apply retain_owned.
    + apply forallb_map_all. intros p. apply retain_owned.
    + destruct (ra_route m) as [[pl off]|]; [apply retain_owned | reflexivity].
Qed.

Lemma ra_step_ok m fhost st :
  no_ref st = true ->
  ra_step cx1 m fhost st = ra_step cx2 m fhost st /\ no_ref (ra_step cx1 m fhost st) = true.
Proof.
  intros H. unfold ra_step. destruct fhost as [k|]; auto. cbv zeta. rewrite E.
  assert (Hr : forallb router_ok (st_routers st) = true) by (nr_destruct H; auto).
  destruct (find _ (st_routers st)) as [r|].
  - assert (Em : map (fun r' => if beqb (r_key r') (fsub (cx_frame cx2) L_IP6_SRC) then ra_mk cx1 m (Some r') else r') (st_routers st) =
                 map (fun r' => if beqb (r_key r') (fsub (cx_frame cx2) L_IP6_SRC) then ra_mk cx2 m (Some r') else r') (st_routers st)).
    { apply map_ext_forallb with (p := router_ok); auto. intros r' Hr'. destruct (beqb _ _); auto.
      destruct (ra_mk_ok m (Some r') Hr'); auto. }
    rewrite Em. split; auto. apply set_routers_no_ref; auto.
    apply forallb_map_id; auto. intros r' Hr'. destruct (beqb _ _); auto. destruct (ra_mk_ok m (Some r') Hr'); auto.
  - destruct (ra_mk_ok m None I) as [Em Om]. rewrite Em. split; auto.
    apply set_routers_no_ref; auto. apply forallb_snoc; auto.
Qed.

Lemma add_rec_ok r l : rec_ok r = true -> forallb rec_ok l = true -> forallb rec_ok (fst (add_rec r l)) = true.
Proof. intros Hr Hl. unfold add_rec. destruct (existsb _ _); cbn [fst]; auto. apply forallb_snoc; auto. Qed.

Lemma dns_rr_ok acc rr :
  dns_ok (fst acc) = true -> dns_rr cx1 acc rr = dns_rr cx2 acc rr /\ dns_ok (fst (dns_rr cx1 acc rr)) = true.
Proof.
  intros H. pose proof H as H0. unfold dns_ok in H0. split_ok. unfold dns_rr. rewrite E.
  destruct rr as [name off|name off|name cname|ptr ip];
    rewrite ?(join_labels_indep cx1 cx2) by auto; rewrite ?(retain_indep _ cx1 cx2) by auto;
    try (destruct (is_nil ip); [split; [reflexivity|exact H]|]);
    match goal with |- context [add_rec ?r ?l] => pose proof (add_rec_ok r l) as Ha; destruct (add_rec r l) as [l' u] end;
    (split; [reflexivity|]); cbn [fst] in *; unfold dns_ok; cbn [d_name d_a d_aaaa d_cname d_ptr]; and_ok; auto;
    try (apply Ha; auto; unfold rec_ok; cbn [dr_name dr_val]; rewrite !retain_owned; reflexivity).
Qed.

Lemma fold_dns_rr_ok rrs : forall acc,
  dns_ok (fst acc) = true ->
  fold_left (dns_rr cx1) rrs acc = fold_left (dns_rr cx2) rrs acc /\ dns_ok (fst (fold_left (dns_rr cx1) rrs acc)) = true.
Proof.
  induction rrs as [|rr r IH]; intros acc H; cbn [fold_left]; auto.
  destruct (dns_rr_ok acc rr H) as [E1 O1]. rewrite E1 in *. apply IH; auto.
Qed.

Lemma dns_step_ok m st :
  no_ref st = true -> dns_step cx1 m st = dns_step cx2 m st /\ no_ref (dns_step cx1 m st) = true.
Proof.
  intros H. unfold dns_step. cbv zeta. rewrite (join_labels_indep cx1 cx2) by auto.
  rewrite (retain_indep _ cx1 cx2) by auto.
  assert (Hd : forallb dns_ok (st_dns st) = true) by (nr_destruct H; auto).
  match goal with |- context [fold_left (dns_rr cx1) _ (?e, false)] => set (e0 := e) end.
  assert (O0 : dns_ok e0 = true).
  { unfold e0. destruct (find _ (st_dns st)) eqn:F; [eapply find_some_forallb; eauto|].
    unfold dns_ok; cbn [d_name d_a d_aaaa d_cname d_ptr]. rewrite retain_owned. reflexivity. }
  destruct (fold_dns_rr_ok (dq_rrs m) (e0, false) O0) as [Ef Of]. rewrite Ef in *.
  destruct (fold_left (dns_rr cx2) (dq_rrs m) (e0, false)) as [e1 updated]. cbn [fst] in *.
  destruct updated; auto. split; auto. apply set_dns_no_ref; auto. apply forallb_snoc; auto.
  apply forallb_remove_first; auto.
Qed.

Lemma fold_update_name_ok slot (ents : list (bytes * nameent * rv)) : forall st,
  no_ref st = true -> forallb (fun x => nm_ok (snd (fst x))) ents = true ->
  fold_left (fun s x => update_name cx1 slot (fst (fst x)) (snd (fst x)) s) ents st =
  fold_left (fun s x => update_name cx2 slot (fst (fst x)) (snd (fst x)) s) ents st /\
  no_ref (fold_left (fun s x => update_name cx1 slot (fst (fst x)) (snd (fst x)) s) ents st) = true.
Proof.
  induction ents as [|x r IH]; intros st H Ho; cbn [fold_left]; auto.
  cbn [forallb] in Ho. split_ok.
  destruct (update_name_ok cx1 cx2 slot (fst (fst x)) (snd (fst x)) st) as [E1 N1]; auto.
  rewrite E1 in *. apply IH; auto.
Qed.

Lemma mdns_qname_fold qs : forall acc : bytes,
  fold_left (fun acc q => let n := fqdn cx1 q in
               if negb (ends_with tcp_local n) && negb (ends_with udp_local n) && ends_with dot_local n
               then trim_suffix dot_local n else acc) qs acc =
  fold_left (fun acc q => let n := fqdn cx2 q in
               if negb (ends_with tcp_local n) && negb (ends_with udp_local n) && ends_with dot_local n
               then trim_suffix dot_local n else acc) qs acc.
Proof.
  induction qs as [|q r IH]; intros acc; cbn [fold_left]; auto.
  assert (Hq : fqdn cx1 q = fqdn cx2 q) by (unfold fqdn; rewrite (join_labels_indep cx1 cx2 q E); reflexivity).
  cbv zeta. rewrite Hq. apply IH.
Qed.

Lemma mdns_qname_indep m : mdns_qname cx1 m = mdns_qname cx2 m.
Proof. unfold mdns_qname. apply mdns_qname_fold. Qed.

Lemma mdns_model_ok m : mdns_model cx1 m = mdns_model cx2 m /\ owned (mdns_model cx2 m) = true.
Proof. unfold mdns_model. destruct (mq_model m); auto using retain_indep, retain_owned. Qed.

Lemma mdns_ent_ok model a :
  owned model = true ->
  mdns_ent cx1 model a = mdns_ent cx2 model a /\
  nm_ok (snd (fst (mdns_ent cx2 model a))) = true /\ owned (snd (mdns_ent cx2 model a)) = true.
Proof.
  intros Hm. unfold mdns_ent. rewrite E. unfold fqdn. rewrite (join_labels_indep cx1 cx2 _ E).
  rewrite !(retain_indep _ cx1 cx2) by auto. cbn [fst snd]. split; [reflexivity|split].
  - unfold nm_ok; cbn [n_name n_model n_manuf n_os]. rewrite retain_owned, Hm. reflexivity.
  - apply retain_owned.
Qed.

Lemma mdns_step_ok slot m fhost st :
  no_ref st = true ->
  mdns_step cx1 slot m fhost st = mdns_step cx2 slot m fhost st /\ no_ref (mdns_step cx1 slot m fhost st) = true.
Proof.
  intros H. unfold mdns_step. destruct (negb (mq_resp m)).
  - cbv zeta. rewrite mdns_qname_indep. destruct (is_nil _); auto. destruct fhost as [key|]; auto.
    rewrite (retain_indep _ cx1 cx2) by auto.
    apply update_name_ok; auto; unfold nm_ok; cbn [n_name n_model n_manuf n_os]; rewrite ?retain_owned; reflexivity.
  - cbv zeta. unfold mdns_ckey. rewrite E. destruct (existsb _ (st_mcache st)); auto.
    destruct (mdns_model_ok m) as [Em Om]. rewrite Em.
    assert (Ee : map (mdns_ent cx1 (mdns_model cx2 m)) (mq_a m) = map (mdns_ent cx2 (mdns_model cx2 m)) (mq_a m)).
    { apply map_ext. intros a. destruct (mdns_ent_ok (mdns_model cx2 m) a Om) as [Ea _]. exact Ea. }
    rewrite Ee. clear Ee.
    set (ents := map (mdns_ent cx2 (mdns_model cx2 m)) (mq_a m)).
    assert (Oe : forall x, In x ents -> nm_ok (snd (fst x)) = true /\ owned (snd x) = true).
    { intros x Hx. unfold ents in Hx. apply in_map_iff in Hx as (a & Ea & _). subst x.
      destruct (mdns_ent_ok (mdns_model cx2 m) a Om) as (_ & O1 & O2). auto. }
    rewrite (retain_indep _ cx1 cx2 (Fresh _)) by auto.
    match goal with |- context [set_mcache st ?x] => set (mc := x) end.
    assert (N1 : no_ref (set_mcache st mc) = true).
    { apply set_mcache_no_ref; auto. unfold mc. apply forallb_snoc; [nr_destruct H; auto|].
      unfold mcache_ok; cbn [mc_key mc_ents]. rewrite retain_owned. cbn [andb].
      rewrite forallb_forall. intros y Hy. apply in_map_iff in Hy as (x & Ex & Hx). subst y. cbn [fst snd].
      destruct (Oe x Hx) as [O1 O2]. unfold nm_ok in O1. split_ok. and_ok; auto. }
    apply fold_update_name_ok; auto.
    rewrite forallb_forall. intros x Hx. destruct (Oe x Hx) as [O1 _]. exact O1.
Qed.

Lemma nbns_step_ok l fhost st :
  no_ref st = true ->
  nbns_step cx1 l fhost st = nbns_step cx2 l fhost st /\ no_ref (nbns_step cx1 l fhost st) = true.
Proof.
  intros H. unfold nbns_step. destruct l as [l|]; auto. destruct fhost as [key|]; auto.
  rewrite (lval_indep cx1 cx2) by auto. destruct (is_nil _); auto.
  rewrite (retain_indep _ cx1 cx2) by auto.
  apply update_name_ok; auto; unfold nm_ok; cbn [n_name n_model n_manuf n_os]; rewrite ?retain_owned; reflexivity.
Qed.

Lemma ssdp_step_ok a b o fhost st :
  no_ref st = true ->
  ssdp_step cx1 a b o fhost st = ssdp_step cx2 a b o fhost st /\ no_ref (ssdp_step cx1 a b o fhost st) = true.
Proof. intros H. unfold ssdp_step. destruct fhost as [key|]; auto. apply update_name_ok; auto. Qed.

End Handlers.

(* ---------------------------------------------------------------- *)
(* steps *)

Lemma fold_delete_host_ok cx1 cx2 keys : forall st,
  no_ref st = true ->
  fold_left (fun st' k => delete_host cx1 k st') keys st = fold_left (fun st' k => delete_host cx2 k st') keys st /\
  no_ref (fold_left (fun st' k => delete_host cx1 k st') keys st) = true.
Proof.
  induction keys as [|k r IH]; intros st H; cbn [fold_left]; auto.
  destruct (delete_host_ok cx1 cx2 k st H) as [E1 N1]. rewrite E1 in *. apply IH; auto.
Qed.

Lemma show_probe_indep cx1 cx2 h : host_ok h = true -> show_probe cx1 h = show_probe cx2 h.
Proof.
  intros H. unfold host_ok in H. split_ok. unfold show_probe.
  rewrite (rd_owned cx1 cx2 (h_ip h)), (rd_owned cx1 cx2 (h_mac h)) by auto. reflexivity.
Qed.

Lemma lstep_ok c s1 s2 o st :
  no_ref st = true -> lstep c s1 o st = lstep c s2 o st /\ no_ref (fst (lstep c s1 o st)) = true.
Proof.
  intros H. assert (E : cxeq (nocx s1) (nocx s2)) by reflexivity.
  destruct o as [keys|key|ip|]; unfold lstep; cbv zeta.
  - destruct (fold_delete_host_ok (nocx s1) (nocx s2) keys st H) as [E1 N1]. rewrite E1 in *. auto.
  - destruct (find_host key (st_hosts st)) as [h|] eqn:F; auto.
    pose proof (find_host_ok key st h H F) as Hok.
    destruct (h_online h); auto.
    destruct (make_offline_ok (nocx s1) (nocx s2) key st H) as [E1 N1]. rewrite E1 in *.
    destruct (make_offline (nocx s2) key st) as [st1 outs]. cbn [fst] in *.
    rewrite (show_probe_indep (nocx s1) (nocx s2) h Hok). auto.
  - rewrite (hunt_step_indep (nocx s1) (nocx s2) E ip st H). auto.
  - rewrite (dump_indep s1 s2 st H). auto.
Qed.

Lemma rstep_ok c s1 s2 b1 b2 frame k st :
  no_ref st = true ->
  rstep c s1 b1 frame k st = rstep c s2 b2 frame k st /\ no_ref (fst (rstep c s1 b1 frame k st)) = true.
Proof.
  intros H. unfold rstep. cbv zeta.
  set (cx1 := {| cx_s := s1; cx_buf := b1; cx_frame := frame |}).
  set (cx2 := {| cx_s := s2; cx_buf := b2; cx_frame := frame |}).
  assert (E : cxeq cx1 cx2) by reflexivity.
  destruct (parse_hosts_ok cx1 cx2 E c st H) as [Ep Np]. rewrite Ep in *.
  destruct (parse_hosts c cx2 st) as [[st1 fhost] trans]. cbn [fst] in Np.
  (* handler *)
  match goal with |- context [let '(st2, outs) := ?hd in _] =>
    match hd with context [cx1] => set (h1 := hd) end end.
  match goal with |- (_ = let '(st2, outs) := ?hd in _) /\ _ => set (h2 := hd) end.
  assert (Hh : h1 = h2 /\ no_ref (fst h1) = true).
  { assert (Oapi : forall l, api_name cx1 l = api_name cx2 l /\ nm_ok (api_name cx2 l) = true).
    { intros l. unfold api_name. rewrite (retain_indep _ cx1 cx2) by auto. split; [reflexivity|].
      unfold nm_ok; cbn [n_name n_model n_manuf n_os]. rewrite retain_owned. reflexivity. }
    unfold h1, h2. destruct k as [|m|m|m|m|m|l|a b o| | |ip name|ip name]; cbn [fst].
    - auto.
    - apply dhcp_step_ok; auto.
    - destruct (ra_step_ok cx1 cx2 E m fhost st1 Np) as [E1 N1]. rewrite E1 in *. auto.
    - destruct (dns_step_ok cx1 cx2 E m st1 Np) as [E1 N1]. rewrite E1 in *. auto.
    - destruct (mdns_step_ok cx1 cx2 E NM_MDNS m fhost st1 Np) as [E1 N1]. rewrite E1 in *. auto.
    - destruct (mdns_step_ok cx1 cx2 E NM_LLMNR m fhost st1 Np) as [E1 N1]. rewrite E1 in *. auto.
    - destruct (nbns_step_ok cx1 cx2 E l fhost st1 Np) as [E1 N1]. rewrite E1 in *. auto.
    - destruct (ssdp_step_ok cx1 cx2 a b o fhost st1 Np) as [E1 N1]. rewrite E1 in *. auto.
    - destruct (capture_ok cx1 cx2 E (fsl L_ETH_SRC) st1 Np eq_refl) as [E1 N1]. rewrite E1 in *. auto.
    - destruct (release_ok cx1 cx2 (fsub frame L_ETH_SRC) st1 Np) as [E1 N1]. rewrite E1 in *. auto.
    - destruct (Oapi name) as [Ea Oa]. rewrite Ea, (lval_indep cx1 cx2 ip E).
      destruct (dhcpv4_update_ok cx1 cx2 E (fsl L_ETH_SRC) (lval cx2 ip) (api_name cx2 name) st1 Np eq_refl Oa) as [E1 N1].
      rewrite E1 in *. auto.
    - destruct (Oapi name) as [Ea Oa]. rewrite Ea, (lval_indep cx1 cx2 ip E).
      destruct (set_dhcpv4_offer_ok cx1 cx2 E (fsl L_ETH_SRC) (lval cx2 ip) (api_name cx2 name) st1 Np eq_refl Oa) as [E1 N1].
      rewrite E1 in *. auto. }
  destruct Hh as [Eh Nh]. rewrite Eh in *. clearbody h2. clear h1 Eh.
  destruct h2 as [st2 outs]. cbn [fst] in Nh.
  (* notify *)
  assert (Hn : forall key tr, notify_host cx1 key tr st2 = notify_host cx2 key tr st2 /\ no_ref (fst (notify_host cx1 key tr st2)) = true)
    by (intros; apply notify_host_ok; auto).
  assert (Hm : find_mac cx1 (fsub frame L_ETH_SRC) (st_macs st2) = find_mac cx2 (fsub frame L_ETH_SRC) (st_macs st2))
    by (apply find_mac_indep; apply nr_macs; auto).
  destruct fhost as [key|].
  - destruct (Hn key trans) as [E1 N1]. rewrite E1 in *. destruct (notify_host cx2 key trans st2). auto.
  - destruct k; auto. rewrite Hm. destruct (find_mac cx2 _ _) as [e|]; auto.
    destruct (is_nil (me_offer e)); auto.
    destruct (Hn (me_offer e) true) as [E1 N1]. rewrite E1 in *. destruct (notify_host cx2 (me_offer e) true st2). auto.
Qed.

(* ---------------------------------------------------------------- *)
(* histories: reference semantics on the packet-level projection *)

Definition pstep (c : cfg) (acc : state * list string) (p : pop) : state * list string :=
  match p with
  | PRecv f k => let '(st, o) := rstep c [] 0 f k (fst acc) in (st, snd acc ++ [o])
  | PLib o => let '(st, r) := lstep c [] o (fst acc) in (st, snd acc ++ [r])
  end.
Definition prun (c : cfg) (p : list pop) (acc : state * list string) : state * list string :=
  fold_left (pstep c) p acc.
Definition ptranscript (c : cfg) (p : list pop) : list string :=
  let r := prun c p (init_state c, []) in snd r ++ [dump [] (fst r)].

Lemma estep_sim c w e :
  no_ref (w_state w) = true ->
  let w' := estep c w e in
  (w_state w', w_out w') = prun c (proj1 e) (w_state w, w_out w) /\ no_ref (w_state w') = true.
Proof.
  intros H. destruct e as [buf frame k|buf bc|o]; unfold prun; cbn [estep proj1 fold_left pstep fst snd].
  - set (s := sset (w_store w) buf (bwrite frame (sget (w_store w) buf))).
    destruct (rstep_ok c s [] buf 0 frame k (w_state w) H) as [E1 N1]. rewrite E1 in *.
    destruct (rstep c [] 0 frame k (w_state w)) as [st o]. cbn [fst snd w_state w_out] in *. auto.
  - cbn [w_state w_out]. auto.
  - destruct (lstep_ok c (w_store w) [] o (w_state w) H) as [E1 N1]. rewrite E1 in *.
    destruct (lstep c [] o (w_state w)) as [st r]. cbn [fst snd w_state w_out] in *. auto.
Qed.

Lemma prun_app c p q acc : prun c (p ++ q) acc = prun c q (prun c p acc).
Proof. unfold prun. apply fold_left_app. Qed.

Lemma erun_from_sim c h : forall w,
  no_ref (w_state w) = true ->
  let w' := fold_left (estep c) h w in
  (w_state w', w_out w') = prun c (proj h) (w_state w, w_out w) /\ no_ref (w_state w') = true.
Proof.
  induction h as [|e r IH]; intros w H; simpl.
  - auto.
  - destruct (estep_sim c w e H) as [E Hn]. cbv zeta in E.
    destruct (IH (estep c w e) Hn) as [E' Hn']. cbv zeta in E'.
    split; auto. rewrite E'. rewrite prun_app. rewrite <- E. reflexivity.
Qed.

Definition init_one (mac ip : bytes) (g : macentry -> macentry) (st : state) : state :=
  let st1 := find_or_create_host (nocx []) (Fresh mac) (Fresh ip) st in
  let st1 := upd_host ip (fun h => h_with_online h true) st1 in
  match find_host ip (st_hosts st1) with Some h => upd_me (h_me h) g st1 | None => st1 end.

Lemma init_one_no_ref mac ip g st : me_same g -> no_ref st = true -> no_ref (init_one mac ip g st) = true.
Proof.
  intros Hg H. unfold init_one. cbv zeta.
  assert (E : cxeq (nocx []) (nocx [])) by reflexivity.
  destruct (find_or_create_host_ok (nocx []) (nocx []) E (Fresh mac) (Fresh ip) st H eq_refl eq_refl) as [_ N1].
  set (st1 := find_or_create_host _ _ _ st) in *.
  set (st1a := upd_host ip _ st1).
  assert (N1a : no_ref st1a = true) by (apply upd_host_no_ref; auto using h_same_online).
  destruct (find_host ip (st_hosts st1a)); auto. apply upd_me_no_ref; auto.
Qed.

Lemma init_state_no_ref c : no_ref (init_state c) = true.
Proof.
  change (init_state c) with
    (init_one (c_router_mac c) (c_router_ip c) (fun e => me_with_router (me_with_online (me_with_ip4 e (c_router_ip c)) true) true)
       (init_one (c_host_mac c) (c_host_ip c) (fun e => me_with_online (me_with_ip4 e (c_host_ip c)) true)
          {| st_hosts := []; st_macs := []; st_next := 0; st_leases := []; st_routers := []; st_dns := []; st_mcache := [] |})).
  apply init_one_no_ref; [intros e He; exact He|].
  apply init_one_no_ref; [intros e He; exact He|]. reflexivity.
Qed.

Theorem no_ref_invariant c h : no_ref (w_state (erun c h)) = true.
Proof.
  unfold erun. destruct (erun_from_sim c h (init_world c) (init_state_no_ref c)) as [_ H]. exact H.
Qed.

Theorem transcript_proj c h : transcript c h = ptranscript c (proj h).
Proof.
  unfold transcript, ptranscript, erun.
  destruct (erun_from_sim c h (init_world c) (init_state_no_ref c)) as [E H]. cbv zeta in E, H.
  simpl in E. rewrite <- E. simpl. f_equal. f_equal. apply dump_indep. exact H.
Qed.

(* the general statement: two histories with the same packet-level content
   (whatever buffers the frames arrive in, whatever is scribbled in between)
   have the same transcript *)
Theorem noninterference c h1 h2 : proj h1 = proj h2 -> transcript c h1 = transcript c h2.
Proof. intros E. rewrite !transcript_proj, E. reflexivity. Qed.

Lemma proj_shared scr p : forall i, proj (shared_run scr i p) = p.
Proof. induction p as [|[f k|o] r IH]; intros i; simpl; auto; rewrite IH; reflexivity. Qed.
Lemma proj_fresh p : forall n, proj (fresh_run n p) = p.
Proof. induction p as [|[f k|o] r IH]; intros n; simpl; auto; rewrite IH; reflexivity. Qed.

Theorem shared_equals_fresh c scr p :
  transcript c (shared_run scr 0 p) = transcript c (fresh_run 0 p).
Proof. apply noninterference. rewrite proj_shared, proj_fresh. reflexivity. Qed.

(* General lemma: on a NoRef state no observation depends on the store. *)
Theorem no_ref_observe_indep s1 s2 st : no_ref st = true -> dump s1 st = dump s2 st.
Proof. apply dump_indep. Qed.

(* every single library call on a NoRef state is independent of the store and of the buffer id *)
Theorem no_ref_step_indep c s1 s2 b1 b2 frame k st :
  no_ref st = true -> rstep c s1 b1 frame k st = rstep c s2 b2 frame k st.
Proof. intros H. apply rstep_ok. exact H. Qed.

(* ---------------------------------------------------------------- *)
(* Sharpness: the invariant is exactly what carries the theorem.  A state with one Ref field
   (what a retention point that stores a sub-slice would produce) is observably changed by a scribble. *)
Definition ex_ref_state : state :=
  {| st_hosts := [{| h_ip := Owned [192;168;0;5]; h_key := [192;168;0;5]; h_me := 0; h_mac := Ref 0 6 6;
                     h_online := true; h_dirty := false; h_names := names0 |}];
     st_macs := []; st_next := 1; st_leases := []; st_routers := []; st_dns := []; st_mcache := [] |}.

Lemma ref_state_observable :
  no_ref ex_ref_state = false /\
  dump [{| b_pre := [0;0;0;0;0;0;2;0;0;0;0;1]; b_fill := 0; b_stp := 0 |}] ex_ref_state <>
  dump [{| b_pre := []; b_fill := 165; b_stp := 0 |}] ex_ref_state.
Proof. split; [reflexivity|]. vm_compute. discriminate. Qed.

(* non-vacuity: a concrete history with a host created from an ARP frame, a dump, a purge and the frame again;
   its final state is a non-trivial NoRef state (three hosts, three MAC entries) *)
Definition ex_arp : bytes :=
  [255;255;255;255;255;255; 2;0;0;0;0;1; 8;6; 0;1; 8;0; 6;4; 0;1; 2;0;0;0;0;1; 192;168;0;5; 0;0;0;0;0;0; 192;168;0;11].
Definition ex_hist : list pop :=
  [PRecv ex_arp KPlain; PLib LDump; PLib (LPurge [[192;168;0;5]]); PRecv ex_arp KPlain; PLib (LOffline [192;168;0;5])].
Definition ex_scr : nat -> bufc := fun _ => {| b_pre := []; b_fill := 165; b_stp := 0 |}.

Example ex_hist_creates_host :
  let st := w_state (erun std_cfg (shared_run ex_scr 0 ex_hist)) in
  List.length (st_hosts st) = 3%nat /\ List.length (st_macs st) = 3%nat /\ no_ref st = true.
Proof. vm_compute. auto. Qed.
