(* Proofs/ArpSpoofTimed.v — bounded liveness of the undo: real time enters through the fairness hypothesis
   [fair] of Model/ArpSpoof.v only. *)
From PV Require Import Base.Prelude Base.Slice Model.ArpSpoof Spec.ArpSpoof Proofs.ArpSpoof Proofs.ArpSpoofLoops.
Open Scope N_scope.

Lemma firstn_split_at {A} (l : list A) k j x :
  nth_error l k = Some x -> (k < j)%nat ->
  firstn j l = (firstn k l ++ x :: firstn (j - S k) (skipn (S k) l))%list.
Proof.
  revert k j. induction l as [|y ys IH]; intros [|k] [|j] H Hlt; simpl in *; try discriminate; try lia.
  - inversion H; subst. rewrite Nat.sub_0_r. reflexivity.
  - f_equal. apply IH; auto. lia.
Qed.

Lemma firstn_S_nth {A} (l : list A) j x :
  nth_error l j = Some x -> firstn (S j) l = (firstn j l ++ [x])%list.
Proof.
  revert j. induction l as [|y ys IH]; intros [|j] H; simpl in *; try discriminate.
  - inversion H; reflexivity.
  - f_equal. apply IH; auto.
Qed.

Lemma nth_error_firstn_lt {A} (l : list A) n m : (m < n)%nat -> nth_error (firstn n l) m = nth_error l m.
Proof.
  revert n m. induction l as [|x xs IH]; intros [|n] [|m] H; simpl; auto; try lia. apply IH. lia.
Qed.

Lemma nth_error_skipn_add {A} (l : list A) n m : nth_error (skipn n l) m = nth_error l (n + m).
Proof.
  revert n. induction l as [|x xs IH]; intros [|n]; simpl; auto. destruct m; reflexivity.
Qed.

Lemma in_firstn_skipn {A} (l : list A) k n e :
  In e (firstn n (skipn (S k) l)) -> exists x, (k < x)%nat /\ (x < S k + n)%nat /\ nth_error l x = Some e.
Proof.
  intros Hin. apply In_nth_error in Hin as [m Hm].
  assert (Hlt : (m < n)%nat).
  { destruct (Nat.lt_ge_cases m n) as [|Hge]; auto.
    assert (Hnone : nth_error (firstn n (skipn (S k) l)) m = None).
    { apply nth_error_None. rewrite firstn_length. lia. }
    congruence. }
  rewrite nth_error_firstn_lt in Hm by exact Hlt.
  rewrite nth_error_skipn_add in Hm.
  exists (S k + m)%nat. repeat split; auto; lia.
Qed.

Lemma outputs_nth c s evs j e :
  nth_error evs j = Some e ->
  nth_error (outputs c s evs) j = Some (snd (step c (final c s (firstn j evs)) e)).
Proof.
  unfold outputs. revert s j. induction evs as [|x r IH]; intros s [|j] H; simpl in *; try discriminate.
  - inversion H; subst. destruct (step c s e); reflexivity.
  - destruct (step c s x) as [s1 o] eqn:Hs. simpl. apply IH. exact H.
Qed.

(* least index above k satisfying a decidable predicate *)
Lemma least_above (P : nat -> bool) k j0 :
  (k < j0)%nat -> P j0 = true ->
  exists j, (k < j)%nat /\ (j <= j0)%nat /\ P j = true /\ forall x, (k < x)%nat -> (x < j)%nat -> P x = false.
Proof.
  revert k. induction j0 as [j0 IH] using (well_founded_induction lt_wf). intros k Hlt Hp.
  destruct (existsb P (seq (S k) (j0 - S k))) eqn:E.
  - apply existsb_exists in E as [x [Hin Hx]]. apply in_seq in Hin.
    destruct (IH x ltac:(lia) k ltac:(lia) Hx) as [j [H1 [H2 [H3 H4]]]].
    exists j. repeat split; auto; lia.
  - exists j0. repeat split; auto.
    intros x Hx1 Hx2. destruct (P x) eqn:Epx; auto.
    assert (existsb P (seq (S k) (j0 - S k)) = true).
    { apply existsb_exists. exists x. split; auto. apply in_seq. lia. }
    congruence.
Qed.

Lemma events_nth (tr : timed) j t e : nth_error tr j = Some (t, e) -> nth_error (events tr) j = Some e.
Proof. intros H. unfold events. rewrite nth_error_map, H. reflexivity. Qed.

Lemma events_nth_inv (tr : timed) j e : nth_error (events tr) j = Some e -> exists t, nth_error tr j = Some (t, e).
Proof.
  unfold events. rewrite nth_error_map. destruct (nth_error tr j) as [[t e']|]; simpl; intros H; inversion H; subst.
  eauto.
Qed.


(* ---------------------------------------------------------------- *)
(* a loop's address never changes; a restoring frame is the only thing a loop sends before it returns *)

Lemma step_addr_kept c s e i lp :
  nth_error (loops s) i = Some lp ->
  exists lp', nth_error (loops (fst (step c s e))) i = Some lp' /\ laddr lp' = laddr lp.
Proof.
  intros Hl. destruct (step_loops_shape c s e) as [[j [p [Hj E]]]|[[a E]|E]]; rewrite E.
  - destruct (Nat.eq_dec j i) as [->|Hne].
    + eexists. split; [apply (set_pc_same _ _ _ _ Hl)|reflexivity].
    + rewrite set_pc_other by auto. eauto.
  - exists lp. split; auto. apply nth_error_app_l; auto.
  - eauto.
Qed.

Lemma final_addr_kept c evs : forall s i lp,
  nth_error (loops s) i = Some lp ->
  exists lp', nth_error (loops (final c s evs)) i = Some lp' /\ laddr lp' = laddr lp.
Proof.
  induction evs as [|e r IH]; intros s i lp Hl; simpl; [eauto|].
  destruct (step_addr_kept c s e i lp Hl) as [lp1 [H1 A1]].
  destruct (IH _ i lp1 H1) as [lp2 [H2 A2]]. exists lp2. split; auto. congruence.
Qed.

(* where loop i stands after one of its own steps *)
Lemma lookup_pc s i a p :
  loop_at s i a p ->
  loop_at (fst (lookup s i)) i a (if at_select p then looked_pc s a else p).
Proof.
  unfold loop_at, lookup, looked_pc. intros Hl. rewrite Hl. simpl.
  destruct p; simpl; auto; apply (set_pc_same _ _ _ _ Hl).
Qed.

Definition check_pc_of (c : cfg) (s : state) (a : addr) (p : pc) : pc :=
  match p with
  | PLooked (Some target) => PSend (announce c (amac target)) true
  | PLooked None => PSend (restore c (amac a)) false
  | _ => p
  end.

Lemma check_pc c s i a p : loop_at s i a p -> loop_at (fst (check c s i)) i a (check_pc_of c s a p).
Proof.
  unfold loop_at, check. intros Hl. rewrite Hl. simpl.
  destruct p; simpl; auto. destruct found; apply (set_pc_same _ _ _ _ Hl).
Qed.

Lemma send_pc s i a p :
  loop_at s i a p ->
  loop_at (fst (send s i)) i a (match p with PSend _ cont => if cont then PWait else PDone | _ => p end).
Proof.
  intros Hl. destruct p; try (unfold loop_at, send in *; rewrite Hl; simpl; exact Hl).
  destruct (send_step s i a f cont (mkCfg 0 0 0 0 0 0) Hl) as [s' [Es [L _]]]. simpl in Es. rewrite Es. exact L.
Qed.

Lemma loop_at_inj s i a p a' p' : loop_at s i a p -> loop_at s i a' p' -> a = a' /\ p = p'.
Proof. unfold loop_at. intros H1 H2. rewrite H1 in H2. inversion H2. auto. Qed.

Definition restore_inv (c : cfg) (s : state) : Prop :=
  forall i a f, loop_at s i a (PSend f false) -> f = restore c (amac a).

Lemma restore_inv_step c s e : restore_inv c s -> restore_inv c (fst (step c s e)).
Proof.
  intros Hinv i a f Hl.
  destruct (is_loop_event i e) eqn:He.
  - destruct (nth_error (loops s) i) as [[a1 p1]|] eqn:Hli.
    + assert (Hown : loop_at s i a1 p1) by exact Hli.
      destruct e; try discriminate; simpl in He; apply Nat.eqb_eq in He; subst i0; simpl in Hl.
      * destruct (loop_at_inj _ _ _ _ _ _ Hl (lookup_pc s i a1 p1 Hown)) as [-> Hq].
        destruct (at_select p1); [unfold looked_pc in Hq; destruct (closed s); discriminate|]. subst p1. apply (Hinv i a1 f Hown).
      * destruct (loop_at_inj _ _ _ _ _ _ Hl (check_pc c s i a1 p1 Hown)) as [-> Hq].
        destruct p1; simpl in Hq; try discriminate; try (rewrite <- Hq in Hown; apply (Hinv i a1 f Hown)).
        destruct found; inversion Hq; reflexivity.
      * destruct (loop_at_inj _ _ _ _ _ _ Hl (send_pc s i a1 p1 Hown)) as [-> Hq].
        destruct p1; simpl in Hq; try discriminate. destruct cont; discriminate.
    + exfalso. unfold loop_at in Hl.
      destruct (step_loops_shape c s e) as [[j [p [Hj E]]]|[[a0 E]|E]]; rewrite E in Hl.
      * pose proof (is_loop_event_inj _ _ _ He Hj). subst j. unfold set_pc in Hl. rewrite Hli in Hl. congruence.
      * apply nth_error_None in Hli. rewrite nth_error_app2 in Hl by auto.
        destruct (i - List.length (loops s))%nat as [|n]; simpl in Hl; [inversion Hl|destruct n; discriminate].
      * congruence.
  - unfold loop_at in Hl.
    destruct (nth_error (loops s) i) as [lp|] eqn:Hli.
    + rewrite (step_loop_kept c s e i lp He Hli) in Hl. inversion Hl; subst. apply (Hinv i a f). exact Hli.
    + (* a loop that did not exist: only StartHunt creates one, at PTop *)
      destruct (step_loops_shape c s e) as [[j [p [Hj E]]]|[[a0 E]|E]]; rewrite E in Hl.
      * destruct (Nat.eq_dec j i) as [->|Hne]; [congruence|]. rewrite set_pc_other in Hl by auto. congruence.
      * apply nth_error_None in Hli. rewrite nth_error_app2 in Hl by auto.
        destruct (i - List.length (loops s))%nat as [|n]; simpl in Hl; [inversion Hl|destruct n; discriminate].
      * congruence.
Qed.

Lemma restore_inv_reach c evs : restore_inv c (final c init_state evs).
Proof.
  apply (final_inv (restore_inv c) (fun _ => true) c).
  - intros s e H _. apply restore_inv_step; auto.
  - intros i a f H. unfold loop_at in H. simpl in H. destruct i; discriminate.
  - apply forallb_forall; auto.
Qed.

(* when the handler is open a loop returns only through the write of a frame decided with cont = false *)
Lemma dies_step c s e i a p q :
  loop_at s i a p -> is_done p = false -> closed s = false ->
  loop_at (fst (step c s e)) i a q -> is_done q = true ->
  e = Send i /\ exists f, p = PSend f false /\ snd (step c s e) = (if Nat.eqb (failn s) 0 then [f] else []).
Proof.
  intros Hl Hp Hc Hl' Hq.
  destruct (is_loop_event i e) eqn:He.
  - destruct e; try discriminate; simpl in He; apply Nat.eqb_eq in He; subst i0.
    + exfalso. simpl in Hl'. unfold lookup, loop_at in *. rewrite Hl in Hl'. simpl in Hl'.
      destruct p; simpl in Hl'; try (rewrite Hl in Hl'; inversion Hl'; subst; simpl in *; congruence);
        rewrite Hc in Hl'; rewrite (set_pc_same _ _ _ _ Hl) in Hl'; inversion Hl'; subst; discriminate.
    + exfalso. simpl in Hl'. unfold check, loop_at in *. rewrite Hl in Hl'. simpl in Hl'.
      destruct p; simpl in Hl'; try (rewrite Hl in Hl'; inversion Hl'; subst; simpl in *; congruence).
      rewrite (set_pc_same _ _ _ _ Hl) in Hl'.
      destruct found; inversion Hl'; subst; discriminate.
    + split; auto.
      destruct p; try (exfalso; simpl in Hl'; unfold send, loop_at in *; rewrite Hl in Hl'; simpl in Hl'; rewrite Hl in Hl';
                       inversion Hl'; subst; simpl in *; congruence).
      destruct (send_step s i a f cont c Hl) as [s' [Es [L _]]].
      rewrite Es in *. simpl in *. unfold loop_at in *. rewrite L in Hl'. 
      destruct cont; inversion Hl'; subst; try discriminate. eauto.
  - exfalso. unfold loop_at in *. rewrite (step_loop_kept c s e i _ He Hl) in Hl'. inversion Hl'; subst. congruence.
Qed.

(* ---------------------------------------------------------------- *)
(* positions of a timed run *)

Lemma firstn_le_split {A} (l : list A) k j : (k <= j)%nat -> firstn j l = (firstn k l ++ firstn (j - k) (skipn k l))%list.
Proof.
  revert k j. induction l as [|x xs IH]; intros k j H.
  - rewrite skipn_nil, !firstn_nil. reflexivity.
  - destruct k as [|k], j as [|j]; simpl; auto; try lia. f_equal. apply IH. lia.
Qed.

Lemma state_before_split c tr k j : (k <= j)%nat ->
  state_before c tr j = final c (state_before c tr k) (firstn (j - k) (skipn k (events tr))).
Proof. intros H. unfold state_before. rewrite (firstn_le_split _ k j H), final_app. reflexivity. Qed.

Lemma state_before_S c tr j e : nth_error (events tr) j = Some e ->
  state_before c tr (S j) = fst (step c (state_before c tr j) e).
Proof. intros H. unfold state_before. rewrite (firstn_S_nth _ _ _ H), final_app. reflexivity. Qed.

Lemma state_before_reach c tr j : restore_inv c (state_before c tr j).
Proof. apply restore_inv_reach. Qed.

Lemma mid_in {A} (l : list A) k n e :
  In e (firstn n (skipn k l)) -> exists x, (k <= x)%nat /\ (x < k + n)%nat /\ nth_error l x = Some e.
Proof.
  intros Hin. apply In_nth_error in Hin as [m Hm].
  assert (Hlt : (m < n)%nat).
  { destruct (Nat.lt_ge_cases m n) as [|Hge]; auto.
    assert (Hnone : nth_error (firstn n (skipn k l)) m = None) by (apply nth_error_None; rewrite firstn_length; lia).
    congruence. }
  rewrite nth_error_firstn_lt in Hm by exact Hlt. rewrite nth_error_skipn_add in Hm.
  exists (k + m)%nat. repeat split; auto; lia.
Qed.

Lemma loop_addr_later c tr k j i a p :
  loop_at (state_before c tr k) i a p -> (k <= j)%nat -> exists q, loop_at (state_before c tr j) i a q.
Proof.
  intros Hl Hle. rewrite (state_before_split c tr k j Hle).
  destruct (final_addr_kept c (firstn (j - k) (skipn k (events tr))) _ i _ Hl) as [[a' q] [H1 H2]].
  simpl in H2. subst a'. exists q. exact H1.
Qed.

Lemma live_loop_at s i a p : loop_at s i a p -> live s i = negb (is_done p).
Proof. unfold loop_at, live. intros H. rewrite H. reflexivity. Qed.

Theorem stop_undone_timed : forall c P tr k t a i p0,
  cfg_ok c -> time_ordered tr -> fair c P tr ->
  nth_error tr k = Some (t, StopHunt (amac a)) ->
  loop_at (state_before c tr k) i a p0 -> is_done p0 = false -> closed (state_before c tr k) = false ->
  observed_until tr (t + P) ->
  (forall j t' e, (k < j)%nat -> nth_error tr j = Some (t', e) -> (t' <= t + P)%Z ->
                  is_close e = false /\ is_start_of (amac a) e = false) ->
  exists j tj, (k < j)%nat /\ nth_error tr j = Some (tj, Send i) /\ (tj <= t + P)%Z /\
    loop_at (state_before c tr j) i a (PSend (restore c (amac a)) false) /\
    output_at c tr j = Some (if Nat.eqb (failn (state_before c tr j)) 0 then [restore c (amac a)] else []) /\
    loop_at (state_before c tr (S j)) i a PDone.
Proof.
  intros c P tr k t a i p0 Hc Hord Hfair Hk Hl0 Hp0 Hcl Hobs Hquiet.
  pose proof (events_nth _ _ _ _ Hk) as Hek.
  (* right after the StopHunt: same loops, same closed, the MAC is out of the hunt list *)
  assert (HS : state_before c tr (S k) = fst (step c (state_before c tr k) (StopHunt (amac a))))
    by (apply state_before_S; auto).
  assert (Hl1 : loop_at (state_before c tr (S k)) i a p0) by (rewrite HS; exact Hl0).
  assert (Hc1 : closed (state_before c tr (S k)) = false) by (rewrite HS; exact Hcl).
  assert (Hh1 : hunted (state_before c tr (S k)) (amac a) = false).
  { rewrite HS. unfold hunted. simpl. apply hunt_has_del_same. }
  assert (Hlive1 : live (state_before c tr (S k)) i = true).
  { rewrite (live_loop_at _ _ _ _ Hl1), Hp0. reflexivity. }
  (* facts that hold at every position j > k reached while time <= t + P *)
  assert (Hmid : forall j tj ej, (k < j)%nat -> nth_error tr j = Some (tj, ej) -> (tj <= t + P)%Z ->
            closed (state_before c tr j) = false /\ hunted (state_before c tr j) (amac a) = false).
  { intros j tj ej Hkj Hj Htj.
    rewrite (state_before_split c tr (S k) j ltac:(lia)).
    assert (Hq : forall e0, In e0 (firstn (j - S k) (skipn (S k) (events tr))) ->
                 is_close e0 = false /\ is_start_of (amac a) e0 = false).
    { intros e0 Hin. apply mid_in in Hin as [x [X1 [X2 X3]]].
      destruct (events_nth_inv _ _ _ X3) as [tx Hx].
      apply (Hquiet x tx e0 ltac:(lia) Hx).
      pose proof (Hord x j tx e0 tj ej ltac:(lia) Hx Hj). lia. }
    split.
    - rewrite closed_kept; auto. apply forallb_forall. intros e0 Hin. destruct (Hq e0 Hin) as [H _]. rewrite H. reflexivity.
    - apply unhunted_kept; auto. apply forallb_forall. intros e0 Hin. destruct (Hq e0 Hin) as [_ H]. rewrite H. reflexivity. }
  destruct (Hfair k t _ i Hk Hlive1 Hobs) as [HA|HB];
    [destruct HA as (j0 & tj0 & ej0 & Hkj0 & Hj0 & Htj0 & Hdead)
    |destruct HB as (j1 & j2 & j3 & t1 & t2 & t3 & H1 & H2 & H3 & Ht3 & E1 & E2 & E3 & (p1 & Hpc1 & Hsel1) & Hnone)].
  - (* the loop has returned by t + P: the step at which it returned *)
    set (Pd := fun x => negb (live (state_before c tr (S x)) i)).
    assert (Hp : Pd j0 = true) by (unfold Pd; rewrite Hdead; reflexivity).
    destruct (least_above Pd k j0 Hkj0 Hp) as [j [Hkj [Hjj0 [Hpj Hleast]]]].
    unfold Pd in Hpj. apply negb_true_iff in Hpj.
    assert (Hjlen : exists tj ej, nth_error tr j = Some (tj, ej)).
    { destruct (nth_error tr j) as [[tj ej]|] eqn:E; [eauto|].
      exfalso. apply nth_error_None in E. assert (nth_error tr j0 <> None) by congruence.
      apply nth_error_Some in H. lia. }
    destruct Hjlen as [tj [ej Hj]].
    assert (Htj : (tj <= t + P)%Z) by (pose proof (Hord j j0 tj ej tj0 ej0 Hjj0 Hj Hj0); lia).
    pose proof (events_nth _ _ _ _ Hj) as Hej.
    (* before position j the loop is live *)
    assert (Hlb : live (state_before c tr j) i = true).
    { destruct (Nat.eq_dec j (S k)) as [->|Hne]; [exact Hlive1|].
      assert (Hx : Pd (j - 1)%nat = false) by (apply Hleast; lia).
      unfold Pd in Hx. apply negb_false_iff in Hx. replace (S (j - 1)) with j in Hx by lia. exact Hx. }
    destruct (loop_addr_later c tr k j i a p0 Hl0 ltac:(lia)) as [p Hlj].
    destruct (loop_addr_later c tr k (S j) i a p0 Hl0 ltac:(lia)) as [q Hlq].
    rewrite (live_loop_at _ _ _ _ Hlj) in Hlb. apply negb_true_iff in Hlb.
    rewrite (live_loop_at _ _ _ _ Hlq) in Hpj. apply negb_false_iff in Hpj.
    destruct (Hmid j tj ej Hkj Hj Htj) as [Hcj _].
    rewrite (state_before_S c tr j ej Hej) in Hlq.
    destruct (dies_step c _ ej i a p q Hlj Hlb Hcj Hlq Hpj) as [-> [f [-> Hout]]].
    pose proof (state_before_reach c tr j i a f Hlj) as Hf. subst f.
    exists j, tj. split; auto. split; auto. split; auto. split; auto.
    split.
    + unfold output_at. rewrite (outputs_nth _ _ _ _ _ Hej).
      change (final c init_state (firstn j (events tr))) with (state_before c tr j). rewrite Hout. reflexivity.
    + rewrite (state_before_S c tr j _ Hej). destruct q; try discriminate. exact Hlq.
  - (* a complete iteration after the StopHunt *)
    pose proof (events_nth _ _ _ _ E1) as Ee1. pose proof (events_nth _ _ _ _ E2) as Ee2.
    pose proof (events_nth _ _ _ _ E3) as Ee3.
    assert (T1 : (t1 <= t + P)%Z) by (pose proof (Hord j1 j3 _ _ _ _ ltac:(lia) E1 E3); lia).
    assert (T2 : (t2 <= t + P)%Z) by (pose proof (Hord j2 j3 _ _ _ _ ltac:(lia) E2 E3); lia).
    destruct (Hmid j1 t1 _ H1 E1 T1) as [Hc_1 Hh_1].
    destruct (loop_addr_later c tr k j1 i a p0 Hl0 ltac:(lia)) as [pj1 Hlj1].
    assert (pj1 = p1).
    { unfold pc_of in Hpc1. unfold loop_at in Hlj1. rewrite Hlj1 in Hpc1. simpl in Hpc1. congruence. }
    subst pj1.
    set (x2 := firstn (j2 - S j1) (skipn (S j1) (events tr))).
    set (l' := skipn (S j1) (events tr)).
    set (x3 := firstn (j3 - S j2) (skipn (S (j2 - S j1)) l')).
    assert (Hc2' : nth_error l' (j2 - S j1) = Some (Check i)).
    { unfold l'. rewrite nth_error_skipn_add. replace (S j1 + (j2 - S j1))%nat with j2 by lia. exact Ee2. }
    assert (Hsplit : firstn j3 (events tr) = (firstn j1 (events tr) ++ [Lookup i] ++ x2 ++ [Check i] ++ x3)%list).
    { rewrite (firstn_split_at _ j1 j3 _ Ee1) by lia. f_equal. cbn [app]. f_equal. fold l'.
      rewrite (firstn_split_at l' (j2 - S j1) (j3 - S j1) _ Hc2') by lia. fold x2. f_equal. f_equal.
      unfold x3. f_equal. lia. }
    assert (N2 : none_of (is_loop_event i) x2).
    { apply forallb_forall. intros e0 Hin. apply mid_in in Hin as [x [X1 [X2 X3]]].
      destruct (events_nth_inv _ _ _ X3) as [tx Hx].
      rewrite (Hnone x tx e0 ltac:(lia) ltac:(lia) ltac:(lia) Hx). reflexivity. }
    assert (N3 : none_of (is_loop_event i) x3).
    { apply forallb_forall. intros e0 Hin. apply mid_in in Hin as [x [X1 [X2 X3]]].
      unfold l' in X3. rewrite nth_error_skipn_add in X3.
      destruct (events_nth_inv _ _ _ X3) as [tx Hx].
      rewrite (Hnone (S j1 + x)%nat tx e0 ltac:(lia) ltac:(lia) ltac:(lia) Hx). reflexivity. }
    assert (C2 : none_of is_close x2).
    { apply forallb_forall. intros e0 Hin. apply mid_in in Hin as [x [X1 [X2 X3]]].
      destruct (events_nth_inv _ _ _ X3) as [tx Hx].
      assert (Htx : (tx <= t + P)%Z) by (pose proof (Hord x j3 _ _ _ _ ltac:(lia) Hx E3); lia).
      destruct (Hquiet x tx e0 ltac:(lia) Hx Htx) as [H _]. rewrite H. reflexivity. }
    destruct (stop_undone c (state_before c tr j1) a i p1 [] x2 x3 Hc Hlj1 Hsel1 Hc_1 Hh_1
                eq_refl eq_refl eq_refl N2 N3) as [Hl4 [s5 [Estep L5]]].
    assert (Hs4 : state_before c tr j3 = final c (state_before c tr j1) ([] ++ [Lookup i] ++ x2 ++ [Check i] ++ x3)).
    { unfold state_before at 1. rewrite Hsplit, final_app. reflexivity. }
    rewrite <- Hs4 in Estep, Hl4.
    exists j3, t3. split; [lia|]. split; auto. split; auto.
    split.
    + exact Hl4.
    + split.
      * unfold output_at. rewrite (outputs_nth _ _ _ _ _ Ee3).
        change (final c init_state (firstn j3 (events tr))) with (state_before c tr j3). rewrite Estep. reflexivity.
      * rewrite (state_before_S c tr j3 _ Ee3), Estep. exact L5.
Qed.

(* non-vacuity: a concrete fair, time-ordered run (period 6000) in which StopHunt is undone in time *)
Definition wit_cfg_t : cfg := mkCfg 366503875925 3232235649 439804651110 3232235531 3232235520 24.
Definition wit_a_t : addr := mkAddr 2199023255553 3232235522.
Definition wit_timed : timed :=
  [(0%Z, StartHunt wit_a_t); (0%Z, Lookup 0); (0%Z, Check 0); (0%Z, Send 0); (1000%Z, StopHunt (amac wit_a_t));
   (6000%Z, Lookup 0); (6000%Z, Check 0); (6000%Z, Send 0); (12000%Z, FailWrites 0)].

Example stop_undone_timed_nonvacuous :
  cfg_ok wit_cfg_t /\ time_ordered wit_timed /\ fair wit_cfg_t 6000 wit_timed /\
  nth_error wit_timed 4 = Some (1000%Z, StopHunt (amac wit_a_t)) /\
  loop_at (state_before wit_cfg_t wit_timed 4) 0 wit_a_t PWait /\
  closed (state_before wit_cfg_t wit_timed 4) = false /\
  observed_until wit_timed (1000 + 6000) /\
  output_at wit_cfg_t wit_timed 7 = Some [restore wit_cfg_t (amac wit_a_t)] /\
  loop_at (state_before wit_cfg_t wit_timed 8) 0 wit_a_t PDone.
Proof.
  split; [unfold cfg_ok; simpl; repeat split; lia|].
  split.
  { intros x y ta ea tb eb Hxy Hx Hy.
    do 9 (destruct x as [|x]; [do 9 (destruct y as [|y]; [simpl in *; inversion Hx; inversion Hy; subst; lia|]);
                               destruct y; discriminate|]).
    destruct x; discriminate. }
  split.
  { intros k t e i Hk Hl Hobs. left. exists 7%nat, 6000%Z, (Send 0).
    do 7 (destruct k as [|k]; [simpl in Hk; inversion Hk; subst; clear Hk;
                               repeat split; try lia; try reflexivity;
                               (destruct i as [|i]; [vm_compute; reflexivity | vm_compute in Hl; destruct i; discriminate])|]).
    exfalso.
    destruct k as [|k]; [vm_compute in Hl; destruct i as [|i]; [discriminate|destruct i; discriminate]|].
    destruct k as [|k]; [vm_compute in Hl; destruct i as [|i]; [discriminate|destruct i; discriminate]|].
    destruct k; discriminate. }
  split; [reflexivity|]. split; [vm_compute; reflexivity|]. split; [vm_compute; reflexivity|].
  split; [exists 8%nat, 12000%Z, (FailWrites 0); split; [reflexivity|lia]|].
  split; vm_compute; reflexivity.
Qed.
