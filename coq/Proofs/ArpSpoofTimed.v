(* Proofs/ArpSpoofTimed.v — bounded liveness of the undo: real time enters through the fairness hypothesis
   [fair] of Model/ArpSpoof.v only. *)
From PV Require Import Base.Prelude Model.ArpSpoof Spec.ArpSpoof Proofs.ArpSpoof.
Open Scope N_scope.

(* ---------------------------------------------------------------- *)
(* real time: only through a fairness hypothesis *)

Lemma firstn_split_at {A} (l : list A) k j x :
  nth_error l k = Some x -> (k < j)%nat ->
  firstn j l = (firstn k l ++ x :: firstn (j - S k) (skipn (S k) l))%list.
Proof.
  revert k j. induction l as [|y ys IH]; intros [|k] [|j] H Hlt; simpl in *; try discriminate; try lia.
  - inversion H; subst. rewrite Nat.sub_0_r. reflexivity.
  - f_equal. apply IH; auto. lia.
Qed.

Lemma firstn_S_nth {A} (l : list A) j x :
  nth_error l j = Some x -> firstn (S j) l = (firstn j l ++ [x])%list.
Proof.
  revert j. induction l as [|y ys IH]; intros [|j] H; simpl in *; try discriminate.
  - inversion H; reflexivity.
  - f_equal. apply IH; auto.
Qed.

Lemma nth_error_firstn_lt {A} (l : list A) n m : (m < n)%nat -> nth_error (firstn n l) m = nth_error l m.
Proof.
  revert n m. induction l as [|x xs IH]; intros [|n] [|m] H; simpl; auto; try lia. apply IH. lia.
Qed.

Lemma nth_error_skipn_add {A} (l : list A) n m : nth_error (skipn n l) m = nth_error l (n + m).
Proof.
  revert n. induction l as [|x xs IH]; intros [|n]; simpl; auto. destruct m; reflexivity.
Qed.

Lemma in_firstn_skipn {A} (l : list A) k n e :
  In e (firstn n (skipn (S k) l)) -> exists x, (k < x)%nat /\ (x < S k + n)%nat /\ nth_error l x = Some e.
Proof.
  intros Hin. apply In_nth_error in Hin as [m Hm].
  assert (Hlt : (m < n)%nat).
  { destruct (Nat.lt_ge_cases m n) as [|Hge]; auto.
    assert (Hnone : nth_error (firstn n (skipn (S k) l)) m = None).
    { apply nth_error_None. rewrite firstn_length. lia. }
    congruence. }
  rewrite nth_error_firstn_lt in Hm by exact Hlt.
  rewrite nth_error_skipn_add in Hm.
  exists (S k + m)%nat. repeat split; auto; lia.
Qed.

Lemma outputs_nth c s evs j e :
  nth_error evs j = Some e ->
  nth_error (outputs c s evs) j = Some (snd (step c (final c s (firstn j evs)) e)).
Proof.
  unfold outputs. revert s j. induction evs as [|x r IH]; intros s [|j] H; simpl in *; try discriminate.
  - inversion H; subst. destruct (step c s e); reflexivity.
  - destruct (step c s x) as [s1 o] eqn:Hs. simpl. apply IH. exact H.
Qed.

(* least index above k satisfying a decidable predicate *)
Lemma least_above (P : nat -> bool) k j0 :
  (k < j0)%nat -> P j0 = true ->
  exists j, (k < j)%nat /\ (j <= j0)%nat /\ P j = true /\ forall x, (k < x)%nat -> (x < j)%nat -> P x = false.
Proof.
  revert k. induction j0 as [j0 IH] using (well_founded_induction lt_wf). intros k Hlt Hp.
  destruct (existsb P (seq (S k) (j0 - S k))) eqn:E.
  - apply existsb_exists in E as [x [Hin Hx]]. apply in_seq in Hin.
    destruct (IH x ltac:(lia) k ltac:(lia) Hx) as [j [H1 [H2 [H3 H4]]]].
    exists j. repeat split; auto; lia.
  - exists j0. repeat split; auto.
    intros x Hx1 Hx2. destruct (P x) eqn:Epx; auto.
    assert (existsb P (seq (S k) (j0 - S k)) = true).
    { apply existsb_exists. exists x. split; auto. apply in_seq. lia. }
    congruence.
Qed.

Lemma events_nth (tr : timed) j t e : nth_error tr j = Some (t, e) -> nth_error (events tr) j = Some e.
Proof. intros H. unfold events. rewrite nth_error_map, H. reflexivity. Qed.

Lemma events_nth_inv (tr : timed) j e : nth_error (events tr) j = Some e -> exists t, nth_error tr j = Some (t, e).
Proof.
  unfold events. rewrite nth_error_map. destruct (nth_error tr j) as [[t e']|]; simpl; intros H; inversion H; subst.
  eauto.
Qed.

Theorem stop_undone_timed : forall c P tr k t a i,
  cfg_ok c -> time_ordered tr -> fair c P tr ->
  nth_error tr k = Some (t, StopHunt (amac a)) ->
  loop_is (state_before c tr k) i a true -> closed (state_before c tr k) = false ->
  observed_until tr (t + P) ->
  (forall j t' e, (k < j)%nat -> nth_error tr j = Some (t', e) -> (t' <= t + P)%Z ->
                  is_close e = false /\ is_start_of (amac a) e = false) ->
  exists j t', (k < j)%nat /\ nth_error tr j = Some (t', Wake i) /\ (t' <= t + P)%Z /\
    output_at c tr j = Some [restore c (amac a)] /\
    loop_is (state_before c tr (S j)) i a false.
Proof.
  intros c P tr k t a i Hc Hord Hfair Hk Hl Hcl Hobs Hquiet.
  pose proof (events_nth _ _ _ _ Hk) as Hek.
  (* the loop is still running right after the StopHunt *)
  assert (Hl1 : loop_is (state_before c tr (S k)) i a true).
  { unfold state_before. rewrite (firstn_S_nth _ _ _ Hek), final_app. simpl.
    unfold loop_is. simpl. exact Hl. }
  destruct (Hfair k t _ i a Hk Hl1 Hobs) as [j0 [t0 [Hj0 [Hw0 Ht0]]]].
  (* first wake-up of loop i after k *)
  set (Pw := fun x => match nth_error (events tr) x with Some e => is_wake_of i e | None => false end).
  assert (Hp0 : Pw j0 = true).
  { unfold Pw. rewrite (events_nth _ _ _ _ Hw0). simpl. apply Nat.eqb_refl. }
  destruct (least_above Pw k j0 Hj0 Hp0) as [j [Hkj [Hjj0 [Hpj Hleast]]]].
  unfold Pw in Hpj. destruct (nth_error (events tr) j) as [ej|] eqn:Hej; [|discriminate].
  destruct ej; try discriminate. simpl in Hpj. apply Nat.eqb_eq in Hpj. subst i0.
  destruct (events_nth_inv _ _ _ Hej) as [tj Htj].
  assert (Htj_le : (tj <= t + P)%Z).
  { pose proof (Hord j j0 tj (Wake i) t0 (Wake i) Hjj0 Htj Hw0). lia. }
  exists j, tj. split; auto. split; auto. split; auto.
  (* the events strictly between k and j *)
  set (mid := firstn (j - S k) (skipn (S k) (events tr))).
  assert (Hsplit : firstn j (events tr) = (firstn k (events tr) ++ StopHunt (amac a) :: mid)%list)
    by (apply firstn_split_at; auto).
  assert (Hmid : forall e, In e mid -> exists x tx, (k < x)%nat /\ (x < j)%nat /\ nth_error tr x = Some (tx, e)).
  { intros e Hin. apply in_firstn_skipn in Hin as [x [H1 [H2 H3]]].
    destruct (events_nth_inv _ _ _ H3) as [tx Htx]. exists x, tx. repeat split; auto; lia. }
  assert (Hnw : none_of (is_wake_of i) mid).
  { apply forallb_forall. intros e Hin. destruct (Hmid e Hin) as [x [tx [H1 [H2 H3]]]].
    pose proof (Hleast x H1 H2) as Hx. unfold Pw in Hx. rewrite (events_nth _ _ _ _ H3) in Hx.
    rewrite Hx. reflexivity. }
  assert (Hq : forall e, In e mid -> is_close e = false /\ is_start_of (amac a) e = false).
  { intros e Hin. destruct (Hmid e Hin) as [x [tx [H1 [H2 H3]]]].
    apply (Hquiet x tx e H1 H3).
    pose proof (Hord x j tx e tj (Wake i) ltac:(lia) H3 Htj). lia. }
  assert (Hnc : none_of is_close mid).
  { apply forallb_forall. intros e Hin. destruct (Hq e Hin) as [H1 _]. rewrite H1. reflexivity. }
  assert (Hns : none_of (is_start_of (amac a)) mid).
  { apply forallb_forall. intros e Hin. destruct (Hq e Hin) as [_ H1]. rewrite H1. reflexivity. }
  destruct (stop_undone c (state_before c tr k) a i mid [] Hc Hl Hcl Hnw Hnc Hns eq_refl) as [Hstep [Hdead _]].
  assert (Hsb : state_before c tr j = final c (state_before c tr k) (StopHunt (amac a) :: mid)).
  { unfold state_before. rewrite Hsplit, final_app. reflexivity. }
  split.
  - unfold output_at. rewrite (outputs_nth _ _ _ _ _ Hej).
    change (final c init_state (firstn j (events tr))) with (state_before c tr j).
    rewrite Hsb, Hstep. reflexivity.
  - unfold state_before at 1. rewrite (firstn_S_nth _ _ _ Hej), final_app.
    change (final c init_state (firstn j (events tr))) with (state_before c tr j).
    simpl final. rewrite Hsb. change (wake c ?s i) with (step c s (Wake i)). rewrite Hstep. exact Hdead.
Qed.

(* non-vacuity: a concrete fair, time-ordered run (period 6000) in which StopHunt is undone in time *)
Definition wit_timed : timed :=
  [(0%Z, StartHunt (mkAddr wit_m1 3232235522)); (0%Z, Wake 0); (1000%Z, StopHunt wit_m1);
   (6000%Z, Wake 0); (12000%Z, Wake 0)].

Example stop_undone_timed_nonvacuous :
  cfg_ok wit_cfg /\ time_ordered wit_timed /\ fair wit_cfg 6000 wit_timed /\
  nth_error wit_timed 2 = Some (1000%Z, StopHunt (amac (mkAddr wit_m1 3232235522))) /\
  loop_is (state_before wit_cfg wit_timed 2) 0 (mkAddr wit_m1 3232235522) true /\
  closed (state_before wit_cfg wit_timed 2) = false /\
  observed_until wit_timed (1000 + 6000) /\
  output_at wit_cfg wit_timed 3 = Some [restore wit_cfg wit_m1] /\
  output_at wit_cfg wit_timed 4 = Some [].
Proof.
  split; [unfold cfg_ok; simpl; lia|].
  split.
  { intros x y ta ea tb eb Hxy Hx Hy.
    do 5 (destruct x as [|x]; [do 5 (destruct y as [|y]; [simpl in *; inversion Hx; inversion Hy; subst; lia|]);
                               destruct y; discriminate|]).
    destruct x; discriminate. }
  split.
  { intros k t e i a Hk Hl Hobs.
    destruct k as [|k]; [simpl in Hk; inversion Hk; subst; clear Hk|].
    { exists 1%nat, 0%Z. repeat split; try lia.
      vm_compute in Hl. destruct i as [|i]; [reflexivity|]. destruct i; discriminate. }
    destruct k as [|k]; [simpl in Hk; inversion Hk; subst; clear Hk|].
    { exists 3%nat, 6000%Z. repeat split; try lia.
      vm_compute in Hl. destruct i as [|i]; [reflexivity|]. destruct i; discriminate. }
    destruct k as [|k]; [simpl in Hk; inversion Hk; subst; clear Hk|].
    { exists 3%nat, 6000%Z. repeat split; try lia.
      vm_compute in Hl. destruct i as [|i]; [reflexivity|]. destruct i; discriminate. }
    destruct k as [|k]; [simpl in Hk; inversion Hk; subst; clear Hk|].
    { vm_compute in Hl. destruct i as [|i]; [discriminate|]. destruct i; discriminate. }
    destruct k as [|k]; [simpl in Hk; inversion Hk; subst; clear Hk|].
    { vm_compute in Hl. destruct i as [|i]; [discriminate|]. destruct i; discriminate. }
    destruct k; discriminate. }
  split; [reflexivity|]. split; [vm_compute; reflexivity|]. split; [vm_compute; reflexivity|].
  split; [exists 4%nat, 12000%Z, (Wake 0); split; [reflexivity|lia]|].
  split; vm_compute; reflexivity.
Qed.
