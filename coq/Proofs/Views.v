(* Proofs/Views.v -- C01 / C02 for the view types Ether, IP4, UDP, TCP, ARP:
   T_safe (getters panic-free and inside the view), T_spec (getter = RFC
   position value), refutation witnesses for the recorded defects,
   non-vacuity examples. *)
From PV Require Import Proofs.ViewsBase Proofs.Checksum.
Open Scope N_scope.

Lemma UDP_valid_len v : UDP_IsValid v = Ok true -> (8 <= len v)%nat.
Proof. unfold UDP_IsValid, lenN. intros H. injection H as H. lia. Qed.


Lemma UDP_safe v : wf v -> bytes_ok (arr v) -> UDP_IsValid v = Ok true -> getters_ok [] UDP_getters v.
Proof.
  intros W _ H. apply UDP_valid_len in H. unfold wf in W.
  unfold getters_ok, UDP_getters. each_getter.
  all: try c01_fixed.
Qed.



Lemma UDP_spec v : wf v -> bytes_ok (arr v) -> UDP_IsValid v = Ok true -> getters_spec [] UDP_getters UDP_specs v.
Proof.
  intros W B H. apply UDP_valid_len in H. unfold wf in W. pose proof (view_length v W) as L.
  unfold getters_spec, UDP_getters, UDP_specs.
  each_spec.
  all: try c02_fixed B L.
Qed.

(* ---------------- TCP (repaired: HeaderLen in bytes, IsValid checks the data offset) ---------------- *)
Lemma tcp_hl_spec : forall b, b < 256 -> N.shiftr b 4 * 4 = 4 * ((b / 16) mod 16).
Proof. sweep. Qed.

Lemma TCP_valid_facts v : TCP_IsValid v = Ok true ->
  (20 <= len v)%nat /\ 20 <= N.shiftr (nth 12 (arr v) 0) 4 * 4 <= N.of_nat (len v).
Proof.
  unfold TCP_IsValid, andr, TCP_HeaderLen_n, lenN.
  destruct (20 <=? N.of_nat (len v)) eqn:E; cbn [bind]; [|discriminate].
  rewrite idx_ok by lia. cbn [bind].
  destruct (20 <=? N.shiftr (nth 12 (arr v) 0) 4 * 4) eqn:E2; [|discriminate].
  destruct (N.shiftr (nth 12 (arr v) 0) 4 * 4 <=? N.of_nat (len v)) eqn:E3; [|discriminate].
  intros _. lia.
Qed.

Ltac std_safe2 W := unfold wf in W; unfold getters_ok; each_getter; try c01_fixed; try c01_gen.
Ltac std_spec2 W B L := unfold wf in W; pose proof (view_length _ W) as L; unfold getters_spec; each_spec;
  try (c02_fixed B L; fail); try (c02_fixed B L; by_sweep); try (c02_gen B L; fail).

Lemma TCP_safe v : wf v -> bytes_ok (arr v) -> TCP_IsValid v = Ok true -> getters_ok [] TCP_getters v.
Proof.
  intros W B H. destruct (TCP_valid_facts v H) as [H20 HL]. unfold TCP_getters. std_safe2 W.
Qed.

Lemma TCP_spec v : wf v -> bytes_ok (arr v) -> TCP_IsValid v = Ok true -> getters_spec [] TCP_getters TCP_specs v.
Proof.
  intros W B H. destruct (TCP_valid_facts v H) as [H20 HL]. unfold TCP_getters, TCP_specs. std_spec2 W B L.
  - (* Payload *) intros _. unfold_getter. slices. unfold tcp_hlen. norm_bits. view_fields L. pow_lits.
    rewrite <- (tcp_hl_spec _ (bytes_ok_nth (arr v) 12 B)). cbn [len]. reflexivity.
Qed.

(* ---------------- ARP ---------------- *)
Lemma ARP_valid_len v : ARP_IsValid v = Ok true -> (28 <= len v)%nat.
Proof.
  unfold ARP_IsValid, lenN. destruct (N.of_nat (len v) <? 28) eqn:E; [discriminate|]. intros _. lia.
Qed.

Lemma ARP_safe v : wf v -> bytes_ok (arr v) -> ARP_IsValid v = Ok true -> getters_ok [] ARP_getters v.
Proof.
  intros W _ H. apply ARP_valid_len in H. unfold wf in W.
  unfold getters_ok, ARP_getters. each_getter.
  all: c01_fixed.
Qed.

Lemma ARP_spec v : wf v -> bytes_ok (arr v) -> ARP_IsValid v = Ok true -> getters_spec [] ARP_getters ARP_specs v.
Proof.
  intros W B H. apply ARP_valid_len in H. unfold wf in W. pose proof (view_length v W) as L.
  unfold getters_spec, ARP_getters, ARP_specs.
  each_spec.
  all: c02_fixed B L.
Qed.

(* ---------------- IP4 (repaired: IsValid checks IHL >= 20 and TotalLen >= IHL; Fragment uses |) ---------------- *)
Lemma IP4_valid_facts v : wf v -> IP4_IsValid v = Ok true ->
  (20 <= len v)%nat /\ 20 <= N.shiftl (N.land (nth 0 (arr v) 0) 15) 2 <= lenN v /\
  N.shiftl (N.land (nth 0 (arr v) 0) 15) 2 <= be16 (nth 2 (arr v) 0) (nth 3 (arr v) 0) <= lenN v.
Proof.
  intros W. unfold wf in W. unfold IP4_IsValid, andr, orr, IP4_IHL_n, IP4_TotalLen_n.
  destruct (20 <=? lenN v) eqn:E20; cbn [bind].
  - assert (L20 : (20 <= len v)%nat) by (unfold lenN in E20; lia).
    repeat (rewrite idx_ok by lia; cbn [bind]). repeat (rewrite be16_at_ok by lia; cbn [bind]). simpl Nat.add.
    set (ihl := N.shiftl (N.land (nth 0 (arr v) 0) 15) 2). set (tl := be16 (nth 2 (arr v) 0) (nth 3 (arr v) 0)).
    destruct (20 <=? ihl) eqn:A1; cbn [bind].
    + destruct (ihl <=? lenN v) eqn:A2; cbn [bind].
      * repeat (rewrite idx_ok by lia; cbn [bind]). repeat (rewrite be16_at_ok by lia; cbn [bind]). simpl Nat.add.
        fold ihl tl. destruct (ihl <=? tl) eqn:A3; cbn [bind].
        -- repeat (rewrite be16_at_ok by lia; cbn [bind]). simpl Nat.add. fold tl.
           destruct (tl <=? lenN v) eqn:A4; cbn [bind].
           ++ intros _. repeat split; lia.
           ++ assert (lenN v <? 20 = false) as -> by lia. cbn [bind]. repeat (rewrite idx_ok by lia; cbn [bind]). fold ihl.
              assert (ihl <? 20 = false) as -> by lia. cbn [bind]. repeat (rewrite idx_ok by lia; cbn [bind]). fold ihl.
              assert (lenN v <? ihl = false) as -> by lia. rewrite ?be16_at_ok by lia. cbn [bind]. discriminate.
        -- assert (lenN v <? 20 = false) as -> by lia. cbn [bind]. repeat (rewrite idx_ok by lia; cbn [bind]). fold ihl.
           assert (ihl <? 20 = false) as -> by lia. cbn [bind]. repeat (rewrite idx_ok by lia; cbn [bind]). fold ihl.
           assert (lenN v <? ihl = false) as -> by lia. rewrite ?be16_at_ok by lia. cbn [bind]. discriminate.
      * assert (lenN v <? 20 = false) as -> by lia. cbn [bind]. repeat (rewrite idx_ok by lia; cbn [bind]). fold ihl.
        assert (ihl <? 20 = false) as -> by lia. cbn [bind]. repeat (rewrite idx_ok by lia; cbn [bind]). fold ihl.
        assert (lenN v <? ihl = true) as -> by lia. discriminate.
    + assert (lenN v <? 20 = false) as -> by lia. cbn [bind]. repeat (rewrite idx_ok by lia; cbn [bind]). fold ihl.
      assert (ihl <? 20 = true) as -> by lia. discriminate.
  - assert (lenN v <? 20 = true) as -> by lia. discriminate.
Qed.

Lemma ihl_model_spec : forall b, b < 256 -> N.shiftl (N.land b 15) 2 = 4 * ((b / 1) mod 16).
Proof. sweep. Qed.
Lemma ihl_mod : forall b, b < 256 -> N.shiftl (N.land b 15) 2 = 4 * (b mod 16).
Proof. sweep. Qed.
Lemma land31 : forall b, b < 256 -> N.land b 31 = b mod 32.
Proof. sweep. Qed.

Lemma IP4_safe v : wf v -> bytes_ok (arr v) -> IP4_IsValid v = Ok true -> getters_ok [] IP4_getters v.
Proof.
  intros W B H. destruct (IP4_valid_facts v W H) as (H20 & HI & HT). unfold wf in W. unfold lenN in *.
  unfold getters_ok, IP4_getters. each_getter.
  all: try c01_fixed.
  (* Payload: p[IHL:TotalLen] *)
  intros _. unfold getter_ok. unfold_getter. slices. unfold rsl. simpl Nat.add. unfold be16 in *.
  rewrite sl_ok by lia. cbn [bind len]. split; [apply safe_Ok | inside_tac].
Qed.

Lemma ip4_flags_ms : forall b, b < 256 -> N.land b 224 = 32 * ((b / 32) mod 8).
Proof. sweep. Qed.

Lemma IP4_spec v : wf v -> bytes_ok (arr v) -> IP4_IsValid v = Ok true -> getters_spec [] IP4_getters IP4_specs v.
Proof.
  intros W B H. destruct (IP4_valid_facts v W H) as (H20 & HI & HT). unfold wf in W. unfold lenN in *.
  pose proof (view_length v W) as L.
  unfold getters_spec, IP4_getters, IP4_specs.
  each_spec.
  10: { (* Payload *)
    intros _. unfold_getter. slices. unfold rsl, ip4_ihl, ip4_totallen. norm_bits. view_fields L. pow_lits.
    pose proof (ihl_mod _ (bytes_ok_nth (arr v) 0 B)) as E. unfold be16 in *. simpl Nat.add in *.
    byte_bounds B. rewrite sl_ok by lia. cbn [bind len]. rewrite E.
    repeat rewrite N.div_1_r.
    replace ((nth 2 (arr v) 0 * 256 + nth 3 (arr v) 0) mod 65536) with (nth 2 (arr v) 0 * 256 + nth 3 (arr v) 0) by lia.
    reflexivity. }
  7: { (* Fragment *)
    intros _. unfold_getter. slices. unfold sfield. norm_bits. view_fields L. pow_lits. byte_bounds B. strip.
    simpl Nat.add. rewrite (lor_shl8 _ _ H1). rewrite (land31 _ H0). lia. }
  1: { (* CalculateChecksum: C15 checksum_rfc1071 + commutation of the zero checksum word *)
    intros _. unfold_getter. slices. cbn [arr]. strip. unfold ip4_header_checksum.
    repeat rewrite sub_view by lia. unfold sub. rewrite skipn_O.
    assert (B10 : bytes_ok (firstn 10 (arr v))) by (apply bytes_ok_firstn; exact B).
    assert (B8 : bytes_ok (firstn 8 (skipn 12 (arr v)))) by (apply bytes_ok_firstn, bytes_ok_skipn; exact B).
    assert (L10 : List.length (firstn 10 (arr v)) = 10%nat) by (rewrite firstn_length; unfold cap in W; lia).
    assert (L8 : List.length (firstn 8 (skipn 12 (arr v))) = 8%nat) by (rewrite firstn_length, skipn_length; unfold cap in W; lia).
    rewrite checksum_rfc1071.
    - f_equal. unfold rfc1071. f_equal. f_equal.
      rewrite !be_sum_app_even by (rewrite ?L10, ?L8; reflexivity). simpl be_sum. lia.
    - apply bytes_ok_app; split; [exact B10|]. apply bytes_ok_app; split; [exact B8|]. repeat constructor; lia.
    - rewrite !app_length, L10, L8. simpl. lia. }
  all: try (c02_fixed B L; fail).
  all: try (c02_fixed B L; by_sweep).
Qed.

(* ---------------- Ether (SrcIP/DstIP repaired; Payload of a header-only frame still returns spare capacity) ---------------- *)
Lemma Ether_valid_len v : Ether_IsValid v = Ok true -> (14 <= len v)%nat.
Proof. unfold Ether_IsValid, lenN. intros H. injection H as H. lia. Qed.

Lemma Ether_safe v : wf v -> bytes_ok (arr v) -> Ether_IsValid v = Ok true -> getters_ok Ether_findings Ether_getters v.
Proof.
  intros W _ H. apply Ether_valid_len in H. unfold Ether_getters. std_safe2 W.
  (* Payload *)
  intros K. simp_known K. unfold eth_hlen, w16, bt in K. simpl Nat.add in K.
  unfold getter_ok. unfold Ether_Payload, Ether_Payload_l, Ether_HeaderLen_n, Ether_EtherType_n. slices. simpl Nat.add. unfold be16.
  set (et := nth 12 (arr v) 0 * 256 + nth 13 (arr v) 0) in *.
  set (n := if et =? 33024 then 18%nat else if et =? 34984 then 22%nat else 14%nat) in *.
  destruct (Nat.ltb_spec n (len v)).
  + slices. unfold lval. cbn [loff lsl len]. split; [apply safe_Ok | inside_tac].
  + destruct (Nat.eqb_spec (len v) n).
    * assert (cap v = len v) by lia. rewrite sl_ok by lia. cbn [bind]. unfold lval. cbn [loff lsl len].
      split; [apply safe_Ok | inside_tac].
    * cbn [bind]. split; [apply safe_Ok | inside_tac].
Qed.

Lemma Ether_spec v : wf v -> bytes_ok (arr v) -> Ether_IsValid v = Ok true -> getters_spec Ether_findings Ether_getters Ether_specs v.
Proof.
  intros W B H. apply Ether_valid_len in H. unfold wf in W. pose proof (view_length v W) as L.
  assert (ET : ether_type (view v) = nth 12 (arr v) 0 * 256 + nth 13 (arr v) 0).
  { unfold ether_type. norm_bits. view_fields L. pow_lits. byte_bounds B. simpl Nat.add. lia. }
  unfold getters_spec, Ether_getters, Ether_specs. each_spec.
  all: try (c02_fixed B L; fail).
  - (* DstIP *)
    intros _. unfold ether_ip. rewrite ET. unfold blen. rewrite L.
    unfold_getter. slices. simpl Nat.add. unfold be16, lenN.
    set (et := nth 12 (arr v) 0 * 256 + nth 13 (arr v) 0) in *.
    destruct (et =? 2048) eqn:E1; [|destruct (et =? 34525) eqn:E2]; cbn [andb].
    + destruct (34 <=? N.of_nat (len v)) eqn:G; destruct (Nat.leb_spec 34 (len v)); try lia;
        [|assert ((et =? 34525) = false) as -> by lia; reflexivity].
      slices. unfold IP4_Dst, rarr. slices. cbn [arr]. rewrite sub_view by lia. unfold sub. rewrite skipn_skipn'. reflexivity.
    + destruct (54 <=? N.of_nat (len v)) eqn:G; destruct (Nat.leb_spec 54 (len v)); try lia; [|reflexivity].
      slices. unfold IP6_Dst, rarr. slices. cbn [arr]. rewrite sub_view by lia. unfold sub. rewrite skipn_skipn'. reflexivity.
    + reflexivity.
  - (* HeaderLen *)
    intros _. cbn beta. unfold ether_hlen. rewrite ET. unfold_getter. slices. reflexivity.
  - (* Payload *)
    intros K. simp_known K. unfold eth_hlen, w16, bt in K. simpl Nat.add in K.
    cbn beta. unfold ether_hlen. rewrite ET. unfold blen. rewrite L.
    unfold Ether_Payload, Ether_Payload_l, Ether_HeaderLen_n, Ether_EtherType_n. slices. simpl Nat.add. unfold be16.
    set (et := nth 12 (arr v) 0 * 256 + nth 13 (arr v) 0) in *.
    set (n := if et =? 33024 then 18%nat else if et =? 34984 then 22%nat else 14%nat) in *.
    destruct (Nat.ltb_spec n (len v)).
    + slices. unfold lval. cbn [loff lsl len]. destruct (Nat.ltb_spec (len v) n); [lia|]. reflexivity.
    + destruct (Nat.eqb_spec (len v) n).
      * assert (cap v = len v) by lia. rewrite sl_ok by lia. cbn [bind]. unfold lval. cbn [loff lsl len].
        destruct (Nat.ltb_spec (len v) n); [lia|]. repeat f_equal; lia.
      * cbn [bind]. destruct (Nat.ltb_spec (len v) n); [|lia]. reflexivity.
  - (* SrcIP *)
    intros _. unfold ether_ip. rewrite ET. unfold blen. rewrite L.
    unfold_getter. slices. simpl Nat.add. unfold be16, lenN.
    set (et := nth 12 (arr v) 0 * 256 + nth 13 (arr v) 0) in *.
    destruct (et =? 2048) eqn:E1; [|destruct (et =? 34525) eqn:E2]; cbn [andb].
    + destruct (34 <=? N.of_nat (len v)) eqn:G; destruct (Nat.leb_spec 34 (len v)); try lia;
        [|assert ((et =? 34525) = false) as -> by lia; reflexivity].
      slices. unfold IP4_Src, rarr. slices. cbn [arr]. rewrite sub_view by lia. unfold sub. rewrite skipn_skipn'. reflexivity.
    + destruct (54 <=? N.of_nat (len v)) eqn:G; destruct (Nat.leb_spec 54 (len v)); try lia; [|reflexivity].
      slices. unfold IP6_Src, rarr. slices. cbn [arr]. rewrite sub_view by lia. unfold sub. rewrite skipn_skipn'. reflexivity.
    + reflexivity.
Qed.

(* ================================================================= *)
(* refutation witnesses (each is replayed on the real code by the harness) and non-vacuity *)

Ltac witness w := exists w; split; [|split; [|split]];
  [ vm_compute; lia | apply bytes_okb_spec; vm_compute; reflexivity | vm_compute; reflexivity | ].
Ltac example := repeat split;
  first [ apply bytes_okb_spec; vm_compute; reflexivity | vm_compute; reflexivity | vm_compute; lia ].

(* header-only frame with 2 bytes of spare capacity: Payload() = p[14:16], outside the view *)
Definition w_ether_spare : slice := of_bytes_cap [1;2;3;4;5;6; 7;8;9;10;11;12; 136;204] [170;187].
Lemma Ether_payload_refuted :
  exists v, wf v /\ bytes_ok (arr v) /\ Ether_IsValid v = Ok true /\ ~ getter_ok v Ether_Payload.
Proof. witness w_ether_spare. apply not_getter_ok. vm_compute. reflexivity. Qed.

(* and the same bytes with no spare capacity give another result: capacity dependence *)
Lemma Ether_payload_capacity_refuted :
  exists v v', wf v /\ wf v' /\ view v = view v' /\ Ether_IsValid v = Ok true /\ Ether_IsValid v' = Ok true /\
               Ether_Payload v <> Ether_Payload v'.
Proof.
  exists w_ether_spare, (of_bytes [1;2;3;4;5;6; 7;8;9;10;11;12; 136;204]).
  repeat split; try (vm_compute; lia); try (vm_compute; reflexivity). vm_compute. discriminate.
Qed.

(* non-vacuity: valid views (outside the remaining known class) exist for each type, with non-trivial content *)
Definition ex_ip4 : slice := of_bytes_cap [70;0;0;28; 18;52;31;255; 64;17;0;0; 10;0;0;1; 10;0;0;2; 1;1;1;1; 1;2;3;4] [9;9].
Example IP4_valid_ex : wf ex_ip4 /\ bytes_ok (arr ex_ip4) /\ IP4_IsValid ex_ip4 = Ok true /\
  IP4_Fragment ex_ip4 = Ok (VN 8191) /\ IP4_Payload ex_ip4 = Ok (VR 24 4).
Proof. example. Qed.

Definition ex_tcp : slice := of_bytes [0;80;1;187; 0;0;0;1; 0;0;0;2; 96;16;1;0; 0;0;0;0; 1;1;1;1; 104;105].
Example TCP_valid_ex : wf ex_tcp /\ bytes_ok (arr ex_tcp) /\ TCP_IsValid ex_tcp = Ok true /\
  TCP_HeaderLen ex_tcp = Ok (VN 24) /\ TCP_Payload ex_tcp = Ok (VR 24 2).
Proof. example. Qed.

Definition ex_udp : slice := of_bytes_cap [0;53;192;0; 0;10;0;0; 1;2] [7].
Example UDP_valid_ex : wf ex_udp /\ bytes_ok (arr ex_udp) /\ UDP_IsValid ex_udp = Ok true.
Proof. example. Qed.

Definition ex_arp : slice := of_bytes [0;1;8;0;6;4;0;1; 2;0;0;0;0;1; 192;168;0;1; 0;0;0;0;0;0; 192;168;0;2].
Example ARP_valid_ex : wf ex_arp /\ bytes_ok (arr ex_arp) /\ ARP_IsValid ex_arp = Ok true.
Proof. example. Qed.

Definition ex_ether : slice :=
  of_bytes_cap ([1;2;3;4;5;6; 7;8;9;10;11;12; 8;0] ++ [69;0;0;20; 0;0;0;0; 64;17;0;0; 10;0;0;1; 10;0;0;2]) [9;9;9].
Example Ether_valid_ex : wf ex_ether /\ bytes_ok (arr ex_ether) /\ Ether_IsValid ex_ether = Ok true /\
  forallb (fun ng => negb (known_of Ether_findings (fst ng) ex_ether)) Ether_getters = true /\
  Ether_SrcIP ex_ether = Ok (VX [10;0;0;1]).
Proof. example. Qed.
