(* Proofs/Views.v -- C01 / C02 for the view types Ether, IP4, UDP, TCP, ARP:
   T_safe (getters panic-free and inside the view), T_spec (getter = RFC
   position value), refutation witnesses for the recorded defects,
   non-vacuity examples. *)
From PV Require Import Proofs.ViewsBase Proofs.Checksum.
Open Scope N_scope.

Lemma UDP_valid_len v : UDP_IsValid v = Ok true -> (8 <= len v)%nat.
Proof. unfold UDP_IsValid, lenN. intros H. injection H as H. lia. Qed.


Lemma UDP_safe v : wf v -> bytes_ok (arr v) -> UDP_IsValid v = Ok true -> getters_ok [] UDP_getters v.
Proof.
  intros W _ H. apply UDP_valid_len in H. unfold wf in W.
  unfold getters_ok, UDP_getters. each_getter.
  all: try c01_fixed.
Qed.



Lemma UDP_spec v : wf v -> bytes_ok (arr v) -> UDP_IsValid v = Ok true -> getters_spec [] UDP_getters UDP_specs v.
Proof.
  intros W B H. apply UDP_valid_len in H. unfold wf in W. pose proof (view_length v W) as L.
  unfold getters_spec, UDP_getters, UDP_specs.
  each_spec.
  all: try c02_fixed B L.
Qed.

(* ---------------- TCP ---------------- *)
Lemma TCP_valid_len v : TCP_IsValid v = Ok true -> (20 <= len v)%nat.
Proof. unfold TCP_IsValid, lenN. intros H. injection H as H. lia. Qed.

Lemma shr4_le15 : forall b, b < 256 -> (N.shiftr b 4 <=? 15) = true.
Proof. sweep. Qed.


Lemma TCP_safe v : wf v -> bytes_ok (arr v) -> TCP_IsValid v = Ok true -> getters_ok TCP_findings_C01 TCP_getters v.
Proof.
  intros W B H. apply TCP_valid_len in H. unfold wf in W.
  unfold getters_ok, TCP_getters. each_getter.
  all: try c01_fixed.
  (* Payload: p[p[12]>>4:] *)
  intros _. unfold getter_ok, TCP_Payload, rfrom. slices.
  pose proof (shr4_le15 _ (bytes_ok_nth (arr v) 12 B)).
  slices. split; [apply safe_Ok | inside_tac].
Qed.

Lemma TCP_spec v : wf v -> bytes_ok (arr v) -> TCP_IsValid v = Ok true -> getters_spec TCP_findings_C02 TCP_getters TCP_specs v.
Proof.
  intros W B H. apply TCP_valid_len in H. unfold wf in W. pose proof (view_length v W) as L.
  unfold getters_spec, TCP_getters, TCP_specs.
  each_spec.
  all: try (c02_fixed B L; by_sweep).
  - intros K. simp_known K. unfold bt in K.
    unfold_getter; slices. unfold tcp_hlen. norm_bits. view_fields L. pow_lits. byte_bounds B. strip.
    assert (K' : (nth 12 (arr v) 0 / 16 =? 0) = true) by lia. clear K.
    revert K'. revert H0. generalize (nth 12 (arr v) 0). sweepc.
  - intros K. simp_known K. unfold bt in K.
    unfold_getter; slices. unfold tcp_hlen. norm_bits. view_fields L. pow_lits. byte_bounds B.
    assert (K' : (nth 12 (arr v) 0 / 16 =? 0) = true) by lia. clear K.
    assert (E : N.shiftr (nth 12 (arr v) 0) 4 = 4 * ((nth 12 (arr v) 0 / 16) mod 16)).
    { revert K'. revert H0. generalize (nth 12 (arr v) 0). sweepc. }
    rewrite <- E. assert (Z : N.shiftr (nth 12 (arr v) 0) 4 = 0).
    { revert K'. revert H0. generalize (nth 12 (arr v) 0). sweepc. }
    rewrite Z. slices. cbn [len]. strip; lia.
Qed.

(* ---------------- ARP ---------------- *)
Lemma ARP_valid_len v : ARP_IsValid v = Ok true -> (28 <= len v)%nat.
Proof.
  unfold ARP_IsValid, lenN. destruct (N.of_nat (len v) <? 28) eqn:E; [discriminate|]. intros _. lia.
Qed.

Lemma ARP_safe v : wf v -> bytes_ok (arr v) -> ARP_IsValid v = Ok true -> getters_ok [] ARP_getters v.
Proof.
  intros W _ H. apply ARP_valid_len in H. unfold wf in W.
  unfold getters_ok, ARP_getters. each_getter.
  all: c01_fixed.
Qed.

Lemma ARP_spec v : wf v -> bytes_ok (arr v) -> ARP_IsValid v = Ok true -> getters_spec [] ARP_getters ARP_specs v.
Proof.
  intros W B H. apply ARP_valid_len in H. unfold wf in W. pose proof (view_length v W) as L.
  unfold getters_spec, ARP_getters, ARP_specs.
  each_spec.
  all: c02_fixed B L.
Qed.

(* ---------------- IP4 ---------------- *)
Lemma IP4_valid_facts v : wf v -> IP4_IsValid v = Ok true ->
  (20 <= len v)%nat /\ N.shiftl (N.land (nth 0 (arr v) 0) 15) 2 <= lenN v /\
  be16 (nth 2 (arr v) 0) (nth 3 (arr v) 0) <= lenN v.
Proof.
  intros W. unfold wf in W. unfold IP4_IsValid, andr, orr, IP4_IHL_n, IP4_TotalLen_n.
  destruct (20 <=? lenN v) eqn:E20; cbn [bind].
  - assert (L20 : (20 <= len v)%nat) by (unfold lenN in E20; lia).
    rewrite idx_ok by lia. cbn [bind].
    destruct (N.shiftl (N.land (nth 0 (arr v) 0) 15) 2 <=? lenN v) eqn:EI.
    + rewrite be16_at_ok by lia. cbn [bind]. simpl Nat.add.
      destruct (be16 (nth 2 (arr v) 0) (nth 3 (arr v) 0) <=? lenN v) eqn:ET.
      * intros _. repeat split; try lia.
      * assert (lenN v <? 20 = false) as -> by lia. cbn [bind].
        assert (lenN v <? N.shiftl (N.land (nth 0 (arr v) 0) 15) 2 = false) as -> by lia.
        discriminate.
    + assert (lenN v <? 20 = false) as -> by lia. cbn [bind].
      destruct (lenN v <? N.shiftl (N.land (nth 0 (arr v) 0) 15) 2); [discriminate|].
      rewrite be16_at_ok by lia. discriminate.
  - assert (lenN v <? 20 = true) as -> by lia. discriminate.
Qed.

Lemma ihl_model_spec : forall b, b < 256 -> N.shiftl (N.land b 15) 2 = 4 * ((b / 1) mod 16).
Proof. sweep. Qed.
Lemma ihl_mod : forall b, b < 256 -> N.shiftl (N.land b 15) 2 = 4 * (b mod 16).
Proof. sweep. Qed.
Lemma ihl_le60 : forall b, b < 256 -> (N.shiftl (N.land b 15) 2 <=? 60) = true.
Proof. sweep. Qed.

Lemma IP4_safe v : wf v -> bytes_ok (arr v) -> IP4_IsValid v = Ok true -> getters_ok IP4_findings_C01 IP4_getters v.
Proof.
  intros W B H. destruct (IP4_valid_facts v W H) as (H20 & HI & HT). unfold wf in W. unfold lenN in *.
  unfold getters_ok, IP4_getters. each_getter.
  all: try c01_fixed.
  (* Payload: p[IHL:TotalLen], outside the class TotalLen < IHL *)
  intros K. simp_known K. unfold w16, bt in K. simpl Nat.add in K.
  unfold getter_ok. unfold_getter. slices. unfold rsl.
  pose proof (ihl_mod _ (bytes_ok_nth (arr v) 0 B)) as E. unfold be16 in *.
  simpl Nat.add. rewrite E in *. rewrite sl_ok by lia. cbn [bind len]. split; [apply safe_Ok | inside_tac].
Qed.

Lemma ip4_flags_ms : forall b, b < 256 -> N.land b 224 = 32 * ((b / 32) mod 8).
Proof. sweep. Qed.

Lemma IP4_spec v : wf v -> bytes_ok (arr v) -> IP4_IsValid v = Ok true -> getters_spec IP4_findings_C02 IP4_getters IP4_specs v.
Proof.
  intros W B H. destruct (IP4_valid_facts v W H) as (H20 & HI & HT). unfold wf in W. unfold lenN in *.
  pose proof (view_length v W) as L.
  unfold getters_spec, IP4_getters, IP4_specs.
  each_spec.
  10: { (* Payload, outside TotalLen < IHL *)
    intros K. simp_known K. unfold w16, bt in K. simpl Nat.add in K.
    unfold_getter. slices. unfold rsl, ip4_ihl, ip4_totallen. norm_bits. view_fields L. pow_lits.
    pose proof (ihl_mod _ (bytes_ok_nth (arr v) 0 B)) as E. unfold be16 in *. simpl Nat.add.
    byte_bounds B. rewrite E in *. rewrite sl_ok by lia. cbn [bind len].
    repeat rewrite N.div_1_r.
    replace ((nth 2 (arr v) 0 * 256 + nth 3 (arr v) 0) mod 65536) with (nth 2 (arr v) 0 * 256 + nth 3 (arr v) 0) by lia.
    reflexivity. }
  7: { (* Fragment, outside fragment offset <> 0 *)
    intros K. simp_known K. unfold bt in K.
    unfold_getter. slices. unfold sfield. norm_bits. view_fields L. pow_lits. byte_bounds B. strip.
    assert (Z7 : nth 7 (arr v) 0 = 0) by lia. assert (Z6 : nth 6 (arr v) 0 mod 32 = 0) by lia.
    simpl Nat.add. rewrite Z7. rewrite N.land_0_r. lia. }
  1: { (* CalculateChecksum: C15 checksum_rfc1071 + commutation of the zero checksum word *)
    intros _. unfold_getter. slices. cbn [arr]. strip. unfold ip4_header_checksum.
    repeat rewrite sub_view by lia. unfold sub. rewrite skipn_O.
    assert (B10 : bytes_ok (firstn 10 (arr v))) by (apply bytes_ok_firstn; exact B).
    assert (B8 : bytes_ok (firstn 8 (skipn 12 (arr v)))) by (apply bytes_ok_firstn, bytes_ok_skipn; exact B).
    assert (L10 : List.length (firstn 10 (arr v)) = 10%nat) by (rewrite firstn_length; unfold cap in W; lia).
    assert (L8 : List.length (firstn 8 (skipn 12 (arr v))) = 8%nat) by (rewrite firstn_length, skipn_length; unfold cap in W; lia).
    rewrite checksum_rfc1071.
    - f_equal. unfold rfc1071. f_equal. f_equal.
      rewrite !be_sum_app_even by (rewrite ?L10, ?L8; reflexivity). simpl be_sum. lia.
    - apply bytes_ok_app; split; [exact B10|]. apply bytes_ok_app; split; [exact B8|]. repeat constructor; lia.
    - rewrite !app_length, L10, L8. simpl. lia. }
  all: try (c02_fixed B L; fail).
  all: try (c02_fixed B L; by_sweep).
Qed.

(* ---------------- Ether ---------------- *)
Lemma Ether_valid_len v : Ether_IsValid v = Ok true -> (14 <= len v)%nat.
Proof. unfold Ether_IsValid, lenN. intros H. injection H as H. lia. Qed.

Lemma cap_skipn v n : List.length (skipn n (arr v)) = (cap v - n)%nat.
Proof. unfold cap. apply skipn_length. Qed.

Lemma Ether_safe v : wf v -> bytes_ok (arr v) -> Ether_IsValid v = Ok true -> getters_ok Ether_findings Ether_getters v.
Proof.
  intros W _ H. apply Ether_valid_len in H. unfold wf in W.
  unfold getters_ok, Ether_getters. each_getter.
  all: try c01_fixed.
  - (* DstIP *)
    intros K. simp_known K. unfold w16, bt in K. simpl Nat.add in K.
    unfold getter_ok. unfold_getter. slices. simpl Nat.add. unfold be16.
    set (et := nth 12 (arr v) 0 * 256 + nth 13 (arr v) 0) in *.
    unfold Ether_Payload_s, Ether_Payload_l, Ether_HeaderLen_n, Ether_EtherType_n. slices. simpl Nat.add. unfold be16. fold et.
    destruct (et =? 2048) eqn:E1; [|destruct (et =? 34525) eqn:E2].
    + assert (et =? 33024 = false) as -> by lia. assert (et =? 34984 = false) as -> by lia.
      assert (Nat.ltb 14 (len v) = true) as -> by (apply Nat.ltb_lt; lia). slices. cbn [lsl].
      unfold IP4_Dst, rarr. rewrite sl_ok by (unfold cap; cbn [arr]; rewrite ?cap_skipn; lia). cbn [bind].
      split; [apply safe_Ok | inside_tac].
    + assert (et =? 33024 = false) as -> by lia. assert (et =? 34984 = false) as -> by lia.
      assert (Nat.ltb 14 (len v) = true) as -> by (apply Nat.ltb_lt; lia). slices. cbn [lsl].
      unfold IP6_Dst, rarr. rewrite sl_ok by (unfold cap; cbn [arr]; rewrite ?cap_skipn; lia). cbn [bind].
      split; [apply safe_Ok | inside_tac].
    + split; [apply safe_Ok | inside_tac].
  - (* Payload *)
    intros K. simp_known K. unfold eth_hlen, w16, bt in K. simpl Nat.add in K.
    unfold getter_ok. unfold Ether_Payload, Ether_Payload_l, Ether_HeaderLen_n, Ether_EtherType_n. slices. simpl Nat.add. unfold be16.
    set (et := nth 12 (arr v) 0 * 256 + nth 13 (arr v) 0) in *.
    set (n := if et =? 33024 then 18%nat else if et =? 34984 then 22%nat else 14%nat) in *.
    destruct (Nat.ltb_spec n (len v)).
    + slices. unfold lval. cbn [loff lsl len]. split; [apply safe_Ok | inside_tac].
    + destruct (Nat.eqb_spec (len v) n).
      * assert (cap v = len v) by lia. rewrite sl_ok by lia. cbn [bind]. unfold lval. cbn [loff lsl len].
        split; [apply safe_Ok | inside_tac].
      * cbn [bind]. split; [apply safe_Ok | inside_tac].
  - (* SrcIP *)
    intros K. simp_known K. unfold w16, bt in K. simpl Nat.add in K.
    unfold getter_ok. unfold_getter. slices. simpl Nat.add. unfold be16.
    set (et := nth 12 (arr v) 0 * 256 + nth 13 (arr v) 0) in *.
    unfold Ether_Payload_s, Ether_Payload_l, Ether_HeaderLen_n, Ether_EtherType_n. slices. simpl Nat.add. unfold be16. fold et.
    destruct (et =? 2048) eqn:E1; [|destruct (et =? 34525) eqn:E2].
    + assert (et =? 33024 = false) as -> by lia. assert (et =? 34984 = false) as -> by lia.
      assert (Nat.ltb 14 (len v) = true) as -> by (apply Nat.ltb_lt; lia). slices. cbn [lsl].
      unfold IP4_Src, rarr. rewrite sl_ok by (unfold cap; cbn [arr]; rewrite ?cap_skipn; lia). cbn [bind].
      split; [apply safe_Ok | inside_tac].
    + assert (et =? 33024 = false) as -> by lia. assert (et =? 34984 = false) as -> by lia.
      assert (Nat.ltb 14 (len v) = true) as -> by (apply Nat.ltb_lt; lia). slices. cbn [lsl].
      unfold IP6_Src, rarr. rewrite sl_ok by (unfold cap; cbn [arr]; rewrite ?cap_skipn; lia). cbn [bind].
      split; [apply safe_Ok | inside_tac].
    + split; [apply safe_Ok | inside_tac].
Qed.

Lemma Ether_spec v : wf v -> bytes_ok (arr v) -> Ether_IsValid v = Ok true -> getters_spec Ether_findings Ether_getters Ether_specs v.
Proof.
  intros W B H. apply Ether_valid_len in H. unfold wf in W. pose proof (view_length v W) as L.
  assert (ET : ether_type (view v) = nth 12 (arr v) 0 * 256 + nth 13 (arr v) 0).
  { unfold ether_type. norm_bits. view_fields L. pow_lits. byte_bounds B. simpl Nat.add. lia. }
  unfold getters_spec, Ether_getters, Ether_specs.
  each_spec.
  all: try (c02_fixed B L; fail).
  - (* DstIP *)
    intros K. simp_known K. unfold w16, bt in K. simpl Nat.add in K.
    unfold ether_ip. rewrite ET.
    unfold_getter. slices. simpl Nat.add. unfold be16.
    set (et := nth 12 (arr v) 0 * 256 + nth 13 (arr v) 0) in *.
    unfold Ether_Payload_s, Ether_Payload_l, Ether_HeaderLen_n, Ether_EtherType_n. slices. simpl Nat.add. unfold be16. fold et.
    destruct (et =? 2048) eqn:E1; [|destruct (et =? 34525) eqn:E2].
    + assert (et =? 33024 = false) as -> by lia. assert (et =? 34984 = false) as -> by lia.
      assert (Nat.ltb 14 (len v) = true) as -> by (apply Nat.ltb_lt; lia). slices. cbn [lsl].
      unfold IP4_Dst, rarr. rewrite sl_ok by (unfold cap; cbn [arr]; rewrite ?cap_skipn; lia). cbn [bind arr].
      rewrite sub_view by lia. unfold sub. rewrite skipn_skipn'. reflexivity.
    + assert (et =? 33024 = false) as -> by lia. assert (et =? 34984 = false) as -> by lia.
      assert (Nat.ltb 14 (len v) = true) as -> by (apply Nat.ltb_lt; lia). slices. cbn [lsl].
      unfold IP6_Dst, rarr. rewrite sl_ok by (unfold cap; cbn [arr]; rewrite ?cap_skipn; lia). cbn [bind arr].
      rewrite sub_view by lia. unfold sub. rewrite skipn_skipn'. reflexivity.
    + reflexivity.
  - (* HeaderLen *)
    intros _. cbn beta. unfold ether_hlen. rewrite ET. unfold_getter. slices. reflexivity.
  - (* Payload *)
    intros K. simp_known K. unfold eth_hlen, w16, bt in K. simpl Nat.add in K.
    cbn beta. unfold ether_hlen. rewrite ET. unfold blen. rewrite L.
    unfold Ether_Payload, Ether_Payload_l, Ether_HeaderLen_n, Ether_EtherType_n. slices. simpl Nat.add. unfold be16.
    set (et := nth 12 (arr v) 0 * 256 + nth 13 (arr v) 0) in *.
    set (n := if et =? 33024 then 18%nat else if et =? 34984 then 22%nat else 14%nat) in *.
    destruct (Nat.ltb_spec n (len v)).
    + slices. unfold lval. cbn [loff lsl len]. destruct (Nat.ltb_spec (len v) n); [lia|]. reflexivity.
    + destruct (Nat.eqb_spec (len v) n).
      * assert (cap v = len v) by lia. rewrite sl_ok by lia. cbn [bind]. unfold lval. cbn [loff lsl len].
        destruct (Nat.ltb_spec (len v) n); [lia|]. repeat f_equal; lia.
      * cbn [bind]. destruct (Nat.ltb_spec (len v) n); [|lia]. reflexivity.
  - (* SrcIP *)
    intros K. simp_known K. unfold w16, bt in K. simpl Nat.add in K.
    unfold ether_ip. rewrite ET.
    unfold_getter. slices. simpl Nat.add. unfold be16.
    set (et := nth 12 (arr v) 0 * 256 + nth 13 (arr v) 0) in *.
    unfold Ether_Payload_s, Ether_Payload_l, Ether_HeaderLen_n, Ether_EtherType_n. slices. simpl Nat.add. unfold be16. fold et.
    destruct (et =? 2048) eqn:E1; [|destruct (et =? 34525) eqn:E2].
    + assert (et =? 33024 = false) as -> by lia. assert (et =? 34984 = false) as -> by lia.
      assert (Nat.ltb 14 (len v) = true) as -> by (apply Nat.ltb_lt; lia). slices. cbn [lsl].
      unfold IP4_Src, rarr. rewrite sl_ok by (unfold cap; cbn [arr]; rewrite ?cap_skipn; lia). cbn [bind arr].
      rewrite sub_view by lia. unfold sub. rewrite skipn_skipn'. reflexivity.
    + assert (et =? 33024 = false) as -> by lia. assert (et =? 34984 = false) as -> by lia.
      assert (Nat.ltb 14 (len v) = true) as -> by (apply Nat.ltb_lt; lia). slices. cbn [lsl].
      unfold IP6_Src, rarr. rewrite sl_ok by (unfold cap; cbn [arr]; rewrite ?cap_skipn; lia). cbn [bind arr].
      rewrite sub_view by lia. unfold sub. rewrite skipn_skipn'. reflexivity.
    + reflexivity.
Qed.

(* ================================================================= *)
(* refutation witnesses (each is replayed on the real code by the harness) and non-vacuity *)

Ltac witness w := exists w; split; [|split; [|split]];
  [ vm_compute; lia | apply bytes_okb_spec; vm_compute; reflexivity | vm_compute; reflexivity | ].
Ltac example := split; [|split; [|try split]];
  [ vm_compute; lia | apply bytes_okb_spec; vm_compute; reflexivity | vm_compute; reflexivity .. ].

(* 45 00 00 10 ... : TotalLen 16 < IHL 20, accepted by IsValid; Payload() panics *)
Definition w_ip4_short : slice := of_bytes [69;0;0;16; 0;0;0;0; 64;17;0;0; 10;0;0;1; 10;0;0;2].
Lemma IP4_payload_refuted :
  exists v, wf v /\ bytes_ok (arr v) /\ IP4_IsValid v = Ok true /\ IP4_Payload v = Panic.
Proof. witness w_ip4_short. vm_compute. reflexivity. Qed.

(* fragment offset 0x1fff is returned as 0 *)
Definition w_ip4_frag : slice := of_bytes [69;0;0;20; 0;0;31;255; 64;17;0;0; 10;0;0;1; 10;0;0;2].
Lemma IP4_fragment_refuted :
  exists v, wf v /\ bytes_ok (arr v) /\ IP4_IsValid v = Ok true /\
            IP4_Fragment v = Ok (VN 0) /\ sfield 51 13 (view v) = VN 8191.
Proof. witness w_ip4_frag. split; vm_compute; reflexivity. Qed.

(* data offset 5: HeaderLen() = 5 and the payload starts at byte 5; RFC 793: 20 *)
Definition w_tcp : slice := of_bytes [0;80;1;187; 0;0;0;1; 0;0;0;2; 80;16;1;0; 0;0;0;0; 104;105].
Lemma TCP_headerlen_refuted :
  exists v, wf v /\ bytes_ok (arr v) /\ TCP_IsValid v = Ok true /\
            TCP_HeaderLen v = Ok (VN 5) /\ tcp_hlen (view v) = 20 /\ TCP_Payload v = Ok (VR 5 17).
Proof. witness w_tcp. repeat split; vm_compute; reflexivity. Qed.

(* header-only frame with 2 bytes of spare capacity: Payload() = p[14:16], outside the view *)
Definition w_ether_spare : slice := of_bytes_cap [1;2;3;4;5;6; 7;8;9;10;11;12; 136;204] [170;187].
Lemma Ether_payload_refuted :
  exists v, wf v /\ bytes_ok (arr v) /\ Ether_IsValid v = Ok true /\ ~ getter_ok v Ether_Payload.
Proof. witness w_ether_spare. apply not_getter_ok. vm_compute. reflexivity. Qed.

(* and the same bytes with no spare capacity give another result: capacity dependence *)
Lemma Ether_payload_capacity_refuted :
  exists v v', wf v /\ wf v' /\ view v = view v' /\ Ether_IsValid v = Ok true /\ Ether_IsValid v' = Ok true /\
               Ether_Payload v <> Ether_Payload v'.
Proof.
  exists w_ether_spare, (of_bytes [1;2;3;4;5;6; 7;8;9;10;11;12; 136;204]).
  repeat split; try (vm_compute; lia); try (vm_compute; reflexivity). vm_compute. discriminate.
Qed.

(* IPv4 EtherType, 4 bytes of payload: SrcIP() panics *)
Definition w_ether_ip : slice := of_bytes [1;2;3;4;5;6; 7;8;9;10;11;12; 8;0; 69;0;0;20].
Lemma Ether_srcip_refuted :
  exists v, wf v /\ bytes_ok (arr v) /\ Ether_IsValid v = Ok true /\ Ether_SrcIP v = Panic /\ Ether_DstIP v = Panic.
Proof. witness w_ether_ip. split; vm_compute; reflexivity. Qed.

(* non-vacuity: valid views outside every known class exist for each type *)
Definition ex_ip4 : slice := of_bytes_cap [69;0;0;24; 18;52;0;0; 64;17;0;0; 10;0;0;1; 10;0;0;2; 1;2;3;4] [9;9].
Example IP4_valid_ex : wf ex_ip4 /\ bytes_ok (arr ex_ip4) /\ IP4_IsValid ex_ip4 = Ok true /\
  forallb (fun ng => negb (known_of IP4_findings_C02 (fst ng) ex_ip4)) IP4_getters = true.
Proof. example. Qed.

Definition ex_tcp : slice := of_bytes [0;80;1;187; 0;0;0;1; 0;0;0;2; 0;16;1;0; 0;0;0;0; 104;105].
Example TCP_valid_ex : wf ex_tcp /\ bytes_ok (arr ex_tcp) /\ TCP_IsValid ex_tcp = Ok true /\
  forallb (fun ng => negb (known_of TCP_findings_C02 (fst ng) ex_tcp)) TCP_getters = true.
Proof. example. Qed.

Definition ex_udp : slice := of_bytes_cap [0;53;192;0; 0;10;0;0; 1;2] [7].
Example UDP_valid_ex : wf ex_udp /\ bytes_ok (arr ex_udp) /\ UDP_IsValid ex_udp = Ok true.
Proof. example. Qed.

Definition ex_arp : slice := of_bytes [0;1;8;0;6;4;0;1; 2;0;0;0;0;1; 192;168;0;1; 0;0;0;0;0;0; 192;168;0;2].
Example ARP_valid_ex : wf ex_arp /\ bytes_ok (arr ex_arp) /\ ARP_IsValid ex_arp = Ok true.
Proof. example. Qed.

Definition ex_ether : slice :=
  of_bytes_cap ([1;2;3;4;5;6; 7;8;9;10;11;12; 8;0] ++ [69;0;0;20; 0;0;0;0; 64;17;0;0; 10;0;0;1; 10;0;0;2]) [9;9;9].
Example Ether_valid_ex : wf ex_ether /\ bytes_ok (arr ex_ether) /\ Ether_IsValid ex_ether = Ok true /\
  forallb (fun ng => negb (known_of Ether_findings (fst ng) ex_ether)) Ether_getters = true.
Proof. example. Qed.
