(* Proofs/LeaseMulti.v — several handlers over one lease file: the file reflects the last writer. *)
From PV Require Import Base.Prelude Model.LeaseMulti.
Open Scope N_scope.

Lemma tbl_get_set h t ts : tbl_get h (tbl_set h t ts) = t.
Proof.
  induction ts as [|[h' t'] r IH]; simpl; [rewrite N.eqb_refl; reflexivity|].
  destruct (h' =? h) eqn:E; simpl; [rewrite N.eqb_refl; reflexivity|]. rewrite E. exact IH.
Qed.

(* one step: the file changes only through a writing operation, and then it is that handler's table *)
Lemma mstep_file s o :
  m_file (mstep s o) = if writes_file (o_kind o) then tbl_get (o_h o) (m_tables (mstep s o)) else m_file s.
Proof. unfold mstep. simpl. rewrite tbl_get_set. reflexivity. Qed.

(* after ANY interleaving of any number of handlers' operations the file is the table of the handler that performed
   the last writing operation, as it was right after that operation; if nobody wrote it is the initial file *)
Lemma file_reflects_last_writer ops : forall s acc,
  (match acc with Some t => m_file s = t | None => True end) ->
  match last_written s ops acc with
  | Some t => m_file (mrun s ops) = t
  | None => m_file (mrun s ops) = m_file s /\ acc = None
  end.
Proof.
  induction ops as [|o r IH]; intros s acc Hacc; simpl.
  - destruct acc; auto.
  - pose proof (mstep_file s o) as Hf.
    destruct (writes_file (o_kind o)) eqn:W.
    + specialize (IH (mstep s o) (Some (tbl_get (o_h o) (m_tables (mstep s o)))) Hf).
      destruct (last_written _ r _); auto. destruct IH as [_ IH]. discriminate.
    + assert (Hacc' : match acc with Some t => m_file (mstep s o) = t | None => True end)
        by (destruct acc; [rewrite Hf; exact Hacc|exact I]).
      specialize (IH (mstep s o) acc Hacc').
      destruct (last_written _ r acc); auto. destruct IH as [E1 E2]. split; auto. rewrite E1. exact Hf.
Qed.

Lemma file_reflects_last_writer0 ops s :
  match last_written s ops None with
  | Some t => m_file (mrun s ops) = t
  | None => m_file (mrun s ops) = m_file s /\ (None : option mtable) = None
  end.
Proof. exact (file_reflects_last_writer ops s None I). Qed.

(* Close (and every other non-writing operation) leaves the file as it is, whatever the handler's table *)
Lemma close_does_not_write s h eff :
  m_file (mstep s {| o_h := h; o_kind := KClose; o_eff := eff |}) = m_file s.
Proof. reflexivity. Qed.

Lemma nonwriter_keeps_file s o : writes_file (o_kind o) = false -> m_file (mstep s o) = m_file s.
Proof. intros W. rewrite mstep_file, W. reflexivity. Qed.

(* the successor survives: h1 acknowledges A, h2 is built on the same file and acknowledges B, h1 is closed LATE:
   the file still holds A and B, so the next restart restores both *)
Definition add (x : N) : mtable -> mtable := fun t => t ++ [x].
Definition ex_replace : list mop :=
  [ {| o_h := 1; o_kind := KNew; o_eff := fun t => t |}; {| o_h := 1; o_kind := KAck; o_eff := add 65 |};
    {| o_h := 2; o_kind := KNew; o_eff := fun t => t |}; {| o_h := 2; o_kind := KAck; o_eff := add 66 |};
    {| o_h := 1; o_kind := KClose; o_eff := fun t => t |}; {| o_h := 3; o_kind := KNew; o_eff := fun t => t |} ].

Lemma late_close_keeps_successor :
  let s := mrun {| m_file := []; m_tables := [] |} ex_replace in
  m_file s = [65; 66] /\ tbl_get 3 (m_tables s) = [65; 66] /\ tbl_get 1 (m_tables s) = [65].
Proof. vm_compute. auto. Qed.
