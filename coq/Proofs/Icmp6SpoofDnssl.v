(* Proofs/Icmp6SpoofDnssl.v — the converse of the DNSSL name-loop equivalence: whenever the
   reference name parser rejects the name list (or finds no name) the library's label loop ends in
   an error (or with no domain), so a malformed DNSSL option is skipped without a trace.  With it the
   lenient-decoder theorem holds for every splittable option area (no hypothesis on DNSSL). *)
From PV Require Import Base.Prelude Model.Icmp6SpoofRA Spec.RFC4861 Model.Icmp6SpoofKnown Proofs.Icmp6SpoofRA.
Open Scope N_scope.

Lemma label_bad lab : label_ok lab = false ->
  isascii lab = false \/ (has_byte 46 lab || has_byte 32 lab) = true.
Proof.
  induction lab as [|c r IH]; cbn [label_ok forallb isascii has_byte existsb]; intros H; [discriminate|].
  destruct (c <? 128) eqn:E1; cbn [andb] in *; [|left; reflexivity].
  destruct (c =? 46) eqn:E2; cbn [negb andb orb] in *; [right; reflexivity|].
  destruct (c =? 32) eqn:E3; cbn [negb andb orb] in *; [right; apply orb_true_r|].
  destruct (IH H) as [Ha|Hb]; [left; exact Ha|right].
  unfold has_byte in Hb. exact Hb.
Qed.

Lemma dn_name_shorter : forall F b acc first nm r3,
  dn_name F b acc first = Some (nm, r3) -> (List.length r3 < List.length b)%nat.
Proof.
  induction F as [|F IH]; intros b acc first nm r3 H; [discriminate|]. cbn [dn_name] in H.
  destruct b as [|n r]; [discriminate|]. destruct n as [|pn].
  - destruct first; [discriminate|]. inversion H; subst. cbn [List.length]. lia.
  - destruct (List.length r <=? N.to_nat (N.pos pn))%nat eqn:El; [discriminate|].
    destruct (negb (label_ok _)); [discriminate|].
    apply IH in H. rewrite skipn_length in H. cbn [List.length]. lia.
Qed.

Lemma name_loop_none : forall F b acc first labels doms f,
  (List.length b < F)%nat -> at_ b 0 <> 0 -> (List.length b < f)%nat ->
  dn_name F b acc first = None -> exists e, dnssl_loop f b labels doms = Err e.
Proof.
  induction F as [|F IH]; intros b acc first labels doms f HF Hh Hf Hs; [lia|].
  cbn [dn_name] in Hs. destruct b as [|n r]; [unfold at_ in Hh; cbn in Hh; congruence|].
  change (at_ (n :: r) 0) with n in Hh.
  destruct n as [|pn] eqn:En; [congruence|]. rewrite <- En in *. clear pn En.
  destruct f as [|f]; [lia|]. cbn [dnssl_loop].
  assert (Hblen : blen (n :: r) = N.of_nat (List.length r) + 1) by (unfold blen; cbn [List.length]; lia).
  rewrite Hblen. change (at_ (n :: r) 0) with n.
  destruct (N.of_nat (List.length r) + 1 <? 2) eqn:E2; [eexists; reflexivity|].
  destruct (N.of_nat (List.length r) + 1 - 1 <=? n) eqn:E3; [eexists; reflexivity|].
  destruct (List.length r <=? N.to_nat n)%nat eqn:Elen; [apply Nat.leb_le in Elen; lia|].
  destruct (n =? 0) eqn:E0; [lia|]. cbn [skipn].
  destruct (label_ok (firstn (N.to_nat n) r)) eqn:Elab.
  - destruct (label_ok_model _ Elab) as [Ha [Hb Hc]]. rewrite Ha, Hb, Hc. cbn [negb orb].
    cbn [negb] in Hs.
    set (r2 := skipn (N.to_nat n) r) in *.
    assert (Hr2 : (0 < List.length r2 < List.length r)%nat).
    { unfold r2. rewrite skipn_length. apply Nat.leb_gt in Elen. lia. }
    destruct r2 as [|x r3'] eqn:Er2; [cbn in Hr2; lia|].
    change (at_ (x :: r3') 0) with x.
    destruct x as [|px] eqn:Ex.
    + (* the reference parser would have finished the name here *)
      exfalso. destruct F as [|F']; [cbn [List.length] in *; lia|]. cbn [dn_name] in Hs. discriminate.
    + rewrite <- Ex in *. assert (Hx0 : (x =? 0) = false) by (apply N.eqb_neq; lia). rewrite Hx0.
      eapply (IH (x :: r3')); [| | |exact Hs].
      * cbn [List.length] in *. lia.
      * change (at_ (x :: r3') 0) with x. lia.
      * cbn [List.length] in *. lia.
  - destruct (label_bad _ Elab) as [Ha|Hb].
    + rewrite Ha. cbn [negb]. eexists; reflexivity.
    + destruct (negb (isascii _)); [eexists; reflexivity|]. rewrite Hb. eexists; reflexivity.
Qed.

Lemma names_loop_none : forall F b doms f,
  (List.length b < F)%nat -> (List.length b < f)%nat ->
  dn_names F b = None -> exists e, dnssl_loop f b [] doms = Err e.
Proof.
  induction F as [|F IH]; intros b doms f HF Hf Hs; [lia|].
  cbn [dn_names] in Hs. destruct b as [|x r]; [discriminate|].
  destruct x as [|px] eqn:Ex; [discriminate|]. rewrite <- Ex in *.
  assert (Hx : x <> 0) by lia. clear px Ex.
  destruct (dn_name (S (List.length (x :: r))) (x :: r) [] true) as [[nm r3]|] eqn:En.
  - destruct (dn_names F r3) as [l|] eqn:El; [discriminate|].
    pose proof (dn_name_shorter _ _ _ _ _ _ En) as Hsh.
    rewrite (name_loop _ _ _ _ [] doms _ _ f En); [|change (at_ (x :: r) 0) with x; exact Hx|left; auto|exact Hf].
    destruct (ds_done r3) eqn:Ed.
    + exfalso. unfold ds_done in Ed. destruct F as [|F']; [cbn [List.length] in *; lia|]. cbn [dn_names] in El.
      destruct r3 as [|y r4]; [discriminate|]. destruct y as [|py]; [discriminate|].
      unfold blen, at_ in Ed. cbn [List.length nth] in Ed.
      destruct r4; cbn [List.length] in Ed.
      * change (N.of_nat 1 =? 0) with false in Ed. cbn [orb] in Ed. apply andb_true_iff in Ed as [_ Ed].
        apply N.eqb_eq in Ed. discriminate.
      * destruct (N.of_nat (S (S (List.length r4))) =? 0) eqn:A; [lia|].
        destruct (N.of_nat (S (S (List.length r4))) =? 1) eqn:B; [lia|]. discriminate.
    + apply (IH r3 (doms ++ [nm]) (S (List.length r3))); [cbn [List.length] in *; lia|lia|exact El].
  - apply (name_loop_none _ _ _ _ [] doms f) in En; auto.
Qed.

Lemma names_loop_empty : forall F b doms f, (0 < F)%nat -> (0 < f)%nat ->
  dn_names F b = Some [] ->
  dnssl_loop f b [] doms = Ok doms \/ exists e, dnssl_loop f b [] doms = Err e.
Proof.
  intros F b doms f HF Hf Hs. destruct F as [|F]; [lia|]. destruct f as [|f]; [lia|].
  cbn [dn_names] in Hs. cbn [dnssl_loop].
  destruct b as [|x r]; [right; eexists; reflexivity|].
  destruct x as [|px].
  - unfold blen, at_. cbn [List.length nth].
    destruct (N.of_nat (S (List.length r)) <? 2) eqn:E2; [right; eexists; reflexivity|].
    destruct (N.of_nat (S (List.length r)) - 1 <=? 0) eqn:E3; [lia|].
    left. reflexivity.
  - exfalso. destruct (dn_name _ _ _ _) as [[? ?]|]; [|discriminate]. destruct (dn_names F _); discriminate.
Qed.

Lemma eta_ds o : set_dnssl o (o_dnssl o) = o.  Proof. destruct o; reflexivity. Qed.

(* a malformed DNSSL option leaves NewOptions untouched *)
Lemma opt_step_ignored_dnssl l body o :
  1 <= l -> l < 256 -> List.length body = (N.to_nat l * 8 - 2)%nat ->
  decode_opt 31 l body = None -> opt_step o 31 (31 :: l :: body) = Ok o.
Proof.
  intros Hl1 Hl2 Hlen Hd. unfold decode_opt in Hd.
  change (31 =? 1) with false in Hd. change (31 =? 2) with false in Hd. change (31 =? 5) with false in Hd.
  change (31 =? 3) with false in Hd. change (31 =? 24) with false in Hd. change (31 =? 25) with false in Hd.
  change (31 =? 31) with true in Hd. cbv iota in Hd.
  destruct body as [|r0 [|r1 [|t0 [|t1 [|t2 [|t3 names]]]]]]; try (cbn in Hlen; lia).
  rewrite opt_step_31. unfold ds_unmarshal.
  assert (Hbl : blen (31 :: l :: r0 :: r1 :: t0 :: t1 :: t2 :: t3 :: names) = l * 8).
  { unfold blen. cbn [List.length] in *. lia. }
  rewrite Hbl. destruct (l * 8 <? 2) eqn:E2; [lia|].
  change (at_ (31 :: l :: _) 1) with l. cbn [skipn].
  assert (Hbv : blen (r0 :: r1 :: t0 :: t1 :: t2 :: t3 :: names) = l * 8 - 2).
  { unfold blen. cbn [List.length] in *. lia. }
  rewrite Hbv. unfold raw_len.
  assert (Heq : (Z.of_N l * 8 - 2 =? Z.of_N (l * 8 - 2))%Z = true) by (apply Z.eqb_eq; lia).
  rewrite Heq. cbn [negb].
  destruct (dn_names (S (List.length names)) names) as [[|n ns]|] eqn:En; [| discriminate |].
  - destruct (names_loop_empty (S (List.length names)) names [] (S (List.length (r0 :: r1 :: t0 :: t1 :: t2 :: t3 :: names))) ltac:(lia) ltac:(lia) En) as [H|[e H]];
      rewrite H; cbn [List.length Nat.eqb bind]; apply f_equal; apply eta_ds.
  - destruct (names_loop_none (S (List.length names)) names [] (S (List.length (r0 :: r1 :: t0 :: t1 :: t2 :: t3 :: names))) ltac:(lia) ltac:(cbn [List.length]; lia) En) as [e H].
    rewrite H. cbn [bind]. apply f_equal. apply eta_ds.
Qed.

(* the lenient theorem without any hypothesis on DNSSL *)
Theorem steps_lenient_full : forall tl o,
  tlv_wf tl -> Forall (fun x => bytes_ok (obytes x)) tl ->
  steps o tl = match decode_lenient tl with
               | Some ds => Ok (fold_left apply1 ds o)
               | None => Err EOther
               end.
Proof.
  induction tl as [|[[t l] body] r IH]; intros o Hw Hok; [reflexivity|].
  destruct Hw as [Hl [Hb Hw]]. inversion Hok as [|? ? Hx Hr]; subst.
  cbn [obytes] in Hx. apply bytes_ok_cons' in Hx as [Ht Hx]. apply bytes_ok_cons' in Hx as [Hl2 Hx].
  cbn [steps fst obytes decode_lenient].
  destruct (opt_reject t l body) eqn:Er.
  - rewrite (opt_step_reject t l body o Hl Hb Er). reflexivity.
  - destruct (decode_opt t l body) as [d1|] eqn:E1.
    + rewrite (opt_step_char t l body d1 o Hl Hl2 Hb Hx E1). rewrite (IH _ Hw Hr).
      destruct (decode_lenient r); reflexivity.
    + assert (Hstep : opt_step o t (t :: l :: body) = Ok o).
      { destruct (N.eqb_spec t 31) as [->|N31].
        - apply opt_step_ignored_dnssl; assumption.
        - apply opt_step_ignored; assumption. }
      rewrite Hstep. rewrite (IH _ Hw Hr). destruct (decode_lenient r); reflexivity.
Qed.

Theorem ra_options_lenient_full p tl :
  bytes_ok p -> (16 <= List.length p)%nat ->
  split_tlv (List.length (skipn 16 p)) (skipn 16 p) = Some tl ->
  ra_options p = match ra_decode_lenient p with
                 | Some d => Ok (fold_left apply1 (ra_opts d) opts_zero)
                 | None => Err EOther
                 end.
Proof.
  intros Hok Hlen Hs.
  destruct p as [|a0 [|a1 [|a2 [|a3 [|a4 [|a5 [|a6 [|a7 [|a8 [|a9 [|a10 [|a11 [|a12 [|a13 [|a14 [|a15 optb]]]]]]]]]]]]]]]];
    try (cbn [List.length] in Hlen; lia).
  cbn [skipn] in Hs. unfold ra_decode_lenient. rewrite Hs.
  pose proof Hs as Hs'. apply split_tlv_wf in Hs' as [Hw Hc].
  unfold ra_options.
  destruct optb as [|b0 optb'].
  - destruct tl as [|[[t l] body] r]; [|discriminate]. reflexivity.
  - assert (Hb : (blen (a0 :: a1 :: a2 :: a3 :: a4 :: a5 :: a6 :: a7 :: a8 :: a9 :: a10 :: a11 :: a12 :: a13 :: a14 :: a15 :: b0 :: optb') <=? 16) = false).
    { unfold blen. cbn [List.length]. lia. }
    rewrite Hb. cbn [skipn]. rewrite Hc.
    rewrite parse_opts_steps.
    + rewrite steps_lenient_full; auto.
      * destruct (decode_lenient tl); reflexivity.
      * apply concat_ok. rewrite <- Hc. do 16 (apply bytes_ok_cons' in Hok; destruct Hok as [_ Hok]). exact Hok.
    + exact Hw.
    + pose proof (tlv_count tl) as Hn. unfold opts_fuel. simpl List.length in *. clear - Hn. unfold bytes, byte in *. lia.
Qed.

(* every byte string of at least 16 bytes: the library's Options() is the lenient reference decoder *)
Theorem ra_options_total p : bytes_ok p -> (16 <= List.length p)%nat ->
  ra_options p = match ra_decode_lenient p with
                 | Some d => Ok (fold_left apply1 (ra_opts d) opts_zero)
                 | None => Err EOther
                 end.
Proof.
  intros Hok Hlen.
  destruct (split_tlv (List.length (skipn 16 p)) (skipn 16 p)) as [tl|] eqn:Es.
  - eapply ra_options_lenient_full; eauto.
  - rewrite (ra_options_unsplittable p Hlen Es).
    destruct p as [|a0 [|a1 [|a2 [|a3 [|a4 [|a5 [|a6 [|a7 [|a8 [|a9 [|a10 [|a11 [|a12 [|a13 [|a14 [|a15 optb]]]]]]]]]]]]]]]];
      try (cbn [List.length] in Hlen; lia).
    cbn [skipn] in Es. unfold ra_decode_lenient. rewrite Es. reflexivity.
Qed.
