(* Proofs/ParseRefEq.v — Parse = reference decoder (Spec/RFC.v) on the projection C02 constrains, for every
   well-formed slice outside the three recorded classes.  First on canonical slices (capacity = length), layer by
   layer; then transferred to every capacity by Proofs/ParseSim.v. *)
From PV Require Import Base.Prelude Base.Slice Model.Parse Model.ParseFixes Spec.RFC Model.ParseKnown Model.ParseAlias Proofs.Parse Proofs.ParseSim Proofs.ParseRef.
Open Scope N_scope.
Open Scope res_scope.

Lemma udp_class_table sp dp : udp_class sp dp = first_rule sp dp udp_rules.
Proof.
  rewrite udp_class_chain_eq.
  unfold udp_class_chain, udp_rules, first_rule, rule_matches.
  repeat (match goal with |- context [?a =? ?b] => destruct (a =? b) end; cbn [orb]; try reflexivity).
Qed.

(* the model's EtherType and IP-protocol rows against the reference tables *)
Definition l3_id (x : l3) : N := match x with L3IP4 => 4 | L3IP6 => 5 | L3ARP => 3 | L3Leaf id => id end.
Lemma ethertype_rows_table et : lookup_row et ethertype_rows = option_map l3_id (lookup et ethertype_table).
Proof.
  unfold ethertype_rows, ethertype_table, lookup_row, lookup.
  repeat (match goal with |- context [et =? ?k] => destruct (et =? k) end; try reflexivity).
Qed.
Definition l4_id (x : l4) : N := match x with L4UDP => 8 | L4TCP => 9 | L4ICMP id => id | L4Leaf id => id end.
Lemma ipproto_rows_table p : lookup_row p ipproto_rows = option_map l4_id (lookup p ipproto_table).
Proof.
  unfold ipproto_rows, ipproto_table, lookup_row, lookup.
  repeat (match goal with |- context [p =? ?k] => destruct (p =? k) end; try reflexivity).
Qed.

Lemma ihl_eq x : N.shiftl (N.land x 15) 2 = 4 * (x mod 16).
Proof.
  rewrite N.shiftl_mul_pow2. change 15 with (N.ones 4). rewrite N.land_ones. change (2 ^ 4) with 16. change (2 ^ 2) with 4. lia.
Qed.

Lemma unicast_odd m : is_unicast_mac m = negb (N.odd (nth 0 m 0)).
Proof.
  unfold is_unicast_mac. change 1 with (N.ones 1). rewrite N.land_ones. change (2 ^ 1) with 2.
  rewrite <- N.bit0_mod, N.bit0_odd. destruct (N.odd (nth 0 m 0)); reflexivity.
Qed.

Definition cs (b : bytes) : slice := mkSlice b (List.length b).

Lemma wf_cs b : wf (cs b).
Proof. unfold wf, cap, cs. cbn. lia. Qed.

(* frame before the transport layer: no ports, no UDP/TCP offsets *)
Definition pre_l4 (f : frame) : Prop :=
  f_offU f = 0%nat /\ f_offT f = 0%nat /\ a_port (f_src f) = 0 /\ a_port (f_dst f) = 0.

Lemma opt_off_pos o : (0 < o)%nat -> opt_off o = Some o.
Proof. intros H. unfold opt_off. destruct (Nat.eqb_spec o 0); [lia|reflexivity]. Qed.

(* data offset of a TCP segment, in bytes *)
Definition doff (seg : bytes) : nat := N.to_nat (4 * (byte_at seg 12 / 16)).
(* the segment's data offset is consistent, or the validator in force checks it itself *)
Definition tcp_ok (fx : fixes) (proto : N) (seg : bytes) : Prop :=
  fx_tcp fx = false -> proto = 6 -> (20 <= List.length seg)%nat -> (20 <= doff seg /\ doff seg <= List.length seg)%nat.

Lemma l4_agrees fx b f proto :
  pre_l4 f -> (0 < f_offP f)%nat -> (f_offP f <= List.length b)%nat ->
  tcp_ok fx proto (skipn (f_offP f) b) ->
  agrees (parse_proto fx (cs b) f proto) (ref_l4 (proj f) proto (skipn (f_offP f) b) (f_offP f)).
Proof.
  intros (HU & HT & Hsp & Hdp) H0 H1 Htcp. pose proof (wf_cs b) as Hwf.
  rewrite parse_proto_chain_eq. unfold parse_proto_chain, ref_l4, ipproto_table, lookup.
  destruct (proto =? 17).
  { rewrite payload_view_pos by (cbn; lia). cbn [bind set_id f_offP cs arr len].
    unfold udp_is_valid, src_port, dst_port. cbn [len]. rewrite skipn_length.
    destruct (Nat.leb_spec 8 (List.length b - f_offP f)); destruct (Nat.ltb_spec (List.length b - f_offP f) 8); try lia; cbn [bind agrees]; [|reflexivity].
    repeat (rd; cbn [bind]). cbn [arr]. unfold word_at. change (0 + 1)%nat with 1%nat. change (2 + 1)%nat with 3%nat.
    rewrite udp_class_table. destruct (first_rule _ _ udp_rules); cbn [agrees]; unfold proj, with_l4;
    cbn [f_id f_src f_dst f_off4 f_off6 f_offU f_offT f_offP set_offP set_id set_ports set_offU a_mac a_ip a_port r_smac r_dmac r_sip r_dip r_ip4 r_ip6];
    rewrite (opt_off_pos (f_offP f)) by lia; rewrite HT; reflexivity. }
  destruct (N.eqb_spec proto 6) as [E6|E6].
  { rewrite payload_view_pos by (cbn; lia). cbn [bind set_id f_offP cs arr len].
    unfold tcp_is_valid, src_port, dst_port. cbn [len].
    assert (Hsl : List.length (skipn (f_offP f) b) = (List.length b - f_offP f)%nat) by apply skipn_length.
    fold (doff (skipn (f_offP f) b)). rewrite <- Hsl.
    set (seg := skipn (f_offP f) b) in *.
    destruct (Nat.leb_spec 20 (List.length seg)); destruct (Nat.ltb_spec (List.length seg) 20); try lia; cbn [bind agrees]; [|reflexivity].
    assert (Hfin : agrees (sp <- be16_at {| arr := seg; len := List.length seg |} 0;;
                           dp <- be16_at {| arr := seg; len := List.length seg |} 2;;
                           Ok (set_ports (set_offT (set_id f PayloadTCP) (f_offP f)) sp dp))
                          (ROk (with_l4 (proj f) 9 (word_at seg 0) (word_at seg 2) None (Some (f_offP f)) (f_offP f)))).
    { rewrite !be16_at_ok by (unfold cap; cbn [arr]; lia). cbn [bind arr agrees].
      unfold word_at. change (0 + 1)%nat with 1%nat. change (2 + 1)%nat with 3%nat.
      unfold proj, with_l4;
      cbn [f_id f_src f_dst f_off4 f_off6 f_offU f_offT f_offP set_offP set_id set_ports set_offT a_mac a_ip a_port r_smac r_dmac r_sip r_dip r_ip4 r_ip6];
      rewrite (opt_off_pos (f_offP f)) by lia; rewrite HU; reflexivity. }
    destruct (fx_tcp fx) eqn:Efx.
    - rewrite idx_ok by (cbn [len]; lia). cbn [bind arr]. fold (byte_at seg 12). fold (doff seg).
      destruct (Nat.leb_spec 20 (doff seg)); destruct (Nat.ltb_spec (doff seg) 20); try lia; cbn [andb orb bind agrees]; [|reflexivity].
      destruct (Nat.leb_spec (doff seg) (List.length seg)); destruct (Nat.ltb_spec (List.length seg) (doff seg)); try lia; cbn [bind agrees]; [|reflexivity].
      exact Hfin.
    - cbn [bind]. destruct (Htcp Efx E6 ltac:(lia)) as [Hd1 Hd2].
      destruct (Nat.ltb_spec (doff seg) 20); [lia|]. destruct (Nat.ltb_spec (List.length seg) (doff seg)); [lia|]. cbn [orb].
      exact Hfin. }
  assert (HI : forall id t (g : bool),
     agrees (p <- payload_view (cs b) f;; _ <- icmp_is_valid p;; t0 <- icmp_type p;;
             f0 <- (if (t0 =? t) && g then _ <- icmp_is_valid p;; id0 <- echo_id p;; Ok (set_echo f (Some id0)) else Ok f);;
             Ok (set_id f0 id))
            (if Nat.ltb (List.length (skipn (f_offP f) b)) 8 then RErr RLen
             else ROk (with_l4 (proj f) id 0 0 None None (f_offP f)))).
  { intros id t g. rewrite payload_view_pos by (cbn; lia). cbn [bind set_id f_offP cs arr len].
    unfold icmp_is_valid, icmp_type, echo_id. cbn [len]. rewrite skipn_length.
    destruct (Nat.leb_spec 8 (List.length b - f_offP f)); destruct (Nat.ltb_spec (List.length b - f_offP f) 8); try lia; cbn [bind agrees]; [|reflexivity].
    repeat (rd; cbn [bind]).
    destruct ((_ =? t) && g); cbn [bind]; repeat (rd; cbn [bind]); cbn [agrees]; unfold proj, with_l4;
    cbn [f_id f_src f_dst f_off4 f_off6 f_offU f_offT f_offP set_id set_echo a_mac a_ip a_port r_smac r_dmac r_sip r_dip r_ip4 r_ip6];
    rewrite HU, HT, Hsp, Hdp; reflexivity. }
  destruct (proto =? 1); [apply HI|].
  destruct (proto =? 58); [apply HI|].
  destruct (proto =? 2).
  { cbn [agrees]. unfold proj, with_l4; cbn [f_id f_src f_dst f_off4 f_off6 f_offU f_offT f_offP set_id a_mac a_ip a_port r_smac r_dmac r_sip r_dip r_ip4 r_ip6].
    rewrite HU, HT, Hsp, Hdp; reflexivity. }
  cbn [agrees]. unfold proj, with_l4; cbn [r_id r_smac r_dmac r_sip r_dip r_ip4 r_ip6]. rewrite HU, HT, Hsp, Hdp; reflexivity.
Qed.

Lemma skipn_skipn_add {A} (l : list A) a k : skipn k (skipn a l) = skipn (a + k) l.
Proof.
  revert l. induction a as [|a IH]; intros l; [reflexivity|].
  destruct l as [|x xs]; [rewrite !skipn_nil; reflexivity|]. cbn [skipn Nat.add]. apply IH.
Qed.

(* IP4.IsValid (either variant) against RFC 791 consistency, outside the classes of the original variant *)
Lemma ip4_valid_equiv (fx4 : bool) (ihl tl n : nat) :
  (fx4 = false -> ~ ((ihl <= n)%nat /\ (tl <= n)%nat /\ (ihl < 20 \/ tl < ihl)%nat)) ->
  ((if fx4 then Nat.leb 20 ihl else true) && Nat.leb ihl n) && ((if fx4 then Nat.leb ihl tl else true) && Nat.leb tl n)
  = negb (Nat.ltb ihl 20 || Nat.ltb tl ihl || Nat.ltb n tl).
Proof.
  intros Hk.
  destruct fx4; destruct (Nat.leb_spec 20 ihl); destruct (Nat.leb_spec ihl n); destruct (Nat.leb_spec ihl tl);
  destruct (Nat.leb_spec tl n); destruct (Nat.ltb_spec ihl 20); destruct (Nat.ltb_spec tl ihl); destruct (Nat.ltb_spec n tl);
  cbn; try reflexivity; try lia; exfalso; apply Hk; try reflexivity; lia.
Qed.

Lemma ip4_agrees c b f :
  f_offP f = 14%nat -> (14 <= List.length b)%nat ->
  let pkt := skipn 14 b in
  let ihl := N.to_nat (4 * (byte_at pkt 0 mod 16)) in
  let tl := N.to_nat (word_at pkt 2) in
  (fx_ip4 (c_fx c) = false ->
   ~ ((20 <= List.length pkt)%nat /\ (ihl <= List.length pkt)%nat /\ (tl <= List.length pkt)%nat /\ (ihl < 20 \/ tl < ihl)%nat)) ->
  ((20 <= List.length pkt)%nat -> (20 <= ihl)%nat -> (ihl <= tl)%nat -> (tl <= List.length pkt)%nat ->
   tcp_ok (c_fx c) (byte_at pkt 9) (skipn ihl pkt)) ->
  agrees (parse_ip4 c (cs b) f) (ref_ip4 (a_mac (f_src f)) (a_mac (f_dst f)) pkt 14).
Proof.
  intros H0 H1 pkt ihl tl Hk Htcp. pose proof (wf_cs b) as Hwf.
  unfold parse_ip4, ref_ip4.
  rewrite payload_view_pos by (cbn; lia). cbn [bind f_offP set_id]. rewrite H0.
  unfold ip4_is_valid, ip4_ihl, ip4_totallen, ip4_protocol, ip4_src, ip4_dst, bytes_at. cbn [len cs arr].
  fold pkt. assert (Hl : List.length pkt = (List.length b - 14)%nat) by (unfold pkt; apply skipn_length).
  rewrite <- Hl.
  destruct (Nat.leb_spec 20 (List.length pkt)) as [H20|H20]; destruct (Nat.ltb_spec (List.length pkt) 20); try lia; cbn [bind agrees]; [|reflexivity].
  rewrite idx_ok by (cbn [len]; lia). cbn [bind arr]. rewrite ihl_eq. fold (byte_at pkt 0). fold ihl. fold tl.
  pose proof (ip4_valid_equiv (fx_ip4 (c_fx c)) ihl tl (List.length pkt)) as HE.
  assert (HE' := HE ltac:(intros Ef (A & B & C); apply (Hk Ef); auto)). clear HE.
  set (c1 := (if fx_ip4 (c_fx c) then Nat.leb 20 ihl else true) && Nat.leb ihl (List.length pkt)) in *.
  set (c2 := (if fx_ip4 (c_fx c) then Nat.leb ihl tl else true) && Nat.leb tl (List.length pkt)) in *.
  destruct c1 eqn:E1; cbn [bind].
  2:{ cbn [andb] in HE'. cbn [agrees]. destruct (Nat.ltb ihl 20 || Nat.ltb tl ihl || Nat.ltb (List.length pkt) tl); [reflexivity|discriminate]. }
  rewrite be16_at_ok by (unfold cap; cbn [arr]; lia). cbn [bind arr].
  change (be16 (nth 2 pkt 0) (nth (2 + 1) pkt 0)) with (word_at pkt 2). fold tl. fold c2.
  destruct c2 eqn:E2; cbn [bind].
  2:{ cbn [andb] in HE'. cbn [agrees]. destruct (Nat.ltb ihl 20 || Nat.ltb tl ihl || Nat.ltb (List.length pkt) tl); [reflexivity|discriminate]. }
  cbn [andb] in HE'.
  destruct (Nat.ltb ihl 20 || Nat.ltb tl ihl || Nat.ltb (List.length pkt) tl) eqn:ES; [discriminate|].
  apply Bool.orb_false_iff in ES. destruct ES as [ES E3]. apply Bool.orb_false_iff in ES. destruct ES as [Ea Eb].
  apply Nat.ltb_ge in Ea, Eb, E3.
  rewrite idx_ok by (cbn [len]; lia). cbn [bind].
  rewrite !sl_ok by (unfold cap; cbn [arr]; lia). cbn [bind]. cbn [view arr len].
  change (16 - 12)%nat with 4%nat. change (20 - 16)%nat with 4%nat. fold (sub pkt 12 4). fold (sub pkt 16 4).
  specialize (Htcp H20 Ea Eb E3).
  replace (skipn ihl pkt) with (skipn (14 + ihl) b) in * by (unfold pkt; symmetry; apply skipn_skipn_add).
  cbn [arr]. fold (byte_at pkt 9).
  match goal with |- agrees (parse_proto ?fx _ ?f1 ?p) _ =>
    change (agrees (parse_proto fx (cs b) f1 p) (ref_l4 (proj f1) p (skipn (f_offP f1) b) (f_offP f1))) end.
  apply l4_agrees; [repeat split|cbn [f_offP]; lia|cbn [f_offP]; lia|cbn [f_offP]; exact Htcp].
Qed.

Lemma word_lt b i : bytes_ok b -> word_at b i < 65536.
Proof.
  intros H. unfold word_at, be16. pose proof (bytes_ok_nth b i H). pose proof (bytes_ok_nth b (i + 1) H). lia.
Qed.

Lemma ip6_agrees c b f :
  bytes_ok b -> (fx_ip6 (c_fx c) = false -> N.of_nat (List.length b) < 65536) ->
  f_offP f = 14%nat -> (14 <= List.length b)%nat ->
  let pkt := skipn 14 b in
  (fx_ip6 (c_fx c) = false -> ~ ((40 <= List.length pkt)%nat /\ (40 + N.to_nat (word_at pkt 4) < List.length pkt)%nat)) ->
  ((40 <= List.length pkt)%nat -> (40 + N.to_nat (word_at pkt 4) <= List.length pkt)%nat ->
   tcp_ok (c_fx c) (byte_at pkt 6) (skipn 40 pkt)) ->
  agrees (parse_ip6 c (cs b) f) (ref_ip6 (a_mac (f_src f)) (a_mac (f_dst f)) pkt 14).
Proof.
  intros Hb Hn H0 H1 pkt Hk Htcp. pose proof (wf_cs b) as Hwf.
  unfold parse_ip6, ref_ip6.
  rewrite payload_view_pos by (cbn; lia). cbn [bind f_offP set_id]. rewrite H0.
  unfold ip6_is_valid, ip6_next_header, ip6_src, ip6_dst, bytes_at. cbn [len cs arr].
  fold pkt. assert (Hl : List.length pkt = (List.length b - 14)%nat) by (unfold pkt; apply skipn_length).
  rewrite <- Hl.
  destruct (Nat.leb_spec 40 (List.length pkt)) as [H40|H40]; destruct (Nat.ltb_spec (List.length pkt) 40); try lia; cbn [bind agrees]; [|reflexivity].
  rewrite be16_at_ok by (unfold cap; cbn [arr]; lia). cbn [bind arr].
  change (be16 (nth 4 pkt 0) (nth (4 + 1) pkt 0)) with (word_at pkt 4).
  assert (Hw : word_at pkt 4 < 65536) by (apply word_lt; unfold pkt; apply bytes_ok_skipn; exact Hb).
  (* the validator's verdict as a proposition *)
  assert (HV : (if fx_ip6 (c_fx c) then Nat.leb (N.to_nat (word_at pkt 4) + 40) (List.length pkt)
                else u16 (word_at pkt 4 + 40) =? N.of_nat (List.length pkt))
               = negb (Nat.ltb (List.length pkt) (40 + N.to_nat (word_at pkt 4)))).
  { destruct (fx_ip6 (c_fx c)) eqn:Ef.
    - destruct (Nat.leb_spec (N.to_nat (word_at pkt 4) + 40) (List.length pkt));
      destruct (Nat.ltb_spec (List.length pkt) (40 + N.to_nat (word_at pkt 4))); try lia; reflexivity.
    - unfold u16. specialize (Hk eq_refl). specialize (Hn eq_refl).
      destruct (N.eqb_spec ((word_at pkt 4 + 40) mod 65536) (N.of_nat (List.length pkt))) as [E|E];
      destruct (Nat.ltb_spec (List.length pkt) (40 + N.to_nat (word_at pkt 4))); try reflexivity; try lia;
      exfalso; apply Hk; split; lia. }
  rewrite HV. clear HV.
  destruct (Nat.ltb_spec (List.length pkt) (40 + N.to_nat (word_at pkt 4))) as [Hs|Hs]; cbn [negb bind agrees]; [reflexivity|].
  rewrite idx_ok by (cbn [len]; lia). cbn [bind].
  rewrite !sl_ok by (unfold cap; cbn [arr]; lia). cbn [bind]. cbn [view arr len].
  change (24 - 8)%nat with 16%nat. change (40 - 24)%nat with 16%nat.
  specialize (Htcp H40 Hs).
  replace (skipn 40 pkt) with (skipn (14 + 40) b) in * by (unfold pkt; symmetry; apply skipn_skipn_add).
  fold (byte_at pkt 6).
  match goal with |- agrees (parse_proto ?fx _ ?f1 ?p) _ =>
    change (agrees (parse_proto fx (cs b) f1 p) (ref_l4 (proj f1) p (skipn (f_offP f1) b) (f_offP f1))) end.
  apply l4_agrees; [repeat split|cbn [f_offP]; lia|cbn [f_offP]; lia|cbn [f_offP]; exact Htcp].
Qed.

Lemma arp_agrees c b f :
  f_offP f = 14%nat -> (14 <= List.length b)%nat -> pre_l4 f ->
  f_off4 f = 0%nat -> f_off6 f = 0%nat -> a_ip (f_src f) = [] -> a_ip (f_dst f) = [] ->
  let pkt := skipn 14 b in
  agrees (parse_arp c (cs b) f) (ref_arp (a_mac (f_src f)) (a_mac (f_dst f)) pkt 14).
Proof.
  intros H0 H1 (HU & HT & Hsp & Hdp) H4 H6 Hs Hd pkt. pose proof (wf_cs b) as Hwf.
  unfold parse_arp, ref_arp.
  rewrite payload_view_pos by (cbn; lia). cbn [bind f_offP set_id]. rewrite H0.
  cbn [len cs arr]. fold pkt. assert (Hl : List.length pkt = (List.length b - 14)%nat) by (unfold pkt; apply skipn_length).
  rewrite <- Hl. unfold bytes_at.
  destruct (Nat.ltb_spec (List.length pkt) 28) as [Hlt|Hge]; cbn [bind agrees]; [reflexivity|].
  rewrite idx_ok by (cbn [len]; lia). cbn [bind arr]. fold (byte_at pkt 4).
  destruct (N.eqb_spec (byte_at pkt 4) 6) as [E|E]; cbn [negb agrees]; [|reflexivity].
  rewrite sl_ok by (unfold cap; cbn [arr]; lia). cbn [bind].
  destruct (gate4 _ _ _); cbn [bind]; [rewrite sl_ok by (unfold cap; cbn [arr]; lia); cbn [bind]|];
  cbn [agrees]; unfold proj; cbn [f_id f_src f_dst f_off4 f_off6 f_offU f_offT f_offP set_id a_mac a_ip a_port];
  rewrite H4, H6, HU, HT, Hs, Hd, Hsp, Hdp; reflexivity.
Qed.

Lemma known_C02_none fx b : known_C02 fx b = None ->
  k_ip4_ihl fx b = false /\ k_ip4_totallen fx b = false /\ k_ip6_trailing fx b = false /\ k_tcp_doff fx b = false.
Proof.
  unfold known_C02. intros H.
  destruct (k_ip4_ihl fx b); [discriminate|].
  destruct (k_ip4_totallen fx b); [discriminate|]. destruct (k_ip6_trailing fx b); [discriminate|].
  destruct (k_tcp_doff fx b); [discriminate|]. repeat split.
Qed.

Lemma byte_at_skipn b a i : byte_at (skipn a b) i = byte_at b (a + i).
Proof. unfold byte_at. apply nth_skipn_add. Qed.
Lemma word_at_skipn b a i : word_at (skipn a b) i = word_at b (a + i).
Proof. unfold word_at. rewrite !nth_skipn_add. rewrite Nat.add_assoc. reflexivity. Qed.

(* the TCP class in local terms: a segment at [off] with at least 20 bytes has a consistent data offset *)
Lemma bad_doff_false b off :
  bad_doff b off = false -> (20 <= List.length (skipn off b))%nat ->
  (20 <= doff (skipn off b) /\ doff (skipn off b) <= List.length (skipn off b))%nat.
Proof.
  unfold bad_doff, doff. rewrite skipn_length, byte_at_skipn. intros H H20.
  destruct (Nat.leb_spec 20 (List.length b - off)); [|lia]. cbn [andb] in H.
  apply Bool.orb_false_iff in H. destruct H as [Ha Hb]. apply Nat.ltb_ge in Ha, Hb. lia.
Qed.

Lemma tcp_class_ip4 fx b :
  k_tcp_doff fx b = false -> (14 <= List.length b)%nat -> N.odd (byte_at b 6) = false -> word_at b 12 = 2048 ->
  ip4_passes fx b = true -> byte_at b 23 = 6 -> fx_tcp fx = false ->
  bad_doff b (14 + N.to_nat (4 * (byte_at b 14 mod 16))) = false.
Proof.
  unfold k_tcp_doff. intros H Hn Ho He Hp H6 Hf. rewrite Hf, Ho, He, Hp, H6 in H.
  destruct (Nat.leb_spec 14 (List.length b)); [|lia].
  change (2048 =? 2048) with true in H. change (6 =? 6) with true in H. cbn [negb andb] in H.
  apply Bool.orb_false_iff in H. destruct H as [H _]. exact H.
Qed.

Lemma tcp_class_ip6 fx b :
  k_tcp_doff fx b = false -> (14 <= List.length b)%nat -> N.odd (byte_at b 6) = false -> word_at b 12 = 34525 ->
  ip6_passes fx b = true -> byte_at b 20 = 6 -> fx_tcp fx = false ->
  bad_doff b 54 = false.
Proof.
  unfold k_tcp_doff. intros H Hn Ho He Hp H6 Hf. rewrite Hf, Ho, He, Hp, H6 in H.
  destruct (Nat.leb_spec 14 (List.length b)); [|lia].
  change (34525 =? 2048) with false in H. change (34525 =? 34525) with true in H. change (6 =? 6) with true in H.
  cbn [negb andb orb] in H. exact H.
Qed.

Theorem eq_ref_canon c b :
  bytes_ok b -> (fx_ip6 (c_fx c) = false -> N.of_nat (List.length b) < 65536) -> known_C02 (c_fx c) b = None ->
  agrees (parse c (cs b)) (ref_decode b).
Proof.
  intros Hb Hn Hk. apply known_C02_none in Hk. destruct Hk as (Ki & Kt & K6 & Ktcp).
  pose proof (wf_cs b) as Hwf.
  rewrite parse_chain_eq. unfold parse_chain, ref_decode, ether_is_valid. cbn [len cs].
  destruct (Nat.leb_spec 14 (List.length b)) as [Hlen|Hlen]; destruct (Nat.ltb_spec (List.length b) 14); try lia;
    cbn [bind agrees]; [|reflexivity].
  unfold ether_src, ether_dst, ether_header_len, ether_type, bytes_at. unfold cs.
  repeat (rd; cbn [bind]). unfold view. cbn [arr len]. change (12 + 1)%nat with 13%nat. fold (cs b).
  change (be16 (nth 12 b 0) (nth 13 b 0)) with (word_at b 12).
  change (firstn (12 - 6) (skipn 6 b)) with (sub b 6 6). change (firstn (6 - 0) (skipn 0 b)) with (sub b 0 6).
  set (et := word_at b 12) in *. set (smac := sub b 6 6). set (dmac := sub b 0 6).
  unfold tag_table, lookup.
  assert (Hnth6 : byte_at smac 0 = byte_at b 6).
  { unfold smac, sub, byte_at. destruct b as [|a0 [|a1 [|a2 [|a3 [|a4 [|a5 [|a6 r]]]]]]]; cbn in Hlen; try lia; reflexivity. }
  unfold is_group_mac. rewrite unicast_odd. fold (byte_at smac 0). rewrite Hnth6.
  destruct (N.eqb_spec et 2048) as [E1|E1].
  { rewrite E1. cbn [N.eqb orb Nat.add]. change (2048 =? 33024) with false. change (2048 =? 34984) with false. cbn [Nat.add].
    destruct (Nat.ltb_spec (List.length b) 14); [lia|].
    destruct (N.odd (byte_at b 6)) eqn:Ho; cbn [negb].
    { cbn [agrees]. reflexivity. }
    change (2048 <? 1536) with false. cbn [ethertype_table lookup]. change (2048 =? 2048) with true. cbv iota.
    apply ip4_agrees; [reflexivity|exact Hlen| |].
    - cbv zeta. intros Ef (A & B & C & D).
      unfold k_ip4_ihl, k_ip4_totallen, k_ip4_accepts in Ki, Kt. fold et in Ki, Kt. rewrite Ef, E1, Ho in Ki, Kt.
      rewrite !byte_at_skipn in B. rewrite word_at_skipn in C. rewrite !byte_at_skipn, !word_at_skipn in D. rewrite skipn_length in A, B, C.
      change (14 + 0)%nat with 14%nat in *. change (14 + 2)%nat with 16%nat in *.
      destruct (Nat.leb_spec 14 (List.length b)); [|lia]. cbn [negb andb] in Ki, Kt. change (2048 =? 2048) with true in Ki, Kt. cbn [andb] in Ki, Kt.
      destruct (Nat.leb_spec 20 (List.length b - 14)); [|lia].
      destruct (Nat.leb_spec (N.to_nat (4 * (byte_at b 14 mod 16))) (List.length b - 14)); [|lia].
      destruct (Nat.leb_spec (N.to_nat (word_at b 16)) (List.length b - 14)); [|lia]. cbn [andb] in Ki, Kt.
      destruct (Nat.ltb_spec (N.to_nat (4 * (byte_at b 14 mod 16))) 20); [discriminate|].
      destruct (Nat.leb_spec 20 (N.to_nat (4 * (byte_at b 14 mod 16)))); [|lia]. cbn [andb] in Kt.
      destruct (Nat.ltb_spec (N.to_nat (word_at b 16)) (N.to_nat (4 * (byte_at b 14 mod 16)))); [discriminate|]. lia.
    - cbv zeta. intros A B C D Eft Ep Hs.
      rewrite byte_at_skipn in Ep. rewrite !byte_at_skipn in B, C. rewrite word_at_skipn in C, D. rewrite skipn_length in A, D.
      change (14 + 0)%nat with 14%nat in *. change (14 + 2)%nat with 16%nat in *. change (14 + 9)%nat with 23%nat in *.
      rewrite skipn_skipn_add in *. rewrite byte_at_skipn in *.
      apply bad_doff_false; [|exact Hs].
      apply (tcp_class_ip4 (c_fx c) b Ktcp Hlen Ho E1); [|exact Ep|exact Eft].
      unfold ip4_passes.
      destruct (Nat.leb_spec 20 (List.length b - 14)); [|lia].
      destruct (Nat.leb_spec (N.to_nat (4 * (byte_at b 14 mod 16))) (List.length b - 14)); [|lia].
      destruct (Nat.leb_spec (N.to_nat (word_at b 16)) (List.length b - 14)); [|lia].
      destruct (Nat.leb_spec 20 (N.to_nat (4 * (byte_at b 14 mod 16)))); [|lia].
      destruct (Nat.leb_spec (N.to_nat (4 * (byte_at b 14 mod 16))) (N.to_nat (word_at b 16))); [|lia].
      destruct (fx_ip4 (c_fx c)); reflexivity. }
  destruct (N.eqb_spec et 34525) as [E2|E2].
  { rewrite E2. cbn [N.eqb orb Nat.add]. change (34525 =? 33024) with false. change (34525 =? 34984) with false.
    change (34525 =? 2048) with false. change (34525 =? 34525) with true. cbn [orb Nat.add].
    destruct (Nat.ltb_spec (List.length b) 14); [lia|].
    destruct (N.odd (byte_at b 6)) eqn:Ho; cbn [negb].
    { cbn [agrees]. reflexivity. }
    change (34525 <? 1536) with false. cbn [ethertype_table lookup]. change (34525 =? 2048) with false. change (34525 =? 34525) with true. cbv iota.
    apply ip6_agrees; [exact Hb|exact Hn|reflexivity|exact Hlen| |].
    - cbv zeta. intros Ef (A & B).
      unfold k_ip6_trailing in K6. fold et in K6. rewrite Ef, E2, Ho in K6.
      rewrite word_at_skipn in B. rewrite skipn_length in A, B. change (14 + 4)%nat with 18%nat in *.
      destruct (Nat.leb_spec 14 (List.length b)); [|lia]. cbn [negb andb] in K6. change (34525 =? 34525) with true in K6. cbn [andb] in K6.
      destruct (Nat.leb_spec 40 (List.length b - 14)); [|lia]. cbn [andb] in K6.
      destruct (Nat.ltb_spec (40 + N.to_nat (word_at b 18)) (List.length b - 14)); [discriminate|lia].
    - cbv zeta. intros A B Eft Ep Hs.
      rewrite byte_at_skipn in Ep. rewrite word_at_skipn in B. rewrite skipn_length in A, B.
      change (14 + 4)%nat with 18%nat in *. change (14 + 6)%nat with 20%nat in *.
      rewrite skipn_skipn_add in *. change (14 + 40)%nat with 54%nat in *.
      apply bad_doff_false; [|exact Hs].
      apply (tcp_class_ip6 (c_fx c) b Ktcp Hlen Ho E2); [|exact Ep|exact Eft].
      unfold ip6_passes.
      destruct (Nat.leb_spec 40 (List.length b - 14)); [|lia]. cbn [andb].
      assert (Hw : word_at b 18 < 65536) by (apply word_lt; exact Hb).
      destruct (fx_ip6 (c_fx c)) eqn:Ef.
      + destruct (Nat.leb_spec (N.to_nat (word_at b 18) + 40) (List.length b - 14)); [reflexivity|lia].
      + unfold k_ip6_trailing in K6. fold et in K6. rewrite Ef, E2, Ho in K6.
        destruct (Nat.leb_spec 14 (List.length b)); [|lia]. cbn [negb andb] in K6. change (34525 =? 34525) with true in K6. cbn [andb] in K6.
        destruct (Nat.leb_spec 40 (List.length b - 14)); [|lia]. cbn [andb] in K6.
        destruct (Nat.ltb_spec (40 + N.to_nat (word_at b 18)) (List.length b - 14)); [discriminate|].
        specialize (Hn eq_refl). unfold u16. apply N.eqb_eq. rewrite N.mod_small by lia. lia. }
  destruct (N.eqb_spec et 2054) as [E3|E3].
  { rewrite E3. cbn [N.eqb orb Nat.add]. change (2054 =? 33024) with false. change (2054 =? 34984) with false.
    change (2054 =? 2048) with false. change (2054 =? 34525) with false. change (2054 =? 2054) with true. cbn [orb Nat.add].
    destruct (Nat.ltb_spec (List.length b) 14); [lia|].
    destruct (N.odd (byte_at b 6)) eqn:Ho; cbn [negb].
    { cbn [agrees]. reflexivity. }
    change (2054 <? 1536) with false. cbn [ethertype_table lookup]. change (2054 =? 2048) with false. change (2054 =? 34525) with false.
    change (2054 =? 2054) with true. cbv iota.
    apply arp_agrees; try reflexivity; try exact Hlen. repeat split. }
  (* the remaining EtherTypes: header length 14 / 18 / 22 *)
  cbn [orb].
  replace ((et =? 2048) || (et =? 34525) || (et =? 2054)) with false
    by (destruct (N.eqb_spec et 2048), (N.eqb_spec et 34525), (N.eqb_spec et 2054); try contradiction; reflexivity).
  assert (Hhdr : Nat.add 14%nat (match (if N.eqb et 33024 then Some 4%nat else if N.eqb et 34984 then Some 8%nat else None) with Some n => n | None => 0%nat end)
               = (if N.eqb et 33024 then 18%nat else if N.eqb et 34984 then 22%nat else 14%nat)).
  { destruct (et =? 33024); [reflexivity|]. destruct (et =? 34984); reflexivity. }
  rewrite Hhdr. clear Hhdr.
  set (hl := (if N.eqb et 33024 then 18%nat else if N.eqb et 34984 then 22%nat else 14%nat)) in *.
  cbv iota. fold hl.
  destruct (Nat.ltb_spec (List.length b) hl) as [Hs|Hhl]; [cbn [agrees]; reflexivity|].
  destruct (N.odd (byte_at b 6)) eqn:Ho; cbn [negb].
  { cbn [agrees]. reflexivity. }
  destruct (et <? 1536) eqn:Elt.
  { cbn [agrees]. unfold proj, set_id. cbn [f_id f_src f_dst f_off4 f_off6 f_offU f_offT f_offP a_mac a_ip a_port opt_off Nat.eqb].
    assert (hl = 14%nat) as ->; [|reflexivity].
    unfold hl. apply N.ltb_lt in Elt. destruct (N.eqb_spec et 33024); [lia|]. destruct (N.eqb_spec et 34984); [lia|]. reflexivity. }
  cbn [ethertype_table lookup].
  destruct (N.eqb_spec et 2048); [contradiction|]. destruct (N.eqb_spec et 34525); [contradiction|]. destruct (N.eqb_spec et 2054); [contradiction|].
  unfold parse_leaf, ether_header_len, ether_type. unfold cs.
  repeat match goal with |- context [if et =? ?k then _ else _] =>
    let Ek := fresh "Ek" in destruct (N.eqb_spec et k) as [Ek|Ek];
    [ repeat (rd; cbn [bind]); cbn [arr]; change (12 + 1)%nat with 13%nat; change (be16 (nth 12 b 0) (nth 13 b 0)) with (word_at b 12); fold et;
      rewrite Ek; cbn [agrees]; reflexivity | ] end.
  cbn [agrees]. reflexivity.
Qed.

(* Parse = reference decoder on the projected observables, for every well-formed slice (any capacity, any
   spare contents, any session configuration) outside the six recorded classes *)
(* general form: the length bound is needed only for the ORIGINAL IP6.IsValid (uint16 wrap of PayloadLen+40) *)
Theorem parse_eq_ref_partial_g c s :
  wf s -> bytes_ok (view s) -> (fx_ip6 (c_fx c) = false -> N.of_nat (len s) < 65536) ->
  known_C02 (c_fx c) (view s) = None ->
  agrees (parse c s) (ref_decode (view s)).
Proof.
  intros Hwf Hb Hn Hk.
  rewrite (parse_canon c s Hwf). change (of_bytes (view s)) with (cs (view s)).
  apply eq_ref_canon; auto. rewrite (view_length s Hwf). exact Hn.
Qed.

Theorem parse_eq_ref_partial c s :
  wf s -> bytes_ok (view s) -> N.of_nat (len s) < 65536 -> known_C02 (c_fx c) (view s) = None ->
  agrees (parse c s) (ref_decode (view s)).
Proof. intros Hwf Hb Hn Hk. apply parse_eq_ref_partial_g; auto. Qed.

Example parse_eq_ref_nonvacuous :
  let s := of_bytes_cap ex_arp28 [170;170] in
  wf s /\ bytes_ok (view s) /\ N.of_nat (len s) < 65536 /\ known_C02 fx_old (view s) = None /\ known_C02 fx_new (view s) = None /\
  exists r, ref_decode (view s) = ROk r /\ r_id r = 3 /\ r_pay r = 14%nat.
Proof.
  cbv zeta. split; [vm_compute; lia|]. split; [apply bytes_okb_spec; vm_compute; reflexivity|].
  split; [vm_compute; reflexivity|]. split; [vm_compute; reflexivity|]. split; [vm_compute; reflexivity|]. eexists. split; [vm_compute; reflexivity|]. split; reflexivity.
Qed.

(* UDP over IPv4 with DNS ports: a second, deeper non-vacuity witness *)
Definition ex_dns : bytes :=
  ([0;102;102;102;102;102; 2;17;17;17;17;17; 8;0] ++
   [69;0;0;32; 0;0;0;0; 64;17;0;0; 192;168;0;7; 8;8;8;8] ++ [200;0; 0;53; 0;12; 0;0] ++ [1;2;3;4])%list.
Example parse_eq_ref_nonvacuous_dns :
  known_C02 fx_old ex_dns = None /\ known_C02 fx_new ex_dns = None /\
  exists r, ref_decode ex_dns = ROk r /\ r_id r = 12 /\ r_ip4 r = Some 14%nat /\ r_udp r = Some 34%nat /\ r_pay r = 42%nat /\
            r_sport r = 51200 /\ r_dport r = 53.
Proof. split; [vm_compute; reflexivity|]. split; [vm_compute; reflexivity|]. eexists. split; [vm_compute; reflexivity|]. repeat split. Qed.

(* C16: the offsets at which the views alias the buffer are the offsets the reference decoder computes *)
Theorem views_at_ref_offsets c s f :
  wf s -> bytes_ok (view s) -> N.of_nat (len s) < 65536 -> known_C02 (c_fx c) (view s) = None -> parse c s = Ok f ->
  exists r, ref_decode (view s) = ROk r /\
    r_ip4 r = opt_off (view_off f V4) /\ r_ip6 r = opt_off (view_off f V6) /\
    r_udp r = opt_off (view_off f VU) /\ r_tcp r = opt_off (view_off f VT) /\ r_pay r = view_off f VP.
Proof.
  intros Hwf Hb Hn Hk Hp. pose proof (parse_eq_ref_partial c s Hwf Hb Hn Hk) as H. rewrite Hp in H. cbn [agrees] in H.
  exists (proj f). split; [exact H|]. repeat split.
Qed.

(* with all three validators repaired no class is left and the equality is unconditional *)
Lemma known_none_when_repaired b : known_C02 (mkFixes true true true) b = None.
Proof.
  unfold known_C02, k_ip4_ihl, k_ip4_totallen, k_ip6_trailing, k_tcp_doff. cbn [fx_ip4 fx_ip6 fx_tcp negb andb]. reflexivity.
Qed.

Theorem parse_eq_ref_repaired c s :
  c_fx c = mkFixes true true true ->
  wf s -> bytes_ok (view s) -> N.of_nat (len s) < 65536 ->
  agrees (parse c s) (ref_decode (view s)).
Proof.
  intros Hf Hwf Hb Hn. apply parse_eq_ref_partial; auto. rewrite Hf. apply known_none_when_repaired.
Qed.

(* TCP over IPv6 with 4 words of options (data offset 9): a third non-vacuity witness, valid for both variants *)
Definition ex_tcp6 : bytes :=
  ([0;102;102;102;102;102; 2;17;17;17;17;17; 134;221] ++
   [96;0;0;0; 0;40; 6;64] ++ [254;128;0;0;0;0;0;0;0;0;0;0;0;0;0;1] ++ [254;128;0;0;0;0;0;0;0;0;0;0;0;0;0;2] ++
   [1;187; 200;1; 0;0;0;0; 0;0;0;0; 144;16; 0;0; 0;0;0;0] ++ repeat 1 16 ++ [9;9;9;9])%list.
Example parse_eq_ref_nonvacuous_tcp6 :
  known_C02 fx_old ex_tcp6 = None /\ known_C02 fx_new ex_tcp6 = None /\
  exists r, ref_decode ex_tcp6 = ROk r /\ r_id r = 9 /\ r_ip6 r = Some 14%nat /\ r_tcp r = Some 54%nat /\ r_pay r = 54%nat /\
            r_sport r = 443 /\ r_dport r = 51201 /\
  exists f, parse cfg1 (of_bytes ex_tcp6) = Ok f /\ f_host f = Some ([2;17;17;17;17;17], [254;128;0;0;0;0;0;0;0;0;0;0;0;0;0;1]).
Proof.
  split; [vm_compute; reflexivity|]. split; [vm_compute; reflexivity|]. eexists. split; [vm_compute; reflexivity|].
  repeat split. eexists. split; vm_compute; reflexivity.
Qed.

(* ---------- the code in force (Model/ParseFixes.v): all three validators repaired, no class left ---------- *)
Theorem parse_eq_ref_current c s :
  c_fx c = current_fixes ->
  wf s -> bytes_ok (view s) -> N.of_nat (len s) < 65536 ->
  agrees (parse c s) (ref_decode (view s)).
Proof. intros Hf. apply parse_eq_ref_repaired. rewrite Hf. reflexivity. Qed.

(* the code in force, every length: no bound on the frame size is left *)
Theorem parse_eq_ref_full c s :
  c_fx c = current_fixes -> wf s -> bytes_ok (view s) -> agrees (parse c s) (ref_decode (view s)).
Proof.
  intros Hf Hwf Hb. apply parse_eq_ref_partial_g; auto.
  - rewrite Hf. cbn. discriminate.
  - rewrite Hf. apply known_none_when_repaired.
Qed.
