(* Proofs/SendNdp.v — arp_spoofer send paths, Router Solicitation, IPv6 probes of purge. *)
From PV Require Import Proofs.SendBase Model.Send Model.SendNdp Spec.SendRefUdp Proofs.Send.
Open Scope N_scope.

(* ---------------------------------------------------------------- *)
(* arp_spoofer RequestRaw / reply: for every operation, destination, sender, target and buffer content *)
Lemma arp_spoofer_wf c op dst sm si tm ti junk :
  mac_ok (host_mac c) -> mac_ok dst -> mac_ok sm -> ip4_ok si -> mac_ok tm -> ip4_ok ti -> op < 65536 ->
  (42 <= length junk)%nat ->
  exists fr, send_arp c op dst (sm, si) (tm, ti) junk = Ok [fr] /\
    wf_arp (host_mac c) dst op sm si tm ti fr = true.
Proof.
  intros H1 H2 H3 H4 H5 H6 Hop HJ.
  destruct (split_at 42 junk HJ) as (j & rest & -> & Hj).
  unfold send_arp, arp_args_ok, is_mac, is4. cbn [a_mac a_ip fst snd].
  rewrite (proj1 H2), (proj1 H3), (proj1 H4), (proj1 H5), (proj1 H6). cbn [Nat.eqb andb negb].
  unfold enc_arp. destruct c as [hm hip hlla rm rip mtu]. cbn [host_mac a_mac a_ip fst snd] in *.
  explode_ok hm H1. explode_ok dst H2. explode_ok sm H3. explode_ok si H4. explode_ok tm H5. explode_ok ti H6.
  explode j Hj.
  eexists. split; [cbn; reflexivity|].
  unfold wf_arp. cbn. eqbs.
  unfold w16, be16, hi8, lo8. cbn [nth]. rewrite be16_hi_lo by assumption. eqbs.
Qed.

(* a MAC (destination, sender, target) that is not 6 bytes or an address that is not IPv4 is refused (fix 72c6830) *)
Lemma arp_spoofer_refuses c op dst sender target junk :
  arp_args_ok dst sender target = false -> send_arp c op dst sender target junk = Ok [].
Proof. unfold send_arp. intros ->. reflexivity. Qed.

(* the exported wrappers are instances *)
Lemma arp_request_to_wf c dst ip junk :
  mac_ok (host_mac c) -> ip4_ok (host_ip4 c) -> mac_ok dst -> ip4_ok ip -> (42 <= length junk)%nat ->
  exists fr, arp_request_to c dst ip junk = Ok [fr] /\
    wf_arp (host_mac c) dst 1 (host_mac c) (host_ip4 c) eth_bcast ip fr = true.
Proof.
  intros H1 H2 H3 H4 HJ. unfold arp_request_to, arp_request_raw, is4. rewrite (proj1 H4). cbn [Nat.eqb negb].
  apply arp_spoofer_wf; auto; try lia. split; [reflexivity|oks].
Qed.
Lemma arp_request_to_refuses c dst ip junk : is4 ip = false -> arp_request_to c dst ip junk = Ok [].
Proof. unfold arp_request_to. intros ->. reflexivity. Qed.
Lemma arp_probe_wf c ip junk :
  mac_ok (host_mac c) -> ip4_ok ip -> (42 <= length junk)%nat ->
  exists fr, arp_probe c ip junk = Ok [fr] /\
    wf_arp (host_mac c) eth_bcast 1 (host_mac c) [0;0;0;0] eth_zero ip fr = true.
Proof.
  intros H1 H2 HJ. unfold arp_probe, arp_request_raw.
  apply arp_spoofer_wf; auto; try lia; split; try reflexivity; oks.
Qed.
Lemma arp_announce_wf c dst ip junk :
  mac_ok (host_mac c) -> mac_ok dst -> ip4_ok ip -> (42 <= length junk)%nat ->
  exists fr, arp_announce_to c dst ip junk = Ok [fr] /\
    wf_arp (host_mac c) dst 1 (host_mac c) ip eth_bcast ip fr = true.
Proof.
  intros H1 H2 H3 HJ. unfold arp_announce_to, arp_request_raw.
  apply arp_spoofer_wf; auto; try lia. split; [reflexivity|oks].
Qed.

(* ---------------------------------------------------------------- *)
(* ICMP6SendRouterSolicitation (ICMPv6 header since fix 6efe826, all-routers ff02::2 since fix 5d47cb2):
   type 133 to ff02::2 / 33:33:00:00:00:02, hop limit 255, host MAC and LLA as source, SLLA option = host MAC,
   checksum verifies — for every configuration and buffer content *)
Lemma rs_wf c junk :
  mac_ok (host_mac c) -> ip6_ok (host_lla c) -> length junk = EthMaxSize ->
  exists fr, send_rs c junk = Ok [fr] /\ wf_rs (host_mac c) (host_lla c) fr = true.
Proof.
  intros H1 H2 HJ.
  assert (HJ' : (70 <= length junk)%nat) by (rewrite HJ; unfold EthMaxSize; lia).
  destruct (split_at 70 junk HJ') as (j & rest & -> & Hj). clear HJ HJ'.
  unfold send_rs, rs_marshal, lla_option, raw_option. destruct c as [hm hip hlla rm rip mtu]. cbn [host_mac host_lla] in *.
  rewrite (proj1 H1). cbn [Nat.eqb].
  explode_ok hm H1. explode_ok hlla H2. explode j Hj.
  cbn -[icmp6_send_packet]. posnat. cbn -[icmp6_send_packet]. unfold icmp6_send_packet. cbn [a_ip snd ip6_all_routers_addr].
  match goal with |- context [nd_message ?p] => replace (nd_message p) with true by reflexivity end.
  rewrite orb_true_r.
  eexists. split; [cbn; reflexivity|]. abs_cks.
  unfold wf_rs. run. eqbs. icmp6_cks.
Qed.

(* a host MAC that is not 6 bytes long: LinkLayerAddress.marshal fails, nothing is sent *)
Lemma rs_refuses_bad_mac c junk : Nat.eqb (length (host_mac c)) 6 = false -> send_rs c junk = Ok [].
Proof. unfold send_rs, rs_marshal, lla_option. intros ->. reflexivity. Qed.

(* ---------------------------------------------------------------- *)
(* purge: IPv6 probes.  Link-local host: NS to its solicited-node group (33:33:ff:xx:xx:xx), well-formed
   (hop limit 255, 33:33 mapping); other hosts: echo request *)
Lemma solicited_node_mac ip : ip6_ok ip -> a_mac (solicited_node ip) = mac_of_mcast6 (a_ip (solicited_node ip)).
Proof. intros H. explode_ok ip H. reflexivity. Qed.

Lemma purge_ns_wf c tm ti id junk :
  mac_ok (host_mac c) -> ip6_ok (host_lla c) -> ip6_ok ti -> ll_unicast ti = true ->
  length junk = EthMaxSize ->
  exists fr, send_purge_ip6 c (tm, ti) id junk = Ok [fr] /\
    wf_ns (host_mac c) (mac_of_mcast6 (a_ip (solicited_node ti))) (host_lla c) (a_ip (solicited_node ti)) ti fr = true /\
    mcast6_mac_ok (mac_of_mcast6 (a_ip (solicited_node ti))) (a_ip (solicited_node ti)) = true.
Proof.
  intros H1 H2 H3 HL HJ. unfold send_purge_ip6. cbn [a_ip snd].
  unfold is6 at 1. rewrite (proj1 H2). cbn [Nat.eqb negb]. rewrite HL.
  rewrite <- (solicited_node_mac ti H3).
  destruct (ns_wf c (host_mac c) (host_lla c) (a_mac (solicited_node ti)) (a_ip (solicited_node ti)) ti junk)
    as (fr & E & W); auto.
  - pose proof H3 as H3'. explode_ok ti H3'. split; [reflexivity|oks].
  - pose proof H3 as H3'. explode_ok ti H3'. split; [reflexivity|oks].
  - exists fr. split; [|split; [exact W|]].
    + destruct (solicited_node ti) as [m i] eqn:E'. exact E.
    + rewrite (solicited_node_mac ti H3). unfold mcast6_mac_ok. destruct (ip6_is_multicast _); auto using beq_refl.
Qed.

Lemma purge_echo6_wf c tm ti id junk :
  mac_ok (host_mac c) -> ip6_ok (host_lla c) -> mac_ok tm -> ip6_ok ti -> ll_unicast ti = false -> id < 65536 ->
  length junk = EthMaxSize ->
  exists fr, send_purge_ip6 c (tm, ti) id junk = Ok [fr] /\
    wf_echo6 (host_mac c) tm (host_lla c) ti id 0 fr = true.
Proof.
  intros H1 H2 H3 H4 HL Hid HJ. unfold send_purge_ip6. cbn [a_ip snd].
  unfold is6 at 1. rewrite (proj1 H2). cbn [Nat.eqb negb]. rewrite HL.
  apply echo6_wf; auto. lia.
Qed.

(* a host without IPv6 link-local address sends no IPv6 probe *)
Lemma purge_ip6_silent c host id junk : is6 (host_lla c) = false -> send_purge_ip6 c host id junk = Ok [].
Proof. unfold send_purge_ip6. intros ->. reflexivity. Qed.
