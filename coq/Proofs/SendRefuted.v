(* Proofs/SendRefuted.v — refutation witnesses (vm_compute) of the recorded findings of the UDP paths. *)
From PV Require Import Proofs.SendBase Model.Send Model.SendUdp Spec.SendRefUdp Proofs.SendUdp.
Open Scope N_scope.

(* UDP over IPv6 (IPv6 branch of sendMDNS): checksum 0 — finding udp6-checksum-zero *)
Lemma udp6_refuted :
  exists c buf sm si dm di port fr,
    mac_ok (host_mac c) /\ ip6_ok si /\ mac_ok dm /\ ip6_ok di /\ bytes_ok buf /\
    send_mdns c buf (sm, si) (dm, di) port = Ok [fr] /\
    wf_udp6 (host_mac c) dm si di port port (beq buf) fr = false /\
    wf_udp6_nocks (host_mac c) dm si di port port (beq buf) fr = true.
Proof.
  exists cfg1, [0;0;132;0;0;0;0;0;0;0;0;0], (host_mac cfg1), (host_lla cfg1), [51;51;0;0;0;251],
    [255;2;0;0;0;0;0;0;0;0;0;0;0;0;0;251], 5353. eexists.
  split; [split; [reflexivity|oks]|]. split; [split; [reflexivity|oks]|].
  split; [split; [reflexivity|oks]|]. split; [split; [reflexivity|oks]|]. split; [oks|].
  split; [vm_compute; reflexivity|]. split; vm_compute; reflexivity.
Qed.

(* SendDiscoverPacket with the zero netip.Addr as ciaddr: the field keeps the previous buffer bytes —
   finding discover-unset-ciaddr-keeps-stale-buffer-bytes *)
Lemma discover_stale_ciaddr_refuted :
  exists c ch xid opts junk fr,
    mac_ok (host_mac c) /\ mac_ok ch /\ length junk = EthMaxSize /\
    send_discover c (Some ch) [] (Some xid) opts junk = Ok [fr] /\
    wf_udp4 (host_mac c) (router_mac c) (host_ip4 c) (router_ip4 c) 68 67
      (wf_dhcp_client ch [0;0;0;0] (Some xid) opts) false fr = false /\
    wf_udp4 (host_mac c) (router_mac c) (host_ip4 c) (router_ip4 c) 68 67
      (wf_dhcp_client ch (sub fr 54 4) (Some xid) opts) false fr = true.
Proof.
  exists cfg1, [2;0;0;0;0;7], [1;2;3;4], [(55, str_discover_prl); (53, [1])], (poison 7). eexists.
  split; [split; [reflexivity|oks]|]. split; [split; [reflexivity|oks]|].
  split; [vm_compute; reflexivity|].
  split; [vm_compute; reflexivity|]. split; vm_compute; reflexivity.
Qed.

(* forceRelease passes nil options: the RELEASE carries only the message type —
   finding dhcp-release-without-client-and-server-id *)
Lemma release_options_refuted :
  exists c ch cid sip cip xid junk fr,
    mac_ok (host_mac c) /\ mac_ok ch /\ ip4_ok sip /\ ip4_ok cip /\ length junk = EthMaxSize /\
    send_decline_release c (Some ch) cip xid [(53, [7])] junk junk = Ok [fr] /\
    wf_udp4 (host_mac c) (router_mac c) (host_ip4 c) (router_ip4 c) 68 67
      (wf_dhcp_client ch cip (Some xid) [(61, cid); (54, sip); (56, [110;101;116;102;105;108;116;101;114;32;114;101;108;101;97;115;101]); (53, [7])])
      false fr = false /\
    wf_udp4 (host_mac c) (router_mac c) (host_ip4 c) (router_ip4 c) 68 67
      (wf_dhcp_client ch cip (Some xid) [(53, [7])]) false fr = true.
Proof.
  exists cfg1, [2;0;0;0;0;7], [1;2;0;0;0;0;7], [192;168;0;11], [192;168;0;60], [9;8;7;6], (poison 3). eexists.
  split; [split; [reflexivity|oks]|]. split; [split; [reflexivity|oks]|].
  split; [split; [reflexivity|oks]|]. split; [split; [reflexivity|oks]|].
  split; [vm_compute; reflexivity|].
  split; [vm_compute; reflexivity|]. split; vm_compute; reflexivity.
Qed.
