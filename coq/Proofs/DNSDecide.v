(* Proofs/DNSDecide.v — decodeName against the reference decoder for ALL byte strings: soundness with
   the pointer depth, hence more than 254 pointers always give an error. *)
From PV Require Import Base.Prelude Base.Slice Model.DNS Spec.RFC1035 Proofs.RFC1035 Proofs.DNS Proofs.DNSSpec Proofs.DNSReject.
Open Scope N_scope.

Section Depth.
Variable data : slice.
Hypothesis Hwf : wf data.
Hypothesis Hok : bytes_ok (arr data).
Let msg := view data.

Definition rec_sound_d (rec : nat -> gobuf -> nat -> res dn_out) (lv : nat) : Prop :=
  forall o b n nx b', rec o b lv = Ok (n, nx, b') ->
    exists d labels nx', name_at_d msg d o labels nx' /\ (lv + d <= 255)%nat.

Lemma dn_loop_sound_d rec offset start level : (level <= 255)%nat -> rec_sound_d rec (S level) ->
  forall fuel index buf name next buf',
    dn_loop rec data offset start level fuel index buf = Ok (name, next, buf') ->
    exists d labels, name_at_d msg d index labels next /\ (level + d <= 255)%nat.
Proof.
  intros Hlv Hrec. induction fuel as [|f IH]; intros index buf name next buf' H; [discriminate|].
  cbn [dn_loop] in H. apply bind_ok_inv in H as (b & Hb & H).
  apply idx_inv in Hb as [Hi Hb]. pose proof (msg_byte data Hok index) as Hb256. rewrite <- Hb in Hb256.
  pose proof (msg_nth data Hwf index Hi) as Hn. rewrite <- Hb in Hn. fold msg in Hn.
  destruct (N.eqb_spec b 0) as [->|Hb0].
  { destruct (Nat.ltb _ _); [discriminate|]. inversion H; subst. exists 0%nat, []. split; [constructor; exact Hn|lia]. }
  destruct (top_spec b Hb256) as (T1 & T2 & T3).
  destruct (N.land b 192 =? 192) eqn:E1.
  { symmetry in T1. apply N.leb_le in T1.
    destruct (Nat.ltb_spec (len data) (index + 2)) as [|Hi2]; [discriminate|].
    apply bind_ok_inv in H as (w & Hw & H).
    pose proof Hwf as Hwf'. unfold wf in Hwf'. rewrite be16_at_ok in Hw by lia. inversion Hw; subst w; clear Hw.
    destruct (Nat.ltb _ _); [discriminate|].
    apply bind_ok_inv in H as (r & Hr & H). destruct r as [[n nx] b']. cbn [snd] in H.
    destruct (Nat.ltb 254 _); [discriminate|].
    inversion H; subst. apply Hrec in Hr as (d & labels & nx' & Hna & Hd).
    exists (S d), labels. split; [|lia].
    replace (S (S index)) with (index + 2)%nat by lia.
    rewrite ptr_offset in Hna by (auto using msg_byte).
    eapply NAd_ptr with (c2 := nth (index + 1) (arr data) 0); eauto.
    replace (S index) with (index + 1)%nat by lia. apply (msg_nth data Hwf). lia. }
  destruct (N.land b 192 =? 64) eqn:E2; [discriminate|].
  destruct (N.land b 192 =? 128) eqn:E3; [discriminate|].
  assert (1 <= b <= 63) as Hrange by lia.
  set (index2 := (index + N.to_nat b + 1)%nat) in *.
  destruct (Nat.ltb_spec 255 (index2 - offset)); [discriminate|].
  destruct (Nat.ltb_spec (len data) index2) as [|Hi2]; [discriminate|].
  apply bind_ok_inv in H as (lab & Hlab & H).
  destruct (existsb (fun c => c =? 46) (view lab)); [discriminate|].
  destruct (Nat.leb_spec (len data) index2); [discriminate|].
  apply IH in H as (d & labels & Hna & Hd).
  exists d, (sub msg (S index) (N.to_nat b) :: labels). split; [|exact Hd].
  apply NAd_label with (c := b); auto; try lia.
  - unfold msg. rewrite (msg_length data Hwf). subst index2. lia.
  - replace (index + 1 + N.to_nat b)%nat with index2 by (subst index2; lia). exact Hna.
Qed.

Lemma decodeName_sound_d lf : forall offset buf level name next buf',
  decodeName lf data offset buf level = Ok (name, next, buf') ->
  exists d labels, name_at_d msg d offset labels next /\ (level + d <= 255)%nat.
Proof.
  induction lf as [|lf IH]; intros offset buf level name next buf' H; [discriminate|].
  cbn [decodeName] in H. unfold maxRecursionLevel in H.
  destruct (Nat.ltb_spec 255 level) as [|Hlv]; [discriminate|].
  destruct (Nat.leb_spec (len data) offset) as [|Hi]; [discriminate|].
  apply bind_ok_inv in H as (b & Hb & H). apply idx_inv in Hb as [_ Hb].
  pose proof (msg_nth data Hwf offset Hi) as Hn. rewrite <- Hb in Hn. fold msg in Hn.
  destruct (N.eqb_spec b 0) as [->|Hb0].
  { inversion H; subst. exists 0%nat, []. split; [constructor; exact Hn|lia]. }
  apply dn_loop_sound_d in H; auto.
  intros o b0 n nx b' Hr. apply IH in Hr as (d & labels & Hna & Hd). eauto.
Qed.

End Depth.

(* The decidable acceptance predicate on the byte string: the reference decoder finds a name at [off],
   the name has at most 255 octets (RFC 1035 2.3.4, counted across compression pointers), no label
   contains a '.' (rendering rule), and it is reached through at most 254 pointers. *)
Definition accepts (msg : bytes) (off : nat) : option (list bytes * nat) :=
  match ref_decode msg off with
  | Some (ls, n) =>
      if name_ok NAME_LIMIT ls && Nat.leb (ref_depth (S (length msg)) msg off) 254 then Some (ls, n) else None
  | None => None
  end.

(* decodeName is EXACTLY the reference decoder restricted by that predicate, for every slice (all
   byte contents, lengths, capacities), offset and scratch buffer: the dotted name and end offset on
   acceptance, an error otherwise (never a panic, never a hang, never another name). *)
Theorem name_decides data off buf : wf data -> bytes_ok (arr data) ->
  match accepts (view data) off with
  | Some (ls, n) => exists b, decodeName name_fuel data off buf 1 = Ok (dotted ls, n, b)
  | None => exists e, decodeName name_fuel data off buf 1 = Err e
  end.
Proof.
  intros Hwf Hok. pose proof (bytes_ok_view data Hok) as Hokv. unfold accepts.
  destruct (ref_decode (view data) off) as [[ls n]|] eqn:R.
  - pose proof (ref_decode_depth _ _ _ _ Hokv R) as Hd.
    set (d := ref_depth (S (length (view data))) (view data) off) in *.
    destruct (name_ok NAME_LIMIT ls) eqn:Hnok; cbn [andb].
    + destruct (Nat.leb_spec d 254) as [Hd254|Hdeep].
      * apply name_ok_inv in Hnok as [Hw Hdf]. unfold NAME_LIMIT in Hw.
        exact (name_complete data d off ls n buf Hwf Hok Hd Hd254 Hw Hdf).
      * destruct (name_total data off buf Hwf) as [Hp Hf].
        destruct (decodeName name_fuel data off buf 1) as [[[nm nx] b]|e| |] eqn:E; try contradiction; eauto.
        exfalso. destruct (decodeName_sound_d data Hwf Hok _ _ _ _ _ _ _ E) as (d' & ls' & Hna' & Hd').
        destruct (name_at_d_det _ _ _ _ _ Hd _ _ _ Hna') as (Ed & _). lia.
    + destruct (name_total data off buf Hwf) as [Hp Hf].
      destruct (decodeName name_fuel data off buf 1) as [[[nm nx] b]|e| |] eqn:E; try contradiction; eauto.
      exfalso. apply name_sound_limits in E as (ls' & Hna & _ & Hdf & Hw); auto.
      destruct (name_at_det _ _ _ _ _ _ Hna (name_at_d_name_at _ _ _ _ _ Hd)) as [-> _].
      unfold name_ok, NAME_LIMIT in Hnok. rewrite (dotfree_presentable ls Hdf) in Hnok.
      destruct (Nat.leb_spec (wire_len ls) 255); [discriminate|lia].
  - apply name_rejects; auto. apply ref_decode_none; auto.
Qed.
