From PV Require Import Model.SendPool Proofs.SendHistory.
Require Import List Arith Lia.
Import ListNotations.
Close Scope N_scope.
Open Scope nat_scope.

Definition pool_ok (s : pool) : Prop := NoDup (free s) /\ Forall (fun b => b < next s) (free s).

Lemma nodupb_spec l : nodupb l = true <-> NoDup l.
Proof.
  induction l as [|x r IH]; cbn; [split; [constructor|reflexivity]|].
  rewrite Bool.andb_true_iff, Bool.negb_true_iff, IH. split.
  - intros [H1 H2]. constructor; [|exact H2]. intro Hin.
    assert (existsb (Nat.eqb x) r = true) by (apply existsb_exists; exists x; split; [exact Hin|apply Nat.eqb_refl]). congruence.
  - intros H. inversion H as [|? ? Hn Hd]; subst. split; [|exact Hd].
    destruct (existsb (Nat.eqb x) r) eqn:E; [|reflexivity]. apply existsb_exists in E. destruct E as (y & Hy & Hxy).
    apply Nat.eqb_eq in Hxy. subst y. contradiction.
Qed.

(* Get of k buffers from a pool without duplicates: k different buffers, none of them still in the pool *)
Lemma pget_n_ok k : forall s held s1, pool_ok s -> pget_n k s = (held, s1) ->
  NoDup (held ++ free s1) /\ Forall (fun b => b < next s1) (held ++ free s1) /\ length held = k.
Proof.
  induction k as [|k IH]; intros s held s1 [Hn Hb] H; cbn in H.
  - injection H as <- <-. cbn. repeat split; assumption.
  - destruct (pget s) as [b s'] eqn:Eg. destruct (pget_n k s') as [l s2] eqn:En. injection H as <- <-.
    assert (Hs' : pool_ok s' /\ ~ In b (free s') /\ b < next s' /\ next s <= next s').
    { unfold pget in Eg. destruct (free s) as [|x r] eqn:Ef; injection Eg as <- <-; cbn.
      - repeat split; [constructor|constructor|intros []|lia|lia].
      - inversion Hn; subst. inversion Hb; subst. repeat split; try assumption; lia. }
    destruct Hs' as (Hok' & Hnin & Hlt & Hle).
    destruct (IH s' l s2 Hok' En) as (Hd & Hf & Hl).
    assert (Hmono : next s' <= next s2 /\ forall x, In x (l ++ free s2) -> In x (free s') \/ next s' <= x).
    { clear -En. revert s' l s2 En. induction k as [|k IHk]; intros s' l s2 En; cbn in En.
      - injection En as <- <-. split; [lia|]. intros x Hx. left. exact Hx.
      - destruct (pget s') as [b s''] eqn:Eg. destruct (pget_n k s'') as [l' s3] eqn:En'. injection En as <- <-.
        destruct (IHk _ _ _ En') as (Hle & Hin).
        unfold pget in Eg. destruct (free s') as [|x r] eqn:Ef; injection Eg as <- <-; cbn in *.
        + split; [lia|]. intros x [<-|Hx]; [right; lia|]. destruct (Hin x Hx) as [[]|]; right; lia.
        + split; [lia|]. intros y [<-|Hy]; [left; left; reflexivity|]. destruct (Hin y Hy) as [|]; [left; right; assumption|right; lia]. }
    destruct Hmono as (Hle2 & Hsrc).
    cbn. repeat split.
    + constructor; [|exact Hd]. intro Hin. destruct (Hsrc b Hin) as [|]; [contradiction|lia].
    + constructor; [lia|exact Hf].
    + cbn. f_equal. exact Hl.
Qed.

Lemma nodup_app_l (a b : list nat) : NoDup (a ++ b) -> NoDup a.
Proof.
  induction a as [|x a IH]; cbn; intros H; [constructor|]. inversion H as [|? ? Hn Hd]; subst.
  constructor; [intro Hi; apply Hn, in_or_app; left; exact Hi|apply IH; exact Hd].
Qed.

Lemma pput_all_free held s : free (pput_all held s) = held ++ free s /\ next (pput_all held s) = next s.
Proof.
  induction held as [|b l [IH1 IH2]]; [split; reflexivity|].
  change (pput_all (b :: l) s) with (pput b (pput_all l s)). unfold pput. cbn [free next].
  rewrite IH1, IH2. split; reflexivity.
Qed.

(* the discipline: a send that Gets k buffers and Puts each exactly once never sees two of them alias, and leaves
   a pool without duplicates *)
Theorem pool_send_ok k s : pool_ok s -> exists s', pool_send 0 k s = Some s' /\ pool_ok s'.
Proof.
  intros Hok. unfold pool_send. destruct (pget_n k s) as [held s1] eqn:E.
  destruct (pget_n_ok k s held s1 Hok E) as (Hd & Hf & _).
  assert (Hh : NoDup held) by (apply nodup_app_l in Hd; exact Hd).
  apply nodupb_spec in Hh. rewrite Hh. cbn [repeat concat pput_all fold_right].
  eexists; split; [reflexivity|]. destruct (pput_all_free held s1) as (E1 & E2).
  unfold pool_ok. rewrite E1, E2. split; assumption.
Qed.

Theorem pool_run_ok (h : list step) : forall s, pool_ok s -> exists s', pool_run (shape_of h) s = Some s' /\ pool_ok s'.
Proof.
  induction h as [|st h IH]; intros s Hok; cbn.
  - eexists; split; [reflexivity|exact Hok].
  - destruct (pool_send_ok (buffers_of (fst (fst st))) s Hok) as (s' & E & Hok'). rewrite E. apply IH. exact Hok'.
Qed.

Definition pool0 : pool := mkPool [] 0.
Lemma pool0_ok : pool_ok pool0.
Proof. split; constructor. Qed.

(* the frames of a history do not depend on what was sent (or refused) before: against the pool, no send of
   any history ever holds the same buffer twice, so every send is the pure function of its own arguments and of
   the previous contents of its own, distinct buffers, and its frame is well-formed whatever those contents *)
Theorem send_independent_of_history c (h : list step) (st : step) :
  cfg_ok c -> Forall step_ok h -> step_ok st ->
  (exists s', pool_run (shape_of (h ++ [st])) pool0 = Some s' /\ pool_ok s') /\
  run c (h ++ [st]) = run c h ++ frames_of (emit c st) /\
  (forall fr, In fr (frames_of (emit c st)) -> exists ev, wf_event c ev fr = true).
Proof.
  intros Hc Hh Hst. split; [apply pool_run_ok, pool0_ok|]. split.
  - unfold run. rewrite map_app, concat_app. cbn. rewrite app_nil_r. reflexivity.
  - intros fr Hin. destruct st as [[ev j1] j2]. exists ev. eapply event_wf; eassumption.
Qed.

(* the discipline is needed: one explicit Put next to the deferred one (a refused single-buffer send), and the
   next send that holds two buffers gets the same memory twice *)
Theorem double_put_aliases : pool_run [(1, 1); (0, 2)] pool0 = None.
Proof. reflexivity. Qed.
Theorem double_put_aliases_any s k : pool_ok s -> k >= 1 ->
  exists s1, pool_send 1 k s = Some s1 /\ ~ NoDup (free s1).
Proof.
  intros Hok Hk. unfold pool_send. destruct (pget_n k s) as [held s1] eqn:E.
  destruct (pget_n_ok k s held s1 Hok E) as (Hd & _ & Hl).
  assert (Hh : NoDup held) by (apply nodup_app_l in Hd; exact Hd).
  apply nodupb_spec in Hh. rewrite Hh. eexists; split; [reflexivity|].
  cbn [repeat concat]. rewrite app_nil_r.
  destruct (pput_all_free held (pput_all held s1)) as (E1 & _). rewrite E1.
  destruct (pput_all_free held s1) as (E2 & _). rewrite E2.
  destruct held as [|b l]; [cbn in Hl; lia|]. intro Hn. cbn in Hn. inversion Hn as [|? ? Hnin _]; subst.
  apply Hnin. apply in_or_app. right. left. reflexivity.
Qed.

(* ------------------------------------------------------------------ *)
Theorem wire_independent_of_log_level (ls : list log_level) c (h : list step) :
  length ls = length h -> run_at ls c h = run c h.
Proof.
  unfold run_at, run, emit_at. revert ls. induction h as [|st h IH]; intros [|l ls] Hl; try discriminate; [reflexivity|].
  cbn. f_equal. apply IH. cbn in Hl. congruence.
Qed.

Theorem write_error_is_returned c (st : step) fr rest :
  frames_of (emit c st) = fr :: rest ->
  emit_conn true c st = ([], true) /\ emit_conn false c st = (fr :: rest, false).
Proof. intros H. unfold emit_conn. rewrite H. split; reflexivity. Qed.

Theorem refused_call_writes_nothing c (st : step) fails :
  frames_of (emit c st) = [] -> emit_conn fails c st = ([], false).
Proof. intros H. unfold emit_conn. rewrite H. reflexivity. Qed.
