From PV Require Import Base.Prelude Model.Checksum Spec.OnesComplement.
Open Scope N_scope.

(* ---- pair induction on lists ---- *)
Lemma pair_ind {A} (P : list A -> Prop) :
  P [] -> (forall x, P [x]) -> (forall x y l, P l -> P (x :: y :: l)) -> forall l, P l.
Proof.
  intros H0 H1 H2 l. assert (H : P l /\ forall x, P (x :: l)).
  { induction l as [|a l [IH1 IH2]]; split; auto. }
  apply H.
Qed.

(* ---- little-endian word sum: what cs_loop accumulates ---- *)
Fixpoint le_sum (b : bytes) : N :=
  match b with
  | lo :: hi :: r => (hi * 256 + lo) + le_sum r
  | [x] => x
  | [] => 0
  end.

Lemma lor_shl8 hi lo : lo < 256 -> N.lor (N.shiftl hi 8) lo = hi * 256 + lo.
Proof.
  intros H. rewrite N.shiftl_mul_pow2. change (2 ^ 8) with 256.
  rewrite <- N.lxor_lor.
  - rewrite <- N.add_nocarry_lxor; [reflexivity|].
    apply N.bits_inj_0. intros n. rewrite N.land_spec.
    destruct (N.lt_ge_cases n 8) as [Hn|Hn].
    + replace (hi * 256) with (hi * 2 ^ 8) by reflexivity. rewrite N.mul_pow2_bits_low by exact Hn. reflexivity.
    + assert (N.testbit lo n = false) as ->; [|apply andb_false_r].
      destruct (N.eq_dec lo 0) as [->|Hz]; [apply N.bits_0|].
      apply N.bits_above_log2. apply N.lt_le_trans with 8; [|exact Hn].
      apply N.log2_lt_pow2; [lia|exact H].
  - apply N.bits_inj_0. intros n. rewrite N.land_spec.
    destruct (N.lt_ge_cases n 8) as [Hn|Hn].
    + replace (hi * 256) with (hi * 2 ^ 8) by reflexivity. rewrite N.mul_pow2_bits_low by exact Hn. reflexivity.
    + assert (N.testbit lo n = false) as ->; [|apply andb_false_r].
      destruct (N.eq_dec lo 0) as [->|Hz]; [apply N.bits_0|].
      apply N.bits_above_log2. apply N.lt_le_trans with 8; [|exact Hn].
      apply N.log2_lt_pow2; [lia|exact H].
Qed.

Lemma le_sum_bound b : bytes_ok b ->
  le_sum b <= 65535 * (N.of_nat (length b) / 2) + 255 * (N.of_nat (length b) mod 2).
Proof.
  induction b as [| x | x y l IH] using pair_ind; intros Hb.
  - simpl. lia.
  - inversion Hb; subst. simpl. lia.
  - inversion Hb as [|? ? Hx Hb']; subst. inversion Hb' as [|? ? Hy Hl]; subst.
    specialize (IH Hl). cbn [le_sum length]. lia.
Qed.

Lemma cs_loop_le_sum b : bytes_ok b -> forall s, s + le_sum b < 18446744073709551616 -> cs_loop b s = s + le_sum b.
Proof.
  induction b as [| x | x y l IH] using pair_ind; intros Hb s Hs.
  - simpl. lia.
  - simpl in *. unfold u64. rewrite N.mod_small; lia.
  - inversion Hb as [|? ? Hx Hb']; subst. inversion Hb' as [|? ? Hy Hl]; subst.
    cbn [cs_loop le_sum] in *. rewrite lor_shl8 by exact Hx.
    unfold u64. rewrite N.mod_small by lia. rewrite IH; [lia|exact Hl|lia].
Qed.

(* ---- the fold loop computes the one's-complement representative ---- *)
Lemma land_65535 s : N.land s 65535 = s mod 65536.
Proof. change 65535 with (N.ones 16). rewrite N.land_ones. reflexivity. Qed.

(* one round of the loop as arithmetic *)
Definition fold1 (s : N) : N := if s <? 65536 then s else s / 65536 + s mod 65536.

Lemma cs_fold_loop_S f s : cs_fold_loop (S f) s =
  if N.shiftr s 16 =? 0 then s else cs_fold_loop f (u64 (N.shiftr s 16 + N.land s 65535)).
Proof. reflexivity. Qed.

Lemma cs_fold_loop_small f s : s < 65536 -> cs_fold_loop f s = s.
Proof.
  intros H. destruct f as [|f]; [reflexivity|]. rewrite cs_fold_loop_S.
  rewrite N.shiftr_div_pow2. change (2 ^ 16) with 65536.
  rewrite N.div_small by exact H. reflexivity.
Qed.

Lemma cs_fold_loop_step f s : s < 18446744073709551616 -> cs_fold_loop (S f) s = cs_fold_loop f (fold1 s).
Proof.
  intros H. unfold fold1. destruct (N.ltb_spec s 65536) as [Hs|Hs].
  - rewrite !cs_fold_loop_small by exact Hs. reflexivity.
  - rewrite cs_fold_loop_S. rewrite N.shiftr_div_pow2, land_65535. change (2 ^ 16) with 65536.
    assert (Hd : s / 65536 <> 0) by lia.
    apply N.eqb_neq in Hd. rewrite Hd. unfold u64. rewrite N.mod_small by lia. reflexivity.
Qed.

Lemma fold1_congr s : fold1 s mod 65535 = s mod 65535.
Proof. unfold fold1. destruct (N.ltb_spec s 65536); lia. Qed.
Lemma fold1_pos s : s <> 0 -> fold1 s <> 0.
Proof. unfold fold1. destruct (N.ltb_spec s 65536); lia. Qed.
Lemma fold1_le s : fold1 s <= s.
Proof. unfold fold1. destruct (N.ltb_spec s 65536); lia. Qed.
Lemma fold1_bound s B : s <= B -> fold1 s <= B / 65536 + 65535.
Proof. unfold fold1. intros H. destruct (N.ltb_spec s 65536); lia. Qed.
Lemma fold1_last s : s <= 65536 -> fold1 s <= 65535.
Proof. unfold fold1. intros H. destruct (N.ltb_spec s 65536); lia. Qed.

(* five rounds suffice for any 64-bit accumulator: the fuel of the model is never exhausted *)
Lemma fold5_small s : s < 18446744073709551616 -> fold1 (fold1 (fold1 (fold1 (fold1 s)))) <= 65535.
Proof.
  intros H.
  assert (H1 : fold1 s <= 281474976776190) by (pose proof (fold1_bound s 18446744073709551615); lia).
  assert (H2 : fold1 (fold1 s) <= 4295032831) by (pose proof (fold1_bound (fold1 s) 281474976776190); lia).
  assert (H3 : fold1 (fold1 (fold1 s)) <= 131071) by (pose proof (fold1_bound (fold1 (fold1 s)) 4295032831); lia).
  assert (H4 : fold1 (fold1 (fold1 (fold1 s))) <= 65536) by (pose proof (fold1_bound (fold1 (fold1 (fold1 s))) 131071); lia).
  apply fold1_last. exact H4.
Qed.

Lemma cs_fold_loop_fold5 s : s < 18446744073709551616 ->
  cs_fold_loop 8 s = fold1 (fold1 (fold1 (fold1 (fold1 s)))).
Proof.
  intros H.
  assert (L : forall x, x < 18446744073709551616 -> fold1 x < 18446744073709551616)
    by (intros x Hx; pose proof (fold1_le x); lia).
  rewrite cs_fold_loop_step by exact H.
  rewrite cs_fold_loop_step by auto.
  rewrite cs_fold_loop_step by auto.
  rewrite cs_fold_loop_step by auto.
  rewrite cs_fold_loop_step by auto 6.
  apply cs_fold_loop_small. pose proof (fold5_small s H). lia.
Qed.

(* the loop has terminated when the model's fuel runs out: the value it returns is what the Go loop returns *)
Lemma cs_fold_loop_done s : s < 18446744073709551616 -> N.shiftr (cs_fold_loop 8 s) 16 = 0.
Proof.
  intros H. rewrite cs_fold_loop_fold5 by exact H. rewrite N.shiftr_div_pow2. change (2 ^ 16) with 65536.
  apply N.div_small. pose proof (fold5_small s H). lia.
Qed.

Lemma cs_fold_oc s : s < 18446744073709551616 -> cs_fold s = 65535 - oc_fold s.
Proof.
  intros Hs. unfold cs_fold. rewrite cs_fold_loop_fold5 by exact Hs.
  pose proof (fold5_small s Hs) as Hb.
  set (r := fold1 (fold1 (fold1 (fold1 (fold1 s))))) in *.
  assert (Hc : r mod 65535 = s mod 65535) by (unfold r; rewrite !fold1_congr; reflexivity).
  assert (Hz : s <> 0 -> r <> 0) by (intros Hn; unfold r; do 5 apply fold1_pos; exact Hn).
  assert (Hz' : s = 0 -> r = 0) by (intros ->; reflexivity).
  unfold u16. rewrite N.mod_small by lia. f_equal.
  unfold oc_fold. destruct (N.eqb_spec s 0) as [E|E]; [auto|]. specialize (Hz E). lia.
Qed.

(* every byte string a Go program can hold: lengths up to 2^49 (amd64 address space: 2^48) *)
Theorem checksum_oc_le b : bytes_ok b -> N.of_nat (length b) <= 562949953421312 ->
  checksum b = 65535 - oc_fold (le_sum b).
Proof.
  intros Hb Hl. unfold checksum.
  pose proof (le_sum_bound b Hb) as Hbd.
  assert (le_sum b < 18446744073709551616) by lia.
  rewrite cs_loop_le_sum by (auto; lia). rewrite N.add_0_l. apply cs_fold_oc. assumption.
Qed.

(* ---- little-endian vs big-endian word sums ---- *)
Lemma be_le_congr b : bytes_ok b -> be_sum b mod 65535 = (256 * le_sum b) mod 65535.
Proof.
  induction b as [| x | x y l IH] using pair_ind; intros Hb.
  - reflexivity.
  - simpl. unfold be16. f_equal. lia.
  - inversion Hb as [|? ? Hx Hb']; subst. inversion Hb' as [|? ? Hy Hl]; subst.
    specialize (IH Hl). cbn [be_sum le_sum]. unfold be16.
    revert IH. generalize (be_sum l) (le_sum l). intros bs ls IH. lia.
Qed.

Lemma be_le_zero b : be_sum b = 0 <-> le_sum b = 0.
Proof.
  induction b as [| x | x y l IH] using pair_ind.
  - simpl. tauto.
  - simpl. unfold be16. lia.
  - cbn [be_sum le_sum]. unfold be16. lia.
Qed.

Lemma swap16_range x : x <= 65535 -> swap16 x <= 65535.
Proof. unfold swap16. lia. Qed.
Lemma swap16_zero x : x <= 65535 -> (swap16 x = 0 <-> x = 0).
Proof. unfold swap16. lia. Qed.
Lemma swap16_congr x : x <= 65535 -> swap16 x mod 65535 = (256 * x) mod 65535.
Proof. unfold swap16. intros H. lia. Qed.
Lemma swap16_compl x : x <= 65535 -> swap16 (65535 - x) = 65535 - swap16 x.
Proof. unfold swap16. intros H. lia. Qed.
Lemma swap16_invol x : x <= 65535 -> swap16 (swap16 x) = x.
Proof. unfold swap16. intros H. lia. Qed.

Lemma oc_fold_range x : oc_fold x <= 65535.
Proof. unfold oc_fold. destruct (x =? 0); lia. Qed.
Lemma oc_fold_zero x : oc_fold x = 0 <-> x = 0.
Proof. unfold oc_fold. destruct (N.eqb_spec x 0); lia. Qed.
Lemma oc_fold_congr x : oc_fold x mod 65535 = x mod 65535.
Proof. unfold oc_fold. destruct (N.eqb_spec x 0); [subst; reflexivity|]. lia. Qed.
Lemma oc_fold_unique x y : y <= 65535 -> (y = 0 <-> x = 0) -> y mod 65535 = x mod 65535 -> y = oc_fold x.
Proof. unfold oc_fold. intros H1 H2 H3. destruct (N.eqb_spec x 0); lia. Qed.

Lemma oc_fold_le_be b : bytes_ok b -> oc_fold (le_sum b) = swap16 (oc_fold (be_sum b)).
Proof.
  intros Hb. symmetry. apply oc_fold_unique.
  - apply swap16_range, oc_fold_range.
  - rewrite swap16_zero by apply oc_fold_range. rewrite oc_fold_zero. apply be_le_zero.
  - rewrite swap16_congr by apply oc_fold_range.
    rewrite N.mul_mod by lia. rewrite oc_fold_congr, (be_le_congr b Hb).
    rewrite N.mul_mod_idemp_r by lia. rewrite N.mul_assoc. change (256 * 256) with 65536.
    generalize (le_sum b). intros n. lia.
Qed.

Theorem checksum_rfc1071 b : bytes_ok b -> N.of_nat (length b) <= 562949953421312 ->
  checksum b = swap16 (rfc1071 b).
Proof.
  intros Hb Hl. rewrite checksum_oc_le by assumption. unfold rfc1071.
  rewrite swap16_compl by apply oc_fold_range. f_equal. apply oc_fold_le_be. exact Hb.
Qed.

(* The former uint32 accumulator wrapped at 131076 bytes of 0xff (it returned 1, RFC 1071 gives 0):
   the repaired function is right there. *)
Example checksum_long_example :
  let b := repeat 255 (N.to_nat 131076) in
  bytes_ok b /\ N.of_nat (length b) = 131076 /\ checksum b = swap16 (rfc1071 b) /\ checksum b = 0.
Proof.
  cbn zeta. split; [apply bytes_ok_repeat; lia|]. split; [rewrite repeat_length; lia|].
  split; vm_compute; reflexivity.
Qed.

(* ---- splitting ---- *)
Lemma be_sum_app_even a b : Nat.even (length a) = true -> be_sum (a ++ b) = be_sum a + be_sum b.
Proof.
  induction a as [| x | x y l IH] using pair_ind; intros He.
  - reflexivity.
  - discriminate.
  - cbn [app be_sum]. rewrite IH by exact He. lia.
Qed.

Lemma be_sum_app_odd a b : Nat.even (length a) = false -> be_sum (a ++ b) = be_sum a + be_sum (0 :: b).
Proof.
  induction a as [| x | x y l IH] using pair_ind; intros He.
  - discriminate.
  - destruct b as [|y b']; cbn [app be_sum]; unfold be16; clear He; lia.
  - change ((x :: y :: l) ++ b) with (x :: y :: (l ++ b)).
    change (be_sum (x :: y :: l ++ b)) with (be16 x y + be_sum (l ++ b)).
    change (be_sum (x :: y :: l)) with (be16 x y + be_sum l).
    rewrite IH by exact He. rewrite N.add_assoc. reflexivity.
Qed.


(* ---- a message completed with the library checksum verifies ---- *)
Lemma verify_core S : oc_fold (S + (65535 - oc_fold S)) = 65535.
Proof.
  unfold oc_fold. destruct (N.eqb_spec S 0) as [->|Hz]; [reflexivity|].
  destruct (N.eqb_spec (S + (65535 - ((S - 1) mod 65535 + 1))) 0); lia.
Qed.

Lemma stored_word cs : cs <= 65535 -> be16 (u8 cs) (u8 (N.shiftr cs 8)) = swap16 cs.
Proof.
  intros H. unfold be16, u8, swap16. rewrite N.shiftr_div_pow2. change (2 ^ 8) with 256.
  rewrite (N.mod_small (cs / 256)) by lia. reflexivity.
Qed.

Lemma checksum_range b : checksum b <= 65535.
Proof. unfold checksum, cs_fold. lia. Qed.

Lemma u8_lt x : u8 x < 256.
Proof. unfold u8. lia. Qed.

Theorem insert_verifies a b :
  Nat.even (length a) = true -> bytes_ok a -> bytes_ok b ->
  N.of_nat (length a + length b) + 2 <= 562949953421312 ->
  let cs := checksum (a ++ 0 :: 0 :: b) in
  verifies (a ++ u8 cs :: u8 (N.shiftr cs 8) :: b).
Proof.
  intros He Ha Hb Hl cs. unfold verifies.
  rewrite be_sum_app_even by exact He.
  change (be_sum (u8 cs :: u8 (N.shiftr cs 8) :: b)) with (be16 (u8 cs) (u8 (N.shiftr cs 8)) + be_sum b).
  rewrite stored_word by apply checksum_range.
  unfold cs. rewrite checksum_rfc1071.
  - rewrite swap16_invol by (unfold rfc1071; lia). unfold rfc1071.
    rewrite be_sum_app_even by exact He.
    change (be_sum (0 :: 0 :: b)) with (be16 0 0 + be_sum b). change (be16 0 0) with 0. rewrite N.add_0_l.
    replace (be_sum a + (65535 - oc_fold (be_sum a + be_sum b) + be_sum b))
      with ((be_sum a + be_sum b) + (65535 - oc_fold (be_sum a + be_sum b))) by lia.
    apply verify_core.
  - apply bytes_ok_app. split; [exact Ha|]. repeat constructor; try lia. exact Hb.
  - rewrite app_length. cbn [length]. lia.
Qed.

(* ICMPv4: icmp4SendPacket does ICMP(p).SetChecksum(Checksum(p)) on a message
   whose checksum field is still zero (EncodeICMPEcho writes 0 there). *)
Theorem icmp4_verifies p :
  bytes_ok p -> (4 <= length p)%nat -> N.of_nat (length p) <= 562949953421312 ->
  nth 2 p 0 = 0 -> nth 3 p 0 = 0 ->
  verifies (icmp_set_checksum p (checksum p)).
Proof.
  intros Hb Hl Hbd H2 H3.
  destruct p as [|t [|c [|z2 [|z3 r]]]]; cbn [length] in Hl; try lia.
  cbn [nth] in H2, H3. subst z2 z3.
  unfold icmp_set_checksum. cbn [set_nth].
  apply (insert_verifies [t; c] r).
  - reflexivity.
  - inversion Hb as [|? ? Ht Hb1]; subst. inversion Hb1; subst. repeat constructor; assumption.
  - inversion Hb as [|? ? Ht Hb1]; subst. inversion Hb1 as [|? ? Hc Hb2]; subst.
    inversion Hb2 as [|? ? ? Hb3]; subst. inversion Hb3; subst. assumption.
  - cbn [length] in *. lia.
Qed.

(* ICMPv6: icmp6SendPacket builds psh = src(16) ++ dst(16) ++ be32(len b) ++ [0;0;0;58] ++ b
   and stores Checksum(psh) into b[2:4] (field zero beforehand). *)

Theorem icmp6_verifies src dst p :
  bytes_ok src -> bytes_ok dst -> bytes_ok p ->
  length src = 16%nat -> length dst = 16%nat -> (4 <= length p)%nat ->
  N.of_nat (length p) <= 4294967295 ->
  nth 2 p 0 = 0 -> nth 3 p 0 = 0 ->
  let psh := icmp6_pseudo src dst (N.of_nat (length p)) in
  verifies (psh ++ icmp_set_checksum p (checksum (psh ++ p))).
Proof.
  intros Hs Hd Hb Ls Ld Hl Hbd H2 H3 psh.
  destruct p as [|t [|c [|z2 [|z3 r]]]]; cbn [length] in Hl; try lia.
  cbn [nth] in H2, H3. subst z2 z3.
  unfold icmp_set_checksum. cbn [set_nth].
  assert (Hpl : length psh = 40%nat).
  { unfold psh, icmp6_pseudo. rewrite !app_length, Ls, Ld. reflexivity. }
  assert (Hpok : bytes_ok psh).
  { unfold psh, icmp6_pseudo. apply bytes_ok_app; split; [exact Hs|].
    apply bytes_ok_app; split; [exact Hd|].
    repeat constructor; try apply u8_lt; lia. }
  inversion Hb as [|? ? Ht Hb1]; subst. inversion Hb1 as [|? ? Hc Hb2]; subst.
  inversion Hb2 as [|? ? ? Hb3]; subst. inversion Hb3 as [|? ? ? Hr]; subst.
  assert (E : forall x y, psh ++ t :: c :: x :: y :: r = (psh ++ [t; c]) ++ x :: y :: r)
    by (intros; rewrite <- app_assoc; reflexivity).
  rewrite !E.
  apply insert_verifies.
  - rewrite app_length, Hpl. reflexivity.
  - apply bytes_ok_app; split; [exact Hpok|]. repeat constructor; assumption.
  - exact Hr.
  - rewrite app_length, Hpl. cbn [length] in *. lia.
Qed.

(* IPv4: SetPayload / AppendPayload store CalculateChecksum() low byte first. *)
Theorem ip4_header_verifies p :
  bytes_ok p -> length p = 20%nat -> verifies (ip4_store_checksum p).
Proof.
  intros Hb Hl.
  do 20 (destruct p as [|? p]; [discriminate Hl|]). destruct p; [|discriminate Hl].
  unfold ip4_store_checksum, ip4_calc_checksum, sub. cbn [firstn skipn app set_nth].
  match goal with |- verifies (?b0 :: ?b1 :: ?b2 :: ?b3 :: ?b4 :: ?b5 :: ?b6 :: ?b7 :: ?b8 :: ?b9 :: _ :: _ :: ?r) =>
    set (a := [b0; b1; b2; b3; b4; b5; b6; b7; b8; b9]); set (rest := r) end.
  assert (Ha : bytes_ok a).
  { unfold a, bytes_ok in *. repeat (match goal with H : Forall _ (_ :: _) |- _ => inversion H; clear H; subst end).
    repeat constructor; assumption. }
  assert (Hr : bytes_ok rest).
  { unfold rest, bytes_ok in *. repeat (match goal with H : Forall _ (_ :: _) |- _ => inversion H; clear H; subst end).
    repeat constructor; assumption. }
  (* the checksum is taken over a ++ rest ++ [0;0]; its word sum equals that of a ++ [0;0] ++ rest *)
  set (psh := a ++ rest ++ [0; 0]).
  assert (Hsum : checksum psh = checksum (a ++ 0 :: 0 :: rest)).
  { assert (Hbs : be_sum psh = be_sum (a ++ 0 :: 0 :: rest)).
    { unfold psh. rewrite !be_sum_app_even by reflexivity.
      change (be_sum (0 :: 0 :: rest)) with (be16 0 0 + be_sum rest).
      change (be_sum [0; 0]) with 0. change (be16 0 0) with 0. lia. }
    rewrite !checksum_rfc1071.
    - unfold rfc1071. rewrite Hbs. reflexivity.
    - apply bytes_ok_app; split; [exact Ha|]. apply Forall_cons; [lia|]. apply Forall_cons; [lia|exact Hr].
    - unfold a, rest. cbn [app length]. lia.
    - unfold psh. apply bytes_ok_app; split; [exact Ha|]. apply bytes_ok_app; split; [exact Hr|].
      apply Forall_cons; [lia|]. apply Forall_cons; [lia|constructor].
    - unfold psh, a, rest. cbn [app length]. lia. }
  change (verifies (a ++ u8 (checksum psh) :: u8 (N.shiftr (checksum psh) 8) :: rest)).
  rewrite Hsum. apply insert_verifies; [reflexivity|exact Ha|exact Hr|].
  unfold a, rest. cbn [length]. lia.
Qed.

(* non-vacuity: a concrete header / message satisfying the premises *)
Example ip4_header_example :
  let p := [69; 192; 0; 48; 0; 1; 64; 0; 50; 1; 170; 187; 192; 168; 0; 1; 192; 168; 0; 130] in
  bytes_ok p /\ length p = 20%nat /\ verifiesb (ip4_store_checksum p) = true.
Proof. cbn zeta. split; [apply bytes_okb_spec; reflexivity|]. split; reflexivity. Qed.

(* ---- the library function itself under splitting ---- *)
Lemma le_sum_app_even a b : Nat.even (length a) = true -> le_sum (a ++ b) = le_sum a + le_sum b.
Proof.
  induction a as [| x | x y l IH] using pair_ind; intros He.
  - reflexivity.
  - discriminate.
  - change ((x :: y :: l) ++ b) with (x :: y :: (l ++ b)).
    change (le_sum (x :: y :: l ++ b)) with (y * 256 + x + le_sum (l ++ b)).
    change (le_sum (x :: y :: l)) with (y * 256 + x + le_sum l).
    rewrite IH by exact He. lia.
Qed.

Lemma le_sum_app_odd a b : Nat.even (length a) = false -> le_sum (a ++ b) = le_sum a + le_sum (0 :: b).
Proof.
  induction a as [| x | x y l IH] using pair_ind; intros He.
  - discriminate.
  - destruct b as [|y b']; cbn [app le_sum]; clear He; lia.
  - change ((x :: y :: l) ++ b) with (x :: y :: (l ++ b)).
    change (le_sum (x :: y :: l ++ b)) with (y * 256 + x + le_sum (l ++ b)).
    change (le_sum (x :: y :: l)) with (y * 256 + x + le_sum l).
    rewrite IH by exact He. rewrite N.add_assoc. reflexivity.
Qed.

(* Checksum of a concatenation is the one's-complement combination of the
   parts' sums: directly at even offsets, with the second part shifted by one
   byte at odd offsets (RFC 1071 section 2 (B)). *)
Theorem checksum_split a b :
  bytes_ok a -> bytes_ok b -> N.of_nat (length a + length b) <= 562949953421312 ->
  checksum (a ++ b) =
    65535 - oc_add (oc_fold (le_sum a))
                   (oc_fold (le_sum (if Nat.even (length a) then b else 0 :: b))).
Proof.
  intros Ha Hb Hl. rewrite checksum_oc_le.
  - f_equal. unfold oc_add.
    assert (E : le_sum (a ++ b) = le_sum a + le_sum (if Nat.even (length a) then b else 0 :: b)).
    { destruct (Nat.even (length a)) eqn:He; [apply le_sum_app_even|apply le_sum_app_odd]; exact He. }
    rewrite E. generalize (le_sum a) (le_sum (if Nat.even (length a) then b else 0 :: b)).
    intros x y. unfold oc_fold.
    destruct (N.eqb_spec x 0), (N.eqb_spec y 0), (N.eqb_spec (x + y) 0); subst; cbn [N.eqb]; try lia;
      repeat match goal with |- context [?t =? 0] => destruct (N.eqb_spec t 0) end; lia.
  - apply bytes_ok_app; split; assumption.
  - rewrite app_length. exact Hl.
Qed.
