(* Proofs/LeaseGlue.v — C18 glue with the DHCP cluster's model (Model/DHCP.v, Proofs/DHCPInv.v; read-only):
   abstraction from DHCP's lease table to the lease-file model's table, discharge of the hypothesis [persistable]
   of C18_restart for every table reachable by DHCP's [run], the save points as a ghost file over DHCP's [run],
   and "keeps serving" stated with DHCP's [step]. *)
From PV Require Import Base.Prelude Model.LeaseBase.
From PV Require Model.Lease Model.LeaseKnown Proofs.Lease Proofs.LeaseNew Proofs.LeaseRestart.
From PV Require Model.DHCP Model.DHCPShow Spec.DHCP Spec.DHCPCheck Proofs.DHCP Proofs.DHCPInv Proofs.LeaseGlueStep.
From Coq Require Import Permutation.
Open Scope N_scope.

Module L := PV.Model.Lease.
Module LK := PV.Model.LeaseKnown.
Module LP := PV.Proofs.Lease.
Module LN := PV.Proofs.LeaseNew.
Module LR := PV.Proofs.LeaseRestart.
Module D := PV.Model.DHCP.
Module DS := PV.Spec.DHCP.
Module DC := PV.Spec.DHCPCheck.
Module DP := PV.Proofs.DHCP.
Module DI := PV.Proofs.DHCPInv.
Module G := PV.Proofs.LeaseGlueStep.
Module DSh := PV.Model.DHCPShow.

(* ---------------------------------------------------------------- *)
(* DHCP's client identifiers: the N whose base-256 digits are 1 :: bytes *)

Fixpoint enc_acc (acc : N) (b : bytes) : N :=
  match b with
  | [] => acc
  | x :: r => enc_acc (acc * 256 + x) r
  end.
Definition enc (b : bytes) : N := enc_acc 1 b.

Fixpoint dec_fuel (f : nat) (k : N) (acc : bytes) : bytes :=
  match f with
  | O => acc
  | S f' => if k <? 256 then acc (* the leading digit, 1 for an encoding *) else dec_fuel f' (k / 256) (k mod 256 :: acc)
  end.
Definition dec (k : N) : bytes := dec_fuel (S (N.to_nat (N.size k))) k [].

(* k is the encoding of a byte string *)
Definition cid_valid (k : N) : Prop := enc (dec k) = k.

Lemma dec_inj k k' : cid_valid k -> cid_valid k' -> dec k = dec k' -> k = k'.
Proof. unfold cid_valid. intros H H' E. rewrite <- H, <- H', E. reflexivity. Qed.

Lemma dec_empty k : cid_valid k -> dec k = [] -> k = 1.
Proof. unfold cid_valid. intros H E. rewrite E in H. symmetry. exact H. Qed.

Lemma getcid_not_1 m : D.getcid m <> 1.
Proof.
  unfold D.getcid. destruct (D.m_cid m) as [k|]; [destruct (k =? 1) eqn:E|]; try lia.
Qed.

(* ---------------------------------------------------------------- *)
(* abstraction *)

Definition mac_bytes (m : N) : bytes :=
  [m / 2 ^ 40 mod 256; m / 2 ^ 32 mod 256; m / 2 ^ 24 mod 256; m / 2 ^ 16 mod 256; m / 2 ^ 8 mod 256; m mod 256].
Definition abs_state (st : D.lstate) : Z :=
  match st with D.SFree => 0%Z | D.SDiscover => 1%Z | D.SAllocated => 2%Z end.
Definition abs_ip (o : option N) : addr := match o with Some x => A4 x | None => AInv end.

Definition abs_lease (l : D.lease) : L.lease :=
  {| L.l_rec := {| L.r_cid := dec (D.l_cid l); L.r_state := abs_state (D.l_state l);
                   L.r_mac := mac_bytes (D.l_mac l); L.r_ip := abs_ip (D.l_ip l);
                   L.r_expiry := (D.l_exp l * 1000000000)%Z |};
     L.l_sub := if D.l_net2 l then 2 else 1 |}.
Definition abs_table (t : list D.lease) : L.table := map abs_lease t.

Definition abs_cfg (c : D.cfg) : L.cfg :=
  {| L.c_home := P (A4 (D.c_homeip c)) (D.c_homebits c);
     L.c_host := A4 (D.c_hostip c); L.c_router := A4 (D.c_routerip c);
     L.c_netfilter := P (A4 (D.c_nfip c)) (D.c_nfbits c);
     L.c_dns := A4 (D.c_dns c) |}.

Lemma abs_allocated l : L.allocated (abs_lease l) = true <-> D.l_state l = D.SAllocated.
Proof. unfold L.allocated. simpl. destruct (D.l_state l); simpl; split; intros; try discriminate; reflexivity. Qed.

(* ---------------------------------------------------------------- *)
(* what every reachable table satisfies beyond DHCP's Inv: client ids are encodings of non-empty byte strings
   (of the messages), Allocated leases have an address *)

Definition op_wf (o : D.op) : Prop :=
  match DC.op_msg o with Some m => cid_valid (D.getcid m) | None => True end.
Definition hist_wf (h : list ((N -> nat) * D.op)) : Prop := Forall (fun p => op_wf (snd p)) h.

Definition lease_J (l : D.lease) : Prop :=
  cid_valid (D.l_cid l) /\ D.l_cid l <> 1 /\ (D.l_state l = D.SAllocated -> D.l_ip l <> None).
Definition table_J (t : list D.lease) : Prop := forall l, In l t -> lease_J l.

Lemma step_J c ch s o s' rp :
  op_wf o -> D.step c ch s o = (s', rp) -> table_J (D.tbl s) -> table_J (D.tbl s').
Proof.
  intros Hw H HJ l Hin.
  destruct (G.step_shaped c ch s o s' rp H l Hin) as [[l0 [H0 [Ec Ha]]]|[[Hm [Ec Ha]]|[_ [l0 [H0 [Ec [Es Ei]]]]]]].
  - destruct (HJ l0 H0) as [J1 [J2 J3]]. rewrite Ec in J1, J2. unfold lease_J. repeat split; auto.
    intros Hs. destruct (Ha Hs) as [S0 [_ [_ [E3 _]]]]. rewrite <- E3. auto.
  - unfold G.op_cid, op_wf in *. destruct (DC.op_msg o) as [m|]; [|congruence].
    unfold lease_J. rewrite Ec. repeat split; auto; [apply getcid_not_1|]. intros Hs. apply (Ha Hs).
  - destruct (HJ l0 H0) as [J1 [J2 J3]]. rewrite Ec in J1, J2. unfold lease_J. repeat split; auto.
    intros Hs. rewrite <- Ei. apply J3. congruence.
Qed.

Lemma run_J c h : forall s, hist_wf h -> table_J (D.tbl s) -> table_J (D.tbl (fst (D.run c s h))).
Proof.
  induction h as [|[ch o] r IH]; intros s Hw HJ; [exact HJ|].
  inversion Hw; subst. rewrite DP.run_cons. simpl. apply IH; auto.
  destruct (D.step c ch s o) as [s1 rp] eqn:E. simpl. eapply step_J; eauto.
Qed.

Lemma init_J c : table_J (D.tbl (D.init c)).
Proof. intros l []. Qed.

(* ---------------------------------------------------------------- *)
(* persistable, discharged *)

(* the netfilter prefix is not wider than the home prefix (net2 lies inside net1).  Config.New checks it since
   /repo 7a8efa9 (before, only the netfilter ADDRESS had to lie in the home LAN: finding
   restart-drops-net2-lease-outside-home), so it follows from the existence of the handler. *)
Definition nf_inside (c : D.cfg) : Prop := D.c_homebits c <= D.c_nfbits c.

Lemma pnet_div a bits : D.pnet a bits / D.psize bits = a / D.psize bits.
Proof. unfold D.pnet. apply N.div_mul. unfold D.psize. apply N.pow_nonzero. discriminate. Qed.

Lemma div_pow_coarser x y a b : x / 2 ^ a = y / 2 ^ a -> x / 2 ^ (a + b) = y / 2 ^ (a + b).
Proof.
  intros H. rewrite N.pow_add_r, <- !N.div_div by (apply N.pow_nonzero; discriminate). rewrite H. reflexivity.
Qed.

(* the subnets in force of DHCP's configuration are those of its own parameters (built by New, or kept from a lease
   file that passed configChanged): DHCP's [sub_changed] does not fire *)
Definition cfg_consistent (c : D.cfg) : Prop := D.sub_changed (D.wanted c) (D.c_sub c) = false.

Lemma consistent_facts c : cfg_consistent c ->
  D.f_bits1 (D.c_sub c) = D.c_homebits c /\ D.f_bits2 (D.c_sub c) = D.c_nfbits c
  /\ D.f_addr1 (D.c_sub c) / D.psize (D.c_homebits c) = D.c_homeip c / D.psize (D.c_homebits c)
  /\ D.f_addr2 (D.c_sub c) / D.psize (D.c_nfbits c) = D.c_nfip c / D.psize (D.c_nfbits c).
Proof.
  unfold cfg_consistent, D.sub_changed. intros H. apply negb_false_iff in H.
  repeat (apply andb_true_iff in H; destruct H as [H ?]).
  repeat match goal with E : (_ =? _) = true |- _ => apply N.eqb_eq in E end.
  simpl in *.
  assert (B1 : D.f_bits1 (D.c_sub c) = D.c_homebits c) by congruence.
  assert (B2 : D.f_bits2 (D.c_sub c) = D.c_nfbits c) by congruence.
  repeat split; auto.
  - rewrite <- (pnet_div (D.f_addr1 (D.c_sub c))), <- (pnet_div (D.c_homeip c)). rewrite <- B1 at 1. congruence.
  - rewrite <- (pnet_div (D.f_addr2 (D.c_sub c))), <- (pnet_div (D.c_nfip c)). rewrite <- B2 at 1. congruence.
Qed.

Lemma in_home c b x :
  cfg_consistent c ->
  nf_inside c -> D.c_nfbits c <= 32 ->
  D.c_nfip c / D.psize (D.c_homebits c) = D.c_homeip c / D.psize (D.c_homebits c) ->
  DI.in_pool c b x ->
  x / D.psize (D.c_homebits c) = D.c_homeip c / D.psize (D.c_homebits c).
Proof.
  intros Hcons Hnf Hb Hc Hp. destruct (consistent_facts c Hcons) as (B1 & B2 & A1 & A2).
  apply DI.in_pool_contains in Hp.
  unfold D.n_contains, D.pcontains in Hp. apply N.eqb_eq in Hp.
  destruct b; unfold D.n_lan, D.n_bits in Hp; rewrite pnet_div in Hp.
  - rewrite B2, A2 in Hp. rewrite <- Hc.
    assert (E : 32 - D.c_homebits c = (32 - D.c_nfbits c) + (D.c_nfbits c - D.c_homebits c))
      by (clear - Hnf Hb; unfold nf_inside in Hnf; lia).
    unfold D.psize in *. rewrite E. apply div_pow_coarser. exact Hp.
  - rewrite B1, A1 in Hp. exact Hp.
Qed.

Lemma persistable_reachable c sD cap i s :
  cfg_consistent c ->
  DI.Inv c sD -> table_J (D.tbl sD) ->
  L.new (abs_cfg c) cap i = Ok s ->
  LK.persistable (L.d_n1 s) (abs_table (D.tbl sD)) = true.
Proof.
  intros Hcons HI HJ Hnew.
  destruct (LR.new_stable _ _ _ _ Hnew) as (Hok & _ & _ & C1 & _).
  (* the handler's net1 is the masked home LAN *)
  unfold L.configChanged in C1. repeat (apply orb_false_iff in C1; destruct C1 as [C1 ?]).
  apply negb_false_iff in C1. apply LR.prefix_eqb_eq in C1.
  unfold LN.cfg_ok in Hok. apply andb_true_iff in Hok. destruct Hok as [Hv Hc].
  apply andb_true_iff in Hc. destruct Hc as [Hc Hnfb]. apply negb_true_iff in Hnfb. simpl in Hv, Hc, Hnfb.
  assert (Hnf : nf_inside c) by (unfold nf_inside; lia).
  unfold contains in Hc. simpl in Hc. apply andb_true_iff in Hc. destruct Hc as [Hhb Hc]. apply N.eqb_eq in Hc.
  unfold LK.persistable, abs_table. apply forallb_forall. intros al Hal.
  apply in_map_iff in Hal. destruct Hal as (l & <- & Hl).
  destruct (L.allocated (abs_lease l)) eqn:Ea; [|reflexivity]. simpl.
  apply abs_allocated in Ea.
  destruct (HJ l Hl) as [J1 [J2 J3]]. specialize (J3 Ea).
  destruct (D.l_ip l) as [x|] eqn:Eip; [|congruence].
  destruct (DI.inv_leases c sD HI l Hl) as [_ Li]. destruct (Li x Eip) as [[Hp _] _].
  simpl. rewrite <- C1, LR.contains_pmasked. unfold contains. simpl. rewrite Hhb. simpl.
  assert (Hx : x / 2 ^ (32 - D.c_homebits c) = D.c_homeip c / 2 ^ (32 - D.c_homebits c)).
  { apply (in_home c (D.l_net2 l) x Hcons Hnf); [lia|symmetry; exact Hc|exact Hp]. }
  rewrite Hx, N.eqb_refl. simpl.
  destruct (dec (D.l_cid l)) eqn:Ed; [|reflexivity].
  exfalso. apply J2. apply dec_empty; auto.
Qed.

Lemma abs_keys_NoDup t : table_J t -> NoDup (map D.l_cid t) -> NoDup (map L.l_cid (abs_table t)).
Proof.
  induction t as [|l t IH]; simpl; intros HJ Hn; [constructor|].
  inversion Hn as [|? ? Hx Ht]; subst. constructor.
  - intros Hin. apply Hx. unfold abs_table in Hin. rewrite map_map in Hin.
    apply in_map_iff in Hin. destruct Hin as (l' & E & Hl'). unfold L.l_cid in E. simpl in E.
    apply in_map_iff. exists l'. split; auto.
    apply dec_inj; auto; [apply (HJ l')|apply (HJ l)]; simpl; auto.
  - apply IH; auto. intros x Hxin. apply HJ. right. exact Hxin.
Qed.

(* every state reachable by DHCP's run from init *)
Lemma reachable_facts c h :
  hist_wf h ->
  let sD := fst (D.run c (D.init c) h) in
  DI.Inv c sD /\ table_J (D.tbl sD) /\ NoDup (map L.l_cid (abs_table (D.tbl sD))).
Proof.
  intros Hw sD.
  assert (HI : DI.Inv c sD) by (apply DI.run_inv; apply DI.inv_init).
  assert (HJ : table_J (D.tbl sD)) by (apply run_J; auto; apply init_J).
  split; [exact HI|]. split; [exact HJ|]. apply abs_keys_NoDup; auto. apply (DI.inv_wf c sD HI).
Qed.

Section Oracle.
  Variable text : Type.
  Variable print : L.doc -> text.
  Variable read : text -> L.input.

  (* C18_restart for all DHCP histories: no hypothesis on the table *)
  Lemma restart_all_histories :
    LR.yaml_roundtrip text print read ->
    forall c h cap0 i0 s cap ord,
      hist_wf h -> cfg_consistent c ->
      L.new (abs_cfg c) cap0 i0 = Ok s ->
      let t := abs_table (D.tbl (fst (D.run c (D.init c) h))) in
      Permutation ord t ->
      exists s', L.new (abs_cfg c) cap (read (print (L.save (L.d_n1 s) (L.d_n2 s) ord))) = Ok s'
                 /\ L.d_n1 s' = L.d_n1 s /\ L.d_n2 s' = L.d_n2 s
                 /\ Permutation (L.bindings (L.d_table s')) (L.acked_bindings t).
  Proof.
    intros Hy c h cap0 i0 s cap ord Hw Hcons Hnew t Hp.
    destruct (reachable_facts c h Hw) as (HI & HJ & Hnd).
    pose proof (persistable_reachable c _ cap0 i0 s Hcons HI HJ Hnew) as Hper.
    destruct (LR.restart_partial text print read Hy (abs_cfg c) cap0 i0 s cap t ord Hnew Hper Hnd Hp)
      as (s' & E & E1 & E2 & _ & E4).
    exists s'. auto.
  Qed.
End Oracle.

(* ---------------------------------------------------------------- *)
(* save points: the lease file as a ghost component of DHCP's run.
   [saves s rp s1]: does the step from s to s1 with reply rp end with saveConfig?
   saveConfig is called by handleRequest on its ACK path (request.go) and nowhere else after construction. *)

Definition saves_on_ack (s : D.dstate) (rp : option D.reply) (s1 : D.dstate) : bool := G.is_ack_reply rp.

(* ops of the library: everything but the verif hook that rewrites an expiry in memory *)
Definition lib_op (o : D.op) : Prop := ~ G.hook_op o.
Definition lib_hist (h : list ((N -> nat) * D.op)) : Prop := Forall (fun p => lib_op (snd p)) h.

Section File.
  Variable saves : D.dstate -> option D.reply -> D.dstate -> bool.

  (* the file holds the table as of the last save *)
  Fixpoint run_file (c : D.cfg) (s : D.dstate) (f : list D.lease) (h : list ((N -> nat) * D.op))
    : D.dstate * list D.lease :=
    match h with
    | [] => (s, f)
    | (ch, o) :: r =>
        let '(s1, rp) := D.step c ch s o in
        run_file c s1 (if saves s rp s1 then D.tbl s1 else f) r
    end.

  Definition alloc_in (t : list D.lease) (l : D.lease) : Prop :=
    exists l', In l' t /\ D.l_state l' = D.SAllocated /\ G.same_binding l' l.

  (* nothing acknowledged is missing from the file *)
  Definition covers (f t : list D.lease) : Prop :=
    forall l, In l t -> D.l_state l = D.SAllocated -> alloc_in f l.
  (* nothing in the file is stale *)
  Definition current (f t : list D.lease) : Prop :=
    forall l, In l f -> D.l_state l = D.SAllocated -> alloc_in t l.

  Lemma same_binding_trans a b c0 : G.same_binding a b -> G.same_binding b c0 -> G.same_binding a c0.
  Proof. unfold G.same_binding. intros [A1 [A2 [A3 [A4 A5]]]] [B1 [B2 [B3 [B4 B5]]]]. repeat split; congruence. Qed.
  Lemma same_binding_refl a : G.same_binding a a.
  Proof. unfold G.same_binding. auto 10. Qed.
  Lemma same_binding_sym a b : G.same_binding a b -> G.same_binding b a.
  Proof. unfold G.same_binding. intros [A1 [A2 [A3 [A4 A5]]]]. repeat split; congruence. Qed.

  Hypothesis saves_acks : forall s rp s1, G.is_ack_reply rp = true -> saves s rp s1 = true.

  Lemma covers_step c ch s o s1 rp f :
    lib_op o ->
    D.step c ch s o = (s1, rp) -> covers f (D.tbl s) ->
    covers (if saves s rp s1 then D.tbl s1 else f) (D.tbl s1).
  Proof.
    intros Hlib H Hc. destruct (saves s rp s1) eqn:Es.
    - intros l Hl Ha. exists l. repeat split; auto.
    - intros l Hl Ha.
      destruct (G.step_shaped c ch s o s1 rp H l Hl) as [[l0 [H0 [Ec Hk]]]|[[_ [_ Hm]]|[Hh _]]]; [| |contradiction].
      + destruct (Hk Ha) as [S0 B0]. destruct (Hc l0 H0 S0) as [l' [Hl' [Sl' Bl']]].
        exists l'. split; [exact Hl'|]. split; [exact Sl'|]. eapply same_binding_trans; eauto.
      + destruct (Hm Ha) as [A _]. rewrite (saves_acks s rp s1 A) in Es. discriminate.
  Qed.

  Lemma covers_run c h : lib_hist h -> forall s f, covers f (D.tbl s) ->
    covers (snd (run_file c s f h)) (D.tbl (fst (run_file c s f h))).
  Proof.
    induction h as [|[ch o] r IH]; intros Hl s f Hc; [exact Hc|].
    inversion Hl; subst.
    simpl. destruct (D.step c ch s o) as [s1 rp] eqn:E. apply IH; auto. eapply covers_step; eauto.
  Qed.

  (* a step after which no Allocated binding of the table before is lost without a save *)
  Definition keeps_or_saves (c : D.cfg) (ch : N -> nat) (s : D.dstate) (o : D.op) : Prop :=
    let '(s1, rp) := D.step c ch s o in
    saves s rp s1 = true \/ covers (D.tbl s1) (D.tbl s).

  Fixpoint all_keep (c : D.cfg) (s : D.dstate) (h : list ((N -> nat) * D.op)) : Prop :=
    match h with
    | [] => True
    | (ch, o) :: r => keeps_or_saves c ch s o /\ all_keep c (fst (D.step c ch s o)) r
    end.

  Lemma current_run c h : forall s f, all_keep c s h -> current f (D.tbl s) ->
    current (snd (run_file c s f h)) (D.tbl (fst (run_file c s f h))).
  Proof.
    induction h as [|[ch o] r IH]; intros s f Hk Hc; [exact Hc|].
    simpl in *. destruct Hk as [K1 K2]. unfold keeps_or_saves in K1.
    destruct (D.step c ch s o) as [s1 rp] eqn:E. simpl in K2. apply IH; auto.
    destruct K1 as [K1|K1].
    - rewrite K1. intros l Hl Ha. exists l. repeat split; auto.
    - destruct (saves s rp s1); [intros l Hl Ha; exists l; repeat split; auto|].
      intros l Hl Ha. destruct (Hc l Hl Ha) as [l0 [H0 [S0 B0]]].
      destruct (K1 l0 H0 S0) as [l1 [H1 [S1 B1]]]. exists l1. split; [exact H1|]. split; [exact S1|].
      eapply same_binding_trans; eauto.
  Qed.
End File.

(* C18_file_covers (full): after EVERY history, every acknowledged binding of the table is in the file *)
Lemma file_covers c h :
  lib_hist h ->
  let r := run_file saves_on_ack c (D.init c) [] h in covers (snd r) (D.tbl (fst r)).
Proof. intros Hl. apply covers_run; auto. intros l []. Qed.

(* C18_file_current_partial: if no step loses an acknowledged binding without acknowledging something, the file
   holds nothing stale *)
Lemma file_current_partial c h :
  all_keep saves_on_ack c (D.init c) h ->
  let r := run_file saves_on_ack c (D.init c) [] h in current (snd r) (D.tbl (fst r)).
Proof. intros Hk. apply current_run; auto. intros l []. Qed.

(* C18_file_current_refuted: DISCOVER, REQUEST (ACK, saved), DECLINE (lease freed, not saved): the file still
   holds the declined binding *)
(* home 192.168.0.0/28, host .9, router .1, netfilter .8/29, primary mode; client 02:00:00:00:00:01 *)
Definition gcfg : D.cfg :=
  D.fresh_cfg 1 3232235529 366503875925 3232235521 439804651110 3232235520 28 3232235529 29 134743044.
Definition gc1 : N := 2199023255553.
Definition gmsg (ch xid : N) (req sid : option N) : D.dmsg := D.mkMsg ch xid 0 None req sid false 0 [].
Definition gus : option N := Some 3232235529.

Definition h_decline : list D.op :=
  [D.ODiscover 0 (gmsg gc1 1 None None);
   D.ORequest 0 (gmsg gc1 1 (Some 3232235522) gus);
   D.ODecline (gmsg gc1 2 (Some 3232235522) gus)].

Lemma file_current_refuted :
  let r := run_file saves_on_ack gcfg (D.init gcfg) [] (DSh.with_ch0 h_decline) in
  exists l, In l (snd r) /\ D.l_state l = D.SAllocated /\ D.l_ip l = Some 3232235522
            /\ forall l', In l' (D.tbl (fst r)) -> D.l_state l' <> D.SAllocated.
Proof.
  vm_compute. eexists. split; [left; reflexivity|]. repeat split.
  intros l' [<-|[]]. discriminate.
Qed.

(* ---------------------------------------------------------------- *)
(* the restored state, seen as a DHCP table *)

Lemma restored_all_allocated c cap i s' tD :
  L.new c cap i = Ok s' -> abs_table tD = L.d_table s' ->
  forall l, In l tD -> D.l_state l = D.SAllocated.
Proof.
  intros Hnew E l Hl. destruct (LR.new_table_wf _ _ _ _ Hnew) as (_ & Hall & _).
  apply abs_allocated. apply Hall. rewrite <- E. unfold abs_table. apply in_map. exact Hl.
Qed.

(* ---------------------------------------------------------------- *)
(* non-vacuity: a well-formed history with two acknowledged leases (one captured client in the netfilter pool) *)
Definition gc2 : N := 2199023255554.
Definition h_live : list D.op :=
  [D.ODiscover 0 (gmsg gc1 1 None None); D.ORequest 0 (gmsg gc1 1 (Some 3232235522) gus);
   D.OCapture gc2; D.ODiscover 0 (gmsg gc2 2 (Some 3232235532) None); D.ORequest 0 (gmsg gc2 2 (Some 3232235532) gus)].

Example glue_nonvacuous :
  hist_wf (DSh.with_ch0 h_live) /\ cfg_consistent gcfg
  /\ (exists s, L.new (abs_cfg gcfg) (fun _ => false) L.ReadErr = Ok s)
  /\ List.length (L.acked_bindings (abs_table (D.tbl (fst (D.run gcfg (D.init gcfg) (DSh.with_ch0 h_live)))))) = 2%nat.
Proof.
  split.
  - unfold hist_wf, h_live. simpl. repeat constructor; unfold op_wf; simpl; try exact I; vm_compute; reflexivity.
  - split; [vm_compute; reflexivity|].
    split; [eexists; vm_compute; reflexivity|vm_compute; reflexivity].
Qed.

(* ---------------------------------------------------------------- *)
(* save points after /repo 9517ed8: saveConfig also runs where a binding is dropped (DECLINE, SELECT for another
   server, lease replaced after a subnet change, leases freed by MinuteTicker, lease deleted on an exhausted pool).
   Save policy, extensionally: the file is rewritten at least after every ACK and after every step in which a
   non-free lease does not survive as a non-free lease with the same client id, MAC, address and subnet.
   (A DISCOVER of a bound client turns its lease Allocated -> Discover with the same binding and does not save: the
   client still holds the lease, and the file rightly keeps it.) *)

Definition nonfree (l : D.lease) : Prop := D.l_state l <> D.SFree.
Definition nonfree_in (t : list D.lease) (l : D.lease) : Prop :=
  exists l', In l' t /\ nonfree l' /\ G.same_binding l' l.
(* nothing in the file is stale, up to re-negotiating clients *)
Definition current_mod (f t : list D.lease) : Prop :=
  forall l, In l f -> D.l_state l = D.SAllocated -> nonfree_in t l.

Section Policy.
  Variable saves : D.dstate -> option D.reply -> D.dstate -> bool.
  Hypothesis saves_lost : forall c ch s o s1 rp,
    D.step c ch s o = (s1, rp) -> saves s rp s1 = false ->
    forall l, In l (D.tbl s) -> nonfree l -> nonfree_in (D.tbl s1) l.

  Lemma current_mod_run c h : forall s f, current_mod f (D.tbl s) ->
    current_mod (snd (run_file saves c s f h)) (D.tbl (fst (run_file saves c s f h))).
  Proof.
    induction h as [|[ch o] r IH]; intros s f Hc; [exact Hc|].
    simpl. destruct (D.step c ch s o) as [s1 rp] eqn:E. apply IH.
    destruct (saves s rp s1) eqn:Es.
    - intros l Hl Ha. exists l. split; [exact Hl|]. split; [unfold nonfree; congruence|apply same_binding_refl].
    - intros l Hl Ha. destruct (Hc l Hl Ha) as [l0 [H0 [N0 B0]]].
      destruct (saves_lost c ch s o s1 rp E Es l0 H0 N0) as [l1 [H1 [N1 B1]]].
      exists l1. split; [exact H1|]. split; [exact N1|]. eapply same_binding_trans; eauto.
  Qed.
End Policy.

(* the canonical policy *)
Definition same_bindingb (a b : D.lease) : bool :=
  (D.l_cid a =? D.l_cid b) && (D.l_mac a =? D.l_mac b) && D.oeqb (D.l_ip a) (D.l_ip b) && Bool.eqb (D.l_net2 a) (D.l_net2 b)
  && (D.l_exp a =? D.l_exp b)%Z.
Definition nonfreeb (l : D.lease) : bool := negb (D.lstate_eqb (D.l_state l) D.SFree).
Definition survives (t1 : list D.lease) (l : D.lease) : bool :=
  negb (nonfreeb l) || existsb (fun l1 => nonfreeb l1 && same_bindingb l1 l) t1.
Definition saves_repaired (s : D.dstate) (rp : option D.reply) (s1 : D.dstate) : bool :=
  G.is_ack_reply rp || negb (forallb (survives (D.tbl s1)) (D.tbl s)).

Lemma oeqb_eq a b : D.oeqb a b = true -> a = b.
Proof. destruct a, b; simpl; intros H; try discriminate; auto. apply N.eqb_eq in H. congruence. Qed.

Lemma same_bindingb_spec a b : same_bindingb a b = true -> G.same_binding a b.
Proof.
  unfold same_bindingb, G.same_binding. intros H. apply andb_true_iff in H as [H H5].
  apply andb_true_iff in H as [H H4]. apply andb_true_iff in H as [H H3]. apply andb_true_iff in H as [H1 H2].
  apply N.eqb_eq in H1, H2. apply oeqb_eq in H3. apply Bool.eqb_prop in H4. apply Z.eqb_eq in H5. auto 10.
Qed.

Lemma nonfreeb_spec l : nonfreeb l = true <-> nonfree l.
Proof. unfold nonfreeb, nonfree. destruct (D.l_state l); simpl; split; intros; try discriminate; try congruence; auto. Qed.

Lemma saves_repaired_lost c ch s o s1 rp :
  D.step c ch s o = (s1, rp) -> saves_repaired s rp s1 = false ->
  forall l, In l (D.tbl s) -> nonfree l -> nonfree_in (D.tbl s1) l.
Proof.
  intros _ Hs l Hl Hn. unfold saves_repaired in Hs. apply orb_false_iff in Hs as [_ Hs].
  apply negb_false_iff in Hs. rewrite forallb_forall in Hs. specialize (Hs l Hl).
  unfold survives in Hs. apply nonfreeb_spec in Hn. rewrite Hn in Hs. simpl in Hs.
  apply existsb_exists in Hs. destruct Hs as [l1 [H1 Hb]]. apply andb_true_iff in Hb as [N1 B1].
  exists l1. split; [exact H1|]. split; [apply nonfreeb_spec; exact N1|apply same_bindingb_spec; exact B1].
Qed.

(* C18_file_current (repaired code): after EVERY history nothing acknowledged is missing from the file and nothing
   in the file is stale, up to clients that are re-negotiating a lease they still hold *)
Lemma file_current_repaired c h :
  lib_hist h ->
  let r := run_file saves_repaired c (D.init c) [] h in
  covers (snd r) (D.tbl (fst r)) /\ current_mod (snd r) (D.tbl (fst r)).
Proof.
  intros Hl. split.
  - apply covers_run; [|exact Hl|intros l []]. intros s rp s1 A. unfold saves_repaired. rewrite A. reflexivity.
  - apply (current_mod_run saves_repaired saves_repaired_lost). intros l [].
Qed.

(* the history that refuted file_current before the repair: the DECLINE step now saves *)
Lemma file_current_decline_repaired :
  let r := run_file saves_repaired gcfg (D.init gcfg) [] (DSh.with_ch0 h_decline) in
  forall l, In l (snd r) -> D.l_state l <> D.SAllocated.
Proof. vm_compute. intros l [<-|[]]. discriminate. Qed.
