(* Proofs/TablesGlue.v — the table theorems over raw frame bytes.
   (a) the summary computed from the bytes is always well formed;
   (b) C05 / C04 / C06 history theorems restated over histories whose receive ops are byte strings;
   (c) whenever Session.Parse (Model/Parse.v) returns a frame, the host key and the source it reports are
       the ones the glue reads at layer 3. *)
From PV Require Import Base.Prelude Base.Slice Model.Parse Model.ParseFixes Model.Tables Model.TablesGlue
  Spec.HostTrackingInv Spec.HostTracking Spec.HostTrackingNotif
  Proofs.Tables Proofs.TablesRefine Proofs.TablesPred Proofs.TablesC04 Proofs.TablesNotif Proofs.TablesNotifHist
  Proofs.TablesGlueNum Proofs.TablesGlueNum6.
Open Scope N_scope.

(* ------------------------------------------------------------------ *)
(* numbers from bytes *)

Lemma nob_lt l : nob l < 256 ^ N.of_nat (List.length l).
Proof. apply nob_bound. Qed.

Lemma ip_of_wf l : match ip_of l with IP6 a => ip6_ok a | _ => True end.
Proof.
  unfold ip_of. destruct (Nat.eqb (List.length l) 4); auto.
  destruct (Nat.eqb (List.length l) 16) eqn:E; auto.
  apply Nat.eqb_eq in E. unfold ip6_ok. pose proof (nob_lt l) as H. rewrite E in H.
  change (256 ^ N.of_nat 16) with (2 ^ 128) in H. exact H.
Qed.

(* (a) *)
Theorem summary_wf pc s : fsum_wf (summary_of pc s).
Proof.
  unfold summary_of. destruct (l3_of pc s) as [i| | |]; try exact I.
  unfold fsum_wf. cbn [f_class f_ip]. pose proof (ip_of_wf (l_ip i)) as W.
  destruct (l_class i), (ip_of (l_ip i)); auto.
Qed.

(* ------------------------------------------------------------------ *)
(* (b) histories of raw frames *)

Lemma brun_run c bs : forall st, brun c st bs = run c st (map (op_of_bop c) bs).
Proof. induction bs as [|b r IH]; simpl; auto. Qed.

Theorem reachable_bytes c now s0 bs : new_session c now = Ok s0 -> Inv (brun c s0 bs).
Proof. intros H. rewrite brun_run. eapply C05_reachable_proof; eauto. Qed.

Theorem bstep_no_panic c st b : Inv st -> snd (bstep c st b) <> OPanic.
Proof. intros I. apply C05_step_no_panic_proof. exact I. Qed.

(* the only remaining side conditions concern the ops that are NOT receptions of raw frames *)
Fixpoint bhist_wf (c : Tables.cfg) (st : state) (bs : list bop) : Prop :=
  match bs with
  | [] => True
  | b :: r => match b with BRx _ _ => True | BOp o => order_complete st o /\ op_wf o end /\
              bhist_wf c (fst (bstep c st b)) r
  end.

Lemma bhist_wf_hist c bs : forall st, bhist_wf c st bs -> hist_wf c st (map (op_of_bop c) bs).
Proof.
  induction bs as [|b r IH]; simpl; auto. intros st (A & B). destruct b as [s now|o]; simpl.
  - repeat split; auto. apply summary_wf.
  - destruct A. repeat split; auto.
Qed.

Theorem history_bytes c now s0 bs :
  own_mac c <> rt_mac c -> new_session c now = Ok s0 -> bhist_wf c s0 bs ->
  forall k, abs (brun c s0 bs) k = ref_run c (ref_init c now) (map (op_of_bop c) bs) k.
Proof.
  intros N H W k. rewrite brun_run. apply C04_history_proof; auto. apply bhist_wf_hist. exact W.
Qed.

(* disciplined units with raw frames *)
Inductive bunit : Type :=
| BFrame (s : slice) (now : Z)       (* Parse(s); Notify(frame) *)
| BUnit (u : dunit).

Definition dunit_of (c : Tables.cfg) (b : bunit) : dunit :=
  match b with BFrame s now => DFrame (summary_of (pcfg_of c) s) now | BUnit u => u end.

Fixpoint bunits_ok (c : Tables.cfg) (st : state) (bs : list bunit) : Prop :=
  match bs with
  | [] => True
  | b :: r =>
      match b with
      | BFrame s now => forall m, (List.length (mac_hosts m (fst (rx_bytes c st s now))) < 127)%nat
      | BUnit u => unit_ok c st u
      end /\ bunits_ok c (fst (exec c st (dunit_of c b))) r
  end.

Lemma bunits_ok_units c bs : forall st, bunits_ok c st bs -> units_ok c st (map (dunit_of c) bs).
Proof.
  induction bs as [|b r IH]; simpl; auto. intros st (A & B). split; auto.
  destruct b as [s now|u]; simpl; auto. split; [apply summary_wf|exact A].
Qed.

Theorem exactly_once_bytes c now s0 bs :
  own_mac c <> rt_mac c -> new_session c now = Ok s0 -> bunits_ok c s0 bs ->
  all_once c s0 (rinit c now) (map (dunit_of c) bs).
Proof. intros N H OK. apply exactly_once_proof; auto. apply bunits_ok_units. exact OK. Qed.

(* ------------------------------------------------------------------ *)
(* (c) Session.Parse and the layer-3 reading agree on what is handed to the host table *)

Ltac binv H :=
  repeat match type of H with
  | bind ?r _ = Ok _ => let E := fresh "E" in destruct r eqn:E; cbn [bind] in H; try discriminate H
  end.

Lemma bind_ok {A B} (a : A) (f : A -> res B) : bind (Ok a) f = f a.
Proof. reflexivity. Qed.
Ltac bfwd := repeat (first [ rewrite bind_ok; cbv beta
                           | match goal with E : ?r = Ok _ |- context [bind ?r _] => rewrite E end ]).

Definition keeps_l3 (f f' : Parse.frame) : Prop :=
  f_host f' = f_host f /\ Parse.a_mac (Parse.f_src f') = Parse.a_mac (Parse.f_src f) /\ Parse.a_ip (Parse.f_src f') = Parse.a_ip (Parse.f_src f).

Lemma parse_udp_keeps s f f' : parse_udp s f = Ok f' -> keeps_l3 f f'.
Proof.
  unfold parse_udp. intros H. binv H. destruct (udp_class _ _); inversion H; subst; repeat split; reflexivity.
Qed.

Lemma parse_tcp_keeps fx s f f' : parse_tcp fx s f = Ok f' -> keeps_l3 f f'.
Proof. unfold parse_tcp. intros H. binv H. inversion H; subst; repeat split; reflexivity. Qed.

Lemma parse_icmp_keeps s f r id f' : parse_icmp s f r id = Ok f' -> keeps_l3 f f'.
Proof.
  unfold parse_icmp. intros H. binv H.
  match type of E2 with (if ?c then _ else _) = _ => destruct c end.
  - binv E2. inversion E2; subst. inversion H; subst. repeat split; reflexivity.
  - inversion E2; subst. inversion H; subst. repeat split; reflexivity.
Qed.

Lemma parse_proto_keeps fx s f proto f' : parse_proto fx s f proto = Ok f' -> keeps_l3 f f'.
Proof.
  unfold parse_proto. intros H. destruct (lookup_row proto ipproto_rows) as [id|].
  - destruct (id =? PayloadUDP); [eapply parse_udp_keeps; eauto|].
    destruct (id =? PayloadTCP); [eapply parse_tcp_keeps; eauto|].
    destruct (id =? PayloadICMP4); [eapply parse_icmp_keeps; eauto|].
    destruct (id =? PayloadICMP6); [eapply parse_icmp_keeps; eauto|].
    inversion H; subst. repeat split; reflexivity.
  - inversion H; subst. repeat split; reflexivity.
Qed.

(* whenever Parse returns a frame, its host key and source MAC are the ones the layer-3 reading reports *)
Lemma payload_view_wf s f p : wf s -> payload_view s f = Ok p -> wf p.
Proof.
  unfold payload_view, frame_payload, acc_at. intros W H.
  destruct (Nat.eqb (f_offP f) 0).
  - cbn [bind] in H. inversion H; subst. unfold wf, nil_slice, cap. simpl. lia.
  - unfold slfrom in H. destruct (Nat.leb (f_offP f) (len s)) eqn:L; cbn [bind] in H; [|discriminate].
    inversion H; subst. apply Nat.leb_le in L. unfold wf, cap in *. cbn [arr len]. rewrite skipn_length. lia.
Qed.

Lemma bytes_at_ok p a b : wf p -> (a <= b)%nat -> (b <= len p)%nat -> exists x, bytes_at p a b = Ok x.
Proof.
  intros W H1 H2. unfold bytes_at. rewrite sl_ok; [eexists; reflexivity|exact H1|]. unfold wf in W. lia.
Qed.

Definition l3_agrees (r : res l3info) (f : Parse.frame) : Prop :=
  match r with
  | Ok i => l_key i = f_host f /\ l_src i = Parse.a_mac (Parse.f_src f) /\
            (l_class i = FIP4 \/ l_class i = FIP6 -> l_ip i = Parse.a_ip (Parse.f_src f))
  | _ => False
  end.

Theorem parse_l3_agree pc s f : wf s -> parse pc s = Ok f -> l3_agrees (l3_of pc s) f.
Proof.
  intros Hwf H. unfold parse in H. binv H. unfold l3_of. bfwd.
  match type of H with (if ?c then _ else _) = _ => destruct c eqn:C1; [discriminate|] end.
  match type of H with (if ?c then _ else _) = _ => destruct c eqn:C2 end.
  { inversion H; subst. unfold l3_other, l3_agrees. simpl. repeat split; try reflexivity; intros [X|X]; discriminate. }
  binv H. bfwd.
  match type of H with (if ?c then _ else _) = _ => destruct c eqn:C3 end.
  { inversion H; subst. unfold l3_other, l3_agrees. simpl. repeat split; try reflexivity; intros [X|X]; discriminate. }
  destruct (lookup_row _ ethertype_rows) as [id|].
  2:{ inversion H; subst. unfold l3_other, l3_agrees. simpl. repeat split; try reflexivity; intros [X|X]; discriminate. }
  destruct (id =? PayloadIP4).
  { unfold parse_ip4 in H. binv H. apply parse_proto_keeps in H. destruct H as (K1 & K2 & K3).
    bfwd. unfold l3_agrees. cbn [l_key l_src l_ip l_class]. rewrite K1, K2, K3. repeat split; reflexivity. }
  destruct (id =? PayloadIP6).
  { unfold parse_ip6 in H. binv H. apply parse_proto_keeps in H. destruct H as (K1 & K2 & K3).
    bfwd. unfold l3_agrees. cbn [l_key l_src l_ip l_class]. rewrite K1, K2, K3. repeat split; reflexivity. }
  destruct (id =? PayloadARP).
  { unfold parse_arp in H. binv H. bfwd. destruct a5; [discriminate|].
    assert (LEN : (28 <= len a4)%nat).
    { destruct (Nat.ltb (len a4) 28) eqn:L; [inversion E5|apply Nat.ltb_ge in L; exact L]. }
    pose proof (payload_view_wf _ _ _ Hwf E4) as W4.
    destruct (bytes_at_ok a4 8 14 W4) as (am & EA); [lia|lia|].
    binv H. bfwd.
    unfold l3_agrees. cbn [l_key l_src l_ip l_class]. inversion H; subst. cbn [f_host Parse.f_src Parse.a_mac set_id] in *.
    destruct (gate4 pc a0 a5) eqn:G.
    - rewrite EA in E7. cbn [bind] in E7. inversion E7; subst. repeat split; try reflexivity; intros [X|X]; discriminate.
    - inversion E7; subst. repeat split; try reflexivity; intros [X|X]; discriminate. }
  unfold parse_leaf in H. binv H. inversion H; subst. unfold l3_other, l3_agrees. simpl. repeat split; try reflexivity; intros [X|X]; discriminate.
Qed.

(* ------------------------------------------------------------------ *)
(* the configuration gate of Parse (on bytes) is the creation predicate of the table model (on the summary) *)

Lemma bytes_at_facts p a b x : bytes_ok (arr p) -> bytes_at p a b = Ok x -> List.length x = (b - a)%nat /\ bytes_ok x.
Proof.
  unfold bytes_at, sl. intros B H. destruct (Nat.leb a b && Nat.leb b (cap p)) eqn:C; cbn [bind] in H; [|discriminate].
  inversion H; subst. apply andb_prop in C. destruct C as [C1 C2]. apply Nat.leb_le in C1. apply Nat.leb_le in C2.
  unfold view, cap in *. cbn [arr len]. split.
  - rewrite firstn_length, skipn_length. lia.
  - apply bytes_ok_firstn. apply bytes_ok_skipn. exact B.
Qed.

Lemma payload_view_bytes s f p : bytes_ok (arr s) -> payload_view s f = Ok p -> bytes_ok (arr p).
Proof.
  unfold payload_view, frame_payload, acc_at. intros B H.
  destruct (Nat.eqb (f_offP f) 0).
  - cbn [bind] in H. inversion H; subst. constructor.
  - unfold slfrom in H. destruct (Nat.leb (f_offP f) (len s)); cbn [bind] in H; [|discriminate].
    inversion H; subst. cbn [arr]. apply bytes_ok_skipn. exact B.
Qed.

Record cfg_ok (c : Tables.cfg) : Prop := {
  ok_own : own_mac c < 2 ^ 48; ok_rt : rt_mac c < 2 ^ 48; ok_base : lan_base c < 2 ^ 32; ok_bits : lan_bits c <= 32 }.

Definition key_num (mk : bytes * bytes) : mac * ip := (nob (fst mk), ip_of (snd mk)).

Lemma gate4_glue c smac sip : cfg_ok c ->
  List.length smac = 6%nat -> bytes_ok smac -> List.length sip = 4%nat -> bytes_ok sip ->
  gate4 (pcfg_of c) smac sip = negb (nob smac =? own_mac c) && Tables.lan_contains (lan_base c) (lan_bits c) (IP4 (nob sip)).
Proof.
  intros [O R Bs Bt] L1 B1 L2 B2. unfold gate4. cbn [c_hostmac pcfg_of].
  rewrite (mac_eq_glue smac (own_mac c) L1 B1 O). rewrite (lan_glue c sip Bt Bs L2 B2). reflexivity.
Qed.

Lemma gate6_glue c smac sip : cfg_ok c ->
  List.length smac = 6%nat -> bytes_ok smac -> List.length sip = 16%nat -> bytes_ok sip ->
  gate6 (pcfg_of c) smac sip =
  negb (nob smac =? own_mac c) && (Tables.is_llu (IP6 (nob sip)) || (Tables.is_gua (IP6 (nob sip)) && negb (nob smac =? rt_mac c))).
Proof.
  intros [O R Bs Bt] L1 B1 L2 B2. unfold gate6. cbn [c_hostmac c_routermac pcfg_of].
  rewrite (mac_eq_glue smac (own_mac c) L1 B1 O), (mac_eq_glue smac (rt_mac c) L1 B1 R).
  rewrite (llu_glue sip L2 B2), (gua_glue sip L2 B2). reflexivity.
Qed.

Lemma ip_of_4 l : List.length l = 4%nat -> ip_of l = IP4 (nob l).
Proof. intros L. unfold ip_of. rewrite L. reflexivity. Qed.
Lemma ip_of_16 l : List.length l = 16%nat -> ip_of l = IP6 (nob l).
Proof. intros L. unfold ip_of. rewrite L. reflexivity. Qed.

(* the creation predicate of the table model, evaluated on the summary of the bytes, is the key Parse hands over *)
Theorem key_event c s i :
  cfg_ok c -> bytes_ok (arr s) -> l3_of (pcfg_of c) s = Ok i ->
  host_event c (summary_of (pcfg_of c) s) = option_map key_num (l_key i).
Proof.
  intros OK B H. unfold summary_of. rewrite H. unfold l3_of in H. binv H.
  destruct (bytes_at_facts _ _ _ _ B E0) as (LS & BS). change (12 - 6)%nat with 6%nat in LS.
  match type of H with (if ?c then _ else _) = _ => destruct c eqn:C1; [discriminate|] end.
  assert (OTHER : forall smac, l3_other smac = Ok i ->
            host_event c {| Tables.f_src := nob (l_src i); f_class := match l_class i, ip_of (l_ip i) with
                 | FIP4, IP4 _ => FIP4 | FARP, IP4 _ => FARP | FIP6, IP6 _ => FIP6 | FOther, _ => FOther | _, _ => FInvalid end;
               f_ip := ip_of (l_ip i); f_arpmac := nob (l_arpmac i); f_dhcp4 := dhcp4_of (pcfg_of c) s |} = option_map key_num (l_key i)).
  { intros smac X. unfold l3_other in X. inversion X; subst. unfold host_event. cbn.
    match goal with |- (if ?b then _ else _) = _ => destruct b end; reflexivity. }
  match type of H with (if ?c then _ else _) = _ => destruct c eqn:C2 end; [eapply OTHER; eauto|].
  binv H.
  match type of H with (if ?c then _ else _) = _ => destruct c eqn:C3 end; [eapply OTHER; eauto|].
  destruct (lookup_row _ ethertype_rows) as [id|]; [|eapply OTHER; eauto].
  assert (UNI : mac_unicast (nob a0) = true).
  { rewrite (unicast_glue a0 LS BS). apply negb_false_iff in C2. exact C2. }
  destruct (id =? PayloadIP4).
  { binv H. inversion H; subst. clear H.
    pose proof (payload_view_bytes _ _ _ B E4) as BP.
    destruct (bytes_at_facts _ _ _ _ BP E8) as (LI & BI). change (16 - 12)%nat with 4%nat in LI.
    cbn [l_src l_class l_ip l_arpmac l_key]. rewrite (ip_of_4 _ LI).
    unfold host_event. cbn [Tables.f_src f_class f_ip]. rewrite UNI. cbn [negb].
    rewrite (gate4_glue c a0 a8 OK LS BS LI BI).
    destruct (negb (nob a0 =? own_mac c) && Tables.lan_contains (lan_base c) (lan_bits c) (IP4 (nob a8))); cbn [option_map];
      [unfold key_num; cbn [fst snd]; rewrite (ip_of_4 _ LI)|]; reflexivity. }
  destruct (id =? PayloadIP6).
  { binv H. inversion H; subst. clear H.
    pose proof (payload_view_bytes _ _ _ B E4) as BP.
    destruct (bytes_at_facts _ _ _ _ BP E7) as (LI & BI). change (24 - 8)%nat with 16%nat in LI.
    cbn [l_src l_class l_ip l_arpmac l_key]. rewrite (ip_of_16 _ LI).
    unfold host_event. cbn [Tables.f_src f_class f_ip]. rewrite UNI. cbn [negb].
    rewrite (gate6_glue c a0 a7 OK LS BS LI BI).
    match goal with |- (if ?g then _ else _) = _ => destruct g end; cbn [option_map];
      [unfold key_num; cbn [fst snd]; rewrite (ip_of_16 _ LI)|]; reflexivity. }
  destruct (id =? PayloadARP); [|eapply OTHER; eauto].
  binv H.
  match type of H with (if ?b then _ else _) = _ => destruct b; [discriminate|] end.
  binv H. inversion H; subst. clear H.
  match goal with EP : payload_view s _ = Ok ?arp, ES : bytes_at ?arp 14 18 = Ok ?sip, EA : bytes_at ?arp 8 14 = Ok ?am |- _ =>
    pose proof (payload_view_bytes _ _ _ B EP) as BP;
    destruct (bytes_at_facts _ _ _ _ BP ES) as (LI & BI); change (18 - 14)%nat with 4%nat in LI;
    destruct (bytes_at_facts _ _ _ _ BP EA) as (LA & BA); change (14 - 8)%nat with 6%nat in LA;
    cbn [l_src l_class l_ip l_arpmac l_key]; rewrite (ip_of_4 _ LI);
    unfold host_event; cbn [Tables.f_src f_class f_ip f_arpmac]; rewrite UNI; cbn [negb];
    rewrite (gate4_glue c a0 sip OK LS BS LI BI);
    destruct (negb (nob a0 =? own_mac c) && Tables.lan_contains (lan_base c) (lan_bits c) (IP4 (nob sip))); cbn [option_map];
      [unfold key_num; cbn [fst snd]; rewrite (ip_of_4 _ LI)|]; reflexivity
  end.
Qed.

(* ------------------------------------------------------------------ *)
(* (c) the creation rule in terms of the bytes: for every frame Session.Parse accepts, the reference decoder of
   Spec/RFC.v reads the same frame, the table model sees its source, and the host key Parse hands to the host
   table is exactly what the creation rule of the property text (Spec/HostTracking.v, [ref_event]) yields *)
From PV Require Import Spec.RFC Proofs.ParseRef Proofs.ParseRefEq.

Theorem creation_rule_bytes c s f :
  cfg_ok c -> wf s -> bytes_ok (arr s) -> N.of_nat (len s) < 65536 ->
  parse (pcfg_of c) s = Ok f ->
  ref_decode (view s) = ROk (proj f) /\
  option_map key_num (f_host f) = ref_event c (summary_of (pcfg_of c) s) /\
  Tables.f_src (summary_of (pcfg_of c) s) = nob (r_smac (proj f)) /\
  (f_class (summary_of (pcfg_of c) s) = FIP4 \/ f_class (summary_of (pcfg_of c) s) = FIP6 ->
   f_ip (summary_of (pcfg_of c) s) = ip_of (r_sip (proj f))).
Proof.
  intros OK W B LN P.
  assert (BV : bytes_ok (view s)) by (unfold view; apply bytes_ok_firstn; exact B).
  pose proof (parse_eq_ref_current (pcfg_of c) s eq_refl W BV LN) as AG. rewrite P in AG. cbn [agrees] in AG.
  pose proof (parse_l3_agree (pcfg_of c) s f W P) as L3.
  destruct (l3_of (pcfg_of c) s) as [i| | |] eqn:EL; try contradiction. destruct L3 as (K1 & K2 & K3).
  split; [exact AG|]. split.
  - rewrite <- K1. rewrite <- (key_event c s i OK B EL). apply event_agree. apply summary_wf.
  - unfold summary_of. rewrite EL. cbn [Tables.f_src f_class f_ip proj r_smac r_sip]. split; [rewrite K2; reflexivity|].
    intros CL. rewrite <- K3; [reflexivity|].
    destruct (l_class i), (ip_of (l_ip i)); destruct CL as [X|X]; try discriminate; auto.
Qed.

(* Parse touches the host table before it validates layer 4: a frame with a good IPv4 header and a 4-byte UDP
   header is rejected (invalid udp len) and still creates its host; the reference decoder rejects it as well.
   The table model follows the code (the text's creation rule speaks of the IPv4 source, not of layer 4). *)
Definition ex_l4_short : bytes :=
  [0;102;102;102;102;102; 2;0;0;0;0;3; 8;0; 69;0;0;24; 0;0;0;0; 64;17;249;114; 192;168;0;7; 192;168;0;11; 1;2;3;4].

Lemma ex_l4_rejected_but_created :
  parse (pcfg_of std_cfg) (of_bytes ex_l4_short) = Err EFrameLen /\
  (exists e, ref_decode ex_l4_short = RErr e) /\
  host_event std_cfg (summary_of (pcfg_of std_cfg) (of_bytes ex_l4_short)) = Some (2199023255555, IP4 3232235527).
Proof. split; [vm_compute; reflexivity|]. split; [eexists; vm_compute; reflexivity|vm_compute; reflexivity]. Qed.
