(* Proofs/SendUdp.v — the UDP send paths (dhcp4_spoofer send.go/client.go, dns_naming
   mdns.go/nbns.go/ssdp.go): for every payload that fits the buffer the frame is a
   well-formed Ethernet/IPv4/UDP (IPv6/UDP) datagram carrying exactly that payload
   between the requested addresses and ports. *)
From PV Require Import Proofs.SendBase Model.Send Model.SendUdp Spec.SendRefUdp.
Open Scope N_scope.
Local Arguments N.of_nat : simpl never.

Lemma firstn_blit0 (p rest : bytes) : (length p <= length rest)%nat ->
  firstn (length p) (blit 0 (firstn (length p) p) rest) = p.
Proof.
  rewrite firstn_all. revert rest. induction p as [|x p IH]; intros rest H; [reflexivity|].
  destruct rest as [|y rest]; [simpl in H; lia|]. simpl. f_equal. apply IH. simpl in H. lia.
Qed.

Ltac len_conds := repeat match goal with |- context [w16 ?l ?k =? N.of_nat ?n] =>
    replace (w16 l k =? N.of_nat n) with true
      by (symmetry; apply N.eqb_eq; unfold w16, be16, hi8, lo8, u16; cbn [nth]; lia) end.

(* Ethernet/IPv4/UDP encapsulation, any payload up to the buffer size, any previous buffer content *)
Lemma udp4_wf smac dmac ttl sip dip sp dp p junk :
  mac_ok smac -> mac_ok dmac -> ip4_ok sip -> ip4_ok dip -> sp < 65536 -> dp < 65536 ->
  0 < ttl < 256 -> bytes_ok p -> (length p <= 1480)%nat -> length junk = EthMaxSize ->
  exists fr, udp4_send smac dmac ttl sip dip sp dp p junk = Ok [fr] /\
    wf_udp4 smac dmac sip dip sp dp (beq p) false fr = true.
Proof.
  intros H1 H2 H3 H4 Hsp Hdp Httl Hp Hlen HJ.
  assert (HJ' : (42 <= length junk)%nat) by (rewrite HJ; unfold EthMaxSize; lia).
  destruct (split_at 42 junk HJ') as (j & rest & -> & Hj).
  assert (Hrest : (length p <= length rest)%nat) by (rewrite app_length in HJ; unfold EthMaxSize in HJ; lia).
  clear HJ HJ'.
  unfold udp4_send, udp_append_payload.
  replace (Nat.ltb (EthMaxSize - 34 - 8) (length p)) with false
    by (symmetry; apply Nat.ltb_ge; unfold EthMaxSize; lia).
  explode_ok smac H1. explode_ok dmac H2.
  destruct H3 as [H3 H3k]. destruct H4 as [H4 H4k].
  unfold enc_ip4, is4. rewrite H3, H4. cbn [Nat.eqb].
  explode sip H3. explode dip H4. inv_ok H3k. inv_ok H4k.
  explode j Hj.
  eexists. split; [cbn; rewrite firstn_blit0 by assumption; reflexivity|].
  abs_cks. unfold wf_udp4. cbn. len_conds. cbn. eqbs.
  repeat (apply andb_true_intro; split).
  - apply negb_true_iff, N.eqb_neq. unfold u8. lia.
  - w16_ok.
  - w16_ok.
  - apply beq_refl.
  - ip4_cks.
  - unfold udp4_cks_ok. cbn. reflexivity.
  - reflexivity.
Qed.

(* the payload predicate and the destination-MAC rule can be strengthened afterwards *)
Local Opaque unfragmented.
Lemma wf_udp4_weaken (h dm sip dip : bytes) (sp dp : N) (p : bytes) (ok : bytes -> bool) (own : bool) (fr : bytes) :
  wf_udp4 h dm sip dip sp dp (beq p) false fr = true ->
  ok p = true -> (if own then dst4_mac_ok dm dip else true) = true ->
  wf_udp4 h dm sip dip sp dp ok own fr = true.
Proof.
  unfold wf_udp4. destruct (ref_decode fr) as [[d s et l3]|]; [|discriminate].
  destruct l3 as [| tos id ff ttl proto a b l4 |]; try discriminate.
  destruct l4 as [| p1 p2 ck pl |]; try discriminate.
  intros H Hok Hown.
  repeat (apply andb_true_iff in H; destruct H as [H ?]).
  repeat match goal with X : beq _ _ = true |- _ => apply beq_eq in X end. subst.
  repeat (apply andb_true_intro; split); auto using beq_refl.
  all: try (destruct own; auto).
Qed.
Local Transparent unfragmented.

(* ---------------------------------------------------------------- *)
(* dhcp4.go:303 reply of ProcessPacket through send.go:11 sendDHCP4Packet: host:67 -> client:68,
   to the client's MAC/IP or to the broadcast addresses *)
Lemma dhcp_reply_wf c dm di p junk :
  mac_ok (host_mac c) -> ip4_ok (host_ip4 c) -> mac_ok dm -> ip4_ok di -> dst4_mac_ok dm di = true ->
  bytes_ok p -> (length p <= 1480)%nat -> length junk = EthMaxSize ->
  exists fr, send_dhcp4_reply c (dm, di) p junk = Ok [fr] /\
    wf_udp4 (host_mac c) dm (host_ip4 c) di 67 68 (beq p) true fr = true.
Proof.
  intros H1 H2 H3 H4 Hd Hp Hl HJ. unfold send_dhcp4_reply, send_dhcp4_packet. cbn [a_mac a_ip fst snd].
  destruct (udp4_wf (host_mac c) dm 50 (host_ip4 c) di 67 68 p junk) as (fr & E & W); auto; try lia.
  exists fr. split; [exact E|]. apply (wf_udp4_weaken _ _ _ _ _ _ p); auto using beq_refl.
Qed.

(* a payload that does not fit the buffer is refused (ErrPayloadTooBig), nothing is sent *)
Lemma udp4_too_big smac dmac ttl sip dip sp dp p junk :
  (1480 < length p)%nat -> udp4_send smac dmac ttl sip dip sp dp p junk = Ok [].
Proof.
  intros H. unfold udp4_send, udp_append_payload.
  replace (Nat.ltb (EthMaxSize - 34 - 8) (length p)) with true; [reflexivity|].
  symmetry. apply Nat.ltb_lt. unfold EthMaxSize. lia.
Qed.

(* client.go:103 sendDeclineReleasePacket: the DHCP message d built by EncodeDHCP4 is carried
   unchanged from host:68 to router:67 *)
Lemma decline_release_carried c ch ci xid opts junk1 junk2 d :
  mac_ok (host_mac c) -> ip4_ok (host_ip4 c) -> mac_ok (router_mac c) -> ip4_ok (router_ip4 c) ->
  enc_dhcp4 junk1 1 ch ci ipv4zero (Some xid) false opts = Some d ->
  bytes_ok d -> (length d <= 1480)%nat -> length junk2 = EthMaxSize ->
  exists fr, send_decline_release c ch ci xid opts junk1 junk2 = Ok [fr] /\
    wf_udp4 (host_mac c) (router_mac c) (host_ip4 c) (router_ip4 c) 68 67 (beq d) false fr = true.
Proof.
  intros H1 H2 H3 H4 E Hd Hl HJ. unfold send_decline_release. rewrite E.
  unfold send_dhcp4_packet. cbn [a_mac a_ip fst snd].
  apply udp4_wf; auto; lia.
Qed.

(* ---------------------------------------------------------------- *)
(* nbns.go:141 sendNBNS (Ethernet source = NIC MAC since fix 0948ecc): any payload, any caller addresses *)
Lemma nbns_wf c sm si dm di p junk :
  mac_ok (host_mac c) -> ip4_ok si -> mac_ok dm -> ip4_ok di ->
  bytes_ok p -> (length p <= 1480)%nat -> length junk = EthMaxSize ->
  exists fr, send_nbns c (sm, si) (dm, di) p junk = Ok [fr] /\
    wf_udp4 (host_mac c) dm si di 137 137 (beq p) false fr = true.
Proof.
  intros. unfold send_nbns. cbn [a_mac a_ip fst snd]. apply udp4_wf; auto; lia.
Qed.

Definition cfg1 : cfg :=
  mkCfg [0;85;85;85;85;85] [192;168;0;129] [254;128;0;0;0;0;0;0;0;0;0;0;0;1;1;41] [0;102;102;102;102;102] [192;168;0;11] 1500.

(* ---------------------------------------------------------------- *)
(* ssdp.go:199 SendSSDPSearch (CRLF text since f7b029e, multicast MAC since df36fdf) *)
Lemma ssdp_wf c junk :
  mac_ok (host_mac c) -> ip4_ok (host_ip4 c) -> length junk = EthMaxSize ->
  exists fr, send_ssdp_search c junk = Ok [fr] /\
    wf_udp4 (host_mac c) (mac_of_mcast4 [239;255;255;250]) (host_ip4 c) [239;255;255;250] 1900 1900 wf_msearch true fr = true.
Proof.
  intros H1 H2 HJ. unfold send_ssdp_search. cbn [a_mac a_ip fst snd ssdp_ip4_addr].
  destruct (udp4_wf (host_mac c) [1; 0; 94; 127; 255; 250] 255 (host_ip4 c) [239; 255; 255; 250] 1900 1900 ascii_msearch junk)
    as (fr & E & W); auto; try lia.
  all: try (split; [reflexivity|oks]).
  all: try (unfold ascii_msearch, crlf; cbn [app]; oks).
  all: try (match goal with |- (_ <= _)%nat => vm_compute; lia end).
  exists fr. split; [exact E|]. apply (wf_udp4_weaken _ _ _ _ _ _ ascii_msearch); auto.
Qed.

(* ---------------------------------------------------------------- *)
(* mdns.go:118 sendMDNS, IPv4 branch (SendMDNSQuery / SendLLMNRQuery / SendSleepProxyResponse):
   the buffer is freshly allocated; the DNS message buf is carried unchanged *)
Lemma mdns4_wf c buf sm si dm di port :
  mac_ok (host_mac c) -> ip4_ok si -> mac_ok dm -> ip4_ok di -> port < 65536 ->
  bytes_ok buf -> (length buf <= 1480)%nat ->
  exists fr, send_mdns c buf (sm, si) (dm, di) port = Ok [fr] /\
    wf_udp4 (host_mac c) dm si di port port (beq buf) false fr = true.
Proof.
  intros H1 H2 H3 H4 Hp Hb Hl. unfold send_mdns. cbn [a_mac a_ip fst snd].
  unfold is4 at 1. rewrite (proj1 H2). cbn [Nat.eqb].
  apply udp4_wf; auto; try lia.
  all: try (unfold zero_buf; apply repeat_length).
Qed.

Lemma dns_query_ok id fl nm qt qc : id < 65536 -> fl < 65536 -> qt < 65536 -> qc < 65536 -> bytes_ok nm ->
  bytes_ok (dns_query id fl nm qt qc).
Proof.
  intros. unfold dns_query. apply bytes_ok_app. split; [oks|]. apply bytes_ok_app. split; [assumption|oks].
Qed.

(* SendMDNSQuery / SendLLMNRQuery: for a name dnsmessage accepts, the question bytes dns_query builds reach
   224.0.0.251:5353 / 224.0.0.252:5355 in a frame addressed to the group's multicast MAC; any other name is
   refused (Proofs/SendDns.v relates the bytes to the name) *)
Lemma mdns_query_frame c name :
  mac_ok (host_mac c) -> ip4_ok (host_ip4 c) -> dns_pack_ok name = true ->
  bytes_ok (dns_wire_name name) -> (length (dns_wire_name name) <= 1400)%nat ->
  exists fr, send_mdns_query c name = Ok [fr] /\
    wf_udp4 (host_mac c) (mac_of_mcast4 [224;0;0;251]) (host_ip4 c) [224;0;0;251] 5353 5353
      (beq (dns_query 0 0 (dns_wire_name name) 255 255)) true fr = true.
Proof.
  intros H1 H2 Hpk Hn Hl. unfold send_mdns_query. rewrite Hpk.
  destruct (mdns4_wf c (dns_query 0 0 (dns_wire_name name) 255 255) (host_mac c) (host_ip4 c) (a_mac mdns_ip4_addr) [224;0;0;251] 5353)
    as (fr & E & W); auto; try lia.
  all: try (split; [reflexivity|oks]).
  - apply dns_query_ok; auto; lia.
  - unfold dns_query. rewrite !app_length. cbn [length]. lia.
  - exists fr. split; [exact E|]. apply (wf_udp4_weaken _ _ _ _ _ _ (dns_query 0 0 (dns_wire_name name) 255 255)); auto using beq_refl.
Qed.

Lemma llmnr_query_frame c name :
  mac_ok (host_mac c) -> ip4_ok (host_ip4 c) -> dns_pack_ok name = true ->
  bytes_ok (dns_wire_name name) -> (length (dns_wire_name name) <= 1400)%nat ->
  exists fr, send_llmnr_query c name = Ok [fr] /\
    wf_udp4 (host_mac c) (mac_of_mcast4 [224;0;0;252]) (host_ip4 c) [224;0;0;252] 5355 5355
      (beq (dns_query 0 0 (dns_wire_name name) 12 255)) true fr = true.
Proof.
  intros H1 H2 Hpk Hn Hl. unfold send_llmnr_query. rewrite Hpk.
  destruct (mdns4_wf c (dns_query 0 0 (dns_wire_name name) 12 255) (host_mac c) (host_ip4 c) (a_mac llmnr_ip4_addr) [224;0;0;252] 5355)
    as (fr & E & W); auto; try lia.
  all: try (split; [reflexivity|oks]).
  - apply dns_query_ok; auto; lia.
  - unfold dns_query. rewrite !app_length. cbn [length]. lia.
  - exists fr. split; [exact E|]. apply (wf_udp4_weaken _ _ _ _ _ _ (dns_query 0 0 (dns_wire_name name) 12 255)); auto using beq_refl.
Qed.

(* a name dnsmessage does not accept (empty, no final dot, empty or > 63-byte label, > 254 bytes): nothing is sent *)
Lemma mdns_query_refuses c name : dns_pack_ok name = false -> send_mdns_query c name = Ok [].
Proof. unfold send_mdns_query. intros ->. reflexivity. Qed.
Lemma llmnr_query_refuses c name : dns_pack_ok name = false -> send_llmnr_query c name = Ok [].
Proof. unfold send_llmnr_query. intros ->. reflexivity. Qed.
