(* Proofs/DHCPRefuted.v — concrete histories evaluated by vm_compute.  The refutations of
   C11/C12 on the unchanged code disappeared with the repairs recorded in FIXLOG.md
   (7baf630 c9f204c d6f86b5, and 94e2701 for the option order); their witnesses stay in
   corpus/C11, corpus/C12 as regression cases.  What remains here are the non-vacuity
   examples of the theorems. *)
From PV Require Import Base.Prelude Model.DHCP Model.DHCPShow Spec.DHCP Spec.DHCPCheck Proofs.DHCP Proofs.DHCPInv Proofs.DHCPReply.
Open Scope N_scope.

(* home 192.168.0.0/28, host .9, router .1, netfilter .8/29, secondary mode *)
Definition wcfg : cfg :=
  fresh_cfg 2 3232235529 366503875925 3232235521 439804651110 3232235520 28 3232235529 29 134743044.
Definition c1 : mac := 2199023255553.
Definition c2 : mac := 2199023255554.
Definition c3 : mac := 2199023255555.
Definition dmsg0 (ch : mac) (xid : N) (req sid : option ip) : dmsg := mkMsg ch xid 0 None req sid false 0 [].
Definition ipA : ip := 3232235525.   (* 192.168.0.5 *)
Definition ipBC : ip := 3232235535.  (* 192.168.0.15: broadcast of the /28 *)
Definition us : option ip := Some 3232235529.

Definition w12_unknown : list op := [ORequest 0 (dmsg0 c3 0 (Some ipA) us)].
Definition w12_prl : list op := [ODiscover 0 (mkMsg c1 1 0 None None None false 0 [3; 1; 6])].

Ltac last_step c w :=
  let E := fresh "E" in let t := fresh "t" in let rest := fresh "rest" in
  destruct (rev (trace c (init c) (with_ch0 w))) as [|t rest] eqn:E; [vm_compute in E; discriminate|];
  exists t;
  assert (Hin : In t (trace c (init c) (with_ch0 w))) by (apply in_rev; rewrite E; left; reflexivity);
  vm_compute in E; inversion E; subst t; clear E.

(* ---------------------------------------------------------------- *)
(* non-vacuity: histories in which OFFERs and ACKs do occur (home /28, netfilter /29, two
   clients, the second one captured and therefore served from the netfilter pool) *)
Definition wlive : list op :=
  [ODiscover 0 (dmsg0 c1 1 None None); ORequest 0 (dmsg0 c1 1 (Some 3232235522) us);
   OCapture c2; ODiscover 0 (dmsg0 c2 2 (Some 3232235532) None); ORequest 0 (dmsg0 c2 2 (Some 3232235532) us);
   ORequest 0 (mkMsg c1 7 3232235522 None None None false 3232235522 [])].
Lemma live_example :
  map (fun t => match t_reply t with Some r => (r_type r, r_yi r) | None => (RNak, 0) end)
      (trace wcfg (init wcfg) (with_ch0 wlive))
  = [(ROffer, 3232235522); (RAck, 3232235522); (RNak, 0); (ROffer, 3232235532); (RAck, 3232235532); (RAck, 3232235522)].
Proof. vm_compute. reflexivity. Qed.

(* a REQUEST that cannot be honoured (unknown client, our server id) is answered with NAK *)
Lemma nak_example :
  let t := hd (mkT (init wcfg) ch0 (OTick 0) None (init wcfg)) (trace wcfg (init wcfg) (with_ch0 w12_unknown)) in
  cannot_honour wcfg (t_pre t) (dmsg0 c3 0 (Some ipA) us) 0 = true /\
  option_map r_type (t_reply t) = Some RNak.
Proof. vm_compute. split; reflexivity. Qed.

(* ---------------------------------------------------------------- *)
(* C12, expired lease (reading of the property text: expired = DHCPExpiry before the handler's clock):
   a client acquires 192.168.0.2, the lease's expiry is put 30 s into the past (not yet freed by
   MinuteTicker), its INIT-REBOOT request for the address is NAKed (it was ACKed before fix 8b460ec) *)
Definition ipB : ip := 3232235522.   (* 192.168.0.2: first pool address *)
Definition wexp : list op :=
  [ODiscover 0 (dmsg0 c1 1 None None); ORequest 0 (dmsg0 c1 1 (Some ipB) us);
   OSetExp (281474976710656 + c1) (-30); ORequest 0 (dmsg0 c1 1 (Some ipB) None)].
Lemma expired_example :
  map (fun t => (lease_expired (t_pre t) (dmsg0 c1 1 (Some ipB) None) (op_now (t_op t)), option_map r_type (t_reply t)))
      (trace wcfg (init wcfg) (with_ch0 wexp))
  = [(false, Some ROffer); (false, Some RAck); (false, None); (true, Some RNak)].
Proof. vm_compute. reflexivity. Qed.

Lemma wcfg_ok : cfg_ok wcfg.
Proof. split; [apply (sub_ok_wanted _)|reflexivity]. Qed.
