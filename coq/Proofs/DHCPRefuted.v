(* Proofs/DHCPRefuted.v — the faithful model of the UNCHANGED code violates C11:
   concrete histories (the ones of corpus/C11/witnesses.txt, replayed on the real
   code by the harness) evaluated by vm_compute. *)
From PV Require Import Base.Prelude Model.DHCP Model.DHCPShow Spec.DHCP Spec.DHCPCheck Proofs.DHCP.
Open Scope N_scope.

(* home 192.168.0.0/28, host .9, router .1, netfilter .8/29, secondary mode *)
Definition wcfg : cfg :=
  mkCfg 2 3232235529 366503875925 3232235521 439804651110 3232235520 28 3232235529 29 134743044.
Definition c1 : mac := 2199023255553.
Definition c2 : mac := 2199023255554.
Definition c3 : mac := 2199023255555.
Definition dmsg0 (ch : mac) (xid : N) (req sid : option ip) : dmsg := mkMsg ch xid 0 None req sid false 0 [].
Definition ipA : ip := 3232235525.   (* 192.168.0.5 *)
Definition ipBC : ip := 3232235535.  (* 192.168.0.15: broadcast of the /28 *)
Definition us : option ip := Some 3232235529.

(* W3: two clients DISCOVER the same requested address, both SELECT it *)
Definition w3 : list op :=
  [ODiscover 0 (dmsg0 c1 1 (Some ipA) None); ODiscover 0 (dmsg0 c2 2 (Some ipA) None);
   ORequest 0 (dmsg0 c1 1 (Some ipA) us); ORequest 0 (dmsg0 c2 2 (Some ipA) us)].
(* W2: the subnet broadcast address is requested, offered and acknowledged *)
Definition w2 : list op :=
  [ODiscover 0 (dmsg0 c1 1 (Some ipBC) None); ORequest 0 (dmsg0 c1 1 (Some ipBC) us)].
(* W4: an offer retained across MinuteTicker is repeated after another client was ACKed the address *)
Definition ipB : ip := 3232235522.   (* 192.168.0.2: first pool address *)
Definition w4 : list op :=
  [ODiscover 0 (dmsg0 c1 1 None None); OTick 0; ODiscover 0 (dmsg0 c2 2 (Some ipB) None);
   ORequest 0 (dmsg0 c2 2 (Some ipB) us); ODiscover 0 (dmsg0 c1 3 None None)].

Lemma uniq_refuted : exists c h, ~ Uniq (tbl (fst (run c (init c) h))).
Proof.
  exists wcfg, (with_ch0 w3). intro H. apply uniqb_spec in H. vm_compute in H. discriminate.
Qed.

(* an OFFER names an address that is acknowledged to another client id at that step *)
Lemma no_offer_of_acked_refuted : exists c h t m r,
  In t (trace c (init c) h) /\ op_msg (t_op t) = Some m /\ t_reply t = Some r /\
  r_type r = ROffer /\ acked_to_other (tbl (t_post t)) (getcid m) (r_yi r) = true.
Proof.
  exists wcfg, (with_ch0 w4).
  destruct (rev (trace wcfg (init wcfg) (with_ch0 w4))) as [|t rest] eqn:E; [vm_compute in E; discriminate|].
  exists t, (dmsg0 c1 3 None None).
  assert (Hin : In t (trace wcfg (init wcfg) (with_ch0 w4))).
  { apply in_rev. rewrite E. left. reflexivity. }
  vm_compute in E. inversion E; subst t. clear E.
  eexists. split; [exact Hin|]. repeat split.
Qed.

(* an OFFER and an ACK carry the broadcast address of the client's subnet *)
Lemma reserved_refuted : exists c h t m r,
  In t (trace c (init c) h) /\ op_msg (t_op t) = Some m /\ t_reply t = Some r /\
  r_type r = RAck /\ reserved c (sess_at c (t_pre t) m) (client_net c (t_pre t) m) (m_chaddr m) (r_yi r) = true.
Proof.
  exists wcfg, (with_ch0 w2).
  destruct (rev (trace wcfg (init wcfg) (with_ch0 w2))) as [|t rest] eqn:E; [vm_compute in E; discriminate|].
  exists t, (dmsg0 c1 1 (Some ipBC) us).
  assert (Hin : In t (trace wcfg (init wcfg) (with_ch0 w2))).
  { apply in_rev. rewrite E. left. reflexivity. }
  vm_compute in E. inversion E; subst t. clear E.
  eexists. split; [exact Hin|]. repeat split.
Qed.

(* ---------------------------------------------------------------- *)
(* C12 on the unchanged code *)

Definition ip8888 : ip := 134744072.
Definition w12_free : list op := [ORequest 0 (dmsg0 c3 0 (Some ipA) us)].
Definition w12_req : list op :=
  [ODiscover 0 (dmsg0 c2 2 (Some ip8888) None); ORequest 0 (dmsg0 c2 2 (Some ip8888) us)].
Definition w12_prl : list op := [ODiscover 0 (mkMsg c1 1 0 None None None false 0 [3; 1; 6])].

Ltac last_step c w :=
  let E := fresh "E" in let t := fresh "t" in let rest := fresh "rest" in
  destruct (rev (trace c (init c) (with_ch0 w))) as [|t rest] eqn:E; [vm_compute in E; discriminate|];
  exists t;
  assert (Hin : In t (trace c (init c) (with_ch0 w))) by (apply in_rev; rewrite E; left; reflexivity);
  vm_compute in E; inversion E; subst t; clear E.

(* an ACK carries an address outside the subnet selected by the client's capture state *)
Lemma reply_subnet_refuted : exists c h t m r,
  In t (trace c (init c) h) /\ op_msg (t_op t) = Some m /\ t_reply t = Some r /\
  r_type r = RAck /\ c12_subnet c (t_pre t) m r = false.
Proof.
  exists wcfg, (with_ch0 w12_req). last_step wcfg w12_req.
  exists (dmsg0 c2 2 (Some ip8888) us). eexists. split; [exact Hin|]. repeat split.
Qed.

(* an ACK that confirms neither an offer of this transaction nor a current lease, for a request
   that cannot be honoured (the client is unknown) *)
Lemma ack_matches_refuted : exists c h t m r,
  In t (trace c (init c) h) /\ op_msg (t_op t) = Some m /\ t_reply t = Some r /\
  r_type r = RAck /\ c12_ack_matches (t_pre t) m r = false /\
  cannot_honour c (t_pre t) m = true.
Proof.
  exists wcfg, (with_ch0 w12_free). last_step wcfg w12_free.
  exists (dmsg0 c3 0 (Some ipA) us). eexists. split; [exact Hin|]. repeat split.
Qed.

(* the router option precedes the subnet mask when the client's parameter list says so *)
Lemma mask_first_refuted : exists c h t r,
  In t (trace c (init c) h) /\ t_reply t = Some r /\ r_type r = ROffer /\ c12_mask_first r = false.
Proof.
  exists wcfg, (with_ch0 w12_prl). last_step wcfg w12_prl.
  eexists. split; [exact Hin|]. repeat split.
Qed.
