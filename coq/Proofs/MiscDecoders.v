(* Proofs/MiscDecoders.v — totality of the DHCP4 option walks, the 802.3 gates; LLDP GetPDU and
   the SSDP CACHE-CONTROL parser outside (and failure inside) their known classes. *)
From PV Require Import Base.Prelude Base.Slice Model.MiscDecoders Proofs.HandlersTac.
Open Scope N_scope.

(* ---------------------------------------------------------------- DHCP4 *)
Lemma dhcp_walk_safe strict fuel : forall opts, wf opts -> (len opts < fuel)%nat ->
  safe (dhcp_walk strict fuel opts).
Proof.
  induction fuel as [|f IH]; intros opts Hw Hf; [lia|]. cbn [dhcp_walk].
  destruct (Nat.ltb_spec (len opts) 2); [sdone|].
  rewrite idx_ok by lia. cbn [bind].
  destruct (nth 0 (arr opts) 0 =? 255); [sdone|].
  destruct (nth 0 (arr opts) 0 =? 0).
  - rewrite slfrom_ok by lia. cbn [bind]. apply IH; [slen|cbn [len]; lia].
  - rewrite idx_ok by lia. cbn [bind].
    destruct (Nat.ltb_spec (len opts) (2 + N.to_nat (nth 1 (arr opts) 0))); [destruct strict; sdone|].
    assert (Hs : forall A (k : slice -> res A), safe (k opts) ->
              (forall o, safe (k o)) ->
              safe (bind (if strict then Ok opts else sl opts 2 (2 + N.to_nat (nth 1 (arr opts) 0))) k)).
    { intros A k H1 H2. destruct strict; cbn [bind]; [exact H1|].
      rewrite sl_ok by (unfold wf in Hw; lia). cbn [bind]. apply H2. }
    destruct strict; cbn [bind].
    + rewrite slfrom_ok by lia. cbn [bind]. apply IH; [slen|cbn [len]; lia].
    + rewrite sl_ok by (unfold wf in Hw; lia). cbn [bind].
      rewrite slfrom_ok by lia. cbn [bind]. apply IH; [slen|cbn [len]; lia].
Qed.

Lemma dhcp_options_ok p : wf p -> exists o, dhcp_options p = Ok o /\ wf o /\ (len o <= len p)%nat.
Proof.
  intros Hw. unfold dhcp_options. destruct (Nat.ltb_spec 240 (len p)).
  - rewrite slfrom_ok by lia. eexists; split; [reflexivity|]. split; [slen|cbn [len]; lia].
  - eexists; split; [reflexivity|]. split; [unfold wf, cap; cbn; lia|cbn [len]; lia].
Qed.

Theorem dhcp_parse_options_total p : wf p ->
  forall fuel, (len p < fuel)%nat -> safe (dhcp_parse_options fuel p).
Proof.
  intros Hw fuel Hf. unfold dhcp_parse_options.
  destruct (dhcp_options_ok p Hw) as (o & -> & Hwo & Hl). cbn [bind].
  apply dhcp_walk_safe; [assumption|lia].
Qed.

Theorem dhcp_is_valid_total p : wf p ->
  forall fuel, (len p < fuel)%nat -> safe (dhcp_is_valid fuel p).
Proof.
  intros Hw fuel Hf. unfold dhcp_is_valid.
  destruct (Nat.ltb_spec (len p) 240); [sdone|].
  rewrite idx_ok by lia. cbn [bind]. sif; [sdone|].
  rewrite idx_ok by lia. cbn [bind]. sif; [sdone|].
  destruct (dhcp_options_ok p Hw) as (o & -> & Hwo & Hl). cbn [bind].
  sif; [sdone|]. apply dhcp_walk_safe; [assumption|lia].
Qed.

Definition dhcp_sample : bytes :=
  [1; 1; 6; 0] ++ repeat 0 232 ++ [99; 130; 83; 99] ++ [53; 1; 1; 0; 12; 2; 104; 105; 55; 3; 1; 3; 6; 255].
Example dhcp_nonvacuous :
  bytes_ok dhcp_sample /\ dhcp_is_valid 300 (of_bytes dhcp_sample) = Ok tt /\
  dhcp_parse_options 300 (of_bytes dhcp_sample) = Ok tt.
Proof. split; [apply bytes_okb_spec; vm_compute; reflexivity|]. split; vm_compute; reflexivity. Qed.

(* ---------------------------------------------------------------- 802.3 *)
Theorem process_8023_total payload : wf payload -> safe (process_8023 payload).
Proof.
  intros Hw. unfold process_8023.
  destruct (Nat.ltb_spec (len payload) 3); [sdone|].
  repeat (rewrite idx_ok by lia; cbn [bind]).
  sif; [sdone|]. sif; [|sdone].
  destruct (Nat.ltb_spec (len payload) 9); [sdone|].
  repeat (rewrite sl_ok by (unfold wf in Hw; lia); cbn [bind]). sdone.
Qed.

(* ---------------------------------------------------------------- LLDP *)
Lemma lldp_get_pdu_safe k : forall p pdu pos fuel, wf p -> (len p - pos <= k)%nat -> (k < fuel)%nat ->
  safe (lldp_get_pdu fuel p pdu pos).
Proof.
  induction k as [|k IH]; intros p pdu pos fuel Hw Hk Hf.
  - destruct fuel as [|f]; [lia|]. cbn [lldp_get_pdu]. unfold lldp_get_tlv.
    destruct (Nat.leb_spec (len p) (pos + 2)); [cbn [bind]; sdone|lia].
  - destruct fuel as [|f]; [lia|]. cbn [lldp_get_pdu]. unfold lldp_get_tlv.
    destruct (Nat.leb_spec (len p) (pos + 2)); [cbn [bind]; sdone|].
    repeat (rewrite idx_ok by lia; cbn [bind]).
    set (t := N.to_nat (N.shiftr (nth pos (arr p) 0) 1)).
    set (l := N.to_nat (N.shiftl (N.land (nth pos (arr p) 0) 1) 8 + nth (pos + 1) (arr p) 0)).
    destruct (Nat.eqb t 0 && Nat.eqb l 0); [cbn [bind]; sdone|].
    destruct (Nat.leb_spec (pos + 2 + l) (len p)); [|cbn [bind]; sdone].
    rewrite sl_ok by (unfold wf in Hw; lia). cbn [bind].
    destruct (Nat.eqb t pdu || Nat.eqb t 0); [sdone|].
    apply IH; [assumption|lia|lia].
Qed.

Theorem lldp_get_pdu_total p pdu : wf p ->
  forall fuel, (len p < fuel)%nat -> safe (lldp_get_pdu fuel p pdu 0).
Proof. intros Hw fuel Hf. apply (lldp_get_pdu_safe (len p)); [assumption|lia|assumption]. Qed.

Theorem lldp_process_total p pdu : wf p ->
  forall fuel, (len p < fuel)%nat -> safe (lldp_process fuel p pdu).
Proof.
  intros Hw fuel Hf. unfold lldp_process. destruct (Nat.ltb (len p) 6); [sdone|].
  apply lldp_get_pdu_total; assumption.
Qed.

Theorem upnp_discovery_total f x : safe (upnp_discovery f x).
Proof. unfold upnp_discovery. destruct f, x; sdone. Qed.

(* the former #7 witness (a TLV of length 1) and a regular chain *)
Definition lldp_w : bytes := [2; 1; 7; 0; 0; 0; 0; 0].
Definition lldp_good : bytes := [2; 7; 4; 0; 1; 2; 3; 4; 5; 4; 3; 2; 0; 1; 6; 2; 0; 120; 0; 0; 0; 0; 0].
Lemma lldp_nonvacuous :
  bytes_ok lldp_w /\ lldp_get_pdu 30 (of_bytes lldp_w) 3 0 = Ok tt /\ lldp_get_pdu 30 (of_bytes lldp_good) 3 0 = Ok tt.
Proof. split; [apply bytes_okb_spec; reflexivity|]. split; vm_compute; reflexivity. Qed.

(* ---------------------------------------------------------------- SSDP *)
Lemma cc_pairs_safe n : forall all i, safe (cc_pairs n all i).
Proof.
  induction n as [|n IH]; intros all i; cbn [cc_pairs]; [sdone|].
  destruct (Nat.ltb_spec (i + 1) (List.length all)); [|sdone].
  destruct (nth_error all i) as [k|] eqn:E1.
  - destruct (is_max_age k); [|apply IH].
    destruct (nth_error all (i + 1)) eqn:E2; [sdone|].
    apply nth_error_None in E2. lia.
  - apply nth_error_None in E1. lia.
Qed.

Theorem cache_control_total v : safe (cache_control v).
Proof. unfold cache_control. destruct (Nat.eqb _ 0); [apply cc_pairs_safe|sdone]. Qed.

Theorem process_ssdp_total v : safe (process_ssdp v).
Proof.
  unfold process_ssdp.
  destruct (sv_http_ok v); cbn [negb]; [|sdone].
  destruct (sv_kind v =? 0).
  - destruct (sv_nts v =? 0).
    + destruct (sv_method_notify v); cbn [negb]; [|sdone].
      apply safe_bind; [apply cache_control_total|intros; sdone].
    + destruct (sv_nts v =? 1); sdone.
  - destruct (sv_kind v =? 1); [destruct (sv_man_ok v)|destruct (sv_status_ok v)]; sdone.
Qed.

(* "x=max-age": the former #21 witness is parsed without panic; "max-age=1800" *)
Definition ssdp_cc_w : bytes := [120; 61; 109; 97; 120; 45; 97; 103; 101].
Definition ssdp_cc_good : bytes := [109; 97; 120; 45; 97; 103; 101; 61; 49; 56; 48; 48].
Lemma ssdp_cc_nonvacuous :
  bytes_ok ssdp_cc_w /\ cache_control ssdp_cc_w = Ok tt /\ cache_control ssdp_cc_good = Ok tt.
Proof. split; [apply bytes_okb_spec; reflexivity|]. split; vm_compute; reflexivity. Qed.
