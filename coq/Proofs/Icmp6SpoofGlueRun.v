(* Proofs/Icmp6SpoofGlueRun.v — run-level glue with SEND: in EVERY state reachable by well-formed events
   (MACs of 6 octets, netip addresses of 0/4/16 octets: what the Go types guarantee) every record a
   spoofLoop pass hands to ICMP6SendNeighborAdvertisement satisfies SEND's admissibility predicates, so
   C14 composed with C07 says without further hypothesis: every forged NA on the wire is well formed and
   addressed as C14 says. *)
From PV Require Import Base.Prelude Model.Icmp6SpoofRA Model.Icmp6Spoof Proofs.Icmp6SpoofRA Proofs.Icmp6Spoof Proofs.Icmp6SpoofGlue.
From PV Require Model.SendBase Model.Send Proofs.SendBase.
Open Scope N_scope.
Module PB := PV.Proofs.SendBase.
Module S := PV.Model.SendBase.
Module SS := PV.Model.Send.

(* what the Go types guarantee of the arguments of the API and of a parsed IPv6 frame *)
Definition addr_wf (a : addr) : Prop :=
  PB.mac_ok (a_mac a) /\ (a_ip a = [] \/ (List.length (a_ip a) = 4%nat) \/ PB.ip6_ok (a_ip a)).
Definition ev_wf (e : event) : Prop :=
  match e with
  | StartHunt a | StopHunt a => addr_wf a
  | RxRA src _ _ _ => PB.ip6_ok src
  | _ => True
  end.

Definition loop_wf (st : state) (l : sloop) : Prop :=
  PB.mac_ok (a_mac (l_dst l)) /\ PB.ip6_ok (a_ip (l_dst l)) /\ Forall PB.ip6_ok (l_pending l).
Record wfinv (st : state) : Prop := {
  wf_loops : Forall (loop_wf st) (loops st);
  wf_keys : Forall (fun kr => PB.ip6_ok (fst kr)) (routers st)
}.

Lemma all_nodes_ok : PB.ip6_ok all_nodes.
Proof. split; [reflexivity|]. apply bytes_okb_spec. vm_compute. reflexivity. Qed.

Lemma rt_set_keys_ok l k r : PB.ip6_ok k -> Forall (fun kr => PB.ip6_ok (fst kr)) l ->
  Forall (fun kr : bytes * router => PB.ip6_ok (fst kr)) (rt_set l k r).
Proof.
  intros Hk. induction l as [|[k0 r0] t IH]; intros H; cbn [rt_set]; [constructor; [exact Hk|constructor]|].
  inversion H; subst. destruct (bytes_eqb k0 k); constructor; auto.
Qed.

Lemma step_wfinv c st e : inv st -> ev_wf e -> wfinv st -> wfinv (fst (step c st e)).
Proof.
  intros Hinv Hev [Hl Hk]. destruct e as [a|a| |i order|i|src eth p hk|q| ]; cbn [step].
  - unfold start_hunt. destruct (is4 (a_ip a)) eqn:E4; [constructor; assumption|].
    destruct (is6 (a_ip a) && negb (is_llu (a_ip a))); [constructor; assumption|].
    destruct (al_has (hunt st) (a_mac a)); [constructor; assumption|].
    constructor; cbn [fst loops routers]; [|exact Hk].
    apply Forall_app. split; [exact Hl|]. constructor; [|constructor].
    destruct Hev as [Hm Hip]. unfold loop_wf. cbn [l_dst l_pending].
    destruct (ip_valid (a_ip a)) eqn:Ev; cbn [a_mac a_ip].
    + split; [exact Hm|]. split; [|constructor]. destruct Hip as [H0|[H4|H6]]; [|unfold is4 in E4; rewrite H4 in E4; discriminate|exact H6].
      rewrite H0 in Ev. discriminate.
    + split; [exact Hm|]. split; [apply all_nodes_ok|constructor].
  - unfold stop_hunt. destruct (_ && _); constructor; assumption.
  - unfold close. destruct (closed st); constructor; assumption.
  - unfold lookup. destruct (nth_error (loops st) i) as [l|] eqn:En; [|constructor; assumption].
    destruct (negb (l_alive l)); [constructor; assumption|]. destruct (l_pending l); [|constructor; assumption].
    destruct (negb (al_has (hunt st) (a_mac (l_dst l))) || closed st).
    + constructor; cbn [fst set_loops loops routers]; [|exact Hk].
      rewrite Forall_forall in Hl. pose proof (Hl l (nth_error_In _ _ En)) as [Hm [Hi _]].
      assert (G : forall ls j, Forall (loop_wf st) ls -> Forall (loop_wf st) (kill ls j)).
      { induction ls as [|x r IH]; intros j H; cbn [kill]; [destruct j; constructor|].
        inversion H as [|? ? Hx Hr]; subst. pose proof Hx as [Hxm [Hxi _]].
        destruct j; constructor; auto.
        unfold loop_wf. cbn [l_dst l_pending]. split; [exact Hxm|split; [exact Hxi|constructor]]. }
      apply G. apply Forall_forall. exact Hl.
    + destruct (defrouter st); [|constructor; assumption].
      constructor; cbn [fst set_loops loops routers]; [|exact Hk].
      apply Forall_setp; [|exact Hl]. intros x _ [Hm [Hi _]]. unfold loop_wf. cbn [l_dst l_pending].
      split; [exact Hm|]. split; [exact Hi|].
      apply Forall_forall. intros ip Hip. apply pick_in in Hip. apply in_map_iff in Hip as [[k r] [Hkr Hin]].
      pose proof (inv_keys _ Hinv) as Hkeys. rewrite Forall_forall in Hkeys. specialize (Hkeys _ Hin). cbn [fst snd] in *.
      subst ip. rewrite Hkeys. rewrite Forall_forall in Hk. exact (Hk _ Hin).
  - unfold send. destruct (nth_error (loops st) i) as [l|] eqn:En; [|constructor; assumption].
    destruct (l_pending l) as [|ip rest] eqn:Ep; [constructor; assumption|].
    constructor; cbn [fst set_loops loops routers]; [|exact Hk].
    assert (Hrest : Forall PB.ip6_ok rest).
    { rewrite Forall_forall in Hl. destruct (Hl l (nth_error_In _ _ En)) as [_ [_ Hp]]. rewrite Ep in Hp. inversion Hp; assumption. }
    apply Forall_setp; [|exact Hl]. intros x _ [Hm [Hi _]]. unfold loop_wf. cbn [l_dst l_pending]. auto.
  - cbn [ev_wf] in Hev. unfold rx_ra. destruct (blen p <? 16); [constructor; assumption|].
    destruct (negb (Z.rem (repeat_ st + 1) 4 =? 0)%Z); [constructor; assumption|].
    destruct (negb hk); [constructor; assumption|].
    destruct (ra_options p); try (constructor; assumption).
    destruct (rt_find (routers st) src); cbn [fst]; (constructor; cbn [loops routers]; [exact Hl|apply rt_set_keys_ok; assumption]).
  - constructor; assumption.
  - constructor; assumption.
Qed.

Lemma run_wfinv c : forall evs st, inv st -> wfinv st -> Forall ev_wf evs ->
  inv (snd (run c st evs)) /\ wfinv (snd (run c st evs)).
Proof.
  induction evs as [|e r IH]; intros st Hi Hw He; [auto|]. inversion He; subst.
  cbn [run]. destruct (step c st e) as [st' o] eqn:Hs. destruct (run c st' r) as [tr fin] eqn:Hr. cbn [snd].
  replace fin with (snd (run c st' r)) by (rewrite Hr; reflexivity).
  replace st' with (fst (step c st e)) by (rewrite Hs; reflexivity).
  apply IH; [apply step_inv; exact Hi|apply step_wfinv; assumption|assumption].
Qed.

Lemma wfinv_init rep : wfinv (init rep).
Proof. constructor; constructor. Qed.

(* C14 o C07: after ANY history of well-formed events, whatever a Send step emits is, as bytes written by
   SEND's model of ICMP6SendNeighborAdvertisement into any pooled buffer, a frame SEND's reference decoder
   reads back as exactly the record (on_wire): no hypothesis on the record is left *)
Theorem run_on_wire c rep evs i n junk :
  PB.mac_ok (host_mac c) -> Forall ev_wf evs -> List.length junk = S.EthMaxSize ->
  let st := snd (run c (init rep) evs) in
  snd (step c st (Send i)) = ONAs [n] ->
  exists fr, SS.send_na (send_cfg c) (na_eth_src n, na_ip_src n) (na_eth_dst n, na_ip_dst n) (na_tlla n, na_target n) junk = Ok [fr] /\
    on_wire n fr = true /\ na_flags n = 32.
Proof.
  intros Hm Hev HJ st Hs.
  destruct (run_wfinv c evs (init rep) (inv_init rep) (wfinv_init rep) Hev) as [Hinv Hw]. fold st in Hinv, Hw.
  cbn [step] in Hs. unfold send in Hs.
  destruct (nth_error (loops st) i) as [lp|] eqn:En; [|discriminate].
  destruct (l_pending lp) as [|ip rest] eqn:Ep; [discriminate|]. cbn [snd] in Hs. inversion Hs; subst n. clear Hs.
  pose proof (wf_loops _ Hw) as Hl. rewrite Forall_forall in Hl. destruct (Hl lp (nth_error_In _ _ En)) as [Hdm [Hdi Hp]].
  rewrite Ep in Hp. inversion Hp as [|? ? Hip _]; subst.
  destruct (forged_on_wire c (l_dst lp) ip junk Hm Hdm Hdi Hip HJ) as [fr [Hsend Hwire]].
  exists fr. split; [exact Hsend|]. split; [exact Hwire|reflexivity].
Qed.
