(* Proofs/EncodeDNS.v — C03: EncodeDNSQuery round trip. *)
From PV Require Import Base.Prelude Base.Slice Model.EncodeBase Model.Encode Spec.EncodeRef
     Proofs.EncodeLemmas.
Open Scope N_scope.

Ltac blia := unfold bytes, byte in *; lia.

Definition dns_hdr (id fl : N) : bytes :=
  [hi8 id; lo8 id; hi8 fl; lo8 fl; 0; 1; 0; 0; 0; 0; 0; 0].
Definition dns_query_bytes (id fl : N) (name : bytes) (qt : N) : bytes :=
  dns_hdr id fl ++ name ++ [hi8 qt; lo8 qt; 0; 1].

Lemma set_nth_app_ge {A} (a : list A) k v l :
  (length a <= k)%nat -> set_nth k v (a ++ l) = a ++ set_nth (k - length a) v l.
Proof.
  revert k. induction a as [|x a IH]; intros k H; cbn [app length].
  - rewrite Nat.sub_0_r. reflexivity.
  - destruct k as [|k]; [cbn in H; lia|]. cbn [set_nth Nat.sub]. f_equal. apply IH. cbn in H. lia.
Qed.

Ltac lenlia ::= cbn [length arr len cap] in *; unfold cap in *; cbn [length arr len] in *;
   rewrite ?blit_length, ?set_nth_length, ?app_length, ?repeat_length in *; cbn [length] in *;
   unfold bytes, byte in *; lia.

Lemma dns_header_buf_ok id fl :
  dns_header_buf id fl = Ok (mkSlice (dns_hdr id fl ++ repeat 0 500) 512).
Proof. vm_compute. reflexivity. Qed.

Lemma blit_app_len (a : bytes) n src l : length a = n -> blit n src (a ++ l) = a ++ blit 0 src l.
Proof. intros <-. apply blit_app_r0. Qed.

Lemma skipn_repeat {A} (x : A) n k : skipn k (repeat x n) = repeat x (n - k).
Proof.
  revert k. induction n as [|n IH]; intros k; cbn [repeat].
  - rewrite skipn_nil. reflexivity.
  - destruct k; cbn [skipn Nat.sub repeat]; [reflexivity|apply IH].
Qed.

Lemma encode_dns_query_bytes id fl name qt :
  (length name <= 496)%nat ->
  encode_dns_query id fl name qt =
  Ok (mkSlice (dns_query_bytes id fl name qt ++ repeat 0 (496 - length name)) (16 + length name)).
Proof.
  intros Hn. unfold encode_dns_query. rewrite dns_header_buf_ok. cbn [bind].
  assert (Hmin : Nat.min (length name) 500 = length name) by blia. rewrite Hmin.
  set (n := length name) in *.
  assert (Hh : length (dns_hdr id fl) = 12%nat) by reflexivity.
  (* copy(b[12:], name) *)
  unfold copyfrom. cbn [len arr]. change (Nat.leb 12 512) with true. cbn iota. cbn [bind].
  rewrite (blit_app_len (dns_hdr id fl) 12) by exact Hh.
  rewrite firstn_all2 by (fold n; blia). rewrite blit0 by (rewrite repeat_length; fold n; blia).
  rewrite skipn_repeat. fold n.
  replace (500 - n)%nat with (S (S (S (S (496 - n))))) by blia. cbn [repeat].
  set (T := repeat 0 (496 - n)).
  (* the two words after the name *)
  unfold put16_from. cbn [len arr].
  destruct (Nat.leb_spec (12 + n + 2) 512) as [_|C]; [|blia]. cbn [bind len arr].
  destruct (Nat.leb_spec (14 + n + 2) 512) as [_|C]; [|blia]. cbn [bind len arr].
  unfold reslice, cap. cbn [arr].
  assert (Hlen : forall l : bytes, length l = 512%nat -> Nat.leb (16 + n) (length l) = true).
  { intros l Hl. apply Nat.leb_le. blia. }
  rewrite Hlen.
  2:{ rewrite !set_nth_length, !app_length. cbn [length]. unfold T. rewrite repeat_length. fold n. rewrite Hh. blia. }
  f_equal. f_equal.
  rewrite (app_assoc (dns_hdr id fl) name).
  assert (Hhn : length (dns_hdr id fl ++ name) = (12 + n)%nat) by (rewrite app_length, Hh; reflexivity).
  rewrite !set_nth_app_ge by (rewrite Hhn; blia). rewrite Hhn.
  replace (12 + n + 1 - (12 + n))%nat with 1%nat by blia.
  replace (12 + n - (12 + n))%nat with 0%nat by blia.
  replace (14 + n + 1 - (12 + n))%nat with 3%nat by blia.
  replace (14 + n - (12 + n))%nat with 2%nat by blia.
  cbn [set_nth]. unfold dns_query_bytes. rewrite <- !app_assoc. reflexivity.
Qed.

(* ---------------------------------------------------------------- *)
(* reference decoder *)
Definition labels_ok (ls : list bytes) : Prop := Forall label_ok ls.

Lemma ref_labels_wire ls rest fuel :
  labels_ok ls -> (length ls < fuel)%nat -> ref_labels fuel (wire_of_labels ls ++ rest) = Some (ls, rest).
Proof.
  revert fuel. induction ls as [|l ls IH]; intros fuel Hok Hf.
  - destruct fuel; [cbn in Hf; blia|]. reflexivity.
  - destruct fuel as [|f]; [cbn in Hf; blia|].
    inversion Hok as [|? ? Hl Hr]; subst. unfold label_ok in Hl.
    cbn [wire_of_labels app ref_labels].
    destruct (N.of_nat (length l)) eqn:En; [blia|]. rewrite <- En.
    destruct (N.ltb_spec 63 (N.of_nat (length l))) as [C|_]; [blia|]. cbn [orb].
    rewrite Nat2N.id. rewrite <- app_assoc. unfold take, drop.
    destruct (Nat.ltb_spec (length (l ++ wire_of_labels ls ++ rest)) (length l)) as [C|_]; [rewrite app_length in C; blia|].
    rewrite skipn_app_exact, firstn_app_exact. rewrite IH; [reflexivity|assumption|cbn [length] in Hf; blia].
Qed.

Theorem dns_query_ref id fl ls qt :
  id < 65536 -> fl < 65536 -> qt < 65536 -> labels_ok ls ->
  ref_dns_query (dns_query_bytes id fl (wire_of_labels ls) qt) =
  Some {| rq_id := id; rq_flags := fl; rq_qd := 1; rq_an := 0; rq_ns := 0; rq_ar := 0;
          rq_labels := ls; rq_type := qt; rq_class := 1; rq_trailing := [] |}.
Proof.
  intros Hid Hfl Hqt Hok. unfold dns_query_bytes, dns_hdr, ref_dns_query. cbn [app].
  rewrite ref_labels_wire; [|assumption|].
  - unfold w16. rewrite !w16_hi_lo by assumption. reflexivity.
  - rewrite app_length. cbn [length].
    assert (length ls <= length (wire_of_labels ls))%nat.
    { clear. induction ls as [|l ls IH]; cbn [wire_of_labels length]; [blia|]. rewrite app_length. blia. }
    blia.
Qed.

(* ---------------------------------------------------------------- *)
(* library view: header getters and DecodeQuestion *)
Lemma land_192_small b : b < 64 -> N.land b 192 = 0.
Proof.
  intros H. apply N.bits_inj. intros i. rewrite N.land_spec, N.bits_0.
  destruct (N.ltb_spec i 6) as [Hi|Hi].
  - replace (N.testbit 192 i) with false; [apply andb_false_r|].
    assert (E : i = 0 \/ i = 1 \/ i = 2 \/ i = 3 \/ i = 4 \/ i = 5) by lia.
    destruct E as [->|[->|[->|[->|[->| ->]]]]]; reflexivity.
  - replace (N.testbit b i) with false; [reflexivity|]. symmetry.
    destruct (N.eq_dec b 0) as [->|Hb]; [apply N.bits_0|].
    apply N.bits_above_log2. apply N.log2_lt_pow2; [lia|].
    apply N.lt_le_trans with (2 ^ 6); [exact H|]. apply N.pow_le_mono_r; lia.
Qed.

Lemma wire_length_pos ls : (1 <= length (wire_of_labels ls))%nat.
Proof. destruct ls; cbn [wire_of_labels length]; [blia|]. blia. Qed.

Ltac lens := rewrite ?app_length in *; cbn [length] in *; rewrite ?app_length in *; cbn [length] in *; blia.
Ltac dcond := match goal with
  | |- context [Nat.leb ?a ?b] => destruct (Nat.leb_spec a b); [try (exfalso; lens)|try (exfalso; lens)]
  | |- context [Nat.ltb ?a ?b] => destruct (Nat.ltb_spec a b); [try (exfalso; lens)|try (exfalso; lens)]
  end.

(* the walk of decodeName over  pre ++ wire_of_labels ls ++ post *)
(* no label contains '.' (0x2e): since repo commit c8663df the library's decodeName rejects such a label *)
Definition no_dots (ls : list bytes) : Prop := Forall (fun l => existsb (N.eqb 46) l = false) ls.

Lemma dns_labels_walk ls : forall a pre post acc fuel L offset,
  a = pre ++ wire_of_labels ls ++ post ->
  labels_ok ls -> no_dots ls -> (length ls < fuel)%nat ->
  (offset <= length pre)%nat ->
  (length pre + length (wire_of_labels ls) - offset <= 255)%nat ->
  (length pre + length (wire_of_labels ls) <= L)%nat ->
  (L <= length a)%nat ->
  dns_labels fuel (mkSlice a L) offset (length pre) acc =
  Ok (rev acc ++ ls, length pre + length (wire_of_labels ls) - 1)%nat.
Proof.
  induction ls as [|l ls IH]; intros a pre post acc fuel L offset Ha Hok Hnd Hf Hoff H255 HL Hcap.
  - destruct fuel as [|f]; [cbn in Hf; blia|]. cbn [wire_of_labels app length] in *.
    cbn [dns_labels]. unfold idx. cbn [len arr].
    destruct (Nat.ltb_spec (length pre) L) as [_|C]; [|blia]. cbn [bind].
    rewrite Ha. rewrite app_nth2 by blia. rewrite Nat.sub_diag. cbn [nth]. change (0 =? 0) with true. cbn iota.
    destruct (Nat.ltb_spec 254 (length pre - offset)) as [C|_]; [blia|].
    rewrite app_nil_r. f_equal. f_equal. blia.
  - destruct fuel as [|f]; [cbn in Hf; blia|].
    unfold labels_ok in Hok. apply Forall_cons_iff in Hok. destruct Hok as [Hl Hr]. unfold label_ok in Hl.
    unfold no_dots in Hnd. apply Forall_cons_iff in Hnd. destruct Hnd as [Hnl Hnr].
    pose proof (wire_length_pos ls) as Hw.
    assert (Hwl : length (wire_of_labels (l :: ls)) = (1 + length l + length (wire_of_labels ls))%nat).
    { cbn [wire_of_labels length]. rewrite app_length. blia. }
    rewrite Hwl in *.
    assert (Hal : length a = (length pre + (1 + length l + length (wire_of_labels ls)) + length post)%nat).
    { rewrite Ha, !app_length, Hwl. blia. }
    cbn [dns_labels]. unfold idx. cbn [len arr].
    destruct (Nat.ltb_spec (length pre) L) as [_|C]; [|blia]. cbn [bind].
    assert (Hnth : nth (length pre) a 0 = N.of_nat (length l)).
    { rewrite Ha. rewrite app_nth2 by blia. rewrite Nat.sub_diag. reflexivity. }
    rewrite Hnth.
    destruct (N.eqb_spec (N.of_nat (length l)) 0) as [C|_]; [blia|].
    rewrite land_192_small by blia. change (0 =? 0) with true. cbn [negb]. cbn iota.
    rewrite Nat2N.id.
    destruct (Nat.ltb_spec 255 (length pre + length l + 1 - offset)) as [C|_]; [blia|].
    destruct (Nat.ltb_spec L (length pre + length l + 1)) as [C|_]; [blia|].
    unfold sl, cap. cbn [arr].
    destruct (Nat.leb_spec (length pre + 1) (length pre + length l + 1)) as [_|C]; [|blia].
    destruct (Nat.leb_spec (length pre + length l + 1) (length a)) as [_|C]; [|blia].
    cbn [andb bind].
    destruct (Nat.leb_spec L (length pre + length l + 1)) as [C|_]; [blia|].
    assert (Ha2 : a = (pre ++ N.of_nat (length l) :: l) ++ wire_of_labels ls ++ post).
    { rewrite Ha. cbn [wire_of_labels]. repeat (rewrite <- ?app_assoc; cbn [app]). reflexivity. }
    assert (Ha3 : a = (pre ++ [N.of_nat (length l)]) ++ l ++ wire_of_labels ls ++ post).
    { rewrite Ha. cbn [wire_of_labels]. repeat (rewrite <- ?app_assoc; cbn [app]). reflexivity. }
    assert (Hview : view {| arr := skipn (length pre + 1) a; len := length pre + length l + 1 - (length pre + 1) |} = l).
    { unfold view. cbn [arr len].
      replace (length pre + length l + 1 - (length pre + 1))%nat with (length l) by blia.
      rewrite Ha3.
      rewrite skipn_app_len by (rewrite app_length; cbn [length]; blia).
      apply firstn_app_exact. }
    rewrite Hview. rewrite Hnl.
    replace (length pre + length l + 1)%nat with (length (pre ++ N.of_nat (length l) :: l))
      by (rewrite app_length; cbn [length]; blia).
    rewrite (IH a (pre ++ N.of_nat (length l) :: l) post (l :: acc) f L offset Ha2 Hr Hnr).
    + cbn [rev]. rewrite <- app_assoc. cbn [app]. f_equal. f_equal.
      rewrite app_length. cbn [length]. blia.
    + cbn [length] in Hf. blia.
    + rewrite app_length. cbn [length]. blia.
    + rewrite app_length. cbn [length]. blia.
    + rewrite app_length. cbn [length]. blia.
    + exact Hcap.
Qed.

Lemma wire_length_ge ls : (length ls <= length (wire_of_labels ls))%nat.
Proof. induction ls as [|l ls IH]; cbn [wire_of_labels length]; [blia|]. rewrite app_length. blia. Qed.

Lemma wire_ok ls : Forall bytes_ok ls -> labels_ok ls -> bytes_ok (wire_of_labels ls).
Proof.
  induction ls as [|l ls IH]; intros Hb Hok; cbn [wire_of_labels].
  - apply bytes_ok_cons. split; [lia|apply bytes_ok_nil].
  - apply Forall_cons_iff in Hb. destruct Hb as [Hb1 Hb2].
    unfold labels_ok in Hok. apply Forall_cons_iff in Hok. destruct Hok as [Hl Hr]. unfold label_ok in Hl.
    apply bytes_ok_cons. split; [blia|]. apply bytes_ok_app. split; [assumption|apply IH; assumption].
Qed.

(* the root name (no labels) is included since repo commit 8b21b8e (DecodeQuestion index+5) *)
Theorem dnsquery_rt id fl ls qt :
  id < 65536 -> fl < 65536 -> qt < 65536 -> labels_ok ls -> Forall bytes_ok ls ->
  (length (wire_of_labels ls) <= 255)%nat ->
  let name := wire_of_labels ls in
  exists p,
    encode_dns_query id fl name qt = Ok p /\
    len p = (16 + length name)%nat /\ cap p = 512%nat /\
    view p = dns_query_bytes id fl name qt /\ bytes_ok (view p) /\
    (no_dots ls ->
     dns_decode_lib p = Ok {| dv_id := id; dv_flags := fl; dv_qd := 1; dv_an := 0; dv_ns := 0; dv_ar := 0;
                             dv_question := {| q_labels := ls; q_type := qt; q_class := 1;
                                               q_end := (16 + length name)%nat |} |}) /\
    ref_dns_query (view p) =
      Some {| rq_id := id; rq_flags := fl; rq_qd := 1; rq_an := 0; rq_ns := 0; rq_ar := 0;
              rq_labels := ls; rq_type := qt; rq_class := 1; rq_trailing := [] |}.
Proof.
  intros Hid Hfl Hqt Hok Hb H255 name. subst name. set (name := wire_of_labels ls) in *.
  assert (Hne : (1 <= length name)%nat) by apply wire_length_pos.
  set (n := length name) in *.
  eexists. split. { apply encode_dns_query_bytes. fold n. blia. }
  fold n.
  set (post := [hi8 qt; lo8 qt; 0; 1] ++ repeat 0 (496 - n)).
  set (a := dns_query_bytes id fl name qt ++ repeat 0 (496 - n)).
  assert (Hq : length (dns_query_bytes id fl name qt) = (16 + n)%nat).
  { unfold dns_query_bytes, dns_hdr. rewrite !app_length. cbn [length]. fold n. blia. }
  assert (Hla : length a = 512%nat) by (unfold a; rewrite app_length, Hq, repeat_length; blia).
  assert (Ha : a = dns_hdr id fl ++ name ++ post).
  { unfold a, post, dns_query_bytes. rewrite <- !app_assoc. reflexivity. }
  assert (Hv : view (mkSlice a (16 + n)) = dns_query_bytes id fl name qt).
  { unfold view, a. cbn [arr len]. apply firstn_app_len. exact Hq. }
  split. { reflexivity. }
  split. { unfold cap. cbn [arr]. exact Hla. }
  split. { exact Hv. }
  split.
  { rewrite Hv. unfold dns_query_bytes, dns_hdr. cbn [app].
    repeat (apply bytes_ok_cons; split; [first [lia | apply hi8_lt | apply lo8_lt]|]).
    apply bytes_ok_app. split; [apply wire_ok; assumption|].
    repeat (apply bytes_ok_cons; split; [first [lia | apply hi8_lt | apply lo8_lt]|]). apply bytes_ok_nil. }
  split.
  { intros Hnd. (* header words *)
    assert (Hw : forall k x y, (k + 2 <= 12)%nat -> nth k (dns_hdr id fl) 0 = x -> nth (k + 1) (dns_hdr id fl) 0 = y ->
                 be16_at (mkSlice a (16 + n)) k = Ok (be16 x y)).
    { intros k x y Hkk Hx Hy. unfold be16_at, cap. cbn [arr]. rewrite Hla.
      destruct (Nat.leb_spec (k + 2) 512) as [_|C]; [|blia].
      rewrite Ha. rewrite !app_nth1 by (cbn [dns_hdr length]; blia). rewrite Hx, Hy. reflexivity. }
    unfold dns_decode_lib, dns_tranid, dns_flags, dns_qdcount, dns_ancount, dns_nscount, dns_arcount.
    rewrite (Hw 0%nat (hi8 id) (lo8 id)) by (try reflexivity; blia).
    rewrite (Hw 2%nat (hi8 fl) (lo8 fl)) by (try reflexivity; blia).
    rewrite (Hw 4%nat 0 1) by (try reflexivity; blia).
    rewrite (Hw 6%nat 0 0) by (try reflexivity; blia).
    rewrite (Hw 8%nat 0 0) by (try reflexivity; blia).
    rewrite (Hw 10%nat 0 0) by (try reflexivity; blia).
    cbn [bind]. rewrite !be16_hi_lo by assumption.
    (* DecodeQuestion *)
    unfold dns_decode_question, dns_qdcount.
    rewrite (Hw 4%nat 0 1) by (try reflexivity; blia). cbn [bind].
    change (be16 0 1 =? 1) with true. cbn [negb]. cbn iota. cbn [len].
    destruct (Nat.ltb_spec (16 + n) (12 + 5)) as [C|_]; [blia|].
    pose proof (dns_labels_walk ls a (dns_hdr id fl) post [] (S (16 + n)) (16 + n)%nat 12%nat Ha Hok Hnd) as W.
    change (length (dns_hdr id fl)) with 12%nat in W. fold name n in W.
    rewrite W by (pose proof (wire_length_ge ls); unfold n, name in *; cbn [dns_hdr length] in *; blia).
    cbn [bind rev app].
    replace (S (12 + n - 1)) with (12 + n)%nat by blia.
    destruct (Nat.ltb_spec (16 + n) (12 + n + 4)) as [C|_]; [blia|].
    assert (Hhn : length (dns_hdr id fl ++ name) = (12 + n)%nat) by (rewrite app_length; reflexivity).
    assert (Hw2 : forall k x y, (k + 2 <= 4)%nat -> nth k [hi8 qt; lo8 qt; 0; 1] 0 = x -> nth (k + 1) [hi8 qt; lo8 qt; 0; 1] 0 = y ->
                  be16_at (mkSlice a (16 + n)) (12 + n + k) = Ok (be16 x y)).
    { intros k x y Hkk Hx Hy. unfold be16_at, cap. cbn [arr]. rewrite Hla.
      destruct (Nat.leb_spec (12 + n + k + 2) 512) as [_|C]; [|blia].
      rewrite Ha, app_assoc. rewrite !app_nth2 by (rewrite Hhn; blia). rewrite Hhn. unfold post.
      replace (12 + n + k - (12 + n))%nat with k by blia.
      replace (12 + n + k + 1 - (12 + n))%nat with (k + 1)%nat by blia.
      rewrite !app_nth1 by (cbn [length]; blia). rewrite Hx, Hy. reflexivity. }
    replace (12 + n)%nat with (12 + n + 0)%nat at 1 by blia.
    rewrite (Hw2 0%nat (hi8 qt) (lo8 qt)) by (try reflexivity; blia). cbn [bind].
    rewrite (Hw2 2%nat 0 1) by (try reflexivity; blia). cbn [bind].
    rewrite be16_hi_lo by assumption.
    replace (12 + n + 4)%nat with (16 + n)%nat by blia. reflexivity. }
  rewrite Hv. apply dns_query_ref; assumption.
Qed.

Example dnsquery_rt_ex :
  let ls := [[119;119;119]; [101;120;97;109;112;108;101]; [99;111;109]] in
  labels_ok ls /\ (length (wire_of_labels ls) <= 255)%nat /\
  exists p, encode_dns_query 4660 256 (wire_of_labels ls) 1 = Ok p /\ len p = 33%nat.
Proof.
  cbn zeta. split. { repeat constructor; cbn; lia. } split; [cbn; lia|].
  eexists. split; [vm_compute; reflexivity|reflexivity].
Qed.

Example dnsquery_root_ex :
  exists p, encode_dns_query 1 256 (wire_of_labels []) 1 = Ok p /\ len p = 17%nat /\
            (q <- dns_decode_question p ;; Ok (q_labels q, q_type q, q_class q, q_end q))%res = Ok ([], 1, 1, 17%nat).
Proof. eexists. split; [vm_compute; reflexivity|]. split; [reflexivity|vm_compute; reflexivity]. Qed.

(* since repo commit c8663df: a label containing '.' is still encoded (and read back by the reference decoder)
   but refused by the library's decodeName *)
Example dnsquery_dot_label :
  let ls := [[97;46;98]; [99]] in
  exists p, encode_dns_query 1 0 (wire_of_labels ls) 1 = Ok p /\
            option_map rq_labels (ref_dns_query (view p)) = Some ls /\ dns_decode_lib p = Err EParseFrame.
Proof. cbn zeta. eexists. split; [vm_compute; reflexivity|]. split; vm_compute; reflexivity. Qed.
