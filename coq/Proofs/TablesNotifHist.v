(* Proofs/TablesNotifHist.v — C06 at the level of histories: under the property's discipline every unit
   (Parse;Notify / purge / Capture / Release) emits, for every address, exactly the notifications that the
   changes of the C04 reference model owe for it, offline-by-supersession before the online notification. *)
From PV Require Import Base.Prelude Model.Tables Spec.HostTrackingInv Spec.HostTracking Spec.HostTrackingNotif
  Proofs.Tables Proofs.TablesRefine Proofs.TablesPred Proofs.TablesC04 Proofs.TablesNotif Proofs.TablesOffers.
Open Scope N_scope.

(* ------------------------------------------------------------------ *)
(* no DHCP offers recorded (the pure discipline has no SetDHCPv4IPOffer / DHCPv4Update) *)

Definition NoOffer (s : state) : Prop := Forall (fun e => m_offer e = IPnone) (macs s).

Lemma NoOffer_ext s s' : macs s' = macs s -> NoOffer s -> NoOffer s'.
Proof. unfold NoOffer. intros ->. auto. Qed.

Lemma NoOffer_upd_mac m f s : (forall e, m_offer (f e) = m_offer e) -> NoOffer s -> NoOffer (upd_mac m f s).
Proof.
  unfold NoOffer, upd_mac, mupd. simpl. intros K H. rewrite Forall_forall in *. intros e Ie.
  apply in_map_iff in Ie. destruct Ie as (e0 & E & I0). destruct (m_mac e0 =? m); subst; [rewrite K|]; auto.
Qed.

Lemma NoOffer_mfoc m s : NoOffer s -> NoOffer (mac_find_or_create m s).
Proof.
  unfold NoOffer, mac_find_or_create. intros H. destruct (find_mac m (macs s)); auto. simpl.
  apply Forall_app. split; auto.
Qed.

Lemma NoOffer_mdel m s : NoOffer s -> NoOffer (set_macs (mdel m (macs s)) s).
Proof.
  unfold NoOffer. simpl. generalize (macs s). intros l H. induction l as [|e r IH]; simpl; auto.
  inversion H; subst. destruct (m_mac e =? m); auto.
Qed.

Lemma NoOffer_create m k now s : NoOffer s -> NoOffer (create_host m k now s).
Proof.
  intros H. unfold create_host. apply NoOffer_upd_mac; [reflexivity|].
  eapply NoOffer_ext; [|apply NoOffer_mfoc; exact H]. reflexivity.
Qed.

Lemma NoOffer_delete k s : NoOffer s -> NoOffer (delete_host k s).
Proof.
  intros H. unfold delete_host. destruct (hlookup k (hosts s)) as [h|]; auto.
  eapply NoOffer_ext; [apply clear_lastf_hosts|].
  match goal with |- NoOffer (match mac_hosts ?m ?s2 with _ => _ end) => set (s2' := s2) end.
  assert (H2 : NoOffer s2').
  { unfold s2'. eapply NoOffer_ext; [|apply (NoOffer_upd_mac (h_mac h) (fun e => set_mhosts (remove_first (h_ip h) (m_hosts e)) e) s); [reflexivity|exact H]].
    reflexivity. }
  destruct (mac_hosts (h_mac h) s2'); auto. apply NoOffer_mdel. exact H2.
Qed.

Lemma NoOffer_foc m k now s s' b : find_or_create m k now s = Ok (s', b) -> NoOffer s -> NoOffer s'.
Proof.
  unfold find_or_create. intros F H. destruct (hlookup k (hosts s)) as [h|].
  - destruct (h_mac h =? m).
    + inversion F; subst. eapply NoOffer_ext; [|exact H]. reflexivity.
    + destruct (print_table s); simpl in F; try discriminate. inversion F; subst.
      apply NoOffer_create. apply NoOffer_delete. exact H.
  - inversion F; subst. apply NoOffer_create. exact H.
Qed.

Lemma NoOffer_fold {A} (g : state -> A -> state) l :
  (forall s a, NoOffer s -> NoOffer (g s a)) -> forall s, NoOffer s -> NoOffer (fold_left g l s).
Proof. intros G. induction l as [|a r IH]; simpl; auto. Qed.

Lemma NoOffer_make_offline k s : NoOffer s -> NoOffer (make_offline k s).
Proof.
  intros H. unfold make_offline. destruct (hlookup k (hosts s)) as [h0|]; auto.
  match goal with |- NoOffer (if _ then send ?n ?x else ?y) =>
    assert (HX : NoOffer x) by (apply NoOffer_upd_mac; [reflexivity|]; eapply NoOffer_ext; [|exact H]; reflexivity) end.
  destruct (Nat.ltb _ _); auto. unfold send. destruct (Nat.ltb _ _); auto.
Qed.

Lemma NoOffer_upd_host k f s : NoOffer s -> NoOffer (upd_host k f s).
Proof. apply NoOffer_ext. reflexivity. Qed.

Lemma NoOffer_online_transition k s : NoOffer s -> NoOffer (online_transition k s).
Proof.
  intros H. unfold online_transition. destruct (hlookup k (hosts s)) as [h|]; auto.
  destruct (h_online h); auto.
  set (s2 := upd_host k (fun x => set_dirty true (set_online true x)) (upd_mac (h_mac h) (set_monline true) s)).
  assert (H2 : NoOffer s2) by (apply NoOffer_upd_host; apply NoOffer_upd_mac; [reflexivity|exact H]).
  destruct (find_mac (h_mac h) (macs s2)) as [e2|]; auto.
  destruct (is4 (h_ip h)).
  - destruct (negb (ip_eqb (h_ip h) (m_ip4 e2))); auto.
    apply NoOffer_fold.
    + intros st v Hst. destruct (is4 v && negb (ip_eqb v (h_ip h))); auto.
    + apply NoOffer_upd_mac; [reflexivity|exact H2].
  - assert (H3 : NoOffer (if is_gua (h_ip h) && negb (ip_eqb (h_ip h) (m_gua e2))
                          then upd_mac (h_mac h) (set_mgua (h_ip h)) s2 else s2)).
    { destruct (is_gua (h_ip h) && negb (ip_eqb (h_ip h) (m_gua e2))); auto. apply NoOffer_upd_mac; [reflexivity|exact H2]. }
    destruct (is_llu (h_ip h) && negb (ip_eqb (h_ip h) (m_lla e2))); auto. apply NoOffer_upd_mac; [reflexivity|exact H3].
Qed.

Lemma NoOffer_rx c f now s s' fr : rx c f now s = Ok (s', fr) -> NoOffer s -> NoOffer s'.
Proof.
  unfold rx. intros R H. destruct (host_event c f) as [[m k]|]; [|inversion R; subst; exact H].
  destruct (find_or_create m k now s) as [[s1 b]| | |] eqn:F; simpl in R; try discriminate.
  pose proof (NoOffer_foc _ _ _ _ _ _ F H) as H1.
  destruct (negb (host_online k s1)); inversion R; subst; auto. apply NoOffer_online_transition. exact H1.
Qed.

Lemma NoOffer_notify_host k fl s : NoOffer s -> NoOffer (notify_host k fl s).
Proof.
  intros H. unfold notify_host. destruct (hlookup k (hosts s)) as [h|]; auto. destruct (negb (h_dirty h)); auto.
  match goal with |- context [fold_left ?g ?l s] => set (s1 := fold_left g l s) end.
  assert (H1 : NoOffer s1) by (apply NoOffer_fold; auto; intros; apply NoOffer_make_offline; auto).
  destruct (hlookup k (hosts s1)); auto. unfold send. destruct (Nat.ltb _ _); auto.
Qed.

Lemma NoOffer_purge c now order s : NoOffer s -> NoOffer (purge c now order s).
Proof.
  intros H. unfold purge. apply NoOffer_fold; [intros; apply NoOffer_delete; auto|].
  apply NoOffer_fold; [intros; apply NoOffer_make_offline; auto|]. exact H.
Qed.

Lemma NoOffer_capture m s : NoOffer s -> NoOffer (fst (capture m s)).
Proof.
  intros H. unfold capture. pose proof (NoOffer_mfoc m s H) as H1.
  destruct (find_mac m (macs (mac_find_or_create m s))) as [e|]; simpl; auto.
  destruct (m_captured e); simpl; auto. destruct (m_router e); simpl; auto.
  apply NoOffer_upd_mac; [reflexivity|exact H1].
Qed.

(* without offers, Notify on a frame without host does nothing *)
Lemma notify_nohost fr s : NoOffer s -> fr_host fr = None -> notify fr s = s.
Proof.
  intros H FH. unfold notify. rewrite FH. destruct (negb (fr_dhcp4 fr)); auto.
  destruct (find_mac (fr_src fr) (macs s)) as [e|] eqn:F; [|reflexivity].
  apply find_mac_Some in F. destruct F as [Ie _]. unfold NoOffer in H. rewrite Forall_forall in H.
  rewrite (H e Ie). reflexivity.
Qed.

(* ------------------------------------------------------------------ *)
(* Notify, with the exact list of addresses it announces offline and the host records afterwards *)

Definition notify_list (k : ip) (fl : bool) (s : state) (h : host) : list ip :=
  if fl && is4 (h_ip h)
  then filter (fun v => negb (ip_eqb v k) &&
                        match hlookup v (hosts s) with Some x => negb (h_online x) && h_dirty x | None => false end)
              (mac_hosts (h_mac h) s)
  else [].

Lemma notify_host_strong k fl s h :
  InvP s -> hlookup k (hosts s) = Some h -> h_dirty h = true ->
  (List.length (chan s) + List.length (mac_hosts (h_mac h) s) < chan_cap)%nat ->
  exists offs n,
    chan (notify_host k fl s) = chan s ++ offs ++ [n] /\
    map nt_ip offs = notify_list k fl s h /\ Forall (fun x => nt_online x = false) offs /\
    nt_ip n = k /\ nt_online n = h_online h /\ NoDup (notify_list k fl s h) /\
    (forall k', hlookup k' (hosts (notify_host k fl s)) =
       if ip_eqb k k' then Some (set_dirty false h)
       else if existsb (fun v => ip_eqb v k') (notify_list k fl s h) then option_map offl (hlookup k' (hosts s))
       else hlookup k' (hosts s)).
Proof.
  intros I L D C. destruct (InvS_host _ _ _ (proj1 I) L) as (Hip & e & F & Ik).
  unfold notify_host. rewrite L, D. cbn [negb]. fold (notify_list k fl s h).
  set (l := notify_list k fl s h).
  assert (LP : forall v, In v l -> In v (mac_hosts (h_mac h) s) /\ v <> k /\ exists x, hlookup v (hosts s) = Some x).
  { intros v Iv. unfold l, notify_list in Iv. destruct (fl && is4 (h_ip h)); [|destruct Iv]. apply filter_In in Iv.
    destruct Iv as [Iv Pv]. split; auto. apply andb_prop in Pv. destruct Pv as [NE Pv].
    apply negb_true_iff in NE. ipeq. split; auto.
    destruct (hlookup v (hosts s)) as [x|]; [|discriminate]. exists x. reflexivity. }
  assert (LL : (List.length l <= List.length (mac_hosts (h_mac h) s))%nat).
  { unfold l, notify_list. destruct (fl && is4 (h_ip h)); [apply filter_length_le'|simpl; lia]. }
  assert (LND : NoDup l).
  { unfold l, notify_list. destruct (fl && is4 (h_ip h)); [|constructor]. apply NoDup_filter.
    unfold mac_hosts. rewrite F. apply (inv_listed_once s (InvP_Inv s I) e). apply find_mac_Some in F. apply F. }
  assert (NK : ~ In k l).
  { intros Ik'. destruct (LP k Ik') as (_ & N & _). congruence. }
  destruct (fold_mo_chan l s I) as (ns & CH & MI & F1 & _).
  { intros v Iv. destruct (LP v Iv) as (_ & _ & x & Lx). congruence. }
  { lia. }
  set (s1 := fold_left (fun st v => make_offline v st) l s) in *.
  assert (L1 : hlookup k (hosts s1) = Some h).
  { unfold s1. rewrite fold_mo_lookup. destruct (existsb (fun v => ip_eqb v k) l) eqn:EX; auto.
    apply existsb_exists in EX. destruct EX as (v & Iv & E). ipeq. subst v. contradiction. }
  rewrite L1. unfold send. cbn [chan upd_host set_hosts].
  assert (LT : Nat.ltb (List.length (chan s1)) chan_cap = true).
  { apply Nat.ltb_lt. rewrite CH, app_length. rewrite <- MI in LL. rewrite map_length in LL. lia. }
  rewrite LT. cbn [chan set_chan hosts set_hosts]. exists ns. eexists. split; [rewrite CH, <- app_assoc; reflexivity|].
  match goal with |- context [to_notif ?h0 ?st] => destruct (to_notif_fields h0 st) as (A & B & C0) end.
  rewrite A, C0. repeat split; auto.
  intros k'. unfold upd_host, set_chan. cbn [hosts set_hosts]. rewrite hlookup_hupd. destruct (ip_eqb k k') eqn:E.
  - ipeq. subst k'. rewrite L1. reflexivity.
  - unfold s1. apply fold_mo_lookup.
Qed.

(* ---- counting notifications per address ---- *)
Definition pair_of (n : notif) : ip * bool := (nt_ip n, nt_online n).

Lemma about_app x l l' : about x (l ++ l') = about x l ++ about x l'.
Proof. unfold about. apply filter_app. Qed.

Lemma about_offline_nodup x (ns : list notif) :
  Forall (fun n => nt_online n = false) ns -> NoDup (map nt_ip ns) ->
  about x (map pair_of ns) = if existsb (fun v => ip_eqb v x) (map nt_ip ns) then [(x, false)] else [].
Proof.
  induction ns as [|n r IH]; simpl; intros F ND; auto.
  inversion F; subst. inversion ND; subst. rewrite IH; auto.
  destruct (ip_eqb (nt_ip n) x) eqn:E; simpl; auto.
  ipeq. subst x. unfold pair_of at 1. rewrite H1.
  destruct (existsb (fun v => ip_eqb v (nt_ip n)) (map nt_ip r)) eqn:EX; auto.
  apply existsb_exists in EX. destruct EX as (v & Iv & Ev). ipeq. subst v. contradiction.
Qed.

Lemma existsb_remove_ip k x l : x <> k -> existsb (ip_eqb x) (remove_ip k l) = existsb (ip_eqb x) l.
Proof.
  intros N. unfold remove_ip. induction l as [|y r IH]; simpl; auto.
  destruct (ip_eqb y k) eqn:E; simpl; rewrite IH; auto.
  ipeq. subst y. destruct (ip_eqb x k) eqn:E2; auto. ipeq. contradiction.
Qed.

Lemma existsb_remove_ip_self k l : existsb (ip_eqb k) (remove_ip k l) = false.
Proof.
  unfold remove_ip. induction l as [|y r IH]; simpl; auto.
  destruct (ip_eqb y k) eqn:E; simpl; auto. rewrite IH. rewrite ip_eqb_sym, E. reflexivity.
Qed.

Lemma existsb_filter_ip (Q : ip -> bool) x l :
  existsb (ip_eqb x) (filter Q l) = Q x && existsb (ip_eqb x) l.
Proof.
  induction l as [|y r IH]; simpl; [rewrite andb_false_r; reflexivity|].
  destruct (Q y) eqn:QY; simpl; rewrite IH.
  - destruct (ip_eqb x y) eqn:E; simpl; [ipeq; subst; rewrite QY; reflexivity|reflexivity].
  - destruct (ip_eqb x y) eqn:E; simpl; [ipeq; subst; rewrite QY; reflexivity|reflexivity].
Qed.

(* ------------------------------------------------------------------ *)
(* what Parse leaves behind, for a frame whose creation rule fires *)

Lemma mfoc_chan m s : chan (mac_find_or_create m s) = chan s.
Proof. unfold mac_find_or_create. destruct (find_mac m (macs s)); reflexivity. Qed.

Lemma foc_chan m k now s s' b : find_or_create m k now s = Ok (s', b) -> chan s' = chan s.
Proof.
  unfold find_or_create. intros F. destruct (hlookup k (hosts s)) as [h|].
  - destruct (h_mac h =? m).
    + inversion F; subst. reflexivity.
    + destruct (print_table s); simpl in F; try discriminate. inversion F; subst.
      unfold create_host, upd_mac. simpl. rewrite mfoc_chan. apply delete_host_chan.
  - inversion F; subst. unfold create_host, upd_mac. simpl. apply mfoc_chan.
Qed.

Lemma rx_step_facts c s f now m k :
  InvR s -> host_event c f = Some (m, k) ->
  let s1 := fst (step c s (Rx f now)) in
  let cur := currentb (abs s) m k in
  InvR s1 /\ chan s1 = chan s /\ (NoOffer s -> NoOffer s1) /\
  lastf s1 = Some {| fr_host := Some k; fr_online := negb cur; fr_dhcp4 := f_dhcp4 f; fr_src := f_src f |} /\
  (exists hk, hlookup k (hosts s1) = Some hk /\ h_online hk = true /\
              h_dirty hk = (if cur then match hlookup k (hosts s) with Some h => h_dirty h | None => true end else true) /\
              h_names hk = match hlookup k (hosts s) with
                           | Some h => if h_mac h =? m then h_names h else names0
                           | None => names0 end) /\
  (forall k', k' <> k -> hlookup k' (hosts s1) = option_map supersede (hlookup k' (hosts s)) \/
                         hlookup k' (hosts s1) = hlookup k' (hosts s)) /\
  (forall x, abs s1 x = sight m k now (abs s) x).
Proof.
  intros I HE. cbn zeta.
  destruct (find_or_create_total_rx c f now s (proj1 I)) as ([s1 fr] & R).
  assert (S1 : fst (step c s (Rx f now)) = set_lastf (Some fr) s1) by (cbn [step]; rewrite R; reflexivity).
  rewrite S1.
  pose proof (rx_InvR _ _ _ _ _ _ R I) as I1.
  pose proof (rx_refine _ _ _ _ _ _ _ _ I HE R) as AB.
  unfold rx in R. rewrite HE in R.
  destruct (find_or_create m k now s) as [[s0 b]| | |] eqn:F; simpl in R; try discriminate.
  pose proof (find_or_create_InvR _ _ _ _ _ _ F I) as I0.
  pose proof (find_or_create_char _ _ _ _ _ _ F) as CH.
  pose proof (foc_chan _ _ _ _ _ _ F) as CC.
  pose proof (foc_current m k now s) as CUR. fold (currentb (abs s) m k) in CUR.
  set (h0 := match hlookup k (hosts s) with
             | Some h => if h_mac h =? m then set_last now h else new_host m k now
             | None => new_host m k now end) in *.
  assert (L0 : hlookup k (hosts s0) = Some h0) by (rewrite CH, ip_eqb_refl; reflexivity).
  unfold host_online in R. rewrite L0 in R.
  split; [exact I1|].
  destruct (h_online h0) eqn:O0; cbn [negb] in R; inversion R; subst s1 fr; clear R.
  - (* current *)
    rewrite <- CUR. cbn [negb chan lastf hosts set_lastf].
    split; [exact CC|]. split; [intros NO; eapply NoOffer_ext; [|eapply NoOffer_foc; eauto]; reflexivity|].
    split; [reflexivity|]. split.
    + exists h0. split; auto. split; auto. unfold h0 in *. destruct (hlookup k (hosts s)) as [h|]; [|discriminate].
      destruct (h_mac h =? m); [split; reflexivity|discriminate].
    + split; [|exact AB]. intros k' N. right. rewrite CH. destruct (ip_eqb k k') eqn:E; auto. ipeq. congruence.
  - (* transition *)
    rewrite <- CUR. cbn [negb chan lastf hosts set_lastf].
    destruct (InvS_host _ _ _ (proj1 (proj1 I0)) L0) as (_ & e0 & F0 & _).
    destruct (online_transition_char k s0 h0 e0 (proj1 I0) L0 O0 F0) as (LK & _ & CC2 & _).
    split; [rewrite CC2; exact CC|].
    split; [intros NO; eapply NoOffer_ext; [|apply NoOffer_online_transition; eapply NoOffer_foc; eauto]; reflexivity|].
    split; [reflexivity|]. split.
    + eexists. split; [rewrite LK, ip_eqb_refl; reflexivity|]. split; [reflexivity|]. split; [reflexivity|].
      unfold h0. cbn [h_names set_dirty set_online]. destruct (hlookup k (hosts s)) as [h|]; [destruct (h_mac h =? m)|]; reflexivity.
    + split; [|exact AB]. intros k' N. rewrite LK. assert (E : ip_eqb k k' = false) by (apply ip_eqb_neq; congruence).
      rewrite E. rewrite CH, E.
      destruct (is4 k && negb (ip_eqb k (m_ip4 e0)) && sup_cond k (m_hosts e0) k'); [left|right]; reflexivity.
Qed.

Lemma find_or_create_post_rx c s f now m k :
  host_event c f = Some (m, k) -> InvP s ->
  forall hk, hlookup k (hosts (fst (step c s (Rx f now)))) = Some hk -> h_mac hk = m.
Proof.
  intros HE I hk L. destruct (find_or_create_total_rx c f now s I) as ([s1 fr] & R).
  cbn [step] in L. rewrite R in L. cbn [fst hosts set_lastf] in L.
  unfold rx in R. rewrite HE in R.
  destruct (find_or_create m k now s) as [[s0 b]| | |] eqn:F; simpl in R; try discriminate.
  destruct (find_or_create_post _ _ _ _ _ _ F) as (h0 & L0 & M0).
  pose proof (find_or_create_InvP _ _ _ _ _ _ F I) as I0.
  unfold host_online in R. rewrite L0 in R.
  destruct (h_online h0) eqn:O0; cbn [negb] in R; inversion R; subst s1 fr; clear R.
  - rewrite L0 in L. inversion L; subst hk. exact M0.
  - destruct (InvS_host _ _ _ (proj1 I0) L0) as (_ & e0 & F0 & _).
    destruct (online_transition_char k s0 h0 e0 I0 L0 O0 F0) as (LK & _).
    cbn [hosts set_lastf] in L. rewrite LK, ip_eqb_refl in L. inversion L; subst hk. exact M0.
Qed.

(* offers and ownership after Parse *)
Lemma rx_offers c s f now m k : InvP s -> host_event c f = Some (m, k) ->
  forall m', eoffer (fst (step c s (Rx f now))) m' =
    if hadb s m' && negb (hadb (fst (step c s (Rx f now))) m') then IPnone else eoffer s m'.
Proof.
  intros I HE m'. destruct (find_or_create_total_rx c f now s I) as ([s1 fr] & R).
  assert (S1 : fst (step c s (Rx f now)) = set_lastf (Some fr) s1) by (cbn [step]; rewrite R; reflexivity).
  rewrite S1. unfold rx in R. rewrite HE in R.
  destruct (find_or_create m k now s) as [[s0 b]| | |] eqn:F; simpl in R; try discriminate.
  pose proof (foc_offers _ _ _ _ _ _ I F m') as E0.
  assert (SM : Same s0 (set_lastf (Some fr) s1)).
  { destruct (negb (host_online k s0)); inversion R; subst;
      [eapply Same_trans; [apply online_transition_Same|apply Same_ext; reflexivity] | apply Same_ext; reflexivity]. }
  destruct SM as [A B]. rewrite A, B. exact E0.
Qed.

Lemma update_name_chan kd k name s : chan (update_name kd k name s) = chan s.
Proof. unfold update_name. destruct (hlookup k (hosts s)); auto. destruct (merge _ _) as [nm [|]]; reflexivity. Qed.

(* what DHCPv4Update leaves behind *)
Lemma update_step_facts c s m k name now :
  InvR s -> is_valid k && negb (is_unspecified k) = true ->
  let s' := fst (step c s (DHCPv4Update m k name now)) in
  let cur := currentb (abs s) m k in
  let base := match hlookup k (hosts s) with Some h => if h_mac h =? m then h_names h else names0 | None => names0 end in
  let chg := snd (merge (n_dhcp base) name) in
  InvR s' /\ chan s' = chan s /\
  (exists hk, hlookup k (hosts s') = Some hk /\ h_online hk = true /\ h_mac hk = m /\
     h_dirty hk = (match hlookup k (hosts s) with Some h => if h_mac h =? m then h_dirty h else true | None => true end) || chg || negb cur /\
     h_names hk = if chg then nset KDhcp (fst (merge (n_dhcp base) name)) base else base) /\
  (forall k', k' <> k -> hlookup k' (hosts s') = option_map supersede (hlookup k' (hosts s)) \/
                         hlookup k' (hosts s') = hlookup k' (hosts s)) /\
  (forall x, abs s' x = sight m k now (abs s) x) /\
  (forall m', eoffer s' m' = if m' =? m then k else if hadb s m' && negb (hadb s' m') then IPnone else eoffer s m').
Proof.
  intros I V. cbn zeta.
  destruct (dhcp4_update_total m k name now s (proj1 I)) as ([s' e] & R).
  assert (S' : fst (step c s (DHCPv4Update m k name now)) = s') by (cbn [step]; rewrite R; destruct e; reflexivity).
  rewrite S'. clear S'.
  pose proof (dhcp4_update_InvR _ _ _ _ _ _ _ R I) as I'.
  pose proof (dhcp4_update_refine _ _ _ _ _ _ _ I V R) as AB.
  unfold dhcp4_update in R.
  assert (V' : negb (is_valid k) || is_unspecified k = false).
  { destruct (is_valid k), (is_unspecified k); simpl in *; congruence. }
  rewrite V' in R.
  destruct (find_or_create m k now s) as [[s0 b]| | |] eqn:F; simpl in R; try discriminate.
  pose proof (find_or_create_InvR _ _ _ _ _ _ F I) as I0.
  pose proof (find_or_create_char _ _ _ _ _ _ F) as CH.
  pose proof (foc_chan _ _ _ _ _ _ F) as CC.
  pose proof (foc_current m k now s) as CUR. fold (currentb (abs s) m k) in CUR.
  set (h0 := match hlookup k (hosts s) with
             | Some h => if h_mac h =? m then set_last now h else new_host m k now
             | None => new_host m k now end) in *.
  assert (L0 : hlookup k (hosts s0) = Some h0) by (rewrite CH, ip_eqb_refl; reflexivity).
  assert (M0 : h_mac h0 = m).
  { unfold h0. destruct (hlookup k (hosts s)) as [h|]; [destruct (h_mac h =? m) eqn:EM; ipeq; auto|]; reflexivity. }
  set (base := match hlookup k (hosts s) with Some h => if h_mac h =? m then h_names h else names0 | None => names0 end).
  assert (N0 : h_names h0 = base).
  { unfold h0, base. destruct (hlookup k (hosts s)) as [h|]; [destruct (h_mac h =? m)|]; reflexivity. }
  assert (D0 : h_dirty h0 = match hlookup k (hosts s) with Some h => if h_mac h =? m then h_dirty h else true | None => true end).
  { unfold h0. destruct (hlookup k (hosts s)) as [h|]; [destruct (h_mac h =? m)|]; reflexivity. }
  set (chg := snd (merge (n_dhcp base) name)).
  (* update_name on s0 *)
  set (s1 := update_name KDhcp k name s0) in *.
  set (h1 := if chg then set_dirty true (set_hnames (nset KDhcp (fst (merge (n_dhcp base) name)) (h_names h0)) h0) else h0).
  assert (L1 : forall x, hlookup x (hosts s1) = if ip_eqb k x then Some h1 else hlookup x (hosts s0)).
  { intros x. unfold s1, update_name. rewrite L0. cbn [nget]. rewrite N0.
    unfold h1, chg. destruct (merge (n_dhcp base) name) as [nm [|]]; cbn [snd fst].
    - cbn [hosts upd_mac set_macs upd_host set_hosts]. rewrite hlookup_hupd. destruct (ip_eqb k x) eqn:E; auto.
      ipeq. subst x. rewrite L0. cbn [option_map]. rewrite N0. reflexivity.
    - destruct (ip_eqb k x) eqn:E; auto. ipeq. subst x. exact L0. }
  assert (I1 : InvR s1) by (apply update_name_InvR; exact I0).
  set (s2 := upd_mac m (set_moffer k) s1) in *.
  assert (I2 : InvR s2) by (apply upd_mac_InvR_same; [intros ?; split; reflexivity|auto|reflexivity|exact I1]).
  assert (L2 : hlookup k (hosts s2) = Some h1) by (unfold s2; cbn [hosts upd_mac set_macs]; rewrite L1, ip_eqb_refl; reflexivity).
  assert (O1 : h_online h1 = currentb (abs s) m k).
  { rewrite <- CUR. unfold h1. destruct chg; reflexivity. }
  assert (M1 : h_mac h1 = m) by (unfold h1; destruct chg; exact M0).
  assert (E' : s' = if negb (host_online k s2) then online_transition k s2 else s2).
  { destruct (negb (host_online k s2)); inversion R; reflexivity. }
  assert (OFF : forall m', eoffer s2 m' = if m' =? m then k else if hadb s m' && negb (hadb s2 m') then IPnone else eoffer s m').
  { intros m'. assert (LK1 : hlookup k (hosts s1) = Some h1) by (rewrite L1, ip_eqb_refl; reflexivity).
    destruct (InvS_host _ _ _ (proj1 (proj1 I1)) LK1) as (_ & e1 & F1 & _). rewrite M1 in F1.
    pose proof (eoffer_set_moffer m k s1 m') as X. fold s2 in X. rewrite X, F1.
    destruct (m' =? m); [reflexivity|].
    destruct (update_name_Same KDhcp k name s0) as [A1 B1]. fold s1 in A1, B1.
    assert (H2 : hadb s2 m' = hadb s0 m') by (rewrite <- B1; apply hadb_ext; reflexivity).
    rewrite H2, A1. apply (foc_offers _ _ _ _ _ _ (proj1 I) F m'). }
  split; [exact I'|].
  unfold host_online in E'. rewrite L2 in E'. destruct (h_online h1) eqn:OH; cbn [negb] in E'; subst s'.
  - (* already online under m *)
    split; [change (chan (update_name KDhcp k name s0) = chan s); rewrite update_name_chan; exact CC|].
    split.
    + exists h1. split; [exact L2|]. split; [exact OH|]. split; [exact M1|]. rewrite <- O1. cbn [negb]. rewrite orb_false_r.
      unfold h1. fold chg. destruct chg; cbn [h_dirty h_names set_dirty set_hnames]; rewrite ?N0, ?D0, ?orb_true_r, ?orb_false_r; auto.
    + split; [|split; [exact AB|exact OFF]].
      intros k' N. right. unfold s2. cbn [hosts upd_mac set_macs]. rewrite L1, CH.
      assert (E : ip_eqb k k' = false) by (apply ip_eqb_neq; congruence). rewrite E. reflexivity.
  - (* offline or new: onlineTransition *)
    destruct (InvS_host _ _ _ (proj1 (proj1 I2)) L2) as (_ & e2 & F2 & _).
    destruct (online_transition_char k s2 h1 e2 (proj1 I2) L2 OH F2) as (LK & _ & CC2 & _).
    split; [rewrite CC2; change (chan (update_name KDhcp k name s0) = chan s); rewrite update_name_chan; exact CC|].
    split.
    + eexists. split; [rewrite LK, ip_eqb_refl; reflexivity|]. split; [reflexivity|]. split; [exact M1|].
      rewrite <- O1. cbn [negb h_dirty h_names set_dirty set_online]. rewrite orb_true_r. split; [reflexivity|].
      unfold h1. fold chg. destruct chg; cbn [h_names set_dirty set_hnames]; rewrite ?N0; reflexivity.
    + split; [|split; [exact AB|]].
      * intros k' N. rewrite LK. assert (E : ip_eqb k k' = false) by (apply ip_eqb_neq; congruence). rewrite E.
        assert (LS : hlookup k' (hosts s2) = hlookup k' (hosts s)).
        { unfold s2. cbn [hosts upd_mac set_macs]. rewrite L1, CH, E. reflexivity. }
        rewrite LS. destruct (is4 k && negb (ip_eqb k (m_ip4 e2)) && sup_cond k (m_hosts e2) k'); [left|right]; reflexivity.
      * intros m'. destruct (online_transition_Same k s2) as [A B]. rewrite A, B. apply OFF.
Qed.

(* facts about the reference rule *)
Lemma flipb_same a x : flipb a a x = false.
Proof. unfold flipb. destruct (a x) as [e|]; auto. destruct (a_online e); reflexivity. Qed.

Lemma flipb_ext a a' b b' x : a x = b x -> a' x = b' x -> flipb a a' x = flipb b b' x.
Proof. unfold flipb. intros -> ->. reflexivity. Qed.

Lemma sight_other_current m k now a x : x <> k -> currentb a m k = true -> sight m k now a x = a x.
Proof.
  intros N C. unfold sight. fold (currentb a m k). rewrite C. assert (E : ip_eqb x k = false) by (apply ip_eqb_neq; exact N).
  rewrite E. destruct (a x); reflexivity.
Qed.

Lemma sight_flip m k now a x : x <> k -> flipb a (sight m k now a) x = true ->
  currentb a m k = false /\ is4 k = true /\ exists e, a x = Some e /\ a_mac e = m /\ a_online e = true.
Proof.
  intros N FL. destruct (currentb a m k) eqn:C.
  - unfold flipb in FL. rewrite (sight_other_current m k now a x N C) in FL. destruct (a x) as [e|]; [|discriminate].
    destruct (a_online e); discriminate.
  - split; auto. unfold flipb, sight in FL. fold (currentb a m k) in FL. rewrite C in FL.
    assert (E : ip_eqb x k = false) by (apply ip_eqb_neq; exact N). rewrite E in FL.
    destruct (a x) as [e|]; [|discriminate].
    destruct (is4 k) eqn:V, (is4 x) eqn:VX, (a_mac e =? m) eqn:EM, (a_online e) eqn:OE; simpl in FL;
      try rewrite OE in FL; try discriminate.
    split; auto. ipeq. exists e. repeat split; auto.
Qed.

(* ------------------------------------------------------------------ *)
(* disciplined units and the linking invariant *)

Inductive dunit : Set :=
| DFrame (f : fsum) (now : Z)            (* Parse; Notify *)
| DPurge (now : Z) (order : list ip)
| DName (kd : nkind) (k : ip) (name : nent) (* one of the five Update*Name methods on FindIP(k) *)
| DUpdate (m : mac) (k : ip) (name : nent) (now : Z)   (* DHCPv4Update *)
| DOffer (m : mac) (k : ip) (name : nent)              (* SetDHCPv4IPOffer *)
| DCapture (m : mac)
| DRelease (m : mac).

Definition to_u6 (u : dunit) : unit6 :=
  match u with
  | DFrame f now => UFrame f now
  | DPurge now _ => UPurge now
  | DName kd k name => UName kd k name
  | DUpdate m k name now => UUpdate m k name now
  | DOffer m k _ => UOffer m k
  | _ => UOther
  end.

Definition dstep (c : cfg) (s : state) (u : dunit) : state :=
  match u with
  | DFrame f now => frame_unit c s f now
  | DPurge now order => fst (step c s (Purge now order))
  | DName kd k name => fst (step c s (NameUpdate kd k name))
  | DUpdate m k name now => fst (step c s (DHCPv4Update m k name now))
  | DOffer m k name => fst (step c s (SetOffer m k name))
  | DCapture m => fst (step c s (Capture m))
  | DRelease m => fst (step c s (Release m))
  end.

(* the state after the unit with the channel drained, and what was drained *)
Definition exec (c : cfg) (s : state) (u : dunit) : state * list notif :=
  (set_chan [] (dstep c s u), chan (dstep c s u)).

Record J (s : state) (r : rstate) : Prop := {
  J_inv : InvR s;
  J_abs : forall k, abs s k = r_map r k;
  J_chan : chan s = [];
  (* the offer the DHCP path would read is the one the reference remembers *)
  J_off : forall m, eoffer s m = r_offer r m;
  J_dom : forall k, r_map r k <> None -> In k (r_dom r);
  (* a notification is pending in the code exactly for the addresses the reference owes one *)
  J_dirty : forall k h, hlookup k (hosts s) = Some h -> h_dirty h = existsb (ip_eqb k) (r_owed r);
  J_names : forall k h, hlookup k (hosts s) = Some h -> h_names h = r_names r k }.

Definition unit_ok (c : cfg) (s : state) (u : dunit) : Prop :=
  match u with
  | DFrame f now => fsum_wf f /\ forall m, (List.length (mac_hosts m (fst (step c s (Rx f now)))) < 127)%nat
  | DPurge now order => NoDup order /\ (forall k, In k (map fst (hosts s)) -> In k order) /\
                        (List.length order < chan_cap)%nat
  | _ => True
  end.

(* the order clause: everything announced about other addresses (offline) precedes the one
   notification about the frame's own (or, on the DHCP path, the offered) address *)
Definition order_ok (c : cfg) (u : dunit) (em : list notif) : Prop :=
  match u with
  | DFrame f now =>
      exists offs last, em = offs ++ last /\ Forall (fun n => nt_online n = false) offs /\
        (last = [] \/ exists n, last = [n] /\ Forall (fun x => nt_ip x <> nt_ip n) offs)
  | _ => Forall (fun n => nt_online n = false) em
  end.

Lemma J_hosts_macs s s' r : hosts s' = hosts s -> macs s' = macs s -> chan s' = [] -> J s r -> J s' r.
Proof.
  intros EH EM EC [A B C D E F G]. constructor; auto.
  - destruct A as [A1 A2]. split; [eapply InvP_ext; eauto | eapply Inv4_ext; eauto].
  - intros k. unfold abs. rewrite EH. apply B.
  - intros m. rewrite (eoffer_ext s s' EM). apply D.
  - rewrite EH. exact F.
  - rewrite EH. exact G.
Qed.

Lemma frame_unit_notify c s f now fr :
  lastf (fst (step c s (Rx f now))) = Some fr -> frame_unit c s f now = notify fr (fst (step c s (Rx f now))).
Proof.
  intros L. unfold frame_unit. set (s1 := fst (step c s (Rx f now))) in *. cbn [step]. rewrite L. reflexivity.
Qed.

Lemma existsb_sym x l : existsb (fun v => ip_eqb v x) l = existsb (ip_eqb x) l.
Proof. induction l as [|y r IH]; simpl; auto. rewrite IH, (ip_eqb_sym y x). reflexivity. Qed.

(* membership of an indexed address in the host list of a MAC entry *)
Lemma mem_mac_hosts s m x h : InvP s -> hlookup x (hosts s) = Some h ->
  existsb (ip_eqb x) (mac_hosts m s) = (h_mac h =? m).
Proof.
  intros I L. destruct (InvS_host _ _ _ (proj1 I) L) as (_ & e & F & Ix).
  destruct (h_mac h =? m) eqn:E.
  - ipeq. subst m. unfold mac_hosts. rewrite F. apply existsb_exists. exists x. split; auto. apply ip_eqb_refl.
  - destruct (existsb (ip_eqb x) (mac_hosts m s)) eqn:EX; auto. exfalso.
    apply existsb_exists in EX. destruct EX as (v & Iv & Ev). ipeq. subst v.
    unfold mac_hosts in Iv. destruct (find_mac m (macs s)) as [e'|] eqn:F'; [|destruct Iv].
    destruct (InvS_listed _ _ _ _ (proj1 I) F' Iv) as (h' & L' & M' & _). rewrite L in L'. inversion L'; subst. congruence.
Qed.

(* ---- frame units whose creation rule fires ---- *)
Definition owed_after (r : rstate) (m : mac) (k : ip) (now : Z) : list ip :=
  filter (fun x => negb (ip_eqb x k) && negb (sibling_due (r_map r) (sight m k now (r_map r)) (r_owed r) m k x)) (r_owed r).

Definition names_after (r : rstate) (m : mac) (k : ip) : ip -> names :=
  fun x => if ip_eqb x k && created (r_map r) m k then names0 else r_names r x.

Theorem frame_unit_once c s r f now m k :
  J s r -> unit_ok c s (DFrame f now) -> host_event c f = Some (m, k) ->
  let s2 := frame_unit c s f now in
  let cur := currentb (r_map r) m k in
  (exists offs last, chan s2 = offs ++ last /\
      Forall (fun n => nt_online n = false) offs /\ NoDup (map nt_ip offs) /\
      (forall x, x <> k -> existsb (fun v => ip_eqb v x) (map nt_ip offs) =
                           sibling_due (r_map r) (sight m k now (r_map r)) (r_owed r) m k x) /\
      existsb (fun v => ip_eqb v k) (map nt_ip offs) = false /\
      ((negb cur || existsb (ip_eqb k) (r_owed r) = true /\ exists n, last = [n] /\ nt_ip n = k /\ nt_online n = true) \/
       (negb cur || existsb (ip_eqb k) (r_owed r) = false /\ last = []))) /\
  (forall k' h', hlookup k' (hosts s2) = Some h' -> h_dirty h' = existsb (ip_eqb k') (owed_after r m k now)) /\
  (forall k' h', hlookup k' (hosts s2) = Some h' -> h_names h' = names_after r m k k').
Proof.
  intros Js [W CAP] HE. cbn zeta.
  destruct (rx_step_facts c s f now m k (J_inv s r Js) HE) as (I1 & C1 & NO1 & LF & (hk & Lk & Ok & Dk & Nk) & OTH & AB).
  set (s1 := fst (step c s (Rx f now))) in *.
  assert (CUR : currentb (abs s) m k = currentb (r_map r) m k) by (unfold currentb; rewrite (J_abs s r Js); reflexivity).
  rewrite CUR in *. set (cur := currentb (r_map r) m k) in *.
  assert (CURa : currentb (abs s) m k = cur) by (unfold cur, currentb; rewrite (J_abs s r Js); reflexivity).
  assert (FLE : forall x, flipb (abs s) (abs s1) x = flipb (r_map r) (sight m k now (r_map r)) x).
  { intros x. apply flipb_ext; [apply (J_abs s r Js)|]. rewrite AB. apply sight_ext. apply (J_abs s r Js). }
  assert (AB1 : forall x, abs s1 x = sight m k now (r_map r) x).
  { intros x. rewrite AB. apply sight_ext. apply (J_abs s r Js). }
  (* records of the other hosts after Parse *)
  assert (REC : forall x, x <> k -> hlookup x (hosts s1) =
                 if flipb (abs s) (abs s1) x then option_map supersede (hlookup x (hosts s)) else hlookup x (hosts s)).
  { intros x N. unfold flipb, abs. destruct (OTH x N) as [E|E]; rewrite E.
    - destruct (hlookup x (hosts s)) as [hx|]; simpl; auto.
      rewrite supersede_offline. destruct (h_online hx) eqn:OX; simpl; auto.
      unfold supersede. rewrite OX. reflexivity.
    - destruct (hlookup x (hosts s)) as [hx|]; simpl; auto. destruct (h_online hx); reflexivity. }
  (* when the frame's address is current, nothing else changes and nothing is carried along *)
  assert (NOSD : cur = true -> forall x, x <> k ->
                 sibling_due (r_map r) (sight m k now (r_map r)) (r_owed r) m k x = false /\ flipb (abs s) (abs s1) x = false).
  { intros CC x N. split; [unfold sibling_due; fold cur; rewrite CC; reflexivity|].
    rewrite FLE. unfold flipb. rewrite (sight_other_current m k now (r_map r) x N CC).
    destruct (r_map r x) as [e|]; auto. destruct (a_online e); reflexivity. }
  assert (DIRTY : h_dirty hk = negb cur || existsb (ip_eqb k) (r_owed r)).
  { rewrite Dk. destruct cur eqn:CC; [|reflexivity]. simpl.
    unfold cur, currentb in CC. rewrite <- (J_abs s r Js) in CC. unfold abs in CC.
    destruct (hlookup k (hosts s)) as [h|] eqn:L; [|discriminate]. apply (J_dirty s r Js k h L). }
  assert (NAMES : h_names hk = names_after r m k k).
  { rewrite Nk. unfold names_after, created. rewrite ip_eqb_refl. rewrite <- (J_abs s r Js). unfold abs. cbn [andb].
    destruct (hlookup k (hosts s)) as [h|] eqn:L; cbn [option_map aof a_mac]; [|reflexivity].
    destruct (h_mac h =? m); cbn [negb]; [apply (J_names s r Js k h L)|reflexivity]. }
  assert (OWK : existsb (ip_eqb k) (owed_after r m k now) = false).
  { unfold owed_after. rewrite existsb_filter_ip, ip_eqb_refl. reflexivity. }
  assert (OWX : forall x, x <> k -> existsb (ip_eqb x) (owed_after r m k now) =
                  negb (sibling_due (r_map r) (sight m k now (r_map r)) (r_owed r) m k x) && existsb (ip_eqb x) (r_owed r)).
  { intros x N. unfold owed_after. rewrite existsb_filter_ip.
    assert (E : ip_eqb x k = false) by (apply ip_eqb_neq; exact N). rewrite E. reflexivity. }
  assert (NMX : forall x, x <> k -> names_after r m k x = r_names r x).
  { intros x N. unfold names_after. assert (E : ip_eqb x k = false) by (apply ip_eqb_neq; exact N). rewrite E. reflexivity. }
  rewrite (frame_unit_notify _ _ _ _ _ LF). fold s1. unfold notify. cbn [fr_host fr_online].
  destruct (h_dirty hk) eqn:DK.
  2:{ (* repeat traffic, nothing owed *)
    assert (CC : cur = true) by (destruct cur; [reflexivity|simpl in DIRTY; discriminate]).
    unfold notify_host. rewrite Lk, DK. cbn [negb].
    split; [|split].
    - exists [], []. rewrite C1, (J_chan s r Js). repeat split; auto; try constructor.
      intros x N. simpl. symmetry. apply (NOSD CC x N).
    - intros k' h' L'. destruct (ip_eqb k k') eqn:E.
      + ipeq. subst k'. rewrite Lk in L'. inversion L'; subst. rewrite DK, OWK. reflexivity.
      + ipeq. assert (N : k' <> k) by congruence. destruct (NOSD CC k' N) as (SD & FL).
        rewrite REC, FL in L' by auto. rewrite (OWX k' N), SD. apply (J_dirty s r Js k' h' L').
    - intros k' h' L'. destruct (ip_eqb k k') eqn:E.
      + ipeq. subst k'. rewrite Lk in L'. inversion L'; subst. exact NAMES.
      + ipeq. assert (N : k' <> k) by congruence. destruct (NOSD CC k' N) as (SD & FL).
        rewrite REC, FL in L' by auto. rewrite (NMX k' N). apply (J_names s r Js k' h' L'). }
  (* a notification is pending for k *)
  destruct (InvS_host _ _ _ (proj1 (proj1 I1)) Lk) as (Hipk & ek & Fk & _).
  assert (MK : h_mac hk = m) by (apply (find_or_create_post_rx c s f now m k HE (proj1 (J_inv s r Js)) hk Lk)).
  assert (CAPk : (List.length (chan s1) + List.length (mac_hosts (h_mac hk) s1) < chan_cap)%nat).
  { rewrite C1, (J_chan s r Js). simpl. specialize (CAP (h_mac hk)). unfold chan_cap. lia. }
  destruct (notify_host_strong k (negb cur) s1 hk (proj1 I1) Lk DK CAPk) as (offs & n & CH & MI & FO & NI & NO & ND & LKF).
  set (l := notify_list k (negb cur) s1 hk) in *.
  assert (MEM : forall x, x <> k -> existsb (fun v => ip_eqb v x) l =
                  sibling_due (r_map r) (sight m k now (r_map r)) (r_owed r) m k x).
  { intros x N. rewrite existsb_sym. unfold sibling_due. fold cur. unfold l, notify_list. rewrite Hipk, MK.
    destruct (negb cur && is4 k) eqn:G; [|reflexivity]. cbn [andb].
    rewrite existsb_filter_ip. assert (E : ip_eqb x k = false) by (apply ip_eqb_neq; exact N). rewrite E. cbn [negb andb].
    unfold sib_off. rewrite <- AB1. rewrite <- FLE. unfold abs at 1.
    destruct (hlookup x (hosts s1)) as [h1|] eqn:L1; cbn [option_map]; [|reflexivity].
    rewrite (mem_mac_hosts s1 m x h1 (proj1 I1) L1). cbn [aof a_mac a_online].
    assert (DX : h_online h1 = false -> h_dirty h1 = flipb (abs s) (abs s1) x || existsb (ip_eqb x) (r_owed r)).
    { intros O1. rewrite REC in L1 by auto. destruct (flipb (abs s) (abs s1) x) eqn:FL.
      - destruct (hlookup x (hosts s)) as [hx|] eqn:LX; [|discriminate]. simpl in L1. inversion L1; subst h1.
        pose proof FL as FL0. unfold flipb, abs in FL0. rewrite LX in FL0. cbn [option_map] in FL0.
        destruct (option_map aof (hlookup x (hosts s1))) as [e1|]; [|discriminate FL0].
        apply andb_prop in FL0. destruct FL0 as [OX _]. cbn [aof a_online] in OX.
        unfold supersede. rewrite OX. reflexivity.
      - simpl. apply (J_dirty s r Js x h1 L1). }
    destruct (h_mac h1 =? m); cbn [andb]; [|rewrite andb_false_r; reflexivity].
    destruct (h_online h1) eqn:O1; cbn [negb andb]; [reflexivity|]. rewrite andb_true_r. apply DX. reflexivity. }
  assert (NKL : existsb (fun v => ip_eqb v k) l = false).
  { destruct (existsb (fun v => ip_eqb v k) l) eqn:EX; auto. exfalso.
    apply existsb_exists in EX. destruct EX as (v & Iv & Ev). ipeq. subst v.
    unfold l, notify_list in Iv. destruct (negb cur && is4 (h_ip hk)); [|destruct Iv]. apply filter_In in Iv.
    destruct Iv as [_ Pv]. rewrite ip_eqb_refl in Pv. discriminate. }
  (* a host outside the list that was turned offline by this sighting does not exist *)
  assert (FLSD : forall x, x <> k -> flipb (abs s) (abs s1) x = true ->
                   sibling_due (r_map r) (sight m k now (r_map r)) (r_owed r) m k x = true).
  { intros x N FL. rewrite FLE in FL. pose proof FL as FL2. apply sight_flip in FL2; auto.
    destruct FL2 as (CF & V4 & e & AX & EM & EO). unfold sibling_due. fold cur. unfold cur. rewrite CF, V4, FL. cbn [negb andb orb].
    rewrite andb_true_r. unfold sib_off. unfold flipb in FL. rewrite AX in FL.
    destruct (sight m k now (r_map r) x) as [e'|] eqn:SX; [|discriminate].
    assert (ME : a_mac e' = a_mac e).
    { unfold sight in SX. assert (E : ip_eqb x k = false) by (apply ip_eqb_neq; exact N). rewrite E, AX in SX.
      destruct (negb _ && is4 k && is4 x && (a_mac e =? m)); inversion SX; reflexivity. }
    rewrite ME, EM, N.eqb_refl. rewrite EO in FL. simpl in FL. rewrite FL. reflexivity. }
  split; [|split].
  - exists offs, [n]. rewrite CH, C1, (J_chan s r Js). cbn [app]. rewrite MI. repeat split; auto.
    left. split; [rewrite <- DIRTY; reflexivity|]. exists n. repeat split; auto. rewrite NO. exact Ok.
  - intros k' h' L'. rewrite LKF in L'. destruct (ip_eqb k k') eqn:E.
    + ipeq. subst k'. inversion L'; subst h'. rewrite OWK. reflexivity.
    + ipeq. assert (N : k' <> k) by congruence. rewrite (OWX k' N). rewrite MEM in L' by auto.
      destruct (sibling_due (r_map r) (sight m k now (r_map r)) (r_owed r) m k k') eqn:SD.
      * destruct (hlookup k' (hosts s1)) as [h1|]; [|discriminate]. simpl in L'. inversion L'; subst. reflexivity.
      * rewrite REC in L' by auto. destruct (flipb (abs s) (abs s1) k') eqn:FL.
        -- rewrite (FLSD k' N FL) in SD. discriminate.
        -- simpl. apply (J_dirty s r Js k' h' L').
  - intros k' h' L'. rewrite LKF in L'. destruct (ip_eqb k k') eqn:E.
    + ipeq. subst k'. inversion L'; subst h'. exact NAMES.
    + ipeq. assert (N : k' <> k) by congruence. rewrite (NMX k' N).
      assert (NS1 : forall h1, hlookup k' (hosts s1) = Some h1 -> h_names h1 = r_names r k').
      { intros h1 L1. rewrite REC in L1 by auto. destruct (flipb (abs s) (abs s1) k').
        - destruct (hlookup k' (hosts s)) as [hx|] eqn:LX; [|discriminate]. simpl in L1. inversion L1; subst.
          destruct (supersede_keeps hx) as [_ _]. unfold supersede. destruct (h_online hx); apply (J_names s r Js k' hx LX).
        - apply (J_names s r Js k' h1 L1). }
      destruct (existsb (fun v => ip_eqb v k') l).
      * destruct (hlookup k' (hosts s1)) as [h1|] eqn:L1; [|discriminate]. simpl in L'. inversion L'; subst. apply (NS1 h1 eq_refl).
      * apply NS1. exact L'.
Qed.

(* ---- purge units ---- *)
Lemma existsb_exists_map {A} (g : A -> ip) (l : list A) x :
  existsb (fun v => ip_eqb v x) (map g l) = existsb (fun a => ip_eqb (g a) x) l.
Proof. induction l as [|a r IH]; simpl; auto. rewrite IH. reflexivity. Qed.

Lemma snapshot_lookup order s h : InvP s -> In h (snapshot order s) -> hlookup (h_ip h) (hosts s) = Some h /\ In (h_ip h) order.
Proof.
  intros I Ih. unfold snapshot in Ih. apply in_flat_map in Ih. destruct Ih as (k2 & Io & Ih).
  destruct (hlookup k2 (hosts s)) as [h2|] eqn:L2; [|destruct Ih]. destruct Ih as [<-|[]].
  destruct (InvS_host _ _ _ (proj1 I) L2) as (-> & _). auto.
Qed.

Lemma snapshot_ips_nodup order s (P : host -> bool) : InvP s -> NoDup order -> NoDup (map h_ip (filter P (snapshot order s))).
Proof.
  intros I ND. unfold snapshot. induction order as [|k r IH]; simpl; [constructor|].
  inversion ND; subst. destruct (hlookup k (hosts s)) as [h|] eqn:L; simpl; auto.
  destruct (P h); simpl; auto. constructor; auto.
  intros X. apply in_map_iff in X. destruct X as (h' & E & Ih'). apply filter_In in Ih'. destruct Ih' as [Ih' _].
  destruct (snapshot_lookup r s h' I Ih') as (_ & Ir). rewrite E in Ir.
  destruct (InvS_host _ _ _ (proj1 I) L) as (Hip & _). rewrite Hip in Ir. contradiction.
Qed.

Lemma snapshot_absent order s (P : host -> bool) x : InvP s -> hlookup x (hosts s) = None ->
  existsb (fun h => ip_eqb (h_ip h) x) (filter P (snapshot order s)) = false.
Proof.
  intros I L. destruct (existsb _ _) eqn:EX; auto. apply existsb_exists in EX. destruct EX as (h & Ih & E).
  apply filter_In in Ih. destruct Ih as [Ih _]. destruct (snapshot_lookup _ _ _ I Ih) as (Lh & _). ipeq. congruence.
Qed.

Theorem purge_unit_once c s r now order :
  J s r -> unit_ok c s (DPurge now order) ->
  let s2 := fst (step c s (Purge now order)) in
  (Forall (fun n => nt_online n = false) (chan s2) /\ NoDup (map nt_ip (chan s2)) /\
   forall x, existsb (fun v => ip_eqb v x) (map nt_ip (chan s2)) = flipb (r_map r) (age c now (r_map r)) x) /\
  (forall k' h', hlookup k' (hosts s2) = Some h' ->
     h_dirty h' = existsb (ip_eqb k') (filter (fun x => negb (flipb (r_map r) (age c now (r_map r)) x)) (r_owed r))) /\
  (forall k' h', hlookup k' (hosts s2) = Some h' -> h_names h' = r_names r k').
Proof.
  intros Js (ND & CO & CAP). cbn zeta. pose proof (proj1 (J_inv s r Js)) as IP.
  destruct (purge_shape_proof c now order s (InvP_Inv s IP)) as (ns & CH & MI & FO).
  { rewrite (J_chan s r Js). simpl. exact CAP. }
  rewrite (J_chan s r Js) in CH. cbn [app] in CH.
  assert (FLIP : forall x, flipb (r_map r) (age c now (r_map r)) x =
                 match hlookup x (hosts s) with Some h0 => aged c now h0 | None => false end).
  { intros x. unfold flipb, age. rewrite <- (J_abs s r Js). unfold abs, aged.
    destruct (hlookup x (hosts s)) as [h0|]; simpl; auto.
    destruct (h_online h0) eqn:O; simpl.
    - replace (h_last h0 + offline_dl c <? now)%Z with (h_last h0 <? now - offline_dl c)%Z by lia.
      destruct (h_last h0 <? now - offline_dl c)%Z; simpl; [reflexivity|rewrite O; reflexivity].
    - destruct (h_last h0 + purge_dl c <? now)%Z; simpl; auto; try (rewrite O; reflexivity). }
  assert (LK : forall x, hlookup x (hosts (fst (step c s (Purge now order)))) =
                 match hlookup x (hosts s) with
                 | Some h0 => if negb (h_online h0) && (h_last h0 <? now - purge_dl c)%Z then None
                              else if aged c now h0 then Some (offl h0) else Some h0
                 | None => None end).
  { intros x. cbn [step fst]. unfold purge. rewrite fold_delete_lookup, fold_make_offline_lookup.
    destruct (hlookup x (hosts s)) as [h0|] eqn:L0.
    - assert (Io : In x order) by (apply CO; apply hlookup_In in L0; apply in_map_iff; exists (x, h0); auto).
      rewrite !(snapshot_member s order _ x h0 IP L0 Io). unfold aged. reflexivity.
    - rewrite !(snapshot_absent order s _ x IP L0). reflexivity. }
  split; [|split].
  - rewrite CH. split; [exact FO|]. split; [rewrite MI; apply snapshot_ips_nodup; auto|].
    intros x. rewrite MI, FLIP. rewrite existsb_exists_map.
    destruct (hlookup x (hosts s)) as [h0|] eqn:L0.
    + apply (snapshot_member s order (aged c now) x h0 IP L0).
      apply CO. apply hlookup_In in L0. apply in_map_iff. exists (x, h0). auto.
    + apply snapshot_absent; auto.
  - intros k' h' L'. rewrite LK in L'. destruct (hlookup k' (hosts s)) as [h0|] eqn:L0; [|discriminate].
    destruct (negb (h_online h0) && (h_last h0 <? now - purge_dl c)%Z); [discriminate|].
    rewrite existsb_filter_ip, FLIP, L0.
    destruct (aged c now h0) eqn:AG; inversion L'; subst h'; [reflexivity|]. simpl. apply (J_dirty s r Js k' h0 L0).
  - intros k' h' L'. rewrite LK in L'. destruct (hlookup k' (hosts s)) as [h0|] eqn:L0; [|discriminate].
    destruct (negb (h_online h0) && (h_last h0 <? now - purge_dl c)%Z); [discriminate|].
    destruct (aged c now h0); inversion L'; subst h'; apply (J_names s r Js k' h0 L0).
Qed.


(* ---- frame units without host event: the DHCP path of Notify ---- *)
Definition owed_after_dhcp (r : rstate) (y : ip) : list ip :=
  filter (fun x => negb (ip_eqb x y) && negb (dhcp_sib (r_map r) (r_owed r) y x)) (r_owed r).

Theorem frame_none_once c s r f now :
  J s r -> unit_ok c s (DFrame f now) -> host_event c f = None ->
  let s2 := frame_unit c s f now in
  Same s s2 /\ (forall x, abs s2 x = abs s x) /\
  match dhcp_target r f with
  | None => hosts s2 = hosts s /\ chan s2 = []
  | Some y =>
      (exists offs n, chan s2 = offs ++ [n] /\ Forall (fun z => nt_online z = false) offs /\ NoDup (map nt_ip offs) /\
          (forall x, x <> y -> existsb (fun v => ip_eqb v x) (map nt_ip offs) = dhcp_sib (r_map r) (r_owed r) y x) /\
          existsb (fun v => ip_eqb v y) (map nt_ip offs) = false /\
          nt_ip n = y /\ nt_online n = match r_map r y with Some e => a_online e | None => false end) /\
      (forall k' h', hlookup k' (hosts s2) = Some h' -> h_dirty h' = existsb (ip_eqb k') (owed_after_dhcp r y)) /\
      (forall k' h', hlookup k' (hosts s2) = Some h' -> h_names h' = r_names r k')
  end.
Proof.
  intros Js [W CAP] HE. cbn zeta.
  set (fr := {| fr_host := None; fr_online := false; fr_dhcp4 := f_dhcp4 f; fr_src := Tables.f_src f |}).
  assert (S1 : fst (step c s (Rx f now)) = set_lastf (Some fr) s) by (cbn [step]; unfold rx; rewrite HE; reflexivity).
  assert (FU : frame_unit c s f now = notify fr (set_lastf (Some fr) s)).
  { rewrite (frame_unit_notify c s f now fr); rewrite S1; reflexivity. }
  rewrite FU. set (s1 := set_lastf (Some fr) s).
  assert (SM : Same s (notify fr s1)).
  { eapply Same_trans; [apply (Same_ext s s1); reflexivity|apply notify_Same]. }
  split; [exact SM|]. split; [intros x; rewrite abs_notify; reflexivity|].
  unfold notify, dhcp_target. cbn [fr_host fr_dhcp4 fr_src fr].
  destruct (f_dhcp4 f); cbn [negb]; [|split; [reflexivity|apply (J_chan s r Js)]].
  change (match find_mac (Tables.f_src f) (macs s1) with Some e => m_offer e | None => IPnone end) with (eoffer s (Tables.f_src f)).
  rewrite (J_off s r Js). set (y := r_offer r (Tables.f_src f)).
  destruct (is_valid y) eqn:VY; cbn [negb andb]; [|split; [reflexivity|apply (J_chan s r Js)]].
  change (hosts s1) with (hosts s). rewrite <- (J_abs s r Js y). unfold abs at 1.
  destruct (hlookup y (hosts s)) as [h|] eqn:L; cbn [option_map]; [|split; [reflexivity|apply (J_chan s r Js)]].
  rewrite <- (J_dirty s r Js y h L). cbn [andb].
  destruct (h_dirty h) eqn:DK.
  2:{ unfold notify_host. change (hosts s1) with (hosts s). rewrite L, DK. cbn [negb]. split; [reflexivity|apply (J_chan s r Js)]. }
  pose proof (proj1 (J_inv s r Js)) as IP.
  assert (IP1 : InvP s1) by (revert IP; apply InvP_ext; reflexivity).
  destruct (InvS_host _ _ _ (proj1 IP) L) as (Hipy & ey & Fy & _).
  assert (CAPy : (List.length (chan s1) + List.length (mac_hosts (h_mac h) s1) < chan_cap)%nat).
  { change (chan s1) with (chan s). rewrite (J_chan s r Js). simpl. specialize (CAP (h_mac h)). rewrite S1 in CAP.
    change (mac_hosts (h_mac h) (set_lastf (Some fr) s)) with (mac_hosts (h_mac h) s1) in CAP. unfold chan_cap. lia. }
  destruct (notify_host_strong y true s1 h IP1 L DK CAPy) as (offs & n & CH & MI & FO & NI & NO & ND & LKF).
  change (chan s1) with (chan s) in CH. rewrite (J_chan s r Js) in CH. cbn [app] in CH.
  set (l := notify_list y true s1 h) in *.
  assert (MEM : forall x, x <> y -> existsb (fun v => ip_eqb v x) l = dhcp_sib (r_map r) (r_owed r) y x).
  { intros x N. rewrite existsb_sym. unfold dhcp_sib, l, notify_list. rewrite Hipy. cbn [andb].
    rewrite <- !(J_abs s r Js). unfold abs. rewrite L. cbn [option_map aof a_mac].
    destruct (is4 y); [|reflexivity]. cbn [andb].
    rewrite existsb_filter_ip. assert (E : ip_eqb x y = false) by (apply ip_eqb_neq; exact N). rewrite E. cbn [negb andb].
    change (hosts s1) with (hosts s). change (mac_hosts (h_mac h) s1) with (mac_hosts (h_mac h) s).
    destruct (hlookup x (hosts s)) as [hx|] eqn:LX; cbn [option_map]; [|reflexivity].
    rewrite (mem_mac_hosts s (h_mac h) x hx IP LX). rewrite (J_dirty s r Js x hx LX). cbn [aof a_mac a_online].
    destruct (h_mac hx =? h_mac h), (h_online hx), (existsb (ip_eqb x) (r_owed r)); reflexivity. }
  assert (NKL : existsb (fun v => ip_eqb v y) l = false).
  { destruct (existsb (fun v => ip_eqb v y) l) eqn:EX; auto. exfalso.
    apply existsb_exists in EX. destruct EX as (v & Iv & Ev). ipeq. subst v.
    unfold l, notify_list in Iv. destruct (true && is4 (h_ip h)); [|destruct Iv]. apply filter_In in Iv.
    destruct Iv as [_ Pv]. rewrite ip_eqb_refl in Pv. discriminate. }
  assert (OWX : forall x, existsb (ip_eqb x) (owed_after_dhcp r y) =
                  negb (ip_eqb x y) && negb (dhcp_sib (r_map r) (r_owed r) y x) && existsb (ip_eqb x) (r_owed r)).
  { intros x. unfold owed_after_dhcp. apply existsb_filter_ip. }
  split; [|split].
  - exists offs, n. rewrite CH, MI. repeat split; auto.
    rewrite NO, <- (J_abs s r Js y). unfold abs. rewrite L. reflexivity.
  - intros k' h' L'. rewrite LKF in L'. rewrite OWX. destruct (ip_eqb y k') eqn:E.
    + ipeq. subst k'. inversion L'; subst h'. rewrite ip_eqb_refl. reflexivity.
    + ipeq. assert (N : k' <> y) by congruence. assert (E2 : ip_eqb k' y = false) by (apply ip_eqb_neq; exact N).
      rewrite E2. cbn [negb andb]. rewrite MEM in L' by auto. change (hosts s1) with (hosts s) in L'.
      destruct (dhcp_sib (r_map r) (r_owed r) y k').
      * destruct (hlookup k' (hosts s)) as [h1|]; [|discriminate]. simpl in L'. inversion L'; subst. reflexivity.
      * simpl. apply (J_dirty s r Js k' h' L').
  - intros k' h' L'. rewrite LKF in L'. destruct (ip_eqb y k') eqn:E.
    + ipeq. subst k'. inversion L'; subst h'. apply (J_names s r Js y h L).
    + change (hosts s1) with (hosts s) in L'. destruct (existsb (fun v => ip_eqb v k') l).
      * destruct (hlookup k' (hosts s)) as [h1|] eqn:L1; [|discriminate]. simpl in L'. inversion L'; subst.
        apply (J_names s r Js k' h1 L1).
      * apply (J_names s r Js k' h' L').
Qed.

(* ------------------------------------------------------------------ *)
(* every unit: per-address exactly-once, order, invariant *)

Lemma about_single x n : about x [pair_of n] = if ip_eqb (nt_ip n) x then [pair_of n] else [].
Proof. reflexivity. Qed.

Lemma Forall_offline_ip (offs : list notif) k :
  existsb (fun v => ip_eqb v k) (map nt_ip offs) = false -> Forall (fun n => nt_ip n <> k) offs.
Proof.
  intros E. rewrite Forall_forall. intros n In_ X.
  assert (T : existsb (fun v => ip_eqb v k) (map nt_ip offs) = true).
  { apply existsb_exists. exists (nt_ip n). split; [apply in_map; exact In_|]. rewrite X. apply ip_eqb_refl. }
  congruence.
Qed.

(* the reference's offers after a change of the map, from the model's ownership facts *)
Lemma J_offers_after s s' r a' dom' :
  J s r -> InvP s' -> (forall x, abs s' x = a' x) ->
  (forall x, In x (r_dom r) -> In x dom') -> (forall x, a' x <> None -> In x dom') ->
  (forall m, eoffer s' m = if hadb s m && negb (hadb s' m) then IPnone else eoffer s m) ->
  forall m, eoffer s' m = offers_after (r_map r) a' dom' (r_offer r) m.
Proof.
  intros Js I' AB' INC SUP' E m.
  pose proof (proj1 (J_inv s r Js)) as [(_ & NK & _) _]. pose proof I' as [(_ & NK' & _) _].
  apply (offers_link s s' (r_map r) a' dom' (r_offer r)); auto.
  - apply (J_abs s r Js).
  - intros x H. apply INC. apply (J_dom s r Js x H).
  - apply (J_off s r Js).
Qed.

(* the model's Merge and the reference's [learn]/[learns] agree *)
Lemma merge1_pick o n : merge1 o n = (pick o n, negb (pick o n =? o)).
Proof.
  unfold merge1, pick. destruct (N.eqb_spec n 0) as [->|N0]; cbn [negb andb].
  - rewrite N.eqb_refl. reflexivity.
  - destruct (N.eqb_spec o n) as [->|ON]; cbn [negb].
    + rewrite N.eqb_refl. reflexivity.
    + rewrite (proj2 (N.eqb_neq n o)) by congruence. reflexivity.
Qed.

Lemma merge_learn old new : merge old new = (learn old new, learns old new).
Proof.
  unfold merge, learns, nent_eqb, learn. rewrite !merge1_pick. cbn [ne_name ne_model ne_os ne_manuf].
  f_equal.
  destruct (pick (ne_name old) (ne_name new) =? ne_name old), (pick (ne_model old) (ne_model new) =? ne_model old),
           (pick (ne_os old) (ne_os new) =? ne_os old), (pick (ne_manuf old) (ne_manuf new) =? ne_manuf old); reflexivity.
Qed.

(* an identical repeat teaches nothing, whatever the attributes *)
Lemma learn_idem old new : learns (learn old new) new = false /\ learn (learn old new) new = learn old new.
Proof.
  assert (P : forall o n, pick (pick o n) n = pick o n) by (intros o n; unfold pick; destruct (n =? 0); reflexivity).
  assert (E : learn (learn old new) new = learn old new) by (unfold learn; cbn [ne_name ne_model ne_os ne_manuf]; rewrite !P; reflexivity).
  split; [|exact E]. unfold learns. rewrite E. unfold nent_eqb. rewrite !N.eqb_refl. reflexivity.
Qed.

(* a name update *)
Lemma name_unit c s r kd k name :
  J s r ->
  let s2 := fst (step c s (NameUpdate kd k name)) in
  chan s2 = chan s /\ J (set_chan [] s2) (rnext c r (UName kd k name)).
Proof.
  intros Js. cbn zeta. cbn [step fst]. pose proof Js as [A B C0 D E F G].
  split; [apply update_name_chan|].
  assert (NC : name_changes r kd k name =
               match hlookup k (hosts s) with Some h => snd (merge (nget kd (h_names h)) name) | None => false end).
  { unfold name_changes. rewrite <- B. unfold abs. destruct (hlookup k (hosts s)) as [h|] eqn:L; simpl; auto.
    rewrite (G k h L), merge_learn. reflexivity. }
  cbn [rnext]. rewrite NC.
  assert (COMMON : InvR (set_chan [] (update_name kd k name s)) /\
                   (forall m, eoffer (set_chan [] (update_name kd k name s)) m = eoffer s m) /\
                   forall x, abs (set_chan [] (update_name kd k name s)) x = abs s x).
  { split; [apply (update_name_InvR kd k name s A)|]. split.
    - intros m. rewrite (eoffer_ext (update_name kd k name s) (set_chan [] (update_name kd k name s)) eq_refl).
      apply (update_name_Same kd k name s).
    - intros x. apply (abs_update_name kd k name s x). }
  destruct COMMON as (IR & EO & AB).
  unfold update_name in *. destruct (hlookup k (hosts s)) as [h|] eqn:L.
  - rewrite (merge_learn (nget kd (h_names h)) name) in *. rewrite <- (G k h L).
    destruct (learns (nget kd (h_names h)) name) eqn:MOD; cbn [snd fst] in *.
    + constructor; auto.
      * intros x. rewrite AB. apply B.
      * intros m. rewrite EO. apply D.
      * intros x hx Lx. cbn [hosts set_chan upd_mac set_macs upd_host set_hosts] in Lx. rewrite hlookup_hupd in Lx.
        cbn [r_owed existsb]. rewrite (ip_eqb_sym x k). destruct (ip_eqb k x) eqn:EX.
        -- ipeq. subst x. rewrite L in Lx. simpl in Lx. inversion Lx; subst. reflexivity.
        -- rewrite (F x hx Lx). reflexivity.
      * intros x hx Lx. cbn [hosts set_chan upd_mac set_macs upd_host set_hosts] in Lx. rewrite hlookup_hupd in Lx.
        cbn [r_names]. rewrite (ip_eqb_sym x k). destruct (ip_eqb k x) eqn:EX.
        -- ipeq. subst x. rewrite L in Lx. simpl in Lx. inversion Lx; subst. cbn [h_names set_dirty set_hnames].
           rewrite (G k h L). reflexivity.
        -- apply (G x hx Lx).
    + apply (J_hosts_macs s); auto.
  - apply (J_hosts_macs s); auto.
Qed.

(* SetDHCPv4IPOffer *)
Lemma offer_unit c s r m k name :
  J s r ->
  let s2 := fst (step c s (SetOffer m k name)) in
  chan s2 = chan s /\ J (set_chan [] s2) (rnext c r (UOffer m k)).
Proof.
  intros Js. cbn zeta. cbn [step fst]. pose proof Js as [A B C0 D E F G].
  assert (HS : hosts (set_offer m k name s) = hosts s) by (unfold set_offer; cbn [hosts upd_mac set_macs]; apply mfoc_hosts).
  split; [unfold set_offer; cbn [chan upd_mac set_macs]; apply mfoc_chan|].
  cbn [rnext]. constructor; cbn [r_map r_owed r_names r_offer r_dom]; auto.
  - apply (set_offer_InvR m k name s A).
  - intros x. unfold abs. cbn [hosts set_chan]. rewrite HS. apply B.
  - intros m'. rewrite (eoffer_ext (set_offer m k name s) (set_chan [] (set_offer m k name s)) eq_refl).
    unfold set_offer, set_offer_of. rewrite eoffer_upd_mac_gen by reflexivity.
    destruct (m' =? m) eqn:EM.
    + pose proof (mfoc_In m s) as IM. destruct (find_mac m (macs (mac_find_or_create m s))) as [e|] eqn:FM; [reflexivity|].
      apply find_mac_None in FM. contradiction.
    + rewrite (proj1 (mfoc_Same m s)). apply D.
  - cbn [hosts set_chan]. rewrite HS. exact F.
  - cbn [hosts set_chan]. rewrite HS. exact G.
Qed.

(* DHCPv4Update *)
Lemma update_unit c s r m k name now :
  J s r ->
  let s2 := fst (step c s (DHCPv4Update m k name now)) in
  chan s2 = chan s /\ J (set_chan [] s2) (rnext c r (UUpdate m k name now)).
Proof.
  intros Js. cbn zeta. pose proof Js as [A B C0 D E F G].
  destruct (is_valid k && negb (is_unspecified k)) eqn:V.
  2:{ assert (NOP : fst (step c s (DHCPv4Update m k name now)) = s).
      { cbn [step]. unfold dhcp4_update.
        assert (V' : negb (is_valid k) || is_unspecified k = true) by (destruct (is_valid k), (is_unspecified k); simpl in *; congruence).
        rewrite V'. reflexivity. }
      rewrite NOP. split; [reflexivity|]. cbn [rnext]. rewrite V. apply (J_hosts_macs s); auto. }
  destruct (update_step_facts c s m k name now A V) as (I' & CH & (hk & Lk & Ok & Mk & Dk & Nk) & OTH & AB & OFF).
  set (s' := fst (step c s (DHCPv4Update m k name now))) in *.
  split; [exact CH|]. cbn [rnext]. rewrite V.
  (* the model's quantities in the reference's terms *)
  assert (CUR : currentb (abs s) m k = currentb (r_map r) m k) by (unfold currentb; rewrite B; reflexivity).
  assert (CRE : created (r_map r) m k = match hlookup k (hosts s) with Some h => negb (h_mac h =? m) | None => true end).
  { unfold created. rewrite <- B. unfold abs. destruct (hlookup k (hosts s)); reflexivity. }
  assert (BASE : upd_base r m k = match hlookup k (hosts s) with Some h => if h_mac h =? m then h_names h else names0 | None => names0 end).
  { unfold upd_base. rewrite CRE. destruct (hlookup k (hosts s)) as [h|] eqn:L; [|reflexivity].
    destruct (h_mac h =? m); cbn [negb]; [symmetry; apply (G k h L)|reflexivity]. }
  assert (CHG : upd_changed r m k name = snd (merge (n_dhcp (match hlookup k (hosts s) with Some h => if h_mac h =? m then h_names h else names0 | None => names0 end)) name)).
  { unfold upd_changed. rewrite BASE, merge_learn. reflexivity. }
  assert (AB1 : forall x, abs s' x = sight m k now (r_map r) x) by (intros x; rewrite AB; apply sight_ext; exact B).
  assert (FLE : forall x, flipb (abs s) (abs s') x = flipb (r_map r) (sight m k now (r_map r)) x).
  { intros x. apply flipb_ext; [apply B|apply AB1]. }
  assert (REC : forall x, x <> k -> hlookup x (hosts s') =
                 if flipb (abs s) (abs s') x then option_map supersede (hlookup x (hosts s)) else hlookup x (hosts s)).
  { intros x N. unfold flipb, abs. destruct (OTH x N) as [E0|E0]; rewrite E0.
    - destruct (hlookup x (hosts s)) as [hx|]; simpl; auto.
      rewrite supersede_offline. destruct (h_online hx) eqn:OX; simpl; auto.
      unfold supersede. rewrite OX. reflexivity.
    - destruct (hlookup x (hosts s)) as [hx|]; simpl; auto. destruct (h_online hx); reflexivity. }
  set (dom' := add_ip k (r_dom r)).
  assert (SUP' : forall x, sight m k now (r_map r) x <> None -> In x dom') by (intros x; apply sight_support; exact E).
  constructor; cbn [r_map r_owed r_names r_offer r_dom]; auto.
  - (* offers *)
    intros m'. rewrite (eoffer_ext s' (set_chan [] s') eq_refl). rewrite OFF. unfold set_offer_of.
    destruct (m' =? m); [reflexivity|].
    assert (X : forall m0, (if hadb s m0 && negb (hadb s' m0) then IPnone else eoffer s m0) =
                          offers_after (r_map r) (sight m k now (r_map r)) dom' (r_offer r) m0).
    { intros m0. pose proof (proj1 A) as [(_ & NK & _) _]. pose proof (proj1 I') as [(_ & NK' & _) _].
      unfold offers_after.
      rewrite (has_addr_hadb s (r_map r) dom' m0 NK B) by (intros x H; apply add_ip_incl; apply (E x H)).
      rewrite (has_addr_hadb s' (sight m k now (r_map r)) dom' m0 NK' AB1 SUP'). rewrite D. reflexivity. }
    apply X.
  - (* pending notifications *)
    intros x hx Lx. cbn [hosts set_chan] in Lx. rewrite !existsb_app. rewrite existsb_filter_ip.
    destruct (ip_eqb x k) eqn:EX.
    + ipeq. subst x. rewrite Lk in Lx. inversion Lx; subst hx. rewrite Dk. cbn [negb andb orb].
      rewrite <- CHG, CUR.
      assert (X : existsb (ip_eqb k) (if negb (currentb (r_map r) m k) || upd_changed r m k name then [k] else []) =
                  negb (currentb (r_map r) m k) || upd_changed r m k name).
      { destruct (negb _ || _); cbn [existsb]; rewrite ?ip_eqb_refl; reflexivity. }
      rewrite X.
      destruct (hlookup k (hosts s)) as [h|] eqn:L; [destruct (h_mac h =? m) eqn:EM|].
      * rewrite (F k h L).
        destruct (existsb (ip_eqb k) (r_owed r)), (upd_changed r m k name), (currentb (r_map r) m k); reflexivity.
      * assert (NC : currentb (r_map r) m k = false).
        { unfold currentb. rewrite <- B. unfold abs. rewrite L. simpl. rewrite EM. reflexivity. }
        rewrite NC. cbn [negb orb]. rewrite ?orb_true_r. reflexivity.
      * assert (NC : currentb (r_map r) m k = false) by (unfold currentb; rewrite <- B; unfold abs; rewrite L; reflexivity).
        rewrite NC. cbn [negb orb]. rewrite ?orb_true_r. reflexivity.
    + ipeq. assert (N : x <> k) by exact EX. rewrite REC in Lx by auto.
      assert (K0 : existsb (ip_eqb x) (if negb (currentb (r_map r) m k) || upd_changed r m k name then [k] else []) = false).
      { destruct (negb _ || _); cbn [existsb]; rewrite ?orb_false_r; [apply ip_eqb_neq; exact N|reflexivity]. }
      rewrite K0. cbn [negb andb orb]. rewrite <- FLE.
      destruct (flipb (abs s) (abs s') x) eqn:FL.
      * destruct (hlookup x (hosts s)) as [h0|] eqn:L0; [|discriminate]. simpl in Lx. inversion Lx; subst hx.
        assert (INX : existsb (ip_eqb x) dom' = true).
        { apply existsb_exists. exists x. split; [|apply ip_eqb_refl]. apply add_ip_incl. apply E. rewrite <- B. unfold abs. rewrite L0. discriminate. }
        rewrite INX. cbn [andb orb].
        unfold flipb, abs in FL. rewrite L0 in FL. cbn [option_map] in FL.
        destruct (option_map aof (hlookup x (hosts s'))); [|discriminate].
        apply andb_prop in FL. destruct FL as [OX _]. cbn [aof a_online] in OX. unfold supersede. rewrite OX. reflexivity.
      * cbn [andb orb]. apply (F x hx Lx).
  - (* names *)
    intros x hx Lx. cbn [hosts set_chan] in Lx. destruct (ip_eqb x k) eqn:EX.
    + ipeq. subst x. rewrite Lk in Lx. inversion Lx; subst hx. rewrite Nk, CHG, BASE, !merge_learn. reflexivity.
    + ipeq. rewrite REC in Lx by auto. destruct (flipb (abs s) (abs s') x).
      * destruct (hlookup x (hosts s)) as [h0|] eqn:L0; [|discriminate]. simpl in Lx. inversion Lx; subst.
        unfold supersede. destruct (h_online h0); apply (G x h0 L0).
      * apply (G x hx Lx).
Qed.

Theorem unit_once c s r u :
  J s r -> unit_ok c s u ->
  (forall x, about x (map pair_of (snd (exec c s u))) = due c r (to_u6 u) x) /\
  order_ok c u (snd (exec c s u)) /\
  J (fst (exec c s u)) (rnext c r (to_u6 u)).
Proof.
  intros Js OK. destruct u as [f now|now order|kd k name|m k name now|m k name|m|m]; unfold exec; cbn [fst snd dstep to_u6].
  - (* frame *)
    destruct OK as [W CAP]. pose proof (event_agree c f W) as EA.
    assert (IR2 : InvR (frame_unit c s f now)).
    { unfold frame_unit. apply step_InvR. apply step_InvR. apply (J_inv s r Js). }
    destruct (host_event c f) as [[m k]|] eqn:HE.
    + destruct (frame_unit_once c s r f now m k Js (conj W CAP) HE) as ((offs & last & CH & FO & ND & MEM & NK & LAST) & JD & JN).
      destruct (rx_step_facts c s f now m k (J_inv s r Js) HE) as (I1 & C1 & NO1 & LF & _ & _ & AB).
      assert (AB2 : forall x, abs (frame_unit c s f now) x = sight m k now (r_map r) x).
      { intros x. rewrite (frame_unit_notify _ _ _ _ _ LF). rewrite abs_notify, AB. apply sight_ext. apply (J_abs s r Js). }
      split; [|split].
      * intros x. cbn [due]. rewrite <- EA. rewrite CH, map_app, about_app.
        rewrite (about_offline_nodup x offs FO ND).
        destruct (ip_eqb x k) eqn:E.
        -- ipeq. subst x. rewrite NK. cbn [app].
           destruct LAST as [(CND & n & -> & NI & NO)|(CND & ->)]; rewrite CND.
           ++ cbn [map]. rewrite about_single, NI, ip_eqb_refl. unfold pair_of. rewrite NI, NO. reflexivity.
           ++ reflexivity.
        -- ipeq. rewrite (MEM x E).
           assert (LZ : about x (map pair_of last) = []).
           { destruct LAST as [(_ & n & -> & NI & _)|(_ & ->)]; [|reflexivity].
             cbn [map]. rewrite about_single, NI. destruct (ip_eqb k x) eqn:E2; auto. ipeq. congruence. }
           rewrite LZ, app_nil_r. reflexivity.
      * unfold order_ok. exists offs, last. split; auto. split; auto.
        destruct LAST as [(_ & n & -> & NI & _)|(_ & ->)]; [right; exists n; split; auto; rewrite NI; apply Forall_offline_ip; exact NK|left; reflexivity].
      * cbn [rnext]. rewrite <- EA. constructor; cbn [r_map r_owed r_names r_offer r_dom]; auto.
        -- (* offers *)
           intros m0. rewrite (eoffer_ext (frame_unit c s f now) (set_chan [] (frame_unit c s f now)) eq_refl).
           apply (J_offers_after s (frame_unit c s f now) r (sight m k now (r_map r)) (add_ip k (r_dom r)) Js (proj1 IR2) AB2).
           ++ intros x. apply add_ip_incl.
           ++ intros x. apply sight_support. apply (J_dom s r Js).
           ++ intros m1. rewrite (frame_unit_notify _ _ _ _ _ LF).
              destruct (notify_Same {| fr_host := Some k; fr_online := negb (currentb (abs s) m k); fr_dhcp4 := f_dhcp4 f; fr_src := Tables.f_src f |}
                          (fst (step c s (Rx f now)))) as [SA SB].
              rewrite SA, SB. apply (rx_offers c s f now m k (proj1 (J_inv s r Js)) HE).
        -- intros x. apply sight_support. apply (J_dom s r Js).
    + destruct (frame_none_once c s r f now Js (conj W CAP) HE) as (SM & AB0 & REST).
      cbn [due rnext]. rewrite <- EA.
      assert (COMMON : forall r', r_map r' = r_map r -> r_offer r' = r_offer r -> r_dom r' = r_dom r ->
                (forall k' h', hlookup k' (hosts (frame_unit c s f now)) = Some h' -> h_dirty h' = existsb (ip_eqb k') (r_owed r')) ->
                (forall k' h', hlookup k' (hosts (frame_unit c s f now)) = Some h' -> h_names h' = r_names r' k') ->
                J (set_chan [] (frame_unit c s f now)) r').
      { intros r' E1 E2 E3 HD HN. constructor; auto.
        - intros x. change (abs (frame_unit c s f now) x = r_map r' x). rewrite AB0, E1. apply (J_abs s r Js).
        - intros m0. rewrite (eoffer_ext (frame_unit c s f now) (set_chan [] (frame_unit c s f now)) eq_refl).
          rewrite (proj1 SM), E2. apply (J_off s r Js).
        - intros x. rewrite E1, E3. apply (J_dom s r Js). }
      destruct (dhcp_target r f) as [y|].
      * destruct REST as ((offs & n & CH & FO & ND & MEM & NK & NI & NO) & JD & JN).
        split; [|split].
        -- intros x. rewrite CH, map_app, about_app. rewrite (about_offline_nodup x offs FO ND).
           cbn [map]. rewrite about_single, NI. rewrite (ip_eqb_sym y x).
           destruct (ip_eqb x y) eqn:E.
           ++ ipeq. subst x. rewrite NK. cbn [app]. unfold pair_of. rewrite NI, NO. reflexivity.
           ++ ipeq. rewrite (MEM x E), app_nil_r. reflexivity.
        -- unfold order_ok. exists offs, [n]. split; auto. split; auto. right. exists n. split; auto.
           rewrite NI. apply Forall_offline_ip. exact NK.
        -- apply COMMON; auto.
      * destruct REST as (HS & CH). split; [|split].
        -- intros x. rewrite CH. reflexivity.
        -- unfold order_ok. exists [], []. rewrite CH. repeat split; auto.
        -- apply COMMON; auto; rewrite HS; [apply (J_dirty s r Js)|apply (J_names s r Js)].
  - (* purge *)
    destruct (purge_unit_once c s r now order Js OK) as ((FO & ND & MEM) & JD & JN).
    destruct OK as (NDo & CO & CAP).
    assert (AB2 : forall x, abs (fst (step c s (Purge now order))) x = age c now (r_map r) x).
    { intros x. cbn [step fst]. rewrite purge_refine; [|apply (J_inv s r Js)|exact CO]. unfold age. rewrite (J_abs s r Js). reflexivity. }
    split; [|split].
    + intros x. cbn [due]. rewrite (about_offline_nodup x _ FO ND), MEM. reflexivity.
    + exact FO.
    + cbn [rnext]. constructor; cbn [r_map r_owed r_names r_offer r_dom]; auto.
      * apply (step_InvR c s (Purge now order)). apply (J_inv s r Js).
      * intros m0. rewrite (eoffer_ext (fst (step c s (Purge now order))) (set_chan [] (fst (step c s (Purge now order)))) eq_refl).
        apply (J_offers_after s (fst (step c s (Purge now order))) r (age c now (r_map r)) (r_dom r) Js
                 (proj1 (step_InvR c s (Purge now order) (J_inv s r Js))) AB2); auto.
        -- intros x H. apply (J_dom s r Js). apply (age_support c now (r_map r) x H).
        -- intros m1. cbn [step fst]. unfold purge.
           match goal with |- context [fold_left _ ?del (fold_left ?g ?off s)] => set (s1 := fold_left g off s); set (dl := del) end.
           assert (S1 : Same s s1) by (apply Same_fold; intros; apply make_offline_Same).
           assert (I1 : InvP s1) by (apply fold_left_InvP; [intros; apply make_offline_InvP; auto|apply (J_inv s r Js)]).
           destruct (fold_delete_offers dl s1 I1) as (FA & _). cbn zeta in FA. rewrite FA.
           rewrite (proj1 S1), (proj2 S1). reflexivity.
      * intros x H. apply (J_dom s r Js). apply (age_support c now (r_map r) x H).
  - (* name update *)
    destruct (name_unit c s r kd k name Js) as (CH & Jn).
    split; [|split].
    + intros x. rewrite CH, (J_chan s r Js). reflexivity.
    + rewrite CH, (J_chan s r Js). constructor.
    + exact Jn.
  - (* DHCPv4Update *)
    destruct (update_unit c s r m k name now Js) as (CH & Jn).
    split; [|split].
    + intros x. rewrite CH, (J_chan s r Js). reflexivity.
    + rewrite CH, (J_chan s r Js). constructor.
    + exact Jn.
  - (* SetDHCPv4IPOffer *)
    destruct (offer_unit c s r m k name Js) as (CH & Jn).
    split; [|split].
    + intros x. rewrite CH, (J_chan s r Js). reflexivity.
    + rewrite CH, (J_chan s r Js). constructor.
    + exact Jn.
  - (* Capture *)
    assert (EH : hosts (fst (step c s (Capture m))) = hosts s /\ chan (fst (step c s (Capture m))) = chan s).
    { cbn [step]. unfold capture. destruct (find_mac m (macs (mac_find_or_create m s))) as [e|]; cbn [fst];
        [destruct (m_captured e); [|destruct (m_router e)]|]; cbn [fst hosts chan upd_mac set_macs];
        rewrite ?mfoc_hosts, ?mfoc_chan; auto. }
    assert (EO : forall m0, eoffer (fst (step c s (Capture m))) m0 = eoffer s m0).
    { intros m0. cbn [step]. unfold capture. destruct (find_mac m (macs (mac_find_or_create m s))) as [e|]; cbn [fst];
        [destruct (m_captured e); [|destruct (m_router e)]|]; cbn [fst];
        rewrite ?eoffer_upd_mac by reflexivity; apply (proj1 (mfoc_Same m s)). }
    destruct EH as [EH EC]. split; [|split].
    + intros x. rewrite EC, (J_chan s r Js). reflexivity.
    + rewrite EC, (J_chan s r Js). constructor.
    + cbn [rnext]. destruct Js as [A B C0 D E F G]. constructor; auto.
      * apply (step_InvR c s (Capture m)). exact A.
      * intros x. unfold abs. cbn [hosts set_chan]. rewrite EH. apply B.
      * intros m0. rewrite (eoffer_ext (fst (step c s (Capture m))) (set_chan [] (fst (step c s (Capture m)))) eq_refl). rewrite EO. apply D.
      * cbn [hosts set_chan]. rewrite EH. exact F.
      * cbn [hosts set_chan]. rewrite EH. exact G.
  - (* Release *)
    split; [|split].
    + intros x. cbn [step fst release upd_mac chan set_macs]. rewrite (J_chan s r Js). reflexivity.
    + cbn [step fst release upd_mac chan set_macs]. rewrite (J_chan s r Js). constructor.
    + cbn [rnext]. destruct Js as [A B C0 D E F G]. constructor; auto.
      * apply (step_InvR c s (Release m)). exact A.
      * intros m0. cbn [step fst release]. rewrite (eoffer_ext (upd_mac m (set_mcaptured false) s) (set_chan [] (upd_mac m (set_mcaptured false) s)) eq_refl).
        rewrite eoffer_upd_mac by reflexivity. apply D.
Qed.

(* ---- histories ---- *)
Fixpoint units_ok (c : cfg) (s : state) (us : list dunit) : Prop :=
  match us with
  | [] => True
  | u :: rest => unit_ok c s u /\ units_ok c (fst (exec c s u)) rest
  end.

Fixpoint all_once (c : cfg) (s : state) (r : rstate) (us : list dunit) : Prop :=
  match us with
  | [] => True
  | u :: rest =>
      (forall x, about x (map pair_of (snd (exec c s u))) = due c r (to_u6 u) x) /\
      order_ok c u (snd (exec c s u)) /\
      all_once c (fst (exec c s u)) (rnext c r (to_u6 u)) rest
  end.

Theorem history_once c us : forall s r, J s r -> units_ok c s us -> all_once c s r us.
Proof.
  induction us as [|u rest IH]; simpl; auto. intros s r Js (OK & OKS).
  destruct (unit_once c s r u Js OK) as (A & B & Jn). repeat split; auto.
Qed.

Lemma NoOffer_eoffer s m : NoOffer s -> eoffer s m = IPnone.
Proof.
  intros H. unfold eoffer. destruct (find_mac m (macs s)) as [e|] eqn:F; auto.
  apply find_mac_Some in F. unfold NoOffer in H. rewrite Forall_forall in H. apply H. apply F.
Qed.

(* ---- NewSession establishes the linking invariant ---- *)
Theorem new_session_J c now s0 : own_mac c <> rt_mac c -> new_session c now = Ok s0 -> J s0 (rinit c now).
Proof.
  intros NEQ H. pose proof (new_session_InvR c now s0 NEQ H) as IR. pose proof (new_session_abs c now s0 H) as AB.
  unfold new_session in H. rewrite foc_empty in H. simpl bind in H. cbn [fst] in H.
  set (s1 := create_host (own_mac c) (own_ip4 c) now empty_state) in *.
  assert (L1 : forall k', hlookup k' (hosts s1) = if ip_eqb (own_ip4 c) k' then Some (new_host (own_mac c) (own_ip4 c) now) else None).
  { intros k'. unfold s1, create_host, upd_mac, hput. simpl. reflexivity. }
  assert (C1 : chan s1 = [] /\ NoOffer s1).
  { split; [reflexivity|]. unfold s1. apply NoOffer_create. constructor. }
  match type of H with context [find_or_create (rt_mac c) (rt_ip4 c) now ?x] => set (s3 := x) in * end.
  assert (L3 : forall k', hlookup k' (hosts s3) =
     if ip_eqb (own_ip4 c) k' then Some (set_online true (set_last (now + year)%Z (new_host (own_mac c) (own_ip4 c) now))) else None).
  { intros k'. unfold s3. rewrite hosts_um_uh, hlookup_hupd, L1. destruct (ip_eqb (own_ip4 c) k'); reflexivity. }
  assert (C3 : chan s3 = [] /\ NoOffer s3).
  { split; [reflexivity|]. unfold s3. apply NoOffer_upd_mac; [reflexivity|]. apply NoOffer_upd_host. apply C1. }
  destruct (find_or_create (rt_mac c) (rt_ip4 c) now s3) as [[s4 b4]| | |] eqn:F4; simpl in H; try discriminate.
  pose proof (find_or_create_char _ _ _ _ _ _ F4) as CH4.
  pose proof (foc_chan _ _ _ _ _ _ F4) as CC4. pose proof (NoOffer_foc _ _ _ _ _ _ F4 (proj2 C3)) as NO4.
  inversion H; subst s0. constructor; auto.
  - intros m0. cbn [rinit r_offer]. apply NoOffer_eoffer. apply NoOffer_upd_host. apply NoOffer_upd_mac; [reflexivity|exact NO4].
  - intros x HX. cbn [rinit r_dom r_map] in *. unfold ref_init, a_put in HX. unfold add_ip. cbn [existsb].
    destruct (ip_eqb x (rt_ip4 c)) eqn:E1.
    + ipeq. subst x. destruct (ip_eqb (rt_ip4 c) (own_ip4 c) || false) eqn:E2; simpl; auto.
      rewrite orb_false_r in E2. ipeq. rewrite E2. auto.
    + destruct (ip_eqb x (own_ip4 c)) eqn:E2; [|congruence]. ipeq. subst x.
      destruct (ip_eqb (rt_ip4 c) (own_ip4 c) || false); simpl; auto.
  - intros k h L. cbn [hosts upd_host upd_mac set_hosts set_macs] in L. rewrite hlookup_hupd, CH4, !L3 in L.
    cbn [rinit r_owed existsb]. destruct (ip_eqb (rt_ip4 c) k) eqn:E1.
    + ipeq. subst k. rewrite ip_eqb_refl, orb_true_r. simpl in L. inversion L; subst h.
      repeat match goal with |- context [if ?b then _ else _] => destruct b end; reflexivity.
    + destruct (ip_eqb (own_ip4 c) k) eqn:E2; inversion L; subst h.
      ipeq. subst k. rewrite ip_eqb_refl. reflexivity.
  - intros k h L. cbn [hosts upd_host upd_mac set_hosts set_macs] in L. rewrite hlookup_hupd, CH4, !L3 in L.
    cbn [rinit r_names]. destruct (ip_eqb (rt_ip4 c) k) eqn:E1.
    + simpl in L. inversion L; subst h.
      repeat match goal with |- context [if ?b then _ else _] => destruct b end; reflexivity.
    + destruct (ip_eqb (own_ip4 c) k) eqn:E2; inversion L; subst h. reflexivity.
Qed.

(* all disciplined histories from NewSession *)
Theorem exactly_once_proof c now s0 us :
  own_mac c <> rt_mac c -> new_session c now = Ok s0 -> units_ok c s0 us -> all_once c s0 (rinit c now) us.
Proof. intros N H OK. apply history_once; auto. apply new_session_J; auto. Qed.

(* ---- the executable expectation of the dispatch is the per-address [due], enumerated over [dom] ---- *)
Lemma about_map_false x l : NoDup l ->
  about x (map (fun k' : ip => (k', false)) l) = if existsb (ip_eqb x) l then [(x, false)] else [].
Proof.
  induction l as [|y r IH]; simpl; intros ND; auto. inversion ND; subst. rewrite IH; auto.
  rewrite (ip_eqb_sym x y). destruct (ip_eqb y x) eqn:E; simpl; auto. ipeq. subst y.
  destruct (existsb (ip_eqb x) r) eqn:EX; auto. apply existsb_exists in EX. destruct EX as (v & Iv & Ev). ipeq. subst v. contradiction.
Qed.

Lemma sight_none m k now a x : x <> k -> a x = None -> sight m k now a x = None.
Proof.
  intros N A. unfold sight. assert (E : ip_eqb x k = false) by (apply ip_eqb_neq; exact N). rewrite E, A. reflexivity.
Qed.

Theorem expect_due c r u x :
  NoDup (r_dom r) -> (forall k, r_map r k <> None -> In k (r_dom r)) ->
  about x (fst (expect c r u)) = due c r u x.
Proof.
  intros ND SUP.
  assert (OUT : existsb (ip_eqb x) (r_dom r) = false -> r_map r x = None).
  { intros EX. destruct (r_map r x) eqn:A; auto. exfalso.
    assert (I : In x (r_dom r)) by (apply SUP; congruence).
    assert (T : existsb (ip_eqb x) (r_dom r) = true) by (apply existsb_exists; exists x; split; auto; apply ip_eqb_refl). congruence. }
  destruct u as [f now|now|kd k name|m k name now|m k|]; cbn [expect fst due]; auto.
  - destruct (ref_event c f) as [[m k]|].
    + rewrite about_app, about_map_false by (apply NoDup_filter; exact ND). rewrite existsb_filter_ip.
      destruct (ip_eqb x k) eqn:E; simpl.
      * ipeq. subst x. destruct (negb (currentb (r_map r) m k) || existsb (ip_eqb k) (r_owed r)); simpl; [rewrite ip_eqb_refl|]; reflexivity.
      * assert (K : about x (if negb (currentb (r_map r) m k) || existsb (ip_eqb k) (r_owed r) then [(k, true)] else []) = []).
        { destruct (negb _ || _); simpl; rewrite ?(ip_eqb_sym k x), ?E; reflexivity. }
        rewrite K, app_nil_r. destruct (existsb (ip_eqb x) (r_dom r)) eqn:EX; [rewrite andb_true_r; reflexivity|].
        rewrite andb_false_r. unfold sibling_due, sib_off. ipeq. rewrite (sight_none m k now (r_map r) x E (OUT eq_refl)).
        rewrite !andb_false_r. reflexivity.
    + destruct (dhcp_target r f) as [y|]; auto.
      rewrite about_app, about_map_false by (apply NoDup_filter; exact ND). rewrite existsb_filter_ip.
      destruct (ip_eqb x y) eqn:E; simpl.
      * ipeq. subst x. rewrite ip_eqb_refl. reflexivity.
      * rewrite (ip_eqb_sym y x), E, app_nil_r. destruct (existsb (ip_eqb x) (r_dom r)) eqn:EX; [rewrite andb_true_r; reflexivity|].
        rewrite andb_false_r. unfold dhcp_sib. rewrite (OUT eq_refl). destruct (r_map r y); rewrite ?andb_false_r; reflexivity.
  - rewrite about_map_false by (apply NoDup_filter; exact ND). rewrite existsb_filter_ip.
    destruct (existsb (ip_eqb x) (r_dom r)) eqn:EX; [rewrite andb_true_r; reflexivity|].
    rewrite andb_false_r. unfold flipb. rewrite (OUT eq_refl). reflexivity.
Qed.

(* ------------------------------------------------------------------ *)
(* contents: every notification equals toNotification of the tracked state *)

Definition tracked (s : state) (n : notif) : Prop :=
  exists h, hlookup (nt_ip n) (hosts s) = Some h /\ n = to_notif h s.

Definition minfo (s : state) (m : mac) : option (names * bool) :=
  option_map (fun e => (m_names e, m_router e)) (find_mac m (macs s)).

Lemma to_notif_minfo h s s' : minfo s (h_mac h) = minfo s' (h_mac h) -> to_notif h s = to_notif h s'.
Proof.
  unfold minfo, to_notif. destruct (find_mac (h_mac h) (macs s)) as [e|], (find_mac (h_mac h) (macs s')) as [e'|]; simpl; intros E; inversion E; auto; try congruence.
Qed.

Lemma to_notif_flags h h' s : h_ip h' = h_ip h -> h_mac h' = h_mac h -> h_online h' = h_online h -> h_names h' = h_names h ->
  to_notif h' s = to_notif h s.
Proof. unfold to_notif. intros -> -> -> ->. reflexivity. Qed.

Lemma minfo_upd_mac m f s m' : (forall e, m_mac (f e) = m_mac e) -> (forall e, m_names (f e) = m_names e) ->
  (forall e, m_router (f e) = m_router e) -> minfo (upd_mac m f s) m' = minfo s m'.
Proof.
  intros K1 K2 K3. unfold minfo, upd_mac. cbn [macs set_macs]. rewrite find_mac_mupd by exact K1.
  destruct (m =? m'); auto. destruct (find_mac m' (macs s)); simpl; auto. rewrite K2, K3. reflexivity.
Qed.

(* makeOffline announces the tracked state, and leaves other hosts' announcements valid *)
Lemma make_offline_tracked v s h0 : hlookup v (hosts s) = Some h0 -> h_ip h0 = v -> (List.length (chan s) < chan_cap)%nat ->
  exists n, chan (make_offline v s) = chan s ++ [n] /\ tracked (make_offline v s) n /\ nt_ip n = v.
Proof.
  intros L Hip C. unfold make_offline. rewrite L.
  assert (LT : Nat.ltb (List.length (chan s)) chan_cap = true) by (apply Nat.ltb_lt; exact C).
  cbn [chan upd_mac set_macs upd_host set_hosts]. rewrite LT. unfold send. cbn [chan upd_mac set_macs upd_host set_hosts]. rewrite LT.
  eexists. split; [reflexivity|].
  match goal with |- context [to_notif ?h ?st] => set (hn := h); set (st1 := st) end.
  assert (IPn : nt_ip (to_notif hn st1) = v) by (destruct (to_notif_fields hn st1) as (A & _); rewrite A; exact Hip).
  split; [|exact IPn].
  exists hn. split.
  - rewrite IPn. unfold st1, upd_host, upd_mac. cbn [hosts set_chan set_macs set_hosts]. rewrite hlookup_hupd, ip_eqb_refl, L. reflexivity.
  - apply to_notif_minfo. symmetry. apply (minfo_upd_mac _ _ st1); reflexivity.
Qed.

Lemma tracked_transfer s s' n :
  (forall h, hlookup (nt_ip n) (hosts s) = Some h ->
     exists h', hlookup (nt_ip n) (hosts s') = Some h' /\ h_ip h' = h_ip h /\ h_mac h' = h_mac h /\
                h_online h' = h_online h /\ h_names h' = h_names h /\ minfo s' (h_mac h) = minfo s (h_mac h)) ->
  tracked s n -> tracked s' n.
Proof.
  intros T (h & L & E). destruct (T h L) as (h' & L' & A & B & C & D & M). exists h'. split; auto.
  rewrite E. rewrite (to_notif_minfo h s s') by (symmetry; exact M). symmetry. apply to_notif_flags; auto.
Qed.

Lemma make_offline_keeps_tracked w s n : nt_ip n <> w -> tracked s n -> tracked (make_offline w s) n.
Proof.
  intros N. apply tracked_transfer. intros h L. exists h. rewrite make_offline_lookup.
  assert (E : ip_eqb w (nt_ip n) = false) by (apply ip_eqb_neq; congruence). rewrite E. repeat split; auto.
  unfold make_offline. destruct (hlookup w (hosts s)) as [h0|]; auto.
  match goal with |- minfo (if _ then send ?nn ?x else ?y) _ = _ => assert (MX : forall m', minfo x m' = minfo s m') end.
  { intros m'. rewrite minfo_upd_mac by reflexivity. reflexivity. }
  destruct (Nat.ltb _ _); [unfold send; destruct (Nat.ltb _ _)|]; apply MX.
Qed.

Lemma fold_mo_tracked (l : list ip) : forall s, InvP s -> NoDup l ->
  (forall v, In v l -> hlookup v (hosts s) <> None) ->
  (List.length (chan s) + List.length l < chan_cap)%nat ->
  exists ns, chan (fold_left (fun st v => make_offline v st) l s) = chan s ++ ns /\ map nt_ip ns = l /\
             Forall (tracked (fold_left (fun st v => make_offline v st) l s)) ns /\
             (forall n, ~ In (nt_ip n) l -> tracked s n -> tracked (fold_left (fun st v => make_offline v st) l s) n).
Proof.
  induction l as [|v r IH]; simpl; intros s I ND P C.
  - exists []. rewrite app_nil_r. repeat split; auto.
  - inversion ND; subst. destruct (hlookup v (hosts s)) as [h0|] eqn:L; [|exfalso; apply (P v); auto].
    destruct (InvS_host _ _ _ (proj1 I) L) as (Hip & _).
    destruct (make_offline_tracked v s h0 L Hip) as (n & CH & TR & NI); [lia|].
    destruct (IH (make_offline v s)) as (ns & CH' & M' & F1 & KEEP); auto.
    + apply make_offline_InvP. exact I.
    + intros v' Iv'. rewrite make_offline_lookup. destruct (ip_eqb v v'); [|apply P; auto].
      destruct (hlookup v' (hosts s)) eqn:L'; [discriminate|]. exfalso. apply (P v'); auto.
    + rewrite CH, app_length. simpl. lia.
    + exists (n :: ns). rewrite CH', CH, <- app_assoc. simpl. repeat split; auto.
      * rewrite M', NI. reflexivity.
      * constructor; auto. apply KEEP; auto. rewrite NI. exact H1.
      * intros n0 NI0 T0. apply KEEP; [tauto|]. apply make_offline_keeps_tracked; auto.
Qed.

(* every notification a Notify emits is toNotification of the state it leaves behind *)
Theorem notify_host_contents k fl s h :
  InvP s -> hlookup k (hosts s) = Some h -> h_dirty h = true ->
  (List.length (chan s) + List.length (mac_hosts (h_mac h) s) < chan_cap)%nat ->
  exists em, chan (notify_host k fl s) = chan s ++ em /\ Forall (tracked (notify_host k fl s)) em.
Proof.
  intros I L D C. destruct (InvS_host _ _ _ (proj1 I) L) as (Hip & e & F & Ik).
  unfold notify_host. rewrite L, D. cbn [negb]. fold (notify_list k fl s h).
  set (l := notify_list k fl s h).
  assert (LP : forall v, In v l -> v <> k /\ exists x, hlookup v (hosts s) = Some x).
  { intros v Iv. unfold l, notify_list in Iv. destruct (fl && is4 (h_ip h)); [|destruct Iv]. apply filter_In in Iv.
    destruct Iv as [Iv Pv]. apply andb_prop in Pv. destruct Pv as [NE Pv].
    apply negb_true_iff in NE. ipeq. split; auto.
    destruct (hlookup v (hosts s)) as [x|]; [|discriminate]. exists x. reflexivity. }
  assert (LL : (List.length l <= List.length (mac_hosts (h_mac h) s))%nat).
  { unfold l, notify_list. destruct (fl && is4 (h_ip h)); [apply filter_length_le'|simpl; lia]. }
  assert (LND : NoDup l).
  { unfold l, notify_list. destruct (fl && is4 (h_ip h)); [|constructor]. apply NoDup_filter.
    unfold mac_hosts. rewrite F. apply (inv_listed_once s (InvP_Inv s I) e). apply find_mac_Some in F. apply F. }
  destruct (fold_mo_tracked l s I LND) as (ns & CH & MI & F1 & _).
  { intros v Iv. destruct (LP v Iv) as (_ & x & Lx). congruence. }
  { lia. }
  set (s1 := fold_left (fun st v => make_offline v st) l s) in *.
  assert (L1 : hlookup k (hosts s1) = Some h).
  { unfold s1. rewrite fold_mo_lookup. destruct (existsb (fun v => ip_eqb v k) l) eqn:EX; auto.
    apply existsb_exists in EX. destruct EX as (v & Iv & E). ipeq. subst v. destruct (LP k Iv) as (N & _). congruence. }
  rewrite L1. unfold send. cbn [chan upd_host set_hosts].
  assert (LT : Nat.ltb (List.length (chan s1)) chan_cap = true).
  { apply Nat.ltb_lt. rewrite CH, app_length. rewrite <- MI in LL. rewrite map_length in LL. lia. }
  rewrite LT. cbn [chan set_chan]. eexists. split; [rewrite CH, <- app_assoc; reflexivity|].
  set (sF := set_chan (chan s1 ++ [to_notif h s1]) (set_hosts (hupd k (set_dirty false) (hosts s1)) s1)).
  assert (TRANS : forall n, tracked s1 n -> tracked sF n).
  { intros n. apply tracked_transfer. intros hx Lx. unfold sF. cbn [hosts set_chan set_hosts]. rewrite hlookup_hupd.
    destruct (ip_eqb k (nt_ip n)); rewrite Lx; simpl; eexists; split; try reflexivity; repeat split; reflexivity. }
  apply Forall_app. split.
  - eapply Forall_impl; [|exact F1]. exact TRANS.
  - constructor; [|constructor]. apply TRANS. exists h. destruct (to_notif_fields h s1) as (A & _). rewrite A, Hip. auto.
Qed.

Lemma remove_first_keeps v w l : In v l -> v <> w -> In v (remove_first w l).
Proof.
  induction l as [|x r IH]; simpl; auto. intros [A|A] N.
  - subst x. destruct (ip_eqb v w) eqn:E; [ipeq; contradiction|]. simpl. auto.
  - destruct (ip_eqb x w); simpl; auto.
Qed.

Lemma delete_host_keeps_tracked w s n : InvP s -> nt_ip n <> w -> tracked s n -> tracked (delete_host w s) n.
Proof.
  intros I N. apply tracked_transfer. intros h L. exists h.
  rewrite delete_host_hosts, hlookup_hdel.
  assert (E : ip_eqb w (nt_ip n) = false) by (apply ip_eqb_neq; congruence). rewrite E. repeat split; auto.
  unfold delete_host. destruct (hlookup w (hosts s)) as [hw|] eqn:LW; auto.
  destruct (InvS_host _ _ _ (proj1 I) LW) as (Hipw & ew & Fw & _).
  destruct (InvS_host _ _ _ (proj1 I) L) as (_ & e & F & Iv).
  pose proof I as [(_ & _ & NM) _].
  unfold minfo. rewrite (proj2 (clear_lastf_hosts _ _)).
  set (f := fun e0 => set_mhosts (remove_first (h_ip hw) (m_hosts e0)) e0).
  set (s2 := set_hosts (hdel w (hosts (upd_mac (h_mac hw) f s))) (upd_mac (h_mac hw) f s)).
  assert (M2 : option_map (fun e0 => (m_names e0, m_router e0)) (find_mac (h_mac h) (macs s2)) =
               option_map (fun e0 => (m_names e0, m_router e0)) (find_mac (h_mac h) (macs s))).
  { unfold s2. cbn [macs set_hosts upd_mac set_macs]. rewrite find_mac_mupd by reflexivity.
    destruct (h_mac hw =? h_mac h); auto. destruct (find_mac (h_mac h) (macs s)); reflexivity. }
  destruct (mac_hosts (h_mac hw) s2) eqn:MH; [|exact M2].
  cbn [macs set_macs]. rewrite find_mac_mdel.
  - destruct (h_mac hw =? h_mac h) eqn:EM; [|exact M2]. exfalso. ipeq.
    unfold mac_hosts, s2 in MH. cbn [macs set_hosts upd_mac set_macs] in MH. rewrite find_mac_mupd in MH by reflexivity.
    rewrite N.eqb_refl, EM, F in MH. simpl in MH.
    assert (X : In (nt_ip n) (remove_first (h_ip hw) (m_hosts e))) by (apply remove_first_keeps; auto; congruence).
    rewrite MH in X. destruct X.
  - unfold s2. cbn [macs set_hosts upd_mac set_macs]. rewrite mupd_macs by reflexivity. exact NM.
Qed.

Lemma fold_delete_tracked (del : list host) (ns : list notif) : forall s, InvP s ->
  (forall n h, In n ns -> In h del -> nt_ip n <> h_ip h) ->
  Forall (tracked s) ns -> Forall (tracked (fold_left (fun st h => delete_host (h_ip h) st) del s)) ns.
Proof.
  induction del as [|h r IH]; simpl; auto. intros s I D F. apply IH.
  - apply delete_host_InvP. exact I.
  - intros n h' In_ Ih'. apply D; auto.
  - rewrite Forall_forall in *. intros n In_. apply delete_host_keeps_tracked; auto.
Qed.

(* every notification a purge emits is toNotification of the state the purge leaves behind *)
Theorem purge_contents c now order s :
  Inv s -> NoDup order -> (List.length (chan s) + List.length order < chan_cap)%nat ->
  exists ns, chan (purge c now order s) = chan s ++ ns /\ Forall (tracked (purge c now order s)) ns.
Proof.
  intros I0 ND C. pose proof (Inv_InvP s I0) as I. unfold purge.
  rewrite fold_delete_chan, fold_left_map_mo.
  set (off := filter (fun h => h_online h && (h_last h <? now - offline_dl c)%Z) (snapshot order s)).
  set (del := filter (fun h => negb (h_online h) && (h_last h <? now - purge_dl c)%Z) (snapshot order s)).
  destruct (fold_mo_tracked (map h_ip off) s I) as (ns & CH & MI & F1 & _).
  - apply snapshot_ips_nodup; auto.
  - intros v Iv. apply in_map_iff in Iv. destruct Iv as (h & <- & Ih). apply filter_In in Ih.
    destruct (snapshot_lookup _ _ _ I (proj1 Ih)) as (Lh & _). congruence.
  - rewrite map_length. unfold off. pose proof (filter_length_le' (fun h => h_online h && (h_last h <? now - offline_dl c)%Z) (snapshot order s)).
    pose proof (snapshot_length order s). lia.
  - exists ns. split; auto. apply fold_delete_tracked; auto.
    + apply fold_left_InvP; auto. intros. apply make_offline_InvP. auto.
    + intros n h In_ Ih X.
      assert (Io : In (nt_ip n) (map h_ip off)) by (rewrite <- MI; apply in_map; exact In_).
      apply in_map_iff in Io. destruct Io as (h1 & E1 & I1). apply filter_In in I1. destruct I1 as [S1 P1].
      apply filter_In in Ih. destruct Ih as [S2 P2].
      destruct (snapshot_lookup _ _ _ I S1) as (L1 & _). destruct (snapshot_lookup _ _ _ I S2) as (L2 & _).
      rewrite E1, X, L2 in L1. inversion L1; subst h1.
      apply andb_prop in P1. apply andb_prop in P2. destruct P1 as [O1 _]. destruct P2 as [O2 _].
      rewrite O1 in O2. discriminate.
Qed.

(* the same for the two steps of the discipline *)
Theorem contents_notify_proof c s fr k h :
  Inv s -> lastf s = Some fr -> fr_host fr = Some k -> hlookup k (hosts s) = Some h -> h_dirty h = true ->
  (List.length (chan s) + List.length (mac_hosts (h_mac h) s) < chan_cap)%nat ->
  exists em, chan (fst (step c s Notify)) = chan s ++ em /\ Forall (tracked (fst (step c s Notify))) em.
Proof.
  intros I LF FH L D C. cbn [step]. rewrite LF. cbn [fst]. unfold notify. rewrite FH.
  apply (notify_host_contents k (fr_online fr) s h); auto. apply Inv_InvP. exact I.
Qed.

Theorem contents_purge_proof c now order s :
  Inv s -> NoDup order -> (List.length (chan s) + List.length order < chan_cap)%nat ->
  exists ns, chan (fst (step c s (Purge now order))) = chan s ++ ns /\
             Forall (tracked (fst (step c s (Purge now order)))) ns.
Proof. intros. cbn [step fst]. apply purge_contents; auto. Qed.

(* ------------------------------------------------------------------ *)
(* non-vacuity: a decision procedure for [units_ok] and a concrete disciplined history *)

Definition small_macs (s : state) : bool := forallb (fun e => Nat.ltb (List.length (m_hosts e)) 127) (macs s).

Lemma small_macs_ok s : small_macs s = true -> forall m, (List.length (mac_hosts m s) < 127)%nat.
Proof.
  unfold small_macs, mac_hosts. intros H m. rewrite forallb_forall in H.
  destruct (find_mac m (macs s)) as [e|] eqn:F; [|simpl; lia].
  apply find_mac_Some in F. destruct F as [Ie _]. apply Nat.ltb_lt. apply H. exact Ie.
Qed.

Definition unit_okb (c : cfg) (s : state) (u : dunit) : bool :=
  match u with
  | DFrame f now => op_wfb (Rx f now) && small_macs (fst (step c s (Rx f now)))
  | DPurge now order => nodupb ip_eqb order && order_completeb s (Purge now order) && Nat.ltb (List.length order) chan_cap
  | _ => true
  end.

Fixpoint units_okb (c : cfg) (s : state) (us : list dunit) : bool :=
  match us with
  | [] => true
  | u :: rest => unit_okb c s u && units_okb c (fst (exec c s u)) rest
  end.

Lemma nodupb_ip_sound l : nodupb ip_eqb l = true -> NoDup l.
Proof.
  induction l as [|x r IH]; simpl; intros H; [constructor|].
  apply andb_prop in H. destruct H as [H1 H2]. constructor; auto.
  intros I. apply negb_true_iff in H1.
  assert (T : existsb (ip_eqb x) r = true) by (apply existsb_exists; exists x; split; auto; apply ip_eqb_refl).
  congruence.
Qed.

Lemma units_okb_sound c us : forall s, units_okb c s us = true -> units_ok c s us.
Proof.
  induction us as [|u rest IH]; simpl; auto. intros s H. apply andb_prop in H. destruct H as [H1 H2].
  split; [|apply IH; exact H2]. destruct u as [f now|now order|kd k name|m k name now|m k name|m|m]; simpl in *; auto.
  - apply andb_prop in H1. destruct H1 as [W S]. split; [|apply small_macs_ok; exact S].
    unfold fsum_wf. destruct (f_class f); auto; destruct (f_ip f); auto; try discriminate. unfold ip6_ok. lia.
  - apply andb_prop in H1. destruct H1 as [H1 L]. apply andb_prop in H1. destruct H1 as [ND CO].
    split; [apply nodupb_ip_sound; exact ND|]. split; [|apply Nat.ltb_lt; exact L].
    intros k Ik. rewrite forallb_forall in CO. specialize (CO k Ik).
    apply existsb_exists in CO. destruct CO as (x & Ix & E). apply ip_eqb_eq in E. subst. exact Ix.
Qed.

Definition ex_ent : nent := {| ne_name := 5; ne_model := 0; ne_os := 6; ne_manuf := 7 |}.
Definition ex_units : list dunit :=
  [ DFrame {| f_src := ex_mac1; f_class := FIP4; f_ip := IP4 3232235521; f_arpmac := 0; f_dhcp4 := false |} 10;
    DFrame {| f_src := ex_mac1; f_class := FIP4; f_ip := IP4 3232235521; f_arpmac := 0; f_dhcp4 := false |} 11;   (* repeat traffic *)
    DFrame {| f_src := ex_mac1; f_class := FIP4; f_ip := IP4 3232235522; f_arpmac := 0; f_dhcp4 := false |} 20;   (* IP change *)
    DFrame {| f_src := ex_mac2; f_class := FIP4; f_ip := IP4 3232235522; f_arpmac := 0; f_dhcp4 := false |} 30;   (* re-binding *)
    DCapture ex_mac1;
    DName KMdns (IP4 3232235522) ex_ent;                                                                             (* a learned name: Name, OS and Manufacturer at once *)
    DName KMdns (IP4 3232235522) ex_ent;                                                                             (* the same announcement again *)
    DFrame {| f_src := ex_mac2; f_class := FIP4; f_ip := IP4 3232235522; f_arpmac := 0; f_dhcp4 := false |} 31;   (* delivered with repeat traffic *)
    DName KMdns (IP4 3232235522) ex_ent;                                                                             (* an identical repeat after delivery: nothing owed *)
    DFrame {| f_src := ex_mac2; f_class := FIP4; f_ip := IP4 3232235522; f_arpmac := 0; f_dhcp4 := false |} 32;   (* quiet *)
    DName KMdns (IP4 3232235522) {| ne_name := 0; ne_model := 4; ne_os := 6; ne_manuf := 0 |};                       (* Model learned, OS unchanged, the rest not announced *)
    DFrame {| f_src := ex_mac2; f_class := FIP4; f_ip := IP4 3232235522; f_arpmac := 0; f_dhcp4 := false |} 33;   (* delivered *)
    DPurge 400 [IP4 3232235521; IP4 3232235522; IP4 3232235531; IP4 3232235649];
    DFrame {| f_src := 439804651110; f_class := FIP6; f_ip := IP6 338288524927261089654018896841347694593; f_arpmac := 0; f_dhcp4 := false |} 410;
    (* a DHCP exchange of an announced, online client that was renamed: offer, update, Notify through the DHCP path *)
    DFrame {| f_src := ex_mac1; f_class := FIP4; f_ip := IP4 3232235523; f_arpmac := 0; f_dhcp4 := false |} 420;
    DOffer ex_mac1 (IP4 3232235523) ex_ent;
    DUpdate ex_mac1 (IP4 3232235523) ex_ent 421;
    DFrame {| f_src := ex_mac1; f_class := FIP4; f_ip := IP4 0; f_arpmac := 0; f_dhcp4 := true |} 422;
    DFrame {| f_src := ex_mac1; f_class := FIP4; f_ip := IP4 3232235523; f_arpmac := 0; f_dhcp4 := false |} 423 ].

Lemma ex_units_ok : units_ok std_cfg ex_s0 ex_units.
Proof. apply units_okb_sound. vm_compute. reflexivity. Qed.

Fixpoint emissions (c : cfg) (s : state) (us : list dunit) : list (list (ip * bool)) :=
  match us with
  | [] => []
  | u :: rest => map pair_of (snd (exec c s u)) :: emissions c (fst (exec c s u)) rest
  end.

Lemma ex_units_emissions :
  emissions std_cfg ex_s0 ex_units =
  [ [(IP4 3232235521, true)];
    [];
    [(IP4 3232235521, false); (IP4 3232235522, true)];
    [(IP4 3232235522, true)];
    [];
    [];
    [];
    [(IP4 3232235522, true)];
    [];
    [];
    [];
    [(IP4 3232235522, true)];
    [(IP4 3232235522, false); (IP4 3232235531, false)];
    [(IP6 338288524927261089654018896841347694593, true)];
    [(IP4 3232235523, true)];
    [];
    [];
    [(IP4 3232235523, true)];
    [] ].
Proof. vm_compute. reflexivity. Qed.

(* toNotification: LLMNR name from the host, the other four from the MAC entry (source comment:
   "send the MACEntry name as there can be many IPv6 hosts") — visible asymmetry, not a finding *)
Lemma ex_llmnr_asymmetry :
  let s := run std_cfg ex_s0
      [ ex_rx4 ex_mac1 3232235521 10; Notify; Drain;
        NameUpdate KLlmnr (IP4 3232235521) (named 7); NameUpdate KMdns (IP4 3232235521) ex_ent;
        ex_rx4 ex_mac1 3232235522 20; Notify ] in
  map (fun n => (nt_ip n, n_llmnr (nt_names n), n_mdns (nt_names n))) (chan s) =
  [ (IP4 3232235521, named 7, ex_ent); (IP4 3232235522, nent0, ex_ent) ].
Proof. vm_compute. reflexivity. Qed.

(* ------------------------------------------------------------------ *)
(* the converse of the contents clause, on the reference: whenever a unit changes the learned names of an
   address, a notification about that address is emitted by the unit or owed after it *)
Lemma created_not_current a m k : created a m k = true -> currentb a m k = false.
Proof. unfold created, currentb. destruct (a k) as [e|]; auto. destruct (a_mac e =? m); simpl; auto; discriminate. Qed.

Theorem names_change_owed c r u x :
  r_names (rnext c r u) x <> r_names r x ->
  due c r u x <> [] \/ existsb (ip_eqb x) (r_owed (rnext c r u)) = true.
Proof.
  destruct u as [f now|now|kd k name|m k name now|m k|]; cbn [rnext due]; try (intros H; exfalso; apply H; reflexivity).
  - destruct (ref_event c f) as [[m k]|].
    + cbn [r_names]. intros H. destruct (ip_eqb x k && created (r_map r) m k) eqn:E; [|exfalso; apply H; reflexivity].
      apply andb_prop in E. destruct E as [E1 E2]. left. rewrite E1. rewrite (created_not_current _ _ _ E2). discriminate.
    + destruct (dhcp_target r f); intros H; exfalso; apply H; reflexivity.
  - destruct (name_changes r kd k name); [|intros H; exfalso; apply H; reflexivity].
    cbn [r_names r_owed]. intros H. right. destruct (ip_eqb x k) eqn:E; [|exfalso; apply H; reflexivity].
    cbn [existsb]. rewrite E. reflexivity.
  - destruct (is_valid k && negb (is_unspecified k)); [|intros H; exfalso; apply H; reflexivity].
    cbn [r_names r_owed]. intros H. right. destruct (ip_eqb x k) eqn:E; [|exfalso; apply H; reflexivity].
    ipeq. subst x. rewrite existsb_app. apply orb_true_iff. left.
    destruct (upd_changed r m k name) eqn:CH.
    + rewrite orb_true_r. cbn [existsb]. rewrite ip_eqb_refl. reflexivity.
    + unfold upd_base in H. destruct (created (r_map r) m k) eqn:CR; [|exfalso; apply H; reflexivity].
      rewrite (created_not_current _ _ _ CR). cbn [negb orb existsb]. rewrite ip_eqb_refl. reflexivity.
Qed.

(* ------------------------------------------------------------------ *)
(* an identical repeat of an announcement is quiet: it changes nothing in the reference, whatever attributes the
   entry carries and however many of them the first announcement changed *)
Lemma nget_nset kd v n : nget kd (nset kd v n) = v.
Proof. destruct kd; reflexivity. Qed.

Theorem name_repeat_quiet c r kd k e :
  let r1 := rnext c r (UName kd k e) in
  name_changes r1 kd k e = false /\ rnext c r1 (UName kd k e) = r1 /\ forall x, due c r1 (UName kd k e) x = [].
Proof.
  cbn zeta.
  assert (Q : name_changes (rnext c r (UName kd k e)) kd k e = false).
  { cbn [rnext]. destruct (name_changes r kd k e) eqn:NC; [|exact NC].
    unfold name_changes in *. cbn [r_map r_names]. destruct (r_map r k); [|discriminate].
    rewrite ip_eqb_refl, nget_nset. apply learn_idem. }
  split; [exact Q|]. split; [|intros x; reflexivity].
  set (r1 := rnext c r (UName kd k e)) in *. cbn [rnext]. rewrite Q. reflexivity.
Qed.

Lemma filter_none {A} (f : A -> bool) l : (forall x, f x = false) -> filter f l = [].
Proof. intros H. induction l as [|x l IH]; simpl; [reflexivity|]. rewrite H. exact IH. Qed.

Theorem update_repeat_quiet c r m k e now now' :
  is_valid k && negb (is_unspecified k) = true ->
  let r1 := rnext c r (UUpdate m k e now) in
  upd_changed r1 m k e = false /\ r_owed (rnext c r1 (UUpdate m k e now')) = r_owed r1 /\
  forall x, r_names (rnext c r1 (UUpdate m k e now')) x = r_names r1 x.
Proof.
  intros V. cbn zeta.
  set (r1 := rnext c r (UUpdate m k e now)).
  assert (M1 : r_map r1 = sight m k now (r_map r)) by (unfold r1; cbn [rnext]; rewrite V; reflexivity).
  assert (CUR : currentb (r_map r1) m k = true).
  { unfold currentb. rewrite M1. unfold sight. rewrite ip_eqb_refl. cbn [a_mac a_online]. rewrite N.eqb_refl. reflexivity. }
  assert (CRE : created (r_map r1) m k = false).
  { unfold created. rewrite M1. unfold sight. rewrite ip_eqb_refl. cbn [a_mac]. rewrite N.eqb_refl. reflexivity. }
  assert (NK : n_dhcp (r_names r1 k) = learn (n_dhcp (upd_base r m k)) e).
  { unfold r1. cbn [rnext]. rewrite V. cbn [r_names]. rewrite ip_eqb_refl.
    destruct (upd_changed r m k e) eqn:CH; [reflexivity|].
    unfold upd_changed, learns in CH. apply negb_false_iff in CH. unfold nent_eqb in CH.
    repeat (apply andb_prop in CH; destruct CH as [CH ?]).
    destruct (learn (n_dhcp (upd_base r m k)) e) as [a1 a2 a3 a4], (n_dhcp (upd_base r m k)) as [b1 b2 b3 b4].
    cbn [ne_name ne_model ne_os ne_manuf] in *.
    repeat match goal with H : (_ =? _) = true |- _ => apply N.eqb_eq in H end. subst. reflexivity. }
  assert (Q : upd_changed r1 m k e = false).
  { unfold upd_changed, upd_base. rewrite CRE, NK. apply learn_idem. }
  split; [exact Q|].
  cbn [rnext]. rewrite V. cbn [r_owed r_names]. rewrite Q, CUR. cbn [negb orb app].
  split.
  - rewrite filter_none; [reflexivity|]. intros x. destruct (ip_eqb x k) eqn:EX; [reflexivity|]. cbn [negb andb].
    unfold flipb, sight. rewrite EX. fold (currentb (r_map r1) m k). rewrite CUR. cbn [negb andb].
    destruct (r_map r1 x) as [ex|]; [|reflexivity]. destruct (a_online ex); reflexivity.
  - intros x. destruct (ip_eqb x k) eqn:EX; [|reflexivity]. ipeq. subst x. unfold upd_base. rewrite CRE. reflexivity.
Qed.

(* ------------------------------------------------------------------ *)
(* outside the discipline: Notify called twice, and the full channel *)

Lemma hosts_send n s : hosts (send n s) = hosts s.
Proof. unfold send. destruct (Nat.ltb _ _); reflexivity. Qed.

Lemma lastf_send n s : lastf (send n s) = lastf s.
Proof. unfold send. destruct (Nat.ltb _ _); reflexivity. Qed.

Lemma lastf_make_offline k s : lastf (make_offline k s) = lastf s.
Proof.
  unfold make_offline. destruct (hlookup k (hosts s)); [|reflexivity].
  match goal with |- lastf (if ?b then send ?n ?x else ?y) = _ => destruct b; [rewrite lastf_send|]; reflexivity end.
Qed.

Lemma lastf_fold_mo l : forall s, lastf (fold_left (fun st v => make_offline v st) l s) = lastf s.
Proof. induction l as [|v l IH]; intros s; simpl; [reflexivity|]. rewrite IH. apply lastf_make_offline. Qed.

Lemma notify_host_lastf k b s : lastf (notify_host k b s) = lastf s.
Proof.
  unfold notify_host. destruct (hlookup k (hosts s)) as [h|]; [|reflexivity]. destruct (negb (h_dirty h)); [reflexivity|].
  match goal with |- context [fold_left ?g ?l s] => set (s1 := fold_left g l s) end.
  assert (E : lastf s1 = lastf s) by apply lastf_fold_mo.
  destruct (hlookup k (hosts s1)); [rewrite lastf_send|]; exact E.
Qed.

(* after notify_host the host is absent or clean, whatever the channel held *)
Lemma notify_host_clean k b s :
  hlookup k (hosts (notify_host k b s)) = None \/
  exists h, hlookup k (hosts (notify_host k b s)) = Some h /\ h_dirty h = false.
Proof.
  unfold notify_host. destruct (hlookup k (hosts s)) as [h|] eqn:L; [|left; exact L].
  destruct (negb (h_dirty h)) eqn:D.
  - right. exists h. split; [exact L|]. apply negb_true_iff. exact D.
  - match goal with |- context [fold_left ?g ?l s] => set (s1 := fold_left g l s) end.
    destruct (hlookup k (hosts s1)) as [h1|] eqn:L1; [|left; exact L1].
    right. exists (set_dirty false h1). rewrite hosts_send. unfold upd_host. cbn [hosts set_hosts].
    rewrite hlookup_hupd, ip_eqb_refl, L1. split; reflexivity.
Qed.

Lemma notify_host_idem k b b' s : notify_host k b' (notify_host k b s) = notify_host k b s.
Proof.
  destruct (notify_host_clean k b s) as [N|(h & L & D)]; set (r := notify_host k b s) in *; unfold notify_host at 1.
  - rewrite N. reflexivity.
  - rewrite L, D. reflexivity.
Qed.

(* a second Notify with the same Frame emits nothing and changes nothing (also through the DHCP path, also when the
   channel was full at the first call) *)
Theorem notify_twice_proof f s : notify f (notify f s) = notify f s.
Proof.
  destruct (fr_host f) as [k|] eqn:FH.
  - unfold notify. rewrite FH. apply notify_host_idem.
  - set (offer := match find_mac (fr_src f) (macs s) with Some e => m_offer e | None => IPnone end).
    assert (NS : notify f s = s \/ (notify f s = notify_host offer true s /\ negb (fr_dhcp4 f) = false /\ negb (is_valid offer) = false)).
    { unfold notify. rewrite FH. destruct (negb (fr_dhcp4 f)); [left; reflexivity|]. fold offer.
      destruct (negb (is_valid offer)); [left; reflexivity|]. destruct (hlookup offer (hosts s)); [right; auto|left; reflexivity]. }
    destruct NS as [E|(E & DH & V)]; [rewrite E; exact E|].
    rewrite E. set (r := notify_host offer true s).
    assert (O : match find_mac (fr_src f) (macs r) with Some e => m_offer e | None => IPnone end = offer).
    { apply (proj1 (notify_host_Same offer true s) (fr_src f)). }
    unfold notify. rewrite FH, DH, O, V.
    destruct (hlookup offer (hosts r)) eqn:L2; [apply notify_host_idem|reflexivity].
Qed.

Corollary notify_twice_step c s : snd (step c s Notify) = ONone ->
  fst (step c (fst (step c s Notify)) Notify) = fst (step c s Notify) \/ lastf (fst (step c s Notify)) = None.
Proof.
  cbn [step]. destruct (lastf s) as [f|] eqn:LF; cbn [fst snd]; [|discriminate]. intros _.
  destruct (lastf (notify f s)) as [f'|] eqn:LF2; [|right; reflexivity]. left.
  assert (E : lastf (notify f s) = lastf s).
  { unfold notify. destruct (fr_host f); [|destruct (negb (fr_dhcp4 f)); [reflexivity|]; destruct (negb (is_valid _)); [reflexivity|];
      destruct (hlookup _ (hosts s)); [|reflexivity]]; apply notify_host_lastf. }
  rewrite E, LF in LF2. inversion LF2; subst f'. apply notify_twice_proof.
Qed.

(* the full channel: sendNotification drops (never blocks under the lock), and makeOffline has cleared the pending mark:
   the offline transition is reported by no later step -- LOST.  "None is lost" therefore needs the property's own
   hypothesis that the caller drains the channel; with it the channel never holds more than one unit's notifications *)
Theorem full_channel_drops_proof n s : List.length (chan s) = chan_cap -> send n s = s.
Proof. intros F. unfold send. rewrite F, Nat.ltb_irrefl. reflexivity. Qed.

Theorem full_channel_loses_offline_proof k s h :
  List.length (chan s) = chan_cap -> hlookup k (hosts s) = Some h ->
  let s' := make_offline k s in
  chan s' = chan s /\ exists h', hlookup k (hosts s') = Some h' /\ h_online h' = false /\ h_dirty h' = false.
Proof.
  intros F L. cbn zeta. unfold make_offline. rewrite L.
  cbn [chan upd_mac set_macs upd_host set_hosts]. rewrite F, Nat.ltb_irrefl.
  split; [reflexivity|]. cbn [hosts upd_mac set_macs upd_host set_hosts]. rewrite hlookup_hupd, ip_eqb_refl, L.
  eexists. split; [reflexivity|]. split; reflexivity.
Qed.

(* ------------------------------------------------------------------ *)
(* whole histories: for every address, the SEQUENCE of notifications about it that the history emits is exactly the
   sequence of transitions the reference owes it -- no duplicate, no loss, nothing else (hence equal multisets) *)
Fixpoint dues (c : cfg) (r : rstate) (us : list dunit) (x : ip) : list (ip * bool) :=
  match us with
  | [] => []
  | u :: rest => due c r (to_u6 u) x ++ dues c (rnext c r (to_u6 u)) rest x
  end.

Lemma all_once_sequence c us : forall s r, all_once c s r us ->
  forall x, about x (concat (emissions c s us)) = dues c r us x.
Proof.
  induction us as [|u rest IH]; intros s r H x; [reflexivity|]. destruct H as (A & _ & R).
  cbn [emissions concat dues]. unfold about. rewrite filter_app. f_equal; [apply A|apply (IH _ _ R x)].
Qed.

Theorem history_sequence_proof c now s0 us :
  own_mac c <> rt_mac c -> new_session c now = Ok s0 -> units_ok c s0 us ->
  forall x, about x (concat (emissions c s0 us)) = dues c (rinit c now) us x.
Proof. intros NE NS OK. apply all_once_sequence. apply (exactly_once_proof c now s0 us NE NS OK). Qed.

Corollary history_count_proof c now s0 us :
  own_mac c <> rt_mac c -> new_session c now = Ok s0 -> units_ok c s0 us ->
  forall x b, List.length (filter (fun p => ip_eqb (fst p) x && Bool.eqb (snd p) b) (concat (emissions c s0 us))) =
              List.length (filter (fun p => Bool.eqb (snd p) b) (dues c (rinit c now) us x)).
Proof.
  intros NE NS OK x b. rewrite <- (history_sequence_proof c now s0 us NE NS OK x). unfold about.
  induction (concat (emissions c s0 us)) as [|p l IH]; [reflexivity|]. simpl.
  destruct (ip_eqb (fst p) x); simpl; [destruct (Bool.eqb (snd p) b); simpl; rewrite IH; reflexivity|exact IH].
Qed.
