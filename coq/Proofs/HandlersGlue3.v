(* Proofs/HandlersGlue3.v — the per-type ICMPv6 views and the DHCP header getters: every access the
   C08 processor models make is the VIEWS getter of that field (same outcome for all slices). *)
From PV Require Import Base.Prelude Base.Slice.
From PV Require Import Model.ViewsBase Model.Views Model.Views2 Model.ViewsVar.
From PV Require Import Model.HandlersProc.
From PV Require Import Proofs.HandlersTac Proofs.HandlersGlue.
Open Scope N_scope.

(* raw accesses vs the position-reporting helpers VIEWS' getters are written with *)
Lemma cls_rsl p a b : cls (sl p a b) = cls (rsl p a b).
Proof. unfold rsl. destruct (sl p a b); reflexivity. Qed.
Lemma cls_rarr p a n : cls (sl p a (a + n)) = cls (rarr p a n).
Proof. unfold rarr. destruct (sl p a (a + n)); reflexivity. Qed.
Lemma cls_rbyte p i : cls (idx p i) = cls (rbyte p i).
Proof. unfold rbyte. destruct (idx p i); reflexivity. Qed.
Lemma cls_rbe16 p a : cls (be16_at p a) = cls (rbe16 p a).
Proof. unfold rbe16. destruct (be16_at p a); reflexivity. Qed.
Lemma cls_rbe32 p a : cls (be32_at p a) = cls (rbe32 p a).
Proof. unfold rbe32. destruct (be32_at p a); reflexivity. Qed.
Lemma cls_rfrom p a : cls (slfrom p a) = cls (rfrom p a).
Proof. unfold rfrom. destruct (slfrom p a); reflexivity. Qed.

(* the link-layer address option accessors *)
Lemma glue_lla_option p off ty :
  cls (lla_option_at p off ty) =
  cls (bind (orr (Ok (lenN p <? N.of_nat (off + 8)))
               (orr (bind (idx p off) (fun b => Ok (negb (b =? ty))))
                    (bind (idx p (off + 1)) (fun b => Ok (negb (b =? 1))))))
            (fun c => if c then Ok VNil else rsl p (off + 2) (off + 8))).
Proof.
  unfold lla_option_at, orr, lenN, rsl.
  destruct (Nat.ltb_spec (len p) (off + 8)); destruct (N.ltb_spec (N.of_nat (len p)) (N.of_nat (off + 8)));
    try lia; cbn [bind]; [reflexivity|].
  rewrite !idx_ok by lia. cbn [bind].
  destruct (negb (nth off (arr p) 0 =? ty)); cbn [bind orb]; [reflexivity|].
  destruct (negb (nth (off + 1) (arr p) 0 =? 1)); cbn [bind]; [reflexivity|].
  destruct (sl p (off + 2) (off + 8)); reflexivity.
Qed.

Theorem glue_na_target_lla p : cls (lla_option_at p 24 2) = cls (NA_TargetLLA p).
Proof. rewrite glue_lla_option. reflexivity. Qed.
Theorem glue_ns_source_lla p : cls (lla_option_at p 24 1) = cls (NS_SourceLLA p).
Proof. rewrite glue_lla_option. reflexivity. Qed.
Theorem glue_redirect_target_lla p : cls (lla_option_at p 40 2) = cls (Redirect6_TargetLinkLayerAddr p).
Proof. rewrite glue_lla_option. reflexivity. Qed.

(* RS.SourceLLA: `len(p) >= 16 && p[8] == 1 && p[9] == 1` in VIEWS' form *)
Theorem glue_rs_source_lla p : cls (lla_option_at p 8 1) = cls (RS_SourceLLA p).
Proof.
  unfold lla_option_at, RS_SourceLLA, andr, lenN, rsl.
  destruct (Nat.ltb_spec (len p) (8 + 8)); destruct (N.leb_spec 16 (N.of_nat (len p))); try lia; cbn [bind];
    [reflexivity|].
  rewrite !idx_ok by lia. cbn [bind].
  destruct (nth 8 (arr p) 0 =? 1); cbn [bind negb orb]; [|reflexivity].
  change (8 + 1)%nat with 9%nat.
  destruct (nth 9 (arr p) 0 =? 1); cbn [negb]; [|reflexivity].
  change (8 + 2)%nat with 10%nat. change (8 + 8)%nat with 16%nat. destruct (sl p 10 16); reflexivity.
Qed.

(* the length gates of the per-type views *)
Theorem glue_icmp6_gates p :
  NA_IsValid p = Ok (negb (Nat.ltb (len p) 24)) /\ NS_IsValid p = Ok (negb (Nat.ltb (len p) 24)) /\
  RA_IsValid p = Ok (negb (Nat.ltb (len p) 16)) /\ Redirect6_IsValid p = Ok (negb (Nat.ltb (len p) 40)) /\
  ICMP_IsValid p = Ok (negb (Nat.ltb (len p) 8)).
Proof.
  unfold NA_IsValid, NS_IsValid, RA_IsValid, Redirect6_IsValid, ICMP_IsValid, lenN.
  repeat split; f_equal;
    match goal with |- (?k <=? N.of_nat ?n) = negb (Nat.ltb ?n ?m) =>
      destruct (N.leb_spec k (N.of_nat n)), (Nat.ltb_spec n m); cbn; try reflexivity; lia end.
Qed.

(* NA / NS / RA / redirect field reads of icmp6_process, by name of the VIEWS getter *)
Theorem glue_icmp6_fields p :
  cls (sl p 8 (8 + 16)) = cls (NA_TargetAddress p) /\ cls (sl p 8 (8 + 16)) = cls (NS_TargetAddress p) /\
  cls (sl p 8 24) = cls (Redirect6_TargetAddress p) /\ cls (sl p 24 40) = cls (Redirect6_DstAddress p) /\
  cls (idx p 4) = cls (RA_CurrentHopLimit p) /\ cls (idx p 5) = cls (RA_Flags p) /\
  cls (be16_at p 6) = cls (RA_Lifetime p) /\ cls (be32_at p 8) = cls (RA_ReachableTime p) /\
  cls (be32_at p 12) = cls (RA_RetransmitTimer p) /\ cls (idx p 1) = cls (ICMP_Code p) /\
  cls (idx p 0) = cls (ICMP_Type p).
Proof.
  repeat split; first [apply cls_rarr | apply cls_rsl | apply cls_rbyte | apply cls_rbe16 | apply cls_rbe32].
Qed.

(* DHCP header reads of dhcp4_process / client_id / processClientPacket *)
Theorem glue_dhcp_fields p :
  cls (sl p 4 8) = cls (DHCP4_XId p) /\ cls (be16_at p 8) = cls (DHCP4_Secs p) /\
  cls (be16_at p 10) = cls (DHCP4_Flags p) /\ cls (sl p 12 (12 + 4)) = cls (DHCP4_CIAddr p) /\
  cls (sl p 16 (16 + 4)) = cls (DHCP4_YIAddr p) /\ cls (sl p 28 34) = cls (DHCP4_CHAddr p) /\
  cls (idx p 0) = cls (DHCP4_OpCode p) /\ cls (idx p 2) = cls (DHCP4_HLen p).
Proof.
  repeat split; first [apply cls_rarr | apply cls_rsl | apply cls_rbyte | apply cls_rbe16].
Qed.

(* ARP field reads of arp_process *)
Theorem glue_arp_fields p :
  cls (be16_at p 6) = cls (ARP_Operation p) /\ cls (sl p 8 14) = cls (ARP_SrcMAC p) /\
  cls (sl p 14 (14 + 4)) = cls (ARP_SrcIP p) /\ cls (sl p 18 24) = cls (ARP_DstMAC p) /\
  cls (sl p 24 (24 + 4)) = cls (ARP_DstIP p).
Proof.
  repeat split; first [apply cls_rarr | apply cls_rsl | apply cls_rbe16].
Qed.
