(* Proofs/HandlersGlue.v — the functions the C08 models restate are the functions the owning
   clusters prove things about: view validators / getters and LLDP getTLV (VIEWS:
   Model/Views*.v), the NBNS node-name array (DNS: Model/DNSNbns.v).  Equalities for ALL
   slices (well-formed where a capacity is read).  The walks (NDP options, hop-by-hop, DHCP
   options) are in Proofs/HandlersGlue2.v, the composition with Session.Parse (PARSE:
   Model/Parse.v) in Proofs/HandlersDispatch.v. *)
From PV Require Import Base.Prelude Base.Slice.
From PV Require Import Model.ViewsBase Model.Views Model.Views2 Model.ViewsVar Model.DNSNbns.
From PV Require Import Model.NDPOptions Model.MiscHopByHop Model.MiscDecoders Model.HandlersDnsMsg Model.HandlersProc.
From PV Require Import Proofs.HandlersTac.
Open Scope N_scope.

(* outcome classes.  VIEWS reports a returned non-nil error as the value VE and a failed
   IsValid as Ok false; the C08 models use Err *)
Inductive oclass := COk | CErr | CPanic | CFuel.
Definition cls {A} (r : res A) : oclass :=
  match r with Ok _ => COk | Err _ => CErr | Panic => CPanic | Fuel => CFuel end.
Definition vcls (r : res value) : oclass :=
  match r with Ok VE => CErr | Ok _ => COk | Err _ => CErr | Panic => CPanic | Fuel => CFuel end.
Definition bcls (r : res bool) : oclass :=
  match r with Ok true => COk | Ok false => CErr | Err _ => CErr | Panic => CPanic | Fuel => CFuel end.

Ltac wfcap Hw := unfold wf in Hw.

(* ---------------------------------------------------------------- IPv4 / UDP / TCP / ARP / ICMP *)
Lemma shiftl2 x : N.shiftl x 2 = x * 4.
Proof. rewrite N.shiftl_mul_pow2. reflexivity. Qed.

Theorem glue_ip4_is_valid p : wf p -> HandlersProc.ip4_is_valid p = IP4_IsValid p.
Proof.
  intros Hw. wfcap Hw. unfold HandlersProc.ip4_is_valid, IP4_IsValid, IP4_IHL_n, IP4_TotalLen_n,
    HandlersProc.ip4_ihl, HandlersProc.ip4_totallen, andr, orr, lenN.
  destruct (Nat.ltb_spec (len p) 20) as [Hx|Hx].
  - cbn [bind]. destruct (N.leb_spec 20 (N.of_nat (len p))); [lia|]. cbn [bind].
    destruct (N.ltb_spec (N.of_nat (len p)) 20); [reflexivity|lia].
  - rewrite !idx_ok by lia. rewrite !be16_at_ok by lia. cbn [bind].
    rewrite shiftl2.
    set (a := N.land (nth 0 (arr p) 0) 15). set (t := be16 (nth 2 (arr p) 0) (nth (2 + 1) (arr p) 0)).
    destruct (N.leb_spec 20 (N.of_nat (len p))); [|lia]. cbn [bind].
    destruct (Nat.ltb_spec (N.to_nat a * 4) 20) as [Hx1|Hx1].
    { destruct (N.leb_spec 20 (a * 4)); [lia|]. cbn [bind].
      destruct (N.ltb_spec (N.of_nat (len p)) 20); [lia|]. cbn [bind].
      destruct (N.ltb_spec (a * 4) 20); [reflexivity|lia]. }
    destruct (N.leb_spec 20 (a * 4)); [|lia]. cbn [bind].
    destruct (Nat.ltb_spec (len p) (N.to_nat a * 4)) as [Hx2|Hx2].
    { destruct (N.leb_spec (a * 4) (N.of_nat (len p))); [lia|]. cbn [bind].
      destruct (N.ltb_spec (N.of_nat (len p)) 20); [lia|]. cbn [bind].
      destruct (N.ltb_spec (a * 4) 20); [lia|]. cbn [bind].
      destruct (N.ltb_spec (N.of_nat (len p)) (a * 4)); [reflexivity|lia]. }
    destruct (N.leb_spec (a * 4) (N.of_nat (len p))); [|lia]. cbn [bind].
    destruct (Nat.ltb_spec (N.to_nat t) (N.to_nat a * 4)) as [Hx3|Hx3].
    { destruct (N.leb_spec (a * 4) t); [lia|]. cbn [bind].
      destruct (N.ltb_spec (N.of_nat (len p)) 20); [lia|]. cbn [bind].
      destruct (N.ltb_spec (a * 4) 20); [lia|]. cbn [bind].
      destruct (N.ltb_spec (N.of_nat (len p)) (a * 4)); [lia|reflexivity]. }
    destruct (N.leb_spec (a * 4) t); [|lia]. cbn [bind].
    destruct (Nat.ltb_spec (len p) (N.to_nat t)) as [Hx4|Hx4]; cbn [negb].
    { destruct (N.leb_spec t (N.of_nat (len p))); [lia|]. cbn [bind].
      destruct (N.ltb_spec (N.of_nat (len p)) 20); [lia|]. cbn [bind].
      destruct (N.ltb_spec (a * 4) 20); [lia|]. cbn [bind].
      destruct (N.ltb_spec (N.of_nat (len p)) (a * 4)); [lia|reflexivity]. }
    destruct (N.leb_spec t (N.of_nat (len p))); [reflexivity|lia].
Qed.

(* IP4.Payload: same outcome, and the same region p[IHL:TotalLen] *)
Theorem glue_ip4_payload p :
  IP4_Payload p = bind (HandlersProc.ip4_payload p)
                    (fun s => bind (HandlersProc.ip4_ihl p) (fun ihl => Ok (VR ihl (len s)))).
Proof.
  unfold IP4_Payload, HandlersProc.ip4_payload, IP4_IHL_n, IP4_TotalLen_n, HandlersProc.ip4_ihl,
    HandlersProc.ip4_totallen, rsl.
  destruct (idx p 0) as [b| | |]; cbn [bind]; try reflexivity.
  destruct (be16_at p 2) as [t| | |]; cbn [bind]; try reflexivity.
  rewrite shiftl2. replace (N.to_nat (N.land b 15 * 4)) with (N.to_nat (N.land b 15) * 4)%nat by lia.
  destruct (sl p _ _); reflexivity.
Qed.

Theorem glue_udp_is_valid p : HandlersProc.udp_is_valid p = UDP_IsValid p.
Proof.
  unfold HandlersProc.udp_is_valid, UDP_IsValid, lenN. f_equal.
  destruct (Nat.ltb_spec (len p) 8), (N.leb_spec 8 (N.of_nat (len p))); cbn; try reflexivity; lia.
Qed.

Theorem glue_tcp_is_valid p : HandlersProc.tcp_is_valid p = TCP_IsValid p.
Proof.
  unfold HandlersProc.tcp_is_valid, TCP_IsValid, TCP_HeaderLen_n, andr, lenN.
  destruct (Nat.ltb_spec (len p) 20) as [Hx|Hx].
  - cbn [bind]. destruct (N.leb_spec 20 (N.of_nat (len p))); [lia|reflexivity].
  - rewrite !idx_ok by lia. cbn [bind].
    destruct (N.leb_spec 20 (N.of_nat (len p))); [|lia]. cbn [bind].
    set (d := N.shiftr (nth 12 (arr p) 0) 4).
    destruct (Nat.ltb_spec (N.to_nat d * 4) 20).
    + destruct (N.leb_spec 20 (d * 4)); [lia|reflexivity].
    + destruct (N.leb_spec 20 (d * 4)); [|lia]. cbn [bind]. f_equal.
      destruct (Nat.ltb_spec (len p) (N.to_nat d * 4)), (N.leb_spec (d * 4) (N.of_nat (len p)));
        cbn; try reflexivity; lia.
Qed.

(* the IsValid gate of arp_process is ARP.IsValid: the processor returns an error exactly when
   the view is not valid *)
Theorem glue_arp_gate e router lan p : wf p ->
  (cls (arp_process e router lan p) = CErr <-> ARP_IsValid p = Ok false) /\
  (cls (arp_process e router lan p) = COk <-> ARP_IsValid p = Ok true).
Proof.
  intros Hw.
  assert (Hgate : (ARP_IsValid p = Ok false /\ cls (arp_process e router lan p) = CErr) \/
                  (ARP_IsValid p = Ok true /\ cls (arp_process e router lan p) = COk)).
  { unfold ARP_IsValid, arp_process, lenN. wfcap Hw.
    destruct (Nat.ltb_spec (len p) 28).
    { left. destruct (N.ltb_spec (N.of_nat (len p)) 28); [auto|lia]. }
    destruct (N.ltb_spec (N.of_nat (len p)) 28); [lia|].
    rewrite !be16_at_ok by lia. rewrite !idx_ok by lia. cbn [bind].
    destruct (negb (_ =? 1)); [left; auto|].
    destruct (negb (_ =? 2048)); [left; auto|].
    destruct (negb (nth 4 (arr p) 0 =? 6)); [left; auto|].
    destruct (negb (nth 5 (arr p) 0 =? 4)); [left; auto|].
    right. split; [reflexivity|].
    (* the rest of the processor never returns an error *)
    destruct (ae_closed e); [reflexivity|].
    unfold ip4_at, arp_fastlog, when.
    rewrite !sl_ok by lia. rewrite ?be16_at_ok by lia. cbn [bind].
    repeat match goal with |- context [if ?c then _ else _] => destruct c end; reflexivity. }
  destruct Hgate as [[Ha Hb]|[Ha Hb]]; rewrite Ha, Hb; split; split; intros; congruence.
Qed.

(* ---------------------------------------------------------------- LLDP getTLV *)
Definition tlv_of (x : ViewsVar.tlv) : MiscDecoders.tlv :=
  if tlv_err x then TlvErr
  else match tlv_v x with
       | None => TlvEnd
       | Some _ => TlvVal (N.to_nat (tlv_t x)) (N.to_nat (tlv_l x))
       end.

Theorem glue_lldp_get_tlv p n : lldp_get_tlv p n = bind (lldp_getTLV p n) (fun x => Ok (tlv_of x)).
Proof.
  unfold lldp_get_tlv, lldp_getTLV.
  destruct (Nat.leb (len p) (n + 2)); [reflexivity|].
  destruct (idx p n) as [a| | |]; cbn [bind]; try reflexivity.
  destruct (idx p (n + 1)) as [b| | |]; cbn [bind]; try reflexivity.
  set (t := N.shiftr a 1). set (l := N.shiftl (N.land a 1) 8 + b).
  replace (Nat.eqb (N.to_nat t) 0 && Nat.eqb (N.to_nat l) 0) with ((t =? 0) && (l =? 0)).
  2:{ destruct (N.eqb_spec t 0), (N.eqb_spec l 0), (Nat.eqb_spec (N.to_nat t) 0), (Nat.eqb_spec (N.to_nat l) 0);
        cbn; try reflexivity; lia. }
  destruct ((t =? 0) && (l =? 0)); [reflexivity|].
  destruct (Nat.leb (n + 2 + N.to_nat l) (len p)); [|reflexivity].
  destruct (sl p (n + 2) (n + 2 + N.to_nat l)); reflexivity.
Qed.

(* ---------------------------------------------------------------- NBNS node-name array (DNS cluster) *)
Definition nonempty {A} (l : list A) : bool := match l with [] => false | _ => true end.

Lemma glue_node_names n : forall i b have names, have = nonempty names ->
  node_names n i b have = bind (nna_loop b n i names) (fun ns => Ok (nonempty ns)).
Proof.
  induction n as [|n IH]; intros i b have names Hh; cbn [node_names nna_loop]; [subst; reflexivity|].
  destruct (be16_at b (18 * i + 16)) as [fl| | |]; cbn [bind]; try reflexivity.
  destruct (N.land fl 32768 =? 0).
  - destruct (sl b (18 * i) (18 * i + 16)) as [s| | |]; cbn [bind]; try reflexivity.
    apply IH. destruct names; reflexivity.
  - apply IH. exact Hh.
Qed.

Theorem glue_node_status_response b :
  node_status_response b = bind (processNBNSNodeStatusResponse b) (fun ns => Ok (nonempty ns)).
Proof.
  unfold node_status_response, processNBNSNodeStatusResponse, parse_node_name_array, parseNodeNameArray.
  destruct (Nat.ltb (len b) 3); [reflexivity|].
  destruct (Nat.ltb (len b) 1); [reflexivity|].
  destruct (idx b 0) as [n| | |]; cbn [bind]; try reflexivity.
  destruct (slfrom b 1) as [b1| | |]; cbn [bind]; try reflexivity.
  destruct (Nat.ltb (len b1) (N.to_nat n * 18)); [reflexivity|].
  apply glue_node_names. reflexivity.
Qed.
