(* Proofs/EncodeMisc.v — C03: ARP, ICMP echo, IPv6, NDP NA/NS round trips. *)
From PV Require Import Base.Prelude Base.Slice Model.EncodeBase Model.Encode Spec.EncodeRef
     Proofs.EncodeLemmas.
Open Scope N_scope.

Ltac ev_hook ::= rewrite ?be16_hi_lo by (first [assumption | reflexivity]); rewrite ?N.eqb_refl.

(* ================================================================ *)
(* ARP *)
Definition arp_bytes (op : N) (smac sip dmac dip : bytes) : bytes :=
  [0; 1; 8; 0; 6; 4; hi8 op; lo8 op] ++ smac ++ sip ++ dmac ++ dip.

Theorem arp_rt b op smac sip dmac dip :
  (28 <= cap b)%nat -> length smac = 6%nat -> length dmac = 6%nat -> is4 sip = true -> is4 dip = true ->
  bytes_ok smac -> bytes_ok sip -> bytes_ok dmac -> bytes_ok dip -> op < 65536 ->
  exists r,
    encode_arp b op smac sip dmac dip = Ok r /\
    len r = 28%nat /\ cap r = cap b /\ skipn 28 (arr r) = skipn 28 (arr b) /\
    view r = arp_bytes op smac sip dmac dip /\ bytes_ok (view r) /\
    arp_decode_lib r = Ok {| av_htype := 1; av_proto := 2048; av_hlen := 6; av_plen := 4; av_op := op;
                             av_smac := smac; av_sip := sip; av_dmac := dmac; av_dip := dip |} /\
    ref_arp (view r) = Some {| ra_op := op; ra_sha := smac; ra_spa := sip; ra_tha := dmac; ra_tpa := dip |}.
Proof.
  intros Hc Hsm Hdm Hsi Hdi Bsm Bsi Bdm Bdi Hop.
  destruct b as [a l]. unfold cap in *. cbn [arr] in *.
  do 28 (destr_list a Hc).
  unfold is4 in *. apply Nat.eqb_eq in Hsi, Hdi.
  do 6 (destr_list smac Hsm). destruct smac; [|discriminate].
  do 6 (destr_list dmac Hdm). destruct dmac; [|discriminate].
  do 4 (destr_list sip Hsi). destruct sip; [|discriminate].
  do 4 (destr_list dip Hdi). destruct dip; [|discriminate].
  eexists. split.
  { unfold encode_arp, seti, put16, copyto, reslice, cap. run. reflexivity. }
  cbn [len arr cap length skipn]. unfold cap. cbn [arr length].
  split. { reflexivity. } split. { reflexivity. } split. { reflexivity. }
  split. { reflexivity. }
  split.
  { unfold view. cbn [arr len firstn].
    repeat (apply bytes_ok_cons in Bsm; destruct Bsm as [? Bsm]).
    repeat (apply bytes_ok_cons in Bdm; destruct Bdm as [? Bdm]).
    repeat (apply bytes_ok_cons in Bsi; destruct Bsi as [? Bsi]).
    repeat (apply bytes_ok_cons in Bdi; destruct Bdi as [? Bdi]).
    repeat (apply bytes_ok_cons; split; [first [assumption | apply hi8_lt | apply lo8_lt | (vm_compute; reflexivity)]|]).
    apply bytes_ok_nil. }
  split.
  { unfold arp_decode_lib, arp_is_valid, arp_htype, arp_proto, arp_hlen, arp_plen, arp_op, arp_srcmac, arp_srcip,
      arp_dstmac, arp_dstip, idx, be16_at, sl, cap. run. reflexivity. }
  unfold view. cbn [arr len firstn]. unfold ref_arp, take, drop, w16. cbn [length firstn skipn].
  rewrite !w16_hi_lo by (first [assumption | reflexivity]). reflexivity.
Qed.

(* ================================================================ *)
(* ICMP echo *)
Definition echo_bytes (t code id sq : N) (data : bytes) : bytes :=
  [t; code; 0; 0; hi8 id; lo8 id; hi8 sq; lo8 sq] ++ data.

Theorem echo_rt b t code id sq data :
  (8 + length data <= cap b)%nat -> t < 256 -> code < 256 -> id < 65536 -> sq < 65536 -> bytes_ok data ->
  exists r,
    encode_icmp_echo b t code id sq data = Ok r /\
    len r = (8 + length data)%nat /\ cap r = cap b /\
    skipn (8 + length data) (arr r) = skipn (8 + length data) (arr b) /\
    view r = echo_bytes t code id sq data /\ bytes_ok (view r) /\
    echo_decode_lib r = Ok {| ev_type := t; ev_code := code; ev_cksum := 0; ev_id := id; ev_seq := sq;
                              ev_data := data |} /\
    ref_echo (view r) = Some {| rc_type := t; rc_code := code; rc_cksum := 0; rc_id := id; rc_seq := sq;
                                rc_data := data |}.
Proof.
  intros Hc Ht Hcode Hid Hsq Bd.
  destruct b as [a l]. unfold cap in *. cbn [arr] in *.
  do 8 (destr_list a Hc).
  assert (Hda : (length data <= length a)%nat) by (cbn [length] in Hc; lia).
  assert (E : encode_icmp_echo
                {| arr := x :: x0 :: x1 :: x2 :: x3 :: x4 :: x5 :: x6 :: a; len := l |} t code id sq data =
              Ok (mkSlice (echo_bytes t code id sq data ++ skipn (length data) a) (8 + length data))).
  { unfold encode_icmp_echo, seti, put16, copyfrom, reslice, cap. run.
    rewrite Nat.sub_0_r, firstn_all, blit0 by lia. reflexivity. }
  eexists. split. { exact E. }
  assert (Hl8 : length (echo_bytes t code id sq data) = (8 + length data)%nat) by (unfold echo_bytes; cbn [app length]; lia).
  split. { reflexivity. }
  split. { unfold cap. cbn [arr length]. rewrite app_length, skipn_length, Hl8. lia. }
  split. { cbn [arr]. rewrite (skipn_app_len _ _ _ Hl8). cbn [Nat.add skipn]. reflexivity. }
  assert (Hv : view (mkSlice (echo_bytes t code id sq data ++ skipn (length data) a) (8 + length data))
               = echo_bytes t code id sq data).
  { unfold view. cbn [arr len]. apply firstn_app_len. exact Hl8. }
  split. { exact Hv. }
  split. { rewrite Hv. unfold echo_bytes. cbn [app].
           repeat (apply bytes_ok_cons; split; [first [assumption | lia | apply hi8_lt | apply lo8_lt]|]). assumption. }
  split.
  { unfold echo_bytes. cbn [app]. destruct data as [|d0 data].
    - unfold echo_decode_lib, echo_is_valid, icmp_type, icmp_code, icmp_checksum, echo_id, echo_seq, echo_data,
        idx, be16_at, slfrom, cap. run. reflexivity.
    - unfold echo_decode_lib, echo_is_valid, icmp_type, icmp_code, icmp_checksum, echo_id, echo_seq, echo_data,
        idx, be16_at, slfrom, cap. run.
      unfold view. cbn [arr len]. rewrite ?Nat.sub_0_r.
      change (d0 :: data ++ skipn (length data) a) with ((d0 :: data) ++ skipn (length data) a).
      rewrite firstn_app_len by (cbn [length]; lia). reflexivity. }
  rewrite Hv. unfold echo_bytes, ref_echo, w16. cbn [app]. rewrite !w16_hi_lo by assumption. reflexivity.
Qed.

(* ================================================================ *)
(* NDP neighbour advertisement *)
Definition nd_flags (ro so ov : bool) : N := bflag ro 128 + bflag so 64 + bflag ov 32.

Theorem na_rt ro so ov tip tmac :
  length tip = 16%nat -> length tmac = 6%nat -> bytes_ok tip -> bytes_ok tmac ->
  exists r,
    na_marshal ro so ov tip tmac = Ok r /\ len r = 32%nat /\ cap r = 32%nat /\
    view r = [136; 0; 0; 0; nd_flags ro so ov; 0; 0; 0] ++ tip ++ [2; 1] ++ tmac /\ bytes_ok (view r) /\
    na_decode_lib r = Ok {| nv_type := 136; nv_code := 0; nv_router := ro; nv_solicited := so; nv_override := ov;
                            nv_target := tip; nv_lla := Some tmac |} /\
    ref_nd (view r) = Some {| rn_type := 136; rn_code := 0; rn_flags := nd_flags ro so ov; rn_target := tip;
                              rn_options := [(2, tmac)] |} /\
    (forall m, ref_nd (view r) = Some m -> ref_na_tlla m = Some tmac).
Proof.
  intros Ht Hm Bt Bm.
  do 16 (destr_list tip Ht). destruct tip; [|discriminate].
  do 6 (destr_list tmac Hm). destruct tmac; [|discriminate].
  eexists. split. { vm_compute. reflexivity. }
  split. { reflexivity. } split. { reflexivity. }
  split. { destruct ro, so, ov; reflexivity. }
  split.
  { unfold view. cbn [arr len firstn].
    repeat (apply bytes_ok_cons in Bt; destruct Bt as [? Bt]).
    repeat (apply bytes_ok_cons in Bm; destruct Bm as [? Bm]).
    repeat (apply bytes_ok_cons; split; [first [assumption | (destruct ro, so, ov; vm_compute; reflexivity)]|]).
    apply bytes_ok_nil. }
  split. { destruct ro, so, ov; vm_compute; reflexivity. }
  split. { destruct ro, so, ov; vm_compute; reflexivity. }
  intros m Hm'. destruct ro, so, ov; vm_compute in Hm'; injection Hm' as <-; reflexivity.
Qed.

(* ================================================================ *)
(* NDP neighbour solicitation.  RFC 4861 4.3 / 4.6.1: the source link-layer address is option
   type 1.  The theorem is proved for the marshal function with the option type as a parameter;
   the library's function is the instance NS_OPT_TYPE. *)
Definition ns_bytes (ty : N) (tip slla : bytes) : bytes := [135; 0; 0; 0; 0; 0; 0; 0] ++ tip ++ [ty; 1] ++ slla.

Lemma ns_marshal_ty_bytes ty tip slla :
  length tip = 16%nat -> length slla = 6%nat ->
  ns_marshal_ty ty tip slla = Ok (mkSlice (ns_bytes ty tip slla) 32).
Proof.
  intros Ht Hm.
  do 16 (destr_list tip Ht). destruct tip; [|discriminate].
  do 6 (destr_list slla Hm). destruct slla; [|discriminate].
  vm_compute. reflexivity.
Qed.

Theorem ns_rt_ty1 tip slla :
  length tip = 16%nat -> length slla = 6%nat -> bytes_ok tip -> bytes_ok slla ->
  exists r,
    ns_marshal_ty 1 tip slla = Ok r /\ len r = 32%nat /\ cap r = 32%nat /\
    view r = ns_bytes 1 tip slla /\ bytes_ok (view r) /\
    ns_decode_lib r = Ok {| sv_type := 135; sv_code := 0; sv_target := tip; sv_lla := Some slla |} /\
    ref_nd (view r) = Some {| rn_type := 135; rn_code := 0; rn_flags := 0; rn_target := tip;
                              rn_options := [(1, slla)] |} /\
    (forall m, ref_nd (view r) = Some m -> ref_ns_slla m = Some slla).
Proof.
  intros Ht Hm Bt Bm.
  eexists. split. { apply ns_marshal_ty_bytes; assumption. }
  do 16 (destr_list tip Ht). destruct tip; [|discriminate].
  do 6 (destr_list slla Hm). destruct slla; [|discriminate].
  split. { reflexivity. } split. { reflexivity. } split. { reflexivity. }
  split.
  { unfold view. cbn [arr len firstn ns_bytes app].
    repeat (apply bytes_ok_cons in Bt; destruct Bt as [? Bt]).
    repeat (apply bytes_ok_cons in Bm; destruct Bm as [? Bm]).
    repeat (apply bytes_ok_cons; split; [first [assumption | (vm_compute; reflexivity)]|]).
    apply bytes_ok_nil. }
  split. { vm_compute. reflexivity. }
  split. { vm_compute. reflexivity. }
  intros m Hm'. vm_compute in Hm'. injection Hm' as <-. reflexivity.
Qed.

(* the library's function (after repo commit 6b9f9d7 it writes option type 1) *)
Theorem ns_rt tip slla :
  length tip = 16%nat -> length slla = 6%nat -> bytes_ok tip -> bytes_ok slla ->
  exists r,
    ns_marshal tip slla = Ok r /\ len r = 32%nat /\ cap r = 32%nat /\
    view r = ns_bytes 1 tip slla /\ bytes_ok (view r) /\
    ns_decode_lib r = Ok {| sv_type := 135; sv_code := 0; sv_target := tip; sv_lla := Some slla |} /\
    ref_nd (view r) = Some {| rn_type := 135; rn_code := 0; rn_flags := 0; rn_target := tip;
                              rn_options := [(1, slla)] |} /\
    (forall m, ref_nd (view r) = Some m -> ref_ns_slla m = Some slla).
Proof. exact (ns_rt_ty1 tip slla). Qed.

(* the former defect (option type 2) as a statement about the parametrised marshal function:
   with type 2 the address is lost by both decoders *)
Lemma ns_type2_loses_lla :
  exists tip slla r, ns_marshal_ty 2 tip slla = Ok r /\
      (v <- ns_decode_lib r ;; Ok (sv_lla v))%res = Ok None /\
      (match ref_nd (view r) with Some m => ref_ns_slla m | None => None end) = None.
Proof.
  exists [254;128;0;0;0;0;0;0;0;0;0;0;0;0;0;1], [2;0;0;0;0;1].
  eexists. split. { vm_compute. reflexivity. } split; vm_compute; reflexivity.
Qed.
(* ================================================================ *)
(* IPv6 *)
Lemma as16_length a : length (as16 a) = 16%nat.
Proof.
  unfold as16, is4, is16. destruct (Nat.eqb_spec (length a) 4) as [E|E].
  - rewrite app_length. cbn [length]. unfold bytes, byte in *. lia.
  - destruct (Nat.eqb_spec (length a) 16) as [E'|E']; [assumption|apply repeat_length].
Qed.
Lemma as16_ok a : bytes_ok a -> bytes_ok (as16 a).
Proof.
  intros B. unfold as16. destruct (is4 a).
  - apply bytes_ok_app. split; [|assumption]. repeat (apply bytes_ok_cons; split; [lia|]). apply bytes_ok_nil.
  - destruct (is16 a); [assumption|]. apply bytes_ok_repeat. lia.
Qed.

Definition ip6_hdr (plen nh hop : N) (s d : bytes) : bytes := [96; 0; 0; 0; hi8 plen; lo8 plen; nh; hop] ++ s ++ d.

Lemma encode_ip6_bytes p hop src dst :
  (40 <= cap p)%nat ->
  encode_ip6 p hop src dst = Ok (mkSlice (ip6_hdr 0 59 hop (as16 src) (as16 dst) ++ skipn 40 (arr p)) 40, false).
Proof.
  intros Hc.
  pose proof (as16_length src) as Hs. pose proof (as16_length dst) as Hd.
  unfold encode_ip6, encode_ip6_on.
  revert Hs Hd. generalize (as16 src) as s, (as16 dst) as d. intros s d Hs Hd.
  destruct p as [a l]. unfold cap in *. cbn [arr len] in *.
  do 40 (destr_list a Hc).
  do 16 (destr_list s Hs). destruct s; [|discriminate].
  do 16 (destr_list d Hd). destruct d; [|discriminate].
  unfold seti, put16, copyto, reslice, cap. run. reflexivity.
Qed.

Lemma ip6_append_bytes hop s d rest b nh :
  length s = 16%nat -> length d = 16%nat -> (length b <= length rest)%nat -> N.of_nat (length b) < 65536 ->
  ip6_append (mkSlice (ip6_hdr 0 59 hop s d ++ rest) 40) b false nh =
  Ok (mkSlice (ip6_hdr (u16 (N.of_nat (length b))) nh hop s d ++ b ++ skipn (length b) rest) (40 + length b)).
Proof.
  intros Hs Hd Hb Hsz.
  assert (Eu : u16 (N.of_nat (length b)) = N.of_nat (length b)) by (unfold u16; apply N.mod_small; exact Hsz).
  assert (En : N.to_nat (N.of_nat (length b)) = length b) by lia.
  do 16 (destr_list s Hs). destruct s; [|discriminate].
  do 16 (destr_list d Hd). destruct d; [|discriminate].
  unfold ip6_append, ip6_payloadlen, seti, put16, copyto, be16_at, reslice, cap. cbn [orb]. rewrite Eu.
  run. rewrite ?Nat2N.id. run.
  rewrite Nat.sub_0_r, firstn_all, blit0 by lia. reflexivity.
Qed.

Definition ip6_expected_view nh hop (s d b : bytes) : ip6_view :=
  {| v6_version := 6; v6_plen := N.of_nat (length b); v6_next := nh; v6_hop := hop; v6_src := s; v6_dst := d;
     v6_payload := b |}.
Definition ip6_expected_ref nh hop (s d b : bytes) : r_ip6 :=
  {| r6_class := 0; r6_flow := 0; r6_plen := N.of_nat (length b); r6_next := nh; r6_hop := hop;
     r6_src := s; r6_dst := d; r6_payload := b |}.

Lemma ip6_frame_decodes nh hop s d b T :
  length s = 16%nat -> length d = 16%nat -> bytes_ok s -> bytes_ok d -> bytes_ok b ->
  nh < 256 -> hop < 256 -> 40 + N.of_nat (length b) < 65536 ->
  let r := mkSlice (ip6_hdr (N.of_nat (length b)) nh hop s d ++ b ++ T) (40 + length b) in
  bytes_ok (view r) /\
  ip6_decode_lib r = Ok (ip6_expected_view nh hop s d b) /\
  ref_ip6 (view r) = Some (ip6_expected_ref nh hop s d b).
Proof.
  intros Hs Hd Bs Bd Bb Hnh Hhop Hsz r. subst r.
  set (pl := N.of_nat (length b)) in *.
  assert (Hpl : pl < 65536) by lia.
  assert (Epl : N.to_nat pl = length b) by lia.
  assert (Eu : N.to_nat (u16 (pl + 40)) = (40 + length b)%nat) by (unfold u16; rewrite N.mod_small by lia; lia).
  do 16 (destr_list s Hs). destruct s; [|discriminate].
  do 16 (destr_list d Hd). destruct d; [|discriminate].
  unfold ip6_hdr. cbn [app].
  split.
  { unfold view. cbn [arr len Nat.add firstn]. rewrite firstn_app_exact.
    repeat (apply bytes_ok_cons in Bs; destruct Bs as [? Bs]).
    repeat (apply bytes_ok_cons in Bd; destruct Bd as [? Bd]).
    repeat (apply bytes_ok_cons; split; [first [assumption | lia | apply hi8_lt | apply lo8_lt]|]). assumption. }
  split.
  { unfold ip6_decode_lib, ip6_is_valid, ip6_payload, ip6_version, ip6_payloadlen, ip6_nextheader, ip6_hoplimit, ip6_src,
      ip6_dst, idx, be16_at, sl, slfrom, cap.
    run. rewrite ?Epl. run. rewrite ?Epl. run.
    unfold view; cbn [arr len]; rewrite ?Nat.sub_0_r, ?firstn_app_exact. reflexivity. }
  unfold view. cbn [arr len Nat.add firstn]. rewrite firstn_app_exact.
  unfold ref_ip6, take, drop, w16. rewrite !w16_hi_lo by assumption. rewrite Epl.
  change (96 / 16 =? 6) with true.
  cbn [length firstn skipn Nat.add]. rewrite firstn_all.
  repeat match goal with |- context [Nat.leb ?a ?b] =>
    let H := fresh in destruct (Nat.leb_spec a b) as [H|H]; [clear H|exfalso; lia] end.
  cbn [andb]. reflexivity.
Qed.

Theorem ip6_append_rt p hop src dst b nh :
  (40 + length b <= cap p)%nat -> bytes_ok src -> bytes_ok dst -> bytes_ok b ->
  nh < 256 -> hop < 256 -> 40 + N.of_nat (length b) < 65536 ->
  exists ip r,
    encode_ip6 p hop src dst = Ok (ip, false) /\ len ip = 40%nat /\
    ip6_append ip b false nh = Ok r /\
    len r = (40 + length b)%nat /\ cap r = cap p /\
    skipn (40 + length b) (arr r) = skipn (40 + length b) (arr p) /\
    bytes_ok (view r) /\
    ip6_decode_lib r = Ok (ip6_expected_view nh hop (as16 src) (as16 dst) b) /\
    ref_ip6 (view r) = Some (ip6_expected_ref nh hop (as16 src) (as16 dst) b).
Proof.
  intros Hc Bs Bd Bb Hnh Hhop Hsz.
  eexists. eexists. split. { apply encode_ip6_bytes. lia. }
  split. { reflexivity. }
  assert (Hrest : (length b <= length (skipn 40 (arr p)))%nat) by (rewrite skipn_length; unfold cap in Hc; lia).
  split. { apply ip6_append_bytes; auto using as16_length. lia. }
  assert (Eu : u16 (N.of_nat (length b)) = N.of_nat (length b)) by (unfold u16; apply N.mod_small; lia).
  rewrite Eu.
  assert (Hl40 : length (ip6_hdr (N.of_nat (length b)) nh hop (as16 src) (as16 dst)) = 40%nat).
  { unfold ip6_hdr. cbn [app length]. rewrite app_length, !as16_length. lia. }
  split. { reflexivity. }
  split. { unfold cap in *. cbn [arr]. rewrite !app_length, !skipn_length, Hl40. lia. }
  split. { cbn [arr]. transitivity (skipn (length b) (skipn 40 (arr p))); [|apply skipn_skipn'].
           rewrite <- skipn_skipn'. rewrite (skipn_app_len 40) by exact Hl40. apply skipn_app_exact. }
  apply ip6_frame_decodes; auto using as16_length, as16_ok.
Qed.

(* below 40 bytes of capacity EncodeIP6 allocates: the caller's buffer is not the frame *)
Lemma encode_ip6_small_allocates p hop src dst :
  (cap p < 40)%nat -> exists r, encode_ip6 p hop src dst = Ok (r, true) /\ len r = 40%nat /\ cap r = 40%nat.
Proof.
  intros Hc.
  pose proof (as16_length src) as Hs. pose proof (as16_length dst) as Hd.
  unfold encode_ip6. destruct (Nat.ltb_spec (cap p) 40) as [_|H]; [|lia].
  unfold encode_ip6_on.
  revert Hs Hd. generalize (as16 src) as s, (as16 dst) as d. intros s d Hs Hd.
  do 16 (destr_list s Hs). destruct s; [|discriminate].
  do 16 (destr_list d Hd). destruct d; [|discriminate].
  eexists. split. { vm_compute. reflexivity. } split; reflexivity.
Qed.
