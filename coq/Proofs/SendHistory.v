(* Proofs/SendHistory.v — C07_history: along every history of send events (Model/SendHistory.v) with
   admissible arguments, every frame written to the connection satisfies the well-formedness predicate of
   the path that emitted it; in particular it decodes under the reference decoder and its Ethernet source is
   the host NIC MAC. *)
From PV Require Import Proofs.SendBase Model.SendHistory Spec.SendRefUdp
  Proofs.Send Proofs.SendNdp Proofs.SendUdp Proofs.SendUdp6 Proofs.SendIcmp6 Proofs.SendRa Proofs.SendDns Proofs.SendDhcp.
Open Scope N_scope.

Definition cfg_ok (c : cfg) : Prop :=
  mac_ok (host_mac c) /\ ip4_ok (host_ip4 c) /\ ip6_ok (host_lla c) /\ mac_ok (router_mac c) /\ ip4_ok (router_ip4 c).

Definition dhcp_opts_ok (opts : list opt) : Prop :=
  Forall opt_ok opts /\ plain_opts opts /\ opts_bytes_ok opts /\ (length (append_options opts) <= 1000)%nat.

(* admissible arguments (the args_ok of the per-path theorems) *)
Definition ev_ok (ev : event) : Prop :=
  match ev with
  | EvPurgeArp ip => ip4_ok ip
  | EvPurgeIp6 (tm, ti) id => mac_ok tm /\ ip6_ok ti /\ id < 65536
  | EvEcho4 (_, si) (dm, di) id seq => mac_ok dm /\ ip4_ok si /\ ip4_ok di /\ id < 65536 /\ seq < 65536
  | EvEcho6 (_, si) (dm, di) id seq => mac_ok dm /\ ip6_ok si /\ ip6_ok di /\ id < 65536 /\ seq < 65536
  | EvNS (_, si) (dm, di) tg => mac_ok dm /\ ip6_ok si /\ ip6_ok di /\ ip6_ok tg
  | EvNA (_, si) (dm, di) (tm, ti) => mac_ok dm /\ ip6_ok si /\ ip6_ok di /\ mac_ok tm /\ ip6_ok ti
  | EvRS => True
  | EvRA pf rd (dm, di) => mac_ok dm /\ ip6_ok di /\ pf_ok pf /\ rd_ok rd
  | EvArp op dst (sm, si) (tm, ti) => mac_ok dst /\ mac_ok sm /\ ip4_ok si /\ mac_ok tm /\ ip4_ok ti /\ op < 65536
  | EvDhcpReply (dm, di) p => mac_ok dm /\ ip4_ok di /\ dst4_mac_ok dm di = true /\ bytes_ok p /\ (length p <= 1480)%nat
  | EvDiscover ch ci xid opts =>
      mac_ok ch /\ (ip4_ok ci \/ is4 ci = false) /\ length xid = 4%nat /\ bytes_ok xid /\ dhcp_opts_ok opts
  | EvDeclineRelease ch ci xid opts =>
      mac_ok ch /\ ip4_ok ci /\ length xid = 4%nat /\ bytes_ok xid /\ dhcp_opts_ok opts
  | EvMdnsQuery name | EvLlmnrQuery name => bytes_ok name   (* any name: unencodable ones are refused *)
  | EvMdns buf (_, si) (dm, di) port =>
      mac_ok dm /\ port < 65536 /\ bytes_ok buf /\
      ((ip4_ok si /\ ip4_ok di /\ (length buf <= 1480)%nat) \/ (ip6_ok si /\ ip6_ok di /\ (length buf <= 1460)%nat))
  | EvNbnsQuery (_, si) (dm, di) seq name =>
      ip4_ok si /\ mac_ok dm /\ ip4_ok di /\ seq < 65536 /\ bytes_ok name   (* any length: > 16 is refused *)
  | EvNbnsStatus seq => seq < 65536
  | EvSsdp => True
  end.

Definition step_ok (s : step) : Prop :=
  let '(ev, j1, j2) := s in ev_ok ev /\ length j1 = EthMaxSize /\ length j2 = EthMaxSize.

(* the well-formedness predicate of the path an event goes through *)
Definition wf_event (c : cfg) (ev : event) (fr : bytes) : bool :=
  let hm := host_mac c in
  match ev with
  | EvPurgeArp ip => wf_arp hm eth_bcast 1 hm (host_ip4 c) eth_bcast ip fr
  | EvPurgeIp6 (tm, ti) id =>
      if ll_unicast ti
      then wf_ns hm (mac_of_mcast6 (a_ip (solicited_node ti))) (host_lla c) (a_ip (solicited_node ti)) ti fr
      else wf_echo6 hm tm (host_lla c) ti id 0 fr
  | EvEcho4 (_, si) (dm, di) id seq => wf_echo4 hm dm si di id seq fr
  | EvEcho6 (_, si) (dm, di) id seq => wf_echo6 hm dm si di id seq fr
  | EvNS (_, si) (dm, di) tg => wf_ns hm dm si di tg fr
  | EvNA (_, si) (dm, di) (tm, ti) => wf_na hm dm si di 32 ti tm fr
  | EvRS => wf_rs hm (host_lla c) fr
  | EvRA pf rd (dm, di) => wf_ra hm (host_lla c) (mtu c) pf rd dm di fr
  | EvArp op dst (sm, si) (tm, ti) => wf_arp hm dst op sm si tm ti fr
  | EvDhcpReply (dm, di) p => wf_udp4 hm dm (host_ip4 c) di 67 68 (beq p) true fr
  | EvDiscover ch ci xid opts =>
      wf_udp4 hm (router_mac c) (host_ip4 c) (router_ip4 c) 68 67
        (wf_dhcp_client ch (if is4 ci then ci else [0;0;0;0]) (Some xid) opts) false fr
  | EvDeclineRelease ch ci xid opts =>
      wf_udp4 hm (router_mac c) (host_ip4 c) (router_ip4 c) 68 67 (wf_dhcp_client ch ci (Some xid) opts) false fr
  | EvMdnsQuery name =>
      wf_udp4 hm (mac_of_mcast4 [224;0;0;251]) (host_ip4 c) [224;0;0;251] 5353 5353
        (wf_dns_query None (query_labels name) 255 255) true fr
  | EvLlmnrQuery name =>
      wf_udp4 hm (mac_of_mcast4 [224;0;0;252]) (host_ip4 c) [224;0;0;252] 5355 5355
        (wf_dns_query None (query_labels name) 12 255) true fr
  | EvMdns buf (_, si) (dm, di) port =>
      if is4 si then wf_udp4 hm dm si di port port (beq buf) false fr
      else wf_udp6 hm dm si di port port (beq buf) fr
  | EvNbnsQuery (_, si) (dm, di) seq name =>
      wf_udp4 hm dm si di 137 137 (wf_dns_query (Some seq) [nb_label name] 32 1) false fr
  | EvNbnsStatus seq =>
      wf_udp4 hm eth_bcast (host_ip4 c) [255;255;255;255] 137 137 (wf_dns_query (Some seq) [nb_label [42]] 33 1) true fr
  | EvSsdp =>
      wf_udp4 hm (mac_of_mcast4 [239;255;255;250]) (host_ip4 c) [239;255;255;250] 1900 1900 wf_msearch true fr
  end.

Ltac one_frame L :=
  let fr' := fresh "fr" in let E := fresh "E" in let W := fresh "W" in
  destruct L as (fr' & E & W); auto; try lia;
  match goal with Hin : In _ (frames_of _) |- _ =>
    cbn [emit] in Hin; rewrite E in Hin; cbn [frames_of In] in Hin; destruct Hin as [<-|[]] end;
  try exact W.

(* every frame an admissible event emits satisfies the predicate of its path *)
Lemma event_wf c ev j1 j2 fr :
  cfg_ok c -> step_ok (ev, j1, j2) -> In fr (frames_of (emit c (ev, j1, j2))) -> wf_event c ev fr = true.
Proof.
  intros (C1 & C2 & C3 & C4 & C5) (Hev & HJ1 & HJ2) Hin.
  assert (HJ1' : (42 <= length j1)%nat) by (rewrite HJ1; unfold EthMaxSize; lia).
  destruct ev as [ip | [tm ti] id | [sm si] [dm di] id seq | [sm si] [dm di] id seq | [sm si] [dm di] tg
                 | [sm si] [dm di] [tm ti] | | pf rd [dm di] | op dst [sm si] [tm ti] | [dm di] p
                 | ch ci xid opts | ch ci xid opts | name | name | buf [sm si] [dm di] port
                 | [sm si] [dm di] seq name | seq | ]; cbn [ev_ok wf_event] in *.
  - one_frame (purge_arp_wf c ip j1 C1 C2 Hev HJ1').
  - destruct Hev as (A & B & D). destruct (ll_unicast ti) eqn:ELL.
    + destruct (purge_ns_wf c tm ti id j1 C1 C3 B ELL HJ1) as (fr' & E & W & _).
      cbn [emit] in Hin. rewrite E in Hin. cbn [frames_of In] in Hin. destruct Hin as [<-|[]]. exact W.
    + one_frame (purge_echo6_wf c tm ti id j1 C1 C3 A B ELL D HJ1).
  - destruct Hev as (A & B & D & F & G). one_frame (echo4_wf c sm si dm di id seq j1 C1 A B D F G HJ1).
  - destruct Hev as (A & B & D & F & G). one_frame (echo6_wf c sm si dm di id seq j1 C1 A B D F G HJ1).
  - destruct Hev as (A & B & D & F). one_frame (ns_wf c sm si dm di tg j1 C1 A B D F HJ1).
  - destruct Hev as (A & B & D & F & G). one_frame (na_wf c sm si dm di tm ti j1 C1 A B D F G HJ1).
  - one_frame (rs_wf c j1 C1 C3 HJ1).
  - destruct Hev as (A & B & D & F). cbn [emit] in Hin.
    destruct (send_ra c pf rd (dm, di) j1) as [l| | |] eqn:E; cbn [frames_of] in Hin; try destruct Hin.
    assert (Hl : l = [fr] \/ l = []).
    { unfold send_ra in E. destruct pf; [injection E as <-; auto|]. destruct (cat_opts _); [|injection E as <-; auto].
      unfold icmp6_send_packet in E. destruct (ip6_append_payload _ _ _ _); [|injection E as <-; auto].
      destruct (Nat.ltb _ 4); [discriminate|]. injection E as <-. destruct Hin as [<-|[]]. auto. }
    destruct Hl as [->| ->]; [|destruct Hin]. exact (ra_wf c pf rd dm di j1 fr C1 C3 A B D F HJ1 E).
  - destruct Hev as (A & B & D & F & G & K). one_frame (arp_spoofer_wf c op dst sm si tm ti j1 C1 A B D F G K HJ1').
  - destruct Hev as (A & B & D & F & G). one_frame (dhcp_reply_wf c dm di p j1 C1 C2 A B D F G HJ1).
  - destruct Hev as (A & B & D & F & (G1 & G2 & G3 & G4)).
    one_frame (send_discover_wf c ch ci xid opts j1 C1 C2 C4 C5 A B D F G1 G2 G3 G4 HJ1).
  - destruct Hev as (A & B & D & F & (G1 & G2 & G3 & G4)).
    one_frame (decline_release_wf c ch ci xid opts j1 j2 C1 C2 C4 C5 A B D F G1 G2 G3 G4 HJ1 HJ2).
  - destruct (dns_pack_ok name) eqn:Epk.
    + one_frame (mdns_query_wf c name C1 C2 Hev Epk).
    + cbn [emit] in Hin. rewrite (mdns_query_refuses c name Epk) in Hin. destruct Hin.
  - destruct (dns_pack_ok name) eqn:Epk.
    + one_frame (llmnr_query_wf c name C1 C2 Hev Epk).
    + cbn [emit] in Hin. rewrite (llmnr_query_refuses c name Epk) in Hin. destruct Hin.
  - destruct Hev as (A & B & D & [(F & G & K)|(F & G & K)]).
    + unfold is4. rewrite (proj1 F). cbn [Nat.eqb]. one_frame (mdns4_wf c buf sm si dm di port C1 F A G B D K).
    + unfold is4. rewrite (proj1 F). cbn [Nat.eqb]. one_frame (mdns6_wf c buf sm si dm di port C1 F A G B D K).
  - destruct Hev as (A & B & D & F & G). destruct (le_lt_dec (length name) 16) as [K|K].
    + one_frame (nbns_query_wf c sm si dm di seq name j1 C1 A B D F G K HJ1).
    + cbn [emit] in Hin. rewrite (nbns_query_refuses c (sm, si) (dm, di) seq name j1 K) in Hin. destruct Hin.
  - one_frame (nbns_node_status_wf c seq j1 C1 C2 Hev HJ1).
  - one_frame (ssdp_wf c j1 C1 C2 HJ1).
Qed.

(* the uniform consequence: the frame decodes under the reference decoder (complete, length-consistent
   Ethernet / ARP / IPv4 / IPv6 / ICMP / UDP packet) and its Ethernet source is the host NIC MAC *)
Definition frame_from_host (hostmac fr : bytes) : bool :=
  match ref_decode fr with Some f => beq (f_src f) hostmac | None => false end.

Ltac src_of H :=
  repeat (apply andb_true_iff in H; let H' := fresh "K" in destruct H as [H H']);
  cbn [f_src]; assumption.

Lemma wf_arp_src h d op a b e f fr : wf_arp h d op a b e f fr = true -> frame_from_host h fr = true.
Proof.
  unfold wf_arp, frame_from_host. destruct (ref_decode fr) as [[dd s et l3]|]; [|discriminate].
  destruct l3; try discriminate. intros H. src_of H.
Qed.
Lemma wf_echo4_src h d a b i s fr : wf_echo4 h d a b i s fr = true -> frame_from_host h fr = true.
Proof.
  unfold wf_echo4, frame_from_host. destruct (ref_decode fr) as [[dd ss et l3]|]; [|discriminate].
  destruct l3 as [| ? ? ? ? ? ? ? l4 |]; try discriminate. destruct l4; try discriminate. intros H. src_of H.
Qed.
Lemma wf_echo6_src h d a b i s fr : wf_echo6 h d a b i s fr = true -> frame_from_host h fr = true.
Proof.
  unfold wf_echo6, frame_from_host. destruct (ref_decode fr) as [[dd ss et l3]|]; [|discriminate].
  destruct l3 as [| | ? ? ? ? ? l4]; try discriminate. destruct l4; try discriminate. intros H. src_of H.
Qed.
Lemma wf_ns_src t h d a b g fr : wf_ns_gen t h d a b g fr = true -> frame_from_host h fr = true.
Proof.
  unfold wf_ns_gen, frame_from_host. destruct (ref_decode fr) as [[dd ss et l3]|]; [|discriminate].
  destruct l3 as [| | ? ? ? ? ? l4]; try discriminate. destruct l4; try discriminate. intros H. src_of H.
Qed.
Lemma wf_na_src h d a b fl ti tm fr : wf_na h d a b fl ti tm fr = true -> frame_from_host h fr = true.
Proof.
  unfold wf_na, frame_from_host. destruct (ref_decode fr) as [[dd ss et l3]|]; [|discriminate].
  destruct l3 as [| | ? ? ? ? ? l4]; try discriminate. destruct l4; try discriminate. intros H. src_of H.
Qed.
Lemma wf_rs_src h l fr : wf_rs h l fr = true -> frame_from_host h fr = true.
Proof.
  unfold wf_rs, frame_from_host. destruct (ref_decode fr) as [[dd ss et l3]|]; [|discriminate].
  destruct l3 as [| | ? ? ? ? ? l4]; try discriminate. destruct l4; try discriminate. intros H. src_of H.
Qed.
Lemma wf_ra_src h l m pf rd d di fr : wf_ra h l m pf rd d di fr = true -> frame_from_host h fr = true.
Proof.
  unfold wf_ra, frame_from_host. destruct (ref_decode fr) as [[dd ss et l3]|]; [|discriminate].
  destruct l3 as [| | ? ? ? ? ? l4]; try discriminate. destruct l4; try discriminate. intros H. src_of H.
Qed.
Lemma wf_udp4_src h d a b sp dp ok own fr : wf_udp4 h d a b sp dp ok own fr = true -> frame_from_host h fr = true.
Proof.
  unfold wf_udp4, frame_from_host. destruct (ref_decode fr) as [[dd ss et l3]|]; [|discriminate].
  destruct l3 as [| ? ? ? ? ? ? ? l4 |]; try discriminate. destruct l4; try discriminate. intros H. src_of H.
Qed.
Lemma wf_udp6_src h d a b sp dp ok fr : wf_udp6 h d a b sp dp ok fr = true -> frame_from_host h fr = true.
Proof.
  unfold wf_udp6, frame_from_host. destruct (ref_decode fr) as [[dd ss et l3]|]; [|discriminate].
  destruct l3 as [| | ? ? ? ? ? l4]; try discriminate. destruct l4; try discriminate. intros H. src_of H.
Qed.

Lemma wf_event_src c ev fr : wf_event c ev fr = true -> frame_from_host (host_mac c) fr = true.
Proof.
  destruct ev as [ip | [tm ti] id | [sm si] [dm di] id seq | [sm si] [dm di] id seq | [sm si] [dm di] tg
                 | [sm si] [dm di] [tm ti] | | pf rd [dm di] | op dst [sm si] [tm ti] | [dm di] p
                 | ch ci xid opts | ch ci xid opts | name | name | buf [sm si] [dm di] port
                 | [sm si] [dm di] seq name | seq | ]; cbn [wf_event];
  first [ apply wf_arp_src | apply wf_echo4_src | apply wf_echo6_src | apply wf_ns_src | apply wf_na_src
        | apply wf_rs_src | apply wf_ra_src | apply wf_udp4_src | idtac ].
  - destruct (ll_unicast ti); [apply wf_ns_src|apply wf_echo6_src].
  - destruct (is4 si); [apply wf_udp4_src|apply wf_udp6_src].
Qed.

(* C07_history *)
Theorem history_wf c (h : list step) :
  cfg_ok c -> Forall step_ok h ->
  forall s fr, In s h -> In fr (frames_of (emit c s)) -> wf_event c (fst (fst s)) fr = true.
Proof.
  intros Hc Hh [[ev j1] j2] fr Hs Hfr. rewrite Forall_forall in Hh.
  apply (event_wf c ev j1 j2 fr Hc (Hh _ Hs) Hfr).
Qed.

Theorem history_frames_from_host c (h : list step) :
  cfg_ok c -> Forall step_ok h -> Forall (fun fr => frame_from_host (host_mac c) fr = true) (run c h).
Proof.
  intros Hc Hh. apply Forall_forall. intros fr Hin. unfold run in Hin.
  apply in_concat in Hin. destruct Hin as (l & Hl & Hfr). apply in_map_iff in Hl. destruct Hl as (s & <- & Hs).
  apply (wf_event_src c (fst (fst s))). apply (history_wf c h Hc Hh s fr Hs Hfr).
Qed.

(* non-vacuity: a history with a purge probe, a spoofed ARP reply, an RS and an SSDP search *)
Example history_inhabited :
  exists c h, cfg_ok c /\ Forall step_ok h /\ length (run c h) = 4%nat.
Proof.
  exists cfg0, [(EvPurgeArp [192;168;0;5], repeat 0 EthMaxSize, repeat 0 EthMaxSize);
                (EvArp 2 [2;0;0;0;0;9] (host_mac cfg0, [192;168;0;11]) ([2;0;0;0;0;9], [192;168;0;9]), repeat 7 EthMaxSize, repeat 0 EthMaxSize);
                (EvRS, repeat 255 EthMaxSize, repeat 0 EthMaxSize);
                (EvSsdp, repeat 1 EthMaxSize, repeat 0 EthMaxSize)].
  split; [repeat split; try reflexivity; oks|]. split.
  - repeat constructor; cbn [ev_ok]; try reflexivity; repeat split; try reflexivity; try lia; oks.
  - vm_compute. reflexivity.
Qed.
