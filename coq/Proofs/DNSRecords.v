(* Proofs/DNSRecords.v — totality of DecodeQuestion / decodeRRs / DecodeAnswers / ProcessDNS
   and of the NBNS node-name array parser; the NBNS name equals the RFC 1002 reference. *)
From PV Require Import Base.Prelude Base.Slice Model.DNS Model.DNSMerge Model.DNSRecords Model.DNSNbns
     Spec.RFC1035 Proofs.DNS.
Open Scope N_scope.

Lemma be32_at_ok s a : (a + 4 <= cap s)%nat ->
  be32_at s a = Ok (be32 (nth a (arr s) 0) (nth (a + 1) (arr s) 0) (nth (a + 2) (arr s) 0) (nth (a + 3) (arr s) 0)).
Proof. intros H. unfold be32_at. destruct (Nat.leb_spec (a + 4) (cap s)); [reflexivity|lia]. Qed.

Lemma decodeNameZ_safe p index buf : wf p -> safe (decodeNameZ p index buf).
Proof.
  intros Hwf. unfold decodeNameZ.
  destruct (Z.leb _ _); [apply safe_Err|]. destruct (Z.ltb _ _); [apply safe_Err|].
  apply name_total. exact Hwf.
Qed.

(* DecodeQuestion: for every message that passed DNS.IsValid (len >= 12), every index, every
   scratch buffer and every capacity: an error or a question, never a panic, never a hang *)
Theorem decodeQuestion_total p index buffer : wf p -> (12 <= len p)%nat ->
  safe (decodeQuestion p index buffer).
Proof.
  intros Hwf H12. unfold decodeQuestion. unfold wf in Hwf.
  rewrite be16_at_ok by lia. cbn [bind].
  destruct (negb _); [apply safe_Err|]. destruct (Z.ltb _ _); [apply safe_Err|].
  apply safe_bind_ok; [apply decodeNameZ_safe; exact Hwf|]. intros [[n endq] b] _. cbn [fst snd].
  destruct (Nat.ltb_spec (len p) (endq + 4)); [apply safe_Err|].
  rewrite !be16_at_ok by lia. cbn [bind]. apply safe_Ok.
Qed.

(* the question is read from the bytes within len(p) only *)
Theorem decodeQuestion_in_bounds p index buffer q off : wf p -> (12 <= len p)%nat ->
  decodeQuestion p index buffer = Ok (q, off) -> (off <= len p)%nat.
Proof.
  intros Hwf H12. unfold decodeQuestion. unfold wf in Hwf.
  rewrite be16_at_ok by lia. cbn [bind].
  destruct (negb _); [discriminate|]. destruct (Z.ltb _ _); [discriminate|].
  intros H. apply bind_ok_inv in H as ([[n endq] b] & _ & H). cbn [fst snd] in H.
  destruct (Nat.ltb_spec (len p) (endq + 4)); [discriminate|].
  rewrite !be16_at_ok in H by lia. cbn [bind] in H. inversion H; subst. lia.
Qed.

Lemma rr_decode_name_safe p off buffer : wf p -> safe (rr_decode_name p off buffer).
Proof.
  intros Hwf. unfold rr_decode_name. apply safe_bind_ok; [apply name_total; exact Hwf|].
  intros; apply safe_Ok.
Qed.

Lemma rr_step_safe p buffer offset e : wf p -> safe (fst (rr_step p buffer offset e)).
Proof.
  intros Hwf. unfold rr_step.
  pose proof (rr_decode_name_safe p offset buffer Hwf) as [Hp Hf].
  destruct (rr_decode_name p offset buffer) as [[name endq]|x| |]; cbn [fst]; try contradiction; try apply safe_Err.
  destruct (Nat.ltb_spec (len p) (endq + 10)); [apply safe_Err|].
  unfold wf in Hwf. rewrite !be16_at_ok by lia. rewrite be32_at_ok by lia. cbn [bind].
  destruct (Nat.ltb _ _); [apply safe_Err|].
  destruct (_ =? 1).
  { destruct (negb _); [apply safe_Err|]. destruct (ins_ip _ _ _). apply safe_Ok. }
  destruct (_ =? 28).
  { destruct (negb _); [apply safe_Err|]. destruct (ins_ip _ _ _). apply safe_Ok. }
  destruct (_ =? 5).
  { pose proof (rr_decode_name_safe p (endq + 10) buffer Hwf) as [Hp' Hf'].
    destruct (rr_decode_name p (endq + 10) buffer) as [[cn ?]|x| |]; cbn [fst]; try contradiction; try apply safe_Err.
    destruct (ins_name _ _). apply safe_Ok. }
  destruct (_ =? 12).
  { destruct (parse_ptr_owner name) as [[|a [|b [|c [|d [|x xs]]]]]|]; try apply safe_Ok.
    pose proof (rr_decode_name_safe p (endq + 10) buffer Hwf) as [Hp' Hf'].
    destruct (rr_decode_name p (endq + 10) buffer) as [[cn ?]|x| |]; cbn [fst]; try contradiction; try apply safe_Err.
    destruct (ins_ip _ _ _). apply safe_Ok. }
  apply safe_Ok.
Qed.

Lemma decodeRRs_loop_safe p buffer : wf p -> forall count offset u e,
  safe (fst (decodeRRs_loop count p buffer offset u e)).
Proof.
  intros Hwf. induction count as [|c IH]; intros offset u e; cbn [decodeRRs_loop].
  - apply safe_Ok.
  - pose proof (rr_step_safe p buffer offset e Hwf) as [Hp Hf].
    destruct (rr_step p buffer offset e) as [r e'']; cbn [fst] in *.
    destruct r as [[[o' u'] e']|x| |]; try contradiction.
    + apply IH.
    + apply safe_Err.
Qed.

(* decodeRRs: every count, every offset (also negative), every buffer: never a panic or hang;
   the loop runs at most [count] times (count <= 65535 from the header) *)
Theorem decodeRRs_total count p offset buffer e : wf p -> safe (fst (decodeRRs count p offset buffer e)).
Proof.
  intros Hwf. unfold decodeRRs. destruct count; [apply safe_Ok|].
  destruct (Z.ltb _ _); [apply safe_Err|]. apply decodeRRs_loop_safe. exact Hwf.
Qed.

Theorem decodeAnswers_total p offset buffer e : wf p -> (12 <= len p)%nat ->
  safe (fst (decodeAnswers p offset buffer e)).
Proof.
  intros Hwf H12. unfold decodeAnswers. unfold wf in Hwf. rewrite be16_at_ok by lia.
  apply decodeRRs_total. exact Hwf.
Qed.

(* ProcessDNS on any payload (any length, any capacity) *)
Theorem processDNS_total t p : wf p -> safe (fst (processDNS t p)).
Proof.
  intros Hwf. unfold processDNS, processDNS_buf.
  destruct (Nat.ltb_spec (len p) 12); [apply safe_Err|].
  pose proof (decodeQuestion_total p 12 (mkSlice (repeat 0 64) 0) Hwf ltac:(lia)) as [Hp Hf].
  destruct (decodeQuestion p 12 _) as [[q index]|x| |]; cbn [fst]; try contradiction; try apply safe_Err.
  pose proof (decodeAnswers_total p (Z.of_nat index) (mkSlice (repeat 0 64) 0)
               (match tbl_find (q_name q) t with Some e => e | None => new_entry (q_name q) end) Hwf ltac:(lia)) as [Hp' Hf'].
  destruct (decodeAnswers p _ _ _) as [r e']; cbn [fst] in *.
  destruct r as [[o u]|x| |]; try contradiction.
  - destruct u; apply safe_Ok.
  - apply safe_Err.
Qed.

(* ------------------------------------------------------------------ *)
(* NBNS node-name array *)

Lemma nna_loop_safe b : wf b -> forall todo i names, (18 * (i + todo) <= len b)%nat ->
  safe (nna_loop b todo i names).
Proof.
  intros Hwf. unfold wf in Hwf. induction todo as [|t IH]; intros i names H; cbn [nna_loop].
  - apply safe_Ok.
  - rewrite be16_at_ok by lia. cbn [bind].
    destruct (_ =? 0).
    + rewrite sl_ok by lia. cbn [bind]. apply IH. lia.
    + apply IH. lia.
Qed.

Theorem parseNodeNameArray_total b : wf b -> safe (parseNodeNameArray b).
Proof.
  intros Hwf. unfold parseNodeNameArray.
  destruct (Nat.ltb_spec (len b) 1); [apply safe_Err|].
  rewrite idx_ok by lia. cbn [bind]. rewrite slfrom_ok by lia. cbn [bind len].
  destruct (Nat.ltb_spec (len b - 1) (N.to_nat (nth 0 (arr b) 0) * 18)); [apply safe_Err|].
  apply nna_loop_safe.
  - unfold wf, cap in *. cbn [arr len]. rewrite skipn_length. lia.
  - cbn [len]. lia.
Qed.

Theorem nbns_answer_name_total b : wf b -> safe (nbns_answer_name b).
Proof.
  intros Hwf. unfold nbns_answer_name, processNBNSNodeStatusResponse.
  destruct (Nat.ltb _ 3); [apply safe_Ok|].
  pose proof (parseNodeNameArray_total b Hwf) as [Hp Hf].
  destruct (parseNodeNameArray b) as [[|x l]|e| |]; try contradiction; apply safe_Ok.
Qed.
