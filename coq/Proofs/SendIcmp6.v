(* Proofs/SendIcmp6.v — icmp6SendPacket for an ICMPv6 message of any length (symbolic payload), and the
   Router Advertisement path built on it. *)
From PV Require Import Proofs.SendBase Model.Send Model.SendNdp Spec.SendRefUdp Proofs.Send.
Open Scope N_scope.
Local Arguments N.of_nat : simpl never.

Lemma firstn_blit0 (p rest : bytes) : (length p <= length rest)%nat ->
  firstn (length p) (blit 0 (firstn (length p) p) rest) = p.
Proof.
  rewrite firstn_all. revert rest. induction p as [|x p IH]; intros rest H; [reflexivity|].
  destruct rest as [|y rest]; [simpl in H; lia|]. simpl. f_equal. apply IH. simpl in H. lia.
Qed.

Ltac len_conds := repeat match goal with |- context [w16 ?l ?k =? N.of_nat ?n] =>
    replace (w16 l k =? N.of_nat n) with true
      by (symmetry; apply N.eqb_eq; unfold w16, be16, hi8, lo8, u16; cbn [nth]; unfold bytes, byte in *; lia) end.

Lemma shr24 n : u8 (N.shiftr n 24) = (n / 16777216) mod 256.
Proof. unfold u8. rewrite N.shiftr_div_pow2. reflexivity. Qed.
Lemma shr16 n : u8 (N.shiftr n 16) = (n / 65536) mod 256.
Proof. unfold u8. rewrite N.shiftr_div_pow2. reflexivity. Qed.
Lemma shr8 n : u8 (N.shiftr n 8) = (n / 256) mod 256.
Proof. unfold u8. rewrite N.shiftr_div_pow2. reflexivity. Qed.

Ltac icmp6_cks_sym :=
  unfold icmp6_cks_ok; cbn; unabs; apply verifiesb_true;
  rewrite <- ?shr24, <- ?shr16, <- ?shr8;
  match goal with |- verifies ?L =>
    let S := eval cbn [firstn] in (firstn 16 L) in
    let D := eval cbn [firstn skipn] in (firstn 16 (skipn 16 L)) in
    let M := eval cbn [skipn] in (skipn 40 L) in
    let P := eval cbn [set_nth] in (set_nth 2 0 (set_nth 3 0 M)) in
    change (verifies (icmp6_pseudo S D (N.of_nat (length P)) ++
                      icmp_set_checksum P (checksum (icmp6_pseudo S D (N.of_nat (length P)) ++ P))))
  end;
  apply icmp6_verifies;
  [oks | oks | oks | reflexivity | reflexivity | cbn [length]; lia
  | cbn [length]; unfold bytes, byte in *; lia | reflexivity | reflexivity].

(* icmp6SendPacket with any ICMPv6 message t :: c :: 0 :: 0 :: q.  The hop limit byte (frame offset 21) is
   exactly what the code computes: 255 towards link-local destinations and for Neighbor Discovery types
   133..137 (since fix 5a5618d), 64 otherwise. *)
Definition icmp6_hop (di : bytes) (t : N) : N :=
  if ll_unicast di || ll_multicast di || ((133 <=? t) && (t <=? 137)) then 255 else 64.

Lemma icmp6_hop_ok_holds di t : ip6_ok di -> t < 256 -> icmp6_hop_ok t di (icmp6_hop di t) = true.
Proof.
  intros Hdi Ht. unfold icmp6_hop_ok, icmp6_hop. pose proof (linklocal_agree di Hdi) as HLL.
  destruct ((133 <=? t) && (t <=? 137)).
  - rewrite orb_true_r. reflexivity.
  - rewrite orb_false_r. unfold ndp_hop_ok. destruct (ll_unicast di || ll_multicast di).
    + destruct (ip6_is_linklocal di); reflexivity.
    + destruct (ip6_is_linklocal di); [specialize (HLL eq_refl); discriminate|reflexivity].
Qed.

Lemma icmp6_generic c sm si dm di t cd q junk :
  mac_ok (host_mac c) -> mac_ok dm -> ip6_ok si -> ip6_ok di -> t < 256 -> cd < 256 ->
  bytes_ok q -> (length q <= 1464)%nat -> length junk = EthMaxSize ->
  exists fr, icmp6_send_packet c (sm, si) (dm, di) (t :: cd :: 0 :: 0 :: q) junk = Ok [fr] /\
    wf_icmp6 (host_mac c) dm si di t cd (beq q) fr = true /\ nth 21 fr 0 = icmp6_hop di t.
Proof.
  intros H1 H2 H3 H4 Ht Hc Hq Hlen HJ.
  assert (HJ' : (58 <= length junk)%nat) by (rewrite HJ; unfold EthMaxSize; lia).
  destruct (split_at 58 junk HJ') as (j & rest & -> & Hj).
  assert (Hrest : (length q <= length rest)%nat) by (rewrite app_length in HJ; unfold EthMaxSize in HJ; lia).
  clear HJ HJ'.
  pose proof (icmp6_hop_ok_holds di t H4 Ht) as HOK. unfold icmp6_hop in *.
  unfold icmp6_send_packet, ip6_append_payload. destruct c as [hm hip hlla rm rip mtu]. cbn [host_mac a_ip a_mac fst snd] in *.
  unfold bytes, byte in *.
  assert (E1 : Nat.ltb (EthMaxSize - 14 - 40) (length (t :: cd :: 0 :: 0 :: q)) = false).
  { apply Nat.ltb_ge. unfold EthMaxSize. cbn [length]. lia. }
  rewrite E1.
  replace (Nat.ltb (length (t :: cd :: 0 :: 0 :: q)) 4) with false by reflexivity.
  change (nd_message (t :: cd :: 0 :: 0 :: q)) with ((133 <=? t) && (t <=? 137)).
  unfold wf_icmp6.
  destruct (ll_unicast di || ll_multicast di || (133 <=? t) && (t <=? 137));
  explode_ok hm H1; explode_ok dm H2; explode_ok si H3; explode_ok di H4; explode j Hj;
  (eexists; split; [cbn; rewrite firstn_blit0 by assumption; reflexivity|]);
  (split; [|reflexivity]);
  abs_cks; cbn -[icmp6_hop_ok]; len_conds; cbn -[icmp6_hop_ok]; eqbs;
  (repeat (apply andb_true_intro; split)); try apply beq_refl; try exact HOK; try icmp6_cks_sym.
Qed.

(* ICMP6SendRouterAdvertisement: for every option block ob the marshalling accepts, the frame is an ICMPv6
   message of type 134 code 0 from the host's MAC and link-local address to the requested destination, hop
   limit 255 towards link-local destinations, checksum verifies, and the body is cur-hop-limit 64, no flags,
   lifetime 1800 s, reachable/retrans 0 followed by exactly ob.
   (partial: that ob decodes to the requested option list is judged per case by the reference decoder) *)
Definition ra_fixed : bytes := [64; 0; 7; 8; 0; 0; 0; 0; 0; 0; 0; 0].

Lemma ra_partial c prefixes rdnss dm di junk ob :
  mac_ok (host_mac c) -> ip6_ok (host_lla c) -> mac_ok dm -> ip6_ok di -> prefixes <> [] ->
  cat_opts ((match rdnss with Some (lt, srv) => [rdnss_option lt srv] | None => [] end)
            ++ map (fun p => prefix_option (u8 (fst p)) true true 7200 1800 (snd p)) prefixes
            ++ [dnssl_lan_option 1200; mtu_option (u32 (mtu c)); lla_option 1 (host_mac c)]) = Some ob ->
  bytes_ok ob -> (length ob <= 1452)%nat -> length junk = EthMaxSize ->
  exists fr, send_ra c prefixes rdnss (dm, di) junk = Ok [fr] /\
    wf_icmp6 (host_mac c) dm (host_lla c) di 134 0 (beq (ra_fixed ++ ob)) fr = true.
Proof.
  intros H1 H2 H3 H4 Hp E Hob Hl HJ. unfold send_ra. destruct prefixes as [|p0 ps]; [congruence|].
  rewrite E.
  assert (G : exists fr, icmp6_send_packet c (host_mac c, host_lla c) (dm, di) (134 :: 0 :: 0 :: 0 :: (ra_fixed ++ ob)) junk = Ok [fr] /\
                wf_icmp6 (host_mac c) dm (host_lla c) di 134 0 (beq (ra_fixed ++ ob)) fr = true).
  { destruct (icmp6_generic c (host_mac c) (host_lla c) dm di 134 0 (ra_fixed ++ ob) junk) as (fr & E1 & W1 & _); auto; try lia.
    - apply bytes_ok_app. split; [unfold ra_fixed; oks|exact Hob].
    - rewrite app_length. unfold ra_fixed. cbn [length]. unfold bytes, byte in *. lia.
    - exists fr. auto. }
  exact G.
Qed.

(* ---------------------------------------------------------------- *)
(* error paths of icmp6SendPacket and its callers: nothing is sent *)

(* a message that does not fit the buffer (more than 1468 bytes after the IPv6 header) is refused: the
   ErrPayloadTooBig of IP6.AppendPayload is returned (since fix d618c5a; it panicked before) *)
Lemma icmp6_oversize c src dst p junk :
  (EthMaxSize - 14 - 40 < length p)%nat -> icmp6_send_packet c src dst p junk = Ok [].
Proof.
  intros H. unfold icmp6_send_packet, ip6_append_payload.
  destruct (Nat.ltb_spec (EthMaxSize - 14 - 40) (length p)) as [_|Hx]; [reflexivity|lia].
Qed.

(* ICMP6SendEchoRequest with a source or destination that is not IPv6: ErrInvalidIP *)
Lemma echo6_refuses c src dst id seq junk :
  is6 (a_ip src) = false \/ is6 (a_ip dst) = false -> send_echo6 c src dst id seq junk = Ok [].
Proof. unfold send_echo6. intros [->| ->]; cbn; auto using orb_true_r. rewrite orb_true_r. reflexivity. Qed.

(* a Router Advertisement whose options do not fit the buffer is refused as well *)
Lemma ra_oversize c pf rd dst junk ob :
  pf <> [] ->
  cat_opts ((match rd with Some (lt, srv) => [rdnss_option lt srv] | None => [] end)
            ++ map (fun p => prefix_option (u8 (fst p)) true true 7200 1800 (snd p)) pf
            ++ [dnssl_lan_option 1200; mtu_option (u32 (mtu c)); lla_option 1 (host_mac c)]) = Some ob ->
  (1452 < length ob)%nat -> send_ra c pf rd dst junk = Ok [].
Proof.
  intros Hp E Hl. unfold send_ra. destruct pf; [congruence|]. rewrite E. apply icmp6_oversize.
  unfold ra_body, EthMaxSize. rewrite !app_length. cbn [length b32]. unfold bytes, byte in *. lia.
Qed.
