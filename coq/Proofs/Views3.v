(* Proofs/Views3.v -- C01 / C02 for the views with loops: ICMP6 router advertisement (option walk),
   hop-by-hop header (option walk), DHCP4 (NUL-terminated fields, option map = RFC 2132 TLV walk). *)
From PV Require Import Proofs.ViewsBase.
Open Scope N_scope.
Ltac valid_len H := unfold lenN in H; injection H as H.
Ltac std_safe2 W := unfold wf in W; unfold getters_ok; each_getter; try c01_fixed; try c01_gen.
Ltac std_spec2 W B L := unfold wf in W; pose proof (view_length _ W) as L; unfold getters_spec; each_spec;
  try (c02_fixed B L; fail); try (c02_fixed B L; by_sweep); try (c02_gen B L; fail).

(* ---------------- NDP option walk: returns a value or an error, never panics, never runs out of fuel ---------------- *)
Definition is_ret (r : res value) : Prop := r = Ok VU \/ r = Ok VE.

Lemma ndp_options_ret fuel : forall b i, wf b -> (i <= len b)%nat -> (len b - i < fuel)%nat ->
  is_ret (ndp_options fuel b i).
Proof.
  induction fuel as [|f IH]; intros b i W Hi Hf; [lia|].
  unfold wf in W. cbn [ndp_options]. rewrite slfrom_ok by lia. cbn [bind len].
  destruct (Nat.eqb_spec (len b - i) 0); [left; reflexivity|].
  destruct (Nat.ltb_spec (len b - i) 2); [right; reflexivity|].
  rewrite idx_ok by lia. cbn [bind]. rewrite idx_ok by lia. cbn [bind].
  set (l := (N.to_nat (nth (i + 1)%nat (arr b) 0%N) * 8)%nat).
  destruct (Nat.eqb_spec l 0); [right; reflexivity|].
  destruct (Nat.ltb_spec (len b - i) l); [right; reflexivity|].
  rewrite sl_ok by lia. cbn [bind]. rewrite idx_ok by (cbn [len]; lia). cbn [bind].
  destruct (_ && _); [right; reflexivity|].
  destruct (_ && _); [right; reflexivity|].
  rewrite idx_ok by (cbn [len]; unfold l in *; lia). cbn [bind].
  destruct (_ && _); [right; reflexivity|].
  apply IH; [exact W | lia | lia].
Qed.

(* the decoded value carries no range into the view (everything is copied) *)
Definition prefixes_norange (st : ndp_st) : Prop := ranges (VL (st_prefixes st)) = [].

Lemma ranges_VL_app a b : ranges (VL (a ++ b)) = (ranges (VL a) ++ ranges (VL b))%list.
Proof. induction a as [|x r IH]; cbn [app ranges]; [reflexivity|]. cbn [ranges] in IH. rewrite IH, app_assoc. reflexivity. Qed.

Lemma ndp_apply_norange x st st' : prefixes_norange st -> ndp_apply x st = Some st' -> prefixes_norange st'.
Proof.
  unfold ndp_apply, prefixes_norange. intros P H.
  repeat match type of H with
  | (if ?c then _ else _) = _ => destruct c
  | match ?c with _ => _ end = _ => destruct c
  end; try discriminate; injection H as <-; cbn [st_prefixes]; try exact P.
  - destruct (ob x 0 =? 1); exact P.
  - rewrite ranges_VL_app, P. reflexivity.
Qed.

Lemma ndp_decode_norange fuel : forall b st st', prefixes_norange st -> ndp_decode fuel b st = Some st' -> prefixes_norange st'.
Proof.
  induction fuel as [|f IH]; intros b st st' P H; [discriminate|]. cbn [ndp_decode] in H.
  destruct b as [|b0 [|l8 r]]; [injection H as <-; exact P|discriminate|].
  destruct (Nat.eqb _ 0); [discriminate|]. destruct (Nat.ltb _ _); [discriminate|].
  destruct (ndp_apply _ st) as [st1|] eqn:E; [|discriminate].
  eapply IH; [|exact H]. eapply ndp_apply_norange; eassumption.
Qed.

Lemma ranges_map_vx l : ranges (VL (map vx l)) = [].
Proof. induction l as [|a r IH]; [reflexivity|]. cbn [map ranges] in *. rewrite IH. destruct a; reflexivity. Qed.

Lemma ndp_show_norange st : prefixes_norange st -> ranges (ndp_show st) = [].
Proof.
  unfold prefixes_norange, ndp_show. intros P. destruct (st_route st) as [[[pl prf] lt] pfx].
  cbn [ranges]. cbn [ranges] in P. rewrite P.
  pose proof (ranges_map_vx (st_servers st)) as R1. pose proof (ranges_map_vx (st_domains st)) as R2.
  cbn [ranges] in R1, R2. rewrite R1, R2.
  destruct (st_slla st), (st_tlla st), pfx; reflexivity.
Qed.

Lemma ndp_value_norange b : ranges (ndp_value b) = [].
Proof.
  unfold ndp_value. destruct (ndp_decode _ b st0) as [st|] eqn:E; [|reflexivity].
  apply ndp_show_norange. eapply ndp_decode_norange; [|exact E]. reflexivity.
Qed.

Lemma ndp_options_at_ok k v : wf v -> getter_ok v (ndp_options_at k).
Proof.
  intros W. unfold getter_ok, ndp_options_at. unfold wf in W.
  destruct (Nat.leb_spec (len v) k).
  - split; [apply safe_Ok | cbn [inside]; rewrite ndp_show_norange by reflexivity; constructor].
  - rewrite slfrom_ok by lia. cbn [bind].
    destruct (ndp_options_ret (S (len v - k)) {| arr := skipn k (arr v); len := len v - k |} 0) as [E|E].
    + unfold wf, cap. cbn [arr len]. rewrite skipn_length. unfold cap in W. lia.
    + lia.
    + cbn [len]. lia.
    + cbn [len] in *. rewrite E. cbn [bind]. split; [apply safe_Ok | cbn [inside]; rewrite ndp_value_norange; constructor].
    + cbn [len] in *. rewrite E. cbn [bind]. split; [apply safe_Ok | cbn [inside]; rewrite ndp_value_norange; constructor].
Qed.

(* ---------------- RA ---------------- *)
Lemma RA_safe v : wf v -> bytes_ok (arr v) -> RA_IsValid v = Ok true -> getters_ok [] RA_getters v.
Proof.
  intros W B H. unfold RA_IsValid in H. valid_len H. unfold RA_getters. pose proof W as W'. std_safe2 W.
  intros _. apply ndp_options_at_ok. exact W'.
Qed.

(* ---------------- HopByHopExtensionHeader ---------------- *)
Lemma HBH_valid_facts v : HBH_IsValid v = Ok true ->
  (2 <= len v)%nat /\ nth 1 (arr v) 0 * 8 + 8 + 2 <= N.of_nat (len v).
Proof.
  unfold HBH_IsValid, HBH_Len_n, lenN. destruct (N.of_nat (len v) <? 2) eqn:E; [discriminate|].
  rewrite idx_ok by lia. cbn [bind].
  destruct (N.of_nat (len v) <? nth 1 (arr v) 0 * 8 + 8 + 2) eqn:E2; [discriminate|]. intros _. lia.
Qed.

Lemma hbh_walk_ret fuel : forall d pos, wf d -> (pos < len d)%nat -> (len d - pos < fuel)%nat ->
  is_ret (hbh_walk fuel d pos).
Proof.
  induction fuel as [|f IH]; intros d pos W Hp Hf; [lia|].
  unfold wf in W. cbn [hbh_walk]. rewrite slfrom_ok by lia. cbn [bind len].
  destruct (Nat.ltb_spec (len d - pos) 1); [lia|].
  rewrite idx_ok by (cbn [len]; lia). cbn [bind arr].
  set (t := nth 0 (skipn pos (arr d)) 0).
  assert (CAP : (cap {| arr := skipn pos (arr d); len := len d - pos |} = cap d - pos)%nat)
    by (unfold cap; cbn [arr]; apply skipn_length).
  assert (STEP : forall pos', (pos < pos')%nat ->
            is_ret (if Nat.ltb (len d) pos' then Ok VE else if Nat.eqb pos' (len d) then Ok VU else hbh_walk f d pos')).
  { intros pos' Hlt. destruct (Nat.ltb_spec (len d) pos'); [right; reflexivity|].
    destruct (Nat.eqb_spec pos' (len d)); [left; reflexivity|]. apply IH; [exact W|lia|lia]. }
  destruct (t =? 0); [cbn [bind]; apply STEP; lia|].
  destruct (t =? 1).
  { destruct (Nat.ltb_spec (len d - pos) 2); cbn [bind]; [right; reflexivity|].
    rewrite idx_ok by (cbn [len]; lia). cbn [bind]. apply STEP. lia. }
  destruct (t =? 5).
  { unfold orr. cbn [bind]. destruct (Nat.ltb_spec (len d - pos) 4); cbn [bind]; [right; reflexivity|].
    rewrite idx_ok by (cbn [len]; lia). cbn [bind]. destruct (negb _); cbn [bind]; [right; reflexivity|].
    rewrite sl_ok by (rewrite ?CAP; lia). cbn [bind]. apply STEP. lia. }
  destruct (t =? 194).
  { unfold orr. cbn [bind]. destruct (Nat.ltb_spec (len d - pos) 6); cbn [bind]; [right; reflexivity|].
    rewrite idx_ok by (cbn [len]; lia). cbn [bind]. destruct (negb _); cbn [bind]; [right; reflexivity|]. apply STEP. lia. }
  destruct (Nat.ltb_spec (len d - pos) 2); cbn [bind]; [right; reflexivity|].
  destruct (negb _); cbn [bind]; [right; reflexivity|].
  rewrite idx_ok by (cbn [len]; lia). cbn [bind]. apply STEP. lia.
Qed.

Lemma HBH_safe v : wf v -> bytes_ok (arr v) -> HBH_IsValid v = Ok true -> getters_ok [] HBH_getters v.
Proof.
  intros W B H. destruct (HBH_valid_facts v H) as [H2 HL]. pose proof W as W'. unfold HBH_getters.
  unfold wf in W. unfold getters_ok. each_getter.
  - (* Data *) intros _. unfold getter_ok, HBH_Data, HBH_Data_l, HBH_Len_n, lsub. slices. cbn [lsl].
    rewrite sl_ok by lia. cbn [bind]. unfold lval. cbn [loff lsl len]. split; [apply safe_Ok | inside_tac].
  - c01_fixed.
  - c01_fixed.
  - (* Parse *) intros _. unfold getter_ok, HBH_Parse, HBH_Data_l, HBH_Len_n, lsub, orr, lenN. slices.
    destruct (N.of_nat (len v) <? 2) eqn:E; [lia|]. slices.
    destruct (N.of_nat (len v) <? nth 1 (arr v) 0 * 8 + 8) eqn:E2; [lia|]. cbn [lsl].
    rewrite sl_ok by lia. cbn [bind lsl]. unfold lenL. cbn [lsl len].
    match goal with |- context [hbh_walk ?f ?d 0] => destruct (hbh_walk_ret f d 0) as [R|R] end.
    + unfold wf, cap. cbn [arr len]. rewrite skipn_length. unfold cap in W. lia.
    + cbn [len]. lia.
    + cbn [len]. lia.
    + rewrite R. split; [apply safe_Ok | inside_tac].
    + rewrite R. split; [apply safe_Ok | inside_tac].
Qed.

Lemma shr6_div : forall b, b < 256 -> (N.shiftr b 6 =? 0) = (b / 64 =? 0).
Proof. sweep. Qed.

(* the code's walk over the options area equals the RFC tiling with acceptable options, for every input *)
Lemma hbh_lockstep v dl : wf v -> bytes_ok (arr v) -> (2 + dl <= len v)%nat ->
  let D := {| arr := skipn 2 (arr v); len := dl |} in
  let Dl := sub (view v) 2 dl in
  forall f1 pos, (pos < dl)%nat -> (dl - pos < f1)%nat ->
  forall f2, (dl - pos < f2)%nat ->
  hbh_walk f1 D pos = Ok (if hbh_tlvs_ok f2 (skipn pos Dl) then VU else VE).
Proof.
  intros W B Hd D Dl. pose proof (view_length v W) as L. unfold wf in W.
  assert (LD : List.length Dl = dl) by (unfold Dl; apply sub_length; rewrite L; lia).
  assert (ND : forall i, (i < dl)%nat -> nth i Dl 0 = nth (2 + i) (arr v) 0).
  { intros i Hi. unfold Dl, sub. rewrite nth_firstn by lia. rewrite nth_skipn. apply nth_view. lia. }
  induction f1 as [|f1 IH]; intros pos Hp H1 f2 H2; [lia|]. destruct f2 as [|f2]; [lia|].
  cbn [hbh_walk hbh_tlvs_ok]. unfold D at 1. rewrite slfrom_ok by (cbn [len]; lia). cbn [bind len arr].
  destruct (Nat.ltb_spec (dl - pos) 1); [lia|].
  rewrite idx_ok by (cbn [len]; lia). cbn [bind arr]. rewrite nth_skipn, nth_skipn.
  replace (2 + (pos + 0))%nat with (2 + pos)%nat by lia.
  rewrite (skipn_nth_cons Dl pos 0) by lia. rewrite (ND pos) by lia.
  set (t := nth (2 + pos) (arr v) 0) in *. change (len D) with dl.
  assert (Bt : t < 256) by apply (bytes_ok_nth (arr v) _ B).
  (* the common tail: after an accepted option ending at pos' *)
  assert (STEP : forall pos' g2, (pos < pos')%nat -> (dl - pos' < g2 \/ dl < pos')%nat -> (S f2 > g2 \/ True)%nat ->
            (if Nat.ltb dl pos' then Ok VE else if Nat.eqb pos' dl then Ok VU else hbh_walk f1 D pos') =
            Ok (if Nat.ltb dl pos' then VE else if hbh_tlvs_ok g2 (skipn pos' Dl) then VU else VE)).
  { intros pos' g2 Hlt Hg _. destruct (Nat.ltb_spec dl pos'); [reflexivity|].
    destruct (Nat.eqb_spec pos' dl).
    - subst pos'. rewrite (skipn_all2 Dl) by lia. destruct g2; [lia|]. reflexivity.
    - apply IH; lia. }
  destruct (t =? 0) eqn:T0.
  { cbn [bind]. rewrite (STEP (pos + 1)%nat f2) by lia. replace (pos + 1)%nat with (S pos) by lia.
    destruct (Nat.ltb_spec dl (S pos)); [lia|]. reflexivity. }
  (* every other option needs its length octet *)
  destruct (Nat.ltb_spec (dl - pos) 2) as [Hs|Hs].
  { rewrite (skipn_all2 Dl) by lia.
    destruct (t =? 1); [cbn [bind]; reflexivity|].
    destruct (t =? 5); [unfold orr; cbn [bind]; destruct (Nat.ltb_spec (dl - pos) 4); [cbn [bind]; reflexivity|lia]|].
    destruct (t =? 194); [unfold orr; cbn [bind]; destruct (Nat.ltb_spec (dl - pos) 6); [cbn [bind]; reflexivity|lia]|].
    cbn [bind]. reflexivity. }
  rewrite (skipn_nth_cons Dl (S pos) 0) by lia. rewrite (ND (S pos)) by lia.
  replace (2 + S pos)%nat with (2 + pos + 1)%nat by lia.
  set (b1 := nth (2 + pos + 1) (arr v) 0) in *.
  rewrite skipn_length, LD. rewrite !skipn_skipn'.
  assert (IDX1 : idx {| arr := skipn (2 + pos) (arr v); len := dl - pos |} 1 = Ok b1).
  { rewrite idx_ok by (cbn [len]; lia). cbn [arr]. rewrite nth_skipn. unfold b1. do 2 f_equal; try lia. }
  replace (S (S pos) + N.to_nat b1)%nat with (pos + N.to_nat b1 + 2)%nat by lia.
  replace (dl - S (S pos))%nat with (dl - pos - 2)%nat by lia.
  unfold hbh_option_ok.
  assert (TAIL : forall ok : bool, ok = true ->
     (if Nat.ltb dl (pos + N.to_nat b1 + 2) then Ok VE
      else if Nat.eqb (pos + N.to_nat b1 + 2) dl then Ok VU else hbh_walk f1 D (pos + N.to_nat b1 + 2)) =
     Ok (if (if negb ok then false
             else if Nat.ltb (dl - pos - 2) (N.to_nat b1) then false
             else hbh_tlvs_ok f2 (skipn (pos + N.to_nat b1 + 2) Dl)) then VU else VE)).
  { intros ok ->. cbn [negb]. rewrite (STEP (pos + N.to_nat b1 + 2)%nat f2) by lia.
    destruct (Nat.ltb_spec dl (pos + N.to_nat b1 + 2)); destruct (Nat.ltb_spec (dl - pos - 2) (N.to_nat b1)); try lia; reflexivity. }
  destruct (t =? 1) eqn:T1.
  { destruct (Nat.ltb_spec (dl - pos) 2); [lia|]. rewrite IDX1. cbn [bind]. apply (TAIL true). reflexivity. }
  destruct (t =? 5) eqn:T5.
  { unfold orr. cbn [bind]. destruct (Nat.ltb_spec (dl - pos) 4) as [H4|H4]; cbn [bind].
    - destruct (b1 =? 2) eqn:E2; cbn [negb]; [|reflexivity].
      assert (N.to_nat b1 = 2%nat) as -> by lia. destruct (Nat.ltb_spec (dl - pos - 2) 2); [reflexivity|lia].
    - rewrite IDX1. cbn [bind]. destruct (b1 =? 2) eqn:E2; cbn [negb bind]; [|reflexivity].
      rewrite sl_ok by (unfold cap in *; cbn [arr]; rewrite ?skipn_length; lia). cbn [bind].
      assert (N.to_nat b1 = 2%nat) as E by lia. pose proof (TAIL true eq_refl) as T. rewrite E in T. cbn [negb] in T.
      replace (pos + 2 + 2)%nat with (pos + 4)%nat in T by lia. rewrite E. replace (pos + 2 + 2)%nat with (pos + 4)%nat by lia. exact T. }
  destruct (t =? 194) eqn:T194.
  { unfold orr. cbn [bind]. destruct (Nat.ltb_spec (dl - pos) 6) as [H6|H6]; cbn [bind].
    - destruct (b1 =? 4) eqn:E4; cbn [negb]; [|reflexivity].
      assert (N.to_nat b1 = 4%nat) as -> by lia. destruct (Nat.ltb_spec (dl - pos - 2) 4); [reflexivity|lia].
    - rewrite IDX1. cbn [bind]. destruct (b1 =? 4) eqn:E4; cbn [negb bind]; [|reflexivity].
      assert (N.to_nat b1 = 4%nat) as E by lia. pose proof (TAIL true eq_refl) as T. rewrite E in T. cbn [negb] in T.
      replace (pos + 4 + 2)%nat with (pos + 6)%nat in T by lia. rewrite E. replace (pos + 4 + 2)%nat with (pos + 6)%nat by lia. exact T. }
  destruct (Nat.ltb_spec (dl - pos) 2); [lia|].
  rewrite (shr6_div _ Bt). destruct (t / 64 =? 0) eqn:TH; cbn [negb bind]; [|reflexivity].
  rewrite IDX1. cbn [bind]. apply (TAIL true). reflexivity.
Qed.

Lemma HBH_spec v : wf v -> bytes_ok (arr v) -> HBH_IsValid v = Ok true -> getters_spec [] HBH_getters HBH_specs v.
Proof.
  intros W B H. destruct (HBH_valid_facts v H) as [H2 HL]. unfold HBH_getters, HBH_specs. pose proof W as W'.
  unfold wf in W. pose proof (view_length _ W) as L. unfold getters_spec. each_spec.
  - (* Data *) intros _. cbn beta. unfold hbh_len. norm_bits. view_fields L. pow_lits.
    pose proof (bytes_ok_nth (arr v) 1 B).
    unfold HBH_Data, HBH_Data_l, HBH_Len_n, lsub. slices. cbn [lsl]. rewrite sl_ok by lia. cbn [bind].
    unfold lval. cbn [loff lsl len]. strip; lia.
  - c02_fixed B L.
  - c02_fixed B L.
  - (* ParseHopByHopExtensions = the RFC 8200 tiling, for every valid header *)
    intros _. pose proof (bytes_ok_nth (arr v) 1 B) as B1.
    set (dl := (N.to_nat (nth 1%nat (arr v) 0%N) * 8 + 6)%nat) in *.
    cbn beta. unfold hbh_options, hbh_len. norm_bits. rewrite field_be_1 by (rewrite L; lia). rewrite nth_view by lia. pow_lits.
    replace (N.to_nat (8 * ((nth 1%nat (arr v) 0 / 1) mod 256) + 8)%N - 2)%nat with dl by (unfold dl; lia).
    unfold HBH_Parse, HBH_Data_l, HBH_Len_n, lsub, orr, lenN. slices.
    destruct (N.of_nat (len v) <? 2) eqn:E; [lia|]. slices.
    destruct (N.of_nat (len v) <? nth 1 (arr v) 0 * 8 + 8) eqn:E2; [lia|]. cbn [lsl].
    rewrite sl_ok by lia. cbn [bind lsl]. unfold lenL. cbn [lsl len].
    replace (N.to_nat (nth 1%nat (arr v) 0 * 8 + 8)%N - 2)%nat with dl by (unfold dl; lia).
    rewrite (hbh_lockstep v dl W' B) with (f2 := S (List.length (sub (view v) 2 dl))); try (unfold dl; lia).
    + reflexivity.
    + rewrite sub_length by (rewrite L; unfold dl; lia). lia.
Qed.

(* ---------------- DHCP4 ---------------- *)
Lemma DHCP4_valid_len v : DHCP4_IsValid v = Ok true -> (240 <= len v)%nat.
Proof. unfold DHCP4_IsValid, lenN. destruct (N.of_nat (len v) <? 240) eqn:E; [discriminate|]. intros _. lia. Qed.

Definition opt_in (v : slice) (cx : N * value) : Prop := Forall (range_in v) (ranges (snd cx)).

Lemma opt_insert_in v c x m : Forall (range_in v) (ranges x) -> Forall (opt_in v) m -> Forall (opt_in v) (opt_insert c x m).
Proof.
  intros Hx. induction m as [|[c' y] r IH]; intros Hm; cbn [opt_insert].
  - constructor; [exact Hx|constructor].
  - inversion Hm; subst. destruct (c =? c'); [constructor; assumption|].
    destruct (c <? c'); [constructor; [exact Hx|constructor; assumption]|].
    constructor; [assumption|]. apply IH. assumption.
Qed.

Lemma wf_skip s a : wf s -> (a <= len s)%nat -> wf {| arr := skipn a (arr s); len := len s - a |}.
Proof. unfold wf, cap. cbn [arr len]. rewrite skipn_length. lia. Qed.

Lemma dhcp_parse_ok v fuel : forall o m, wf (lsl o) -> (loff o + lenL o <= len v)%nat ->
  Forall (opt_in v) m -> (lenL o < fuel)%nat ->
  exists m', dhcp_parse fuel o m = Ok m' /\ Forall (opt_in v) m'.
Proof.
  induction fuel as [|f IH]; intros o m W Ho Hm Hf; [lia|].
  destruct o as [off s]. unfold lenL in *. cbn [lsl loff] in *. pose proof W as W'. unfold wf in W.
  cbn [dhcp_parse]. unfold lenL. cbn [lsl].
  destruct (Nat.ltb_spec (len s) 2); [exists m; split; [reflexivity|exact Hm]|].
  rewrite idx_ok by lia. cbn [bind].
  destruct (nth 0 (arr s) 0 =? 255); [exists m; split; [reflexivity|exact Hm]|].
  destruct (nth 0 (arr s) 0 =? 0).
  - unfold lfrom. cbn [lsl loff]. rewrite slfrom_ok by lia. cbn [bind].
    apply IH; cbn [lsl loff]; unfold lenL; cbn [lsl len]; [apply wf_skip; [exact W'|lia] | lia | exact Hm | lia].
  - rewrite idx_ok by lia. cbn [bind]. set (sz := N.to_nat (nth 1 (arr s) 0)).
    destruct (Nat.ltb_spec (len s) (2 + sz)); [exists m; split; [reflexivity|exact Hm]|].
    unfold lsub, lfrom. cbn [lsl loff]. rewrite sl_ok by lia. cbn [bind]. rewrite slfrom_ok by lia. cbn [bind].
    apply IH; cbn [lsl loff]; unfold lenL; cbn [lsl len]; [apply wf_skip; [exact W'|lia] | lia | | lia].
    apply opt_insert_in; [|exact Hm]. unfold lval. cbn [loff lsl len ranges].
    constructor; [|constructor]. unfold range_in. cbn [fst snd]. lia.
Qed.

Lemma ranges_VL_map v m : Forall (opt_in v) m ->
  Forall (range_in v) (ranges (VL (map (fun cx => VL [VN (fst cx); snd cx]) m))).
Proof.
  induction m as [|[c x] r IH]; intros H; [constructor|].
  inversion H; subst. cbn [map ranges fst snd app]. rewrite app_nil_r.
  apply Forall_app. split; [assumption|]. apply IH. assumption.
Qed.

Lemma first_zero_le l : (first_zero l <= List.length l)%nat.
Proof. induction l as [|b r IH]; simpl; [lia|]. destruct (b =? 0); simpl; lia. Qed.

Lemma DHCP4_safe v : wf v -> bytes_ok (arr v) -> DHCP4_IsValid v = Ok true -> getters_ok [] DHCP4_getters v.
Proof.
  intros W B H. apply DHCP4_valid_len in H. pose proof W as W'. unfold DHCP4_getters.
  unfold wf in W. unfold getters_ok. each_getter; try c01_fixed.
  - (* File *) intros _. unfold getter_ok, DHCP4_File, trim_null. slices. cbn [arr].
    pose proof (first_zero_le (firstn 128 (skipn 108 (arr v)))) as F. rewrite firstn_length in F.
    split; [apply safe_Ok | inside_tac].
  - (* Options *) intros _. unfold getter_ok, DHCP4_Options, DHCP4_Options_l, lfrom.
    destruct (Nat.ltb_spec 240 (len v)); cbn [lsl loff]; slices; unfold lval; cbn [loff lsl len];
      (split; [apply safe_Ok | inside_tac]).
  - (* ParseOptions *) intros _. unfold getter_ok, DHCP4_ParseOptions, DHCP4_Options_l, lfrom.
    destruct (Nat.ltb_spec 240 (len v)); cbn [lsl loff]; slices.
    + match goal with |- context [dhcp_parse ?f ?o []] => destruct (dhcp_parse_ok v f o []) as (m' & E & Hm) end.
      * cbn [lsl]. apply wf_skip; [exact W'|lia].
      * unfold lenL. cbn [lsl loff len]. lia.
      * constructor.
      * lia.
      * rewrite E. cbn [bind]. split; [apply safe_Ok|]. cbn [inside]. apply ranges_VL_map. exact Hm.
    + match goal with |- context [dhcp_parse ?f ?o []] => destruct (dhcp_parse_ok v f o []) as (m' & E & Hm) end.
      * cbn [lsl]. unfold wf, nil_slice, cap. cbn. lia.
      * unfold lenL, nil_slice. cbn [lsl loff len]. lia.
      * constructor.
      * lia.
      * rewrite E. cbn [bind]. split; [apply safe_Ok|]. cbn [inside]. apply ranges_VL_map. exact Hm.
  - (* SName *) intros _. unfold getter_ok, DHCP4_SName, trim_null. slices. cbn [arr].
    pose proof (first_zero_le (firstn 64 (skipn 44 (arr v)))) as F. rewrite firstn_length in F.
    split; [apply safe_Ok | inside_tac].
Qed.

Lemma first_zero_strnlen l : first_zero l = strnlen l.
Proof. induction l as [|b r IH]; simpl; [reflexivity|]. rewrite IH. reflexivity. Qed.

Lemma broadcast_bit : forall a b, a < 256 -> b < 256 ->
  (N.land (a * 256 + b) 32768 =? 32768) = ((a / 128) mod 2 =? 1).
Proof. sweep2b. Qed.

(* model option map <-> spec option map *)
Definition conv (m : list (N * (nat * nat))) : list (N * value) :=
  map (fun cr => (fst cr, VR (fst (snd cr)) (snd (snd cr)))) m.

Lemma opt_insert_conv c o n m : opt_insert c (VR o n) (conv m) = conv (put_opt c (o, n) m).
Proof.
  induction m as [|[c' [o' n']] r IH]; cbn [conv map put_opt opt_insert fst snd]; [reflexivity|].
  destruct (c =? c'); [reflexivity|]. destruct (c <? c'); [reflexivity|].
  cbn [map fst snd]. f_equal. exact IH.
Qed.

Lemma dhcp_parse_spec v : wf v -> forall f1 f2 off m,
  (off <= len v)%nat -> (len v - off < f1)%nat -> (len v - off < f2)%nat ->
  dhcp_parse f1 (mkL off {| arr := skipn off (arr v); len := len v - off |}) (conv m) =
  Ok (conv (fold_left (fun m cr => put_opt (fst cr) (snd cr) m) (dhcp_opts f2 (view v) off) m)).
Proof.
  intros W. pose proof (view_length v W) as L. unfold wf in W.
  induction f1 as [|f1 IH]; intros f2 off m Ho H1 H2; [lia|]. destruct f2 as [|f2]; [lia|].
  cbn [dhcp_parse dhcp_opts]. unfold lenL. cbn [lsl len].
  destruct (Nat.ltb_spec (len v - off) 2).
  - (* fewer than two bytes left *)
    destruct (skipn off (view v)) as [|c [|n r]] eqn:E; try reflexivity.
    exfalso. assert (List.length (skipn off (view v)) >= 2)%nat by (rewrite E; simpl; lia).
    rewrite skipn_length, L in H0. lia.
  - rewrite (skipn_nth_cons (view v) off 0) by lia. rewrite (skipn_nth_cons (view v) (S off) 0) by lia.
    rewrite !nth_view by lia.
    rewrite idx_ok by (cbn [len]; lia). cbn [bind arr]. rewrite nth_skipn. replace (off + 0)%nat with off by lia.
    destruct (nth off (arr v) 0 =? 255); [reflexivity|].
    destruct (nth off (arr v) 0 =? 0).
    + unfold lfrom. cbn [lsl loff]. rewrite slfrom_ok by (cbn [len]; lia). cbn [bind arr len].
      rewrite skipn_skipn'. replace (len v - off - 1)%nat with (len v - (off + 1))%nat by lia.
      replace (S off) with (off + 1)%nat by lia. apply IH; lia.
    + rewrite idx_ok by (cbn [len]; lia). cbn [bind arr]. rewrite nth_skipn.
      replace (off + 1)%nat with (S off) by lia.
      set (sz := N.to_nat (nth (S off) (arr v) 0)). rewrite L.
      destruct (Nat.ltb_spec (len v - off) (2 + sz)); destruct (Nat.leb_spec (off + 2 + sz) (len v)); try lia; [reflexivity|].
      unfold lsub, lfrom. cbn [lsl loff].
      rewrite sl_ok by (unfold cap; cbn [arr len]; rewrite ?skipn_length; unfold cap in W; lia). cbn [bind].
      rewrite slfrom_ok by (cbn [len]; lia). cbn [bind arr len]. unfold lval. cbn [loff lsl len].
      rewrite skipn_skipn'. replace (2 + sz - 2)%nat with sz by lia.
      rewrite opt_insert_conv. cbn [fold_left fst snd].
      replace (len v - off - (2 + sz))%nat with (len v - (off + (2 + sz)))%nat by lia.
      replace (off + 2 + sz)%nat with (off + (2 + sz))%nat by lia.
      apply IH; lia.
Qed.

Lemma DHCP4_spec v : wf v -> bytes_ok (arr v) -> DHCP4_IsValid v = Ok true -> getters_spec [] DHCP4_getters DHCP4_specs v.
Proof.
  intros W B H. apply DHCP4_valid_len in H. pose proof W as W'. unfold DHCP4_getters, DHCP4_specs.
  std_spec2 W B L.
  - (* Broadcast *) intros _. unfold_getter. slices. unfold sflag. norm_bits. view_fields L. pow_lits.
    byte_bounds B. simpl Nat.add in *. unfold be16. strip. rewrite N.div_1_r || idtac.
    apply broadcast_bit; assumption.
  - (* File *) intros _. unfold DHCP4_File, trim_null, scstring. slices. cbn [arr].
    rewrite sub_view by lia. unfold sub. rewrite first_zero_strnlen. reflexivity.
  - (* Options *) intros _. unfold DHCP4_Options, DHCP4_Options_l, lfrom, srest_or_nil, blen. rewrite L.
    destruct (Nat.ltb_spec 240 (len v)); destruct (Nat.leb_spec (len v) 240); try lia; cbn [lsl loff]; slices;
      unfold lval; cbn [loff lsl len]; reflexivity.
  - (* ParseOptions *) intros _. unfold DHCP4_ParseOptions, DHCP4_Options_l, lfrom, dhcp_opt_map.
    destruct (Nat.ltb_spec 240 (len v)); cbn [lsl loff]; slices.
    + unfold lenL. cbn [lsl len].
      pose proof (dhcp_parse_spec v W' (S (len v - 240)) (S (List.length (view v))) 240 []) as E.
      cbn [conv map] in E. simpl Nat.add. rewrite E by (rewrite ?L; lia).
      cbn [bind]. unfold conv. rewrite map_map. reflexivity.
    + (* no options: both sides are empty *)
      assert (E : len v = 240%nat) by lia.
      unfold lenL, nil_slice. cbn [lsl len]. cbn [dhcp_parse]. unfold lenL. cbn [lsl len Nat.ltb Nat.leb bind].
      assert (S : skipn 240 (view v) = []) by (apply skipn_all2; rewrite L; lia).
      cbn [dhcp_opts]. rewrite S. reflexivity.
  - (* SName *) intros _. unfold DHCP4_SName, trim_null, scstring. slices. cbn [arr].
    rewrite sub_view by lia. unfold sub. rewrite first_zero_strnlen. reflexivity.
Qed.

(* non-vacuity: a header with PadN, router alert and Pad1 options tiling the area *)
Definition ex_hbh : slice := of_bytes [58;1; 1;2;0;0; 5;2;0;0; 0;0;0;0;0;0; 9;9].
Example HBH_valid_ex : wf ex_hbh /\ bytes_ok (arr ex_hbh) /\ HBH_IsValid ex_hbh = Ok true /\
  HBH_Parse ex_hbh = Ok VU /\ HBH_Data ex_hbh = Ok (VR 2 14).
Proof. repeat split; first [ apply bytes_okb_spec; vm_compute; reflexivity | vm_compute; reflexivity | vm_compute; lia ]. Qed.
