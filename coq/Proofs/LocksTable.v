(* Proofs/LocksTable.v — the lockset theorem instantiated on the transcribed table, and its combination
   with the exact failing class: every data race of every interleaving of the model is a recorded key. *)
From PV Require Import Base.Prelude Base.Text Model.Locks Model.LocksOps Model.LocksKnown
  Proofs.Locks Proofs.LocksOps Proofs.LocksSound.
From Coq Require Import Bool Arith Lia.
Open Scope nat_scope.

Lemma all_bal : forallb (fun o => tmpl_bal op (template o)) all_ops = true.
Proof. vm_compute. reflexivity. Qed.

Lemma ops_bal : forall o, tmpl_bal op (template o) = true.
Proof. intro o. exact (forallb_In _ _ all_bal o (all_ops_complete o)). Qed.

(* every data race reachable in the model is reported by the static analysis of the two operations *)
Theorem lockset_sound_table : forall (l : list (op * list nat)) s,
  reachable op template (init op template l) s ->
  forall i j ti tj x w1 w2, i <> j ->
    nth_error (threads op s) i = Some ti -> nth_error (threads op s) j = Some tj ->
    LocksSound.next_access op ti = Some (x, w1) -> LocksSound.next_access op tj = Some (x, w2) -> w1 || w2 = true ->
    racyb (top op ti) (top op tj) (fst x) = true.
Proof.
  intros l s Hr i j ti tj x w1 w2 Hne Hi Hj H1 H2 Hw.
  unfold racyb. apply existsb_exists. exists (fst x). split.
  - eapply (lockset_sound op template rank ops_ordered ops_bal); eauto.
  - apply field_eqb_eq. reflexivity.
Qed.

(* ... hence, between operations the pattern allows to overlap, it is one of the recorded keys;
   between any other pair allowed to overlap there is NO data race in any interleaving, on any rows *)
Theorem races_are_known : forall (l : list (op * list nat)) s,
  reachable op template (init op template l) s ->
  forall i j ti tj x w1 w2, i <> j ->
    nth_error (threads op s) i = Some ti -> nth_error (threads op s) j = Some tj ->
    LocksSound.next_access op ti = Some (x, w1) -> LocksSound.next_access op tj = Some (x, w2) -> w1 || w2 = true ->
    concurrent_allowed (top op ti) (top op tj) = true ->
    known_C09 (race_key (top op ti) (top op tj) (fst x)) = true.
Proof.
  intros l s Hr i j ti tj x w1 w2 Hne Hi Hj H1 H2 Hw Hc.
  pose proof (lockset_sound_table l s Hr i j ti tj x w1 w2 Hne Hi Hj H1 H2 Hw) as Hrb.
  pose proof (lockset_exact_spec (top op ti) (top op tj) (fst x)) as He.
  rewrite Hc, Hrb in He.
  destruct (known_C09 (race_key (top op ti) (top op tj) (fst x))); [reflexivity | cbn in He; discriminate He].
Qed.

(* ---------- the overlap discipline is preserved by spawning ---------- *)

(* a multiset of operations respects the pattern: pairwise allowed to overlap *)
Definition tops_ok (s : state op) : Prop :=
  forall i j ti tj, i <> j ->
    nth_error (threads op s) i = Some ti -> nth_error (threads op s) j = Some tj ->
    concurrent_allowed (top op ti) (top op tj) = true.

Lemma spawned_overlap_anything :
  forallb (fun o => forallb (fun sp => forallb (fun o' =>
     concurrent_allowed sp o' && concurrent_allowed o' sp) all_ops) (spawns o)) all_ops = true.
Proof. vm_compute. reflexivity. Qed.

Lemma In_inst_spawn : forall r o row (l : list (tact op)),
  In (Spawn op o row) (inst op r l) -> In (TSpawn o) l.
Proof.
  intros r o row l H. unfold inst in H. apply in_map_iff in H as [a [Ha Hin]].
  destruct a; cbn in Ha; try discriminate. inversion Ha; subst. exact Hin.
Qed.

Lemma body_spawn : forall o0 rows o row,
  In (Spawn op o row) (body op template o0 rows) -> In o (spawns o0).
Proof.
  intros o0 rows o row H. unfold body, body_of in H. unfold spawns, flat.
  apply in_flat_map. exists (TSpawn o). split; [|left; reflexivity].
  apply in_app_or in H as [H|H]; [apply in_or_app; left; eapply In_inst_spawn; eauto|].
  apply in_app_or in H as [H|H].
  - apply in_flat_map in H as [r [_ H]]. apply in_or_app; right; apply in_or_app; left. eapply In_inst_spawn; eauto.
  - apply in_or_app; right; apply in_or_app; right. eapply In_inst_spawn; eauto.
Qed.

Lemma adv_top : forall s (t : thread op) a r, top op (adv op template s t a r) = top op t.
Proof.
  intros s t a r. destruct a; cbn; auto.
  - destruct (chan_closed op s c); reflexivity.
  - destruct (flag_set op s x); reflexivity.
  - destruct (flag_set op s x); reflexivity.
Qed.

Lemma tops_step : forall s i s', pos_inv op template s -> tops_ok s ->
  step op template s i = Some s' -> tops_ok s'.
Proof.
  intros s i s' Hpos Hok Hstep a b ta tb Hne Ha Hb.
  assert (Hsp : forall o row t r, nth_error (threads op s) i = Some t -> rest op t = Spawn op o row :: r ->
            forall o', concurrent_allowed o o' = true /\ concurrent_allowed o' o = true).
  { intros o row t r Hn Hr o'.
    assert (Hp : pos_ok op template t) by (eapply Forall_nth_error; eauto).
    destruct Hp as [E|[done [Hb' _]]]; [congruence|]. rewrite Hr in Hb'.
    assert (In o (spawns (top op t))).
    { eapply body_spawn. rewrite Hb'. apply in_or_app. right. left. reflexivity. }
    pose proof (forallb_In _ _ (forallb_In _ _ (forallb_In _ _ spawned_overlap_anything (top op t)
                 (all_ops_complete _)) o H) o' (all_ops_complete o')) as Hx.
    cbv beta in Hx. apply andb_true_iff in Hx. exact Hx. }
  destruct (step_origin op template _ _ _ Hstep _ _ Ha) as [Oa | [[Ea [t [act [r [Hn [Hr [Eta _]]]]]]] | [o [row [Eta [_ [t [r [Hn Hr]]]]]]]]];
  destruct (step_origin op template _ _ _ Hstep _ _ Hb) as [Ob | [[Eb [t' [act' [r' [Hn' [Hr' [Etb _]]]]]]] | [o' [row' [Etb [_ [t' [r' [Hn' Hr']]]]]]]]];
    subst; rewrite ?adv_top; cbn [top start];
    try (eapply Hok; eauto; fail);
    try (apply (Hsp _ _ _ _ Hn Hr)); try (apply (Hsp _ _ _ _ Hn' Hr')); try congruence.
Qed.

Lemma tops_reachable : forall s0 s,
  inv op rank s0 -> pos_inv op template s0 -> tops_ok s0 -> reachable op template s0 s -> tops_ok s.
Proof.
  intros s0 s Hi Hp Ht Hr. induction Hr; auto.
  eapply tops_step; [|exact IHHr|exact H].
  exact (pos_reachable op template rank ops_ordered _ _ Hi Hp Hr).
Qed.

(* FINAL FORM.  Start any multiset of operations that respects the pattern (pairwise allowed to overlap: one
   packet-loop operation at a time, one instance of each session goroutine), on any rows; in every state of
   every interleaving, every data race of the model is one of the recorded (operation pair, field) keys. *)
Theorem model_races_are_exactly_the_known_ones : forall (l : list (op * list nat)) s,
  tops_ok (init op template l) ->
  reachable op template (init op template l) s ->
  forall i j ti tj x w1 w2, i <> j ->
    nth_error (threads op s) i = Some ti -> nth_error (threads op s) j = Some tj ->
    LocksSound.next_access op ti = Some (x, w1) -> LocksSound.next_access op tj = Some (x, w2) -> w1 || w2 = true ->
    known_C09 (race_key (top op ti) (top op tj) (fst x)) = true.
Proof.
  intros l s Ht Hr i j ti tj x w1 w2 Hne Hi Hj H1 H2 Hw.
  eapply races_are_known; eauto.
  assert (tops_ok s) as Hs.
  { eapply tops_reachable; eauto; [apply inv_init; exact ops_ordered | apply pos_init]. }
  exact (Hs i j ti tj Hne Hi Hj).
Qed.

(* DATA-RACE FREEDOM OF THE MODEL of the repaired library: the recorded class is empty, so from any start
   that respects the pattern no reachable state has two threads about to make conflicting accesses. *)
Theorem model_data_race_free : forall (l : list (op * list nat)) s,
  tops_ok (init op template l) ->
  reachable op template (init op template l) s ->
  forall i j ti tj x w1 w2, i <> j ->
    nth_error (threads op s) i = Some ti -> nth_error (threads op s) j = Some tj ->
    LocksSound.next_access op ti = Some (x, w1) -> LocksSound.next_access op tj = Some (x, w2) ->
    w1 || w2 = false.
Proof.
  intros l s Ht Hr i j ti tj x w1 w2 Hne Hi Hj H1 H2.
  destruct (w1 || w2) eqn:Hw; [exfalso|reflexivity].
  pose proof (model_races_are_exactly_the_known_ones l s Ht Hr i j ti tj x w1 w2 Hne Hi Hj H1 H2 Hw) as Hk.
  vm_compute in Hk. discriminate Hk.
Qed.

(* non-vacuity: a start that respects the pattern in which two threads do reach accesses of one location
   (both reads: Capture's and IsCaptured's sections exclude each other, so it is one after the other) *)
Definition free_init := init op template [(ParseFast, [1]); (Purge, [1]); (PrintTable, [1]); (SessClose, [1])].
Example pattern_start : tops_ok free_init.
Proof.
  intros i j ti tj Hne Hi Hj.
  destruct i as [|[|[|[|[|i]]]]], j as [|[|[|[|[|j]]]]]; cbn in Hi, Hj; try discriminate; try congruence;
    inversion Hi; inversion Hj; subst; reflexivity.
Qed.
