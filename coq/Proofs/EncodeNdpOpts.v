(* Proofs/EncodeNdpOpts.v — C03/C07 glue, round 7: the NDP option marshal functions (RawOption.marshal and,
   through it, LinkLayerAddress / MTU / PrefixInformation / RecursiveDNSServer / DNSSearchList .marshal, as
   modelled by SEND in Model/SendNdp.v) are inverted by the RFC 4861 4.6 reference option decoder: a marshalled
   option list decodes to the list of (type, value) pairs, in order — for EVERY option list that marshals (since
   repo fix 5a1aeef by SEND: the size is int(Length)*8; the uint8 product Length*8 wrapped for Length >= 32 and
   the theorem needed a hypothesis on the Length octet). *)
From PV Require Import Base.Prelude Base.Slice Model.EncodeBase Spec.EncodeRef Proofs.EncodeLemmas Proofs.EncodeMisc
     Proofs.EncodeGluePath.
From PV Require Model.SendBase Model.Send Model.SendNdp.
Open Scope N_scope.
Ltac blia := unfold bytes, byte in *; lia.

Definition raw3 := (N * N * bytes)%type.
Definition marshal_raw (o : raw3) : option bytes := let '(ty, ln, v) := o in SendNdp.raw_option ty ln v.
Definition decoded_raw (o : raw3) : N * bytes := let '(ty, _, v) := o in (u8 ty, v).

Lemma raw_option_shape ty ln v ob :
  SendNdp.raw_option ty ln v = Some ob ->
  ob = [u8 ty; u8 ln] ++ v /\ (8 * N.to_nat (u8 ln) = 2 + length v)%nat.
Proof.
  unfold SendNdp.raw_option.
  destruct (Nat.eqb_spec (2 + length v) (N.to_nat (8 * u8 ln))) as [E|E]; [|discriminate].
  intros H. injection H as <-. split; [reflexivity|]. blia.
Qed.

Lemma nd_options_rt_fuel (l : list raw3) : forall fuel ob,
  SendNdp.cat_opts (map marshal_raw l) = Some ob -> (length l < fuel)%nat ->
  ref_nd_options fuel ob = Some (map decoded_raw l) /\ (2 * length l <= length ob)%nat.
Proof.
  induction l as [|[[ty ln] v] l IH]; intros fuel ob Hc Hfu.
  - cbn in Hc. injection Hc as <-. destruct fuel; [cbn in Hfu; lia|]. split; [reflexivity|cbn; lia].
  - cbn [map SendNdp.cat_opts marshal_raw] in Hc.
    destruct (SendNdp.raw_option ty ln v) as [x|] eqn:Ex; [|discriminate].
    destruct (SendNdp.cat_opts (map marshal_raw l)) as [y|] eqn:Ey; [|discriminate].
    injection Hc as <-.
    destruct (raw_option_shape ty ln v x Ex) as (-> & Hn).
    destruct fuel as [|k]; [cbn in Hfu; lia|]. cbn [length] in Hfu.
    destruct (IH k y eq_refl ltac:(lia)) as (IHd & IHl).
    cbn [ref_nd_options app].
    replace (8 * N.to_nat (u8 ln))%nat with (2 + length v)%nat by (symmetry; exact Hn).
    cbn [Nat.add Nat.eqb orb].
    match goal with |- context [Nat.ltb ?a ?b] => destruct (Nat.ltb_spec a b) as [C|_] end.
    { cbn [length] in C. rewrite app_length in C. lia. }
    unfold drop, take. cbn [skipn Nat.add].
    replace (S (S (length v)) - 2)%nat with (length v) by lia.
    rewrite skipn_app_exact, firstn_app_exact, IHd.
    split; [reflexivity|]. cbn [length]. rewrite app_length. lia.
Qed.

Theorem nd_options_rt (l : list raw3) ob :
  SendNdp.cat_opts (map marshal_raw l) = Some ob ->
  ref_nd_options (S (length ob)) ob = Some (map decoded_raw l).
Proof.
  intros Hc.
  destruct (nd_options_rt_fuel l (S (length l)) ob Hc ltac:(lia)) as (_ & Hl).
  apply (nd_options_rt_fuel l (S (length ob)) ob Hc). lia.
Qed.

(* the router advertisement body: 16 octets of ICMPv6 header and RA fields, then the options *)
Theorem ra_body_options_rt (l : list raw3) ob :
  SendNdp.cat_opts (map marshal_raw l) = Some ob ->
  ref_nd_options (S (length ob)) (skipn 16 (SendNdp.ra_body ob)) = Some (map decoded_raw l).
Proof. intros Hc. change (skipn 16 (SendNdp.ra_body ob)) with ob. apply nd_options_rt; assumption. Qed.

(* Ether o IP6 o ICMPv6 o RA with options: the whole path of ICMP6SendRouterAdvertisement for any option list
   that marshals (every option constructor of Model/SendNdp.v is a [raw_option] instance or an error) *)
Theorem glue_ra_path c (src dst : SendBase.addr) (l : list raw3) ob junk :
  length junk = SendBase.EthMaxSize -> length (SendBase.host_mac c) = 6%nat -> length (SendBase.a_mac dst) = 6%nat ->
  length (SendBase.a_ip src) = 16%nat -> length (SendBase.a_ip dst) = 16%nat ->
  bytes_ok (SendBase.a_ip src) -> bytes_ok (SendBase.a_ip dst) ->
  SendNdp.cat_opts (map marshal_raw l) = Some ob -> bytes_ok ob ->
  (70 + length ob <= SendBase.EthMaxSize)%nat ->
  exists f ipb icmpb,
    Send.icmp6_send_packet c src dst (SendNdp.ra_body ob) junk = Ok [f] /\ length f = (70 + length ob)%nat /\
    ref_ether f = Some {| re_dst := SendBase.a_mac dst; re_src := SendBase.host_mac c; re_type := 34525; re_payload := ipb |} /\
    ref_ip6 ipb = Some (ip6_expected_ref 58 255 (SendBase.a_ip src) (SendBase.a_ip dst) icmpb) /\
    firstn 2 icmpb = [134; 0] /\ firstn 12 (skipn 4 icmpb) = firstn 12 (skipn 4 (SendNdp.ra_body ob)) /\
    ref_nd_options (S (length ob)) (skipn 16 icmpb) = Some (map decoded_raw l).
Proof.
  intros HJ Hsm Hdm Hs Hd Bs Bd Hc Bo Hfit.
  assert (Lb : length (SendNdp.ra_body ob) = (16 + length ob)%nat) by reflexivity.
  assert (Bb : bytes_ok (SendNdp.ra_body ob)).
  { unfold SendNdp.ra_body. cbn [app]. repeat (apply bytes_ok_cons; split; [first [reflexivity | apply N.mod_lt; discriminate]|]). exact Bo. }
  destruct (glue_icmp6_path c src dst _ junk HJ Hsm Hdm Hs Hd Bs Bd Bb ltac:(lia) ltac:(lia))
    as (f & ipb & S1 & S2 & S3 & S4 & _ & S5 & S6 & _).
  assert (Hh : icmp6_hop (SendBase.a_ip dst) (SendNdp.ra_body ob) = 255).
  { unfold icmp6_hop. replace (Send.nd_message (SendNdp.ra_body ob)) with true by reflexivity.
    rewrite Bool.orb_true_r. reflexivity. }
  rewrite Hh in S4.
  exists f, ipb. eexists. split; [exact S1|]. split; [lia|]. split; [exact S3|].
  split; [exact S4|]. split; [exact S5|]. split; [rewrite S6; reflexivity|].
  replace 16%nat with (4 + 12)%nat by reflexivity. rewrite <- skipn_skipn', S6, skipn_skipn'.
  apply ra_body_options_rt; assumption.
Qed.

(* non-vacuity: the options of the library's router advertisement (prefix, MTU, source link-layer address) *)
Example nd_options_rt_ex :
  let pfx := [32;1;13;184;0;0;0;0;0;0;0;0;0;0;0;0] in
  exists ob,
    SendNdp.cat_opts [SendNdp.prefix_option 64 true true 7200 1800 pfx; SendNdp.mtu_option 1500;
                      SendNdp.lla_option 1 [2;0;0;0;0;1]] = Some ob /\
    length ob = 48%nat /\
    option_map (map fst) (ref_nd_options (S (length ob)) ob) = Some [3; 5; 1] /\
    option_map (find_opt 1) (ref_nd_options (S (length ob)) ob) = Some (Some [2;0;0;0;0;1]).
Proof. cbn zeta. eexists. split; [vm_compute; reflexivity|]. split; [reflexivity|]. split; vm_compute; reflexivity. Qed.
