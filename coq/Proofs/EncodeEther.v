(* Proofs/EncodeEther.v — C03: Ethernet payload operations (SetPayload, AppendPayload). *)
From PV Require Import Base.Prelude Base.Slice Model.EncodeBase Model.Encode Spec.EncodeRef
     Proofs.EncodeLemmas.
Open Scope N_scope.

Definition ether_hdr (dst src : bytes) (ht : N) : bytes := dst ++ src ++ [hi8 ht; lo8 ht].

Lemma encode_ether_bytes b ht src dst :
  (14 <= cap b)%nat -> length src = 6%nat -> length dst = 6%nat ->
  encode_ether b ht src dst = Ok (mkSlice (ether_hdr dst src ht ++ skipn 14 (arr b)) 14).
Proof.
  intros Hc Hs Hd.
  destruct b as [a l]. unfold cap in *. cbn [arr] in *.
  do 14 (destr_list a Hc).
  do 6 (destr_list src Hs). destruct src; [|discriminate].
  do 6 (destr_list dst Hd). destruct dst; [|discriminate].
  unfold encode_ether, copyto, put16, reslice, cap. run. reflexivity.
Qed.

Ltac ev_hook ::= rewrite ?be16_hi_lo by assumption;
  repeat match goal with E : hlen_of_type ?t = _ |- context [hlen_of_type ?t] => rewrite E end.

(* header fields and reference decoding of a frame  hdr ++ pl ++ T  of length 14 + |pl| *)
Lemma ether_frame_decodes dst src ht (pl T : bytes) :
  length src = 6%nat -> length dst = 6%nat -> ht < 65536 -> hlen_of_type ht = 14%nat ->
  let r := mkSlice (ether_hdr dst src ht ++ pl ++ T) (14 + length pl) in
  ether_is_valid r = true /\ ether_dst r = Ok dst /\ ether_src r = Ok src /\ ether_type r = Ok ht /\
  ether_hlen r = Ok 14%nat /\
  (pl <> [] -> (w <- ether_payload r ;; Ok (view w))%res = Ok pl) /\
  ref_ether (view r) = Some {| re_dst := dst; re_src := src; re_type := ht; re_payload := pl |}.
Proof.
  intros Hs Hd Hht Hhl r. subst r.
  do 6 (destr_list src Hs). destruct src; [|discriminate].
  do 6 (destr_list dst Hd). destruct dst; [|discriminate].
  unfold ether_hdr. cbn [app].
  split. { reflexivity. }
  split. { unfold ether_dst, sl, cap. run. reflexivity. }
  split. { unfold ether_src, sl, cap. run. reflexivity. }
  split. { unfold ether_type, be16_at, cap. run. reflexivity. }
  split. { unfold ether_hlen, ether_type, be16_at, cap. run. reflexivity. }
  split.
  { intros Hne. destruct pl as [|y pl]; [congruence|].
    unfold ether_payload, ether_hlen, ether_type, be16_at, slfrom, cap. run.
    unfold view. cbn [arr len]. change (y :: pl ++ T) with ((y :: pl) ++ T).
    rewrite firstn_app_len; [reflexivity|]. cbn [length]. lia. }
  unfold view. cbn [arr len Nat.add firstn]. rewrite firstn_app_exact.
  unfold ref_ether, take, drop, w16. cbn [length skipn firstn Nat.ltb Nat.leb].
  rewrite w16_hi_lo by assumption. reflexivity.
Qed.

Theorem ether_set_payload_rt b ht src dst pl :
  (14 + length pl <= cap b)%nat -> length src = 6%nat -> length dst = 6%nat ->
  ht < 65536 -> hlen_of_type ht = 14%nat ->
  firstn (length pl) (skipn 14 (arr b)) = pl ->
  exists e r,
    encode_ether b ht src dst = Ok e /\ ether_set_payload e (length pl) = Ok r /\
    len r = (14 + length pl)%nat /\ cap r = cap b /\ arr r = arr e /\
    ether_is_valid r = true /\ ether_dst r = Ok dst /\ ether_src r = Ok src /\ ether_type r = Ok ht /\
    ether_hlen r = Ok 14%nat /\
    (pl <> [] -> (w <- ether_payload r ;; Ok (view w))%res = Ok pl) /\
    ref_ether (view r) = Some {| re_dst := dst; re_src := src; re_type := ht; re_payload := pl |}.
Proof.
  intros Hc Hs Hd Hht Hhl Hin.
  eexists. eexists. split. { apply encode_ether_bytes; try assumption; lia. }
  assert (Hh : length (ether_hdr dst src ht) = 14%nat).
  { unfold ether_hdr. rewrite !app_length. cbn [length]. lia. }
  assert (Hrest : (length pl <= length (skipn 14 (arr b)))%nat) by (rewrite skipn_length; unfold cap in Hc; lia).
  assert (Hset : ether_set_payload (mkSlice (ether_hdr dst src ht ++ skipn 14 (arr b)) 14) (length pl)
                 = Ok (mkSlice (ether_hdr dst src ht ++ skipn 14 (arr b)) (14 + length pl))).
  { clear Hin. revert Hh Hrest. generalize (skipn 14 (arr b)) as rest. intros rest Hh Hrest.
    do 6 (destr_list src Hs). destruct src; [|discriminate].
    do 6 (destr_list dst Hd). destruct dst; [|discriminate].
    unfold ether_hdr. cbn [app].
    unfold ether_set_payload, ether_hlen, ether_type, be16_at, reslice, cap. run. reflexivity. }
  split. { exact Hset. }
  split. { reflexivity. }
  split. { unfold cap in *. cbn [arr]. rewrite app_length, skipn_length, Hh. lia. }
  split. { reflexivity. }
  rewrite <- (firstn_skipn (length pl) (skipn 14 (arr b))), Hin.
  apply ether_frame_decodes; assumption.
Qed.

(* AppendPayload (after repo commit 564095a the destination is sliced by len(payload)) *)
Definition pad46 (pl : bytes) : bytes := pl ++ repeat 0 (46 - length pl).

Lemma pad46_length pl : length (pad46 pl) = Nat.max 46 (length pl).
Proof. unfold pad46. rewrite app_length, repeat_length. lia. Qed.

(* the bytes AppendPayload leaves: header, payload, zero padding up to 60 bytes *)
Lemma ether_append_bytes dst src ht rest pl pcap :
  length src = 6%nat -> length dst = 6%nat -> ht < 65536 -> hlen_of_type ht = 14%nat ->
  (length pl <= length rest)%nat -> (46 <= length rest)%nat ->
  ether_append (mkSlice (ether_hdr dst src ht ++ rest) 14) pl pcap
  = Ok (mkSlice (ether_hdr dst src ht ++ pad46 pl ++ skipn (length (pad46 pl)) rest) (14 + length (pad46 pl))).
Proof.
  intros Hs Hd Hht Hhl Hpl H46.
  pose proof (pad46_length pl) as Hpad.
  do 6 (destr_list src Hs). destruct src; [|discriminate].
  do 6 (destr_list dst Hd). destruct dst; [|discriminate].
  unfold ether_hdr in *. cbn [app] in *.
  unfold ether_append, ether_payload, ether_hlen, ether_type, be16_at, reslice, sl, cap.
  destruct (Nat.ltb_spec (14 + length pl) 60) as [Hshort|Hlong].
  - runs.
    assert (E46 : length (pad46 pl) = 46%nat) by lia.
    rewrite E46. f_equal. f_equal. repeat f_equal.
    rewrite blit0 by lia. rewrite blit_app_r0.
    rewrite blit0 by (rewrite repeat_length, skipn_length; lia).
    unfold pad46. rewrite <- app_assoc. f_equal.
    replace (60 - S (S (S (S (S (S (S (S (S (S (S (S (S (S (length pl)))))))))))))))%nat with (46 - length pl)%nat by lia.
    f_equal. rewrite repeat_length, skipn_skipn'. f_equal. lia.
  - runs.
    assert (E : pad46 pl = pl) by (unfold pad46; replace (46 - length pl)%nat with 0%nat by lia; apply app_nil_r).
    rewrite E. f_equal. f_equal. repeat f_equal.
    rewrite blit0 by lia. reflexivity.
Qed.

Theorem ether_append_rt b ht src dst pl pcap :
  (14 + length pl <= cap b)%nat -> (60 <= cap b)%nat -> length src = 6%nat -> length dst = 6%nat ->
  ht < 65536 -> hlen_of_type ht = 14%nat ->
  exists e r,
    encode_ether b ht src dst = Ok e /\ ether_append e pl pcap = Ok r /\
    len r = Nat.max 60 (14 + length pl) /\ cap r = cap b /\
    ether_is_valid r = true /\ ether_dst r = Ok dst /\ ether_src r = Ok src /\ ether_type r = Ok ht /\
    ether_hlen r = Ok 14%nat /\
    (w <- ether_payload r ;; Ok (view w))%res = Ok (pad46 pl) /\
    ref_ether (view r) = Some {| re_dst := dst; re_src := src; re_type := ht; re_payload := pad46 pl |}.
Proof.
  intros Hc H60 Hs Hd Hht Hhl.
  eexists. eexists. split. { apply encode_ether_bytes; try assumption; lia. }
  assert (Hh : length (ether_hdr dst src ht) = 14%nat).
  { unfold ether_hdr. rewrite !app_length. cbn [length]. lia. }
  set (rest := skipn 14 (arr b)).
  assert (Hrest : length rest = (cap b - 14)%nat) by (unfold rest, cap; rewrite skipn_length; lia).
  set (T := skipn (length (pad46 pl)) rest).
  assert (Hpad : length (pad46 pl) = Nat.max 46 (length pl)).
  { unfold pad46. rewrite app_length, repeat_length. lia. }
  assert (Happ : ether_append (mkSlice (ether_hdr dst src ht ++ rest) 14) pl pcap
                 = Ok (mkSlice (ether_hdr dst src ht ++ pad46 pl ++ T) (14 + length (pad46 pl)))).
  { unfold T. apply ether_append_bytes; try assumption; lia. }
  split. { exact Happ. }
  split. { cbn [len]. lia. }
  split. { unfold cap at 1. cbn [arr]. unfold T, rest. rewrite !app_length, !skipn_length, Hh. unfold cap in *. lia. }
  pose proof (ether_frame_decodes dst src ht (pad46 pl) T Hs Hd Hht Hhl) as D. cbn zeta in D.
  destruct D as (D1 & D2 & D3 & D4 & D5 & D6 & D7).
  repeat (split; [assumption|]). split; [|assumption].
  apply D6. intros E. rewrite E in Hpad. cbn [length] in Hpad. lia.
Qed.

(* a payload slice with spare capacity (the former panic class) is appended like any other *)
Example ether_append_spare_cap_ex :
  exists r, (e <- encode_ether (mkSlice (repeat 7 64) 64) 2048 [2;0;0;0;0;1] [2;0;0;0;0;2] ;;
             ether_append e [1;2;3] 4096)%res = Ok r /\ len r = 60%nat.
Proof. eexists. split; [vm_compute; reflexivity|reflexivity]. Qed.
