(* Proofs/AliasOut.v — outputs by value: with copying output points no caller write reaches the heap. *)
From PV Require Import Base.Prelude Base.Text Model.AliasOut.
Open Scope N_scope.
Open Scope list_scope.

Definition all_copies (l : list ov) : Prop := Forall (fun v => match v with OCopy _ => True | OShare _ => False end) l.

Lemma cstep_copy oc w o :
  all_copies (snd w) ->
  (match o with CGet k _ => oc k = true | CWrite _ _ => True end) ->
  fst (cstep oc w o) = fst w /\ all_copies (snd (cstep oc w o)).
Proof.
  intros Hc Ho. destruct o as [k i|h b]; simpl.
  - rewrite Ho. split; auto. apply Forall_app. split; auto.
  - destruct (nth_error (snd w) h) as [[c|i]|] eqn:E; auto.
    apply nth_error_In in E. unfold all_copies in Hc. rewrite Forall_forall in Hc. destruct (Hc _ E).
Qed.

Lemma crun_from oc ops : forall w,
  all_copies (snd w) -> uses_only oc ops = true ->
  fst (fold_left (cstep oc) ops w) = fst w.
Proof.
  induction ops as [|o r IH]; intros w Hc Hu; simpl; auto.
  simpl in Hu. apply andb_true_iff in Hu as [Ho Hr].
  destruct (cstep_copy oc w o Hc) as [E Hc'].
  { destruct o; auto. }
  rewrite IH; auto.
Qed.

(* histories that obtain values only through copying output points leave the retained storage untouched *)
Theorem outputs_partial oc ops hp : uses_only oc ops = true -> crun oc ops hp = hp.
Proof. intros H. unfold crun. rewrite crun_from; auto. constructor. Qed.

(* if every output point copies, no caller history can change the retained storage *)
Theorem outputs_do_not_alias oc ops hp : (forall k, oc k = true) -> crun oc ops hp = hp.
Proof.
  intros Hall. apply outputs_partial. unfold uses_only. apply forallb_forall. intros o _. destruct o; auto.
Qed.

(* as found: a notification's MAC is the table's slice *)
Theorem outputs_refuted :
  exists ops hp, crun out_copies_as_found ops hp <> hp.
Proof. exists [CGet OP_notification_mac 0; CWrite 0 [255;255;255;255;255;254]], [[2;0;0;0;0;1]]. vm_compute. discriminate. Qed.

Example outputs_partial_nonvacuous : uses_only out_copies_as_found [CGet OP_dns_entry 0; CWrite 0 [1;2;3]] = true.
Proof. reflexivity. Qed.

Lemma out_copies_all : forall k, out_copies k = true.
Proof. destruct k; reflexivity. Qed.

(* the repaired code: whatever the caller obtains and overwrites, the retained storage is unchanged *)
Theorem outputs_do_not_alias_state ops hp : crun out_copies ops hp = hp.
Proof. apply outputs_do_not_alias. apply out_copies_all. Qed.

Example outputs_example :
  crun out_copies [CGet OP_notification_mac 0; CWrite 0 [255;255;255;255;255;254]; CGet OP_findrouter 1; CWrite 1 []]
       [[2;0;0;0;0;1]; [254;128]] = [[2;0;0;0;0;1]; [254;128]].
Proof. reflexivity. Qed.
