(* Proofs/EncodeGluePath.v — C03/C07 glue along one complete send path: the frame SEND's model of
   sendDHCP4Packet / sendNBNS / SendSSDPSearch / sendMDNS (IPv4) hands to the connection is exactly the
   view of the frame the C03 model composes, so C03_compose_classified (bytes, Parse classification,
   layer-by-layer decoding by the library views and the reference decoders) holds of SEND's frame. *)
From PV Require Import Base.Prelude Base.Slice Model.EncodeBase Model.Encode Model.EncodeCompose Model.Checksum
     Model.EncodeDHCP Spec.EncodeRef Spec.EncodeRefDHCP Proofs.EncodeLemmas Proofs.EncodeIP4 Proofs.EncodeEther Proofs.EncodeMisc Proofs.EncodeCompose Proofs.EncodeDHCP
     Proofs.EncodeGlue.
From PV Require Model.SendBase Model.Send Model.SendUdp.
Open Scope N_scope.
Ltac blia := unfold bytes, byte in *; lia.

Theorem glue_udp4_send smac dmac ttl sip dip sp dp (p junk : bytes) :
  length junk = SendBase.EthMaxSize -> length smac = 6%nat -> length dmac = 6%nat ->
  is4 sip = true -> is4 dip = true -> ttl < 256 -> (42 + length p <= SendBase.EthMaxSize)%nat ->
  SendUdp.udp4_send smac dmac ttl sip dip sp dp p junk = Ok [frame4_bytes smac dmac ttl sip dip sp dp p].
Proof.
  intros HJ Hsm Hdm Hsi Hdi Httl Hfit.
  assert (Hu : u8 ttl = ttl) by (unfold u8; apply N.mod_small; exact Httl).
  unfold is4 in Hsi, Hdi. apply Nat.eqb_eq in Hsi, Hdi.
  unfold SendBase.EthMaxSize in *.
  do 42 (destr_list junk HJ).
  assert (Hrest : (length p <= length junk)%nat) by (cbn [length] in HJ; blia).
  do 6 (destr_list smac Hsm). destruct smac; [|discriminate].
  do 6 (destr_list dmac Hdm). destruct dmac; [|discriminate].
  do 4 (destr_list sip Hsi). destruct sip; [|discriminate].
  do 4 (destr_list dip Hdi). destruct dip; [|discriminate].
  unfold SendUdp.udp4_send, SendUdp.udp_append_payload, SendBase.EthMaxSize.
  destruct (Nat.ltb_spec (1522 - 34 - 8) (length p)) as [C|_]; [blia|].
  unfold SendBase.enc_ether, Send.enc_ip4, SendUdp.enc_udp, Send.ip4_set_payload, Send.ip4_write_checksum,
    SendBase.put16, SendBase.cpy, SendBase.is4, SendBase.ipv4zero. rewrite Hu.
  cbn -[Nat.ltb Nat.leb N.to_nat N.of_nat ip4_calc_checksum].
  rewrite firstn_all, blit0 by blia. rewrite firstn_app_exact.
  unfold frame4_bytes, ether_hdr, ip4_store_checksum, ip4_hdr0, udp_hdr. cbn [app set_nth].
  assert (U : forall v, v < 65536 -> u16 v = v) by (intros v Hv; unfold u16; apply N.mod_small; exact Hv).
  rewrite (U (N.of_nat (length p))) by blia.
  rewrite !U by blia.
  reflexivity.
Qed.

(* ================================================================ *)
(* Ether o IP4 o UDP o payload: the one frame SEND's IPv4/UDP send path emits (DHCP, NBNS, SSDP, mDNS and
   LLMNR over IPv4 all go through udp4_send) is the view of the C03 composition on the pooled buffer, hence
   it is classified by its ports by Session.Parse and decodes layer by layer — library views and
   reference decoders — to exactly the arguments of the send call, whatever the pooled buffer held. *)
Theorem glue_udp4_path smac dmac ttl sip dip sp dp (data junk : bytes) :
  length junk = SendBase.EthMaxSize -> length smac = 6%nat -> length dmac = 6%nat ->
  is4 sip = true -> is4 dip = true -> (42 + length data <= SendBase.EthMaxSize)%nat ->
  bytes_ok smac -> bytes_ok dmac -> bytes_ok sip -> bytes_ok dip -> bytes_ok data ->
  ttl < 256 -> sp < 65536 -> dp < 65536 -> N.land (nth 0 smac 0) 1 = 0 ->
  let udpb := udp_hdr sp dp (8 + N.of_nat (length data)) ++ data in
  exists f,
    compose_udp4 (mkSlice junk SendBase.EthMaxSize) smac dmac ttl sip dip sp dp data = Ok f /\
    SendUdp.udp4_send smac dmac ttl sip dip sp dp data junk = Ok [view f] /\
    length (view f) = (42 + length data)%nat /\
    parse_class f = Ok (class_of_ports sp dp, false) /\
    (exists ipb,
       ref_ether (view f) = Some {| re_dst := dmac; re_src := smac; re_type := ETH_P_IP; re_payload := ipb |} /\
       ref_ip4 ipb = Some (ip4_expected_ref ttl 17 sip dip udpb) /\
       ref_udp udpb = Some (udp_expected_ref sp dp data)) /\
    (ipv <- ether_payload f ;; ip4_decode_lib ipv)%res = Ok (ip4_expected_view ttl 17 sip dip udpb) /\
    (ipv <- ether_payload f ;; u <- ip4_payload ipv ;; udp_decode_lib u)%res = Ok (udp_expected_view sp dp data).
Proof.
  intros HJ Hsm Hdm Hsi Hdi Hfit Bsm Bdm Bsi Bdi Bd Httl Hsp Hdp Hun udpb.
  assert (Hc : (42 + length data <= cap (mkSlice junk SendBase.EthMaxSize))%nat) by (unfold cap; cbn [arr]; blia).
  assert (Hsz : 42 + N.of_nat (length data) < 65536) by (unfold SendBase.EthMaxSize in Hfit; blia).
  destruct (compose_udp4_rt (mkSlice junk SendBase.EthMaxSize) smac dmac ttl sip dip sp dp data
              Hc Hsm Hdm Hsi Hdi Hsz Bsm Bdm Bsi Bdi Bd Httl Hsp Hdp Hun)
    as (f & E & Hl & _ & _ & Hv & Hp & (ipb & R1 & _ & R2 & R3) & V1 & V2).
  exists f. split; [exact E|]. split.
  { rewrite Hv. apply glue_udp4_send; assumption. }
  split. { rewrite Hv. unfold frame4_bytes, ether_hdr, ip4_store_checksum, ip4_hdr0, udp_hdr.
           unfold is4 in Hsi, Hdi. apply Nat.eqb_eq in Hsi, Hdi.
           repeat first [rewrite app_length | rewrite set_nth_length]. cbn [length]. blia. }
  split; [exact Hp|]. split; [exists ipb; auto|]. split; assumption.
Qed.

(* Ether o IP4 o UDP o DHCP4: the whole reply path of the DHCP server (sendDHCP4Packet with the message
   EncodeDHCP4 produced).  The frame handed to the connection decodes to the addresses and ports of the send
   call, and its UDP payload is the DHCP message whose options decode (reference decoder) to the emission of
   the option map: every layer's round trip composed along the path. *)
Theorem glue_dhcp4_path b opcode mt chaddr ci yi xid bc options order perm
        (src dst : SendBase.addr) sp dp junk :
  (300 <= cap b)%nat ->
  match chaddr with Some m => length m = 6%nat | None => True end ->
  match xid with Some x => length x = 4%nat | None => True end ->
  let o' := set_opt 53 [mt] options in
  nodup options -> opts_ok o' -> (241 + osize o' <= cap b)%nat ->
  let em := emission o' order perm in
  let pad := repeat 0 (300 - (241 + osize em)) in
  let msg := dhcp_hdr (arr b) opcode chaddr ci yi xid bc ++ enc em ++ 255 :: pad in
  bytes_ok msg -> (42 + length msg <= SendBase.EthMaxSize)%nat ->
  length junk = SendBase.EthMaxSize ->
  length (SendBase.a_mac src) = 6%nat -> length (SendBase.a_mac dst) = 6%nat ->
  is4 (SendBase.a_ip src) = true -> is4 (SendBase.a_ip dst) = true ->
  bytes_ok (SendBase.a_mac src) -> bytes_ok (SendBase.a_mac dst) ->
  bytes_ok (SendBase.a_ip src) -> bytes_ok (SendBase.a_ip dst) ->
  sp < 65536 -> dp < 65536 -> N.land (nth 0 (SendBase.a_mac src) 0) 1 = 0 ->
  exists p f,
    encode_dhcp4 b opcode mt chaddr ci yi xid bc options order perm = Ok p /\ view p = msg /\
    SendUdp.send_dhcp4_packet src dst sp dp (view p) junk = Ok [f] /\
    length f = (42 + length msg)%nat /\
    (exists ipb,
       ref_ether f = Some {| re_dst := SendBase.a_mac dst; re_src := SendBase.a_mac src;
                             re_type := ETH_P_IP; re_payload := ipb |} /\
       ref_ip4 ipb = Some (ip4_expected_ref 50 17 (SendBase.a_ip src) (SendBase.a_ip dst)
                             (udp_hdr sp dp (8 + N.of_nat (length msg)) ++ msg)) /\
       ref_udp (udp_hdr sp dp (8 + N.of_nat (length msg)) ++ msg) = Some (udp_expected_ref sp dp msg)) /\
    ref_dhcp_opts (S (length (dhcp_options p))) (dhcp_options p) = Some em /\
    (forall k, lookup_opt k em = lookup_opt k o') /\ mask_before_router em = true.
Proof.
  intros Hcap Hch Hx o' Hnd Hok Hfitb em pad msg Bmsg Hfit HJ Hsm Hdm Hsi Hdi Bsm Bdm Bsi Bdi Hsp Hdp Hun.
  destruct (dhcp4_rt b opcode mt chaddr ci yi xid bc options order perm Hcap Hch Hx Hnd Hok Hfitb)
    as (p & E & _ & _ & _ & _ & Hv & _ & _ & Hlk & _ & Hro & _ & Hmr).
  fold o' em pad msg in Hv. fold em in Hro, Hlk, Hmr. fold o' in Hlk.
  destruct (glue_udp4_path (SendBase.a_mac src) (SendBase.a_mac dst) 50 (SendBase.a_ip src) (SendBase.a_ip dst)
              sp dp msg junk HJ Hsm Hdm Hsi Hdi Hfit Bsm Bdm Bsi Bdi Bmsg ltac:(lia) Hsp Hdp Hun)
    as (f & _ & S1 & S2 & _ & (ipb & R1 & R2 & R3) & _ & _).
  exists p, (view f). split; [exact E|]. split; [exact Hv|]. split.
  { unfold SendUdp.send_dhcp4_packet. rewrite Hv. exact S1. }
  split; [exact S2|]. split; [exists ipb; auto|]. split; [exact Hro|]. split; [exact Hlk| exact Hmr].
Qed.

(* ================================================================ *)
(* IPv6 / ICMPv6 path: icmp6SendPacket *)
Definition icmp6_with_checksum (s d p : bytes) : bytes :=
  let cs := checksum (icmp6_pseudo s d (N.of_nat (length p)) ++ p) in
  set_nth 2 (u8 cs) (set_nth 3 (u8 (N.shiftr cs 8)) p).

Definition icmp6_hop (dip p : bytes) : N :=
  if SendBase.ll_unicast dip || SendBase.ll_multicast dip || Send.nd_message p then 255 else 64.

Definition frame6_icmp (smac dmac s d p : bytes) : bytes :=
  ether_hdr dmac smac 34525 ++ ip6_hdr (N.of_nat (length p)) 58 (icmp6_hop d p) s d ++ icmp6_with_checksum s d p.

Lemma glue_icmp6_send c (src dst : SendBase.addr) (p junk : bytes) :
  length junk = SendBase.EthMaxSize -> length (SendBase.host_mac c) = 6%nat -> length (SendBase.a_mac dst) = 6%nat ->
  length (SendBase.a_ip src) = 16%nat -> length (SendBase.a_ip dst) = 16%nat ->
  (4 <= length p)%nat -> (54 + length p <= SendBase.EthMaxSize)%nat ->
  Send.icmp6_send_packet c src dst p junk =
  Ok [frame6_icmp (SendBase.host_mac c) (SendBase.a_mac dst) (SendBase.a_ip src) (SendBase.a_ip dst) p].
Proof.
  destruct src as [sm s], dst as [dmac d]. unfold SendBase.a_mac, SendBase.a_ip. cbn [fst snd].
  intros HJ Hsm Hdm Hs Hd Hp4 Hfit.
  unfold Send.icmp6_send_packet, frame6_icmp. unfold SendBase.a_mac, SendBase.a_ip. cbn [fst snd]. fold (icmp6_hop d p).
  set (smac := SendBase.host_mac c) in *. clearbody smac.
  assert (Hh : u8 (icmp6_hop d p) = icmp6_hop d p) by (unfold icmp6_hop; destruct (_ || _ || _); reflexivity).
  set (hop := icmp6_hop d p) in *. clearbody hop.
  unfold SendBase.EthMaxSize in *.
  do 54 (destr_list junk HJ).
  assert (Hrest : (length p <= length junk)%nat) by (cbn [length] in HJ; blia).
  do 4 (destr_list p Hp4).
  do 6 (destr_list smac Hsm). destruct smac; [|discriminate].
  do 6 (destr_list dmac Hdm). destruct dmac; [|discriminate].
  do 16 (destr_list s Hs). destruct s; [|discriminate].
  do 16 (destr_list d Hd). destruct d; [|discriminate].
  unfold Send.ip6_append_payload, SendBase.EthMaxSize.
  match goal with |- context [Nat.ltb ?a ?b] => destruct (Nat.ltb_spec a b) as [C|_]; [cbn [length] in *; blia|] end.
  unfold SendBase.enc_ether, Send.enc_ip6, SendBase.put16, SendBase.cpy, SendBase.as16, SendBase.is4, SendBase.is6.
  rewrite Hh.
  cbn -[Nat.ltb Nat.leb N.to_nat N.of_nat checksum icmp6_pseudo].
  destruct (Nat.ltb_spec (S (S (S (S (length p))))) 4) as [C|_]; [blia|].
  rewrite firstn_all, blit_nil, blit0 by (cbn [length] in *; blia).
  cbn -[Nat.ltb Nat.leb N.to_nat N.of_nat checksum icmp6_pseudo firstn].
  rewrite firstn_app_exact.
  unfold ether_hdr, ip6_hdr, icmp6_with_checksum. cbn [app set_nth length].
  assert (U : forall v, v < 65536 -> u16 v = v) by (intros v Hv; unfold u16; apply N.mod_small; exact Hv).
  rewrite !U by (cbn [length] in *; blia).
  reflexivity.
Qed.

Lemma icmp6_with_checksum_shape s d (p : bytes) :
  (4 <= length p)%nat -> bytes_ok p ->
  let p' := icmp6_with_checksum s d p in
  length p' = length p /\ bytes_ok p' /\ firstn 2 p' = firstn 2 p /\ skipn 4 p' = skipn 4 p /\ ref_nd p' = ref_nd p.
Proof.
  intros H4 B. do 4 (destr_list p H4). unfold icmp6_with_checksum. cbn [set_nth length firstn skipn].
  repeat (apply bytes_ok_cons in B; destruct B as [? B]).
  split; [reflexivity|]. split.
  { repeat (apply bytes_ok_cons; split; [first [assumption | unfold u8; apply N.mod_lt; discriminate]|]). exact B. }
  split; [reflexivity|]. split; reflexivity.
Qed.

(* Ether o IP6 o ICMPv6: the frame SEND's icmp6SendPacket emits (echo, NS, NA, RA with options, RS all go
   through it) decodes by the reference decoders to the addresses of the call and to the ICMPv6 message
   handed in, up to its two checksum octets. *)
Theorem glue_icmp6_path c (src dst : SendBase.addr) (p junk : bytes) :
  length junk = SendBase.EthMaxSize -> length (SendBase.host_mac c) = 6%nat -> length (SendBase.a_mac dst) = 6%nat ->
  length (SendBase.a_ip src) = 16%nat -> length (SendBase.a_ip dst) = 16%nat ->
  bytes_ok (SendBase.a_ip src) -> bytes_ok (SendBase.a_ip dst) -> bytes_ok p ->
  (4 <= length p)%nat -> (54 + length p <= SendBase.EthMaxSize)%nat ->
  let p' := icmp6_with_checksum (SendBase.a_ip src) (SendBase.a_ip dst) p in
  exists f ipb,
    Send.icmp6_send_packet c src dst p junk = Ok [f] /\ length f = (54 + length p)%nat /\
    ref_ether f = Some {| re_dst := SendBase.a_mac dst; re_src := SendBase.host_mac c; re_type := 34525; re_payload := ipb |} /\
    ref_ip6 ipb = Some (ip6_expected_ref 58 (icmp6_hop (SendBase.a_ip dst) p) (SendBase.a_ip src) (SendBase.a_ip dst) p') /\
    length p' = length p /\ firstn 2 p' = firstn 2 p /\ skipn 4 p' = skipn 4 p /\ ref_nd p' = ref_nd p.
Proof.
  intros HJ Hsm Hdm Hs Hd Bs Bd Bp H4 Hfit p'.
  destruct (icmp6_with_checksum_shape (SendBase.a_ip src) (SendBase.a_ip dst) p H4 Bp) as (L & B' & F & S & R).
  fold p' in L, B', F, S, R.
  assert (Hhop : icmp6_hop (SendBase.a_ip dst) p < 256) by (unfold icmp6_hop; destruct (_ || _ || _); lia).
  assert (Hsz : 40 + N.of_nat (length p') < 65536) by (unfold SendBase.EthMaxSize in Hfit; blia).
  pose proof (ip6_frame_decodes 58 _ _ _ p' [] Hs Hd Bs Bd B' ltac:(lia) Hhop Hsz) as D. cbn zeta in D.
  destruct D as (_ & _ & D).
  eexists. eexists. split. { apply glue_icmp6_send; assumption. }
  unfold frame6_icmp. fold p'. split.
  { unfold ether_hdr, ip6_hdr. repeat rewrite app_length. cbn [length]. blia. }
  split. { apply ref_ether_hdr; [assumption|assumption|lia]. }
  split.
  { unfold view in D. cbn [arr len] in D. rewrite app_nil_r in D.
    rewrite firstn_all2 in D by (unfold ip6_hdr; repeat rewrite app_length; cbn [length]; blia).
    rewrite L in D. exact D. }
  repeat split; assumption.
Qed.

(* Ether o IP6 o ICMPv6 o NA: the whole path of the neighbour advertisement *)
Theorem glue_na_path c (src dst target : SendBase.addr) ro so ov junk :
  length junk = SendBase.EthMaxSize -> length (SendBase.host_mac c) = 6%nat -> length (SendBase.a_mac dst) = 6%nat ->
  length (SendBase.a_ip src) = 16%nat -> length (SendBase.a_ip dst) = 16%nat ->
  bytes_ok (SendBase.a_ip src) -> bytes_ok (SendBase.a_ip dst) ->
  length (SendBase.a_ip target) = 16%nat -> length (SendBase.a_mac target) = 6%nat ->
  bytes_ok (SendBase.a_ip target) -> bytes_ok (SendBase.a_mac target) ->
  exists f ipb icmpb,
    Send.icmp6_send_packet c src dst (Send.na_marshal ro so ov target) junk = Ok [f] /\ length f = 86%nat /\
    ref_ether f = Some {| re_dst := SendBase.a_mac dst; re_src := SendBase.host_mac c; re_type := 34525; re_payload := ipb |} /\
    ref_ip6 ipb = Some (ip6_expected_ref 58 255 (SendBase.a_ip src) (SendBase.a_ip dst) icmpb) /\
    ref_nd icmpb = Some {| rn_type := 136; rn_code := 0; rn_flags := nd_flags ro so ov;
                           rn_target := SendBase.a_ip target; rn_options := [(2, SendBase.a_mac target)] |}.
Proof.
  intros HJ Hsm Hdm Hs Hd Bs Bd Ht Htm Bt Btm.
  destruct (na_rt ro so ov _ _ Ht Htm Bt Btm) as (r & E & Lr & Cr & V & Bv & _ & R & _).
  destruct (EncodeGlue.glue_na ro so ov target) as (r' & E' & _ & A). rewrite E in E'. injection E' as <-.
  assert (VA : view r = arr r).
  { unfold view. rewrite Lr. unfold cap in Cr. rewrite <- Cr. apply firstn_all. }
  rewrite VA, A in *.
  assert (L32 : length (Send.na_marshal ro so ov target) = 32%nat) by (rewrite <- A; exact Cr).
  destruct (glue_icmp6_path c src dst _ junk HJ Hsm Hdm Hs Hd Bs Bd Bv ltac:(lia) ltac:(unfold SendBase.EthMaxSize; lia))
    as (f & ipb & S1 & S2 & S3 & S4 & _ & _ & _ & S5).
  exists f, ipb. eexists. split; [exact S1|]. split; [rewrite S2, L32; reflexivity|]. split; [exact S3|].
  split.
  { rewrite S4. f_equal. f_equal. unfold icmp6_hop.
    replace (Send.nd_message (Send.na_marshal ro so ov target)) with true; [rewrite Bool.orb_true_r; reflexivity|].
    rewrite V. reflexivity. }
  rewrite S5. exact R.
Qed.

(* ================================================================ *)
(* non-vacuity: the hypotheses of the path theorems are jointly satisfiable *)
Ltac okb := apply bytes_okb_spec; vm_compute; reflexivity.
Ltac leb := apply Nat.leb_le; vm_compute; reflexivity.

Example glue_dhcp4_path_ex :
  let b := mkSlice (repeat 7 400) 0 in
  let options := [(1, [255;255;255;0]); (3, [192;168;0;1]); (6, [8;8;8;8]); (12, [104;105])] in
  let src := ([2;0;0;0;0;1], [192;168;0;1]) in
  let dst := ([2;0;0;0;0;9], [192;168;0;9]) in
  exists p f, encode_dhcp4 b 2 5 None [] [192;168;0;9] None false options [6; 3; 1] [12; 53] = Ok p /\
    SendUdp.send_dhcp4_packet src dst 67 68 (view p) (repeat 170 1522) = Ok [f] /\ length f = 342%nat.
Proof.
  cbn zeta.
  pose proof (glue_dhcp4_path (mkSlice (repeat 7 400) 0) 2 5 None [] [192;168;0;9] None false
              [(1, [255;255;255;0]); (3, [192;168;0;1]); (6, [8;8;8;8]); (12, [104;105])] [6; 3; 1] [12; 53]
              ([2;0;0;0;0;1], [192;168;0;1]) ([2;0;0;0;0;9], [192;168;0;9]) 67 68 (repeat 170 1522)) as T.
  cbn zeta in T.
  assert (Hmsg : length (dhcp_hdr (repeat 7 400) 2 None [] [192;168;0;9] None false ++
                   enc (emission (set_opt 53 [5] [(1, [255;255;255;0]); (3, [192;168;0;1]); (6, [8;8;8;8]); (12, [104;105])]) [6; 3; 1] [12; 53]) ++
                   255 :: repeat 0 (300 - (241 + osize (emission (set_opt 53 [5] [(1, [255;255;255;0]); (3, [192;168;0;1]); (6, [8;8;8;8]); (12, [104;105])]) [6; 3; 1] [12; 53])))) = 300%nat)
    by (vm_compute; reflexivity).
  destruct T as (p & f & E & _ & S & L & _).
  - leb.
  - exact I.
  - exact I.
  - unfold nodup. apply NoDup_cons_iff; cbn. split; [intuition discriminate|].
    repeat (apply NoDup_cons_iff; cbn; split; [intuition discriminate|]). constructor.
  - vm_compute. repeat (constructor; [repeat split; try discriminate; try (apply Nat.leb_le; reflexivity); try (apply bytes_okb_spec; reflexivity)|]). constructor.
  - leb.
  - okb.
  - leb.
  - reflexivity.
  - reflexivity.
  - reflexivity.
  - reflexivity.
  - reflexivity.
  - okb.
  - okb.
  - okb.
  - okb.
  - reflexivity.
  - reflexivity.
  - reflexivity.
  - exists p, f. split; [exact E|]. split; [exact S|]. rewrite L. vm_compute. reflexivity.
Qed.

Example glue_na_path_ex :
  let c := SendBase.mkCfg [2;0;0;0;0;1] [192;168;0;1] [] [] [] 1500 in
  let lla := [254;128;0;0;0;0;0;0;0;0;0;0;0;0;0;1] in
  exists f, Send.icmp6_send_packet c ([2;0;0;0;0;1], lla)
              ([51;51;0;0;0;1], [255;2;0;0;0;0;0;0;0;0;0;0;0;0;0;1])
              (Send.na_marshal true false true ([2;0;0;0;0;1], lla))
              (repeat 170 1522) = Ok [f] /\ length f = 86%nat.
Proof.
  cbn zeta.
  destruct (glue_na_path (SendBase.mkCfg [2;0;0;0;0;1] [192;168;0;1] [] [] [] 1500)
              ([2;0;0;0;0;1], [254;128;0;0;0;0;0;0;0;0;0;0;0;0;0;1])
              ([51;51;0;0;0;1], [255;2;0;0;0;0;0;0;0;0;0;0;0;0;0;1])
              ([2;0;0;0;0;1], [254;128;0;0;0;0;0;0;0;0;0;0;0;0;0;1]) true false true (repeat 170 1522))
    as (f & ipb & icmpb & S & L & _);
    try reflexivity; try okb.
  exists f. split; assumption.
Qed.
