(* Proofs/ViewsBase.v -- lemmas and tactics shared by the per-type proofs of
   C01 (getters safe and inside the view) and C02 (getter = RFC position). *)
From PV Require Export Base.Prelude Base.Slice Model.ViewsBase Model.Views Model.Views2 Model.ViewsVar Model.ViewsKnown Spec.Views Spec.Views2 Spec.ViewsNDP.
Open Scope N_scope.

(* ---------------------------------------------------------------- *)
(* slice interface *)

Lemma be32_at_ok s a : (a + 4 <= cap s)%nat ->
  be32_at s a = Ok (be32 (nth a (arr s) 0) (nth (a + 1) (arr s) 0) (nth (a + 2) (arr s) 0) (nth (a + 3) (arr s) 0)).
Proof. intros H. unfold be32_at. destruct (Nat.leb_spec (a + 4) (cap s)); [reflexivity|lia]. Qed.

Lemma idx_panic s i : (len s <= i)%nat -> idx s i = Panic.
Proof. intros H. unfold idx. destruct (Nat.ltb_spec i (len s)); [lia|reflexivity]. Qed.

Lemma sl_panic s a b : (b < a)%nat \/ (cap s < b)%nat -> sl s a b = Panic.
Proof.
  intros H. unfold sl. destruct (Nat.leb_spec a b); destruct (Nat.leb_spec b (cap s)); try reflexivity; lia.
Qed.

Lemma slfrom_panic s a : (len s < a)%nat -> slfrom s a = Panic.
Proof. intros H. unfold slfrom. destruct (Nat.leb_spec a (len s)); [lia|reflexivity]. Qed.

(* ---------------------------------------------------------------- *)
(* the view (bytes within the length) against the storage *)

Lemma nth_firstn {A} (l : list A) n i d : (i < n)%nat -> nth i (firstn n l) d = nth i l d.
Proof.
  revert n i. induction l as [|x xs IH]; intros n i H.
  - rewrite firstn_nil. reflexivity.
  - destruct n as [|n]; [lia|]. destruct i as [|i]; simpl; [reflexivity|]. apply IH. lia.
Qed.

Lemma firstn_firstn_skipn {A} (l : list A) a n m : (a + n <= m)%nat ->
  firstn n (skipn a (firstn m l)) = firstn n (skipn a l).
Proof.
  revert a n m. induction l as [|x xs IH]; intros a n m H.
  - rewrite firstn_nil. reflexivity.
  - destruct m as [|m].
    + assert (n = 0)%nat by lia. subst. reflexivity.
    + destruct a as [|a]; simpl.
      * destruct n as [|n]; simpl; [reflexivity|]. f_equal.
        specialize (IH 0%nat n m). simpl in IH. apply IH. lia.
      * apply IH. lia.
Qed.

Lemma sub_view v off n : (off + n <= len v)%nat -> sub (view v) off n = sub (arr v) off n.
Proof. intros H. unfold sub, view. apply firstn_firstn_skipn. exact H. Qed.

Lemma blen_view v : wf v -> blen (view v) = len v.
Proof. apply view_length. Qed.

Lemma nth_skipn {A} (l : list A) a i d : nth i (skipn a l) d = nth (a + i) l d.
Proof.
  revert a. induction l as [|x xs IH]; intros a.
  - rewrite skipn_nil. destruct i, a; reflexivity.
  - destruct a as [|a]; simpl; [reflexivity|]. apply IH.
Qed.

(* sub l off n as explicit elements when they exist *)
Lemma sub_cons {A} (l : list A) off n d : (off < List.length l)%nat ->
  sub l off (S n) = nth off l d :: sub l (S off) n.
Proof.
  revert off. induction l as [|x xs IH]; intros off H; simpl in H; [lia|].
  destruct off as [|off]; unfold sub in *; simpl.
  - reflexivity.
  - apply IH. lia.
Qed.

Lemma sub_0 {A} (l : list A) off : sub l off 0 = [].
Proof. reflexivity. Qed.

(* ---------------------------------------------------------------- *)
(* position fields as expressions over nth *)

Lemma field_be_1 l i : (i < List.length l)%nat -> field_be l i 1 = nth i l 0.
Proof. intros H. unfold field_be. rewrite (sub_cons l i 0 0 H), sub_0. reflexivity. Qed.

Lemma field_be_2 l i : (i + 2 <= List.length l)%nat -> field_be l i 2 = nth i l 0 * 256 + nth (i + 1) l 0.
Proof.
  intros H. unfold field_be. rewrite (sub_cons l i 1 0) by lia. rewrite (sub_cons l (S i) 0 0) by lia.
  rewrite sub_0. replace (i + 1)%nat with (S i) by lia. reflexivity.
Qed.

Lemma field_be_4 l i : (i + 4 <= List.length l)%nat ->
  field_be l i 4 = ((nth i l 0 * 256 + nth (i + 1) l 0) * 256 + nth (i + 2) l 0) * 256 + nth (i + 3) l 0.
Proof.
  intros H. unfold field_be. rewrite (sub_cons l i 3 0) by lia. rewrite (sub_cons l (S i) 2 0) by lia.
  rewrite (sub_cons l (S (S i)) 1 0) by lia. rewrite (sub_cons l (S (S (S i))) 0 0) by lia. rewrite sub_0.
  replace (i + 1)%nat with (S i) by lia. replace (i + 2)%nat with (S (S i)) by lia.
  replace (i + 3)%nat with (S (S (S i))) by lia. reflexivity.
Qed.

(* bits with every position computed: first byte, number of bytes, shift, modulus *)
Lemma bits_eq l b w first nb (sh pw : N) :
  (b / 8)%nat = first -> ((b + w - 1) / 8 - first + 1)%nat = nb ->
  N.of_nat (8 * nb - (b - 8 * first) - w) = sh -> 2 ^ N.of_nat w = pw ->
  bits l b w = (field_be l first nb / 2 ^ sh) mod pw.
Proof. intros <- <- <- <-. reflexivity. Qed.

(* rewrite every [bits l b w] with closed b, w into field_be form *)
Ltac norm_bits :=
  repeat match goal with
  | |- context [bits ?l ?b ?w] =>
      let first := eval vm_compute in (b / 8)%nat in
      let nb := eval vm_compute in ((b + w - 1) / 8 - first + 1)%nat in
      let sh := eval vm_compute in (N.of_nat (8 * nb - (b - 8 * first) - w)) in
      let pw := eval vm_compute in (2 ^ N.of_nat w) in
      rewrite (bits_eq l b w first nb sh pw) by (vm_compute; reflexivity)
  end.

(* ---------------------------------------------------------------- *)
(* finite sweeps over byte values *)

Definition bytes256 : list N := map N.of_nat (seq 0 256).

Lemma in_bytes256 b : b < 256 -> In b bytes256.
Proof.
  intros H. unfold bytes256. rewrite <- (N2Nat.id b). apply in_map. apply in_seq. lia.
Qed.

Lemma sweep256 (f g : N -> N) :
  forallb (fun b => f b =? g b) bytes256 = true -> forall b, b < 256 -> f b = g b.
Proof.
  intros H b Hb. rewrite forallb_forall in H. specialize (H b (in_bytes256 b Hb)). lia.
Qed.

Lemma sweep256b (f g : N -> bool) :
  forallb (fun b => Bool.eqb (f b) (g b)) bytes256 = true -> forall b, b < 256 -> f b = g b.
Proof.
  intros H b Hb. rewrite forallb_forall in H. specialize (H b (in_bytes256 b Hb)).
  apply Bool.eqb_prop. exact H.
Qed.

Lemma sweep256x2 (f g : N -> N -> N) :
  forallb (fun a => forallb (fun b => f a b =? g a b) bytes256) bytes256 = true ->
  forall a b, a < 256 -> b < 256 -> f a b = g a b.
Proof.
  intros H a b Ha Hb. rewrite forallb_forall in H. specialize (H a (in_bytes256 a Ha)).
  rewrite forallb_forall in H. specialize (H b (in_bytes256 b Hb)). lia.
Qed.

Ltac sweep :=
  match goal with
  | |- forall b, b < 256 -> @eq N (@?f b) (@?g b) => apply (sweep256 f g); vm_compute; reflexivity
  | |- forall b, b < 256 -> @eq bool (@?f b) (@?g b) => apply (sweep256b f g); vm_compute; reflexivity
  | |- forall a b, a < 256 -> b < 256 -> @eq N (@?f a b) (@?g a b) => apply (sweep256x2 f g); vm_compute; reflexivity
  end.

(* ---------------------------------------------------------------- *)
(* tactics for fixed-shape getters *)

(* turn every index / slice expression whose bound follows from the context into its value *)
Lemma cap_mk_skipn v k n : cap {| arr := skipn k (arr v); len := n |} = (cap v - k)%nat.
Proof. unfold cap. cbn [arr]. apply skipn_length. Qed.
Ltac bound := rewrite ?cap_mk_skipn; cbn [len]; lia.
Ltac slices :=
  repeat (first
    [ match goal with |- context [idx ?s ?i] => rewrite (idx_ok s i) by bound end
    | match goal with |- context [be16_at ?s ?a] => rewrite (be16_at_ok s a) by bound end
    | match goal with |- context [be32_at ?s ?a] => rewrite (be32_at_ok s a) by bound end
    | match goal with |- context [sl ?s ?a ?b] => rewrite (sl_ok s a b) by bound end
    | match goal with |- context [slfrom ?s ?a] => rewrite (slfrom_ok s a) by bound end ];
    cbn [bind]);
  cbn [bind].

Ltac inside_tac :=
  cbn [inside ranges app len arr]; repeat constructor; unfold range_in; cbn [fst snd]; lia.

(* bytes of the view are bytes of the storage *)
Lemma nth_view v i : (i < len v)%nat -> nth i (view v) 0 = nth i (arr v) 0.
Proof. apply view_nth. Qed.

Lemma getters_ok_nil fs v : getters_ok fs [] v.
Proof. constructor. Qed.

(* len_only from the spec equation (both views outside the known classes) *)
Lemma len_only_of_spec fs t st v v' :
  getters_spec fs t st v -> getters_spec fs t st v' -> view v = view v' -> getters_len_only fs t st v v'.
Proof.
  unfold getters_spec, getters_len_only. intros H. revert v'. induction H as [|ng ns t st [Hn Hs] Hr IH]; intros v' H' Hv.
  - constructor.
  - inversion H' as [|? ? ? ? [Hn' Hs'] Hr']; subst. constructor.
    + intros Hsome K K'. destruct (snd ns) as [s|] eqn:E; [|exfalso; apply Hsome; exact E].
      rewrite (Hs s eq_refl K), (Hs' s eq_refl K'), Hv. reflexivity.
    + apply IH; assumption.
Qed.

(* conditional sweeps *)
Lemma sweep256c (c : N -> bool) (f g : N -> N) :
  forallb (fun b => implb (c b) (f b =? g b)) bytes256 = true ->
  forall b, b < 256 -> c b = true -> f b = g b.
Proof.
  intros H b Hb Hc. rewrite forallb_forall in H. specialize (H b (in_bytes256 b Hb)).
  rewrite Hc in H. simpl in H. lia.
Qed.

Ltac sweepc :=
  match goal with
  | |- forall b, b < 256 -> @?c b = true -> @eq N (@?f b) (@?g b) => apply (sweep256c c f g); vm_compute; reflexivity
  end.

Global Hint Unfold known_of Ether_findings k_ether_payload : vk.

(* simplify a hypothesis [known_of fs "Name" v = false] to the arithmetic condition *)
Ltac simp_known K :=
  autounfold with vk in K;
  cbn [existsb f_pred is String.eqb Ascii.eqb Bool.eqb orb andb negb] in K.

Lemma skipn_skipn' {A} (l : list A) a b : skipn a (skipn b l) = skipn (b + a) l.
Proof.
  revert b. induction l as [|x xs IH]; intros b.
  - rewrite !skipn_nil. reflexivity.
  - destruct b as [|b]; simpl; [reflexivity|]. apply IH.
Qed.

(* ---------------------------------------------------------------- *)
(* per-getter tactics *)

Ltac unfold_getter :=
  autounfold with vg; cbn [calls]; unfold Ether_ip; unfold IP4_IHL_n, IP4_TotalLen_n, Ether_HeaderLen_n, Ether_EtherType_n,
    IP6_PayloadLen_n, HBH_Len_n, TCP_HeaderLen_n, Ether_ip; autounfold with vg; unfold rbe16, rbe32, rbyte, rbit, rsl, rfrom, rarr.

Ltac c01_fixed :=
  intros _; unfold getter_ok; unfold_getter; slices; split; [apply safe_Ok | inside_tac].
Ltac each_getter := repeat (apply Forall_cons; [cbn [fst snd] | ]); [ .. | apply Forall_nil].

Ltac byte_bounds B :=
  repeat match goal with
  | |- context [nth ?i (arr ?v) 0] =>
      lazymatch goal with
      | H : nth i (arr v) 0 < 256 |- _ => fail
      | _ => pose proof (bytes_ok_nth (arr v) i B)
      end
  end.
Ltac pow_lits :=
  repeat match goal with
  | |- context [2 ^ ?sh] => let p := eval vm_compute in (2 ^ sh) in change (2 ^ sh) with p
  end.
Ltac gen_bytes :=
  repeat match goal with
  | H : nth ?i (arr ?v) 0 < 256 |- _ => generalize dependent (nth i (arr v) 0); intros
  end.
Ltac view_fields L :=
  repeat first [ rewrite field_be_1 by (rewrite L; lia) | rewrite field_be_2 by (rewrite L; lia)
               | rewrite field_be_4 by (rewrite L; lia) ];
  repeat rewrite nth_view by lia;
  repeat rewrite sub_view by lia;
  unfold blen; try rewrite L.
Ltac strip :=
  repeat match goal with
  | |- Ok _ = Ok _ => apply f_equal
  | |- VN _ = VN _ => apply f_equal
  | |- VB _ = VB _ => apply f_equal
  | |- VX _ = VX _ => apply f_equal
  | |- VR _ _ = VR _ _ => f_equal
  end.
Ltac c02_fixed B L :=
  intros _; unfold_getter; slices;
  unfold sfield, sflag, srange, srest, scopy, sconst, sreturns, ip4_ihl, ip4_totallen, tcp_hlen, ether_type; norm_bits; view_fields L;
  cbn [len arr]; simpl Nat.add; unfold be16, be32; pow_lits; byte_bounds B;
  try reflexivity; strip; try reflexivity; try lia.

Ltac by_sweep :=
  match goal with H : ?x < 256 |- _ =>
    revert H; generalize x;
    lazymatch goal with |- context [nth _ _ _] => fail "more than one byte" | _ => idtac end;
    timeout 20 sweep end.

Ltac each_spec :=
  repeat (apply Forall2_cons;
          [cbn [fst snd sp nospec]; split; [reflexivity|];
           let s := fresh "s" in let Hs := fresh "Hs" in
           intros s Hs; first [discriminate Hs | injection Hs as <-] | ]);
  [ .. | apply Forall2_nil].

(* boolean reading of getter_ok, for refutations by computation *)
Lemma range_in_b v r : range_in v r <-> range_inb v r = true.
Proof. unfold range_in, range_inb. destruct r as [o n]; cbn [fst snd]. lia. Qed.

Lemma getter_ok_b v g : getter_ok v g -> getter_okb v g = true.
Proof.
  unfold getter_ok, getter_okb, safe, inside, insideb. intros [[Hp Hf] Hi].
  destruct (g v) as [x| | |]; cbn; try congruence.
  apply forallb_forall. intros r Hr. rewrite Forall_forall in Hi. apply range_in_b. auto.
Qed.

Lemma not_getter_ok v g : getter_okb v g = false -> ~ getter_ok v g.
Proof. intros H Hg. apply getter_ok_b in Hg. congruence. Qed.

Lemma field_be_3 l i : (i + 3 <= List.length l)%nat ->
  field_be l i 3 = (nth i l 0 * 256 + nth (i + 1) l 0) * 256 + nth (i + 2) l 0.
Proof.
  intros H. unfold field_be. rewrite (sub_cons l i 2 0) by lia. rewrite (sub_cons l (S i) 1 0) by lia.
  rewrite (sub_cons l (S (S i)) 0 0) by lia. rewrite sub_0.
  replace (i + 1)%nat with (S i) by lia. replace (i + 2)%nat with (S (S i)) by lia. reflexivity.
Qed.

Ltac view_fields L ::=
  repeat first [ rewrite field_be_1 by (rewrite L; lia) | rewrite field_be_2 by (rewrite L; lia)
               | rewrite field_be_3 by (rewrite L; lia) | rewrite field_be_4 by (rewrite L; lia) ];
  repeat rewrite nth_view by lia;
  repeat rewrite sub_view by lia;
  unfold blen; try rewrite L.

(* spec helper definitions unfolded by c02_fixed *)
Ltac unfold_spec :=
  unfold sfield, sflag, srange, srest, scopy, sconst, sreturns, srest_or_nil,
         first_lla_option, ip4_ihl, ip4_totallen, tcp_hlen, ether_type, hbh_len, llc_control.
Ltac c02_fixed B L ::=
  intros _; unfold_getter; slices;
  unfold_spec; norm_bits; view_fields L;
  cbn [len arr]; simpl Nat.add; unfold be16, be32; pow_lits; byte_bounds B;
  try reflexivity; strip; try reflexivity; try lia.

(* getters with guards: case analysis on every condition, slices re-tried in each branch *)
Ltac c01_go :=
  slices;
  first [ match goal with |- context [if ?c then _ else _] => destruct c eqn:? end; c01_go
        | split; [apply safe_Ok | inside_tac] ].
Ltac c01_gen := intros _; unfold getter_ok; unfold_getter; unfold orr, andr, lenN; c01_go.

Ltac c02_go B L :=
  slices; view_fields L; pow_lits; byte_bounds B;
  first [ match goal with |- context [if ?c then _ else _] => destruct c eqn:? end; c02_go B L
        | cbn [len arr]; repeat rewrite N.div_1_r in *;
          try reflexivity; strip; try reflexivity; try lia; try (exfalso; lia) ].
Ltac c02_gen B L :=
  intros _; unfold_getter; unfold orr, andr, lenN; unfold_spec; norm_bits;
  simpl Nat.add; unfold be16, be32; c02_go B L.

Lemma sweep256x2b (f g : N -> N -> bool) :
  forallb (fun a => forallb (fun b => Bool.eqb (f a b) (g a b)) bytes256) bytes256 = true ->
  forall a b, a < 256 -> b < 256 -> f a b = g a b.
Proof.
  intros H a b Ha Hb. rewrite forallb_forall in H. specialize (H a (in_bytes256 a Ha)).
  rewrite forallb_forall in H. specialize (H b (in_bytes256 b Hb)). apply Bool.eqb_prop. exact H.
Qed.
Ltac sweep2b :=
  match goal with
  | |- forall a b, a < 256 -> b < 256 -> @eq bool (@?f a b) (@?g a b) => apply (sweep256x2b f g); vm_compute; reflexivity
  end.

Lemma skipn_nth_cons {A} (l : list A) off d : (off < List.length l)%nat ->
  skipn off l = nth off l d :: skipn (S off) l.
Proof.
  revert off. induction l as [|x xs IH]; intros off H; simpl in H; [lia|].
  destruct off as [|off]; [reflexivity|]. simpl. apply IH. lia.
Qed.
