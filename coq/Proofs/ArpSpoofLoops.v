(* Proofs/ArpSpoofLoops.v — runs: invariants, the bound on frames already decided, StopHunt undone,
   Close stops, every hunted MAC has a running loop. *)
From PV Require Import Base.Prelude Base.Slice Model.ArpSpoof Spec.ArpSpoof Proofs.ArpSpoof.
Open Scope N_scope.

(* ---------------------------------------------------------------- *)
(* runs *)

Lemma trace_in c s evs x :
  In x (trace c s evs) -> exists s', step c (fst (fst x)) (snd (fst x)) = (s', snd x).
Proof.
  revert s. induction evs as [|e r IH]; intros s Hin; simpl in Hin; [contradiction|].
  destruct (step c s e) as [s1 out] eqn:Hs. destruct Hin as [Hin|Hin].
  - subst x. simpl. eauto.
  - eapply IH; eauto.
Qed.

Lemma final_app c s a b : final c s (a ++ b) = final c (final c s a) b.
Proof. revert s. induction a as [|e r IH]; intros s; simpl; auto. Qed.

Lemma final_inv (P : state -> Prop) (ok : event -> bool) c :
  (forall s e, P s -> ok e = true -> P (fst (step c s e))) ->
  forall evs s, P s -> forallb ok evs = true -> P (final c s evs).
Proof.
  intros Hstep evs. induction evs as [|e r IH]; intros s Hs Hok; simpl in *; auto.
  apply andb_true_iff in Hok as [H1 H2]. apply IH; auto.
Qed.

Lemma trace_inv (P : state -> Prop) (ok : event -> bool) c :
  (forall s e, P s -> ok e = true -> P (fst (step c s e))) ->
  forall evs s x, P s -> forallb ok evs = true -> In x (trace c s evs) -> P (fst (fst x)).
Proof.
  intros Hstep evs. induction evs as [|e r IH]; intros s x Hs Hok Hin; simpl in *; [contradiction|].
  apply andb_true_iff in Hok as [H1 H2].
  destruct (step c s e) as [s1 out] eqn:Est. destruct Hin as [Hin|Hin].
  - subst x. exact Hs.
  - apply (IH s1 x); auto. specialize (Hstep s e Hs H1). rewrite Est in Hstep. exact Hstep.
Qed.

(* ---------------------------------------------------------------- *)
(* C13_confined over runs *)

Theorem confined : forall c evs s e out f,
  cfg_ok c ->
  In (s, e, out) (trace c init_state evs) -> In f out -> forged c f = true ->
  caller_forged c e = true \/
  hunted s (fedst f) = true \/
  (exists i lp, e = Send i /\ nth_error (loops s) i = Some lp /\ armed_pc c (fedst f) (lpc lp) = true) \/
  (exists k, e = RxReply k /\ nth_error (rxq s) k = Some f).
Proof.
  intros c evs s e out f Hc Hin Hf Hfo.
  apply trace_in in Hin as [s' Hs]. simpl in Hs. eapply confined_step; eauto.
Qed.

(* ---------------------------------------------------------------- *)
(* the frames already decided: a potential that only a lookup made while m is hunted can raise *)

Definition forged_to (c : cfg) (m : mac) (out : list frame) : nat :=
  count (fun f => forged c f && (fedst f =? m)) out.

Definition armedp (c : cfg) (m : mac) (lp : loop) : bool := armed_pc c m (lpc lp).

Definition armedL (c : cfg) (m : mac) (s : state) : nat := count (armedp c m) (loops s).
Definition armedQ (c : cfg) (m : mac) (s : state) : nat := count (forged_for c m) (rxq s).

Lemma armed_split c m s : armed c m s = (armedL c m s + armedQ c m s)%nat.
Proof. reflexivity. Qed.

Lemma forged_to_nil c m : forged_to c m [] = 0%nat.
Proof. reflexivity. Qed.

Lemma forged_to_none c m out :
  (forall f, In f out -> forged c f = true -> fedst f <> m) -> forged_to c m out = 0%nat.
Proof.
  unfold forged_to, count. intros H. induction out as [|g r IH]; simpl; auto.
  destruct (forged c g && (fedst g =? m)) eqn:E.
  - apply andb_true_iff in E as [E1 E2]. exfalso. apply (H g); [left; auto|auto|lia].
  - apply IH. intros f Hin. apply H. right; auto.
Qed.

Local Arguments armed : simpl never.
Local Arguments armedL : simpl never.
Local Arguments armedQ : simpl never.
Local Arguments forged_to : simpl never.
Local Arguments count : simpl never.

(* the loops' part: every event except the write of a queued reply *)
Lemma step_bound_L : forall c s e m,
  cfg_ok c -> hunted s m = false -> is_start_of m e = false -> caller_forged c e = false ->
  (forall k, e <> RxReply k) ->
  (forged_to c m (snd (step c s e)) + armedL c m (fst (step c s e)) <= armedL c m s)%nat.
Proof.
  intros c s e m Hc Hh Hst Hcf Hnr.
  destruct (core_event e) eqn:Hce.
  - destruct (step_core c s e Hce) as [_ [H2 _]]. unfold armedL. rewrite H2.
    rewrite forged_to_none; [lia|]. intros f Hin Hf.
    rewrite (core_out_not_forged c s e f Hc Hce Hnr Hcf Hin) in Hf. discriminate.
  - destruct e; try discriminate; simpl in *; unfold armedL; simpl; rewrite ?forged_to_nil.
    + (* StartHunt *) unfold start_hunt. destruct (hunt_has (amac a) (hunt s)); simpl; rewrite ?forged_to_nil; [lia|].
      rewrite count_app. replace (b2n (armedp c m (mkLoop a PTop))) with 0%nat by reflexivity. lia.
    + lia.
    + lia.
    + (* Lookup *) unfold lookup. destruct (nth_error (loops s) i) as [lp|] eqn:Hl; simpl; rewrite ?forged_to_nil; [|lia].
      destruct (lpc lp) eqn:Hp; simpl; rewrite ?forged_to_nil; try lia;
        (match goal with |- context [set_pc i ?p (loops s)] =>
           pose proof (count_set_pc (armedp c m) _ _ _ p Hl) as Hcnt end);
        unfold armedp in *; simpl in Hcnt; rewrite Hp in Hcnt; simpl in Hcnt;
        (destruct (closed s); simpl in Hcnt; [lia|]);
        (destruct (hunt_find (amac (laddr lp)) (hunt s)) as [t|] eqn:Hf; simpl in Hcnt; [|lia]);
        (destruct (amac t =? m) eqn:Et; simpl in Hcnt; [|lia]);
        exfalso; apply hunt_find_some in Hf as [Hin _]; unfold hunted in Hh; rewrite hunt_has_false in Hh;
        apply (Hh t Hin); lia.
    + (* Check *) unfold check. destruct (nth_error (loops s) i) as [lp|] eqn:Hl; simpl; rewrite ?forged_to_nil; [|lia].
      destruct (lpc lp) eqn:Hp; simpl; rewrite ?forged_to_nil; try lia.
      match goal with |- context [set_pc i ?p (loops s)] =>
        pose proof (count_set_pc (armedp c m) _ _ _ p Hl) as Hcnt end.
      unfold armedp in *. simpl in Hcnt. rewrite Hp in Hcnt.
      destruct found as [t|]; simpl in Hcnt; try lia.
      * rewrite announce_forged in Hcnt. simpl in Hcnt. lia.
      * rewrite restore_not_forged in Hcnt by auto. simpl in Hcnt. lia.
    + (* Send *) unfold send. destruct (nth_error (loops s) i) as [lp|] eqn:Hl; simpl; rewrite ?forged_to_nil; [|lia].
      destruct (lpc lp) eqn:Hp; simpl; rewrite ?forged_to_nil; try lia.
      destruct (wr s f) as [[s1 o] ok] eqn:Hw. destruct (wr_state _ _ _ _ _ Hw) as [_ [W2 _]]. simpl. rewrite W2.
      assert (Ho : (forged_to c m o <= b2n (forged c f && (N.eqb (fedst f) m)))%nat).
      { destruct (wr_cases s f) as [[E _]|[k [_ E]]]; rewrite E in Hw; inversion Hw; subst; unfold forged_to, count; simpl.
        - destruct (forged c f && (fedst f =? m)); simpl; lia.
        - lia. }
      destruct cont; simpl;
        (match goal with |- context [set_pc i ?p (loops s)] =>
           pose proof (count_set_pc (armedp c m) _ _ _ p Hl) as Hcnt end);
        unfold armedp in *; simpl in Hcnt; rewrite Hp in Hcnt; simpl in Hcnt; lia.
    + lia.
Qed.

(* the queue's part: a reply is queued only for a hunted MAC *)
Lemma step_bound_Q : forall c s e m,
  hunted s m = false -> (forall k, e <> RxReply k) -> (armedQ c m (fst (step c s e)) <= armedQ c m s)%nat.
Proof.
  intros c s e m Hh Hnr. unfold armedQ.
  assert (Hq : forall p, (count (forged_for c m) (rxq (fst (rx_arp c s p))) <= count (forged_for c m) (rxq s))%nat).
  { intros p. destruct (rx_arp_queue c s p) as [E|[[Hp E]|[Hnf E]]]; rewrite E; [lia| |].
    - rewrite count_app. unfold forged_for at 2, spoof_reply. simpl.
      destruct (psmac p =? m) eqn:Q; [|rewrite andb_false_r; simpl; lia].
      assert (psmac p = m) by lia. subst. congruence.
    - rewrite count_app. unfold forged_for at 2. rewrite Hnf. simpl. lia. }
  pose proof (step_rxq c s e) as G.
  destruct e as [a| |m0| |i|i|i|p|kr|et b|m1 o|kf|ip|dst ip|ip|dst ip|dst sn tg|dst sn tg| |j|j|ip n| ];
    try (rewrite G; lia).
  - apply Hq.
  - exfalso. apply (Hnr kr). reflexivity.
  - destruct (rx_raw_cases c s et b) as [E|[p E]]; simpl in E; simpl; rewrite E; [simpl; lia|apply Hq].
Qed.

Lemma step_bound : forall c s e m,
  cfg_ok c -> hunted s m = false -> is_start_of m e = false -> caller_forged c e = false ->
  (forged_to c m (snd (step c s e)) + armed c m (fst (step c s e)) <= armed c m s)%nat.
Proof.
  intros c s e m Hc Hh Hst Hcf. rewrite !armed_split.
  destruct e as [a| |m0| |i|i|i|p|kr|et b|m1 o|kf|ip|dst ip|ip|dst ip|dst sn tg|dst sn tg| |j|j|ip n| ];
    try (match goal with |- context [step c s ?ev] =>
           pose proof (step_bound_L c s ev m Hc Hh Hst Hcf ltac:(intros k0; discriminate)) as B1;
           pose proof (step_bound_Q c s ev m Hh ltac:(intros k0; discriminate)) as B2 end; lia).
  (* RxReply kr *)
  destruct (rx_reply_spec s kr) as [H0 [_ [H2 [_ [_ H6]]]]]. simpl.
  unfold armedL, armedQ. rewrite H2, H6.
  destruct (nth_error (rxq s) kr) as [f|] eqn:Hk.
  - pose proof (count_remove_nth (forged_for c m) (rxq s) kr f Hk) as Hcnt.
    assert (Ho : (forged_to c m (snd (rx_reply s kr)) <= b2n (forged_for c m f))%nat).
    { unfold rx_reply. rewrite Hk. destruct (wr_cases s f) as [[E _]|[k0 [_ E]]]; rewrite E; simpl;
        unfold forged_to, count; simpl; [unfold forged_for; destruct (forged c f && (fedst f =? m)); simpl; lia|lia]. }
    lia.
  - unfold rx_reply. rewrite Hk. simpl. unfold forged_to, count. simpl. lia.
Qed.

(* total number of forged frames addressed to m that the handler emits on its own along a run *)
Fixpoint forged_total (c : cfg) (m : mac) (tr : list (state * event * list frame)) : nat :=
  match tr with
  | [] => 0%nat
  | (_, e, out) :: r => ((if caller_forged c e then 0 else forged_to c m out) + forged_total c m r)%nat
  end.

Theorem stale_bound : forall c m evs s,
  cfg_ok c -> hunted s m = false -> none_of (is_start_of m) evs ->
  (forged_total c m (trace c s evs) + armed c m (final c s evs) <= armed c m s)%nat.
Proof.
  intros c m evs. induction evs as [|e r IH]; intros s Hc Hh Hns; simpl; [lia|].
  unfold none_of in Hns. simpl in Hns. apply andb_true_iff in Hns as [H1 H2]. apply negb_true_iff in H1.
  destruct (step c s e) as [s1 out] eqn:Hs. simpl.
  assert (Hh1 : hunted s1 m = false).
  { pose proof (step_unhunted c s e m H1 Hh) as G. rewrite Hs in G. exact G. }
  specialize (IH s1 Hc Hh1 H2).
  replace (final c (fst (step c s e)) r) with (final c s1 r) by (rewrite Hs; reflexivity).
  destruct (caller_forged c e) eqn:Hcf.
  - (* the caller's own forgery is not counted; the potential does not grow *)
    assert (Hle : (armed c m s1 <= armed c m s)%nat).
    { assert (Hce : core_event e = true) by (destruct e; try discriminate; reflexivity).
      destruct (step_core c s e Hce) as [_ [HL _]]. pose proof (step_rxq c s e) as HQ.
      rewrite Hs in HL. simpl in HL.
      assert (HQ' : rxq s1 = rxq s) by (destruct e; try discriminate; rewrite Hs in HQ; exact HQ).
      unfold armed. rewrite HL, HQ'. lia. }
    lia.
  - pose proof (step_bound c s e m Hc Hh H1 Hcf) as B. rewrite Hs in B. simpl in B. lia.
Qed.

(* ---------------------------------------------------------------- *)
(* one loop, step by step *)

Definition looked_pc (s : state) (a : addr) : pc :=
  if closed s then PDone else PLooked (hunt_find (amac a) (hunt s)).

Lemma lookup_step c s i a p :
  loop_at s i a p -> at_select p = true ->
  step c s (Lookup i) = (set_loops s (set_pc i (looked_pc s a) (loops s)), []) /\
  loop_at (fst (step c s (Lookup i))) i a (looked_pc s a).
Proof.
  unfold loop_at, looked_pc. intros Hl Hp. simpl. unfold lookup. rewrite Hl. simpl.
  destruct p; try discriminate; (split; [reflexivity|]); simpl; apply (set_pc_same _ _ _ _ Hl).
Qed.

Definition checked_pc (c : cfg) (a : addr) (found : option addr) : pc :=
  match found with
  | Some target => PSend (announce c (amac target)) true
  | None => PSend (restore c (amac a)) false
  end.

Lemma check_step c s i a found :
  loop_at s i a (PLooked found) ->
  step c s (Check i) = (set_loops s (set_pc i (checked_pc c a found) (loops s)), []) /\
  loop_at (fst (step c s (Check i))) i a (checked_pc c a found).
Proof.
  unfold loop_at, checked_pc. intros Hl. simpl. unfold check. rewrite Hl. simpl.
  split; [destruct found; reflexivity|]. simpl. destruct found; apply (set_pc_same _ _ _ _ Hl).
Qed.

Lemma send_step s i a f cont c :
  loop_at s i a (PSend f cont) ->
  exists s', step c s (Send i) = (s', if Nat.eqb (failn s) 0 then [f] else []) /\
    loop_at s' i a (if cont then PWait else PDone) /\
    hunt s' = hunt s /\ closed s' = closed s.
Proof.
  unfold loop_at. intros Hl. simpl. unfold send. rewrite Hl. simpl.
  destruct (wr_cases s f) as [[E E0]|[k [E0 E]]]; rewrite E, E0; simpl.
  - eexists. split; [reflexivity|]. split; [|auto]. apply (set_pc_same _ _ _ _ Hl).
  - eexists. split; [reflexivity|]. split; [|auto]. simpl. apply (set_pc_same _ _ _ _ Hl).
Qed.

(* events of others leave loop i where it is *)
Lemma others_keep c i a p evs : forall s,
  loop_at s i a p -> none_of (is_loop_event i) evs -> loop_at (final c s evs) i a p.
Proof.
  intros s Hl Hn.
  apply (final_inv (fun s => loop_at s i a p) (fun e => negb (is_loop_event i e)) c); auto.
  intros s' e H He. apply negb_true_iff in He. unfold loop_at in *. apply step_loop_kept; auto.
Qed.

Lemma closed_kept c evs : forall s, none_of is_close evs -> closed (final c s evs) = closed s.
Proof.
  intros s Hn.
  apply (final_inv (fun s' => closed s' = closed s) (fun e => negb (is_close e)) c); auto.
  intros s' e H He. apply negb_true_iff in He. rewrite step_closed; auto.
Qed.

Lemma unhunted_kept c m evs : forall s,
  hunted s m = false -> none_of (is_start_of m) evs -> hunted (final c s evs) m = false.
Proof.
  intros s Hh Hn.
  apply (final_inv (fun s' => hunted s' m = false) (fun e => negb (is_start_of m e)) c); auto.
  intros s' e H He. apply negb_true_iff in He. apply step_unhunted; auto.
Qed.

(* ---------------------------------------------------------------- *)
(* C13_stop_undone, interleaved *)

(* After StopHunt (m not hunted), once loop i stands at its select: its next iteration — lookup, check, write,
   with ANY events of others in between (no Close before the check, no StartHunt of m before the lookup) —
   hands the connection exactly the restoring packet and the loop has returned. *)
Theorem stop_undone : forall c s1 a i p x1 x2 x3,
  cfg_ok c ->
  loop_at s1 i a p -> at_select p = true -> closed s1 = false -> hunted s1 (amac a) = false ->
  none_of (is_loop_event i) x1 -> none_of is_close x1 -> none_of (is_start_of (amac a)) x1 ->
  none_of (is_loop_event i) x2 ->
  none_of (is_loop_event i) x3 ->
  let s4 := final c s1 (x1 ++ [Lookup i] ++ x2 ++ [Check i] ++ x3) in
  loop_at s4 i a (PSend (restore c (amac a)) false) /\
  exists s5,
    step c s4 (Send i) = (s5, if Nat.eqb (failn s4) 0 then [restore c (amac a)] else []) /\
    loop_at s5 i a PDone.
Proof.
  intros c s1 a i p x1 x2 x3 Hc Hl Hp Hcl Hh N1 C1 S1 N2 N3 s4.
  set (sa := final c s1 x1).
  assert (Hla : loop_at sa i a p) by (apply others_keep; auto).
  assert (Hca : closed sa = false) by (unfold sa; rewrite closed_kept; auto).
  assert (Hha : hunted sa (amac a) = false) by (apply unhunted_kept; auto).
  destruct (lookup_step c sa i a p Hla Hp) as [_ Hlb].
  assert (Hf : hunt_find (amac a) (hunt sa) = None) by (apply hunt_find_none; exact Hha).
  unfold looked_pc in Hlb. rewrite Hca, Hf in Hlb.
  set (sb := fst (step c sa (Lookup i))) in *.
  set (sc := final c sb x2).
  assert (Hlc : loop_at sc i a (PLooked None)) by (apply others_keep; auto).
  destruct (check_step c sc i a None Hlc) as [_ Hld]. unfold checked_pc in Hld.
  set (sd := fst (step c sc (Check i))) in *.
  assert (Hs4 : s4 = final c sd x3).
  { unfold s4, sd, sc, sb, sa. rewrite !final_app. simpl. reflexivity. }
  assert (Hl4 : loop_at s4 i a (PSend (restore c (amac a)) false)) by (rewrite Hs4; apply others_keep; auto).
  split; [exact Hl4|].
  destruct (send_step s4 i a _ _ c Hl4) as [s5 [E [L _]]]. exists s5. auto.
Qed.

(* whatever loop i was doing when StopHunt returned, two steps of its own bring it to its select (or end it),
   having handed the connection at most one frame *)
Theorem iteration_completes : forall c s i a p,
  loop_at s i a p ->
  match p with
  | PLooked _ =>
      exists q, loop_at (fst (step c s (Check i))) i a q /\ snd (step c s (Check i)) = [] /\
                (is_done q = true \/ exists f cont, q = PSend f cont)
  | PSend f cont =>
      exists q, loop_at (fst (step c s (Send i))) i a q /\ (at_select q = true \/ is_done q = true) /\
                (snd (step c s (Send i)) = [f] \/ snd (step c s (Send i)) = [])
  | _ => True
  end.
Proof.
  intros c s i a p Hl. destruct p; auto.
  - destruct (check_step c s i a found Hl) as [E L]. eexists. split; [exact L|]. rewrite E. split; auto.
    destruct found; destruct (closed s); simpl; eauto.
  - destruct (send_step s i a f cont c Hl) as [s' [E [L _]]]. rewrite E. simpl. eexists. split; [exact L|].
    split.
    + destruct cont; simpl; auto.
    + destruct (Nat.eqb (failn s) 0); auto.
Qed.

(* ---------------------------------------------------------------- *)
(* C13_close_stops, interleaved *)

(* past its lock section (lookup + read of h.closed), not yet through its write *)
Definition in_flight (lp : loop) : bool := match lpc lp with PLooked _ | PSend _ _ => true | _ => false end.
Definition scan_decided (x : scan) : bool := match sdec x with Some _ => true | None => false end.
(* what is already decided but not yet written: loops between their lock section and their write, replies in
   flight, scans that have passed their h.closed test *)
Definition pendingL (s : state) : nat := count in_flight (loops s).
Definition pendingS (s : state) : nat := count scan_decided (scans s).
Definition pending (s : state) : nat := (pendingL s + List.length (rxq s) + pendingS s)%nat.

Local Arguments pending : simpl never.
Local Arguments pendingL : simpl never.
Local Arguments pendingS : simpl never.
Local Arguments count : simpl never.

Lemma pending_split s : pending s = (pendingL s + List.length (rxq s) + pendingS s)%nat.
Proof. reflexivity. Qed.

Lemma count_set_scan (P : scan -> bool) l j x y :
  nth_error l j = Some x -> (count P (set_scan j y l) + b2n (P x) = count P l + b2n (P y))%nat.
Proof. intros H. unfold set_scan. rewrite H. apply count_set_nth. exact H. Qed.

(* the handler's own events and the steps of a Scan: everything but the caller's direct send calls *)
Definition counts_after_close (e : event) : bool := negb (is_api_send e) || is_scan_step e.

(* once closed: whatever still goes to the connection was decided before, one frame per decision *)
Lemma closed_step_bound c s e :
  closed s = true -> counts_after_close e = true ->
  (List.length (snd (step c s e)) + pending (fst (step c s e)) <= pending s)%nat.
Proof.
  intros Hc Ha. rewrite !pending_split.
  pose proof (step_rxq c s e) as HQ. pose proof (step_scans c s e) as HS.
  destruct e as [a| |m0| |i|i|i|p|kr|et b|m1 o|kf|ip|dst ip|ip|dst ip|dst sn tg|dst sn tg| |j|j|ip n| ];
    try discriminate; unfold pendingL, pendingS; try rewrite HQ; try rewrite HS; simpl.
  - unfold start_hunt. destruct (hunt_has _ _); simpl; [lia|]. rewrite count_app. simpl. lia.
  - lia.
  - lia.
  - lia.
  - unfold lookup. destruct (nth_error (loops s) i) as [lp|] eqn:Hl; simpl; [|lia].
    destruct (lpc lp) eqn:Hp; simpl; try lia; rewrite Hc;
      (match goal with |- context [set_pc i ?p (loops s)] =>
         pose proof (count_set_pc in_flight _ _ _ p Hl) as Hcnt end);
      unfold in_flight in *; simpl in Hcnt; rewrite Hp in Hcnt; simpl in Hcnt; lia.
  - unfold check. destruct (nth_error (loops s) i) as [lp|] eqn:Hl; simpl; [|lia].
    destruct (lpc lp) eqn:Hp; simpl; try lia.
    (match goal with |- context [set_pc i ?p (loops s)] =>
         pose proof (count_set_pc in_flight _ _ _ p Hl) as Hcnt end).
    unfold in_flight in *. simpl in Hcnt. rewrite Hp in Hcnt.
    destruct found; simpl in Hcnt; lia.
  - unfold send. destruct (nth_error (loops s) i) as [lp|] eqn:Hl; simpl; [|lia].
    destruct (lpc lp) eqn:Hp; simpl; try lia.
    destruct (wr s f) as [[s1 o] ok] eqn:Hw. destruct (wr_state _ _ _ _ _ Hw) as [_ [W2 _]]. simpl. rewrite W2.
    assert (Ho : (List.length o <= 1)%nat).
    { destruct (wr_cases s f) as [[E _]|[k [_ E]]]; rewrite E in Hw; inversion Hw; subst; simpl; lia. }
    destruct cont; simpl;
      (match goal with |- context [set_pc i ?p (loops s)] =>
         pose proof (count_set_pc in_flight _ _ _ p Hl) as Hcnt end);
      unfold in_flight in *; simpl in Hcnt; rewrite Hp in Hcnt; simpl in Hcnt; lia.
  - (* RxArp: a closed handler ignores the packet *)
    unfold rx_arp. rewrite Hc. simpl. lia.
  - (* RxReply: the write of a reply in flight *)
    destruct (rx_reply_spec s kr) as [_ [_ [H2 [_ [_ H6]]]]]. rewrite H2, H6.
    unfold rx_reply. destruct (nth_error (rxq s) kr) as [f|] eqn:Hk; simpl; [|lia].
    pose proof (length_remove_nth (rxq s) kr f Hk) as Hlen.
    destruct (wr_cases s f) as [[E _]|[k0 [_ E]]]; rewrite E; simpl; lia.
  - (* RxRaw *)
    destruct (rx_raw_cases c s et b) as [E|[p E]]; simpl in E; rewrite E; simpl; [lia|].
    unfold rx_arp. rewrite Hc. simpl. lia.
  - lia.
  - lia.
  - (* ScanCheck: closed, so nothing is decided any more *)
    destruct (scan_check_spec c s j) as [E [_ [H2 _]]]. rewrite E, H2. simpl.
    unfold pendingS, scan_check. destruct (nth_error (scans s) j) as [[ips d]|] eqn:Hj; simpl; [|lia].
    destruct ips as [|ip0 r]; simpl; [lia|]. destruct d; simpl; [lia|].
    destruct ((ip0 =? router_ip c) || (ip0 =? host_ip c)); [|rewrite Hc]; simpl;
      (match goal with |- context [set_scan j ?y (scans s)] =>
         pose proof (count_set_scan scan_decided _ _ _ y Hj) as Hcnt end);
      unfold scan_decided in *; simpl in Hcnt; lia.
  - (* ScanSend: the request already decided *)
    destruct (scan_send_spec c s j) as [_ [_ [H2 _]]]. rewrite H2.
    unfold pendingS, scan_send. destruct (nth_error (scans s) j) as [[ips d]|] eqn:Hj; simpl; [|lia].
    destruct d as [ip0|]; simpl; [|lia].
    destruct (wr s (request_to c MAC_BCAST ip0)) as [[s1 o] ok] eqn:Hw.
    destruct (wr_state2 _ _ _ _ _ Hw) as [_ W6]. simpl. rewrite W6.
    assert (Ho : (List.length o <= 1)%nat).
    { destruct (wr_cases s (request_to c MAC_BCAST ip0)) as [[E _]|[k [_ E]]]; rewrite E in Hw; inversion Hw; subst; simpl; lia. }
    (match goal with |- context [set_scan j ?y (scans s)] =>
       pose proof (count_set_scan scan_decided _ _ _ y Hj) as Hcnt end).
    unfold scan_decided in *. simpl in Hcnt. lia.
Qed.

Fixpoint own_frames (tr : list (state * event * list frame)) : nat :=
  match tr with
  | [] => 0%nat
  | (_, e, out) :: r => ((if counts_after_close e then List.length out else 0) + own_frames r)%nat
  end.

(* the caller's direct send calls decide nothing for later *)
Lemma api_keeps_pending c s e : counts_after_close e = false -> pending (fst (step c s e)) = pending s.
Proof.
  intros Ha. rewrite !pending_split.
  assert (Hce : core_event e = true) by (destruct e; try discriminate; reflexivity).
  destruct (step_core c s e Hce) as [_ [HL _]]. pose proof (step_rxq c s e) as HQ. pose proof (step_scans c s e) as HS.
  unfold pendingL, pendingS. rewrite HL.
  destruct e; try discriminate; try (rewrite HQ, HS; reflexivity).
  (* ApiScan: a new scan that has decided nothing yet *)
  rewrite HQ. simpl. rewrite count_app. simpl. lia.
Qed.

Theorem close_bound : forall c evs s,
  closed s = true -> (own_frames (trace c s evs) + pending (final c s evs) <= pending s)%nat.
Proof.
  intros c evs. induction evs as [|e r IH]; intros s Hc; simpl; [lia|].
  destruct (step c s e) as [s1 out] eqn:Hs. simpl.
  assert (Hc1 : closed s1 = true).
  { pose proof (step_closed_mono c s e Hc) as G. rewrite Hs in G. exact G. }
  specialize (IH s1 Hc1).
  replace (final c (fst (step c s e)) r) with (final c s1 r) by (rewrite Hs; reflexivity).
  destruct (counts_after_close e) eqn:Ha.
  - pose proof (closed_step_bound c s e Hc Ha) as B. rewrite Hs in B. simpl in B. lia.
  - pose proof (api_keeps_pending c s e Ha) as G. rewrite Hs in G. simpl in G. lia.
Qed.

(* once closed, a loop at its select ends at its next pass through the lock section, silently, whatever others
   do before (h.closed is read together with the lookup) *)
Theorem close_ends_loop : forall c s a i p x1,
  closed s = true -> loop_at s i a p -> at_select p = true ->
  none_of (is_loop_event i) x1 ->
  let sa := final c s x1 in
  snd (step c sa (Lookup i)) = [] /\ loop_at (fst (step c sa (Lookup i))) i a PDone.
Proof.
  intros c s a i p x1 Hc Hl Hp N1 sa.
  assert (Hla : loop_at sa i a p) by (apply others_keep; auto).
  assert (Hca : closed sa = true).
  { apply (final_inv (fun s' => closed s' = true) (fun _ => true) c); auto.
    - intros s' e H _. apply step_closed_mono; auto.
    - apply forallb_forall; auto. }
  destruct (lookup_step c sa i a p Hla Hp) as [E Hlb]. unfold looked_pc in Hlb. rewrite Hca in Hlb.
  split; [rewrite E; reflexivity|exact Hlb].
Qed.

(* a loop that has returned stays returned and silent *)
Lemma done_stays c s e i a p :
  loop_at s i a p -> is_done p = true ->
  loop_at (fst (step c s e)) i a p /\ (is_loop_event i e = true -> snd (step c s e) = []).
Proof.
  unfold loop_at. intros Hl Hd. destruct (is_loop_event i e) eqn:E.
  - destruct e; try discriminate; simpl in E; apply Nat.eqb_eq in E; subst i0; simpl.
    + unfold lookup. rewrite Hl. destruct p; try discriminate; simpl; auto.
    + unfold check. rewrite Hl. destruct p; try discriminate; simpl; auto.
    + unfold send. rewrite Hl. destruct p; try discriminate; simpl; auto.
  - split; [apply step_loop_kept; auto | discriminate].
Qed.

(* ---------------------------------------------------------------- *)
(* "periodically while hunted": while the handler is open every hunted MAC has a loop of its own that is
   running and has not decided to stop *)

Definition healthy (p : pc) : bool :=
  match p with
  | PTop | PWait | PLooked (Some _) | PSend _ true => true
  | _ => false
  end.

Definition covered (s : state) : Prop :=
  closed s = false -> forall m, hunted s m = true ->
  exists i a p, loop_at s i a p /\ amac a = m /\ healthy p = true.

Lemma covered_step c s e : covered s -> covered (fst (step c s e)).
Proof.
  intros Hcov Hc' m Hm.
  assert (Hc : closed s = false).
  { destruct (closed s) eqn:E; auto. rewrite (step_closed_mono c s e E) in Hc'. discriminate. }
  specialize (Hcov Hc).
  (* events that touch neither the hunt list nor the loops *)
  assert (Hsame : hunt (fst (step c s e)) = hunt s -> loops (fst (step c s e)) = loops s ->
                  exists i a p, loop_at (fst (step c s e)) i a p /\ amac a = m /\ healthy p = true).
  { intros H1 H2. unfold hunted in Hm. rewrite H1 in Hm. destruct (Hcov m Hm) as [i [a [p [Hl H]]]].
    exists i, a, p. split; auto. unfold loop_at. rewrite H2. exact Hl. }
  destruct (core_event e) eqn:Hce.
  - destruct (step_core c s e Hce) as [H1 [H2 _]]. apply Hsame; auto.
  - destruct e; try discriminate; simpl in *; try (apply Hsame; reflexivity).
    + (* StartHunt *)
      unfold start_hunt in *. destruct (hunt_has (amac a) (hunt s)) eqn:Hh; simpl in *; [apply Hsame; reflexivity|].
      unfold hunted in Hm. simpl in Hm. rewrite hunt_has_app in Hm. apply orb_true_iff in Hm as [Hm|Hm].
      * destruct (Hcov m Hm) as [i [a0 [p [Hl H]]]]. exists i, a0, p. split; auto.
        unfold loop_at in *. simpl. apply nth_error_app_l. exact Hl.
      * exists (List.length (loops s)), a, PTop. split; [|split; [lia|reflexivity]].
        unfold loop_at. simpl. rewrite nth_error_app2 by lia. rewrite Nat.sub_diag. reflexivity.
    + (* StopHunt *)
      unfold hunted in Hm. simpl in Hm.
      assert (Hm' : hunt_has m (hunt s) = true).
      { destruct (N.eq_dec m m0) as [->|Hne]; [rewrite hunt_has_del_same in Hm; discriminate|].
        rewrite hunt_has_del_other in Hm; auto. }
      destruct (Hcov m Hm') as [i [a0 [p [Hl H]]]]. exists i, a0, p. split; auto.
    + (* Lookup *)
      unfold hunted in Hm. destruct (lookup_state s i) as [Hh _]. rewrite Hh in Hm.
      destruct (Hcov m Hm) as [j [a0 [p [Hl [Ha Hp]]]]].
      destruct (Nat.eq_dec i j) as [->|Hne].
      * unfold lookup, loop_at in *. rewrite Hl. simpl.
        destruct p; try discriminate; simpl; try (exists j, a0; eexists; split; [exact Hl|auto]).
        -- exists j, a0. eexists. split; [apply (set_pc_same _ _ _ _ Hl)|]. split; auto. rewrite Hc. simpl.
          destruct (hunt_find (amac a0) (hunt s)) eqn:Hf; auto. apply hunt_find_none in Hf. rewrite Ha in Hf. congruence.
        -- exists j, a0. eexists. split; [apply (set_pc_same _ _ _ _ Hl)|]. split; auto. rewrite Hc. simpl.
          destruct (hunt_find (amac a0) (hunt s)) eqn:Hf; auto. apply hunt_find_none in Hf. rewrite Ha in Hf. congruence.
      * exists j, a0, p. split; auto. unfold loop_at in *. apply (step_loop_kept c s (Lookup i)); auto.
        simpl. apply Nat.eqb_neq. auto.
    + (* Check *)
      unfold hunted in Hm. destruct (check_state c s i) as [Hh _]. rewrite Hh in Hm.
      destruct (Hcov m Hm) as [j [a0 [p [Hl [Ha Hp]]]]].
      destruct (Nat.eq_dec i j) as [->|Hne].
      * unfold check, loop_at in *. rewrite Hl. simpl.
        destruct p; try discriminate; simpl; try (exists j, a0; eexists; split; [exact Hl|auto]).
        destruct found as [t|]; try discriminate.
        exists j, a0. eexists. split; [apply (set_pc_same _ _ _ _ Hl)|]. auto.
      * exists j, a0, p. split; auto. unfold loop_at in *. apply (step_loop_kept c s (Check i)); auto.
        simpl. apply Nat.eqb_neq. auto.
    + (* Send *)
      unfold hunted in Hm. destruct (send_state s i) as [Hh _]. rewrite Hh in Hm.
      destruct (Hcov m Hm) as [j [a0 [p [Hl [Ha Hp]]]]].
      destruct (Nat.eq_dec i j) as [->|Hne].
      * destruct p; try discriminate; try (unfold send, loop_at in *; rewrite Hl; simpl; exists j, a0; eexists; split; [exact Hl|auto]).
        destruct cont; try discriminate.
        destruct (send_step s j a0 f true c Hl) as [s' [E [L _]]]. simpl in E. rewrite E. simpl.
        exists j, a0, PWait. auto.
      * exists j, a0, p. split; auto. unfold loop_at in *. apply (step_loop_kept c s (Send i)); auto.
        simpl. apply Nat.eqb_neq. auto.
Qed.

Theorem hunted_has_loop : forall c evs m,
  let s := final c init_state evs in
  closed s = false -> hunted s m = true ->
  exists i a p, loop_at s i a p /\ amac a = m /\ healthy p = true.
Proof.
  intros c evs m s Hc Hm.
  assert (Hcov : covered s).
  { unfold s. apply (final_inv covered (fun _ => true) c).
    - intros s' e H _. apply covered_step; auto.
    - intros _ m' H'. discriminate.
    - apply forallb_forall. auto. }
  exact (Hcov Hc m Hm).
Qed.

(* a loop at its select whose MAC is hunted: its next iteration (others interleaving, no StopHunt of that MAC
   before the lookup, no Close before the lookup) hands the connection the forged announcement for exactly that
   MAC and the loop goes back to its select — also when the write is refused *)
Theorem periodic_announce : forall c s a i p x1 x2 x3,
  loop_at s i a p -> at_select p = true -> closed s = false ->
  hunted (final c s x1) (amac a) = true ->
  none_of (is_loop_event i) x1 -> none_of is_close x1 ->
  none_of (is_loop_event i) x2 ->
  none_of (is_loop_event i) x3 ->
  let s4 := final c s (x1 ++ [Lookup i] ++ x2 ++ [Check i] ++ x3) in
  exists s5,
    step c s4 (Send i) = (s5, if Nat.eqb (failn s4) 0 then [announce c (amac a)] else []) /\
    loop_at s5 i a PWait.
Proof.
  intros c s a i p x1 x2 x3 Hl Hp Hcl Hh N1 C1 N2 N3 s4.
  set (sa := final c s x1) in *.
  assert (Hla : loop_at sa i a p) by (apply others_keep; auto).
  assert (Hca : closed sa = false) by (unfold sa; rewrite closed_kept; auto).
  destruct (lookup_step c sa i a p Hla Hp) as [_ Hlb]. unfold looked_pc in Hlb. rewrite Hca in Hlb.
  destruct (hunt_find (amac a) (hunt sa)) as [t|] eqn:Hf; [|apply hunt_find_none in Hf; unfold hunted in Hh; congruence].
  apply hunt_find_some in Hf as [_ Ht].
  set (sb := fst (step c sa (Lookup i))) in *.
  set (sc := final c sb x2).
  assert (Hlc : loop_at sc i a (PLooked (Some t))) by (apply others_keep; auto).
  destruct (check_step c sc i a (Some t) Hlc) as [_ Hld]. unfold checked_pc in Hld. rewrite Ht in Hld.
  set (sd := fst (step c sc (Check i))) in *.
  assert (Hs4 : s4 = final c sd x3).
  { unfold s4, sd, sc, sb, sa. rewrite !final_app. simpl. reflexivity. }
  assert (Hl4 : loop_at s4 i a (PSend (announce c (amac a)) true)) by (rewrite Hs4; apply others_keep; auto).
  destruct (send_step s4 i a _ _ c Hl4) as [s5 [E [L _]]]. exists s5. auto.
Qed.

(* ---------------------------------------------------------------- *)
(* StartHunt *)

Theorem start_idempotent : forall c s a,
  hunted s (amac a) = true -> step c s (StartHunt a) = (s, []).
Proof. intros c s a H. simpl. unfold start_hunt. unfold hunted in H. rewrite H. reflexivity. Qed.

Theorem start_fresh : forall c s a,
  hunted s (amac a) = false ->
  exists s', step c s (StartHunt a) = (s', []) /\ hunted s' (amac a) = true /\
             loops s' = loops s ++ [mkLoop a PTop] /\ closed s' = closed s.
Proof.
  intros c s a H. simpl. unfold start_hunt. unfold hunted in H. rewrite H.
  eexists. split; [reflexivity|]. simpl. split; auto.
  unfold hunted. simpl. rewrite hunt_has_app, N.eqb_refl. apply orb_true_r.
Qed.
