(* Proofs/SendBase.v — tactics and small lemmas for the send-path proofs (C07).

   Method: the pooled buffer (arbitrary junk) is split into a prefix as long as the
   frame and a rest; prefix, MACs and IP addresses are exploded into their bytes
   (their lengths are hypotheses), after which [cbn] evaluates the encoder
   composition and the reference decoder symbolically.  N arithmetic is
   [simpl nomatch] here (closed terms such as [hi8 2054] compute, terms with a
   variable stay folded); the checksum functions stay opaque to [cbn] and are
   discharged with the C15 lemmas. *)
From PV Require Export Base.Prelude Model.Checksum Model.SendBase Spec.OnesComplement Spec.SendRef Proofs.Checksum.
Open Scope N_scope.

Global Arguments N.add : simpl nomatch.
Global Arguments N.mul : simpl nomatch.
Global Arguments N.sub : simpl nomatch.
Global Arguments N.div : simpl nomatch.
Global Arguments N.modulo : simpl nomatch.
Global Arguments N.eqb : simpl nomatch.
Global Arguments N.leb : simpl nomatch.
Global Arguments N.ltb : simpl nomatch.
Global Arguments N.land : simpl nomatch.
Global Arguments checksum : simpl never.
Global Arguments ip4_calc_checksum : simpl never.
Global Arguments verifiesb : simpl never.
Global Arguments poison : simpl never.

Definition mac_ok (m : bytes) : Prop := length m = 6%nat /\ bytes_ok m.
Definition ip4_ok (a : bytes) : Prop := length a = 4%nat /\ bytes_ok a.
Definition ip6_ok (a : bytes) : Prop := length a = 16%nat /\ bytes_ok a.

(* l has a known small length: replace it by its elements *)
Ltac explode l H :=
  repeat (destruct l as [|? l]; [discriminate H|]; simpl in H; apply Nat.succ_inj in H);
  destruct l; [|discriminate H]; clear H.

Ltac inv_ok H :=
  unfold bytes_ok in H;
  repeat (apply Forall_cons_iff in H; let h := fresh "Hb" in destruct H as [h H]); clear H.

Ltac explode_ok l H := let Hl := fresh in let Hk := fresh in destruct H as [Hl Hk]; explode l Hl; inv_ok Hk.

Lemma split_at {A} n (l : list A) : (n <= length l)%nat -> exists a b, l = a ++ b /\ length a = n.
Proof.
  intros H. exists (firstn n l), (skipn n l). split.
  - symmetry; apply firstn_skipn.
  - rewrite firstn_length; lia.
Qed.

Lemma beq_refl l : beq l l = true.
Proof. induction l; simpl; auto. rewrite N.eqb_refl. auto. Qed.

Lemma beq_eq a b : beq a b = true -> a = b.
Proof.
  revert b; induction a as [|x a IH]; intros [|y b] H; simpl in H; try discriminate; auto.
  apply andb_true_iff in H. destruct H as [H1 H2]. apply N.eqb_eq in H1. subst. f_equal. auto.
Qed.

(* be16 of the two bytes PutUint16 writes *)
Lemma be16_hi_lo v : v < 65536 -> (v / 256) mod 256 * 256 + v mod 256 = v.
Proof. intros. lia. Qed.

Lemma verifiesb_true b : verifies b -> verifiesb b = true.
Proof. unfold verifies, verifiesb. intros ->. reflexivity. Qed.

Lemma hi8_lt v : (v / 256) mod 256 < 256. Proof. lia. Qed.
Lemma lo8_lt v : v mod 256 < 256. Proof. lia. Qed.

Ltac ok_list := unfold bytes_ok; repeat (apply Forall_cons || apply Forall_nil); try assumption; try lia.

(* ---------------------------------------------------------------- *)
(* symbolic evaluation tactics *)
Ltac posnat := repeat match goal with |- context [Pos.to_nat ?p] =>
  let v := eval vm_compute in (Pos.to_nat p) in change (Pos.to_nat p) with v end.
Ltac run := cbn; repeat (progress posnat; cbn).
Ltac eqbs := repeat rewrite N.eqb_refl; cbn [andb]; try reflexivity.
Ltac w16_ok := unfold w16, be16, hi8, lo8; cbn [nth]; rewrite be16_hi_lo by assumption; apply N.eqb_refl.
Ltac oks := unfold hi8, lo8, u8; ok_list.
(* the checksum bytes are atoms while the decoder is evaluated *)
Ltac abs_cks := repeat match goal with
  | |- context [u8 (N.shiftr (checksum ?x) 8)] => let k := fresh "ck" in set (k := u8 (N.shiftr (checksum x) 8))
  | |- context [u8 (checksum ?x)] => let k := fresh "ck" in set (k := u8 (checksum x))
  | |- context [u8 (N.shiftr (ip4_calc_checksum ?x) 8)] => let k := fresh "ck" in set (k := u8 (N.shiftr (ip4_calc_checksum x) 8))
  | |- context [u8 (ip4_calc_checksum ?x)] => let k := fresh "ck" in set (k := u8 (ip4_calc_checksum x))
  end.
Ltac unabs := repeat match goal with k := _ |- _ => subst k end.
Ltac ip4_cks := unfold ip4_hdr_cks_ok; run; unabs; apply verifiesb_true;
  match goal with |- verifies ?L =>
    let p := eval cbn [set_nth] in (set_nth 10 0 (set_nth 11 0 L)) in
    change (verifies (ip4_store_checksum p)) end;
  apply ip4_header_verifies; [oks | reflexivity].
Ltac icmp4_cks := unfold icmp4_cks_ok; run; unabs; apply verifiesb_true;
  match goal with |- verifies ?L =>
    let p := eval cbn [set_nth] in (set_nth 2 0 (set_nth 3 0 L)) in
    change (verifies (icmp_set_checksum p (checksum p))) end;
  apply icmp4_verifies; [oks | cbn [length]; lia | cbn [length]; lia | reflexivity | reflexivity].
Ltac icmp6_cks := unfold icmp6_cks_ok; run; unabs; apply verifiesb_true;
  match goal with |- verifies ?L =>
    let S := eval cbn [firstn] in (firstn 16 L) in
    let D := eval cbn [firstn skipn] in (firstn 16 (skipn 16 L)) in
    let M := eval cbn [skipn] in (skipn 40 L) in
    let P := eval cbn [set_nth] in (set_nth 2 0 (set_nth 3 0 M)) in
    change (verifies (icmp6_pseudo S D (N.of_nat (length P)) ++
                      icmp_set_checksum P (checksum (icmp6_pseudo S D (N.of_nat (length P)) ++ P))))
  end;
  apply icmp6_verifies;
  [oks | oks | oks | reflexivity | reflexivity | cbn [length]; lia | cbn [length]; lia | reflexivity | reflexivity].

