(* Proofs/AliasHunt.v — C10, hunt list of the ICMPv6 spoofer: with a copying StartHunt the
   hunt list is independent of the buffers (general lemma); with the Addr stored as passed a
   scribble makes StopHunt miss its entry (refutation); histories without a StartHunt on a
   frame view are unaffected either way. *)
From PV Require Import Base.Prelude Base.Text Model.Alias Model.AliasHunt.
Open Scope N_scope.
Open Scope list_scope.

(* reference semantics on plain byte strings *)
Definition hpstep (l : list bytes) (o : hop) : list bytes :=
  match o with
  | HStart f => let mac := sub f 6 6 in if existsb (fun b => beqb b mac) l then l else l ++ [mac]
  | HStop m => remove_first (fun b => beqb b m) l
  end.
Definition hproj1 (e : heop) : list hop :=
  match e with
  | HEStart _ f => [HStart f]
  | HEScribble _ _ => []
  | HEStop m => [HStop m]
  end.
Definition hproj (h : list heop) : list hop := flat_map hproj1 h.

Lemma existsb_map_owned s mac l :
  existsb (fun v => beqb (deref s v) mac) (map Owned l) = existsb (fun b => beqb b mac) l.
Proof. induction l as [|x r IH]; simpl; auto. rewrite IH. reflexivity. Qed.

Lemma remove_first_map_owned s m l :
  remove_first (fun v => beqb (deref s v) m) (map Owned l) = map Owned (remove_first (fun b => beqb b m) l).
Proof. induction l as [|x r IH]; simpl; auto. destruct (beqb x m); auto. rewrite IH. reflexivity. Qed.

Lemma hunted_owned s l : hunted (s, map Owned l) = l.
Proof. unfold hunted; simpl. induction l as [|x r IH]; simpl; auto. rewrite IH. reflexivity. Qed.

Lemma herun_copy_sim h : forall s l,
  hunted (fold_left (hestep true) h (s, map Owned l)) = fold_left hpstep (hproj h) l.
Proof.
  induction h as [|e r IH]; intros s l; cbn [fold_left hproj flat_map].
  - apply hunted_owned.
  - destruct e as [buf f|buf c|m]; cbn [hestep hproj1 app fold_left hpstep fst snd].
    + unfold hunt_start. rewrite existsb_map_owned.
      destruct (existsb _ l); [apply IH|].
      replace (map Owned l ++ [Owned (sub f 6 6)]) with (map Owned (l ++ [sub f 6 6])) by (rewrite map_app; reflexivity).
      apply IH.
    + apply IH.
    + unfold hunt_stop. rewrite remove_first_map_owned. apply IH.
Qed.

(* with a copying StartHunt the hunt list depends only on the packet-level history *)
Theorem hunt_copy_proj h : hunted (herun true h) = fold_left hpstep (hproj h) [].
Proof. unfold herun. apply (herun_copy_sim h [] []). Qed.

Lemma hproj_shared scr p : forall i, hproj (hshared scr i p) = p.
Proof. induction p as [|[f|m] r IH]; intros i; simpl; auto; rewrite IH; reflexivity. Qed.
Lemma hproj_fresh p : forall n, hproj (hfresh n p) = p.
Proof. induction p as [|[f|m] r IH]; intros n; simpl; auto; rewrite IH; reflexivity. Qed.

Theorem hunt_noninterference_copy scr p :
  hunted (herun true (hshared scr 0 p)) = hunted (herun true (hfresh 0 p)).
Proof. rewrite !hunt_copy_proj, hproj_shared, hproj_fresh. reflexivity. Qed.

(* with the Addr stored as passed: hunt the sender of a frame, reuse the buffer, stop the hunt *)
Definition ex_hunt_frame : bytes :=
  [0;102;102;102;102;102; 2;0;0;0;0;1; 134;221; 96;0;0;0; 0;8; 58;64;
   254;128;0;0;0;0;0;0;0;0;0;0;0;1;0;5; 254;128;0;0;0;0;0;0;0;0;0;0;0;1;0;17; 128;0;0;0;0;1;0;1].
Definition ex_hunt_hist : list hop := [HStart ex_hunt_frame; HStop [2;0;0;0;0;1]].
Definition ex_hunt_scr : nat -> bufc := fun _ => {| b_pre := []; b_fill := 165; b_stp := 0 |}.

Theorem hunt_refuted_ref :
  exists scr p, running false (hshared scr 0 p) <> running false (hfresh 0 p).
Proof. exists ex_hunt_scr, ex_hunt_hist. vm_compute. discriminate. Qed.

Lemma ex_hunt_known : known_C10_hunt6 ex_hunt_hist = true.
Proof. reflexivity. Qed.

(* histories in which no hunt is started on a frame view keep an empty hunt list *)
Lemma no_start_empty cp h : forall s : store,
  existsb (fun e => match e with HEStart _ _ => true | _ => false end) h = false ->
  hunted (fold_left (hestep cp) h (s, [])) = [].
Proof.
  induction h as [|e r IH]; intros s H; cbn [fold_left existsb] in *; auto.
  destruct e as [buf f|buf c|m]; cbn [hestep fst snd hunt_stop remove_first] in *; try discriminate; apply IH; auto.
Qed.

Lemma known_shared scr p : forall i,
  known_C10_hunt6 p = false ->
  existsb (fun e => match e with HEStart _ _ => true | _ => false end) (hshared scr i p) = false.
Proof. induction p as [|[f|m] r IH]; intros i H; simpl in *; auto; discriminate. Qed.
Lemma known_fresh p : forall n,
  known_C10_hunt6 p = false ->
  existsb (fun e => match e with HEStart _ _ => true | _ => false end) (hfresh n p) = false.
Proof. induction p as [|[f|m] r IH]; intros n H; simpl in *; auto; discriminate. Qed.

Theorem hunt_partial cp scr p :
  known_C10_hunt6 p = false ->
  hunted (herun cp (hshared scr 0 p)) = hunted (herun cp (hfresh 0 p)).
Proof.
  intros H. unfold herun. transitivity (@nil bytes).
  - apply (no_start_empty cp _ []). apply known_shared. exact H.
  - symmetry. apply (no_start_empty cp _ []). apply known_fresh. exact H.
Qed.

Example hunt_partial_nonvacuous : known_C10_hunt6 [HStop [2;0;0;0;0;1]; HStop [2;0;0;0;0;2]] = false.
Proof. reflexivity. Qed.
