(* Proofs/AliasHunt.v — C10, hunt list of the ICMPv6 spoofer: with a copying StartHunt the
   hunt list is independent of the buffers (general lemma); with the Addr stored as passed a
   scribble makes StopHunt miss its entry (refutation); histories without a StartHunt on a
   frame view are unaffected either way. *)
From PV Require Import Base.Prelude Base.Text Model.Alias Model.AliasHunt.
Open Scope N_scope.
Open Scope list_scope.

(* reference semantics on plain byte strings *)
Definition hpstep (l : list bytes) (o : hop) : list bytes :=
  match o with
  | HStart f => let mac := fsub f L_ETH_SRC in if existsb (fun b => beqb b mac) l then l else l ++ [mac]
  | HStop m => remove_first (fun b => beqb b m) l
  end.
Definition hproj1 (e : heop) : list hop :=
  match e with
  | HEStart _ f => [HStart f]
  | HEScribble _ _ => []
  | HEStop m => [HStop m]
  end.
Definition hproj (h : list heop) : list hop := flat_map hproj1 h.

Lemma existsb_map_owned s mac l :
  existsb (fun v => beqb (deref s v) mac) (map Owned l) = existsb (fun b => beqb b mac) l.
Proof. induction l as [|x r IH]; simpl; auto. rewrite IH. reflexivity. Qed.

Lemma remove_first_map_owned s m l :
  remove_first (fun v => beqb (deref s v) m) (map Owned l) = map Owned (remove_first (fun b => beqb b m) l).
Proof. induction l as [|x r IH]; simpl; auto. destruct (beqb x m); auto. rewrite IH. reflexivity. Qed.

Lemma hunted_owned s l : hunted (s, map Owned l) = l.
Proof. unfold hunted; simpl. induction l as [|x r IH]; simpl; auto. rewrite IH. reflexivity. Qed.

Lemma herun_copy_sim h : forall s l,
  hunted (fold_left (hestep true) h (s, map Owned l)) = fold_left hpstep (hproj h) l.
Proof.
  induction h as [|e r IH]; intros s l; cbn [fold_left hproj flat_map].
  - apply hunted_owned.
  - destruct e as [buf f|buf c|m]; cbn [hestep hproj1 app fold_left hpstep fst snd].
    + unfold hunt_start. rewrite existsb_map_owned.
      destruct (existsb _ l); [apply IH|].
      replace (map Owned l ++ [Owned (fsub f L_ETH_SRC)]) with (map Owned (l ++ [fsub f L_ETH_SRC])) by (rewrite map_app; reflexivity).
      apply IH.
    + apply IH.
    + unfold hunt_stop. rewrite remove_first_map_owned. apply IH.
Qed.

(* with a copying StartHunt the hunt list depends only on the packet-level history *)
Theorem hunt_copy_proj h : hunted (herun true h) = fold_left hpstep (hproj h) [].
Proof. unfold herun. apply (herun_copy_sim h [] []). Qed.

Lemma hproj_shared scr p : forall i, hproj (hshared scr i p) = p.
Proof. induction p as [|[f|m] r IH]; intros i; simpl; auto; rewrite IH; reflexivity. Qed.
Lemma hproj_fresh p : forall n, hproj (hfresh n p) = p.
Proof. induction p as [|[f|m] r IH]; intros n; simpl; auto; rewrite IH; reflexivity. Qed.

Theorem hunt_noninterference_copy scr p :
  hunted (herun true (hshared scr 0 p)) = hunted (herun true (hfresh 0 p)).
Proof. rewrite !hunt_copy_proj, hproj_shared, hproj_fresh. reflexivity. Qed.

(* with the Addr stored as passed: hunt the sender of a frame, reuse the buffer, stop the hunt *)
Definition ex_hunt_frame : bytes :=
  [0;102;102;102;102;102; 2;0;0;0;0;1; 134;221; 96;0;0;0; 0;8; 58;64;
   254;128;0;0;0;0;0;0;0;0;0;0;0;1;0;5; 254;128;0;0;0;0;0;0;0;0;0;0;0;1;0;17; 128;0;0;0;0;1;0;1].
Definition ex_hunt_hist : list hop := [HStart ex_hunt_frame; HStop [2;0;0;0;0;1]].
Definition ex_hunt_scr : nat -> bufc := fun _ => {| b_pre := []; b_fill := 165; b_stp := 0 |}.

Theorem hunt_refuted_ref :
  exists scr p, running false (hshared scr 0 p) <> running false (hfresh 0 p).
Proof. exists ex_hunt_scr, ex_hunt_hist. vm_compute. discriminate. Qed.

Lemma ex_hunt_known : known_C10_hunt6 ex_hunt_hist = true.
Proof. reflexivity. Qed.

(* histories in which no hunt is started on a frame view keep an empty hunt list *)
Lemma no_start_empty cp h : forall s : store,
  existsb (fun e => match e with HEStart _ _ => true | _ => false end) h = false ->
  hunted (fold_left (hestep cp) h (s, [])) = [].
Proof.
  induction h as [|e r IH]; intros s H; cbn [fold_left existsb] in *; auto.
  destruct e as [buf f|buf c|m]; cbn [hestep fst snd hunt_stop remove_first] in *; try discriminate; apply IH; auto.
Qed.

Lemma known_shared scr p : forall i,
  known_C10_hunt6 p = false ->
  existsb (fun e => match e with HEStart _ _ => true | _ => false end) (hshared scr i p) = false.
Proof. induction p as [|[f|m] r IH]; intros i H; simpl in *; auto; discriminate. Qed.
Lemma known_fresh p : forall n,
  known_C10_hunt6 p = false ->
  existsb (fun e => match e with HEStart _ _ => true | _ => false end) (hfresh n p) = false.
Proof. induction p as [|[f|m] r IH]; intros n H; simpl in *; auto; discriminate. Qed.

Theorem hunt_partial cp scr p :
  known_C10_hunt6 p = false ->
  hunted (herun cp (hshared scr 0 p)) = hunted (herun cp (hfresh 0 p)).
Proof.
  intros H. unfold herun. transitivity (@nil bytes).
  - apply (no_start_empty cp _ []). apply known_shared. exact H.
  - symmetry. apply (no_start_empty cp _ []). apply known_fresh. exact H.
Qed.

Example hunt_partial_nonvacuous : known_C10_hunt6 [HStop [2;0;0;0;0;1]; HStop [2;0;0;0;0;2]] = false.
Proof. reflexivity. Qed.

(* ---------------------------------------------------------------- *)
(* ARP spoofer hunt list: with a copying StartHunt the transcript (first announcements, periodic
   announcements / restores of every loop, spoofed replies) depends only on the packet-level history *)

Definition p4state := (list (bytes * bytes) * list bytes)%type.
Definition emb4 (p : p4state) : h4state :=
  {| h4_list := map (fun e => (fst e, Owned (snd e))) (fst p); h4_loops := map Owned (snd p) |}.

Definition p4_has (k : bytes) (p : p4state) : bool := existsb (fun e => beqb (fst e) k) (fst p).
Definition p4_val (k : bytes) (p : p4state) : option bytes := option_map snd (find (fun e => beqb (fst e) k) (fst p)).

Definition p4_tick1 (p : p4state) (acc : list bytes * list string) (k : bytes) : list bytes * list string :=
  match p4_val k p with
  | Some tv => (fst acc ++ [k], snd acc ++ [item_announce tv])
  | None => (fst acc, snd acc ++ [item_restore k])
  end.

Definition p4step (rip : bytes) (p : p4state) (o : h4op) : p4state * list string :=
  match o with
  | A4Start f => let mac := fsub f L_ETH_SRC in
                 if p4_has mac p then (p, []) else ((fst p ++ [(mac, mac)], snd p ++ [mac]), [item_announce mac])
  | A4Stop m => ((remove_first (fun e => beqb (fst e) m) (fst p), snd p), [])
  | A4Tick => let r := fold_left (p4_tick1 p) (snd p) ([], []) in ((fst p, fst r), snd r)
  | A4Request f => (p, if p4_has (fsub f L_ARP_SHA) p && beqb (fsub f L_ARP_TPA) rip then [item_reply (fsub f L_ARP_SHA)] else [])
  end.

Definition p4run (rip : bytes) (ops : list h4op) : p4state * list (list string) :=
  fold_left (fun acc o => let r := p4step rip (fst acc) o in (fst r, snd acc ++ [snd r])) ops (([], []), []).

Definition h4proj1 (e : h4eop) : list h4op :=
  match e with
  | AEStart _ f => [A4Start f]
  | AEScribble _ _ => []
  | AEStop m => [A4Stop m]
  | AETick => [A4Tick]
  | AERequest _ f => [A4Request f]
  end.
Definition h4proj (h : list h4eop) : list h4op := flat_map h4proj1 h.

Lemma h4_has_emb k p : h4_has k (emb4 p) = p4_has k p.
Proof.
  unfold h4_has, p4_has, emb4; cbn [h4_list]. induction (fst p) as [|e r IH]; simpl; auto. rewrite IH. reflexivity.
Qed.

Lemma h4_val_emb k p : h4_val k (emb4 p) = option_map Owned (p4_val k p).
Proof.
  unfold h4_val, p4_val, emb4; cbn [h4_list]. induction (fst p) as [|e r IH]; simpl; auto.
  destruct (beqb (fst e) k); simpl; auto.
Qed.

Lemma remove_first_emb m l :
  remove_first (fun e : bytes * rv => beqb (fst e) m) (map (fun e : bytes * bytes => (fst e, Owned (snd e))) l) =
  map (fun e => (fst e, Owned (snd e))) (remove_first (fun e => beqb (fst e) m) l).
Proof. induction l as [|e r IH]; simpl; auto. destruct (beqb (fst e) m); auto. rewrite IH. reflexivity. Qed.

Lemma tick_fold_emb s p lo : forall a1 a2,
  fold_left (h4_tick1 s (emb4 p)) (map Owned lo) (map Owned a1, a2) =
  (map Owned (fst (fold_left (p4_tick1 p) lo (a1, a2))), snd (fold_left (p4_tick1 p) lo (a1, a2))).
Proof.
  induction lo as [|k r IH]; intros a1 a2; cbn [fold_left map fst snd]; auto.
  unfold h4_tick1 at 2, p4_tick1 at 2 4. cbn [deref fst snd]. rewrite h4_val_emb.
  destruct (p4_val k p) as [tv|]; cbn [option_map deref fst snd].
  - replace (map Owned a1 ++ [Owned k]) with (map Owned (a1 ++ [k])) by (rewrite map_app; reflexivity). apply IH.
  - apply IH.
Qed.

Lemma h4estep_sim rip s p out e :
  exists s', h4estep true rip {| aw_store := s; aw_state := emb4 p; aw_out := out |} e =
             {| aw_store := s';
                aw_state := emb4 (fst (fold_left (fun acc o => let r := p4step rip (fst acc) o in (fst r, snd acc ++ [snd r])) (h4proj1 e) (p, out)));
                aw_out := snd (fold_left (fun acc o => let r := p4step rip (fst acc) o in (fst r, snd acc ++ [snd r])) (h4proj1 e) (p, out)) |}.
Proof.
  destruct e as [buf f|buf c|m| |buf f]; cbn [h4estep h4proj1 fold_left fst snd aw_store aw_state aw_out p4step].
  - eexists. unfold h4_start. rewrite h4_has_emb. destruct (p4_has (fsub f L_ETH_SRC) p); cbn [fst snd]; [reflexivity|].
    f_equal. unfold emb4; cbn [fst snd h4_list h4_loops]. rewrite !map_app. reflexivity.
  - eexists. reflexivity.
  - eexists. f_equal. unfold h4_stop, emb4; cbn [h4_list h4_loops fst snd]. rewrite remove_first_emb. reflexivity.
  - eexists. unfold h4_tick.
    pose proof (tick_fold_emb s p (snd p) [] []) as Ht. cbn [map] in Ht.
    change (h4_loops (emb4 p)) with (map Owned (snd p)). rewrite Ht. cbn [fst snd]. reflexivity.
  - eexists. unfold h4_request. rewrite h4_has_emb. reflexivity.
Qed.

Lemma h4run_sim rip h : forall s p out,
  exists s' p', fold_left (h4estep true rip) h {| aw_store := s; aw_state := emb4 p; aw_out := out |} =
                {| aw_store := s'; aw_state := emb4 p';
                   aw_out := snd (fold_left (fun acc o => let r := p4step rip (fst acc) o in (fst r, snd acc ++ [snd r])) (h4proj h) (p, out)) |}.
Proof.
  induction h as [|e r IH]; intros s p out; cbn [fold_left h4proj flat_map].
  - exists s, p. reflexivity.
  - destruct (h4estep_sim rip s p out e) as [s1 E1]. rewrite E1. rewrite fold_left_app.
    set (acc := fold_left _ (h4proj1 e) (p, out)).
    destruct (IH s1 (fst acc) (snd acc)) as (s2 & p2 & E2). exists s2, p2. rewrite E2.
    replace (fst acc, snd acc) with acc by (destruct acc; reflexivity). reflexivity.
Qed.

Theorem hunt4_copy_proj rip h : h4transcript true rip h = snd (p4run rip (h4proj h)).
Proof.
  unfold h4transcript, h4run, p4run.
  destruct (h4run_sim rip h [] ([], []) []) as (s' & p' & E). change (emb4 ([], [])) with {| h4_list := []; h4_loops := [] |} in E.
  rewrite E. reflexivity.
Qed.

Lemma h4proj_shared scr p : forall i, h4proj (h4shared scr i p) = p.
Proof. induction p as [|[f|m| |f] r IH]; intros i; simpl; auto; rewrite IH; reflexivity. Qed.
Lemma h4proj_fresh p : forall n, h4proj (h4fresh n p) = p.
Proof. induction p as [|[f|m| |f] r IH]; intros n; simpl; auto; rewrite IH; reflexivity. Qed.

Theorem hunt4_noninterference_copy rip scr p :
  h4transcript true rip (h4shared scr 0 p) = h4transcript true rip (h4fresh 0 p).
Proof. rewrite !hunt4_copy_proj, h4proj_shared, h4proj_fresh. reflexivity. Qed.

(* without the copy: after the buffer is reused the loop no longer finds its own key and gives up,
   announcing the restore to whatever the buffer holds *)
Definition ex_hunt4_frame : bytes :=
  [0;102;102;102;102;102; 2;0;0;0;0;1; 8;0; 69;0;0;28; 0;0;0;0; 64;17;0;0; 192;168;0;5; 192;168;0;11; 4;0;7;208;0;8;0;0].
Definition ex_hunt4_hist : list h4op := [A4Start ex_hunt4_frame; A4Tick].

Theorem hunt4_refuted_ref :
  exists scr p, h4transcript false [192;168;0;11] (h4shared scr 0 p) <> h4transcript false [192;168;0;11] (h4fresh 0 p).
Proof. exists ex_hunt_scr, ex_hunt4_hist. vm_compute. discriminate. Qed.

Example ex_hunt4_runs :
  h4transcript true [192;168;0;11] (h4shared ex_hunt_scr 0 ex_hunt4_hist) = [[item_announce [2;0;0;0;0;1]]; [item_announce [2;0;0;0;0;1]]].
Proof. vm_compute. reflexivity. Qed.
