(* Proofs/PingWrap.v — the identifier counter wraps and the table is not consulted: with only two
   calls outstanding the second can be handed the identifier of the first.  Then the reply to the
   first wakes the second, and the first times out although its reply was parsed. *)
From PV Require Import Base.Prelude Model.Ping Model.PingTrace Proofs.Ping Proofs.PingIff.
Open Scope N_scope.

(* k calls whose send fails, call numbers j0, j0+1, ... *)
Definition fails (j0 k : nat) : list event := map (fun j => Begin j false) (seq j0 k).

Lemma fails_run fx k : forall j0 s pg0,
  (1 <= j0)%nat -> N.of_nat (j0 + k) <= 65536 ->
  next s = (N.of_nat j0 + 1) mod 65536 ->
  pget (pings s) 0%nat = Some pg0 -> tget (tbl s) 1 = Some 0%nat ->
  (forall p, (j0 <= p)%nat -> pget (pings s) p = None) ->
  exists s', run fx s (fails j0 k) = Ok s' /\
    next s' = (N.of_nat (j0 + k) + 1) mod 65536 /\
    pget (pings s') 0%nat = Some pg0 /\ tget (tbl s') 1 = Some 0%nat /\
    (forall p, (j0 + k <= p)%nat -> pget (pings s') p = None).
Proof.
  induction k as [|k IH]; intros j0 s pg0 Hj Hb Hn Hp Ht Hfree.
  - exists s. cbn [fails seq map run]. rewrite Nat.add_0_r. repeat split; auto.
  - unfold fails. cbn [seq map run step]. rewrite (Hfree j0) by lia. cbv zeta.
    set (i := next s).
    assert (Hi : i <> 1) by (unfold i; rewrite Hn; lia).
    set (s1 := mkState _ _ _ _).
    destruct (IH (S j0) s1 pg0) as (s' & Hr & Hn' & Hp' & Ht' & Hf').
    + lia.
    + replace (S j0 + k)%nat with (j0 + S k)%nat by lia. exact Hb.
    + unfold s1. cbn [next]. unfold u16, i. rewrite Hn. lia.
    + unfold s1. cbn [pings]. rewrite pget_pset. destruct (Nat.eqb_spec 0 j0); [lia|exact Hp].
    + unfold s1. cbn [tbl]. destruct fx.
      * rewrite tget_tdel. destruct (N.eqb_spec 1 i); [congruence|].
        rewrite tget_tset. destruct (N.eqb_spec 1 i); [congruence|exact Ht].
      * rewrite tget_tset. destruct (N.eqb_spec 1 i); [congruence|exact Ht].
    + intros p Hp0. unfold s1. cbn [pings]. rewrite pget_pset.
      destruct (Nat.eqb_spec p j0); [lia|]. apply Hfree. lia.
    + exists s'. fold (fails (S j0) k). rewrite Hr.
      replace (j0 + S k)%nat with (S j0 + k)%nat by lia. repeat split; auto.
Qed.

Section Wrap.
Variables K1 K2 : nat.
Hypothesis k_bound : N.of_nat (1 + K1) <= 65536.
Hypothesis k_next : (N.of_nat (1 + K1) + 1) mod 65536 = 1.
Hypothesis k_free : (1 + K1 <= K2)%nat.
Hypothesis k_nz : K2 <> 0%nat.

(* call 0 (id 1) | K1 failed calls | call K2 (id 1 again) | the reply for id 1 | timer of call 0 |
   End of call 0 *)
Definition wrap_mid_g : list event :=
  fails 1 K1 ++ [Begin K2 true; Notify 1; Timeout 0%nat].
Definition wrap_history_g : list event := Begin 0%nat true :: wrap_mid_g ++ [End 0%nat].

Theorem wrap_collision_g fx :
  exists s, run fx init_go wrap_history_g = Ok s /\
    id_of s 0%nat = Some 1 /\ id_of s K2 = Some 1 /\
    In (Notify 1) wrap_mid_g /\ ~ In (End 0%nat) wrap_mid_g /\ result_of s 0%nat = Some RTimeout /\
    (exists pg, pget (pings s) K2 = Some pg /\ p_recv pg = true /\ p_phase pg = Waiting).
Proof.
  unfold wrap_history_g, wrap_mid_g. cbn [run step init_go init pings pget]. cbv zeta.
  set (s1 := mkState _ _ _ _).
  pose proof k_bound as Hk.
  assert (H3 : next s1 = (N.of_nat 1 + 1) mod 65536) by reflexivity.
  assert (H4 : pget (pings s1) 0%nat = Some (mkPing 1 false false false Waiting 0)) by reflexivity.
  assert (H5 : tget (tbl s1) 1 = Some 0%nat) by reflexivity.
  assert (H6 : forall p, (1 <= p)%nat -> pget (pings s1) p = None).
  { intros p Hp. unfold s1. cbn [pings]. rewrite pget_pset. destruct (Nat.eqb_spec p 0); [exfalso; clear -Hp e; lia|reflexivity]. }
  destruct (fails_run fx K1 1%nat s1 _ (le_n 1) Hk H3 H4 H5 H6) as (s2 & Hr & Hn & Hp0 & Ht & Hfree).
  clearbody s1.
  rewrite <- app_assoc, run_app, Hr.
  assert (Hn1 : next s2 = 1) by (rewrite Hn; exact k_next).
  assert (Hfresh : pget (pings s2) K2 = None) by (apply Hfree; exact k_free).
  assert (Hne : Nat.eqb 0 K2 = false) by (apply Nat.eqb_neq; intros E; apply k_nz; symmetry; exact E).
  assert (Hne' : Nat.eqb K2 0 = false) by (apply Nat.eqb_neq; exact k_nz).
  cbn [app run step]. rewrite Hfresh. cbv zeta. rewrite Hn1.
  cbn [tbl pings next cnt]. rewrite tget_tset, N.eqb_refl. rewrite pget_pset, Nat.eqb_refl.
  cbn [p_closed p_id p_recv p_fired p_phase p_seq tbl pings next cnt set_pings].
  rewrite !pget_pset, ?Hne, ?Hne', ?Nat.eqb_refl, Hp0.
  cbn [p_closed p_id p_recv p_fired p_phase p_seq tbl pings next cnt set_pings orb].
  rewrite !pget_pset, ?Hne, ?Hne', ?Nat.eqb_refl.
  cbn [p_closed p_id p_recv p_fired p_phase p_seq tbl pings next cnt set_pings orb].
  eexists. split; [reflexivity|].
  unfold id_of, result_of. cbn [pings].
  rewrite !pget_pset, ?Hne, ?Hne', ?Nat.eqb_refl. cbn [option_map p_id p_phase].
  rewrite ?pget_pset, ?Hne, ?Hne', ?Nat.eqb_refl. cbn [option_map p_id p_phase].
  split; [reflexivity|]. split; [reflexivity|].
  split; [apply in_or_app; right; right; left; reflexivity|].
  split.
  { intros Hin. apply in_app_or in Hin. destruct Hin as [Hin|Hin].
    - unfold fails in Hin. apply in_map_iff in Hin. destruct Hin as (j & Hj & _). discriminate.
    - cbn [In] in Hin. destruct Hin as [H|[H|[H|H]]]; [inversion H|inversion H|inversion H|exact H]. }
  split; [reflexivity|].
  eexists. split; [reflexivity|]. split; reflexivity.
Qed.

End Wrap.

Definition K65535 : nat := N.to_nat 65535.
Definition K65536 : nat := N.to_nat 65536.

Lemma k_bound' : N.of_nat (1 + K65535) <= 65536.
Proof. unfold K65535. lia. Qed.
Lemma k_next' : (N.of_nat (1 + K65535) + 1) mod 65536 = 1.
Proof. unfold K65535. lia. Qed.
Lemma k_free' : (1 + K65535 <= K65536)%nat.
Proof. unfold K65535, K65536. lia. Qed.
Lemma k_nz' : K65536 <> 0%nat.
Proof. unfold K65536. lia. Qed.

(* call 0 (id 1) | 65535 failed calls (ids 2..65535, 0) | call 65536 (id 1 again) |
   the reply for id 1 | timer of call 0 | End of call 0 *)
Definition wrap_mid : list event := wrap_mid_g K65535 K65536.
Definition wrap_history : list event := wrap_history_g K65535 K65536.

Theorem wrap_collision fx :
  exists s, run fx init_go wrap_history = Ok s /\
    (* only calls 0 and 65536 were ever waiting; they were handed the same identifier *)
    id_of s 0%nat = Some 1 /\ id_of s K65536 = Some 1 /\
    (* the reply for identifier 1 was parsed while call 0 was waiting, yet call 0 timed out *)
    In (Notify 1) wrap_mid /\ ~ In (End 0%nat) wrap_mid /\ result_of s 0%nat = Some RTimeout /\
    (* it completed the other call instead *)
    (exists pg, pget (pings s) K65536 = Some pg /\ p_recv pg = true /\ p_phase pg = Waiting).
Proof. exact (wrap_collision_g K65535 K65536 k_bound' k_next' k_free' k_nz' fx). Qed.
