(* Proofs/PingWrap.v — the identifier counter wraps and the table is not consulted: with only two
   calls outstanding the second can be handed the identifier of the first.  Then the reply to the
   first wakes the second, and the first times out although its reply was parsed.

   The 65535 calls in between are written as one compressed event [BulkFail 65535]
   (Proofs/PingBulk.v bulk_sound: the same table, next identifier, counter and other calls as
   65535 pairs Begin j; Sent j false). *)
From PV Require Import Base.Prelude Model.Ping Model.PingTrace Proofs.Ping Proofs.PingIff.
Open Scope N_scope.

(* call 0 (id 1) | 65535 failed calls (ids 2..65535, 0) | call 1 (id 1 again) |
   the reply for id 1 | timer of call 0 | End of call 0 *)
Definition wrap_mid : list event :=
  [Sent 0%nat true; BulkFail 65535; Begin 1%nat; Sent 1%nat true; Notify 1; Timeout 0%nat].
Definition wrap_history : list event := Begin 0%nat :: wrap_mid ++ [End 0%nat].

Theorem wrap_collision :
  exists s, run true init_go wrap_history = Ok s /\
    (* only calls 0 and 1 were ever outstanding; they were handed the same identifier *)
    id_of s 0%nat = Some 1 /\ id_of s 1%nat = Some 1 /\
    (* the reply for identifier 1 was parsed while call 0 was waiting, yet call 0 timed out *)
    In (Notify 1) wrap_mid /\ result_of s 0%nat = Some RTimeout /\
    (* it completed the other call instead *)
    (exists pg, pget (pings s) 1%nat = Some pg /\ p_recv pg = true /\ p_phase pg = Waiting).
Proof.
  eexists. split; [vm_compute; reflexivity|].
  split; [vm_compute; reflexivity|]. split; [vm_compute; reflexivity|].
  split; [cbn; tauto|]. split; [vm_compute; reflexivity|].
  eexists. split; [vm_compute; reflexivity|]. split; reflexivity.
Qed.

(* the state in which call 1 begins is not young: that is the recorded class *)
Theorem wrap_not_young :
  exists s, run true init_go [Begin 0%nat; Sent 0%nat true; BulkFail 65535; Begin 1%nat] = Ok s /\
            known_C19_wrap s = true.
Proof. eexists. split; [vm_compute; reflexivity|]. vm_compute. reflexivity. Qed.
