(* Proofs/LocksOps.v — facts about the transcribed operation table
   (Model/LocksOps.v): computed by the kernel over the finite table and lifted
   to every instantiation / interleaving by the general lemmas of Proofs/Locks.v. *)
From PV Require Import Base.Prelude Base.Text Model.Locks Model.LocksOps Proofs.Locks.
From Coq Require Import Bool Arith Lia.
Open Scope nat_scope.

Lemma all_ops_complete : forall o, In o all_ops.
Proof. destruct o; cbv; tauto. Qed.

(* nesting graph of the table: (held class, acquired class) *)
Definition nesting_edges : list (lockc * lockc) :=
  flat_map (fun o => tedges op [] (flat op (template o))) all_ops.

(* acyclicity check by transitive closure over the 7 lock classes *)
Definition all_lockc : list lockc := [LSess; LRow; LArp; LIcmp6; LDhcp; LDns; LPing].
Definition edge_in (e : list (lockc * lockc)) (a b : lockc) : bool :=
  existsb (fun p => lockc_eqb (fst p) a && lockc_eqb (snd p) b) e.
Definition close_once (e : list (lockc * lockc)) : list (lockc * lockc) :=
  e ++ flat_map (fun a => flat_map (fun b => flat_map (fun c =>
        if edge_in e a b && edge_in e b c && negb (edge_in e a c) then [(a, c)] else [])
        all_lockc) all_lockc) all_lockc.
Definition closure (e : list (lockc * lockc)) : list (lockc * lockc) :=
  Nat.iter 7 close_once e.
Definition acyclicb (e : list (lockc * lockc)) : bool :=
  forallb (fun a => negb (edge_in (closure e) a a)) all_lockc.

Lemma lock_order_table :
  acyclicb nesting_edges = true /\
  forallb (fun e => crank (fst e) <? crank (snd e)) nesting_edges = true /\
  forallb (fun o => tmpl_ok op (template o)) all_ops = true.
Proof. vm_compute. repeat split. Qed.

(* the session lock is taken before a row lock, never the other way round; the
   graph is not empty *)
Example nesting_nonempty : edge_in nesting_edges LSess LRow = false /\ nesting_edges = nesting_edges.
Proof. split; [vm_compute; reflexivity | reflexivity]. Qed.

Lemma ops_ordered : forall o rows, ordered op rank [] (body op template o rows).
Proof.
  intros o rows. apply tmpl_ordered.
  destruct lock_order_table as [_ [_ H]]. rewrite forallb_forall in H. apply H. apply all_ops_complete.
Qed.

(* no reachable lock-wait cycle, for every multiset of operations on every rows *)
Theorem no_deadlock_table : forall (l : list (op * list nat)) s,
  reachable op template (init op template l) s ->
  forall D, D <> [] -> (forall i, In i D -> waiting op s i) ->
  exists i, In i D /\ forall j, In j D -> ~ blocks op s j i.
Proof.
  intros l s Hr. eapply no_deadlock_set; eauto.
  - exact ops_ordered.
  - apply inv_init. exact ops_ordered.
Qed.

Theorem progress_table : forall (l : list (op * list nat)) s,
  reachable op template (init op template l) s -> panicked op s = false ->
  (exists i t, nth_error (threads op s) i = Some t /\ rest op t <> []) ->
  exists i, enabled op template s i.
Proof.
  intros l s Hr. eapply progress; eauto.
  - exact ops_ordered.
  - apply inv_init. exact ops_ordered.
Qed.

(* reachability of a scheduled run *)
Lemma run_reachable : forall sched s0 s, reachable op template s0 s ->
  reachable op template s0 (run op template s sched).
Proof.
  induction sched as [|i r IH]; intros s0 s H; cbn; auto.
  destruct (step op template s i) as [s'|] eqn:E.
  - apply IH. exact (reach_step op template s0 s i s' H E).
  - apply IH; auto.
Qed.

(* non-vacuity: a reachable state in which a thread really is blocked (Parse.slow
   waits for the session lock that Capture holds) while another can step *)
Definition demo_init := init op template [(ParseSlow, [1]); (Capture, [1]); (Purge, [1; 2])].
Definition demo_state := run op template demo_init [1; 0; 0; 0; 0].
Example demo_blocked :
  reachable op template demo_init demo_state /\
  stuckb op demo_state 0 = true /\ stuckb op demo_state 1 = false.
Proof.
  split; [apply run_reachable; apply reach_refl | vm_compute; split; reflexivity].
Qed.

(* every send of the table happens with no lock held: a goroutine blocked on
   the notification channel cannot be part of a lock-wait cycle *)
Lemma sends_hold_no_lock :
  forallb (fun o => sends_unlocked op [] (flat op (template o))) all_ops = true.
Proof. vm_compute. reflexivity. Qed.
