(* Proofs/LocksOps.v — facts about the transcribed operation table
   (Model/LocksOps.v): computed by the kernel over the finite table and lifted
   to every instantiation / interleaving by the general lemmas of Proofs/Locks.v. *)
From PV Require Import Base.Prelude Base.Text Model.Locks Model.LocksOps Proofs.Locks.
From Coq Require Import Bool Arith Lia.
Open Scope nat_scope.

Lemma all_ops_complete : forall o, In o all_ops.
Proof. destruct o; cbv; tauto. Qed.

(* nesting graph of the table: (held class, acquired class) *)
Definition nesting_edges : list (lockc * lockc) :=
  flat_map (fun o => tedges op [] (flat op (template o))) all_ops.

(* acyclicity check by transitive closure over the 7 lock classes *)
Definition all_lockc : list lockc := [LSess; LRow; LArp; LIcmp6; LDhcp; LDns; LPing].
Definition edge_in (e : list (lockc * lockc)) (a b : lockc) : bool :=
  existsb (fun p => lockc_eqb (fst p) a && lockc_eqb (snd p) b) e.
Definition close_once (e : list (lockc * lockc)) : list (lockc * lockc) :=
  e ++ flat_map (fun a => flat_map (fun b => flat_map (fun c =>
        if edge_in e a b && edge_in e b c && negb (edge_in e a c) then [(a, c)] else [])
        all_lockc) all_lockc) all_lockc.
Definition closure (e : list (lockc * lockc)) : list (lockc * lockc) :=
  Nat.iter 7 close_once e.
Definition acyclicb (e : list (lockc * lockc)) : bool :=
  forallb (fun a => negb (edge_in (closure e) a a)) all_lockc.

Lemma lock_order_table :
  acyclicb nesting_edges = true /\
  forallb (fun e => crank (fst e) <? crank (snd e)) nesting_edges = true /\
  forallb (fun o => tmpl_ok op (template o)) all_ops = true.
Proof. vm_compute. repeat split. Qed.

(* the session lock is taken before a row lock (since the row-lock repairs of /repo the nesting does occur),
   never the other way round *)
Example nesting_nonempty : edge_in nesting_edges LSess LRow = true /\ edge_in nesting_edges LRow LSess = false.
Proof. split; vm_compute; reflexivity. Qed.

Lemma ops_ordered : forall o rows, ordered op rank [] (body op template o rows).
Proof.
  intros o rows. apply tmpl_ordered.
  destruct lock_order_table as [_ [_ H]]. rewrite forallb_forall in H. apply H. apply all_ops_complete.
Qed.

(* no reachable lock-wait cycle, for every multiset of operations on every rows *)
Theorem no_deadlock_table : forall (l : list (op * list nat)) s,
  reachable op template (init op template l) s ->
  forall D, D <> [] -> (forall i, In i D -> waiting op s i) ->
  exists i, In i D /\ forall j, In j D -> ~ blocks op s j i.
Proof.
  intros l s Hr. eapply no_deadlock_set; eauto.
  - exact ops_ordered.
  - apply inv_init. exact ops_ordered.
Qed.

Theorem progress_table : forall (l : list (op * list nat)) s,
  reachable op template (init op template l) s -> panicked op s = false ->
  (exists i t, nth_error (threads op s) i = Some t /\ rest op t <> []) ->
  exists i, enabled op template s i.
Proof.
  intros l s Hr. eapply progress; eauto.
  - exact ops_ordered.
  - apply inv_init. exact ops_ordered.
Qed.

(* reachability of a scheduled run *)
Lemma run_reachable : forall sched s0 s, reachable op template s0 s ->
  reachable op template s0 (run op template s sched).
Proof.
  induction sched as [|i r IH]; intros s0 s H; cbn; auto.
  destruct (step op template s i) as [s'|] eqn:E.
  - apply IH. exact (reach_step op template s0 s i s' H E).
  - apply IH; auto.
Qed.

(* non-vacuity: a reachable state in which a thread really is blocked (Parse.slow
   waits for the session lock that Capture holds) while another can step *)
Definition demo_init := init op template [(ParseSlow, [1]); (Capture, [1]); (Purge, [1; 2])].
Definition demo_state := run op template demo_init [1; 0; 0; 0; 0].
Example demo_blocked :
  reachable op template demo_init demo_state /\
  stuckb op demo_state 0 = true /\ stuckb op demo_state 1 = false.
Proof.
  split; [apply run_reachable; apply reach_refl | vm_compute; split; reflexivity].
Qed.

(* every send of the table happens with no lock held: a goroutine blocked on
   the notification channel cannot be part of a lock-wait cycle *)
Lemma sends_hold_no_lock :
  forallb (fun o => sends_unlocked op [] (flat op (template o))) all_ops = true.
Proof. vm_compute. reflexivity. Qed.

Example blocking_ops_exist :
  existsb (fun o => existsb (fun a => match a with TRecv _ | TExitIfClosed _ => true | _ => false end)
                            (flat op (template o))) all_ops = true.
Proof. vm_compute. reflexivity. Qed.

(* ====================================================================== *)
(* Lockset: statement at full strength, refutation, exact failing class     *)
(* ====================================================================== *)
From PV Require Import Model.LocksKnown.

Definition all_fields : list field :=
  [FHostTable; FMACTable; FSessClosed; FStats; FHeartBeat;
   FHostLastSeen; FHostOnline; FHostDirty; FHostHuntStage; FHostNames; FHostManuf;
   FMacLastSeen; FMacOnline; FMacCaptured; FMacIsRouter; FMacIPs; FMacIP4Offer; FMacHostList; FMacNames; FMacManuf;
   FArpHuntList; FArpClosed; FI6HuntList; FI6Closed; FI6CloseChan; FI6Routers; FI6Router; FI6Repeat;
   FDhcpTable; FDhcpClosed; FDhcpMode; FDnsTable; FDnsMdnsCache; FDnsClosed].
Lemma all_fields_complete : forall f, In f all_fields.
Proof. destruct f; cbv; tauto. Qed.

(* does the pair have an unprotected conflicting pair of accesses on f *)
Definition racyb (a b : op) (f : field) : bool :=
  existsb (field_eqb f) (racy_fields op (template a) (template b)).

(* full strength (what C09 asks of the discipline): no pair of operations allowed to overlap has an
   unprotected conflicting pair of accesses *)
Definition lockset_holds : Prop :=
  forall a b f, concurrent_allowed a b = true -> racyb a b f = false.

Definition next_access (t : thread op) : option (loc * bool) :=
  match rest op t with
  | Rd _ x :: _ => Some (x, false)
  | Wr _ x :: _ => Some (x, true)
  | _ => None
  end.

(* EXACT: for operations allowed to overlap, the unprotected conflicts of the model are exactly the recorded
   keys (Model/LocksKnown.v — EMPTY since the repairs of round 2: the refutations that earlier versions of
   this file proved on the unrepaired code, LastSeen under the session read lock etc., no longer exist) *)
Definition check_fields (al : bool) (rf : list field) (a b : op) (fields : list field) : bool :=
  forallb (fun f => Bool.eqb (al && existsb (field_eqb f) rf) (known_C09 (race_key a b f))) fields.
(* (stated without a named constant: the kernel then never has to convert a closed [forallb] over the whole
   table by its lazy machine; the computation is checked once, by the VM) *)
Lemma lockset_exact_computed :
  forallb (fun a => forallb (fun b =>
     check_fields (concurrent_allowed a b) (racy_fields op (template a) (template b)) a b all_fields) all_ops) all_ops
  = true.
Proof. vm_compute. reflexivity. Qed.

Lemma forallb_In : forall {A} (g : A -> bool) (l : list A), forallb g l = true -> forall x, In x l -> g x = true.
Proof. intros A g l H x Hx. rewrite forallb_forall in H. exact (H x Hx). Qed.

Lemma lockset_exact_spec : forall a b f,
  Bool.eqb (concurrent_allowed a b && racyb a b f) (known_C09 (race_key a b f)) = true.
Proof.
  intros a b f.
  exact (forallb_In _ _
           (forallb_In _ _ (forallb_In _ _ lockset_exact_computed a (all_ops_complete a)) b (all_ops_complete b))
           f (all_fields_complete f)).
Qed.

Lemma lockset_partial : forall a b f,
  concurrent_allowed a b = true -> known_C09 (race_key a b f) = false -> racyb a b f = false.
Proof.
  intros a b f Hc Hk. pose proof (lockset_exact_spec a b f) as H. rewrite Hc, Hk in H.
  destruct (racyb a b f); [discriminate H | reflexivity].
Qed.

Lemma lockset_known_are_real : forall a b f,
  known_C09 (race_key a b f) = true -> concurrent_allowed a b = true /\ racyb a b f = true.
Proof.
  intros a b f Hk. pose proof (lockset_exact_spec a b f) as H. rewrite Hk in H.
  destruct (concurrent_allowed a b), (racyb a b f); try discriminate H; auto.
Qed.

(* FULL STRENGTH on the model of the repaired library *)
Lemma lockset_full : lockset_holds.
Proof.
  intros a b f Hc. apply lockset_partial; auto.
Qed.

(* non-vacuity: a pair that conflicts and IS protected *)
Example lockset_partial_nonvacuous :
  concurrent_allowed Capture IsCaptured = true /\ known_C09 (race_key Capture IsCaptured FMacCaptured) = false /\
  existsb (fun a => existsb (fun b => conflictb a b) (taccs op [] (flat op (template IsCaptured))))
          (taccs op [] (flat op (template Capture))) = true.
Proof. vm_compute. repeat split. Qed.

(* ====================================================================== *)
(* Channels                                                                 *)
(* ====================================================================== *)
Definition all_chans : list chan := [CNotify; CSessClose; CArpClose; CI6Close; CDhcpClose; CDnsClose].

(* full strength: no operation sends on (or closes) a channel that an operation allowed to overlap closes *)
Definition no_send_on_closed_holds : Prop :=
  forall a b, concurrent_allowed a b = true ->
    predicted_send_on_closed a b = false /\ predicted_double_close a b = false.

(* EXACT: the send/close and close/close overlaps of the table are exactly the recorded panic keys (none) *)
Lemma chan_exact_computed :
  forallb (fun a => forallb (fun b =>
     Bool.eqb (predicted_send_on_closed a b) (known_C09 ("panic:" ++ pair_name a b ++ ":send-on-closed-channel")) &&
     Bool.eqb (predicted_double_close a b) (known_C09 ("panic:" ++ pair_name a b ++ ":close-of-closed-channel")) &&
     Bool.eqb (predicted_nil_map a b) (known_C09 ("panic:" ++ pair_name a b ++ ":nil-map-write")))
     all_ops) all_ops = true.
Proof. vm_compute. reflexivity. Qed.

Lemma no_send_on_closed_partial : forall a b,
  known_C09 ("panic:" ++ pair_name a b ++ ":send-on-closed-channel") = false ->
  known_C09 ("panic:" ++ pair_name a b ++ ":close-of-closed-channel") = false ->
  predicted_send_on_closed a b = false /\ predicted_double_close a b = false.
Proof.
  intros a b H1 H2.
  pose proof (forallb_In _ _ (forallb_In _ _ chan_exact_computed a (all_ops_complete a)) b (all_ops_complete b)) as H.
  cbv beta in H. rewrite H1, H2 in H.
  destruct (predicted_send_on_closed a b), (predicted_double_close a b); try discriminate; auto.
Qed.

Lemma no_send_on_closed_full : no_send_on_closed_holds.
Proof.
  intros a b _. apply no_send_on_closed_partial; reflexivity.
Qed.

(* every close of a channel in the table happens after the atomic test-and-set of the channel's flag, every
   send is a guarded non-blocking send testing that flag: the reason why the two predictions are empty *)
Lemma closes_are_once_guarded :
  forallb (fun o => forallb (fun c =>
     negb (closes op (template o) c) || close_after_once op (template o) c (flag_of_chan c)) all_chans_l) all_ops = true
  /\ forallb (fun o => forallb (fun c => negb (sends op (template o) c)) all_chans_l) all_ops = true.
Proof. vm_compute. split; reflexivity. Qed.

(* the semantic core: a send can only panic on a channel somebody closed *)
Lemma send_panics_only_if_closed : forall s i s',
  step op template s i = Some s' -> panicked op s = false -> panicked op s' = true ->
  exists t c r, nth_error (threads op s) i = Some t /\
    (rest op t = Send op c :: r \/ rest op t = CloseCh op c :: r \/
     exists x, rest op t = SendIfOpen op x c :: r /\ flag_set op s x = false) /\ chan_closed op s c = true.
Proof.
  intros s i s' Hs Hp Hp'. unfold step in Hs. rewrite Hp in Hs.
  destruct (nth_error (threads op s) i) as [t|] eqn:Hn; [|discriminate].
  destruct (rest op t) as [|a r] eqn:Hr; [discriminate|].
  destruct a; try (inversion Hs; subst; cbn in Hp'; congruence).
  - destruct (can_acquire op (threads op s) i t l m); inversion Hs; subst; cbn in Hp'; congruence.
  - destruct (chan_closed op s c) eqn:Hc.
    + exists t, c, r. auto.
    + inversion Hs; subst; cbn in Hp'; congruence.
  - destruct (chan_closed op s c) eqn:Hc.
    + exists t, c, r. auto.
    + inversion Hs; subst; cbn in Hp'; congruence.
  - destruct (chan_closed op s c); inversion Hs; subst; cbn in Hp'; congruence.
  - destruct (flag_set op s x); inversion Hs; subst; cbn in Hp'; congruence.
  - destruct (flag_set op s x); inversion Hs; subst; cbn in Hp'; congruence.
  - destruct (flag_set op s x) eqn:Hf; [inversion Hs; subst; cbn in Hp'; congruence|].
    destruct (chan_closed op s c) eqn:Hc.
    + exists t, c, r. split; auto. split; auto. right. right. exists x. auto.
    + inversion Hs; subst; cbn in Hp'; congruence.
Qed.

(* ====================================================================== *)
(* Close stops the loops                                                    *)
(* ====================================================================== *)

(* one pass over a loop body in a state where the flags/channels are as given: does the iteration leave
   the loop (exit taken, or body ends) before reaching the back edge? *)
Fixpoint iter_exits (closed : chan -> bool) (flag : loc -> bool) (acts : list (action op)) : bool :=
  match acts with
  | [] => true
  | ExitIfClosed _ c :: r => if closed c then true else iter_exits closed flag r
  | ExitIfFlag _ x :: r => if flag x then true else iter_exits closed flag r
  | Again _ :: _ => false
  | _ :: r => iter_exits closed flag r
  end.

Definition is_loop (o : op) : bool := ends_in_again op (flat op (template o)).
Definition loops : list op := filter is_loop all_ops.

(* what the Close of the owning component establishes *)
Definition stop_chan (o : op) : option chan :=
  match o with MinuteLoop | NicMonitor => Some CSessClose | _ => None end.
Definition stop_flag (o : op) : option field :=
  match o with ArpSpoofLoop => Some FArpClosed | I6SpoofLoop => Some FI6Closed | _ => None end.
Definition closer (o : op) : op :=
  match o with ArpSpoofLoop => ArpClose | I6SpoofLoop => I6Close | _ => SessClose end.

Lemma loops_listed : loops = [MinuteLoop; NicMonitor; ArpSpoofLoop; I6SpoofLoop].
Proof. vm_compute. reflexivity. Qed.

(* every loop of the table leaves at its next pass once its component's Close has closed the channel /
   set the flag it tests — in any state, on any row *)
Lemma close_stops_loops : forall o rows closed flag,
  is_loop o = true ->
  (forall c, stop_chan o = Some c -> closed c = true) ->
  (forall f, stop_flag o = Some f -> flag (f, 0) = true) ->
  iter_exits closed flag (body op template o rows) = true.
Proof.
  intros o rows closed flag Hl Hc Hf.
  assert (In o loops) as Hin by (apply filter_In; split; [apply all_ops_complete | exact Hl]).
  rewrite loops_listed in Hin.
  destruct Hin as [<-|[<-|[<-|[<-|[]]]]].
  - pose proof (Hc CSessClose eq_refl) as E. vm_compute. rewrite E. reflexivity.
  - pose proof (Hc CSessClose eq_refl) as E. vm_compute. rewrite E. reflexivity.
  - pose proof (Hf FArpClosed eq_refl) as E. vm_compute. vm_compute in E. rewrite E. reflexivity.
  - pose proof (Hf FI6Closed eq_refl) as E. vm_compute. vm_compute in E. rewrite E. reflexivity.
Qed.

(* ... and the Close of the component does establish it (its template closes that channel / sets that flag) *)
Lemma closers_establish :
  forallb (fun o =>
    match stop_chan o with Some c => closes op (template (closer o)) c | None => true end &&
    match stop_flag o with
    | Some f => existsb (fun a => match a with TSetFlag f' | TOnce f' => field_eqb f f' | _ => false end) (flat op (template (closer o)))
    | None => true
    end) loops = true.
Proof. vm_compute. reflexivity. Qed.

(* without Close the loops do go round: the statement above is not vacuous *)
Example loop_continues_when_open :
  iter_exits (fun _ => false) (fun _ => false) (body op template ArpSpoofLoop [1]) = false.
Proof. vm_compute. reflexivity. Qed.

(* ====================================================================== *)
(* Table mutations are serialised                                           *)
(* ====================================================================== *)
Definition structure_field (f : field) : bool :=
  field_eqb f FHostTable || field_eqb f FMACTable || field_eqb f FMacHostList.

(* every write to the host map, the MAC slice or a HostList, in every operation, happens while the session
   lock is held exclusively: table mutations are totally ordered critical sections, so the C05 invariants,
   which every such section re-establishes, hold whenever no mutation is in progress *)
Lemma mutations_serialised :
  forallb (fun o => forallb (fun a =>
     match a with (f, w, h) =>
       if w && structure_field f then existsb (fun x => lockc_eqb (fst x) LSess && is_W (snd x)) h else true
     end) (taccs op [] (flat op (template o)))) all_ops = true.
Proof. vm_compute. reflexivity. Qed.

Example mutations_exist :
  existsb (fun a => match a with (f, w, _) => w && structure_field f end)
          (taccs op [] (flat op (template Purge))) = true.
Proof. vm_compute. reflexivity. Qed.
