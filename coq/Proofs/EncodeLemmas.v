(* Proofs/EncodeLemmas.v — proof infrastructure for C03: the write
   primitives never return a library error; list facts about blit. *)
From PV Require Export Base.Prelude Base.Slice Model.EncodeBase Model.Encode.
Open Scope N_scope.

(* ---- "this call cannot return a Go error value" ---- *)
Definition not_err {A} (r : res A) : Prop := forall e, r <> Err e.
Lemma bind_not_err {A B} (r : res A) (f : A -> res B) :
  not_err r -> (forall a, not_err (f a)) -> not_err (bind r f).
Proof. intros H1 H2 e. destruct r; cbn; try discriminate. apply H2. exfalso. exact (H1 e0 eq_refl). Qed.
Lemma ok_not_err {A} (a : A) : not_err (Ok a). Proof. intros e; discriminate. Qed.
Lemma panic_not_err {A} : not_err (@Panic A). Proof. intros e; discriminate. Qed.
Lemma if_not_err {A} (c : bool) (x y : res A) : not_err x -> not_err y -> not_err (if c then x else y).
Proof. destruct c; auto. Qed.

Ltac ne_prim := apply if_not_err; [apply ok_not_err|apply panic_not_err].
Lemma seti_ne s i v : not_err (seti s i v). Proof. unfold seti. ne_prim. Qed.
Lemma put16_ne s i v : not_err (put16 s i v). Proof. unfold put16. ne_prim. Qed.
Lemma put16_from_ne s i v : not_err (put16_from s i v). Proof. unfold put16_from. ne_prim. Qed.
Lemma copyto_ne s a b x : not_err (copyto s a b x). Proof. unfold copyto. ne_prim. Qed.
Lemma copyfrom_ne s a x : not_err (copyfrom s a x). Proof. unfold copyfrom. ne_prim. Qed.
Lemma reslice_ne s n : not_err (reslice s n). Proof. unfold reslice. ne_prim. Qed.
Lemma idx_ne s i : not_err (idx s i). Proof. unfold idx. ne_prim. Qed.
Lemma be16_at_ne s i : not_err (be16_at s i). Proof. unfold be16_at. ne_prim. Qed.
Lemma sl_ne s a b : not_err (sl s a b). Proof. unfold sl. ne_prim. Qed.
Lemma slfrom_ne s a : not_err (slfrom s a). Proof. unfold slfrom. ne_prim. Qed.

Ltac ne := repeat first
  [ apply ok_not_err | apply panic_not_err | apply seti_ne | apply put16_ne | apply put16_from_ne
  | apply copyto_ne | apply copyfrom_ne | apply reslice_ne | apply idx_ne | apply be16_at_ne
  | apply sl_ne | apply slfrom_ne | apply if_not_err | (apply bind_not_err; [|intros ?]) ].

Lemma ip4_write_checksum_ne p : not_err (ip4_write_checksum p).
Proof. unfold ip4_write_checksum. ne. Qed.

(* ---- 16-bit fields ---- *)
Lemma hi8_lt v : hi8 v < 256. Proof. unfold hi8. lia. Qed.
Lemma lo8_lt v : lo8 v < 256. Proof. unfold lo8. lia. Qed.
Lemma be16_hi_lo v : v < 65536 -> be16 (hi8 v) (lo8 v) = v.
Proof. intros H. unfold be16, hi8, lo8. lia. Qed.
Lemma w16_hi_lo v : v < 65536 -> 256 * hi8 v + lo8 v = v.
Proof. intros H. unfold hi8, lo8. lia. Qed.

(* ---- lists ---- *)
Ltac destr_list l H :=
  let x := fresh "x" in destruct l as [|x l]; [cbn in H; try lia; try discriminate|].

Lemma blit0 (src l : bytes) : (length src <= length l)%nat -> blit 0 src l = src ++ skipn (length src) l.
Proof.
  revert l. induction src as [|s ss IH]; intros l H.
  - destruct l; reflexivity.
  - destruct l as [|x xs]; [cbn in H; lia|]. cbn in *. f_equal. apply IH. lia.
Qed.

Lemma firstn_all2' {A} (l : list A) n : (length l <= n)%nat -> firstn n l = l.
Proof. apply firstn_all2. Qed.

Lemma bytes_ok_cons x l : bytes_ok (x :: l) <-> x < 256 /\ bytes_ok l.
Proof. unfold bytes_ok. split; [intros H; inversion H; auto|intros [? ?]; constructor; auto]. Qed.
Lemma bytes_ok_nil : bytes_ok []. Proof. constructor. Qed.

(* ---- more list facts ---- *)
Lemma blit_nil off (l : bytes) : blit off [] l = l.
Proof. revert off; induction l as [|x xs IH]; intros [|o]; cbn; auto. f_equal. apply IH. Qed.
Lemma skipn_skipn' {A} a b (l : list A) : skipn a (skipn b l) = skipn (b + a) l.
Proof. revert l; induction b as [|b IH]; intros l; cbn; auto. destruct l; [rewrite skipn_nil; reflexivity|apply IH]. Qed.
Lemma firstn_app_exact {A} (l1 l2 : list A) : firstn (length l1) (l1 ++ l2) = l1.
Proof. induction l1; cbn; auto. f_equal; auto. Qed.
Lemma skipn_app_exact {A} (l1 l2 : list A) : skipn (length l1) (l1 ++ l2) = l2.
Proof. induction l1; cbn; auto. Qed.
Lemma blit_app_r (a : bytes) k src l : blit (length a + k) src (a ++ l) = a ++ blit k src l.
Proof. induction a as [|x a IH]; cbn; auto. f_equal. apply IH. Qed.
Lemma blit_app_r0 (a : bytes) src l : blit (length a) src (a ++ l) = a ++ blit 0 src l.
Proof. rewrite <- (Nat.add_0_r (length a)). apply blit_app_r. Qed.
Lemma skipn_app_len {A} n (l1 l2 : list A) : length l1 = n -> skipn n (l1 ++ l2) = l2.
Proof. intros <-. apply skipn_app_exact. Qed.
Lemma firstn_app_len {A} n (l1 l2 : list A) : length l1 = n -> firstn n (l1 ++ l2) = l1.
Proof. intros <-. apply firstn_app_exact. Qed.
Lemma u8_lt x : u8 x < 256. Proof. unfold u8. lia. Qed.

(* ---- symbolic evaluation of the slice-level model ----
   [run] alternates controlled computation ([cbn] with the comparison functions blocked) with a
   case analysis of the next bounds check, whose impossible branch is closed by [lia]. *)
Ltac lenlia := cbn [length arr len cap] in *; unfold cap in *; cbn [length arr len] in *;
               rewrite ?blit_length, ?set_nth_length, ?app_length, ?repeat_length in *; cbn [length] in *; lia.
Ltac cond1 :=
  match goal with
  | |- context [Nat.ltb ?a ?b] =>
      let H := fresh "C" in destruct (Nat.ltb_spec a b) as [H|H]; [try (exfalso; lenlia) | try (exfalso; lenlia)]; clear H
  | |- context [Nat.leb ?a ?b] =>
      let H := fresh "C" in destruct (Nat.leb_spec a b) as [H|H]; [try (exfalso; lenlia) | try (exfalso; lenlia)]; clear H
  end.
Ltac ev_hook := idtac.
Ltac ev := cbn -[Nat.ltb Nat.leb N.to_nat N.of_nat]; rewrite ?blit_nil; ev_hook.
Ltac run := repeat (ev; cond1); ev.
(* the same with Nat.sub blocked (for models that compute padding lengths) *)
Ltac evs := cbn -[Nat.ltb Nat.leb Nat.sub N.to_nat N.of_nat]; rewrite ?blit_nil; ev_hook.
Ltac runs := repeat (evs; cond1); evs.
