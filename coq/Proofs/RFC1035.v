(* Proofs/RFC1035.v — facts about the RFC 1035 name relation and its reference decoder. *)
From PV Require Import Base.Prelude Spec.RFC1035.
Open Scope N_scope.

Lemma name_at_d_name_at msg d off ls next : name_at_d msg d off ls next -> name_at msg off ls next.
Proof. induction 1; econstructor; eauto. Qed.

Lemma name_at_name_at_d msg off ls next : name_at msg off ls next -> exists d, name_at_d msg d off ls next.
Proof.
  induction 1 as [off H | off c ls next H H1 H2 H3 _ [d IH] | off c1 c2 ls next' H H1 H2 _ [d IH]].
  - exists 0%nat. constructor. exact H.
  - exists d. econstructor; eauto.
  - exists (S d). econstructor; eauto.
Qed.

(* the relation is functional *)
Lemma name_at_d_det msg d off ls next : name_at_d msg d off ls next ->
  forall d' ls' nx', name_at_d msg d' off ls' nx' -> d = d' /\ ls = ls' /\ next = nx'.
Proof.
  induction 1 as [off H | d off c ls next H H1 H2 H3 _ IH | d off c1 c2 ls next' H H1 H2 _ IH];
    intros d' ls' nx' H'; inversion H'; subst;
    repeat match goal with
           | A : nth_error ?m ?o = Some ?x, B : nth_error ?m ?o = Some ?y |- _ =>
               assert (x = y) by congruence; subst; clear B
           end; try lia.
  - auto.
  - match goal with X : name_at_d _ _ _ _ _ |- _ => apply IH in X as (-> & -> & ->) end. auto.
  - match goal with X : name_at_d _ _ _ _ _ |- _ => apply IH in X as (-> & -> & _) end. auto.
Qed.

Lemma name_at_det msg off ls next ls' next' :
  name_at msg off ls next -> name_at msg off ls' next' -> ls = ls' /\ next = next'.
Proof.
  intros H H'. apply name_at_name_at_d in H as [d H]. apply name_at_name_at_d in H' as [d' H'].
  destruct (name_at_d_det _ _ _ _ _ H _ _ _ H') as (_ & ? & ?). auto.
Qed.

(* ---- the reference decoder is sound ... ---- *)
Lemma ref_name_sound fuel : forall msg off ls next, bytes_ok msg ->
  ref_name fuel msg off = Some (ls, next) ->
  name_at_d msg (ref_depth fuel msg off) off ls next.
Proof.
  induction fuel as [|f IH]; intros msg off ls next Hok H; [discriminate|].
  cbn [ref_name ref_depth] in *. destruct (nth_error msg off) as [c|] eqn:Hn; [|discriminate].
  destruct (N.eqb_spec c 0) as [->|Hc0].
  { inversion H; subst. constructor. exact Hn. }
  destruct (N.leb_spec c 63).
  { destruct (Nat.leb_spec (off + 1 + N.to_nat c) (length msg)); [|discriminate].
    destruct (ref_name f msg (off + 1 + N.to_nat c)) as [[ls' nx]|] eqn:Hr; [|discriminate].
    inversion H; subst. apply IH in Hr; auto. econstructor; eauto. lia. }
  destruct (N.leb_spec 192 c); [|discriminate].
  destruct (nth_error msg (S off)) as [c2|] eqn:Hn2; [|discriminate].
  destruct (ref_name f msg (N.to_nat ((c - 192) * 256 + c2))) as [[ls' nx]|] eqn:Hr; [|discriminate].
  inversion H; subst. apply IH in Hr; auto. econstructor; eauto.
Qed.

(* ---- ... and complete: with enough fuel it finds every name; [steps] = labels + pointers + 1 ---- *)
Inductive name_at_n (msg : bytes) : nat -> nat -> list bytes -> nat -> Prop :=
| NAn_root : forall off, nth_error msg off = Some 0 -> name_at_n msg 1 off [] (S off)
| NAn_label : forall n off c labels next,
    nth_error msg off = Some c -> 1 <= c -> c <= 63 ->
    (off + 1 + N.to_nat c <= length msg)%nat ->
    name_at_n msg n (off + 1 + N.to_nat c) labels next ->
    name_at_n msg (S n) off (sub msg (S off) (N.to_nat c) :: labels) next
| NAn_ptr : forall n off c1 c2 labels next',
    nth_error msg off = Some c1 -> 192 <= c1 ->
    nth_error msg (S off) = Some c2 ->
    name_at_n msg n (N.to_nat ((c1 - 192) * 256 + c2)) labels next' ->
    name_at_n msg (S n) off labels (off + 2).

Lemma name_at_name_at_n msg off ls next : name_at msg off ls next -> exists n, name_at_n msg n off ls next.
Proof.
  induction 1 as [off H | off c ls next H H1 H2 H3 _ [n IH] | off c1 c2 ls next' H H1 H2 _ [n IH]].
  - exists 1%nat. constructor. exact H.
  - exists (S n). econstructor; eauto.
  - exists (S n). econstructor; eauto.
Qed.

Lemma name_at_n_name_at msg n off ls next : name_at_n msg n off ls next -> name_at msg off ls next.
Proof. induction 1; econstructor; eauto. Qed.

Lemma ref_name_complete msg n off ls next : name_at_n msg n off ls next ->
  forall fuel, (n <= fuel)%nat -> ref_name fuel msg off = Some (ls, next).
Proof.
  induction 1 as [off H | n off c ls next H H1 H2 H3 _ IH | n off c1 c2 ls next' H H1 H2 _ IH];
    intros fuel Hf; destruct fuel as [|f]; try lia; cbn [ref_name]; rewrite H.
  - reflexivity.
  - destruct (N.eqb_spec c 0); [lia|]. destruct (N.leb_spec c 63); [|lia].
    destruct (Nat.leb_spec (off + 1 + N.to_nat c) (length msg)); [|lia].
    rewrite IH by lia. reflexivity.
  - destruct (N.eqb_spec c1 0); [lia|]. destruct (N.leb_spec c1 63); [lia|].
    destruct (N.leb_spec 192 c1); [|lia]. rewrite H2. rewrite IH by lia. reflexivity.
Qed.

(* a name visits every offset at most once: its number of steps is bounded by the message length *)
Lemma name_at_n_det msg n off ls next : name_at_n msg n off ls next ->
  forall n' ls' nx', name_at_n msg n' off ls' nx' -> n = n'.
Proof.
  induction 1 as [off H | n off c ls next H H1 H2 H3 _ IH | n off c1 c2 ls next' H H1 H2 _ IH];
    intros n' ls' nx' H'; inversion H'; subst;
    repeat match goal with
           | A : nth_error ?m ?o = Some ?x, B : nth_error ?m ?o = Some ?y |- _ =>
               assert (x = y) by congruence; subst; clear B
           end; try lia; try reflexivity; try (f_equal; eapply IH; eauto).
Qed.

(* offsets visited by a name, in order *)
Inductive visits (msg : bytes) : nat -> nat -> list nat -> Prop :=
| V_root : forall off, nth_error msg off = Some 0 -> visits msg 1 off [off]
| V_label : forall n off c l,
    nth_error msg off = Some c -> 1 <= c -> c <= 63 ->
    visits msg n (off + 1 + N.to_nat c) l -> visits msg (S n) off (off :: l)
| V_ptr : forall n off c1 c2 l,
    nth_error msg off = Some c1 -> 192 <= c1 -> nth_error msg (S off) = Some c2 ->
    visits msg n (N.to_nat ((c1 - 192) * 256 + c2)) l -> visits msg (S n) off (off :: l).

Lemma name_at_n_visits msg n off ls next : name_at_n msg n off ls next -> exists l, visits msg n off l.
Proof.
  induction 1 as [off H | n off c ls next H H1 H2 H3 _ [l IH] | n off c1 c2 ls next' H H1 H2 _ [l IH]].
  - exists [off]. constructor. exact H.
  - exists (off :: l). eapply V_label; eauto.
  - exists (off :: l). eapply V_ptr; eauto.
Qed.

Lemma visits_length msg n off l : visits msg n off l -> length l = n.
Proof. induction 1; simpl; auto. Qed.

Lemma visits_lt msg n off l : visits msg n off l -> forall o, In o l -> (o < length msg)%nat.
Proof.
  induction 1 as [off H | n off c l H H1 H2 _ IH | n off c1 c2 l H H1 H2 _ IH]; intros o [E|Hin]; auto;
    try (subst o; apply nth_error_Some; congruence); try contradiction.
Qed.

Lemma visits_det msg n off l : visits msg n off l -> forall n' l', visits msg n' off l' -> n = n'.
Proof.
  induction 1 as [off H | n off c l H H1 H2 _ IH | n off c1 c2 l H H1 H2 _ IH];
    intros n' l' H'; inversion H'; subst;
    repeat match goal with
           | A : nth_error ?m ?o = Some ?x, B : nth_error ?m ?o = Some ?y |- _ =>
               assert (x = y) by congruence; subst; clear B
           end; try lia; try reflexivity; try (f_equal; eapply IH; eauto).
Qed.

(* every visited offset starts a visit that is not longer *)
Lemma visits_in msg n off l : visits msg n off l -> forall o, In o l ->
  exists m l', (m <= n)%nat /\ visits msg m o l'.
Proof.
  induction 1 as [off H | n off c l H H1 H2 Hv IH | n off c1 c2 l H H1 H2 Hv IH]; intros o Hin.
  - destruct Hin as [E|[]]. subst o. exists 1%nat, [off]. split; [lia|constructor; exact H].
  - destruct Hin as [E|Hin].
    + subst o. exists (S n), (off :: l). split; [lia|eapply V_label; eauto].
    + destruct (IH o Hin) as (m & l' & Hm & Hv'). exists m, l'. split; [lia|exact Hv'].
  - destruct Hin as [E|Hin].
    + subst o. exists (S n), (off :: l). split; [lia|eapply V_ptr; eauto].
    + destruct (IH o Hin) as (m & l' & Hm & Hv'). exists m, l'. split; [lia|exact Hv'].
Qed.

Lemma visits_nodup msg n off l : visits msg n off l -> NoDup l.
Proof.
  induction 1 as [off H | n off c l H H1 H2 Hv IH | n off c1 c2 l H H1 H2 Hv IH].
  - constructor; [intros []|constructor].
  - constructor; [|exact IH]. intros Hin.
    destruct (visits_in _ _ _ _ Hv off Hin) as (m & l' & Hm & Hv').
    assert (visits msg (S n) off (off :: l)) as Hfull by (eapply V_label; eauto).
    pose proof (visits_det _ _ _ _ Hfull _ _ Hv'). lia.
  - constructor; [|exact IH]. intros Hin.
    destruct (visits_in _ _ _ _ Hv off Hin) as (m & l' & Hm & Hv').
    assert (visits msg (S n) off (off :: l)) as Hfull by (eapply V_ptr; eauto).
    pose proof (visits_det _ _ _ _ Hfull _ _ Hv'). lia.
Qed.

Lemma name_steps_bound msg n off ls next : name_at_n msg n off ls next -> (n <= length msg)%nat.
Proof.
  intros H. destruct (name_at_n_visits _ _ _ _ _ H) as [l Hv].
  rewrite <- (visits_length _ _ _ _ Hv). rewrite <- (seq_length (length msg) 0).
  apply NoDup_incl_length; [eapply visits_nodup; eauto|].
  intros o Ho. apply in_seq. pose proof (visits_lt _ _ _ _ Hv o Ho). lia.
Qed.

(* the reference decoder decides the relation *)
Theorem ref_decode_iff msg off ls next : bytes_ok msg ->
  ref_decode msg off = Some (ls, next) <-> name_at msg off ls next.
Proof.
  intros Hok. unfold ref_decode. split.
  - intros H. eapply name_at_d_name_at. apply ref_name_sound; eauto.
  - intros H. apply name_at_name_at_n in H as [n H].
    eapply ref_name_complete; eauto. pose proof (name_steps_bound _ _ _ _ _ H). lia.
Qed.

Lemma ref_decode_depth msg off ls next : bytes_ok msg ->
  ref_decode msg off = Some (ls, next) -> name_at_d msg (ref_depth (S (length msg)) msg off) off ls next.
Proof. intros Hok H. apply ref_name_sound; auto. Qed.

Lemma ref_decode_none msg off : bytes_ok msg ->
  ref_decode msg off = None -> forall ls next, ~ name_at msg off ls next.
Proof. intros Hok H ls next Hn. apply ref_decode_iff in Hn; auto. congruence. Qed.

(* ------------------------------------------------------------------ *)
(* Classes of malformed names: none of them is a name *)

Ltac same_byte :=
  repeat match goal with
         | A : nth_error ?m ?o = Some ?x, B : nth_error ?m ?o = Some ?y |- _ =>
             assert (x = y) by congruence; subst; clear B
         end.

Lemma no_name_beyond (msg : bytes) off : (length msg <= off)%nat -> forall ls next, ~ name_at msg off ls next.
Proof.
  intros H ls next Hn. apply nth_error_None in H. inversion Hn; subst; congruence.
Qed.

Lemma no_name_reserved (msg : bytes) off (c : byte) : nth_error msg off = Some c -> 64 <= c -> c < 192 ->
  forall ls next, ~ name_at msg off ls next.
Proof.
  intros H H1 H2 ls next Hn. inversion Hn; subst; same_byte; lia.
Qed.

Lemma no_name_label_truncated (msg : bytes) off (c : byte) : nth_error msg off = Some c -> 1 <= c -> c <= 63 ->
  (length msg < off + 1 + N.to_nat c)%nat -> forall ls next, ~ name_at msg off ls next.
Proof.
  intros H H1 H2 H3 ls next Hn. inversion Hn; subst; same_byte; lia.
Qed.

Lemma no_name_ptr_truncated (msg : bytes) off (c : byte) : nth_error msg off = Some c -> 192 <= c ->
  nth_error msg (S off) = None -> forall ls next, ~ name_at msg off ls next.
Proof.
  intros H H1 H2 ls next Hn. inversion Hn; subst; same_byte; try lia; congruence.
Qed.

(* one step of the walk: over a label, or along a pointer *)
Inductive step (msg : bytes) : nat -> nat -> Prop :=
| St_label : forall off c, nth_error msg off = Some c -> 1 <= c -> c <= 63 ->
    step msg off (off + 1 + N.to_nat c)
| St_ptr : forall off c1 c2, nth_error msg off = Some c1 -> 192 <= c1 -> nth_error msg (S off) = Some c2 ->
    step msg off (N.to_nat ((c1 - 192) * 256 + c2)).

Inductive steps (msg : bytes) : nat -> nat -> nat -> Prop :=
| Ss_0 : forall off, steps msg 0 off off
| Ss_S : forall k a b c, step msg a b -> steps msg k b c -> steps msg (S k) a c.

Lemma name_at_n_step msg n off ls next off' : name_at_n msg n off ls next -> step msg off off' ->
  exists m ls' next', n = S m /\ name_at_n msg m off' ls' next'.
Proof.
  intros Hn Hs. inversion Hs; subst; inversion Hn; subst;
    repeat match goal with
           | A : nth_error ?m ?o = Some ?x, B : nth_error ?m ?o = Some ?y |- _ =>
               assert (x = y) by congruence; subst; clear B
           end; try lia; eauto.
Qed.

Lemma name_at_n_steps msg k : forall n off ls next off', name_at_n msg n off ls next -> steps msg k off off' ->
  exists m ls' next', n = (k + m)%nat /\ name_at_n msg m off' ls' next'.
Proof.
  induction k as [|k IH]; intros n off ls next off' Hn Hs; inversion Hs; subst.
  - exists n, ls, next. auto.
  - destruct (name_at_n_step _ _ _ _ _ _ Hn H0) as (m & ls' & nx' & -> & Hm).
    destruct (IH _ _ _ _ _ Hm H1) as (m' & ls'' & nx'' & -> & Hm').
    exists m', ls'', nx''. split; [lia|exact Hm'].
Qed.

(* a compression loop (the walk returns to an offset it has visited) is not a name;
   nor is anything that leads into one *)
Theorem no_name_loop msg off k : (1 <= k)%nat -> steps msg k off off ->
  forall ls next, ~ name_at msg off ls next.
Proof.
  intros Hk Hs ls next Hn. apply name_at_name_at_n in Hn as [n Hn].
  destruct (name_at_n_steps _ _ _ _ _ _ _ Hn Hs) as (m & ls' & nx' & E & Hm).
  pose proof (name_at_n_det _ _ _ _ _ Hn _ _ _ Hm). lia.
Qed.

Theorem no_name_into msg off off' k : steps msg k off off' ->
  (forall ls next, ~ name_at msg off' ls next) -> forall ls next, ~ name_at msg off ls next.
Proof.
  intros Hs Hno ls next Hn. apply name_at_name_at_n in Hn as [n Hn].
  destruct (name_at_n_steps _ _ _ _ _ _ _ Hn Hs) as (m & ls' & nx' & E & Hm).
  apply name_at_n_name_at in Hm. eapply Hno; eauto.
Qed.

(* ------------------------------------------------------------------ *)
(* a name cannot be longer than 64 octets per step of its walk: 64 * length msg bounds every name *)
Lemma name_at_n_wire_len msg n off ls next : bytes_ok msg -> name_at_n msg n off ls next -> (wire_len ls <= 64 * n)%nat.
Proof.
  intros Hok. induction 1 as [off H | n off c ls next H H1 H2 H3 _ IH | n off c1 c2 ls next' H H1 H2 _ IH];
    cbn [wire_len]; try lia.
  rewrite sub_length by lia. lia.
Qed.

Lemma name_at_wire_len msg off ls next : bytes_ok msg -> name_at msg off ls next ->
  (wire_len ls <= 64 * length msg)%nat.
Proof.
  intros Hok H. apply name_at_name_at_n in H as [n H].
  pose proof (name_at_n_wire_len _ _ _ _ _ Hok H). pose proof (name_steps_bound _ _ _ _ _ H). nia.
Qed.
