(* Proofs/HandlersDnsMsg.v — ProcessMDNS / ProcessNBNS over the abstract dnsmessage parser:
   total outside the fixed-point classes, never terminating inside them. *)
From PV Require Import Base.Prelude Base.Slice Model.HandlersLoop Model.HandlersDnsMsg.
From PV Require Import Proofs.HandlersTac Proofs.HandlersLoop.
Open Scope N_scope.

Lemma pstate_eqb_eq a b : pstate_eqb a b = true -> a = b.
Proof.
  destruct a as [s i v p], b as [s' i' v' p']. unfold pstate_eqb; cbn.
  intros H. repeat (apply andb_prop in H; destruct H as [H ?]).
  apply Nat.eqb_eq in H. apply Nat.eqb_eq in H0, H2. apply Bool.eqb_prop in H1. congruence.
Qed.

Lemma mdns_state_eqb_eq a b : mdns_state_eqb a b = true -> a = b.
Proof.
  destruct a as [st s], b as [st' s']. unfold mdns_state_eqb; cbn.
  intros H. apply andb_prop in H. destruct H as [H1 H2].
  apply pstate_eqb_eq in H1. apply Nat.eqb_eq in H2. congruence.
Qed.

Lemma pstate_eqb_refl a : pstate_eqb a a = true.
Proof.
  destruct a as [s i v p]. unfold pstate_eqb; cbn.
  rewrite !Nat.eqb_refl. destruct v; reflexivity.
Qed.

(* measure: records left, sections left, and whether a header is pending *)
Definition pmu (m : dmsg) (st : pstate) : nat :=
  (2 * (List.length (m_recs m) - p_pos st) + (if p_valid st then 0 else 1))%nat.

Lemma check_advance_cases m st sec st1 e :
  check_advance m st sec = (st1, e) ->
  (e = Some PNotStarted /\ st1 = st) \/
  (e = Some PSectionDone /\ st1 = st) \/
  (e = Some PSectionDone /\ p_pos st1 = p_pos st /\ p_valid st1 = false) \/
  (e = None /\ st1 = mkP (p_section st) (p_index st) false (p_pos st)).
Proof.
  unfold check_advance. intros H.
  destruct (Nat.ltb (p_section st) sec); [injection H as <- <-; auto|].
  destruct (Nat.ltb sec (p_section st)); [injection H as <- <-; auto|].
  destruct (Nat.eqb (p_index st) (count m sec)); injection H as <- <-; auto.
  right; right; left. auto.
Qed.

Lemma resource_header_rec m st sec st1 r :
  resource_header m st sec = (st1, inr r) ->
  st1 = mkP (p_section st) (p_index st) true (p_pos st) /\
  nth_error (m_recs m) (p_pos st) = Some r.
Proof.
  unfold resource_header. destruct (check_advance m st sec) as [st0 [e|]] eqn:E; [intros H; discriminate|].
  apply check_advance_cases in E.
  destruct E as [[E _]|[[E _]|[[E _]|[_ ->]]]]; try discriminate.
  cbn [p_pos p_section p_index].
  destruct (nth_error (m_recs m) (p_pos st)) as [r0|] eqn:En; [|intros H; discriminate].
  destruct (r_hdr_ok r0); intros H; [|discriminate].
  injection H as <- <-. auto.
Qed.

Lemma resource_header_done m st sec st1 :
  resource_header m st sec = (st1, inl PSectionDone) ->
  st1 = st \/ (p_pos st1 = p_pos st /\ p_valid st1 = false).
Proof.
  unfold resource_header. destruct (check_advance m st sec) as [st0 [e|]] eqn:E.
  - intros H. injection H as H1 H2. subst st0 e. apply check_advance_cases in E.
    destruct E as [[E ?]|[[E ?]|[[E ?]|[E _]]]]; try discriminate; auto.
  - destruct (nth_error (m_recs m) (p_pos st0)) as [r0|]; [destruct (r_hdr_ok r0)|]; intros H; discriminate.
Qed.

Lemma nth_error_lt {A} (l : list A) n x : nth_error l n = Some x -> (n < List.length l)%nat.
Proof. intros H. apply nth_error_Some. congruence. Qed.

(* consuming the current record, or leaving the state alone *)
Definition consumed_or_same (m : dmsg) (st st' : pstate) : Prop :=
  st' = st \/ (st' = consume st /\ (p_pos st < List.length (m_recs m))%nat).

Lemma typed_resource_cases m st ty st' e : typed_resource m st ty = (st', e) ->
  (e <> None /\ st' = st) \/ (e = None /\ st' = consume st /\ (p_pos st < List.length (m_recs m))%nat).
Proof.
  unfold typed_resource, cur. destruct (nth_error (m_recs m) (p_pos st)) as [r|] eqn:En.
  - apply nth_error_lt in En.
    destruct (negb (p_valid st) || negb (r_type r =? ty)); [intros H; injection H as <- <-; left; split; [discriminate|reflexivity]|].
    destruct (r_body_ok r); intros H; injection H as <- <-; [right; auto|left; split; [discriminate|reflexivity]].
  - intros H; injection H as <- <-. left; split; [discriminate|reflexivity].
Qed.

Lemma unknown_resource_cases m st st' e : unknown_resource m st = (st', e) ->
  (e <> None /\ st' = st) \/ (e = None /\ st' = consume st /\ (p_pos st < List.length (m_recs m))%nat).
Proof.
  unfold unknown_resource, cur. destruct (nth_error (m_recs m) (p_pos st)) as [r|] eqn:En.
  - apply nth_error_lt in En.
    destruct (negb (p_valid st)); [intros H; injection H as <- <-; left; split; [discriminate|reflexivity]|].
    destruct (r_fits r); intros H; injection H as <- <-; [right; auto|left; split; [discriminate|reflexivity]].
  - intros H; injection H as <- <-. left; split; [discriminate|reflexivity].
Qed.

(* with the parser inside the section being asked for *)
Lemma check_advance_eq m st sec : p_section st = sec ->
  check_advance m st sec =
    if Nat.eqb (p_index st) (count m sec)
    then (mkP (S sec) 0 false (p_pos st), Some PSectionDone)
    else (mkP sec (p_index st) false (p_pos st), None).
Proof.
  intros <-. unfold check_advance. rewrite Nat.ltb_irrefl. reflexivity.
Qed.

Inductive hdr_result (m : dmsg) (st : pstate) (sec : nat) : pstate * (perr + rrec) -> Prop :=
| HdrDone : hdr_result m st sec (mkP (S sec) 0 false (p_pos st), inl PSectionDone)
| HdrErr : hdr_result m st sec (mkP sec (p_index st) false (p_pos st), inl POther)
| HdrRec r : nth_error (m_recs m) (p_pos st) = Some r ->
    hdr_result m st sec (mkP sec (p_index st) true (p_pos st), inr r).

Lemma resource_header_eq m st sec : p_section st = sec ->
  hdr_result m st sec (resource_header m st sec).
Proof.
  intros Hs. unfold resource_header. rewrite (check_advance_eq m st sec Hs).
  destruct (Nat.eqb (p_index st) (count m sec)); [constructor|].
  cbn [p_pos p_section p_index].
  destruct (nth_error (m_recs m) (p_pos st)) as [r|] eqn:E; [|constructor].
  destruct (r_hdr_ok r); [constructor; exact E|constructor].
Qed.

(* skipResource on a pending header in its own section: consumes or fails without change *)
Lemma skip_resource_valid m st sec : p_valid st = true -> p_section st = sec ->
  skip_resource m st sec = (st, Some POther) \/
  (skip_resource m st sec = (consume st, None) /\ (p_pos st < List.length (m_recs m))%nat).
Proof.
  intros Hv Hs. unfold skip_resource. rewrite Hv, Hs, Nat.eqb_refl. cbn [andb].
  unfold cur. destruct (nth_error (m_recs m) (p_pos st)) as [r|] eqn:En; [|left; reflexivity].
  apply nth_error_lt in En. destruct (r_fits r); [right; auto|left; reflexivity].
Qed.

Lemma pmu_hdr m st st1 : st1 = mkP (p_section st) (p_index st) true (p_pos st) ->
  (st1 = st /\ p_valid st = true) \/ (pmu m st1 < pmu m st)%nat /\ p_valid st = false.
Proof.
  intros ->. destruct st as [s i v p]. cbn [p_section p_index p_pos]. destruct v.
  - left; auto.
  - right. unfold pmu; cbn. split; [lia|reflexivity].
Qed.

Lemma pmu_consume m st : (p_pos st < List.length (m_recs m))%nat -> p_valid st = true ->
  (pmu m (consume st) < pmu m st)%nat.
Proof. intros H Hv. unfold pmu, consume; cbn. rewrite Hv. lia. Qed.

(* ---------------------------------------------------------------- mDNS (as repaired, #20) *)
Section MDNS.
  Variable m : dmsg.
  Let n := List.length (m_recs m).

  Definition mdns_mu (x : mdns_state) : nat := (pmu m (fst x) + 2 * (5 - snd x))%nat.
  Definition mdns_inv (x : mdns_state) : Prop := p_section (fst x) = snd x /\ (snd x <= 5)%nat.

  (* a continuing step consumed one record or moved to the next section *)
  Definition mdns_progress (x x' : mdns_state) : Prop :=
    mdns_inv x' /\ (mdns_mu x' < mdns_mu x)%nat.

  Lemma mdns_consume_progress st sec st1 :
    (sec <= 5)%nat -> st1 = mkP sec (p_index st) true (p_pos st) ->
    (p_pos st < n)%nat -> mdns_progress (st, sec) (consume st1, sec).
  Proof.
    intros Hs -> Hp. unfold mdns_progress, mdns_inv, mdns_mu, pmu, consume; cbn [fst snd p_pos p_valid p_section p_index]. fold n.
    split; [auto|]. destruct (p_valid st); lia.
  Qed.

  Lemma mdns_skip_progress st sec st1 x' :
    (sec <= 5)%nat -> st1 = mkP sec (p_index st) true (p_pos st) ->
    mdns_skip m st1 sec = Cont x' -> mdns_progress (st, sec) x'.
  Proof.
    intros Hs H1. unfold mdns_skip.
    destruct (skip_resource_valid m st1 sec) as [E|[E Hp]]; try (subst st1; reflexivity).
    - rewrite E. discriminate.
    - rewrite E. intros H; apply (f_equal (fun l => match l with Cont y => y | _ => x' end)) in H.
      subst x'. subst st1. cbn [p_pos] in Hp. apply mdns_consume_progress; auto.
  Qed.

  Lemma mdns_skip_stop st sec r : mdns_skip m st sec = Stop r -> safe r.
  Proof.
    unfold mdns_skip. destruct (skip_resource m st sec) as [st' [e|]]; intros H; [|discriminate].
    injection H as <-. sdone.
  Qed.

  Lemma mdns_step_progress x x' : mdns_inv x -> mdns_step m x = Cont x' -> mdns_progress x x'.
  Proof.
    destruct x as [st sec]. unfold mdns_inv; cbn [fst snd]. intros [Hsec Hs]. unfold mdns_step.
    destruct (resource_header_eq m st sec Hsec) as [| |r Hn].
    - destruct (Nat.eqb_spec sec secAdditionals); [discriminate|].
      intros H; injection H as <-. unfold secAdditionals in *.
      unfold mdns_progress, mdns_inv, mdns_mu, pmu; cbn [fst snd p_pos p_valid p_section p_index]. split; [lia|]. destruct (p_valid st); lia.
    - discriminate.
    - apply nth_error_lt in Hn. fold n in Hn.
      set (st1 := mkP sec (p_index st) true (p_pos st)).
      assert (H1 : st1 = mkP sec (p_index st) true (p_pos st)) by reflexivity.
      destruct ((r_type r =? ty_A) || (r_type r =? ty_AAAA)).
      { destruct (typed_resource m st1 (r_type r)) as [st2 [e|]] eqn:Et; [discriminate|].
        apply typed_resource_cases in Et. destruct Et as [[Hc _]|[_ [-> Hp]]]; [congruence|].
        intros H; injection H as <-. apply mdns_consume_progress; auto. }
      destruct ((r_type r =? ty_PTR) || (r_type r =? ty_SRV) || (r_type r =? ty_TXT) || (r_type r =? ty_OPT)).
      { destruct (typed_resource m st1 (r_type r)) as [st2 [e|]] eqn:Et;
          apply typed_resource_cases in Et.
        - destruct Et as [[_ ->]|[Hc _]]; [|discriminate]. apply mdns_skip_progress; auto.
        - destruct Et as [[Hc _]|[_ [-> Hp]]]; [congruence|].
          intros H; injection H as <-. apply mdns_consume_progress; auto. }
      apply mdns_skip_progress; auto.
  Qed.

  Lemma mdns_stop_safe x r : mdns_inv x -> mdns_step m x = Stop r -> safe r.
  Proof.
    destruct x as [st sec]. intros _. unfold mdns_step.
    destruct (resource_header m st sec) as [st1 [e|r0]] eqn:Eh.
    - destruct e; try (intros H; injection H as <-; sdone).
      destruct (Nat.eqb sec secAdditionals); intros H; [injection H as <-; sdone|discriminate].
    - destruct ((r_type r0 =? ty_A) || (r_type r0 =? ty_AAAA)).
      { destruct (typed_resource m st1 (r_type r0)) as [st2 [e|]]; intros H; [injection H as <-; sdone|discriminate]. }
      destruct ((r_type r0 =? ty_PTR) || (r_type r0 =? ty_SRV) || (r_type r0 =? ty_TXT) || (r_type r0 =? ty_OPT)).
      { destruct (typed_resource m st1 (r_type r0)) as [st2 [e|]]; [apply mdns_skip_stop|discriminate]. }
      apply mdns_skip_stop.
  Qed.

  Theorem process_mdns_total :
    forall fuel, (2 * n + 8 <= fuel)%nat -> safe (process_mdns fuel m).
  Proof.
    unfold process_mdns. intros fuel Hf.
    destruct (m_start_ok m); cbn [negb]; [|sdone].
    destruct (m_response m); cbn [negb]; [|sdone].
    destruct (m_skipq_ok m); cbn [negb]; [|sdone].
    eapply (iter_total_dec (mdns_step m) mdns_mu mdns_inv
              (fun x x' Hi E => proj1 (mdns_step_progress x x' Hi E)) mdns_stop_safe
              (fun x x' Hi E => proj2 (mdns_step_progress x x' Hi E)) (2 * n + 8)).
    - unfold mdns_inv, start_state, secAnswers; cbn [fst snd p_pos p_valid p_section p_index]; lia.
    - unfold mdns_mu, pmu, start_state, secAnswers; cbn [fst snd p_pos p_valid]. fold n. lia.
    - exact Hf.
  Qed.
End MDNS.

(* the former witnesses of #20 and of the ignored SkipAnswer error now terminate *)
Definition mdns_w_authority : dmsg :=
  mkMsg true true true 0 1 0 [mkRec true 47 false true true []].
Definition mdns_w_answer_nofit : dmsg :=
  mkMsg true true true 1 0 0 [mkRec true 12 false false false []].
Definition mdns_w_good : dmsg :=
  mkMsg true true true 2 1 1
    [mkRec true 12 true true true []; mkRec true 47 false true true [];
     mkRec true 1 true true true []; mkRec true 47 true true true []].

Lemma mdns_nonvacuous :
  process_mdns 16 mdns_w_good = Ok tt /\ process_mdns 16 mdns_w_authority = Ok tt /\
  process_mdns 16 mdns_w_answer_nofit = Err EOther.
Proof. repeat split; vm_compute; reflexivity. Qed.

(* ---------------------------------------------------------------- NBNS node name array *)
Lemma node_names_ok n : forall i b have, (18 * (i + n) <= cap b)%nat ->
  exists v, node_names n i b have = Ok v.
Proof.
  induction n as [|n IH]; intros i b have H; cbn [node_names]; [eauto|].
  rewrite be16_at_ok by lia. cbn [bind].
  destruct (N.land _ 32768 =? 0).
  - rewrite sl_ok by lia. cbn [bind]. apply IH; lia.
  - apply IH; lia.
Qed.

Theorem node_status_total b : wf b -> safe (node_status_response b).
Proof.
  intros Hw. unfold node_status_response, parse_node_name_array.
  destruct (Nat.ltb_spec (len b) 3); [sdone|].
  destruct (Nat.ltb_spec (len b) 1); [lia|].
  rewrite idx_ok by lia. cbn [bind]. rewrite slfrom_ok by lia. cbn [bind len].
  set (n := N.to_nat (nth 0 (arr b) 0)) in *. clearbody n.
  destruct (Nat.ltb_spec (len b - 1) (n * 18)); [sdone|].
  destruct (node_names_ok n 0 (mkSlice (skipn 1 (arr b)) (len b - 1)) false) as [v Hv].
  - unfold wf, cap in *; cbn [arr]. rewrite skipn_length. lia.
  - rewrite Hv. sdone.
Qed.

(* ---------------------------------------------------------------- NBNS loop (as repaired, #19) *)
Section NBNS.
  Variable m : dmsg.
  Let n := List.length (m_recs m).

  Lemma of_bytes_wf l : wf (of_bytes l).
  Proof. unfold wf, of_bytes, cap; cbn. lia. Qed.

  Definition nbns_inv (st : pstate) : Prop := p_section st = secAnswers.

  Lemma nbns_step_progress st st' : nbns_inv st -> nbns_step m st = Cont st' ->
    nbns_inv st' /\ (pmu m st' < pmu m st)%nat.
  Proof.
    unfold nbns_inv. intros Hsec. unfold nbns_step.
    destruct (resource_header_eq m st secAnswers Hsec) as [| |r Hn]; try discriminate.
    apply nth_error_lt in Hn. fold n in Hn.
    set (st1 := mkP secAnswers (p_index st) true (p_pos st)).
    assert (Hc : nbns_inv (consume st1) /\ (pmu m (consume st1) < pmu m st)%nat).
    { unfold nbns_inv, pmu, consume, st1; cbn [fst snd p_pos p_valid p_section p_index]. fold n. split; [reflexivity|]. destruct (p_valid st); lia. }
    destruct (r_type r =? 33).
    - destruct (unknown_resource m st1) as [st2 [e|]] eqn:Eu; [discriminate|].
      apply unknown_resource_cases in Eu. destruct Eu as [[Hx _]|[_ [-> Hp]]]; [congruence|].
      destruct (node_status_response (of_bytes (r_data r))) as [[|]| | |]; try discriminate;
        intros H'; injection H' as <-; exact Hc.
    - destruct (skip_resource_valid m st1 secAnswers) as [E|[E Hp]]; try reflexivity; rewrite E.
      + discriminate.
      + intros H'; injection H' as <-. exact Hc.
  Qed.

  Lemma nbns_stop_safe : forall st r, nbns_inv st -> nbns_step m st = Stop r -> safe r.
  Proof.
    intros st r _. unfold nbns_step.
    destruct (resource_header m st secAnswers) as [st1 [e|r0]] eqn:Eh.
    { destruct e; intros H; injection H as <-; sdone. }
    destruct (r_type r0 =? 33) eqn:Et.
    - destruct (unknown_resource m st1) as [st2 [e|]]; [intros H; injection H as <-; sdone|].
      pose proof (node_status_total _ (of_bytes_wf (r_data r0))) as [Hp Hf].
      destruct (node_status_response (of_bytes (r_data r0))) as [[|]| | |]; try congruence;
        try discriminate; intros H; injection H as <-; sdone.
    - destruct (skip_resource m st1 secAnswers) as [st2 [e|]]; [intros H; injection H as <-; sdone|discriminate].
  Qed.

  Theorem process_nbns_total valid :
    forall fuel, (2 * n + 4 <= fuel)%nat -> safe (process_nbns fuel valid m).
  Proof.
    unfold process_nbns. intros fuel Hf.
    destruct valid; cbn [negb]; [|sdone].
    destruct (m_start_ok m); cbn [negb]; [|sdone].
    destruct (m_response m); cbn [negb]; [|sdone].
    destruct (m_skipq_ok m); cbn [negb]; [|sdone].
    eapply (iter_total_dec (nbns_step m) (pmu m) nbns_inv
              (fun x x' Hi E => proj1 (nbns_step_progress x x' Hi E)) nbns_stop_safe
              (fun x x' Hi E => proj2 (nbns_step_progress x x' Hi E)) (2 * n + 4)).
    - reflexivity.
    - unfold pmu, start_state; cbn [p_pos p_valid]. fold n. lia.
    - exact Hf.
  Qed.
End NBNS.

(* the former witnesses of #19 (answers of type 0x20 / of another type) are now skipped *)
Definition nbns_w_name_answer : dmsg := mkMsg true true true 1 0 0 [mkRec true 32 false true true []].
Definition nbns_w_unknown_answer : dmsg := mkMsg true true true 1 0 0 [mkRec true 1 true true true [192;168;0;1]].
Definition nbns_w_good : dmsg :=
  mkMsg true true true 1 0 0 [mkRec true 33 false true true (1 :: repeat 65 15 ++ [32; 4; 0] ++ repeat 0 46)].

Lemma nbns_nonvacuous :
  process_nbns 10 true nbns_w_good = Ok tt /\ process_nbns 10 true nbns_w_name_answer = Ok tt /\
  process_nbns 10 true nbns_w_unknown_answer = Ok tt.
Proof. repeat split; vm_compute; reflexivity. Qed.
