(* Proofs/HandlersDnsMsg.v — ProcessMDNS / ProcessNBNS over the abstract dnsmessage parser:
   total outside the fixed-point classes, never terminating inside them. *)
From PV Require Import Base.Prelude Base.Slice Model.HandlersLoop Model.HandlersDnsMsg.
From PV Require Import Proofs.HandlersTac Proofs.HandlersLoop.
Open Scope N_scope.

Lemma pstate_eqb_eq a b : pstate_eqb a b = true -> a = b.
Proof.
  destruct a as [s i v p], b as [s' i' v' p']. unfold pstate_eqb; cbn.
  intros H. repeat (apply andb_prop in H; destruct H as [H ?]).
  apply Nat.eqb_eq in H. apply Nat.eqb_eq in H0, H2. apply Bool.eqb_prop in H1. congruence.
Qed.

Lemma mdns_state_eqb_eq a b : mdns_state_eqb a b = true -> a = b.
Proof.
  destruct a as [st s], b as [st' s']. unfold mdns_state_eqb; cbn.
  intros H. apply andb_prop in H. destruct H as [H1 H2].
  apply pstate_eqb_eq in H1. apply Nat.eqb_eq in H2. congruence.
Qed.

Lemma pstate_eqb_refl a : pstate_eqb a a = true.
Proof.
  destruct a as [s i v p]. unfold pstate_eqb; cbn.
  rewrite !Nat.eqb_refl. destruct v; reflexivity.
Qed.

(* measure: records left, sections left, and whether a header is pending *)
Definition pmu (m : dmsg) (st : pstate) : nat :=
  (2 * (List.length (m_recs m) - p_pos st) + (if p_valid st then 0 else 1))%nat.

Lemma check_advance_cases m st sec st1 e :
  check_advance m st sec = (st1, e) ->
  (e = Some PNotStarted /\ st1 = st) \/
  (e = Some PSectionDone /\ st1 = st) \/
  (e = Some PSectionDone /\ p_pos st1 = p_pos st /\ p_valid st1 = false) \/
  (e = None /\ st1 = mkP (p_section st) (p_index st) false (p_pos st)).
Proof.
  unfold check_advance. intros H.
  destruct (Nat.ltb (p_section st) sec); [injection H as <- <-; auto|].
  destruct (Nat.ltb sec (p_section st)); [injection H as <- <-; auto|].
  destruct (Nat.eqb (p_index st) (count m sec)); injection H as <- <-; auto.
  right; right; left. auto.
Qed.

Lemma resource_header_rec m st sec st1 r :
  resource_header m st sec = (st1, inr r) ->
  st1 = mkP (p_section st) (p_index st) true (p_pos st) /\
  nth_error (m_recs m) (p_pos st) = Some r.
Proof.
  unfold resource_header. destruct (check_advance m st sec) as [st0 [e|]] eqn:E; [intros H; discriminate|].
  apply check_advance_cases in E.
  destruct E as [[E _]|[[E _]|[[E _]|[_ ->]]]]; try discriminate.
  cbn [p_pos p_section p_index].
  destruct (nth_error (m_recs m) (p_pos st)) as [r0|] eqn:En; [|intros H; discriminate].
  destruct (r_hdr_ok r0); intros H; [|discriminate].
  injection H as <- <-. auto.
Qed.

Lemma resource_header_done m st sec st1 :
  resource_header m st sec = (st1, inl PSectionDone) ->
  st1 = st \/ (p_pos st1 = p_pos st /\ p_valid st1 = false).
Proof.
  unfold resource_header. destruct (check_advance m st sec) as [st0 [e|]] eqn:E.
  - intros H. injection H as H1 H2. subst st0 e. apply check_advance_cases in E.
    destruct E as [[E ?]|[[E ?]|[[E ?]|[E _]]]]; try discriminate; auto.
  - destruct (nth_error (m_recs m) (p_pos st0)) as [r0|]; [destruct (r_hdr_ok r0)|]; intros H; discriminate.
Qed.

Lemma nth_error_lt {A} (l : list A) n x : nth_error l n = Some x -> (n < List.length l)%nat.
Proof. intros H. apply nth_error_Some. congruence. Qed.

(* consuming the current record, or leaving the state alone *)
Definition consumed_or_same (m : dmsg) (st st' : pstate) : Prop :=
  st' = st \/ (st' = consume st /\ (p_pos st < List.length (m_recs m))%nat).

Lemma typed_resource_cases m st ty st' e : typed_resource m st ty = (st', e) ->
  (e <> None /\ st' = st) \/ (e = None /\ st' = consume st /\ (p_pos st < List.length (m_recs m))%nat).
Proof.
  unfold typed_resource, cur. destruct (nth_error (m_recs m) (p_pos st)) as [r|] eqn:En.
  - apply nth_error_lt in En.
    destruct (negb (p_valid st) || negb (r_type r =? ty)); [intros H; injection H as <- <-; left; split; [discriminate|reflexivity]|].
    destruct (r_body_ok r); intros H; injection H as <- <-; [right; auto|left; split; [discriminate|reflexivity]].
  - intros H; injection H as <- <-. left; split; [discriminate|reflexivity].
Qed.

Lemma unknown_resource_cases m st st' e : unknown_resource m st = (st', e) ->
  (e <> None /\ st' = st) \/ (e = None /\ st' = consume st /\ (p_pos st < List.length (m_recs m))%nat).
Proof.
  unfold unknown_resource, cur. destruct (nth_error (m_recs m) (p_pos st)) as [r|] eqn:En.
  - apply nth_error_lt in En.
    destruct (negb (p_valid st)); [intros H; injection H as <- <-; left; split; [discriminate|reflexivity]|].
    destruct (r_fits r); intros H; injection H as <- <-; [right; auto|left; split; [discriminate|reflexivity]].
  - intros H; injection H as <- <-. left; split; [discriminate|reflexivity].
Qed.

(* SkipAnswer on a state with a pending header *)
Lemma skip_answer_valid m st : p_valid st = true ->
  consumed_or_same m st (fst (skip_resource m st secAnswers)).
Proof.
  intros Hv. unfold skip_resource, consumed_or_same. rewrite Hv. cbn [andb].
  destruct (Nat.eqb (p_section st) secAnswers) eqn:Es.
  - unfold cur. destruct (nth_error (m_recs m) (p_pos st)) as [r|] eqn:En; [|left; reflexivity].
    apply nth_error_lt in En. destruct (r_fits r); cbn [fst]; auto.
  - apply Nat.eqb_neq in Es. unfold check_advance.
    destruct (Nat.ltb_spec (p_section st) secAnswers); [left; reflexivity|].
    destruct (Nat.ltb_spec secAnswers (p_section st)); [left; reflexivity|]. lia.
Qed.

Lemma pmu_hdr m st st1 : st1 = mkP (p_section st) (p_index st) true (p_pos st) ->
  (st1 = st /\ p_valid st = true) \/ (pmu m st1 < pmu m st)%nat /\ p_valid st = false.
Proof.
  intros ->. destruct st as [s i v p]. cbn [p_section p_index p_pos]. destruct v.
  - left; auto.
  - right. unfold pmu; cbn. split; [lia|reflexivity].
Qed.

Lemma pmu_consume m st : (p_pos st < List.length (m_recs m))%nat -> p_valid st = true ->
  (pmu m (consume st) < pmu m st)%nat.
Proof. intros H Hv. unfold pmu, consume; cbn. rewrite Hv. lia. Qed.

(* ---------------------------------------------------------------- mDNS *)
Section MDNS.
  Variable m : dmsg.
  Let n := List.length (m_recs m).

  Definition mdns_mu (x : mdns_state) : nat := (pmu m (fst x) + 2 * (5 - snd x))%nat.
  Definition mdns_inv (x : mdns_state) : Prop := (snd x <= 5)%nat.

  Lemma mdns_skip_dec st st1 sec :
    st1 = mkP (p_section st) (p_index st) true (p_pos st) ->
    mdns_state_eqb (st, sec) (fst (skip_resource m st1 secAnswers), sec) = false ->
    (mdns_mu (fst (skip_resource m st1 secAnswers), sec) < mdns_mu (st, sec))%nat.
  Proof.
    intros H1 Hne. unfold mdns_mu; cbn [fst snd].
    assert (Hv1 : p_valid st1 = true) by (subst st1; reflexivity).
    destruct (skip_answer_valid m st1 Hv1) as [Hs|[Hs Hp]]; rewrite Hs in *.
    - destruct (pmu_hdr m st st1 H1) as [[-> _]|[Hlt _]]; [|lia].
      unfold mdns_state_eqb in Hne; cbn [fst snd] in Hne.
      rewrite pstate_eqb_refl, Nat.eqb_refl in Hne. discriminate.
    - pose proof (pmu_consume m st1 Hp Hv1).
      destruct (pmu_hdr m st st1 H1) as [[-> _]|[Hlt _]]; lia.
  Qed.

  Lemma mdns_step_dec x x' : mdns_inv x -> mdns_step m x = Cont x' ->
    mdns_state_eqb x x' = false -> (mdns_mu x' < mdns_mu x)%nat.
  Proof.
    destruct x as [st sec]. unfold mdns_inv; cbn [snd]. intros Hs. unfold mdns_step.
    destruct (resource_header m st sec) as [st1 [e|r]] eqn:Eh.
    - destruct e; try discriminate.
      destruct (Nat.eqb_spec sec secAdditionals); [discriminate|].
      intros H; injection H as <-. intros _. unfold secAdditionals in *.
      apply resource_header_done in Eh. unfold mdns_mu; cbn [fst snd].
      destruct Eh as [->|[Hp Hv]]; [lia|]. unfold pmu. rewrite Hp, Hv.
      destruct (p_valid st); lia.
    - apply resource_header_rec in Eh. destruct Eh as [H1 Hn].
      assert (Hv1 : p_valid st1 = true) by (subst st1; reflexivity).
      assert (Hp1 : p_pos st1 = p_pos st) by (subst st1; reflexivity).
      assert (Hle : (pmu m st1 <= pmu m st)%nat).
      { destruct (pmu_hdr m st st1 H1) as [[-> _]|[Hlt _]]; lia. }
      destruct ((r_type r =? ty_A) || (r_type r =? ty_AAAA)).
      { destruct (typed_resource m st1 (r_type r)) as [st2 [e|]] eqn:Et; [discriminate|].
        apply typed_resource_cases in Et. destruct Et as [[Hc _]|[_ [-> Hp]]]; [congruence|].
        intros H; injection H as <-. intros _. unfold mdns_mu; cbn [fst snd].
        pose proof (pmu_consume m st1 Hp Hv1). lia. }
      destruct ((r_type r =? ty_PTR) || (r_type r =? ty_SRV) || (r_type r =? ty_TXT) || (r_type r =? ty_OPT)).
      { destruct (typed_resource m st1 (r_type r)) as [st2 [e|]] eqn:Et;
          apply typed_resource_cases in Et.
        - destruct Et as [[_ ->]|[Hc _]]; [|discriminate].
          intros H; injection H as <-. apply mdns_skip_dec. exact H1.
        - destruct Et as [[Hc _]|[_ [-> Hp]]]; [congruence|].
          intros H; injection H as <-. intros _. unfold mdns_mu; cbn [fst snd].
          pose proof (pmu_consume m st1 Hp Hv1). lia. }
      intros H; injection H as <-. apply mdns_skip_dec. exact H1.
  Qed.

  Lemma mdns_step_inv x x' : mdns_inv x -> mdns_step m x = Cont x' -> mdns_inv x'.
  Proof.
    destruct x as [st sec]. unfold mdns_inv; cbn [snd]. intros Hs. unfold mdns_step.
    destruct (resource_header m st sec) as [st1 [e|r]] eqn:Eh.
    - destruct e; try discriminate.
      destruct (Nat.eqb_spec sec secAdditionals); [discriminate|].
      intros H; injection H as <-. cbn [snd]. unfold secAdditionals in *. lia.
    - destruct ((r_type r =? ty_A) || (r_type r =? ty_AAAA)).
      { destruct (typed_resource m st1 (r_type r)) as [st2 [e|]]; [discriminate|].
        intros H; injection H as <-. exact Hs. }
      destruct ((r_type r =? ty_PTR) || (r_type r =? ty_SRV) || (r_type r =? ty_TXT) || (r_type r =? ty_OPT)).
      { destruct (typed_resource m st1 (r_type r)) as [st2 [e|]]; intros H; injection H as <-; exact Hs. }
      intros H; injection H as <-. exact Hs.
  Qed.

  Lemma mdns_stop_safe x r : mdns_inv x -> mdns_step m x = Stop r -> safe r.
  Proof.
    destruct x as [st sec]. intros _. unfold mdns_step.
    destruct (resource_header m st sec) as [st1 [e|r0]] eqn:Eh.
    - destruct e; try (intros H; injection H as <-; sdone).
      destruct (Nat.eqb sec secAdditionals); intros H; [injection H as <-; sdone|discriminate].
    - destruct ((r_type r0 =? ty_A) || (r_type r0 =? ty_AAAA)).
      { destruct (typed_resource m st1 (r_type r0)) as [st2 [e|]]; intros H; [injection H as <-; sdone|discriminate]. }
      destruct ((r_type r0 =? ty_PTR) || (r_type r0 =? ty_SRV) || (r_type r0 =? ty_TXT) || (r_type r0 =? ty_OPT)).
      { destruct (typed_resource m st1 (r_type r0)) as [st2 [e|]]; discriminate. }
      discriminate.
  Qed.

  Theorem process_mdns_partial : known_C08_mdns m = MNone ->
    forall fuel, (2 * n + 8 <= fuel)%nat -> safe (process_mdns fuel m).
  Proof.
    unfold known_C08_mdns, process_mdns. intros Hk fuel Hf.
    destruct (m_start_ok m); cbn [negb andb] in *; [|sdone].
    destruct (m_response m); cbn [negb andb] in *; [|sdone].
    destruct (m_skipq_ok m); cbn [negb andb] in *; [|sdone].
    fold n in Hk.
    destruct (spins (mdns_step m) mdns_state_eqb (2 * n + 8) (start_state, secAnswers)) as [[st sec]|] eqn:Es.
    { destruct (Nat.eqb sec secAnswers); discriminate. }
    eapply (iter_total (mdns_step m) mdns_state_eqb mdns_state_eqb_eq mdns_mu mdns_inv
              mdns_step_inv mdns_step_dec mdns_stop_safe (2 * n + 8)); try eassumption.
    - unfold mdns_inv, secAnswers; cbn; lia.
    - unfold mdns_mu, pmu, start_state, secAnswers; cbn [fst snd p_pos p_valid]. fold n. lia.
  Qed.

  Theorem process_mdns_known_spins : known_C08_mdns m <> MNone ->
    forall fuel, process_mdns fuel m = Fuel.
  Proof.
    unfold known_C08_mdns, process_mdns. intros Hk fuel.
    destruct (m_start_ok m); cbn [negb andb] in *; [|congruence].
    destruct (m_response m); cbn [negb andb] in *; [|congruence].
    destruct (m_skipq_ok m); cbn [negb andb] in *; [|congruence].
    destruct (spins (mdns_step m) mdns_state_eqb (2 * List.length (m_recs m) + 8) (start_state, secAnswers)) as [y|] eqn:Es;
      [|congruence].
    eapply iter_spins; [exact mdns_state_eqb_eq|exact Es].
  Qed.
End MDNS.

(* witnesses: DESIGN section 11 #20 and the ignored SkipAnswer error inside the answer section *)
Definition mdns_w_authority : dmsg :=
  mkMsg true true true 0 1 0 [mkRec true 47 false true true []].
Definition mdns_w_answer_nofit : dmsg :=
  mkMsg true true true 1 0 0 [mkRec true 12 false false false []].
Definition mdns_w_good : dmsg :=
  mkMsg true true true 2 1 1
    [mkRec true 12 true true true []; mkRec true 47 false true true [];
     mkRec true 1 true true true []; mkRec true 41 true true true []].

Lemma mdns_refuted_authority :
  known_C08_mdns mdns_w_authority = MOutsideAnswers /\ forall fuel, process_mdns fuel mdns_w_authority = Fuel.
Proof.
  split; [vm_compute; reflexivity|]. apply process_mdns_known_spins. vm_compute. discriminate.
Qed.

Lemma mdns_refuted_answer_nofit :
  known_C08_mdns mdns_w_answer_nofit = MSkipFailed /\ forall fuel, process_mdns fuel mdns_w_answer_nofit = Fuel.
Proof.
  split; [vm_compute; reflexivity|]. apply process_mdns_known_spins. vm_compute. discriminate.
Qed.

(* NSEC in the ANSWER section is skipped correctly; typed records in any section are fine *)
Lemma mdns_nonvacuous :
  known_C08_mdns mdns_w_good = MNone /\ process_mdns 16 mdns_w_good = Ok tt.
Proof. split; vm_compute; reflexivity. Qed.

(* ---------------------------------------------------------------- NBNS node name array *)
Lemma node_names_ok n : forall i b have, (18 * (i + n) <= cap b)%nat ->
  exists v, node_names n i b have = Ok v.
Proof.
  induction n as [|n IH]; intros i b have H; cbn [node_names]; [eauto|].
  rewrite be16_at_ok by lia. cbn [bind].
  destruct (N.land _ 32768 =? 0).
  - rewrite sl_ok by lia. cbn [bind]. apply IH; lia.
  - apply IH; lia.
Qed.

Theorem node_status_total b : wf b -> safe (node_status_response b).
Proof.
  intros Hw. unfold node_status_response, parse_node_name_array.
  destruct (Nat.ltb_spec (len b) 3); [sdone|].
  destruct (Nat.ltb_spec (len b) 1); [lia|].
  rewrite idx_ok by lia. cbn [bind]. rewrite slfrom_ok by lia. cbn [bind len].
  set (n := N.to_nat (nth 0 (arr b) 0)) in *. clearbody n.
  destruct (Nat.ltb_spec (len b - 1) (n * 18)); [sdone|].
  destruct (node_names_ok n 0 (mkSlice (skipn 1 (arr b)) (len b - 1)) false) as [v Hv].
  - unfold wf, cap in *; cbn [arr]. rewrite skipn_length. lia.
  - rewrite Hv. sdone.
Qed.

(* ---------------------------------------------------------------- NBNS loop *)
Section NBNS.
  Variable m : dmsg.
  Let n := List.length (m_recs m).

  Lemma of_bytes_wf l : wf (of_bytes l).
  Proof. unfold wf, of_bytes, cap; cbn. lia. Qed.

  Lemma nbns_step_dec st st' : True -> nbns_step m st = Cont st' ->
    pstate_eqb st st' = false -> (pmu m st' < pmu m st)%nat.
  Proof.
    intros _. unfold nbns_step.
    destruct (resource_header m st secAnswers) as [st1 [e|r]] eqn:Eh; [destruct e; discriminate|].
    apply resource_header_rec in Eh. destruct Eh as [H1 Hn].
    assert (Hv1 : p_valid st1 = true) by (subst st1; reflexivity).
    destruct (r_type r =? 33).
    - destruct (unknown_resource m st1) as [st2 [e|]] eqn:Eu; [discriminate|].
      apply unknown_resource_cases in Eu. destruct Eu as [[Hc _]|[_ [-> Hp]]]; [congruence|].
      pose proof (pmu_consume m st1 Hp Hv1).
      assert ((pmu m st1 <= pmu m st)%nat) by (destruct (pmu_hdr m st st1 H1) as [[-> _]|[Hlt _]]; lia).
      destruct (node_status_response (of_bytes (r_data r))) as [[|]| | |]; try discriminate;
        intros H'; injection H' as <-; intros _; lia.
    - intros H'; injection H' as <-. intros Hne.
      destruct (pmu_hdr m st st1 H1) as [[-> _]|[Hlt _]]; [|lia].
      rewrite pstate_eqb_refl in Hne. discriminate.
  Qed.

  Lemma nbns_stop_safe : forall st r, True -> nbns_step m st = Stop r -> safe r.
  Proof.
    intros st r _. unfold nbns_step.
    destruct (resource_header m st secAnswers) as [st1 [e|r0]] eqn:Eh.
    { destruct e; intros H; injection H as <-; sdone. }
    apply resource_header_rec in Eh. destruct Eh as [H1 Hn].
    destruct (r_type r0 =? 33) eqn:Et; [|discriminate].
    destruct (unknown_resource m st1) as [st2 [e|]]; [intros H; injection H as <-; sdone|].
    pose proof (node_status_total _ (of_bytes_wf (r_data r0))) as [Hp Hf].
    destruct (node_status_response (of_bytes (r_data r0))) as [[|]| | |]; try congruence;
      try discriminate; intros H; injection H as <-; sdone.
  Qed.

  Theorem process_nbns_partial valid : known_C08_nbns valid m = NNone ->
    forall fuel, (2 * n + 4 <= fuel)%nat -> safe (process_nbns fuel valid m).
  Proof.
    unfold known_C08_nbns, process_nbns. intros Hk fuel Hf.
    destruct valid; cbn [negb andb] in *; [|sdone].
    destruct (m_start_ok m); cbn [negb andb] in *; [|sdone].
    destruct (m_response m); cbn [negb andb] in *; [|sdone].
    destruct (m_skipq_ok m); cbn [negb andb] in *; [|sdone].
    fold n in Hk.
    destruct (spins (nbns_step m) pstate_eqb (2 * n + 4) start_state) eqn:Es; [discriminate|].
    eapply (iter_total (nbns_step m) pstate_eqb pstate_eqb_eq (pmu m) (fun _ => True)
              (fun _ _ _ _ => I) nbns_step_dec nbns_stop_safe (2 * n + 4)); try eassumption; try exact I.
    unfold pmu, start_state; cbn [p_pos p_valid]. fold n. lia.
  Qed.

  Theorem process_nbns_spins valid y :
    valid = true -> m_start_ok m = true -> m_response m = true -> m_skipq_ok m = true ->
    spins (nbns_step m) pstate_eqb (2 * n + 4) start_state = Some y ->
    forall fuel, process_nbns fuel valid m = Fuel.
  Proof.
    intros -> H1 H2 H3 Hs fuel. unfold process_nbns. rewrite H1, H2, H3. cbn [negb].
    eapply iter_spins; [exact pstate_eqb_eq|exact Hs].
  Qed.
End NBNS.

Definition nbns_w_name_answer : dmsg := mkMsg true true true 1 0 0 [mkRec true 32 false true true []].
Definition nbns_w_unknown_answer : dmsg := mkMsg true true true 1 0 0 [mkRec true 1 true true true [192;168;0;1]].
Definition nbns_w_good : dmsg :=
  mkMsg true true true 1 0 0 [mkRec true 33 false true true (1 :: repeat 65 15 ++ [32; 4; 0] ++ repeat 0 46)].

Lemma nbns_refuted_name_answer : forall fuel, process_nbns fuel true nbns_w_name_answer = Fuel.
Proof. intros fuel. eapply process_nbns_spins; reflexivity. Qed.
Lemma nbns_refuted_unknown_answer : forall fuel, process_nbns fuel true nbns_w_unknown_answer = Fuel.
Proof. intros fuel. eapply process_nbns_spins; reflexivity. Qed.
Lemma nbns_nonvacuous :
  known_C08_nbns true nbns_w_good = NNone /\ process_nbns 10 true nbns_w_good = Ok tt.
Proof. split; vm_compute; reflexivity. Qed.
