(* Proofs/EncodeRound3.v — C03: ICMP-echo padded frame, DHCP IsValid of every encoded message,
   AppendPayload error paths return the buffer unchanged. *)
From PV Require Import Base.Prelude Base.Slice Model.EncodeBase Model.Encode Model.EncodeCompose Model.EncodeDHCP
     Model.Checksum Spec.EncodeRef Spec.EncodeRefDHCP Spec.OnesComplement
     Proofs.EncodeLemmas Proofs.Checksum Proofs.Encode Proofs.EncodeIP4 Proofs.EncodeEther Proofs.EncodeMisc Proofs.EncodeCompose
     Proofs.EncodeDHCP.
Open Scope N_scope.
Ltac blia := unfold bytes, byte in *; lia.

(* ================================================================ *)
(* ICMP echo: bytes lemma and decoding of  echo_bytes ++ T *)
Ltac ev_hook ::= rewrite ?be16_hi_lo by (first [assumption | reflexivity]).

Lemma encode_icmp_echo_bytes p t code id sq data :
  (8 + length data <= cap p)%nat ->
  encode_icmp_echo p t code id sq data =
  Ok (mkSlice (echo_bytes t code id sq data ++ skipn (8 + length data) (arr p)) (8 + length data)).
Proof.
  intros Hc. destruct p as [a l]. unfold cap in *. cbn [arr] in *.
  do 8 (destr_list a Hc).
  assert (Hda : (length data <= length a)%nat) by (cbn [length] in Hc; lia).
  unfold encode_icmp_echo, seti, put16, copyfrom, reslice, cap. run.
  rewrite Nat.sub_0_r, firstn_all, blit0 by lia. reflexivity.
Qed.

Definition echo_expected_view t code id sq (data : bytes) : echo_view :=
  {| ev_type := t; ev_code := code; ev_cksum := 0; ev_id := id; ev_seq := sq; ev_data := data |}.
Definition echo_expected_ref t code id sq (data : bytes) : r_echo :=
  {| rc_type := t; rc_code := code; rc_cksum := 0; rc_id := id; rc_seq := sq; rc_data := data |}.

Lemma echo_frame_decodes t code id sq data T :
  id < 65536 -> sq < 65536 ->
  let r := mkSlice (echo_bytes t code id sq data ++ T) (8 + length data) in
  view r = echo_bytes t code id sq data /\
  echo_decode_lib r = Ok (echo_expected_view t code id sq data) /\
  ref_echo (view r) = Some (echo_expected_ref t code id sq data).
Proof.
  intros Hid Hsq r. subst r.
  assert (Hl8 : length (echo_bytes t code id sq data) = (8 + length data)%nat) by reflexivity.
  assert (Hv : view (mkSlice (echo_bytes t code id sq data ++ T) (8 + length data)) = echo_bytes t code id sq data).
  { unfold view. cbn [arr len]. apply firstn_app_len. exact Hl8. }
  split. { exact Hv. }
  split.
  { unfold echo_bytes. cbn [app]. destruct data as [|d0 data].
    - unfold echo_decode_lib, echo_is_valid, icmp_type, icmp_code, icmp_checksum, echo_id, echo_seq, echo_data,
        idx, be16_at, slfrom, cap. run. reflexivity.
    - unfold echo_decode_lib, echo_is_valid, icmp_type, icmp_code, icmp_checksum, echo_id, echo_seq, echo_data,
        idx, be16_at, slfrom, cap. run.
      unfold view. cbn [arr len]. rewrite ?Nat.sub_0_r.
      change (d0 :: data ++ T) with ((d0 :: data) ++ T).
      rewrite firstn_app_len by (cbn [length]; lia). reflexivity. }
  rewrite Hv. unfold echo_bytes, ref_echo, w16. cbn [app]. rewrite !w16_hi_lo by assumption. reflexivity.
Qed.

Lemma packet_echo4_bytes ttl sip dip t code id sq data :
  is4 sip = true -> is4 dip = true -> 28 + N.of_nat (length data) < 65536 ->
  packet_echo4 ttl sip dip t code id sq data =
  Ok (mkSlice (packet4_bytes ttl 1 sip dip (echo_bytes t code id sq data)) (28 + length data)).
Proof.
  intros Hsi Hdi Hsz.
  assert (Hsi' : length sip = 4%nat) by (apply Nat.eqb_eq; exact Hsi).
  assert (Hdi' : length dip = 4%nat) by (apply Nat.eqb_eq; exact Hdi).
  unfold packet_echo4. set (n := (28 + length data)%nat).
  assert (Hnil : skipn (8 + length data) (skipn 20 (repeat 0 n)) = []).
  { apply length_zero_iff_nil. rewrite !skipn_length, repeat_length. unfold n. blia. }
  rewrite encode_ip4_bytes; [|cbn [len]; unfold n; blia|unfold cap; cbn [arr]; rewrite repeat_length; unfold n; blia|assumption|assumption].
  cbn [bind arr]. rewrite ip4_payload_encoded by assumption. cbn [bind].
  rewrite encode_icmp_echo_bytes by (unfold cap; cbn [arr]; rewrite ?skipn_length, ?repeat_length; unfold n; blia).
  cbn [bind arr len]. unfold bytes, byte in *. rewrite Hnil.
  assert (Hl8 : length (echo_bytes t code id sq data) = (8 + length data)%nat) by reflexivity.
  rewrite writeback_app by (unfold echo_bytes; rewrite !app_length, !skipn_length, repeat_length; cbn [length]; unfold n; blia).
  rewrite ip4_set_payload_bytes by (try assumption; unfold echo_bytes; rewrite ?app_length; cbn [length]; blia).
  f_equal. f_equal.
  unfold packet4_bytes. rewrite app_nil_r, Hl8. reflexivity.
Qed.

(* Session.Parse on an IPv4/ICMP frame with k trailing bytes *)
Definition frame4i_bytes (smac dmac : bytes) (ttl : N) (sip dip inner : bytes) : bytes :=
  ether_hdr dmac smac ETH_P_IP ++ packet4_bytes ttl 1 sip dip inner.

Ltac ev_hook ::=
  rewrite ?(be16_hi_lo ETH_P_IP) by reflexivity;
  try change (ETH_P_IP <? 1536) with false; try change (hlen_of_type ETH_P_IP) with 14%nat;
  try change (ETH_P_IP =? ETH_P_IP) with true;
  try change (N.to_nat (69 mod 16) * 4)%nat with 20%nat;
  rewrite ?be16_hi_lo by assumption;
  repeat match goal with E : N.to_nat ?t = _ |- context [N.to_nat ?t] => rewrite E end.
Opaque ip4_calc_checksum.

Lemma parse_class_icmp4_padded smac dmac ttl sip dip inner T k :
  length smac = 6%nat -> length dmac = 6%nat -> length sip = 4%nat -> length dip = 4%nat ->
  N.land (nth 0 smac 0) 1 = 0 -> (8 <= length inner)%nat -> 20 + N.of_nat (length inner) < 65536 ->
  (k <= length T)%nat ->
  parse_class (mkSlice (frame4i_bytes smac dmac ttl sip dip inner ++ T) (34 + length inner + k))
  = Ok (PayloadICMP4, false).
Proof.
  intros Hsm Hdm Hsi Hdi Huni H8 Hsz Hk.
  do 6 (destr_list smac Hsm). destruct smac; [|discriminate].
  do 6 (destr_list dmac Hdm). destruct dmac; [|discriminate].
  do 4 (destr_list sip Hsi). destruct sip; [|discriminate].
  do 4 (destr_list dip Hdi). destruct dip; [|discriminate].
  cbn [nth] in Huni.
  set (tl := 20 + N.of_nat (length inner)).
  assert (Htl : tl < 65536) by (unfold tl; lia).
  assert (Etl : N.to_nat tl = (20 + length inner)%nat) by (unfold tl; lia).
  unfold frame4i_bytes, packet4_bytes, ether_hdr, ip4_store_checksum, ip4_hdr0. fold tl. cbn [app set_nth].
  set (c := ip4_calc_checksum _).
  unfold parse_class, parse_udp_at, ether_is_valid, ether_src, ether_hlen, ether_type, ip4_is_valid, ip4_ihl,
    ip4_totlen, ip4_protocol, idx, be16_at, sl, slfrom, cap.
  run. rewrite Huni. change (0 =? 0) with true. cbn [negb]. run.
  change (1 =? IPPROTO_UDP) with false. change (1 =? IPPROTO_ICMP) with true. cbn iota. run. reflexivity.
Qed.
Transparent ip4_calc_checksum.

Ltac ev_hook ::= idtac.

(* The IPv4/ICMP-echo packet finished by Ether.AppendPayload (60-byte padding) *)
Theorem pad4e_rt b smac dmac ttl sip dip t code id sq data :
  (60 <= cap b)%nat -> (42 + length data <= cap b)%nat -> length smac = 6%nat -> length dmac = 6%nat ->
  is4 sip = true -> is4 dip = true -> 42 + N.of_nat (length data) < 65536 ->
  bytes_ok smac -> bytes_ok dmac -> bytes_ok sip -> bytes_ok dip -> bytes_ok data ->
  ttl < 256 -> t < 256 -> code < 256 -> id < 65536 -> sq < 65536 -> N.land (nth 0 smac 0) 1 = 0 ->
  let eb := echo_bytes t code id sq data in
  let P := packet4_bytes ttl 1 sip dip eb in
  exists f,
    ether_wrap4 b smac dmac (packet_echo4 ttl sip dip t code id sq data) = Ok f /\
    len f = Nat.max 60 (42 + length data) /\ cap f = cap b /\
    view f = ether_hdr dmac smac ETH_P_IP ++ pad46 P /\
    parse_class f = Ok (PayloadICMP4, false) /\
    ref_ether (view f) = Some {| re_dst := dmac; re_src := smac; re_type := ETH_P_IP; re_payload := pad46 P |} /\
    ref_ip4 (pad46 P) = Some (ip4_expected_ref ttl 1 sip dip eb) /\
    ref_echo eb = Some (echo_expected_ref t code id sq data) /\
    (ipv <- ether_payload f ;; Ok (len ipv))%res = Ok (Nat.max 46 (28 + length data)) /\
    (ipv <- ether_payload f ;; ip4_decode_lib ipv)%res = Ok (ip4_expected_view ttl 1 sip dip eb) /\
    (ipv <- ether_payload f ;; u <- ip4_payload ipv ;; Ok (len u))%res = Ok (8 + length data)%nat /\
    (ipv <- ether_payload f ;; u <- ip4_payload ipv ;; echo_decode_lib u)%res = Ok (echo_expected_view t code id sq data).
Proof.
  intros H60 Hc Hsm Hdm Hsi Hdi Hsz Bsm Bdm Bsi Bdi Bd Httl Ht Hcode Hid Hsq Huni eb P.
  assert (Hsi' : length sip = 4%nat) by (apply Nat.eqb_eq; exact Hsi).
  assert (Hdi' : length dip = 4%nat) by (apply Nat.eqb_eq; exact Hdi).
  assert (Heb : length eb = (8 + length data)%nat) by reflexivity.
  set (tl := 20 + N.of_nat (length eb)).
  set (CK := ip4_store_checksum (ip4_hdr0 tl ttl 1 sip dip)).
  assert (HCK : length CK = 20%nat).
  { unfold CK, ip4_store_checksum. rewrite !set_nth_length. unfold ip4_hdr0. cbn [app length]. rewrite app_length. lia. }
  assert (HP : P = CK ++ eb) by reflexivity.
  assert (HPl : length P = (28 + length data)%nat) by (rewrite HP, app_length, HCK, Heb; lia).
  set (Z := repeat 0 (46 - length P)).
  assert (HZ : length Z = (46 - length P)%nat) by apply repeat_length.
  assert (Hpad : pad46 P = CK ++ eb ++ Z) by (unfold pad46; fold Z; rewrite HP, <- app_assoc; reflexivity).
  assert (Hpl : length (pad46 P) = Nat.max 46 (28 + length data)) by (rewrite pad46_length, HPl; reflexivity).
  assert (HEH : length (ether_hdr dmac smac ETH_P_IP) = 14%nat).
  { unfold ether_hdr. rewrite !app_length. cbn [length]. lia. }
  set (rest := skipn 14 (arr b)).
  assert (Hrest : length rest = (cap b - 14)%nat) by (unfold rest, cap; apply skipn_length).
  set (T := skipn (length (pad46 P)) rest).
  assert (Hwrap : ether_wrap4 b smac dmac (packet_echo4 ttl sip dip t code id sq data)
                  = Ok (mkSlice (ether_hdr dmac smac ETH_P_IP ++ pad46 P ++ T) (14 + length (pad46 P)))).
  { unfold ether_wrap4. rewrite encode_ether_bytes by (try assumption; lia). cbn [bind].
    rewrite packet_echo4_bytes by (try assumption; lia). cbn [bind].
    assert (Hview : view (mkSlice (packet4_bytes ttl 1 sip dip eb) (28 + length data)) = P).
    { unfold view. cbn [arr len]. fold P. rewrite <- HPl. apply firstn_all. }
    fold eb. rewrite Hview. unfold T. fold rest.
    apply ether_append_bytes; try assumption; try reflexivity; blia. }
  eexists. split. { exact Hwrap. }
  split. { cbn [len]. rewrite Hpl. lia. }
  split. { unfold cap at 1. cbn [arr]. unfold T. rewrite !app_length, skipn_length, HEH, Hrest, Hpl. lia. }
  assert (Hv : view (mkSlice (ether_hdr dmac smac ETH_P_IP ++ pad46 P ++ T) (14 + length (pad46 P)))
               = ether_hdr dmac smac ETH_P_IP ++ pad46 P).
  { unfold view. cbn [arr len]. rewrite app_assoc. apply firstn_app_len. rewrite app_length, HEH. reflexivity. }
  split. { exact Hv. }
  assert (Htl : tl = 20 + N.of_nat (length eb)) by reflexivity.
  assert (Htl' : tl < 65536) by (unfold tl; blia).
  assert (Be : bytes_ok eb).
  { unfold eb, echo_bytes. cbn [app]. repeat (apply bytes_ok_cons; split; [first [assumption | lia | apply hi8_lt | apply lo8_lt]|]). assumption. }
  assert (Hfr : ether_hdr dmac smac ETH_P_IP ++ pad46 P ++ T = frame4i_bytes smac dmac ttl sip dip eb ++ (Z ++ T)).
  { rewrite Hpad. unfold frame4i_bytes, packet4_bytes. fold tl CK. rewrite <- !app_assoc. reflexivity. }
  split.
  { rewrite Hfr. replace (14 + length (pad46 P))%nat with (34 + length eb + length Z)%nat by blia.
    apply parse_class_icmp4_padded; try assumption; try blia. rewrite app_length. blia. }
  split. { rewrite Hv. apply ref_ether_hdr; try assumption. reflexivity. }
  pose proof (ip4_frame_decodes_padded tl ttl 1 sip dip eb (Z ++ T) (length Z) Hsi' Hdi' Bsi Bdi Be Httl ltac:(lia) Htl Htl'
                ltac:(rewrite app_length; lia)) as D4.
  cbn zeta in D4. fold CK in D4. destruct D4 as (D4v & D4lib & D4ref).
  rewrite D4v in D4ref. rewrite firstn_app_exact in D4ref.
  split. { rewrite Hpad. rewrite D4ref. reflexivity. }
  pose proof (echo_frame_decodes t code id sq data (Z ++ T) Hid Hsq) as DE.
  cbn zeta in DE. fold eb in DE. destruct DE as (DEv & DElib & DEref).
  rewrite DEv in DEref.
  split. { exact DEref. }
  assert (Hep : ether_payload (mkSlice (ether_hdr dmac smac ETH_P_IP ++ pad46 P ++ T) (14 + length (pad46 P)))
                = Ok (mkSlice (CK ++ eb ++ Z ++ T) (20 + length eb + length Z))).
  { rewrite ether_payload_frame by (try assumption; try reflexivity; blia).
    replace (length (pad46 P)) with (20 + length eb + length Z)%nat by blia.
    rewrite Hpad, <- !app_assoc. reflexivity. }
  split. { rewrite Hep. cbn [bind len]. f_equal. blia. }
  split. { rewrite Hep. cbn [bind]. exact D4lib. }
  pose proof (ip4_payload_frame_padded tl ttl 1 sip dip eb (Z ++ T) (length Z) Hsi' Hdi' Htl Htl'
                ltac:(rewrite app_length; lia)) as Hpl4. fold CK in Hpl4.
  split. { rewrite Hep. cbn [bind]. rewrite Hpl4. cbn [bind len]. rewrite Heb. reflexivity. }
  rewrite Hep. cbn [bind]. rewrite Hpl4. cbn [bind]. rewrite Heb. exact DElib.
Qed.

(* ================================================================ *)
(* IsValid() of every message EncodeDHCP4 produces *)
Lemma validate_options_enc l z fuel :
  opts_ok l -> (length l < fuel)%nat -> validate_options fuel (enc l ++ 255 :: z) = true.
Proof.
  revert fuel. induction l as [|[k v] r IH]; intros fuel Hok Hf.
  - destruct fuel as [|f]; [cbn in Hf; blia|]. cbn [enc app validate_options]. destruct z; reflexivity.
  - destruct fuel as [|f]; [cbn in Hf; blia|].
    inversion Hok as [|? ? H1 H2]; subst. destruct H1 as (Hk0 & Hk255 & _ & Hlen & _). cbn [fst snd] in *.
    cbn [enc]. unfold enc1. cbn [fst snd app validate_options].
    destruct (N.eqb_spec k 255); [congruence|]. destruct (N.eqb_spec k 0); [congruence|].
    rewrite u8_len by assumption. rewrite <- app_assoc.
    destruct (Nat.ltb_spec (length (v ++ enc r ++ 255 :: z)) (length v)) as [C|C]; [rewrite app_length in C; blia|].
    rewrite skipn_app_exact. apply IH; [assumption|cbn [length] in Hf; blia].
Qed.

Theorem dhcp4_is_valid b opcode mt chaddr ci yi xid bc options order perm :
  (300 <= cap b)%nat ->
  match chaddr with Some m => length m = 6%nat | None => True end ->
  match xid with Some x => length x = 4%nat | None => True end ->
  let o' := set_opt 53 [mt] options in
  nodup options -> opts_ok o' -> (241 + osize o' <= cap b)%nat ->
  exists p,
    encode_dhcp4 b opcode mt chaddr ci yi xid bc options order perm = Ok p /\
    dhcp_is_valid p = Ok ((opcode =? 1) || (opcode =? 2)).
Proof.
  intros Hc Hch Hx o' Hn Hok Hfit.
  destruct (dhcp4_fixed_rt b opcode mt chaddr ci yi xid bc options order perm Hc Hch Hx Hn Hok Hfit)
    as (p & E & _ & Gop & _ & Ghl & _).
  destruct (dhcp4_rt b opcode mt chaddr ci yi xid bc options order perm Hc Hch Hx Hn Hok Hfit)
    as (p' & E' & L300 & _ & _ & _ & _ & Hopt & Hnd & Hlk & _).
  rewrite E in E'. injection E' as <-.
  exists p. split. { exact E. }
  fold o' in Hopt, Hnd, Hlk.
  set (em := emission o' order perm) in *.
  assert (Hokem : opts_ok em).
  { unfold opts_ok in *. rewrite Forall_forall in *. intros [k v] Hin.
    apply Hok. apply lookup_in. rewrite <- Hlk. apply in_lookup; assumption. }
  unfold dhcp_is_valid.
  destruct (Nat.ltb_spec (len p) 240) as [C|_]; [blia|].
  rewrite Gop. cbn [bind]. destruct ((opcode =? 1) || (opcode =? 2)) eqn:Eop; cbn [negb]; [|reflexivity].
  rewrite Ghl. cbn [bind]. change (6 =? 6) with true. cbn [negb].
  rewrite Hopt.
  set (area := enc em ++ 255 :: repeat 0 (300 - (241 + osize em))).
  assert (H2 : (2 <= length area)%nat).
  { unfold area. rewrite app_length. cbn [length].
    (* option 53 is present *)
    assert (Hin53 : lookup_opt 53 em = Some [mt]).
    { rewrite Hlk. unfold o', set_opt. cbn [lookup_opt]. rewrite N.eqb_refl. reflexivity. }
    destruct em as [|x r]; [discriminate|]. cbn [enc]. unfold enc1. rewrite !app_length. cbn [length]. blia. }
  destruct (Nat.ltb_spec (length area) 2) as [C|_]; [blia|].
  f_equal. unfold area. apply validate_options_enc; [assumption|].
  rewrite app_length, enc_length. cbn [length].
  assert (length em <= osize em)%nat by (clear; induction em as [|x r IH]; cbn [length osize]; blia). blia.
Qed.

(* ================================================================ *)
(* ErrPayloadTooBig: exactly when the payload exceeds the remaining capacity, and then the
   caller's buffer is returned unchanged *)
Theorem ip4_append_st_too_big p b proto :
  fst (ip4_append_st p b proto) = ip4_append p b proto /\
  ((cap p < 20 + length b)%nat <-> ip4_append_st p b proto = (Err EPayloadTooBig, arr p)) /\
  (fst (ip4_append_st p b proto) = Err EPayloadTooBig -> snd (ip4_append_st p b proto) = arr p).
Proof.
  unfold ip4_append_st.
  destruct (Nat.ltb_spec (cap p) (20 + length b)) as [H|H]; cbn [fst snd].
  - split. { symmetry. apply ip4_append_too_big. exact H. } split; [tauto|reflexivity].
  - split; [reflexivity|]. split.
    + split; [lia|]. intros E. injection E as E1 _. apply ip4_append_too_big in E1. lia.
    + intros E. apply ip4_append_too_big in E. lia.
Qed.

Theorem udp_append_st_too_big p b :
  fst (udp_append_st p b) = udp_append p b /\
  ((cap p < 8 + length b)%nat <-> udp_append_st p b = (Err EPayloadTooBig, arr p)) /\
  (fst (udp_append_st p b) = Err EPayloadTooBig -> snd (udp_append_st p b) = arr p).
Proof.
  unfold udp_append_st.
  destruct (Nat.ltb_spec (cap p) (8 + length b)) as [H|H]; cbn [fst snd].
  - split. { symmetry. apply udp_append_too_big. exact H. } split; [tauto|reflexivity].
  - split; [reflexivity|]. split.
    + split; [lia|]. intros E. injection E as E1 _. apply udp_append_too_big in E1. lia.
    + intros E. apply udp_append_too_big in E. lia.
Qed.

(* IPv6: a nil payload is rejected too (b == nil || ...) *)
Theorem ip6_append_st_too_big p b isnil nh :
  fst (ip6_append_st p b isnil nh) = ip6_append p b isnil nh /\
  ((isnil = true \/ (cap p < 40 + length b)%nat) <-> ip6_append_st p b isnil nh = (Err EPayloadTooBig, arr p)) /\
  (fst (ip6_append_st p b isnil nh) = Err EPayloadTooBig -> snd (ip6_append_st p b isnil nh) = arr p).
Proof.
  unfold ip6_append_st. destruct isnil; cbn [orb fst snd].
  - split; [reflexivity|]. split; [tauto|reflexivity].
  - destruct (Nat.ltb_spec (cap p) (40 + length b)) as [H|H]; cbn [fst snd].
    + split. { symmetry. apply ip6_append_too_big. exact H. } split; [tauto|reflexivity].
    + split; [reflexivity|]. split.
      * split; [intros [E|E]; [discriminate|lia]|]. intros E. injection E as E1 _. apply ip6_append_too_big in E1. lia.
      * intros E. apply ip6_append_too_big in E. lia.
Qed.

Lemma ip6_append_nil_rejected p nh : ip6_append_st p [] true nh = (Err EPayloadTooBig, arr p).
Proof. reflexivity. Qed.

Theorem ether_append_st_too_big p payload pcap :
  fst (ether_append_st p payload pcap) = ether_append p payload pcap /\
  ((cap p < length payload + 14)%nat <-> ether_append_st p payload pcap = (Err EPayloadTooBig, arr p)) /\
  (fst (ether_append_st p payload pcap) = Err EPayloadTooBig -> snd (ether_append_st p payload pcap) = arr p).
Proof.
  unfold ether_append_st.
  destruct (Nat.ltb_spec (cap p) (length payload + 14)) as [H|H]; cbn [fst snd].
  - split. { symmetry. apply ether_append_too_big. exact H. } split; [tauto|reflexivity].
  - split; [reflexivity|]. split.
    + split; [lia|]. intros E. injection E as E1 _. apply ether_append_too_big in E1. lia.
    + intros E. apply ether_append_too_big in E. lia.
Qed.
