(* Proofs/Tables.v — C05: the consistency invariant of host and MAC tables is
   established by NewSession and preserved by every operation.

   Proof-level invariant [InvP]: the (key, Addr.IP, MAC) triples of the host
   index are a permutation of the triples listed under the MAC entries, keys
   are unique, MACs are unique, online hosts have online MAC entries.
   The clause-by-clause statement of the property text ([Inv] in
   Spec/HostTrackingInv.v) is derived from it. *)
From PV Require Import Base.Prelude Model.Tables Spec.HostTrackingInv.
From Coq Require Import Permutation.
Open Scope N_scope.

(* ------------------------------------------------------------------ *)
(* equality tests *)

Lemma ip_eqb_eq x y : ip_eqb x y = true <-> x = y.
Proof.
  destruct x, y; simpl; try (split; congruence); rewrite N.eqb_eq; split; congruence.
Qed.
Lemma ip_eqb_refl x : ip_eqb x x = true.
Proof. apply ip_eqb_eq; reflexivity. Qed.
Lemma ip_eqb_neq x y : ip_eqb x y = false <-> x <> y.
Proof.
  split; intros H.
  - intros E. apply ip_eqb_eq in E. congruence.
  - destruct (ip_eqb x y) eqn:E; auto. apply ip_eqb_eq in E. contradiction.
Qed.
Lemma ip_eqb_sym x y : ip_eqb x y = ip_eqb y x.
Proof.
  destruct (ip_eqb x y) eqn:E.
  - apply ip_eqb_eq in E. subst. symmetry. apply ip_eqb_refl.
  - apply ip_eqb_neq in E. symmetry. apply ip_eqb_neq. congruence.
Qed.

Ltac ipeq :=
  repeat match goal with
  | H : ip_eqb _ _ = true |- _ => apply ip_eqb_eq in H
  | H : ip_eqb _ _ = false |- _ => apply ip_eqb_neq in H
  | H : (_ =? _) = true |- _ => apply N.eqb_eq in H
  | H : (_ =? _) = false |- _ => apply N.eqb_neq in H
  end.

(* ------------------------------------------------------------------ *)
(* host index: association list with map semantics *)

Lemma hlookup_In k h l : hlookup k l = Some h -> In (k, h) l.
Proof.
  induction l as [|[k' h'] r IH]; simpl; [discriminate|].
  destruct (ip_eqb k' k) eqn:E; intros H.
  - ipeq. inversion H; subst. auto.
  - auto.
Qed.

Lemma hlookup_None k l : hlookup k l = None <-> ~ In k (map fst l).
Proof.
  induction l as [|[k' h'] r IH]; simpl; [tauto|].
  destruct (ip_eqb k' k) eqn:E; ipeq.
  - split; [discriminate|]. intros H. exfalso. apply H. auto.
  - rewrite IH. split; intros H; [intros [A|A]; [congruence|tauto] | tauto].
Qed.

Lemma In_hlookup k h l : NoDup (map fst l) -> In (k, h) l -> hlookup k l = Some h.
Proof.
  induction l as [|[k' h'] r IH]; simpl; [tauto|].
  intros ND [A|A]; inversion ND; subst.
  - inversion A; subst. rewrite ip_eqb_refl. reflexivity.
  - destruct (ip_eqb k' k) eqn:E; ipeq.
    + subst. exfalso. apply H1. apply in_map_iff. exists (k, h). auto.
    + auto.
Qed.

Lemma hupd_keys k f l : map fst (hupd k f l) = map fst l.
Proof.
  unfold hupd. rewrite map_map. apply map_ext. intros [k' h]. simpl. destruct (ip_eqb k' k); reflexivity.
Qed.

Lemma hupd_length k f l : List.length (hupd k f l) = List.length l.
Proof. unfold hupd. apply map_length. Qed.

Lemma hlookup_hupd k f k' l :
  hlookup k' (hupd k f l) = if ip_eqb k k' then option_map f (hlookup k' l) else hlookup k' l.
Proof.
  induction l as [|[k0 h0] r IH]; simpl.
  - destruct (ip_eqb k k'); reflexivity.
  - destruct (ip_eqb k0 k) eqn:E0; simpl.
    + ipeq. subst k0. destruct (ip_eqb k k') eqn:E1; [reflexivity|]. exact IH.
    + destruct (ip_eqb k0 k') eqn:E1.
      * ipeq. subst k0. apply ip_eqb_neq in E0. rewrite ip_eqb_sym in E0. rewrite E0. reflexivity.
      * exact IH.
Qed.

Lemma hdel_keys_notin k l : ~ In k (map fst (hdel k l)).
Proof.
  unfold hdel. intros H. apply in_map_iff in H. destruct H as [[k' h] [E H]]. simpl in E. subst.
  apply filter_In in H. destruct H as [_ H]. simpl in H. rewrite ip_eqb_refl in H. discriminate.
Qed.

Lemma hlookup_hdel k k' l : hlookup k' (hdel k l) = if ip_eqb k k' then None else hlookup k' l.
Proof.
  induction l as [|[k0 h0] r IH]; simpl.
  - destruct (ip_eqb k k'); reflexivity.
  - destruct (ip_eqb k0 k) eqn:E0; simpl.
    + ipeq. subst k0. destruct (ip_eqb k k') eqn:E1; auto.
    + destruct (ip_eqb k0 k') eqn:E1; auto.
      ipeq. subst k0. apply ip_eqb_neq in E0. rewrite ip_eqb_sym in E0. rewrite E0. reflexivity.
Qed.

Lemma hdel_absent k l : hlookup k l = None -> hdel k l = l.
Proof.
  induction l as [|[k0 h0] r IH]; simpl; auto.
  destruct (ip_eqb k0 k) eqn:E; [discriminate|]. simpl. intros H. rewrite IH; auto.
Qed.

Lemma hdel_NoDup k l : NoDup (map fst l) -> NoDup (map fst (hdel k l)).
Proof.
  induction l as [|[k0 h0] r IH]; simpl; auto.
  intros ND. inversion ND; subst. destruct (ip_eqb k0 k); simpl; auto.
  constructor; auto. intros H. apply H1. apply in_map_iff in H. destruct H as [x [E H]].
  apply filter_In in H. apply in_map_iff. exists x. tauto.
Qed.

(* ------------------------------------------------------------------ *)
(* MAC table *)

Lemma find_mac_Some m e l : find_mac m l = Some e -> In e l /\ m_mac e = m.
Proof.
  induction l as [|e0 r IH]; simpl; [discriminate|].
  destruct (m_mac e0 =? m) eqn:E; intros H.
  - ipeq. inversion H; subst. auto.
  - destruct (IH H). auto.
Qed.

Lemma find_mac_None m l : find_mac m l = None <-> ~ In m (map m_mac l).
Proof.
  induction l as [|e0 r IH]; simpl; [tauto|].
  destruct (m_mac e0 =? m) eqn:E; ipeq.
  - split; [discriminate|]. intros H. exfalso. auto.
  - rewrite IH. tauto.
Qed.

Lemma In_find_mac e l : NoDup (map m_mac l) -> In e l -> find_mac (m_mac e) l = Some e.
Proof.
  induction l as [|e0 r IH]; simpl; [tauto|].
  intros ND [A|A]; inversion ND; subst.
  - rewrite N.eqb_refl. reflexivity.
  - destruct (m_mac e0 =? m_mac e) eqn:E; ipeq.
    + exfalso. apply H1. rewrite E. apply in_map. exact A.
    + auto.
Qed.

Lemma mupd_macs m f l : (forall e, m_mac (f e) = m_mac e) -> map m_mac (mupd m f l) = map m_mac l.
Proof.
  intros K. unfold mupd. rewrite map_map. apply map_ext. intros e. destruct (m_mac e =? m); auto.
Qed.

Lemma find_mac_mupd m f m' l : (forall e, m_mac (f e) = m_mac e) ->
  find_mac m' (mupd m f l) = if m =? m' then option_map f (find_mac m' l) else find_mac m' l.
Proof.
  intros K. induction l as [|e0 r IH]; simpl.
  - destruct (m =? m'); reflexivity.
  - destruct (m_mac e0 =? m) eqn:E0.
    + rewrite K. ipeq. rewrite E0. destruct (m =? m') eqn:E1; [reflexivity|]. exact IH.
    + destruct (m_mac e0 =? m') eqn:E1.
      * ipeq. subst m'. apply N.eqb_neq in E0. rewrite N.eqb_sym in E0. rewrite E0. reflexivity.
      * exact IH.
Qed.

Lemma find_mac_app m l l' :
  find_mac m (l ++ l') = match find_mac m l with Some e => Some e | None => find_mac m l' end.
Proof. induction l as [|e0 r IH]; simpl; auto. destruct (m_mac e0 =? m); auto. Qed.

Lemma mdel_macs_incl m l x : In x (map m_mac (mdel m l)) -> In x (map m_mac l).
Proof.
  induction l as [|e0 r IH]; simpl; auto.
  destruct (m_mac e0 =? m); simpl; auto. intros [A|A]; auto.
Qed.

Lemma mdel_NoDup m l : NoDup (map m_mac l) -> NoDup (map m_mac (mdel m l)).
Proof.
  induction l as [|e0 r IH]; simpl; auto.
  intros ND. inversion ND; subst. destruct (m_mac e0 =? m); simpl; auto.
  constructor; auto. intros H. apply H1. eapply mdel_macs_incl; eauto.
Qed.

Lemma find_mac_mdel m m' l : NoDup (map m_mac l) ->
  find_mac m' (mdel m l) = if m =? m' then None else find_mac m' l.
Proof.
  induction l as [|e0 r IH]; simpl; intros ND.
  - destruct (m =? m'); reflexivity.
  - inversion ND; subst. destruct (m_mac e0 =? m) eqn:E0.
    + ipeq. subst m. destruct (m_mac e0 =? m') eqn:E1; [|reflexivity].
      ipeq. subst m'. apply find_mac_None. exact H1.
    + simpl. destruct (m_mac e0 =? m') eqn:E1.
      * ipeq. subst m'. apply N.eqb_neq in E0. rewrite N.eqb_sym in E0. rewrite E0. reflexivity.
      * auto.
Qed.

(* ------------------------------------------------------------------ *)
(* the proof-level invariant *)

Definition hshape (l : list (ip * host)) : list (ip * ip * mac) :=
  map (fun e => (fst e, h_ip (snd e), h_mac (snd e))) l.
Definition flat (l : list macent) : list (ip * ip * mac) :=
  flat_map (fun e => map (fun k => (k, k, m_mac e)) (m_hosts e)) l.

Definition InvS (s : state) : Prop :=
  Permutation (hshape (hosts s)) (flat (macs s)) /\
  NoDup (map fst (hosts s)) /\ NoDup (map m_mac (macs s)).

Definition InvO (s : state) : Prop :=
  forall k h, hlookup k (hosts s) = Some h -> h_online h = true ->
  exists e, find_mac (h_mac h) (macs s) = Some e /\ m_online e = true.

Definition InvP (s : state) : Prop := InvS s /\ InvO s.

Lemma InvP_ext s s' : hosts s' = hosts s -> macs s' = macs s -> InvP s -> InvP s'.
Proof. unfold InvP, InvS, InvO. intros -> ->. auto. Qed.

Definition keeps (f : host -> host) : Prop := forall h, h_ip (f h) = h_ip h /\ h_mac (f h) = h_mac h.
Definition mkeeps (f : macent -> macent) : Prop := forall e, m_mac (f e) = m_mac e /\ m_hosts (f e) = m_hosts e.

Lemma hshape_hupd k f l : keeps f -> hshape (hupd k f l) = hshape l.
Proof.
  intros K. unfold hshape, hupd. rewrite map_map. apply map_ext. intros [k' h]. simpl.
  destruct (ip_eqb k' k); simpl; auto. destruct (K h) as [-> ->]. reflexivity.
Qed.

Lemma flat_mupd m f l : mkeeps f -> flat (mupd m f l) = flat l.
Proof.
  intros K. unfold flat, mupd. induction l as [|e r IH]; simpl; auto.
  rewrite IH. destruct (m_mac e =? m); auto. destruct (K e) as [-> ->]. reflexivity.
Qed.

(* consequences of InvS *)
Lemma InvS_host s k h : InvS s -> hlookup k (hosts s) = Some h ->
  h_ip h = k /\ exists e, find_mac (h_mac h) (macs s) = Some e /\ In k (m_hosts e).
Proof.
  intros (P & NK & NM) L. apply hlookup_In in L.
  assert (I : In (k, h_ip h, h_mac h) (hshape (hosts s))).
  { unfold hshape. apply in_map_iff. exists (k, h). auto. }
  eapply Permutation_in in I; [|exact P]. unfold flat in I. apply in_flat_map in I.
  destruct I as (e & Ie & I). apply in_map_iff in I. destruct I as (k0 & E & I0).
  injection E as E1 E2 E3. subst k0. split; auto. exists e. split; auto.
  rewrite <- E3. apply In_find_mac; auto.
Qed.

Lemma InvS_listed s m e k : InvS s -> find_mac m (macs s) = Some e -> In k (m_hosts e) ->
  exists h, hlookup k (hosts s) = Some h /\ h_mac h = m /\ h_ip h = k.
Proof.
  intros (P & NK & NM) F I. apply find_mac_Some in F. destruct F as [Ie <-].
  assert (J : In (k, k, m_mac e) (flat (macs s))).
  { unfold flat. apply in_flat_map. exists e. split; auto. apply in_map_iff. exists k. auto. }
  eapply Permutation_in in J; [|apply Permutation_sym; exact P].
  unfold hshape in J. apply in_map_iff in J. destruct J as ([k' h] & E & J). simpl in E.
  injection E as E1 E2 E3. subst k'. exists h. split; [apply In_hlookup; auto|]. auto.
Qed.

(* ------------------------------------------------------------------ *)
(* flag-only updates *)

Lemma upd_host_InvS k f s : keeps f -> InvS s -> InvS (upd_host k f s).
Proof.
  intros K (P & NK & NM). unfold InvS, upd_host. simpl.
  rewrite hshape_hupd by exact K. rewrite hupd_keys. auto.
Qed.

Lemma upd_mac_InvS m f s : mkeeps f -> InvS s -> InvS (upd_mac m f s).
Proof.
  intros K (P & NK & NM). unfold InvS, upd_mac. simpl.
  rewrite flat_mupd by exact K. rewrite mupd_macs by (intros e; apply K). auto.
Qed.

Lemma upd_host_InvO k f s : keeps f -> InvO s ->
  (forall h, hlookup k (hosts s) = Some h -> h_online (f h) = true ->
     exists e, find_mac (h_mac h) (macs s) = Some e /\ m_online e = true) ->
  InvO (upd_host k f s).
Proof.
  intros K IO C k' h L O. unfold upd_host in *. simpl in *. rewrite hlookup_hupd in L.
  destruct (ip_eqb k k') eqn:E.
  - ipeq. subst k'. destruct (hlookup k (hosts s)) as [h0|] eqn:L0; [|discriminate].
    simpl in L. inversion L; subst h. destruct (K h0) as [_ ->]. apply C; auto.
  - apply IO with k'; auto.
Qed.

Lemma upd_host_InvO_mono k f s : keeps f -> InvO s ->
  (forall h, h_online (f h) = true -> h_online h = true) -> InvO (upd_host k f s).
Proof.
  intros K IO M. apply upd_host_InvO; auto. intros h L O. apply IO with k; auto.
Qed.

Lemma upd_mac_InvO m f s : mkeeps f -> InvO s ->
  (forall e, find_mac m (macs s) = Some e -> m_online e = true -> m_online (f e) = true \/
     (forall k h, hlookup k (hosts s) = Some h -> h_mac h = m -> h_online h = false)) ->
  InvO (upd_mac m f s).
Proof.
  intros K IO C k h L O. unfold upd_mac in *. simpl in *.
  destruct (IO k h L O) as (e & F & OE).
  rewrite find_mac_mupd by (intros x; apply K).
  destruct (m =? h_mac h) eqn:E.
  - ipeq. subst m. rewrite F. simpl. exists (f e). split; auto.
    destruct (C e F OE) as [A|A]; auto. rewrite (A k h L eq_refl) in O. discriminate.
  - exists e. auto.
Qed.

Lemma upd_mac_InvO_mono m f s : mkeeps f -> InvO s ->
  (forall e, m_online e = true -> m_online (f e) = true) -> InvO (upd_mac m f s).
Proof. intros K IO M. apply upd_mac_InvO; auto. Qed.

Lemma upd_host_InvP_mono k f s : keeps f ->
  (forall h, h_online (f h) = true -> h_online h = true) -> InvP s -> InvP (upd_host k f s).
Proof. intros K M [A B]. split; [apply upd_host_InvS | apply upd_host_InvO_mono]; auto. Qed.

Lemma upd_mac_InvP_mono m f s : mkeeps f ->
  (forall e, m_online e = true -> m_online (f e) = true) -> InvP s -> InvP (upd_mac m f s).
Proof. intros K M [A B]. split; [apply upd_mac_InvS | apply upd_mac_InvO_mono]; auto. Qed.

Ltac keeps_tac := try (intros ?; split; reflexivity); try (intros ?; simpl; auto; fail).

(* ------------------------------------------------------------------ *)
(* permutation facts about listing and unlisting one host *)

Lemma mupd_notin m f l : ~ In m (map m_mac l) -> mupd m f l = l.
Proof.
  induction l as [|e r IH]; simpl; auto. intros H.
  destruct (m_mac e =? m) eqn:E; ipeq; [exfalso; auto|]. rewrite IH; auto.
Qed.

Lemma flat_link m k f l :
  (forall e, m_mac (f e) = m_mac e) -> (forall e, m_hosts (f e) = m_hosts e ++ [k]) ->
  NoDup (map m_mac l) -> In m (map m_mac l) ->
  Permutation (flat (mupd m f l)) ((k, k, m) :: flat l).
Proof.
  intros K1 K2. induction l as [|e r IH]; simpl; [tauto|].
  intros ND I. inversion ND; subst. destruct (m_mac e =? m) eqn:E; ipeq.
  - subst m. rewrite mupd_notin by exact H1. rewrite K1, K2. rewrite map_app. simpl.
    rewrite <- app_assoc. simpl. apply Permutation_sym. apply Permutation_middle.
  - destruct I as [A|A]; [congruence|].
    eapply Permutation_trans; [apply Permutation_app_head; apply IH; auto|].
    apply Permutation_sym. apply Permutation_middle.
Qed.

Lemma remove_first_perm k l : In k l -> Permutation l (k :: remove_first k l).
Proof.
  induction l as [|x r IH]; simpl; [tauto|].
  destruct (ip_eqb x k) eqn:E; ipeq.
  - subst. intros _. apply Permutation_refl.
  - intros [A|A]; [congruence|]. eapply Permutation_trans; [apply perm_skip; apply IH; auto|]. apply perm_swap.
Qed.

Lemma flat_unlink m k f l e0 :
  (forall e, m_mac (f e) = m_mac e) -> (forall e, m_hosts (f e) = remove_first k (m_hosts e)) ->
  NoDup (map m_mac l) -> find_mac m l = Some e0 -> In k (m_hosts e0) ->
  Permutation (flat l) ((k, k, m) :: flat (mupd m f l)).
Proof.
  intros K1 K2. induction l as [|e r IH]; simpl; [discriminate|].
  intros ND F I. inversion ND; subst. destruct (m_mac e =? m) eqn:E; ipeq.
  - inversion F; subst e0. subst m. rewrite mupd_notin by exact H1. rewrite K1, K2.
    change ((k, k, m_mac e) :: map (fun k0 => (k0, k0, m_mac e)) (remove_first k (m_hosts e)) ++ flat r)
      with (map (fun k0 => (k0, k0, m_mac e)) (k :: remove_first k (m_hosts e)) ++ flat r).
    apply Permutation_app_tail. apply Permutation_map. apply remove_first_perm. exact I.
  - eapply Permutation_trans; [apply Permutation_app_head; apply IH; auto|].
    apply Permutation_sym. apply Permutation_middle.
Qed.

Lemma hshape_hdel_perm k h l : NoDup (map fst l) -> In (k, h) l ->
  Permutation (hshape l) ((k, h_ip h, h_mac h) :: hshape (hdel k l)).
Proof.
  induction l as [|[k0 h0] r IH]; simpl; [tauto|].
  intros ND [A|A]; inversion ND; subst.
  - inversion A; subst. rewrite ip_eqb_refl. simpl.
    assert (hdel k r = r) as ->; [|apply Permutation_refl].
    apply hdel_absent. apply hlookup_None. exact H1.
  - destruct (ip_eqb k0 k) eqn:E; ipeq.
    + subst. exfalso. apply H1. apply in_map_iff. exists (k, h). auto.
    + simpl. eapply Permutation_trans; [apply perm_skip; apply IH; auto|]. apply perm_swap.
Qed.

Lemma flat_mdel_empty m l e0 : find_mac m l = Some e0 -> m_hosts e0 = [] -> flat (mdel m l) = flat l.
Proof.
  induction l as [|e r IH]; simpl; [discriminate|].
  destruct (m_mac e =? m) eqn:E; intros F Z.
  - inversion F; subst. rewrite Z. reflexivity.
  - simpl. rewrite IH; auto.
Qed.

(* ------------------------------------------------------------------ *)
(* structural primitives *)

Lemma flat_app l l' : flat (l ++ l') = flat l ++ flat l'.
Proof. unfold flat. apply flat_map_app. Qed.

Lemma mfoc_hosts m s : hosts (mac_find_or_create m s) = hosts s.
Proof. unfold mac_find_or_create. destruct (find_mac m (macs s)); reflexivity. Qed.

Lemma mfoc_In m s : In m (map m_mac (macs (mac_find_or_create m s))).
Proof.
  unfold mac_find_or_create. destruct (find_mac m (macs s)) eqn:F.
  - apply find_mac_Some in F. destruct F as [I <-]. apply in_map. exact I.
  - simpl. rewrite map_app. apply in_or_app. right. simpl. auto.
Qed.

Lemma mfoc_InvP m s : InvP s -> InvP (mac_find_or_create m s).
Proof.
  intros [(P & NK & NM) IO]. unfold mac_find_or_create.
  destruct (find_mac m (macs s)) eqn:F; [split; [split|]; auto|].
  split; [split; [|split]|]; simpl.
  - rewrite flat_app. simpl. rewrite app_nil_r. exact P.
  - exact NK.
  - rewrite map_app. simpl. eapply Permutation_NoDup; [apply Permutation_cons_append|].
    constructor; auto. apply find_mac_None. exact F.
  - intros k h L O. simpl. destruct (IO k h L O) as (e & Fe & OE).
    exists e. rewrite find_mac_app, Fe. auto.
Qed.

Lemma create_host_InvP m k now s : InvP s -> hlookup k (hosts s) = None -> InvP (create_host m k now s).
Proof.
  intros I L. unfold create_host.
  pose proof (mfoc_InvP m s I) as I1. pose proof (mfoc_In m s) as IM.
  assert (L1 : hlookup k (hosts (mac_find_or_create m s)) = None) by (rewrite mfoc_hosts; exact L).
  set (s1 := mac_find_or_create m s) in *. clearbody s1.
  destruct I1 as [(P & NK & NM) IO].
  split; [split; [|split]|]; unfold upd_mac, hput; simpl; rewrite ?(hdel_absent _ _ L1).
  - simpl. apply Permutation_sym. eapply Permutation_trans.
    + apply flat_link; [reflexivity | reflexivity | exact NM | exact IM].
    + apply perm_skip. apply Permutation_sym. exact P.
  - simpl. constructor; auto. apply hlookup_None. exact L1.
  - rewrite mupd_macs; auto.
  - intros k' h L' O. simpl in L' |- *. destruct (ip_eqb k k') eqn:E.
    + inversion L'; subst h. simpl in O. discriminate.
    + destruct (IO k' h L' O) as (e & F & OE). rewrite find_mac_mupd by auto.
      destruct (m =? h_mac h); [rewrite F; simpl; eexists; split; [reflexivity|]; exact OE | exists e; auto].
Qed.

Lemma clear_lastf_hosts k s : hosts (clear_lastf k s) = hosts s /\ macs (clear_lastf k s) = macs s.
Proof.
  unfold clear_lastf. destruct (lastf s) as [f|]; auto. destruct (fr_host f); auto. destruct (ip_eqb i k); auto.
Qed.

Lemma clear_lastf_InvP k s : InvP s -> InvP (clear_lastf k s).
Proof. apply InvP_ext; apply clear_lastf_hosts. Qed.

Lemma mdel_notin m l : ~ In m (map m_mac l) -> mdel m l = l.
Proof.
  induction l as [|e r IH]; simpl; auto. intros H.
  destruct (m_mac e =? m) eqn:E; ipeq; [exfalso; auto|]. rewrite IH; auto.
Qed.

Lemma mdel_empty_InvP m s : InvP s -> mac_hosts m s = [] -> InvP (set_macs (mdel m (macs s)) s).
Proof.
  intros I MH. unfold mac_hosts in MH. destruct (find_mac m (macs s)) as [e|] eqn:F.
  - pose proof I as [(P & NK & NM) IO]. split; [split; [|split]|]; simpl.
    + rewrite (flat_mdel_empty _ _ _ F MH). exact P.
    + exact NK.
    + apply mdel_NoDup. exact NM.
    + intros k h L O. simpl in L |- *. destruct (IO k h L O) as (e' & F' & OE).
      rewrite find_mac_mdel by exact NM. destruct (m =? h_mac h) eqn:E.
      * ipeq. subst m. destruct (InvS_host _ _ _ (proj1 I) L) as (_ & e2 & F2 & I2).
        rewrite F in F2. inversion F2; subst e2. rewrite MH in I2. destruct I2.
      * exists e'. auto.
  - apply find_mac_None in F. rewrite (mdel_notin _ _ F). revert I. apply InvP_ext; reflexivity.
Qed.

Lemma delete_host_hosts k s : hosts (delete_host k s) = hdel k (hosts s).
Proof.
  unfold delete_host. destruct (hlookup k (hosts s)) as [h|] eqn:L.
  - rewrite (proj1 (clear_lastf_hosts _ _)). destruct (mac_hosts _ _); reflexivity.
  - symmetry. apply hdel_absent. exact L.
Qed.

Lemma delete_host_InvP k s : InvP s -> InvP (delete_host k s).
Proof.
  intros I. unfold delete_host. destruct (hlookup k (hosts s)) as [h|] eqn:L; auto.
  apply clear_lastf_InvP.
  destruct (InvS_host _ _ _ (proj1 I) L) as (Hip & e & F & Ik). rewrite Hip.
  set (f := fun e => set_mhosts (remove_first k (m_hosts e)) e).
  set (s2 := set_hosts (hdel k (hosts (upd_mac (h_mac h) f s))) (upd_mac (h_mac h) f s)).
  assert (I2 : InvP s2).
  { destruct I as [(P & NK & NM) IO]. split; [split; [|split]|]; simpl.
    - apply Permutation_cons_inv with (a := (k, h_ip h, h_mac h)).
      eapply Permutation_trans; [apply Permutation_sym; apply hshape_hdel_perm; auto; apply hlookup_In; auto|].
      eapply Permutation_trans; [exact P|]. rewrite Hip. apply flat_unlink with e; auto.
    - apply hdel_NoDup; auto.
    - rewrite mupd_macs; auto.
    - intros k' h' L' O. simpl in L' |- *. rewrite hlookup_hdel in L'. destruct (ip_eqb k k'); [discriminate|].
      destruct (IO k' h' L' O) as (e' & F' & OE). rewrite find_mac_mupd by auto.
      destruct (h_mac h =? h_mac h'); [rewrite F'; simpl; eexists; split; [reflexivity|]; exact OE | exists e'; auto]. }
  destruct (mac_hosts (h_mac h) s2) eqn:MH; auto.
  apply mdel_empty_InvP; auto.
Qed.

Lemma fold_left_InvP {A} (g : state -> A -> state) l :
  (forall s a, InvP s -> InvP (g s a)) -> forall s, InvP s -> InvP (fold_left g l s).
Proof. intros G. induction l as [|a r IH]; simpl; auto. Qed.

(* ------------------------------------------------------------------ *)
(* findOrCreateHostWithLock *)

Lemma find_or_create_InvP m k now s s' b :
  find_or_create m k now s = Ok (s', b) -> InvP s -> InvP s'.
Proof.
  unfold find_or_create. intros H I. destruct (hlookup k (hosts s)) as [h|] eqn:L.
  - destruct (h_mac h =? m).
    + inversion H; subst. apply upd_host_InvP_mono; auto; keeps_tac.
    + destruct (print_table s); simpl in H; try discriminate. inversion H; subst.
      apply create_host_InvP; [apply delete_host_InvP; exact I|].
      rewrite delete_host_hosts, hlookup_hdel, ip_eqb_refl. reflexivity.
  - inversion H; subst. apply create_host_InvP; auto.
Qed.

(* after findOrCreate the host is indexed under k with MAC m *)
Lemma create_host_lookup m k now s :
  hlookup k (hosts (create_host m k now s)) = Some (new_host m k now).
Proof. unfold create_host, upd_mac, hput. simpl. rewrite ip_eqb_refl. reflexivity. Qed.

Lemma find_or_create_post m k now s s' b :
  find_or_create m k now s = Ok (s', b) ->
  exists h, hlookup k (hosts s') = Some h /\ h_mac h = m.
Proof.
  unfold find_or_create. intros H. destruct (hlookup k (hosts s)) as [h|] eqn:L.
  - destruct (h_mac h =? m) eqn:E.
    + inversion H; subst. unfold upd_host. simpl. rewrite hlookup_hupd, ip_eqb_refl, L. simpl.
      eexists; split; [reflexivity|]. ipeq. exact E.
    + destruct (print_table s); simpl in H; try discriminate. inversion H; subst.
      rewrite create_host_lookup. eexists; split; [reflexivity|]. reflexivity.
  - inversion H; subst. rewrite create_host_lookup. eexists; split; [reflexivity|]. reflexivity.
Qed.

(* ------------------------------------------------------------------ *)
(* onlineTransition *)

Lemma supersede_keeps : keeps supersede.
Proof. intros h. unfold supersede. destruct (h_online h); split; reflexivity. Qed.
Lemma supersede_mono h : h_online (supersede h) = true -> h_online h = true.
Proof. unfold supersede. destruct (h_online h) eqn:E; simpl; intros; congruence. Qed.

Lemma online_transition_InvP k s : InvP s -> InvP (online_transition k s).
Proof.
  intros I. unfold online_transition. destruct (hlookup k (hosts s)) as [h|] eqn:L; auto.
  destruct (h_online h) eqn:O; auto.
  destruct (InvS_host _ _ _ (proj1 I) L) as (Hip & e & F & Ik).
  set (s1 := upd_mac (h_mac h) (set_monline true) s).
  assert (I1 : InvP s1) by (apply upd_mac_InvP_mono; auto; keeps_tac).
  set (s2 := upd_host k (fun x => set_dirty true (set_online true x)) s1).
  assert (I2 : InvP s2).
  { destruct I1 as [A B]. split; [apply upd_host_InvS; auto; keeps_tac|].
    apply upd_host_InvO; auto; keeps_tac. intros h0 L0 _. simpl in L0. rewrite L in L0. inversion L0; subst h0.
    simpl. rewrite find_mac_mupd by auto. rewrite N.eqb_refl, F. simpl. eexists; split; [reflexivity|]. reflexivity. }
  destruct (find_mac (h_mac h) (macs s2)) as [e2|]; auto.
  destruct (is4 (h_ip h)).
  - destruct (negb (ip_eqb (h_ip h) (m_ip4 e2))); auto.
    apply fold_left_InvP.
    + intros st v Ist. destruct (is4 v && negb (ip_eqb v (h_ip h))); auto.
      apply upd_host_InvP_mono; auto; [apply supersede_keeps | apply supersede_mono].
    + apply upd_mac_InvP_mono; auto; keeps_tac.
  - assert (I3 : InvP (if is_gua (h_ip h) && negb (ip_eqb (h_ip h) (m_gua e2))
                       then upd_mac (h_mac h) (set_mgua (h_ip h)) s2 else s2)).
    { destruct (is_gua (h_ip h) && negb (ip_eqb (h_ip h) (m_gua e2))); auto.
      apply upd_mac_InvP_mono; auto; keeps_tac. }
    destruct (is_llu (h_ip h) && negb (ip_eqb (h_ip h) (m_lla e2))); auto.
    apply upd_mac_InvP_mono; auto; keeps_tac.
Qed.

(* ------------------------------------------------------------------ *)
(* makeOffline, notify *)

Lemma send_InvP n s : InvP s -> InvP (send n s).
Proof. unfold send. destruct (Nat.ltb _ _); auto. Qed.

Lemma existsb_online_false s m : InvS s ->
  existsb (fun v => host_online v s) (mac_hosts m s) = false ->
  forall k h, hlookup k (hosts s) = Some h -> h_mac h = m -> h_online h = false.
Proof.
  intros A M k h L E. destruct (InvS_host _ _ _ A L) as (_ & e2 & F2 & I2). rewrite E in F2.
  unfold mac_hosts in M. rewrite F2 in M.
  destruct (h_online h) eqn:O; auto.
  assert (X : existsb (fun v => host_online v s) (m_hosts e2) = true).
  { apply existsb_exists. exists k. split; auto. unfold host_online. rewrite L. exact O. }
  rewrite X in M. discriminate.
Qed.

Lemma make_offline_InvP k s : InvP s -> InvP (make_offline k s).
Proof.
  intros I. unfold make_offline. destruct (hlookup k (hosts s)) as [h0|] eqn:L; auto.
  set (s1 := upd_host k (fun x => set_dirty false (set_online false x)) s).
  assert (I1 : InvP s1) by (apply upd_host_InvP_mono; auto; keeps_tac; intros ? ?; discriminate).
  cbn [h_mac set_dirty set_online].
  set (mo := existsb (fun v => host_online v s1) (mac_hosts (h_mac h0) s1)).
  set (s2 := upd_mac (h_mac h0) (set_monline mo) s1).
  assert (I2 : InvP s2).
  { destruct I1 as [A B]. split; [apply upd_mac_InvS; auto; keeps_tac|].
    apply upd_mac_InvO; auto; keeps_tac. intros e F OE. simpl. destruct mo eqn:M; [left; reflexivity|right].
    exact (existsb_online_false s1 (h_mac h0) A M). }
  destruct (Nat.ltb _ _); auto. apply send_InvP. exact I2.
Qed.

Lemma notify_host_InvP k fl s : InvP s -> InvP (notify_host k fl s).
Proof.
  intros I. unfold notify_host. destruct (hlookup k (hosts s)) as [h|] eqn:L; auto.
  destruct (negb (h_dirty h)); auto.
  match goal with |- context [fold_left ?g ?l s] => set (s1 := fold_left g l s) end.
  assert (I1 : InvP s1).
  { apply fold_left_InvP; auto. intros. apply make_offline_InvP. auto. }
  destruct (hlookup k (hosts s1)); auto.
  apply send_InvP. apply upd_host_InvP_mono; auto; keeps_tac.
Qed.

Lemma notify_InvP f s : InvP s -> InvP (notify f s).
Proof.
  intros I. unfold notify. destruct (fr_host f).
  - apply notify_host_InvP; auto.
  - destruct (negb (fr_dhcp4 f)); auto.
    destruct (negb (is_valid _)); auto.
    destruct (hlookup _ (hosts s)); auto. apply notify_host_InvP; auto.
Qed.

(* ------------------------------------------------------------------ *)
(* the remaining API *)

Lemma update_name_InvP kd k name s : InvP s -> InvP (update_name kd k name s).
Proof.
  intros I. unfold update_name. destruct (hlookup k (hosts s)); auto.
  destruct (merge _ _) as [nm [|]]; auto.
  apply upd_mac_InvP_mono; keeps_tac. apply upd_host_InvP_mono; auto; keeps_tac.
Qed.

Lemma rx_InvP c f now s s' fr : rx c f now s = Ok (s', fr) -> InvP s -> InvP s'.
Proof.
  unfold rx. intros H I. destruct (host_event c f) as [[m k]|].
  - destruct (find_or_create m k now s) as [[s1 b]| | |] eqn:F; simpl in H; try discriminate.
    pose proof (find_or_create_InvP _ _ _ _ _ _ F I) as I1.
    destruct (negb (host_online k s1)); inversion H; subst; auto.
    apply online_transition_InvP. exact I1.
  - inversion H; subst. exact I.
Qed.

Lemma dhcp4_update_InvP m k name now s s' e :
  dhcp4_update m k name now s = Ok (s', e) -> InvP s -> InvP s'.
Proof.
  unfold dhcp4_update. intros H I. destruct (negb (is_valid k) || is_unspecified k).
  - inversion H; subst. exact I.
  - destruct (find_or_create m k now s) as [[s1 b]| | |] eqn:F; simpl in H; try discriminate.
    pose proof (find_or_create_InvP _ _ _ _ _ _ F I) as I1.
    assert (I2 : InvP (upd_mac m (set_moffer k) (update_name KDhcp k name s1))).
    { apply upd_mac_InvP_mono; keeps_tac. apply update_name_InvP. exact I1. }
    inversion H; subst. destruct (negb (host_online k _)); auto.
    apply online_transition_InvP. exact I2.
Qed.

Lemma set_offer_InvP m k name s : InvP s -> InvP (set_offer m k name s).
Proof.
  intros I. unfold set_offer. apply upd_mac_InvP_mono; keeps_tac. apply mfoc_InvP. exact I.
Qed.

Lemma capture_InvP m s : InvP s -> InvP (fst (capture m s)).
Proof.
  intros I. unfold capture. pose proof (mfoc_InvP m s I) as I1.
  destruct (find_mac m (macs (mac_find_or_create m s))) as [e|]; simpl; auto.
  destruct (m_captured e); simpl; auto. destruct (m_router e); simpl; auto.
  apply upd_mac_InvP_mono; auto; keeps_tac.
Qed.

Lemma release_InvP m s : InvP s -> InvP (release m s).
Proof. intros I. unfold release. apply upd_mac_InvP_mono; auto; keeps_tac. Qed.

Lemma purge_InvP c now order s : InvP s -> InvP (purge c now order s).
Proof.
  intros I. unfold purge. apply fold_left_InvP; [intros; apply delete_host_InvP; auto|].
  apply fold_left_InvP; [intros; apply make_offline_InvP; auto|]. exact I.
Qed.

Theorem step_InvP c s o : InvP s -> InvP (fst (step c s o)).
Proof.
  intros I. destruct o; simpl.
  - destruct (rx c f now s) as [[s' fr]| | |] eqn:R; simpl; auto.
    exact (rx_InvP _ _ _ _ _ _ R I).
  - destruct (lastf s); simpl; auto. apply notify_InvP. exact I.
  - destruct (dhcp4_update m k name now s) as [[s' [e|]]| | |] eqn:R; simpl; auto;
      eapply dhcp4_update_InvP; eauto.
  - apply set_offer_InvP. exact I.
  - pose proof (capture_InvP m s I) as C. destruct (capture m s) as [s' [e|]]; exact C.
  - apply release_InvP. exact I.
  - apply purge_InvP. exact I.
  - apply update_name_InvP. exact I.
  - revert I. apply InvP_ext; reflexivity.
Qed.

Theorem run_InvP c ops : forall s, InvP s -> InvP (run c s ops).
Proof. induction ops as [|o r IH]; simpl; auto. intros s I. apply IH. apply step_InvP. exact I. Qed.

(* under the invariant no step panics and PrintTable's self-check passes *)
Lemma count_hosts_flat l : count_hosts l = List.length (flat l).
Proof.
  induction l as [|e r IH]; simpl; auto. unfold flat in *. simpl. rewrite app_length, map_length. rewrite IH. reflexivity.
Qed.

Theorem print_table_ok s : InvP s -> print_table s = Ok tt.
Proof.
  intros [(P & _ & _) _]. unfold print_table.
  rewrite count_hosts_flat. rewrite <- (Permutation_length P). unfold hshape. rewrite map_length.
  rewrite Nat.eqb_refl. reflexivity.
Qed.

(* ------------------------------------------------------------------ *)
(* NewSession *)

Lemma empty_InvP : InvP empty_state.
Proof.
  split; [split; [|split]|]; simpl; try constructor. intros k h L. discriminate.
Qed.

Lemma mark_online_InvP k m f g s : InvP s -> keeps f -> mkeeps g ->
  (forall e, m_online (g e) = true) ->
  (forall h, hlookup k (hosts s) = Some h -> h_mac h = m) ->
  InvP (upd_host k f (upd_mac m g s)).
Proof.
  intros I Kf Kg G M.
  assert (I1 : InvP (upd_mac m g s)) by (apply upd_mac_InvP_mono; auto).
  destruct I1 as [A B]. split; [apply upd_host_InvS; auto|].
  apply upd_host_InvO; auto. intros h L _. simpl in L |- *.
  pose proof (M h L) as E. destruct (InvS_host _ _ _ (proj1 I) L) as (_ & e & F & _).
  rewrite find_mac_mupd by (intros x; apply Kg). rewrite E in *. rewrite N.eqb_refl, F. simpl.
  eexists; split; [reflexivity|]. apply G.
Qed.

Theorem new_session_InvP c now s : new_session c now = Ok s -> InvP s.
Proof.
  unfold new_session. intros H.
  destruct (find_or_create (own_mac c) (own_ip4 c) now empty_state) as [[s1 b1]| | |] eqn:F1; simpl in H; try discriminate.
  pose proof (find_or_create_InvP _ _ _ _ _ _ F1 empty_InvP) as I1.
  destruct (find_or_create_post _ _ _ _ _ _ F1) as (h1 & L1 & M1).
  match type of H with context [find_or_create (rt_mac c) (rt_ip4 c) now ?x] => set (s3 := x) in * end.
  assert (I3 : InvP s3).
  { unfold s3. change (InvP (upd_host (own_ip4 c) (fun h => set_online true (set_last (now + year)%Z h))
       (upd_mac (own_mac c) (fun e => set_monline true (set_mlla (own_lla c) (set_mip4 (own_ip4 c) e))) s1))).
    apply mark_online_InvP; auto; keeps_tac. intros h L. rewrite L1 in L. inversion L; subst. exact M1. }
  destruct (find_or_create (rt_mac c) (rt_ip4 c) now s3) as [[s4 b4]| | |] eqn:F4; simpl in H; try discriminate.
  pose proof (find_or_create_InvP _ _ _ _ _ _ F4 I3) as I4.
  destruct (find_or_create_post _ _ _ _ _ _ F4) as (h4 & L4 & M4).
  inversion H; subst s.
  change (InvP (upd_host (rt_ip4 c) (set_online true)
       (upd_mac (rt_mac c) (fun e => set_monline true (set_mip4 (rt_ip4 c) (set_mrouter true e))) s4))).
  apply mark_online_InvP; auto; keeps_tac. intros h L. rewrite L4 in L. inversion L; subst. exact M4.
Qed.

(* ------------------------------------------------------------------ *)
(* no step panics under the invariant *)

Lemma find_or_create_total m k now s : InvP s -> exists r, find_or_create m k now s = Ok r.
Proof.
  intros I. unfold find_or_create. destruct (hlookup k (hosts s)) as [h|]; [|eexists; reflexivity].
  destruct (h_mac h =? m); [eexists; reflexivity|].
  rewrite (print_table_ok s I). simpl. eexists; reflexivity.
Qed.

Theorem step_no_panic c s o : InvP s -> snd (step c s o) <> OPanic.
Proof.
  intros I. destruct o; simpl; try discriminate.
  - unfold rx. destruct (host_event c f) as [[m k]|]; simpl; [|discriminate].
    destruct (find_or_create_total m k now s I) as ([s1 b] & ->). simpl.
    destruct (negb (host_online k s1)); simpl; discriminate.
  - destruct (lastf s); simpl; discriminate.
  - unfold dhcp4_update. destruct (negb (is_valid k) || is_unspecified k); simpl; [discriminate|].
    destruct (find_or_create_total m k now s I) as ([s1 b] & ->). simpl. discriminate.
  - destruct (capture m s) as [s' [e|]]; simpl; discriminate.
Qed.

(* ------------------------------------------------------------------ *)
(* the property's clauses follow from the proof-level invariant *)

Lemma NoDup_app_both {A} (a b : list A) : NoDup (a ++ b) -> NoDup a /\ NoDup b.
Proof.
  induction a as [|x r IH]; simpl; intros H; [split; [constructor|exact H]|].
  inversion H; subst. destruct (IH H3) as [Ha Hb]. split; auto.
  constructor; auto. intros I. apply H2. apply in_or_app. auto.
Qed.

Lemma NoDup_flat_hosts l e :
  NoDup (map (fun x : ip * ip * mac => fst (fst x)) (flat l)) -> In e l -> NoDup (m_hosts e).
Proof.
  induction l as [|e0 r IH]; simpl; [tauto|]. unfold flat in *. simpl. rewrite map_app, map_map. simpl.
  rewrite map_id. intros ND [A|A].
  - subst. exact (proj1 (NoDup_app_both _ _ ND)).
  - apply IH; auto. exact (proj2 (NoDup_app_both _ _ ND)).
Qed.

Theorem InvP_Inv s : InvP s -> Inv s.
Proof.
  intros I. pose proof I as [(P & NK & NM) IO]. pose proof (proj1 I) as IS.
  constructor; auto.
  - intros k h H. apply (In_hlookup _ _ _ NK) in H. apply (InvS_host _ _ _ IS H).
  - intros k h H. apply (In_hlookup _ _ _ NK) in H.
    destruct (InvS_host _ _ _ IS H) as (_ & e & F & Ik).
    pose proof (find_mac_Some _ _ _ F) as [Ie Em]. exists e. repeat split; auto.
    intros e' Ie' Ik'.
    destruct (InvS_listed _ _ _ _ IS (In_find_mac _ _ NM Ie') Ik') as (h' & L' & M' & _).
    rewrite H in L'. inversion L'; subst h'.
    pose proof (In_find_mac _ _ NM Ie') as F'. rewrite <- M', F in F'. inversion F'. reflexivity.
  - intros e k Ie Ik. destruct (InvS_listed _ _ _ _ IS (In_find_mac _ _ NM Ie) Ik) as (h & L & M & _).
    exists h. split; auto. apply hlookup_In. exact L.
  - intros e Ie. apply NoDup_flat_hosts with (macs s); auto.
    eapply Permutation_NoDup; [apply Permutation_map; exact P|].
    unfold hshape. rewrite map_map. simpl. exact NK.
  - intros k h e H O Ie Em. apply (In_hlookup _ _ _ NK) in H.
    destruct (IO k h H O) as (e' & F' & OE).
    pose proof (In_find_mac _ _ NM Ie) as F. rewrite Em, F' in F. inversion F; subst. exact OE.
  - rewrite count_hosts_flat. rewrite <- (Permutation_length P). unfold hshape. apply map_length.
Qed.

(* and conversely: the clause-by-clause invariant implies the proof-level one *)
Lemma NoDup_app_intro {A} (a b : list A) :
  NoDup a -> NoDup b -> (forall x, In x a -> ~ In x b) -> NoDup (a ++ b).
Proof.
  induction a as [|x r IH]; simpl; intros Ha Hb D; [exact Hb|].
  inversion Ha; subst. constructor.
  - intros I. apply in_app_or in I. destruct I as [I|I]; [contradiction|]. apply (D x); auto.
  - apply IH; auto.
Qed.

Lemma NoDup_map_triple (m : mac) l : NoDup l -> NoDup (map (fun k : ip => (k, k, m)) l).
Proof.
  induction l as [|x r IH]; simpl; intros H; [constructor|].
  inversion H; subst. constructor; auto.
  intros I. apply in_map_iff in I. destruct I as (y & E & Iy). inversion E; subst. contradiction.
Qed.

Lemma NoDup_flat l : NoDup (map m_mac l) -> (forall e, In e l -> NoDup (m_hosts e)) -> NoDup (flat l).
Proof.
  induction l as [|e r IH]; simpl; intros NM NH; [constructor|].
  inversion NM; subst. change (flat (e :: r)) with (map (fun k => (k, k, m_mac e)) (m_hosts e) ++ flat r).
  apply NoDup_app_intro.
  - apply NoDup_map_triple. apply NH. auto.
  - apply IH; auto.
  - intros x Ix Jx. apply in_map_iff in Ix. destruct Ix as (k & <- & _).
    unfold flat in Jx. apply in_flat_map in Jx. destruct Jx as (e' & Ie' & Jx).
    apply in_map_iff in Jx. destruct Jx as (k' & E & _). injection E as E1 E2 E3.
    apply H1. rewrite <- E3. apply in_map. exact Ie'.
Qed.

Theorem Inv_InvP s : Inv s -> InvP s.
Proof.
  intros [NK OWN HM LI LO NM ON CNT]. split; [split; [|split]|]; auto.
  - apply NoDup_Permutation.
    + apply (NoDup_map_inv (fun x : ip * ip * mac => fst (fst x))). unfold hshape. rewrite map_map. exact NK.
    + apply NoDup_flat; auto.
    + intros [[k i] m]. split; intros H.
      * unfold hshape in H. apply in_map_iff in H. destruct H as ([k0 h] & E & H). simpl in E.
        injection E as E1 E2 E3. subst k0 i m.
        destruct (HM _ _ H) as (e & Ie & Em & Ik & _). rewrite (OWN _ _ H).
        unfold flat. apply in_flat_map. exists e. split; auto. apply in_map_iff. exists k. rewrite Em. auto.
      * unfold flat in H. apply in_flat_map in H. destruct H as (e & Ie & H). apply in_map_iff in H.
        destruct H as (k0 & E & Ik). injection E as E1 E2 E3. subst k0. subst i m.
        destruct (LI _ _ Ie Ik) as (h & Ih & Mh).
        unfold hshape. apply in_map_iff. exists (k, h). simpl. rewrite (OWN _ _ Ih), Mh. auto.
  - intros k h L O. apply hlookup_In in L. destruct (HM _ _ L) as (e & Ie & Em & _).
    exists e. split; [rewrite <- Em; apply In_find_mac; auto|]. eapply ON; eauto.
Qed.

Theorem Inv_iff s : Inv s <-> InvP s.
Proof. split; [apply Inv_InvP | apply InvP_Inv]. Qed.

(* ------------------------------------------------------------------ *)
(* C05 *)

Theorem C05_init_proof c now s : new_session c now = Ok s -> Inv s.
Proof. intros H. apply InvP_Inv. eapply new_session_InvP; eauto. Qed.

Theorem C05_step_proof c s o : Inv s -> Inv (fst (step c s o)).
Proof. intros I. apply InvP_Inv. apply step_InvP. apply Inv_InvP. exact I. Qed.

Theorem C05_reachable_proof c now s0 ops : new_session c now = Ok s0 -> Inv (run c s0 ops).
Proof. intros H. apply InvP_Inv. apply run_InvP. eapply new_session_InvP; eauto. Qed.

Theorem C05_printtable_proof s : Inv s -> print_table s <> Panic.
Proof. intros I. rewrite (print_table_ok s (Inv_InvP s I)). discriminate. Qed.

Theorem C05_step_no_panic_proof c s o : Inv s -> snd (step c s o) <> OPanic.
Proof. intros I. apply step_no_panic. apply Inv_InvP. exact I. Qed.

Theorem C05_new_session_total_proof c now : exists s, new_session c now = Ok s.
Proof.
  unfold new_session.
  destruct (find_or_create_total (own_mac c) (own_ip4 c) now empty_state empty_InvP) as ([s1 b1] & F1).
  rewrite F1. simpl.
  match goal with |- context [find_or_create (rt_mac c) (rt_ip4 c) now ?x] => set (s3 := x) end.
  assert (I3 : InvP s3).
  { pose proof (find_or_create_InvP _ _ _ _ _ _ F1 empty_InvP) as I1.
    destruct (find_or_create_post _ _ _ _ _ _ F1) as (h1 & L1 & M1).
    unfold s3. change (InvP (upd_host (own_ip4 c) (fun h => set_online true (set_last (now + year)%Z h))
       (upd_mac (own_mac c) (fun e => set_monline true (set_mlla (own_lla c) (set_mip4 (own_ip4 c) e))) s1))).
    apply mark_online_InvP; auto; keeps_tac. intros h L. rewrite L1 in L. inversion L; subst. exact M1. }
  destruct (find_or_create_total (rt_mac c) (rt_ip4 c) now s3 I3) as ([s4 b4] & F4).
  rewrite F4. simpl. eexists. reflexivity.
Qed.

(* ------------------------------------------------------------------ *)
(* non-vacuity: a concrete configuration and history *)

Definition std_cfg : cfg :=
  {| own_mac := 366503875925; own_ip4 := IP4 3232235649; own_lla := IP6 338288524927261089654018896841347760425;
     rt_mac := 439804651110; rt_ip4 := IP4 3232235531;
     lan_base := 3232235520; lan_bits := 24; offline_dl := 300; purge_dl := 3660; probe_dl := 120 |}.

Definition ex_mac1 : mac := 2932031007233.   (* 02:aa:aa:aa:aa:01 *)
Definition ex_mac2 : mac := 2932031007234.
Definition ex_rx4 (m : mac) (a : N) (now : Z) : op :=
  Rx {| f_src := m; f_class := FIP4; f_ip := IP4 a; f_arpmac := 0; f_dhcp4 := false |} now.

(* discovery, IP change (supersession), re-binding by another MAC, ageing, purge *)
Definition ex_history : list op :=
  [ ex_rx4 ex_mac1 3232235521 10; Notify;
    ex_rx4 ex_mac1 3232235522 20; Notify;
    ex_rx4 ex_mac2 3232235523 30;
    ex_rx4 ex_mac2 3232235521 40;
    Purge 400 [IP4 3232235521; IP4 3232235522; IP4 3232235523; IP4 3232235531; IP4 3232235649];
    Purge 5000 [IP4 3232235521; IP4 3232235522; IP4 3232235523; IP4 3232235531; IP4 3232235649] ].

Definition ex_s0 : state := match new_session std_cfg 0 with Ok s => s | _ => empty_state end.
Lemma ex_s0_ok : new_session std_cfg 0 = Ok ex_s0.
Proof. vm_compute. reflexivity. Qed.

Lemma ex_init_ok : List.length (hosts ex_s0) = 2%nat /\ List.length (macs ex_s0) = 2%nat /\ Inv ex_s0.
Proof. split; [reflexivity|]. split; [reflexivity|]. exact (C05_init_proof _ _ _ ex_s0_ok). Qed.

Lemma ex_history_nontrivial :
    let s6 := run std_cfg ex_s0 (firstn 6 ex_history) in
    let s8 := run std_cfg ex_s0 ex_history in
    Inv s6 /\ List.length (hosts s6) = 5%nat /\ List.length (macs s6) = 4%nat /\
    mac_hosts ex_mac2 s6 = [IP4 3232235523; IP4 3232235521] /\
    Inv s8 /\ List.length (hosts s8) = 1%nat /\ List.length (macs s8) = 1%nat.
Proof.
  cbv zeta.
  split; [exact (C05_reachable_proof _ _ _ _ ex_s0_ok)|].
  split; [vm_compute; reflexivity|]. split; [vm_compute; reflexivity|]. split; [vm_compute; reflexivity|].
  split; [exact (C05_reachable_proof _ _ _ _ ex_s0_ok)|].
  split; vm_compute; reflexivity.
Qed.

(* ------------------------------------------------------------------ *)
(* Host.HuntStage is an exported field the APPLICATION writes.  The invariant does not depend on it: any re-valuation of
   the stages of a consistent state is consistent (so is the state after the harness op H, [upd_host k (set_hstage st)]) *)
Definition restage (f : ip -> N) (s : state) : state :=
  set_hosts (map (fun e => (fst e, set_hstage (f (fst e)) (snd e))) (hosts s)) s.

Lemma restage_in f s k h' : In (k, h') (hosts (restage f s)) <->
  exists h, In (k, h) (hosts s) /\ h' = set_hstage (f k) h.
Proof.
  unfold restage. cbn [hosts set_hosts]. rewrite in_map_iff. split.
  - intros ([k0 h0] & E & I). cbn [fst snd] in E. inversion E; subst. exists h0. auto.
  - intros (h & I & ->). exists (k, h). auto.
Qed.

Theorem inv_restage f s : Inv s -> Inv (restage f s).
Proof.
  intros [K O HM L LO M ON C].
  assert (KS : map fst (hosts (restage f s)) = map fst (hosts s)).
  { unfold restage. cbn [hosts set_hosts]. rewrite map_map. reflexivity. }
  assert (MS : macs (restage f s) = macs s) by reflexivity.
  constructor; rewrite ?MS.
  - rewrite KS. exact K.
  - intros k h' I. apply restage_in in I. destruct I as (h & I & ->). cbn [h_ip set_hstage]. apply (O k h I).
  - intros k h' I. apply restage_in in I. destruct I as (h & I & ->). cbn [h_mac set_hstage]. apply (HM k h I).
  - intros e k Ie Ik. destruct (L e k Ie Ik) as (h & I & E). exists (set_hstage (f k) h). split; [|exact E].
    apply restage_in. exists h. auto.
  - exact LO.
  - exact M.
  - intros k h' e I. apply restage_in in I. destruct I as (h & I & ->). cbn [h_online h_mac set_hstage]. apply (ON k h e I).
  - rewrite C. unfold restage. cbn [hosts set_hosts]. rewrite map_length. reflexivity.
Qed.

Lemma upd_host_stage_restage k st s : NoDup (map fst (hosts s)) ->
  upd_host k (set_hstage st) s = restage (fun x => if ip_eqb x k then st else match hlookup x (hosts s) with Some h => h_stage h | None => 1 end) s.
Proof.
  intros ND. unfold upd_host, restage. f_equal. unfold hupd.
  induction (hosts s) as [|[k0 h0] r IH]; [reflexivity|].
  cbn [map fst snd] in *. inversion ND as [|? ? NI ND']; subst.
  cbn [hlookup]. rewrite ip_eqb_refl.
  assert (T : map (fun e : ip * host => if ip_eqb (fst e) k then (fst e, set_hstage st (snd e)) else e) r =
              map (fun e : ip * host => (fst e, set_hstage (if ip_eqb (fst e) k then st else match (if ip_eqb k0 (fst e) then Some h0 else hlookup (fst e) r) with Some h => h_stage h | None => 1 end) (snd e))) r).
  { rewrite (IH ND'). apply map_ext_in. intros [k1 h1] I1. cbn [fst snd].
    destruct (ip_eqb k1 k); [reflexivity|].
    destruct (ip_eqb k0 k1) eqn:E; [|reflexivity]. ipeq. subst k1. exfalso. apply NI. apply in_map_iff. exists (k0, h1). auto. }
  destruct (ip_eqb k0 k) eqn:E0.
  - f_equal. exact T.
  - f_equal; [|exact T]. destruct h0; reflexivity.
Qed.

Theorem inv_set_stage k st s : Inv s -> Inv (upd_host k (set_hstage st) s).
Proof. intros I. rewrite (upd_host_stage_restage k st s (inv_keys s I)). apply inv_restage. exact I. Qed.
