(* Proofs/FastlogViews.v — FastLog/String of views and table entries never panic:
   (1) whenever the text fits (composition with line_renders), for every view and entry;
   (2) unconditionally for the fifteen byte views: their text is bounded well below the buffer,
       or ends in a ByteArray, which truncates itself. *)
From Coq Require Import String.
From PV Require Import Base.Prelude Model.Fastlog Model.FastlogOps Model.FastlogViews Spec.TextSpec
  Proofs.Fastlog Proofs.FastlogIP6 Proofs.FastlogLine Proofs.FastlogInside Proofs.FastlogMsg.
Open Scope N_scope.

(* ---------------------------------------------------------------- flatten *)

Lemma flatten_vop_struct vs : flatten_vop (VStruct (Some vs)) = flatten vs.
Proof.
  unfold flatten. cbn [flatten_vop]. induction vs as [|x r IH]; [reflexivity|].
  cbn [map concat]. rewrite <- IH. reflexivity.
Qed.

Lemma flatten_app a b : flatten (a ++ b) = (flatten a ++ flatten b)%list.
Proof. unfold flatten. rewrite map_app, concat_app. reflexivity. Qed.

Lemma flatten_cons x r : flatten (x :: r) = (flatten_vop x ++ flatten r)%list.
Proof. reflexivity. Qed.

Lemma flatten_ops os : flatten (map VOp os) = os.
Proof. unfold flatten. induction os as [|o r IH]; [reflexivity|]. cbn [map concat flatten_vop app]. rewrite IH. reflexivity. Qed.

(* ---------------------------------------------------------------- field ranges *)

Lemma bt_ok p i : bytes_ok p -> bt p i < 256.
Proof. intros H. unfold bt. apply bytes_ok_nth. exact H. Qed.

Lemma w16_ok p i : bytes_ok p -> w16 p i < 65536.
Proof. intros H. unfold w16. pose proof (bt_ok p i H). pose proof (bt_ok p (i + 1) H). lia. Qed.

Lemma w32_ok p i : bytes_ok p -> w32 p i < 4294967296.
Proof.
  intros H. unfold w32. pose proof (bt_ok p i H). pose proof (bt_ok p (i + 1) H).
  pose proof (bt_ok p (i + 2) H). pose proof (bt_ok p (i + 3) H). lia.
Qed.

Lemma sub_ok p i n : bytes_ok p -> bytes_ok (vsub p i n).
Proof. intros H. unfold vsub. apply bytes_ok_firstn. apply bytes_ok_skipn. exact H. Qed.

Lemma land_byte x m : x < 256 -> N.land x m < 256.
Proof.
  intros H. destruct (N.eq_dec (N.land x m) 0) as [E|E]; [rewrite E; lia|].
  assert (Hx : 0 < x).
  { destruct (N.eq_dec x 0) as [->|]; [rewrite N.land_0_l in E; contradiction|lia]. }
  change 256 with (2 ^ 8) in *. apply N.log2_lt_pow2; [lia|].
  apply N.log2_lt_pow2 in H; [|exact Hx].
  pose proof (N.log2_land x m) as L. lia.
Qed.

Lemma log2_byte a : a < 256 -> N.log2 a < 8.
Proof.
  intros H. destruct (N.eq_dec a 0) as [->|Z]; [cbn; lia|].
  change 256 with (2 ^ 8) in H. apply N.log2_lt_pow2 in H; lia.
Qed.

Lemma lor_byte a b : a < 256 -> b < 256 -> N.lor a b < 256.
Proof.
  intros Ha Hb. destruct (N.eq_dec (N.lor a b) 0) as [E|E]; [rewrite E; lia|].
  change 256 with (2 ^ 8). apply N.log2_lt_pow2; [lia|]. rewrite N.log2_lor.
  apply N.max_lub_lt; apply log2_byte; assumption.
Qed.

Lemma lla_ok p o t : bytes_ok p -> bytes_ok (lla_at p o t).
Proof. intros H. unfold lla_at. destruct (_ && _); [apply sub_ok; exact H|constructor]. Qed.

(* ---------------------------------------------------------------- op_ok of every view *)

Definition addr_ok (a : addr_t) : Prop :=
  bytes_ok (a_mac a) /\ a_port a < 65536.
Definition view_ok (v : view) : Prop :=
  match v with
  | VBytes k p => view_valid k p = true /\ bytes_ok p
  | VAddr a => addr_ok a
  | VName _ => True
  | VHost h => addr_ok (h_addr h)
  | VMac e => bytes_ok (m_mac e)
  | VNotif n => addr_ok (nf_addr n)
  | VDnsEntry _ => True
  | VDnsName d => addr_ok (dn_addr d)
  | VIpName n => addr_ok (in_addr n)
  | VLease l => addr_ok (ls_addr l) /\ bytes_ok (ls_id l)
  end.

Ltac ok_ops :=
  repeat match goal with
         | |- Forall _ (_ ++ _) => apply Forall_app; split
         | |- Forall _ (_ :: _) => constructor
         | |- Forall _ [] => constructor
         | |- Forall _ (if ?c then _ else _) => destruct c
         | |- Forall _ (match ?c with Some _ => _ | None => _ end) => destruct c
         end.

Lemma oaddr_opt_ok n a : op_ok (oaddr_opt n a).
Proof. destruct a; cbn; exact I || reflexivity. Qed.

Lemma lldp_ops_ok p : bytes_ok p -> forall f pos, Forall op_ok (lldp_ops f p pos).
Proof.
  intros B f. induction f as [|f IH]; intros pos; cbn [lldp_ops]; [constructor|].
  destruct (Nat.leb (plen p) (pos + 2)); [constructor|].
  destruct ((bt p pos / 2 =? 0) && _); [constructor|].
  destruct (Nat.leb _ (plen p)); [|constructor].
  destruct (bt p pos / 2 =? 0); [constructor|].
  apply Forall_app; split; [|apply IH].
  destruct ((bt p pos / 2 =? 5) || (bt p pos / 2 =? 6)); [repeat constructor|].
  destruct (bt p pos / 2 =? 7); repeat constructor; cbn [op_ok]; apply sub_ok; exact B.
Qed.

Lemma redirect_addrs_ok p : bytes_ok p -> Forall ipv_ok (redirect_addrs p).
Proof.
  intros B. unfold redirect_addrs. apply Forall_forall. intros v Hv. apply in_map_iff in Hv.
  destruct Hv as (i & <- & _). cbn [ipv_ok]. apply sub_ok. exact B.
Qed.

Lemma view_ops_ok k p : bytes_ok p -> Forall op_ok (flatten (view_ops k p)).
Proof.
  intros B. unfold view_ops. rewrite flatten_ops.
  pose proof (bt_ok p) as Hb. pose proof (w16_ok p) as Hw. pose proof (w32_ok p) as Hd.
  destruct k; ok_ops;
    cbn [op_ok oint ointN oaddr ouint ohex8 ohex16 omac obool ostr oba ipv_ok];
    try reflexivity; try exact I;
    try (apply sub_ok; exact B); try (apply lla_ok; exact B); try (apply bytes_ok_skipn; exact B);
    try exact B; try (apply redirect_addrs_ok; exact B); try (apply lldp_ops_ok; exact B);
    try (match goal with
         | |- bt _ ?i < _ => pose proof (Hb i B); lia
         | |- w16 _ ?i < _ => pose proof (Hw i B); lia
         | |- w32 _ ?i < _ => pose proof (Hd i B); lia
         | |- N.land (bt _ ?i) _ < 256 => apply land_byte; apply Hb; exact B
         | |- N.land (bt _ ?i) _ / _ < _ => pose proof (land_byte (bt p i) 24 (Hb i B)); lia
         end).
Qed.

Lemma addr_ops_ok a : addr_ok a -> Forall op_ok (flatten (addr_ops a)).
Proof.
  intros [Hm Hp]. unfold addr_ops. rewrite flatten_ops. ok_ops; cbn [op_ok omac ouint];
    try exact Hm; try apply oaddr_opt_ok; lia.
Qed.

Lemma name_ops_ok n : Forall op_ok (flatten (name_ops n)).
Proof. unfold name_ops. rewrite flatten_ops. ok_ops; cbn [op_ok]; exact I. Qed.

Lemma names_ops_ok ns : Forall op_ok (flatten (names_ops ns)).
Proof.
  unfold names_ops. rewrite !flatten_cons, !flatten_vop_struct. change (flatten []) with (@nil op).
  repeat (apply Forall_app; split); try apply name_ops_ok. constructor.
Qed.

Lemma ops_of_ok v : view_ok v -> Forall op_ok (flatten (ops_of v)).
Proof.
  destruct v as [k p|a|n|h|e|n|d|d|n|ls]; cbn [view_ok ops_of].
  - intros [_ B]. apply view_ops_ok. exact B.
  - apply addr_ops_ok.
  - intros _. apply name_ops_ok.
  - intros [Hm Hp]. unfold host_ops. rewrite !flatten_app, flatten_ops. ok_ops;
      cbn [op_ok omac obool ostr flatten flatten_vop map concat app]; try exact I; try exact Hm;
      try apply oaddr_opt_ok; try apply names_ops_ok.
    cbn. constructor; [exact I|constructor].
  - intros Hm. unfold mac_ops. rewrite !flatten_app, flatten_ops. ok_ops;
      cbn [op_ok omac obool ostr oint oaddr]; try exact I; try exact Hm; try reflexivity;
      try apply oaddr_opt_ok; try apply names_ops_ok.
  - intros HA. unfold notif_ops. rewrite !flatten_app.
    apply Forall_app; split; [|apply Forall_app; split; [|apply Forall_app; split]].
    + rewrite flatten_cons, flatten_vop_struct. apply Forall_app; split; [apply addr_ops_ok; exact HA|].
      cbn. constructor; [exact I|constructor].
    + destruct (nonempty (nf_manuf n)); cbn; repeat constructor.
    + apply names_ops_ok.
    + cbn. repeat constructor.
  - intros _. unfold dnsentry_ops. rewrite flatten_ops. repeat constructor.
  - intros HA. unfold dnsname_ops. rewrite flatten_cons, flatten_vop_struct.
    apply Forall_app; split; [apply addr_ops_ok; exact HA|]. cbn. repeat constructor.
  - intros HA. unfold ipname_ops. rewrite !flatten_cons, !flatten_vop_struct. change (flatten []) with (@nil op).
    apply Forall_app; split; [apply addr_ops_ok; exact HA|]. rewrite app_nil_r. apply name_ops_ok.
  - intros [HA HI]. unfold lease_ops.
    do 3 rewrite flatten_cons. rewrite flatten_vop_struct. cbn [flatten_vop app].
    constructor; [exact HI|]. constructor; [exact I|].
    apply Forall_app; split; [apply addr_ops_ok; exact HA|].
    cbn [flatten flatten_vop map concat app].
    repeat (constructor; [first [exact I|apply oaddr_opt_ok]|]). constructor.
Qed.

(* ---------------------------------------------------------------- (1) whenever the text fits *)

Theorem view_fastlog_safe v l :
  view_ok v -> wf l -> (index l <= BUFSZ)%nat -> line_fits (index l) (flatten (ops_of v)) = true ->
  exists l', run_vops l (ops_of v) = Ok l' /\
             to_string l' = Ok (text_of l ++ concat (map spec_text (flatten (ops_of v)))).
Proof.
  intros OK W H F. unfold run_vops.
  destruct (line_renders (flatten (ops_of v)) l W H (ops_of_ok v OK) F) as (l' & R & _ & S).
  exists l'. split; assumption.
Qed.

Corollary view_fastlog_no_panic v l :
  view_ok v -> wf l -> (index l <= BUFSZ)%nat -> line_fits (index l) (flatten (ops_of v)) = true ->
  run_vops l (ops_of v) <> Panic.
Proof.
  intros OK W H F. destruct (view_fastlog_safe v l OK W H F) as (l' & R & _). rewrite R. discriminate.
Qed.

(* ---------------------------------------------------------------- lengths of reference texts *)

Lemma rdig_len k : forall f n, n < 10 ^ N.of_nat k -> (List.length (rdig f n) <= k)%nat.
Proof.
  induction k as [|k IH]; intros f n H.
  - cbn in H. replace n with 0 by lia. rewrite rdig_zero. cbn. lia.
  - destruct f as [|f]; [cbn; lia|]. cbn [rdig]. destruct (n =? 0); [cbn; lia|].
    cbn [List.length]. rewrite Nat2N.inj_succ, N.pow_succ_r' in H.
    specialize (IH f (n / 10) ltac:(lia)). lia.
Qed.

Lemma dec_len n k : n < 10 ^ N.of_nat k -> (1 <= k)%nat -> (List.length (dec n) <= k)%nat.
Proof.
  intros H K. destruct (N.eqb_spec n 0) as [Z|Z].
  { subst. change (dec 0) with [48]. cbn [List.length]. lia. }
  unfold dec.
  assert (A : n < 2 ^ N.of_nat (S (N.to_nat (N.size n)))).
  { rewrite Nat2N.inj_succ, N2Nat.id, N.pow_succ_r'. pose proof (N.size_gt n). lia. }
  assert (B : n < 10 ^ N.of_nat (S (N.to_nat (N.size n)))).
  { pose proof (pow2_le_pow10 (N.of_nat (S (N.to_nat (N.size n))))). lia. }
  rewrite (dec_fuel_rdig _ (S (N.to_nat (N.size n))) n [] A B) by lia.
  rewrite app_nil_r, rev_length. apply rdig_len. exact H.
Qed.

Lemma dec_Z_len z : (- 2 ^ 63 <= z < 2 ^ 63)%Z -> (List.length (dec_Z z) <= 20)%nat.
Proof.
  intros H. destruct z as [|p|p]; cbn [dec_Z].
  - change (dec 0) with [48]. cbn [List.length]. lia.
  - assert (L := dec_len (Npos p) 19). change (10 ^ N.of_nat 19) with 10000000000000000000 in L.
    assert (Npos p < 10000000000000000000) by lia. specialize (L H0 ltac:(lia)). lia.
  - cbn [List.length].
    assert (L := dec_len (Npos p) 19). change (10 ^ N.of_nat 19) with 10000000000000000000 in L.
    assert (Npos p < 10000000000000000000) by lia. specialize (L H0 ltac:(lia)). lia.
Qed.

Lemma addr_text_len b : bytes_ok b -> (List.length b = 4%nat \/ List.length b = 16%nat) ->
  (List.length (addr_text (Some b)) <= 39)%nat.
Proof.
  intros B [H|H]; unfold addr_text; rewrite H; cbn [Nat.eqb].
  - do 4 (destruct b as [|? b]; [discriminate|]). destruct b; [|discriminate].
    unfold bytes_ok in B.
    repeat match goal with H : Forall _ (_ :: _) |- _ => inversion H; clear H; subst end.
    eapply Nat.le_trans; [apply ip4_text_len; assumption|lia].
  - unfold ip6_text. destruct (is4in6 b) eqn:E.
    + do 16 (destruct b as [|? b]; [discriminate|]). destruct b; [|discriminate].
      unfold bytes_ok in B.
      repeat match goal with H : Forall _ (_ :: _) |- _ => inversion H; clear H; subst end.
      cbn [skipn]. rewrite app_length. cbn [List.length].
      match goal with |- (_ + List.length (ip4_text [?a; ?b; ?c; ?d]) <= _)%nat =>
        assert (List.length (ip4_text [a; b; c; d]) <= 15)%nat by (apply ip4_text_len; assumption) end. lia.
    + apply ip6_plain_len; assumption.
Qed.

(* an upper bound of the reference text of a call that does not depend on the values *)
Definition op_bound (o : op) : nat :=
  match o with
  | OUint n _ => List.length n + 12
  | OHex8 n _ => List.length n + 6
  | OHex16 n _ => List.length n + 8
  | OInt n _ _ => List.length n + 22
  | OBool n _ => List.length n + 7
  | OMac n _ => List.length n + 19
  | OIP n _ _ => List.length n + 41
  | OByteArr n v => List.length n + 4 + 3 * List.length v
  | _ => List.length (spec_text o)
  end.

(* int arguments are Go ints; IP arguments are 4- or 16-byte addresses *)
Definition op_small (o : op) : Prop :=
  match o with
  | OInt _ z _ => (- 2 ^ 63 <= z < 2 ^ 63)%Z
  | OIP _ (Some b) _ => bytes_ok b /\ (List.length b = 4%nat \/ List.length b = 16%nat)
  | _ => True
  end.

Lemma fld_len n t : List.length (fld n t) = (List.length n + 2 + List.length t)%nat.
Proof. unfold fld. cbn [List.length]. rewrite app_length. cbn [List.length]. lia. Qed.

Lemma op_bound_ok o : op_ok o -> op_small o -> (List.length (spec_text o) <= op_bound o)%nat.
Proof.
  intros OK SM. destruct o; cbn [spec_text op_bound op_ok op_small] in *; try lia; rewrite ?fld_len.
  - assert (L := dec_len v 10). change (10 ^ N.of_nat 10) with 10000000000 in L. specialize (L ltac:(lia) ltac:(lia)). lia.
  - cbn. lia.
  - cbn. lia.
  - pose proof (dec_Z_len z SM). lia.
  - destruct v; cbn; lia.
  - destruct (Nat.eqb_spec (List.length m) 6) as [E|E]; [|cbn; lia].
    do 6 (destruct m as [|? m]; [discriminate|]). destruct m; [|discriminate]. cbn. lia.
  - destruct a as [b|]; [|cbn; lia]. destruct SM as [Bb Lb]. pose proof (addr_text_len b Bb Lb). lia.
  - unfold bytearr_text. cbn [List.length]. rewrite app_length. cbn [List.length].
    destruct v as [|a r]; [cbn; lia|].
    assert (J : S (List.length (join [SP] (map hex2 (a :: r)))) = List.length (concat (map belem (a :: r)))).
    { rewrite join_belem by discriminate. rewrite app_length. cbn [List.length]. lia. }
    rewrite belems_len in J. lia.
Qed.

Fixpoint total_bound (os : list op) : nat :=
  match os with
  | [] => O
  | o :: r => (op_bound o + 1 + total_bound r)%nat
  end.

Definition no_unbounded (o : op) : bool :=
  match o with OStrArr _ _ | OIPArr _ _ => false | _ => true end.

Lemma fits_of_bound os : forall idx b,
  Forall op_ok os -> Forall op_small os -> forallb no_unbounded os = true ->
  (idx <= b)%nat -> (b + total_bound os <= BUFSZ)%nat -> line_fits idx os = true.
Proof.
  induction os as [|o r IH]; intros idx b OKs SMs NU Hi Hb; [reflexivity|].
  inversion OKs as [|? ? OKo OKr]; inversion SMs as [|? ? SMo SMr]; subst.
  cbn [forallb] in NU. apply andb_prop in NU. destruct NU as [NUo NUr].
  cbn [line_fits total_bound] in *. pose proof (op_bound_ok o OKo SMo) as L.
  apply andb_true_intro. split.
  - unfold op_fits. destruct o; try discriminate; try (apply Nat.leb_le; lia).
    destruct v; apply Nat.leb_le; lia.
  - apply (IH _ (b + op_bound o + 1)%nat); auto; lia.
Qed.

Lemma run_ops_app a : forall l b, run_ops l (a ++ b) = (l' <- run_ops l a ;; run_ops l' b)%res.
Proof.
  induction a as [|o r IH]; intros l b; cbn [run_ops app bind]; [reflexivity|].
  destruct (run_op l o); cbn [bind]; auto.
Qed.

(* ---------------------------------------------------------------- (2) the byte views never panic *)

Definition frame_len_ok (p : bytes) : Prop := N.of_nat (plen p) <= 70000.

Lemma sub_len p i n : (i + n <= plen p)%nat -> List.length (vsub p i n) = n.
Proof. unfold vsub, plen. intros H. rewrite firstn_length, skipn_length. lia. Qed.

Ltac small_ops :=
  repeat match goal with
         | |- Forall _ (_ ++ _) => apply Forall_app; split
         | |- Forall _ (_ :: _) => constructor
         | |- Forall _ [] => constructor
         | |- Forall _ (if ?c then _ else _) => destruct c
         end.

Ltac valid_facts V :=
  unfold view_valid in V; repeat (apply andb_prop in V; let V2 := fresh "V" in destruct V as [V V2]);
  repeat match goal with H : Nat.leb _ _ = true |- _ => apply Nat.leb_le in H end.

Lemma lldp_ops_small p : forall f pos, Forall op_small (lldp_ops f p pos).
Proof.
  intros f. induction f as [|f IH]; intros pos; cbn [lldp_ops]; [constructor|].
  destruct (Nat.leb (plen p) (pos + 2)); [constructor|].
  destruct ((bt p pos / 2 =? 0) && _); [constructor|].
  destruct (Nat.leb _ (plen p)); [|constructor].
  destruct (bt p pos / 2 =? 0); [constructor|].
  apply Forall_app; split; [|apply IH].
  destruct ((bt p pos / 2 =? 5) || (bt p pos / 2 =? 6)); [repeat constructor|].
  destruct (bt p pos / 2 =? 7); repeat constructor.
Qed.

Lemma view_ops_small k p :
  view_valid k p = true -> bytes_ok p -> frame_len_ok p -> Forall op_small (flatten (view_ops k p)).
Proof.
  intros V B FL. unfold view_ops. rewrite flatten_ops. unfold frame_len_ok in FL.
  pose proof (bt_ok p) as Hb. pose proof (w16_ok p) as Hw.
  destruct k; valid_facts V; small_ops;
    cbn [op_small oint ointN oaddr ouint ohex8 ohex16 omac obool ostr oba]; try exact I; try apply lldp_ops_small;
    try (split; [apply sub_ok; exact B|]; try (left; apply sub_len; lia); try (right; apply sub_len; lia));
    try match goal with
        | |- (_ <= Z.of_N (bt _ ?i / _) < _)%Z => pose proof (Hb i B); lia
        | |- (_ <= Z.of_N (bt _ ?i) < _)%Z => pose proof (Hb i B); lia
        | |- (_ <= Z.of_N (w16 _ ?i) < _)%Z => pose proof (Hw i B); lia
        | |- (_ <= Z.of_nat _ < _)%Z => lia
        | |- (_ <= Z.of_N (N.land (bt _ ?i) _) < _)%Z => pose proof (land_byte (bt p i) 15 (Hb i B)); lia
        | |- (_ <= Z.of_N (N.lor (N.land (bt _ ?i) 15 * 16) (bt _ ?j / 16)) < _)%Z =>
            pose proof (land_byte (bt p i) 15 (Hb i B)); pose proof (Hb j B);
            assert (N.land (bt p i) 15 * 16 < 256) by (pose proof (land15 (bt p i)); lia);
            pose proof (lor_byte (N.land (bt p i) 15 * 16) (bt p j / 16) ltac:(assumption) ltac:(lia)); lia
        | |- (_ <= Z.of_N (N.land (bt _ ?i) _ * 256 + bt _ ?j) < _)%Z =>
            pose proof (land_byte (bt p i) 31 (Hb i B)); pose proof (Hb j B); lia
        end.
Qed.

(* views whose text is bounded; the others end in an array over the rest of the frame (ICMPEcho, IEEE1905,
   RRCP, ICMP4Redirect) or walk TLVs (LLDP) *)
Definition bounded_kind (k : vkind) : bool :=
  match k with KICMPEcho | KIEEE1905 | KRRCP | KRedirect | KLLDP => false | _ => true end.

Lemma view_total_bound k p : bounded_kind k = true -> (total_bound (flatten (view_ops k p)) <= 400)%nat.
Proof.
  intros BK. unfold view_ops. rewrite flatten_ops.
  destruct k; try discriminate; try (apply Nat.leb_le; vm_compute; reflexivity).
  - (* IP4: with or without the fragment field *)
    destruct (N.land (bt p 6) 31 * 256 + bt p 7 =? 0); apply Nat.leb_le; vm_compute; reflexivity.
  - (* DHCP4: the 4-byte xid is printed by ByteArray *)
    assert (L : (List.length (vsub p 4 4) <= 4)%nat) by (unfold vsub; apply firstn_le_length).
    cbn [total_bound op_bound oba ouint omac oaddr oint s2b List.length]. lia.
  - (* LLC: one of four type names *)
    unfold llc_type. repeat match goal with |- context [if ?c then _ else _] => destruct c end;
      apply Nat.leb_le; vm_compute; reflexivity.
  - (* SNAP: the 3-byte organisation id is printed by ByteArray *)
    assert (L : (List.length (vsub p 3 3) <= 3)%nat) by (unfold vsub; apply firstn_le_length).
    cbn [total_bound op_bound oba ouint s2b List.length]. lia.
Qed.

Lemma view_no_unbounded k p : bounded_kind k = true -> forallb no_unbounded (flatten (view_ops k p)) = true.
Proof.
  intros BK. unfold view_ops. rewrite flatten_ops. destruct k; try discriminate; try reflexivity.
  destruct (N.land (bt p 6) 31 * 256 + bt p 7 =? 0); reflexivity.
Qed.

(* FastLog of a bounded view on a line that holds at most 1600 bytes: fits, hence renders *)
Lemma view_fits k p idx :
  bounded_kind k = true -> view_valid k p = true -> bytes_ok p -> frame_len_ok p -> (idx <= 1600)%nat ->
  line_fits idx (flatten (view_ops k p)) = true.
Proof.
  intros BK V B FL Hi.
  apply (fits_of_bound _ idx idx); auto.
  - apply view_ops_ok; exact B.
  - apply view_ops_small; assumption.
  - apply view_no_unbounded; exact BK.
  - pose proof (view_total_bound k p BK). unfold BUFSZ. lia.
Qed.

(* a bounded prefix of scalar calls, then at most one array over the rest of the frame: the scalars fit,
   the array keeps itself inside *)
Lemma prefix_array_total os tail l :
  Forall op_ok os -> Forall op_small os -> forallb no_unbounded os = true -> (total_bound os <= 400)%nat ->
  (tail = [] \/ exists a, tail = [a] /\ is_array a = true /\ op_ok a) ->
  wf l -> (index l <= 1600)%nat ->
  exists l', run_ops l (os ++ tail) = Ok l' /\ wf l' /\ (index l' <= BUFSZ)%nat.
Proof.
  intros OKs SMs NU TB T W Hi. rewrite run_ops_app.
  assert (F : line_fits (index l) os = true).
  { apply (fits_of_bound _ (index l) (index l)); auto. unfold BUFSZ. lia. }
  destruct (line_renders os l W ltac:(unfold BUFSZ; lia) OKs F) as (l1 & R1 & (W1 & I1 & _) & S1).
  rewrite R1. cbn [bind].
  unfold to_string in S1. destruct (Nat.ltb_spec BUFSZ (index l1)) as [|H1]; [discriminate|].
  destruct T as [->|(a & -> & A & OKa)].
  - exists l1. cbn [run_ops]. auto.
  - cbn [run_ops]. destruct (arrays_inside l1 a A OKa W1 H1) as (l2 & R2 & W2 & H2).
    rewrite R2. cbn [bind]. exists l2. auto.
Qed.

(* every view except LLDP *)
Definition total_kind (k : vkind) : bool := match k with KLLDP => false | _ => true end.

(* on any valid frame, from any index up to 1600 (String() starts at 7): no call panics and the index stays
   inside the buffer *)
Theorem view_bytes_total k p l :
  total_kind k = true ->
  view_valid k p = true -> bytes_ok p -> frame_len_ok p -> wf l -> (index l <= 1600)%nat ->
  exists l', run_vops l (view_ops k p) = Ok l' /\ wf l' /\ (index l' <= BUFSZ)%nat.
Proof.
  intros TK V B FL W Hi. destruct (bounded_kind k) eqn:BK.
  - pose proof (view_fits k p (index l) BK V B FL Hi) as F.
    destruct (line_renders _ l W ltac:(unfold BUFSZ; lia) (view_ops_ok k p B) F) as (l' & R & (W' & I' & _) & S).
    exists l'. split; [exact R|]. split; [exact W'|].
    unfold to_string in S. destruct (Nat.ltb_spec BUFSZ (index l')); [discriminate|assumption].
  - unfold run_vops.
    pose proof (bt_ok p) as Hb. pose proof (w16_ok p) as Hw.
    assert (Hok : Forall op_ok (flatten (view_ops k p))) by (apply view_ops_ok; exact B).
    unfold view_ops in *. rewrite flatten_ops in *.
    destruct k; try discriminate.
    + (* ICMPEcho *)
      apply (prefix_array_total [_; _; _; _; _] [_]); auto.
      * apply Forall_forall; intros x Hx; rewrite Forall_forall in Hok; apply Hok; cbn [In] in *; tauto.
      * repeat constructor.
      * apply Nat.leb_le. vm_compute. reflexivity.
      * right. eexists. split; [reflexivity|]. split; [reflexivity|]. cbn [op_ok oba]. apply bytes_ok_skipn. exact B.
    + (* IEEE1905 *)
      apply (prefix_array_total [_; _; _; _; _] [_]); auto.
      * apply Forall_forall; intros x Hx; rewrite Forall_forall in Hok; apply Hok; cbn [In] in *; tauto.
      * repeat constructor.
      * apply Nat.leb_le. vm_compute. reflexivity.
      * right. eexists. split; [reflexivity|]. split; [reflexivity|]. cbn [op_ok oba]. apply bytes_ok_skipn. exact B.
    + (* RRCP: three shapes *)
      destruct (bt p 0 =? 35).
      * apply (prefix_array_total [_; _] [_]); auto.
        -- apply Forall_forall; intros x Hx; rewrite Forall_forall in Hok; apply Hok; cbn [In] in *; tauto.
        -- repeat constructor.
        -- assert (L : (List.length (vsub p 1 6) <= 6)%nat) by (unfold vsub; apply firstn_le_length).
           cbn [total_bound].
           match goal with |- (op_bound ?a + _ + _ <= _)%nat => set (X := op_bound a);
             assert (HX : (X <= 60)%nat) by (apply Nat.leb_le; vm_compute; reflexivity) end.
           cbn [op_bound oba s2b List.length]. lia.
        -- right. eexists. split; [reflexivity|]. split; [reflexivity|]. cbn [op_ok oba]. apply bytes_ok_skipn. exact B.
      * destruct (bt p 0 =? 1).
        -- rewrite <- (app_nil_r [_; _; _]). apply (prefix_array_total [_; _; _] []); auto.
           ++ repeat constructor.
           ++ apply Nat.leb_le. vm_compute. reflexivity.
        -- apply (prefix_array_total [_; _] [_]); auto.
           ++ apply Forall_forall; intros x Hx; rewrite Forall_forall in Hok; apply Hok; cbn [In] in *; tauto.
           ++ repeat constructor.
           ++ apply Nat.leb_le. vm_compute. reflexivity.
           ++ right. eexists. split; [reflexivity|]. split; [reflexivity|]. cbn [op_ok oba]. exact B.
    + (* ICMP4Redirect *)
      apply (prefix_array_total [_; _; _; _; _; _; _] [_]); auto.
      * apply Forall_forall; intros x Hx; rewrite Forall_forall in Hok; apply Hok; cbn [In] in *; tauto.
      * repeat constructor.
      * apply Nat.leb_le. vm_compute. reflexivity.
      * right. eexists. split; [reflexivity|]. split; [reflexivity|]. cbn [op_ok]. apply redirect_addrs_ok. exact B.
Qed.

(* LLDP is the exception: its FastLog goes on after a ByteArray that had to be truncated, and the next
   String call then panics in appendByte.  A valid 1011-byte frame with two 500-byte TLVs and a name TLV: *)
Definition ex_lldp_big : bytes :=
  ([3; 244] ++ repeat 65 500 ++ [5; 244] ++ repeat 66 500 ++ [10; 1; 67] ++ [0; 0])%list.
Lemma lldp_can_panic :
  view_valid KLLDP ex_lldp_big = true /\ bytes_ok ex_lldp_big /\ frame_len_ok ex_lldp_big /\
  run_vops (mkLine (repeat 46 BUFSZ) 7) (view_ops KLLDP ex_lldp_big) = Panic /\
  line_fits 7 (flatten (view_ops KLLDP ex_lldp_big)) = false.
Proof.
  split; [vm_compute; reflexivity|]. split; [apply bytes_okb_spec; vm_compute; reflexivity|].
  split; [unfold frame_len_ok; vm_compute; discriminate|]. split; vm_compute; reflexivity.
Qed.

(* String() = Logger.Msg("").Struct(p).ToString(): never panics on a valid frame *)
Theorem view_string_total k p b0 m :
  total_kind k = true -> view_valid k p = true -> bytes_ok p -> frame_len_ok p -> List.length b0 = BUFSZ ->
  exists l0 l' t, msg_line b0 m [] = Ok l0 /\ run_vops l0 (view_ops k p) = Ok l' /\ to_string l' = Ok t.
Proof.
  intros TK V B FL Hb.
  destruct (msg_renders b0 m [] Hb) as (l0 & R0 & W0 & I0 & _).
  { unfold msg_text. rewrite app_nil_r, module7_len. unfold BUFSZ. lia. }
  unfold msg_text in I0. rewrite app_nil_r, module7_len in I0.
  destruct (view_bytes_total k p l0 TK V B FL W0 ltac:(lia)) as (l' & R & W' & H').
  exists l0, l', (text_of l'). split; [exact R0|]. split; [exact R|].
  unfold to_string. destruct (Nat.ltb_spec BUFSZ (index l')); [lia|reflexivity].
Qed.

(* non-vacuity: a valid IPv4 header and a host entry *)
Definition ex_ip4 : bytes := [69; 0; 0; 20; 0; 1; 64; 0; 64; 17; 0; 0; 192; 168; 0; 1; 192; 168; 0; 2].
Definition ex_name : name_t := mkName (s2b "mdns") (s2b "printer") [] [] [] None.
Definition ex_host : host_t :=
  mkHost (mkAddr [0; 17; 34; 51; 68; 85] (Some [192; 168; 0; 9]) 0) true false 1 (s2b "acme")
         (mkNames ex_name ex_name ex_name ex_name ex_name) (s2b "1s").
Lemma views_nonvacuous :
  view_ok (VBytes KIP4 ex_ip4) /\ frame_len_ok ex_ip4 /\ view_ok (VHost ex_host) /\
  line_fits 7 (flatten (ops_of (VHost ex_host))) = true /\
  List.length (concat (map spec_text (flatten (ops_of (VBytes KIP4 ex_ip4))))) = 87%nat.
Proof.
  split; [split; [reflexivity|apply bytes_okb_spec; vm_compute; reflexivity]|].
  split; [unfold frame_len_ok; vm_compute; discriminate|].
  split; [split; [apply bytes_okb_spec; vm_compute; reflexivity|cbn; lia]|].
  split; vm_compute; reflexivity.
Qed.
