(* Proofs/FastlogNoFit.v — what happens when a call does NOT fit (the property promises
   faithful lines only "whenever it fits"):
     - appendByte on a full line panics; copy never panics and truncates at byte 2048;
       ToString panics exactly when the index has passed 2048 (only IP / Module can do that);
     - whatever a call does, fitting or not, the buffer keeps its 2048 bytes: a call that
       returns leaves a well-formed line (C20_buffer_never_grows);
     - witnesses of the three outcomes: panic, silent truncation, index past the buffer. *)
From PV Require Import Base.Prelude Model.Fastlog Model.FastlogOps Spec.TextSpec Proofs.Fastlog Proofs.FastlogLine.
Open Scope N_scope.

Lemma bufsz_ge_10 : (10 <= BUFSZ)%nat.
Proof. unfold BUFSZ. lia. Qed.
Local Opaque BUFSZ.
Ltac alia := unfold text, bytes, byte in *; lia.

Lemma append_byte_full l b : (BUFSZ <= index l)%nat -> append_byte l b = Panic.
Proof. intros H. unfold append_byte. destruct (Nat.ltb_spec (index l) BUFSZ); [lia|reflexivity]. Qed.

Lemma to_string_panics l : to_string l = Panic <-> (BUFSZ < index l)%nat.
Proof.
  unfold to_string. destruct (Nat.ltb_spec BUFSZ (index l)); split; intros; try reflexivity; try lia; discriminate.
Qed.

Lemma copy_in_truncates l s : wf l -> (index l <= BUFSZ)%nat ->
  exists l', copy_in l s = Ok l' /\ wf l' /\ index l' = Nat.min (index l + List.length s) BUFSZ /\
             text_of l' = text_of l ++ firstn (BUFSZ - index l) s.
Proof.
  intros W H. unfold copy_in. destruct (Nat.ltb_spec BUFSZ (index l)); [lia|].
  eexists; split; [reflexivity|]. unfold wf in *.
  set (n := Nat.min (List.length s) (BUFSZ - index l)).
  assert (Ln : List.length (firstn n s) = n) by (rewrite firstn_length; unfold n; lia).
  split; [unfold wf; cbn [buf]; rewrite write_at_length; [exact W|rewrite Ln; unfold n; lia]|].
  split; [cbn [index]; unfold n; lia|].
  unfold text_of. cbn [buf index]. rewrite <- Ln at 1. rewrite firstn_write_at by (rewrite Ln; unfold n; lia).
  f_equal. unfold n. destruct (Nat.le_ge_cases (List.length s) (BUFSZ - index l)).
  - rewrite Nat.min_l by lia. rewrite !firstn_all2 by lia. reflexivity.
  - rewrite Nat.min_r by lia. reflexivity.
Qed.

(* ---------------------------------------------------------------- the buffer keeps its size *)

(* inside the buffer: 2048 bytes and the write index at most 2048 *)
Definition ins (l : line) : Prop := wf l /\ (index l <= BUFSZ)%nat.
Definition keeps (c : line -> res line) : Prop := forall l l', ins l -> c l = Ok l' -> ins l'.

Lemma keeps_ok : keeps (fun l => Ok l).
Proof. intros l l' W E. injection E as <-; exact W. Qed.

Lemma keeps_bind c1 c2 : keeps c1 -> keeps c2 -> keeps (fun l => (l1 <- c1 l ;; c2 l1)%res).
Proof.
  intros K1 K2 l l' W E. destruct (c1 l) as [l1| | |] eqn:E1; cbn [bind] in E; try discriminate.
  eapply K2; [eapply K1; eassumption|exact E].
Qed.

Lemma keeps_pure {A} (r : res A) (k : A -> line -> res line) :
  (forall a, keeps (k a)) -> keeps (fun l => (x <- r ;; k x l)%res).
Proof. intros K l l' W E. destruct r; cbn [bind] in E; try discriminate. eapply K; eassumption. Qed.

Lemma keeps_byte b : keeps (fun l => append_byte l b).
Proof.
  intros l l' [W H] E. unfold append_byte in E. destruct (Nat.ltb_spec (index l) BUFSZ); [|discriminate].
  injection E as <-. split; [|cbn [index]; lia]. unfold wf in *. cbn [buf]. rewrite set_nth_length. exact W.
Qed.

Lemma write_at_keeps b i t : (i + List.length t <= List.length b)%nat -> List.length (write_at b i t) = List.length b.
Proof. apply write_at_length. Qed.

Lemma keeps_copy s : keeps (fun l => copy_in l s).
Proof.
  intros l l' [W H] E. unfold copy_in in E. destruct (Nat.ltb_spec BUFSZ (index l)); [discriminate|].
  injection E as <-. pose proof (Nat.le_min_r (List.length s) (BUFSZ - index l)).
  split; [|cbn [index]; lia]. unfold wf in *. cbn [buf]. rewrite write_at_length; [exact W|].
  rewrite firstn_length. unfold bytes, byte in *. lia.
Qed.

Lemma ins_dec l : ins l -> ins (dec_index l).
Proof. intros [W H]. split; [exact W|]. unfold dec_index. cbn [index]. lia. Qed.

Lemma keeps_dec c : keeps c -> keeps (fun l => (l1 <- c l ;; Ok (dec_index l1))%res).
Proof. intros K. apply keeps_bind; [exact K|]. intros l l' W E. injection E as <-. apply ins_dec. exact W. Qed.

Ltac kp :=
  repeat first [ apply keeps_bind | apply keeps_byte | apply keeps_copy | apply keeps_ok
               | apply keeps_pure; intro ].

Lemma keeps_field_open n : keeps (fun l => field_open l n).
Proof. unfold field_open. kp. Qed.

Lemma keeps_write_hex v : keeps (fun l => write_hex l v).
Proof. unfold write_hex. kp. Qed.

Lemma keeps_write_hex_nlz v : keeps (fun l => write_hex_nlz l v).
Proof.
  unfold write_hex_nlz. apply keeps_bind; [|kp].
  destruct (N.shiftr v 4 =? 0); kp.
Qed.

Lemma put_digits_length f : forall b i v b', put_digits f b i v = Ok b' -> List.length b' = List.length b.
Proof.
  induction f as [|f IH]; intros b i v b' E; cbn [put_digits] in E; [injection E as <-; reflexivity|].
  destruct (v =? 0); [injection E as <-; reflexivity|]. destruct (Nat.ltb i BUFSZ); [|discriminate].
  apply IH in E. rewrite E. apply set_nth_length.
Qed.

Lemma put_digits_first f b i v b' : v <> 0 -> put_digits (S f) b i v = Ok b' -> (i < BUFSZ)%nat.
Proof.
  intros Hv E. cbn [put_digits] in E. destruct (N.eqb_spec v 0); [contradiction|].
  destruct (Nat.ltb_spec i BUFSZ); [assumption|discriminate].
Qed.

Lemma count_digits_pos v : v <> 0 -> (1 <= count_digits 10 v)%nat.
Proof. intros H. cbn [count_digits]. destruct (N.eqb_spec v 0); [contradiction|lia]. Qed.

Lemma index_mk b i : index (mkLine b i) = i.
Proof. reflexivity. Qed.

Lemma keeps_print_int v : keeps (fun l => print_int l v).
Proof.
  intros l l' [W H] E. unfold print_int in E. destruct (N.eqb_spec v 0) as [Z|Z]; [eapply keeps_byte; [split|]; eassumption|].
  destruct (put_digits 10 (buf l) _ v) as [b| | |] eqn:P; cbn [bind] in E; try discriminate.
  injection E as <-. pose proof (put_digits_first _ _ _ _ _ Z P) as F. pose proof (count_digits_pos v Z).
  split; [|rewrite index_mk; change (index l + count_digits 10 v <= BUFSZ)%nat; lia]. unfold wf in *. cbn [buf]. rewrite (put_digits_length _ _ _ _ _ P). exact W.
Qed.

Lemma keeps_put_ip4 a b c d : keeps (fun l => put_ip4 l a b c d).
Proof. unfold put_ip4. kp. Qed.

Lemma keeps_ip6_emit ip sZ eZ is : keeps (ip6_emit ip sZ eZ is).
Proof.
  induction is as [|i r IH]; cbn [ip6_emit]; [apply keeps_ok|].
  apply keeps_bind; [|exact IH]. unfold ip6_body.
  destruct (Z.of_nat i =? sZ)%Z; [destruct (sZ =? 0)%Z; kp|].
  destruct ((sZ <=? Z.of_nat i)%Z && (Z.of_nat i <=? eZ)%Z); [apply keeps_ok|].
  apply keeps_bind.
  - destruct (negb (at_ ip (2 * i) =? 0)); [apply keeps_bind|]; first [apply keeps_write_hex_nlz|apply keeps_write_hex].
  - destruct (Nat.ltb i 7); kp.
Qed.

Lemma keeps_append_ip6 ip : keeps (fun l => append_ip6 l ip).
Proof.
  unfold append_ip6. destruct (negb (Nat.eqb (List.length ip) 16)); [apply keeps_copy|].
  destruct (ip6_search ip). apply keeps_ip6_emit.
Qed.

Lemma keeps_ip_body ip : keeps (fun l => ip_body l ip).
Proof.
  unfold ip_body. destruct (to4 ip) as [[|a [|b [|c [|d [|e r]]]]]|]; first [apply keeps_put_ip4|apply keeps_append_ip6].
Qed.

Lemma keeps_sa_loop vs : keeps (sa_loop vs).
Proof.
  induction vs as [|v r IH]; cbn [sa_loop]; [apply keeps_ok|].
  intros l. destruct (Nat.ltb BUFSZ (index l + List.length v + 4)) eqn:G.
  - intros l' W E. injection E as <-; exact W.
  - revert l G. assert (K : keeps (fun l => (l <- append_byte l 34 ;; l <- copy_in l v ;; l <- append_byte l 34 ;;
                                              l <- append_byte l 44 ;; l <- append_byte l 32 ;; sa_loop r l)%res)).
    { kp. exact IH. }
    intros l _. apply K.
Qed.

Lemma keeps_ia_loop vs : keeps (ia_loop vs).
Proof.
  induction vs as [|v r IH]; cbn [ia_loop]; [apply keeps_ok|].
  intros l. destruct (Nat.ltb BUFSZ (index l + IPARR_ROOM)).
  - intros l' W E. injection E as <-; exact W.
  - revert l. apply keeps_bind; [|kp; exact IH].
    destruct v as [ip|]; [apply (keeps_ip_body ip)|apply keeps_ok].
Qed.

Lemma keeps_ba_loop vs : keeps (ba_loop vs).
Proof.
  induction vs as [|v r IH]; cbn [ba_loop]; [apply keeps_ok|].
  apply keeps_bind; [apply keeps_write_hex|]. apply keeps_bind; [apply keeps_byte|exact IH].
Qed.

Lemma keeps_fill k : keeps (fill_spaces k).
Proof. induction k as [|k IH]; cbn [fill_spaces]; [apply keeps_ok|]. apply keeps_bind; [apply keeps_byte|exact IH]. Qed.

Lemma keeps_dec_then_byte b : keeps (fun l => append_byte (dec_index l) b).
Proof. intros l l' W E. eapply (keeps_byte b (dec_index l)); [apply ins_dec; exact W|exact E]. Qed.

Lemma buf_mk b i : buf (mkLine b i) = b.
Proof. reflexivity. Qed.

Lemma keeps_module_tag mm :
  keeps (fun l => if Nat.ltb BUFSZ (index l) then Panic
                  else let n := Nat.min 7 (BUFSZ - index l) in
                       let b1 := write_at (buf l) (index l) (firstn n [32; 32; 32; 32; 32; 32; 58]) in
                       if Nat.ltb BUFSZ (index l + 6) then Panic
                       else Ok (mkLine (write_at b1 (index l) (firstn 6 mm)) (index l + n))).
Proof.
  intros l l' [W H] E. destruct (Nat.ltb_spec BUFSZ (index l)); [discriminate|]. cbv zeta in E.
  destruct (Nat.ltb_spec BUFSZ (index l + 6)); [discriminate|]. injection E as <-.
  pose proof (Nat.le_min_r 7 (BUFSZ - index l)) as M.
  split; [|rewrite index_mk; change (index l + Nat.min 7 (BUFSZ - index l) <= BUFSZ)%nat; lia].
  unfold wf in *. rewrite buf_mk.
  set (n := Nat.min 7 (BUFSZ - index l)) in *.
  assert (L1 : List.length (write_at (buf l) (index l) (firstn n [32; 32; 32; 32; 32; 32; 58])) = BUFSZ).
  { rewrite write_at_length; [exact W|]. rewrite W, firstn_length.
    pose proof (Nat.le_min_l n (List.length [32; 32; 32; 32; 32; 32; 58])). lia. }
  rewrite write_at_length; [exact L1|].
  match goal with |- (_ <= ?X)%nat => replace X with BUFSZ by (symmetry; exact L1) end.
  match goal with |- (_ + List.length ?X <= _)%nat => change X with (firstn 6 mm) end. rewrite firstn_length.
  pose proof (Nat.le_min_l 6 (List.length mm)). lia.
Qed.

Theorem run_op_keeps o : keeps (fun l => run_op l o).
Proof.
  destruct o; cbn [run_op].
  - unfold f_uint. apply keeps_bind; [apply keeps_field_open|apply keeps_print_int].
  - unfold f_uint8hex. apply keeps_bind; [apply keeps_field_open|kp].
  - unfold f_uint16hex. apply keeps_bind; [apply keeps_field_open|kp].
  - unfold f_int. apply keeps_bind; [apply keeps_field_open|kp].
  - unfold f_bool. apply keeps_bind; [apply keeps_field_open|kp].
  - unfold f_mac. apply keeps_bind; [apply keeps_field_open|].
    destruct m as [|a [|b [|c [|d [|e [|f [|g r]]]]]]]; try apply keeps_copy.
    repeat (apply keeps_bind; [apply keeps_write_hex|]; apply keeps_bind; [apply keeps_byte|]). apply keeps_write_hex.
  - unfold f_ipslice. apply keeps_bind; [apply keeps_field_open|].
    destruct v as [ip|]; [apply (keeps_ip_body ip)|apply keeps_copy].
  - unfold f_ip. apply keeps_bind; [apply keeps_field_open|]. destruct a; apply keeps_copy.
  - unfold f_string. apply keeps_bind; [apply keeps_field_open|]. apply keeps_bind; [apply keeps_byte|].
    apply keeps_bind; [apply keeps_copy|].
    intros l l' W E. destruct (Nat.eqb (index l) BUFSZ); [eapply (keeps_byte 34 (dec_index l)); [apply ins_dec; exact W|exact E]|eapply (keeps_byte 34 l); eassumption].
  - unfold f_bytes. apply keeps_bind; [apply keeps_field_open|kp].
  - unfold f_label. kp.
  - unfold f_error. kp.
  - unfold f_stringer. destruct t; kp.
  - unfold f_text. apply keeps_bind; [apply keeps_field_open|kp].
  - unfold f_lf. kp.
  - unfold f_module. apply keeps_bind; [apply keeps_byte|]. unfold new_module. apply keeps_bind.
    + destruct m as [|x m']; [apply keeps_ok|]. apply (keeps_module_tag (x :: m')).
    + destruct msg; kp.
  - unfold f_string_array. intros l. destruct (Nat.ltb BUFSZ (index l + List.length name + 4)).
    + intros l' W E. injection E as <-; exact W.
    + revert l. apply keeps_bind; [apply keeps_field_open|]. apply keeps_bind; [apply keeps_byte|].
      destruct vs; [apply keeps_byte|]. apply keeps_bind; [apply keeps_sa_loop|apply keeps_dec_then_byte].
  - unfold f_ip_array. intros l. destruct (Nat.ltb BUFSZ (index l + List.length name + 4)).
    + intros l' W E. injection E as <-; exact W.
    + revert l. apply keeps_bind; [apply keeps_field_open|]. apply keeps_bind; [apply keeps_byte|].
      destruct vs; [apply keeps_byte|]. apply keeps_bind; [apply keeps_ia_loop|apply keeps_dec_then_byte].
  - intros l l' W E. unfold f_byte_array in E.
    set (rem := (Z.of_nat BUFSZ - Z.of_nat (index l) - 1 - Z.of_nat (List.length name) - 2)%Z) in *.
    destruct ((rem <=? Z.of_nat (List.length v) * 3)%Z) eqn:T; cbn [andb] in E.
    + destruct (rem <=? 10)%Z; [injection E as <-; exact W|].
      destruct (Z.quot (rem - 10) 3 <? 0)%Z; [discriminate|].
      set (l0 := mkLine (write_at (buf l) (BUFSZ - 10) TRUNCATED) (index l)) in *.
      assert (W0 : ins l0).
      { destruct W as [W H]. split; [|exact H]. unfold wf, l0 in *. cbn [buf]. rewrite write_at_length; [exact W|].
        rewrite W. unfold TRUNCATED. cbn [List.length]. pose proof bufsz_ge_10. lia. }
      destruct (append_byte l0 32) as [l1| | |] eqn:E1; cbn [bind] in E; try discriminate.
      destruct (copy_in l1 name) as [l2| | |] eqn:E2; cbn [bind] in E; try discriminate.
      destruct (copy_in l2 [61; 91]) as [l3| | |] eqn:E3; cbn [bind] in E; try discriminate.
      destruct (ba_loop _ l3) as [l4| | |] eqn:E4; cbn [bind] in E; try discriminate.
      destruct (append_byte _ 93) as [l5| | |] eqn:E5; cbn [bind] in E; try discriminate.
      destruct (fill_spaces _ l5) as [l6| | |] eqn:E6; cbn [bind] in E; try discriminate.
      injection E as <-.
      pose proof (keeps_byte 32 l0 l1 W0 E1) as W1. pose proof (keeps_copy name l1 l2 W1 E2) as W2.
      pose proof (keeps_copy _ l2 l3 W2 E3) as W3. pose proof (keeps_ba_loop _ l3 l4 W3 E4) as W4.
      assert (W5 : ins l5).
      { destruct (firstn _ v); [eapply (keeps_byte 93 l4)|eapply (keeps_byte 93 (dec_index l4)); [apply ins_dec|]]; eassumption. }
      destruct (keeps_fill _ l5 l6 W5 E6) as [W6 _].
      split; [exact W6|]. rewrite index_mk. lia.
    + replace (mkLine (buf l) (index l)) with l in E by (destruct l; reflexivity).
      destruct (append_byte l 32) as [l1| | |] eqn:E1; cbn [bind] in E; try discriminate.
      destruct (copy_in l1 name) as [l2| | |] eqn:E2; cbn [bind] in E; try discriminate.
      destruct (copy_in l2 [61; 91]) as [l3| | |] eqn:E3; cbn [bind] in E; try discriminate.
      destruct (ba_loop v l3) as [l4| | |] eqn:E4; cbn [bind] in E; try discriminate.
      destruct (append_byte _ 93) as [l5| | |] eqn:E5; cbn [bind] in E; try discriminate.
      injection E as <-.
      pose proof (keeps_byte 32 l l1 W E1) as W1. pose proof (keeps_copy name l1 l2 W1 E2) as W2.
      pose proof (keeps_copy _ l2 l3 W2 E3) as W3. pose proof (keeps_ba_loop _ l3 l4 W3 E4) as W4.
      destruct v; [eapply (keeps_byte 93 l4)|eapply (keeps_byte 93 (dec_index l4)); [apply ins_dec|]]; eassumption.
Qed.

Theorem run_ops_keeps os : forall l l', ins l -> run_ops l os = Ok l' -> ins l'.
Proof.
  induction os as [|o r IH]; intros l l' W E; cbn [run_ops] in E; [injection E as <-; exact W|].
  destruct (run_op l o) as [l1| | |] eqn:E1; cbn [bind] in E; try discriminate.
  eapply IH; [eapply (run_op_keeps o); eassumption|exact E].
Qed.

(* hence after ANY sequence of calls that returns, ToString and Write return too *)
Corollary to_string_total os l l' : ins l -> run_ops l os = Ok l' -> to_string l' = Ok (text_of l').
Proof.
  intros I E. destruct (run_ops_keeps os l l' I E) as [_ H]. unfold to_string.
  destruct (Nat.ltb_spec BUFSZ (index l')); [lia|reflexivity].
Qed.

Corollary write_total os l l' : ins l -> run_ops l os = Ok l' -> exists t, write_out l' = Ok t.
Proof.
  intros I E. destruct (run_ops_keeps os l l' I E) as [_ H]. unfold write_out.
  destruct (Nat.leb_spec BUFSZ (index l')) as [G|G]; cbv zeta.
  - unfold dec_index. cbn [index].
    assert (P : (Nat.pred (index l') < BUFSZ)%nat) by (pose proof bufsz_ge_10; destruct (index l'); cbn [Nat.pred]; lia).
    destruct (Nat.ltb_spec (Nat.pred (index l')) BUFSZ); [eexists; reflexivity|exfalso; lia].
  - destruct (Nat.ltb_spec (index l') BUFSZ); [eexists; reflexivity|exfalso; lia].
Qed.

(* ---------------------------------------------------------------- the three outcomes, by example *)
Local Transparent BUFSZ.

Definition full_line (i : nat) : line := mkLine (repeat 46 BUFSZ) i.

(* a byte-wise appender on a line with one byte left: panic in appendByte *)
Lemma nofit_panics : run_op (full_line 2047) (OUint [97] 7) = Panic.
Proof. vm_compute. reflexivity. Qed.

(* a copying appender: the value is cut at byte 2048, no panic *)
Lemma nofit_truncates :
  exists l', run_op (full_line 2040) (OBytes [97] [49; 50; 51; 52; 53; 54; 55; 56; 57]) = Ok l' /\
             index l' = BUFSZ /\ skipn 2040 (text_of l') = [32; 97; 61; 49; 50; 51; 52; 53].
Proof. eexists. split; [vm_compute; reflexivity|]. split; vm_compute; reflexivity. Qed.

(* IP through AppendTo (repaired): cut at byte 2048 like every copy, the index stays inside, ToString returns *)
Lemma nofit_ip_truncates :
  exists l', run_op (full_line 2040) (OIP [97] (Some [10; 0; 0; 1]) [49; 48; 46; 48; 46; 48; 46; 49]) = Ok l' /\
             index l' = BUFSZ /\ skipn 2040 (text_of l') = [32; 97; 61; 49; 48; 46; 48; 46] /\
             to_string l' = Ok (text_of l').
Proof. eexists. split; [vm_compute; reflexivity|]. repeat split; vm_compute; reflexivity. Qed.
