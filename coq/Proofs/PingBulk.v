(* Proofs/PingBulk.v — the compressed event [BulkFail n] is n complete calls whose send fails
   (Begin j; Sent j false), as far as the table, the next identifier and every other call are
   concerned: each call takes the next free identifier and gives it back. *)
From PV Require Import Base.Prelude Model.Ping Model.PingTrace Proofs.Ping Proofs.PingIff.
Open Scope N_scope.

(* k calls whose send fails, call numbers j0, j0+1, ... *)
Fixpoint fails (j0 k : nat) : list event :=
  match k with
  | O => []
  | S k' => Begin j0 0%Z :: Sent j0 false :: fails (S j0) k'
  end.

Lemma tdel_tset_free t i v : tget t i = None -> tdel (tset t i v) i = t.
Proof.
  intros H. unfold tset. unfold tdel at 1. cbn [filter fst]. rewrite N.eqb_refl. cbn [negb].
  fold (tdel (tdel t i) i). rewrite (tdel_absent t i H). apply tdel_absent. exact H.
Qed.

Theorem fails_bulk k : forall j0 s,
  Inv s -> table_full (tbl s) = false ->
  (forall p, (j0 <= p)%nat -> pget (pings s) p = None) ->
  exists s', run true s (fails j0 k) = Ok s' /\
    tbl s' = tbl s /\
    next s' = N.iter (N.of_nat k) (bump (tbl s)) (next s) /\
    (forall p, (p < j0)%nat -> pget (pings s') p = pget (pings s) p) /\
    (forall p, (j0 + k <= p)%nat -> pget (pings s') p = None).
Proof.
  induction k as [|k IH]; intros j0 s HI Hfull Hfree.
  - exists s. cbn [fails run N.of_nat N.iter]. rewrite Nat.add_0_r. repeat split; auto.
  - destruct (alloc (tbl s) (next s)) as [i|] eqn:Ea.
    2:{ exfalso. eapply first_free_total; eauto; [apply HI|apply HI]. }
    destruct (first_free_spec _ _ _ _ (inv_next _ HI) Ea) as [Hifree Hilt].
    destruct (step true s (Begin j0 0%Z)) as [s1| | |] eqn:E1;
      try (cbn [step] in E1; rewrite (Hfree j0), Hfull, Ea in E1 by lia; discriminate).
    pose proof (Inv_step _ _ _ _ HI E1) as HI1. pose proof E1 as E1'.
    cbn [step] in E1. rewrite (Hfree j0), Hfull, Ea in E1 by lia. cbv zeta in E1. inversion E1; subst s1; clear E1.
    match type of HI1 with Inv ?st => set (s1 := st) in * end.
    destruct (step true s1 (Sent j0 false)) as [s2| | |] eqn:E2;
      try (cbn [step] in E2; unfold s1 in E2; cbn [pings] in E2; rewrite pget_pset, Nat.eqb_refl in E2;
           cbn [p_phase] in E2; discriminate).
    pose proof (Inv_step _ _ _ _ HI1 E2) as HI2. pose proof E2 as E2'.
    cbn [step] in E2. unfold s1 in E2. cbn [pings] in E2. rewrite pget_pset, Nat.eqb_refl in E2.
    cbn [p_phase p_id p_recv p_closed p_fired p_seq tbl next cnt pings] in E2.
    unfold tdel_own in E2. rewrite tget_tset, N.eqb_refl, Nat.eqb_refl, tdel_tset_free in E2 by exact Hifree.
    inversion E2; subst s2; clear E2.
    match type of HI2 with Inv ?st => set (s2 := st) in * end.
    destruct (IH (S j0) s2 HI2) as (s' & Hr & Ht & Hnx & Hlow & Hhigh).
    + exact Hfull.
    + intros p Hp. unfold s2. cbn [pings]. rewrite !pget_pset.
      destruct (Nat.eqb_spec p j0); [lia|]. apply Hfree. lia.
    + exists s'. cbn [fails run]. rewrite E1'. cbn [run]. rewrite E2'.
      split; [exact Hr|]. unfold s2 in Ht, Hnx, Hlow, Hhigh. cbn [tbl next pings] in Ht, Hnx, Hlow, Hhigh.
      split; [exact Ht|]. split; [|split].
      * rewrite Hnx. replace (N.of_nat (S k)) with (N.succ (N.of_nat k)) by lia.
        rewrite N.iter_succ_r. f_equal. unfold bump. rewrite Hfull, Ea. reflexivity.
      * intros p Hp. rewrite Hlow by lia. rewrite !pget_pset.
        destruct (Nat.eqb_spec p j0); [lia|reflexivity].
      * intros p Hp. apply Hhigh. lia.
Qed.

(* the same as one BulkFail event *)
Corollary bulk_sound k j0 s sb :
  Inv s -> table_full (tbl s) = false -> N.of_nat k <= 65536 ->
  (forall p, (j0 <= p)%nat -> pget (pings s) p = None) ->
  step true s (BulkFail (N.of_nat k)) = Ok sb ->
  exists s', run true s (fails j0 k) = Ok s' /\
    tbl s' = tbl sb /\ next s' = next sb /\
    (forall p, (p < j0)%nat -> pget (pings s') p = pget (pings sb) p).
Proof.
  intros HI Hfull Hk Hfree Hb. cbn [step andb] in Hb.
  destruct (N.leb_spec (N.of_nat k) 65536); [|lia]. inversion Hb; subst sb; clear Hb. cbn [tbl next cnt pings].
  destruct (fails_bulk k j0 s HI Hfull Hfree) as (s' & Hr & Ht & Hnx & Hlow & _).
  exists s'. repeat split; auto.
Qed.
