(* Proofs/PingBulk.v — the compressed event [BulkFail n] is n complete calls whose send fails
   (Begin j; Sent j false), as far as the table, the next identifier, the counter and every other
   call are concerned. *)
From PV Require Import Base.Prelude Model.Ping Model.PingTrace Proofs.Ping Proofs.PingIff.
Open Scope N_scope.

(* k calls whose send fails, call numbers j0, j0+1, ... *)
Fixpoint fails (j0 k : nat) : list event :=
  match k with
  | O => []
  | S k' => Begin j0 :: Sent j0 false :: fails (S j0) k'
  end.

Lemma tdel_idem t i : tdel (tdel t i) i = tdel t i.
Proof.
  unfold tdel. induction t as [|[k v] r IH]; cbn [filter fst]; [reflexivity|].
  destruct (N.eqb_spec k i); cbn [negb filter fst]; [exact IH|].
  destruct (N.eqb_spec k i); [lia|]. cbn [negb]. rewrite IH. reflexivity.
Qed.

Lemma tdel_tset_same t i v : tdel (tset t i v) i = tdel t i.
Proof.
  unfold tset. unfold tdel at 1. cbn [filter fst]. rewrite N.eqb_refl. cbn [negb].
  fold (tdel (tdel t i) i). apply tdel_idem.
Qed.

Lemma range_succ x i k : x < 65536 -> i < 65536 -> k < 65536 ->
  negb (x =? i) && negb (in_range x (u16 (i + 1)) k) = negb (in_range x i (k + 1)).
Proof.
  intros Hx Hi Hk. unfold in_range, u16.
  destruct (N.eqb_spec x i) as [->|Hne]; cbn [negb andb].
  - replace (i + 65536 - i) with 65536 by lia. change (65536 mod 65536) with 0.
    destruct (N.ltb_spec 0 (k + 1)); [reflexivity|lia].
  - f_equal.
    assert (Hd : (x + 65536 - (i + 1) mod 65536) mod 65536 + 1 = (x + 65536 - i) mod 65536).
    { clear -Hx Hi Hne. lia. }
    destruct (N.ltb_spec ((x + 65536 - (i + 1) mod 65536) mod 65536) k);
      destruct (N.ltb_spec ((x + 65536 - i) mod 65536) (k + 1)); try reflexivity; lia.
Qed.

Lemma tdel_range_succ t i k : (forall x, In x (keys t) -> x < 65536) -> i < 65536 -> k < 65536 ->
  tdel_range (tdel t i) (u16 (i + 1)) k = tdel_range t i (k + 1).
Proof.
  intros Hk Hi Hkk. unfold tdel_range, tdel, keys in *.
  induction t as [|[x v] r IH]; [reflexivity|].
  assert (Hx : x < 65536) by (apply Hk; left; reflexivity).
  assert (IH' := IH (fun y Hy => Hk y (or_intror Hy))).
  pose proof (range_succ x i k Hx Hi Hkk) as E.
  cbn [filter fst].
  destruct (x =? i) eqn:Exi; cbn [negb andb] in E |- *.
  - rewrite <- E. cbn [filter fst]. exact IH'.
  - cbn [filter fst]. rewrite <- E.
    destruct (in_range x (u16 (i + 1)) k); cbn [negb]; rewrite IH'; reflexivity.
Qed.

Lemma tdel_range_zero t a : tdel_range t a 0 = t.
Proof.
  unfold tdel_range. induction t as [|e r IH]; [reflexivity|].
  cbn [filter].
  match goal with |- context [in_range ?x a 0] =>
    assert (E : in_range x a 0 = false) by (unfold in_range; apply N.ltb_ge; lia); rewrite E end.
  cbn [negb]. rewrite IH. reflexivity.
Qed.

Lemma keys_tdel_sub t i x : In x (keys (tdel t i)) -> In x (keys t).
Proof. intros H. apply keys_tdel_in in H. tauto. Qed.

Theorem fails_bulk k : forall j0 s,
  next s < 65536 -> N.of_nat k <= 65536 -> (forall x, In x (keys (tbl s)) -> x < 65536) ->
  (forall p, (j0 <= p)%nat -> pget (pings s) p = None) ->
  exists s', run true s (fails j0 k) = Ok s' /\
    tbl s' = tdel_range (tbl s) (next s) (N.of_nat k) /\
    next s' = u16 (next s + N.of_nat k) /\ cnt s' = cnt s + N.of_nat k /\
    (forall p, (p < j0)%nat -> pget (pings s') p = pget (pings s) p) /\
    (forall p, (j0 + k <= p)%nat -> pget (pings s') p = None).
Proof.
  induction k as [|k IH]; intros j0 s Hn Hk Hkeys Hfree.
  - exists s. cbn [fails run]. rewrite tdel_range_zero. unfold u16. cbn [N.of_nat].
    rewrite !N.add_0_r, N.mod_small by exact Hn. rewrite Nat.add_0_r. repeat split; auto.
  - cbn [fails run step]. rewrite (Hfree j0) by lia. cbv zeta. cbn [pings].
    rewrite pget_pset, Nat.eqb_refl. cbn [p_phase p_id p_recv p_closed p_fired p_seq tbl next cnt pings].
    rewrite tdel_tset_same.
    set (s1 := mkState _ _ _ _).
    destruct (IH (S j0) s1) as (s' & Hr & Ht & Hnx & Hc & Hlow & Hhigh).
    + unfold s1. cbn [next]. unfold u16. lia.
    + lia.
    + unfold s1. cbn [tbl]. intros x Hx. apply Hkeys. eapply keys_tdel_sub; eauto.
    + intros p Hp. unfold s1. cbn [pings]. rewrite !pget_pset.
      destruct (Nat.eqb_spec p j0); [lia|]. apply Hfree. lia.
    + exists s'. split; [exact Hr|]. unfold s1 in *. cbn [tbl next cnt pings] in *.
      split; [|split; [|split; [|split]]].
      * rewrite Ht. replace (N.of_nat (S k)) with (N.of_nat k + 1) by lia.
        apply tdel_range_succ; auto. lia.
      * rewrite Hnx. unfold u16. generalize (next s) Hn. intros a Ha. lia.
      * lia.
      * intros p Hp. rewrite Hlow by lia. rewrite !pget_pset.
        destruct (Nat.eqb_spec p j0); [lia|reflexivity].
      * intros p Hp. apply Hhigh. lia.
Qed.

(* the same as one BulkFail event *)
Corollary bulk_sound k j0 s sb :
  next s < 65536 -> N.of_nat k <= 65536 -> (forall x, In x (keys (tbl s)) -> x < 65536) ->
  (forall p, (j0 <= p)%nat -> pget (pings s) p = None) ->
  step true s (BulkFail (N.of_nat k)) = Ok sb ->
  exists s', run true s (fails j0 k) = Ok s' /\
    tbl s' = tbl sb /\ next s' = next sb /\ cnt s' = cnt sb /\
    (forall p, (p < j0)%nat -> pget (pings s') p = pget (pings sb) p).
Proof.
  intros Hn Hk Hkeys Hfree Hb. cbn [step andb] in Hb.
  destruct (N.leb_spec (N.of_nat k) 65536); [|lia]. inversion Hb; subst sb; clear Hb. cbn [tbl next cnt pings].
  destruct (fails_bulk k j0 s Hn Hk Hkeys Hfree) as (s' & Hr & Ht & Hnx & Hc & Hlow & _).
  exists s'. repeat split; auto.
Qed.
