(* Proofs/PingMore.v — corollaries: identifiers, exact table contents, own-reply-only,
   commutation of notifications, non-vacuity. *)
From PV Require Import Base.Prelude Model.Ping Model.PingTrace Proofs.Ping Proofs.PingIff.
Open Scope N_scope.

(* ------------------------------------------------------------------ *)
(* identifiers *)

Lemma Good_reach fx n tr s : n < 65536 -> run fx (init n) tr = Ok s -> Good s.
Proof. intros Hn H. eapply Good_run; [apply Good_init; exact Hn|exact H]. Qed.

(* the identifier handed to a new call is one no call is waiting on *)
Theorem begin_fresh fx s p tmo s' : Inv s -> step fx s (Begin p tmo) = Ok s' -> table_full (tbl s) = false ->
  exists i, id_of s' p = Some i /\ tget (tbl s) i = None /\ tget (tbl s') i = Some p /\ waiting s' p = true.
Proof.
  intros HI H Hf. cbn [step] in H. destruct (pget (pings s) p); [discriminate|]. rewrite Hf in H.
  destruct (alloc (tbl s) (next s)) as [i|] eqn:Ea; [|discriminate]. cbv zeta in H. inversion H; subst s'.
  destruct (first_free_spec _ _ _ _ (inv_next _ HI) Ea) as [Hfree _].
  exists i. unfold id_of, waiting. cbn [tbl pings]. rewrite pget_pset, Nat.eqb_refl, tget_tset, N.eqb_refl.
  repeat split; auto.
Qed.

(* with all 65536 identifiers waited for the call returns an error and registers nothing *)
Theorem begin_full fx s p tmo s' : step fx s (Begin p tmo) = Ok s' -> table_full (tbl s) = true ->
  result_of s' p = Some RBusy /\ tbl s' = tbl s /\ next s' = next s.
Proof.
  intros H Hf. cbn [step] in H. destruct (pget (pings s) p); [discriminate|]. rewrite Hf in H.
  inversion H; subst s'. unfold result_of, set_pings. cbn [tbl pings next]. rewrite pget_pset, Nat.eqb_refl. auto.
Qed.

(* calls that are outstanding and not yet woken have pairwise distinct identifiers, in every
   reachable state *)
Theorem distinct_run fx n tr s q1 q2 pg1 pg2 : n < 65536 -> run fx (init n) tr = Ok s ->
  q1 <> q2 -> pget (pings s) q1 = Some pg1 -> pget (pings s) q2 = Some pg2 ->
  outstanding pg1 = true -> outstanding pg2 = true -> p_recv pg1 = false -> p_recv pg2 = false ->
  p_id pg1 <> p_id pg2.
Proof. intros Hn H. eapply ids_distinct. eapply good_entry. eapply Good_reach; eauto. Qed.

(* ------------------------------------------------------------------ *)
(* the table holds exactly the calls that are outstanding and have not been woken *)

Theorem table_exact fx n tr s : n < 65536 -> run fx (init n) tr = Ok s ->
  (fx = true \/ known_C19_sendfail tr = false) ->
  forall i q, tget (tbl s) i = Some q <->
    exists pg, pget (pings s) q = Some pg /\ outstanding pg = true /\ p_recv pg = false /\ p_id pg = i.
Proof.
  intros Hn H Hfx i q.
  destruct (Good_reach _ _ _ _ Hn H) as [HI HE].
  assert (Ho : owned_by_waiting s).
  { apply (owned_run fx tr (init n) s Hfx (Inv_init n Hn)); [intros ? ?; cbn; discriminate|exact H]. }
  split.
  - intros T. destruct (inv_entry _ HI _ _ T) as (pg & Hp & Hid & _ & Hr).
    exists pg. repeat split; auto. specialize (Ho _ _ T). unfold waiting in Ho. rewrite Hp in Ho. exact Ho.
  - intros (pg & Hp & W & R & Hid). subst i. apply HE; auto.
Qed.

(* ------------------------------------------------------------------ *)
(* a notification touches only the call that owns the entry of that identifier *)

Theorem notify_only_owner fx s i s' q : Inv s -> step fx s (Notify i) = Ok s' ->
  pget (pings s') q <> pget (pings s) q ->
  exists pg, pget (pings s) q = Some pg /\ p_id pg = i /\ tget (tbl s) i = Some q.
Proof.
  intros HI H Hne. cbn [step] in H. destruct (tget (tbl s) i) as [q0|] eqn:Eq.
  - destruct (inv_entry _ HI _ _ Eq) as (pg & Hp & Hid & Hc & _). rewrite Hp, Hc in H.
    inversion H; subst s'; clear H. cbn [pings] in Hne. rewrite pget_pset in Hne.
    destruct (Nat.eqb_spec q q0); [subst; eauto|congruence].
  - inversion H; subst. congruence.
Qed.

(* ------------------------------------------------------------------ *)
(* notifications commute (frames parsed concurrently may be linearised in any order) *)

Lemma pset_comm l p v q w : p <> q -> pget l p <> None -> pget l q <> None ->
  pset (pset l p v) q w = pset (pset l q w) p v.
Proof.
  intros Hne. induction l as [|[k u] r IH]; cbn [pget]; [congruence|].
  intros Hp Hq. unfold pset; fold pset.
  destruct (Nat.eqb_spec k p) as [E1|E1]; destruct (Nat.eqb_spec k q) as [E2|E2]; try lia.
  - subst k. unfold pset; fold pset. destruct (Nat.eqb_spec p q); [lia|].
    rewrite Nat.eqb_refl. reflexivity.
  - subst k. unfold pset; fold pset. destruct (Nat.eqb_spec q p); [lia|].
    rewrite Nat.eqb_refl. reflexivity.
  - unfold pset; fold pset.
    destruct (Nat.eqb_spec k p); [lia|]. destruct (Nat.eqb_spec k q); [lia|].
    f_equal. apply IH; auto.
Qed.

Theorem notify_comm fx s a b : Inv s ->
  run fx s [Notify a; Notify b] = run fx s [Notify b; Notify a].
Proof.
  intros HI. pose proof (inv_entry _ HI) as Hent. cbn [run step].
  destruct (N.eqb_spec a b) as [->|Hab]; [reflexivity|].
  destruct (tget (tbl s) a) as [qa|] eqn:Ea; destruct (tget (tbl s) b) as [qb|] eqn:Eb.
  - destruct (Hent _ _ Ea) as (pa & Hpa & Hia & Hca & _).
    destruct (Hent _ _ Eb) as (pb & Hpb & Hib & Hcb & _).
    assert (Hq : qa <> qb) by (intros ->; congruence).
    rewrite Hpa, Hca, Hpb, Hcb. cbn [tbl pings next cnt].
    rewrite !tget_tdel. destruct (N.eqb_spec b a); [lia|]. destruct (N.eqb_spec a b); [lia|].
    rewrite Ea, Eb, !pget_pset.
    destruct (Nat.eqb_spec qb qa); [congruence|]. destruct (Nat.eqb_spec qa qb); [congruence|].
    rewrite Hpa, Hca, Hpb, Hcb. cbn [tbl pings next cnt].
    rewrite (tdel_comm (tbl s) a b). f_equal. f_equal.
    apply pset_comm; [exact Hq|congruence|congruence].
  - destruct (Hent _ _ Ea) as (pa & Hpa & Hia & Hca & _). rewrite Hpa, Hca. cbn [tbl pings next cnt].
    rewrite tget_tdel. destruct (N.eqb_spec b a); [lia|]. rewrite Eb. cbn [tbl pings next cnt]. rewrite ?Ea, ?Hpa, ?Hca. reflexivity.
  - destruct (Hent _ _ Eb) as (pb & Hpb & Hib & Hcb & _).
    cbv iota. rewrite ?Eb, ?Hpb, ?Hcb. cbv iota. cbn [tbl pings next cnt].
    rewrite tget_tdel. destruct (N.eqb_spec a b); [lia|]. rewrite Ea. reflexivity.
  - cbv iota. rewrite ?Ea, ?Eb. cbv iota. rewrite ?Ea, ?Eb. reflexivity.
Qed.

(* ------------------------------------------------------------------ *)
(* non-vacuity of ping_iff: both outcomes occur in one history *)

Definition ex_pre : list event := [Begin 0%nat SECOND; Sent 0%nat true].
(* call 1 (id 2): a foreign reply arrives while it is still inside its send, another one later *)
Definition ex_mid : list event :=
  [Notify 1; Sent 1%nat true; Begin 2%nat 0%Z; Notify 3; Sent 2%nat true; Tick SECOND; Timeout 1%nat; Skip].
Definition ex_post : list event := [End 0%nat; Notify 2].
Definition ex_history : list event := ex_pre ++ Begin 1%nat SECOND :: ex_mid ++ End 1%nat :: ex_post.

Example ping_iff_nonvacuous :
  exists s, run false init_go ex_history = Ok s /\
            id_of s 1%nat = Some 2 /\ result_of s 1%nat = Some RTimeout /\
            id_of s 0%nat = Some 1 /\ result_of s 0%nat = Some RNil /\
            id_of s 2%nat = Some 3 /\ result_of s 2%nat = None.
Proof. eexists. split; [vm_compute; reflexivity|]. repeat split; vm_compute; reflexivity. Qed.

(* a reply parsed while the call is still inside its send completes it: the waiter is registered
   before the request is written *)
Definition ex_during_send : list event :=
  [Begin 0%nat 0%Z; Notify 1; Sent 0%nat true; End 0%nat].
Example reply_during_send :
  exists s, run FIX24 init_go ex_during_send = Ok s /\ result_of s 0%nat = Some RNil /\ tbl s = [].
Proof. eexists. split; [vm_compute; reflexivity|]. split; vm_compute; reflexivity. Qed.

(* the history that used to collide (call 0 waits, the identifier counter goes once around, call 1
   starts): call 1 now skips identifier 1, and the reply for identifier 1 completes call 0 *)
Definition wrap_history : list event :=
  [Begin 0%nat SECOND; Sent 0%nat true; BulkFail 65535; Begin 1%nat SECOND; Sent 1%nat true; Notify 1; End 0%nat;
   Tick SECOND; Timeout 1%nat; End 1%nat].
Example wrap_repaired :
  exists s, run true init_go wrap_history = Ok s /\
    id_of s 0%nat = Some 1 /\ id_of s 1%nat = Some 2 /\
    result_of s 0%nat = Some RNil /\ result_of s 1%nat = Some RTimeout /\ tbl s = [].
Proof. eexists. split; [vm_compute; reflexivity|]. repeat split; vm_compute; reflexivity. Qed.

Lemma pset_pset l p v w : pset (pset l p v) p w = pset l p w.
Proof.
  induction l as [|[k u] r IH]; unfold pset; fold pset.
  - rewrite Nat.eqb_refl. reflexivity.
  - destruct (Nat.eqb_spec k p); unfold pset; fold pset.
    + rewrite Nat.eqb_refl. reflexivity.
    + destruct (Nat.eqb_spec k p); [lia|]. rewrite IH. reflexivity.
Qed.

Theorem sent_notify_comm fx s p i pg : Inv s ->
  pget (pings s) p = Some pg -> p_phase pg = Sending ->
  run fx s [Sent p true; Notify i] = run fx s [Notify i; Sent p true].
Proof.
  intros HI Hp Hph. pose proof (inv_entry _ HI) as Hent. cbn [run step]. rewrite Hp, Hph.
  unfold set_pings. cbn [tbl pings next cnt].
  destruct (tget (tbl s) i) as [q|] eqn:Eq.
  - destruct (Hent _ _ Eq) as (pq & Hpq & Hiq & Hcq & _).
    rewrite pget_pset. destruct (Nat.eqb_spec q p) as [->|Hne].
    + rewrite Hp in Hpq. inversion Hpq; subst pq. cbn [p_closed]. rewrite Hp, Hcq.
      cbn [tbl pings next cnt]. rewrite pget_pset, Nat.eqb_refl. cbn [p_phase]. rewrite Hph.
      cbn [tbl pings next cnt p_id p_recv p_closed p_fired p_seq].
      rewrite !pset_pset. reflexivity.
    + rewrite Hpq, Hcq. cbn [tbl pings next cnt]. rewrite pget_pset.
      destruct (Nat.eqb_spec p q); [congruence|]. rewrite Hp, Hph.
      cbn [tbl pings next cnt]. f_equal. f_equal.
      apply pset_comm; [congruence|congruence|congruence].
  - cbn [tbl pings]. rewrite Hp, Hph. reflexivity.
Qed.

(* ------------------------------------------------------------------ *)
(* sessions: the table is process-wide and Session.Close does not touch it *)

Theorem close_session_noop fx s k : step fx s (CloseSession k) = Ok s.
Proof. reflexivity. Qed.

(* call 0 and call 1 are pending (on whatever sessions); sessions 0 and 1 are closed; the reply for
   call 1 still completes it, call 0 ends by its timer; nothing is left in the table *)
Definition ex_sessions : list event :=
  [Begin 0%nat SECOND; Sent 0%nat true; Begin 1%nat SECOND; Sent 1%nat true;
   CloseSession 0; CloseSession 1; Notify 2; End 1%nat; Tick SECOND; Timeout 0%nat; End 0%nat].
Example sessions_example :
  exists s, run FIX24 init_go ex_sessions = Ok s /\
    result_of s 0%nat = Some RTimeout /\ result_of s 1%nat = Some RNil /\ tbl s = [].
Proof. eexists. split; [vm_compute; reflexivity|]. repeat split; vm_compute; reflexivity. Qed.

(* ------------------------------------------------------------------ *)
(* clause audit (round 7): a reply completes at most one waiter *)

Theorem notify_at_most_one fx s i s' q1 q2 : Inv s -> step fx s (Notify i) = Ok s' ->
  pget (pings s') q1 <> pget (pings s) q1 -> pget (pings s') q2 <> pget (pings s) q2 -> q1 = q2.
Proof.
  intros HI H H1 H2.
  destruct (notify_only_owner _ _ _ _ _ HI H H1) as (_ & _ & _ & T1).
  destruct (notify_only_owner _ _ _ _ _ HI H H2) as (_ & _ & _ & T2). congruence.
Qed.

(* ... and exactly one when a call is waiting on that identifier: that call is woken, every other
   call keeps its record, the entry is gone *)
Theorem notify_exactly_owner fx s i q pg : Inv s -> tget (tbl s) i = Some q -> pget (pings s) q = Some pg ->
  exists s', step fx s (Notify i) = Ok s' /\ tget (tbl s') i = None /\
    (exists pg', pget (pings s') q = Some pg' /\ p_recv pg' = true) /\
    (forall q', q' <> q -> pget (pings s') q' = pget (pings s) q').
Proof.
  intros HI Ht Hp. destruct (inv_entry _ HI _ _ Ht) as (pg0 & Hp0 & _ & Hc & _).
  rewrite Hp in Hp0. inversion Hp0; subst pg0. cbn [step]. rewrite Ht, Hp, Hc.
  eexists. split; [reflexivity|]. cbn [tbl pings]. rewrite tget_tdel, N.eqb_refl, pget_pset, Nat.eqb_refl.
  split; [reflexivity|]. split; [eexists; split; reflexivity|].
  intros q' Hne. rewrite pget_pset. destruct (Nat.eqb_spec q' q); [contradiction|reflexivity].
Qed.

(* non-vacuity of the hypotheses used above and in table_exact / distinct_run / begin_fresh:
   after [Begin 0; Sent 0; Begin 1] two calls are outstanding and unwoken, with distinct identifiers,
   each owning its entry; a Begin is possible (table not full) *)
Definition ex_two : list event := [Begin 0%nat SECOND; Sent 0%nat true; Begin 1%nat 0%Z].
Example two_outstanding :
  exists s, run FIX24 init_go ex_two = Ok s /\ Inv s /\
    tget (tbl s) 1 = Some 0%nat /\ tget (tbl s) 2 = Some 1%nat /\ table_full (tbl s) = false /\
    waiting s 0%nat = true /\ waiting s 1%nat = true /\ id_of s 0%nat = Some 1 /\ id_of s 1%nat = Some 2.
Proof.
  eexists. split; [vm_compute; reflexivity|]. split.
  - apply (Inv_run FIX24 1 ex_two); [reflexivity|vm_compute; reflexivity].
  - repeat split; vm_compute; reflexivity.
Qed.

(* non-vacuity of ping_send_error: a call answered inside its send whose send then fails *)
Example send_error_example :
  exists s, run FIX24 init_go ([] ++ Begin 0%nat 0%Z :: [Notify 1] ++ Sent 0%nat false :: [Notify 1]) = Ok s /\
            result_of s 0%nat = Some RSendErr /\ tbl s = [].
Proof. eexists. split; [vm_compute; reflexivity|]. split; vm_compute; reflexivity. Qed.

(* ------------------------------------------------------------------ *)
(* ValidateDefaultRouter *)
From PV Require Import Model.PingVDR.

Theorem vdr_nil_iff r0 r1 r2 : fst (vdr r0 r1 r2) = VNil <-> r0 = RNil /\ (r1 = RNil \/ r2 = RNil).
Proof.
  destruct r0, r1, r2; cbn; split; intros H; try discriminate; try reflexivity; try tauto;
    destruct H as [H0 [H1|H1]]; discriminate.
Qed.

Theorem vdr_pings r0 r1 r2 : (1 <= snd (vdr r0 r1 r2) <= 3)%nat /\
  (snd (vdr r0 r1 r2) = 1%nat <-> r0 <> RNil) /\ (snd (vdr r0 r1 r2) = 2%nat <-> r0 = RNil /\ r1 = RNil).
Proof.
  destruct r0, r1, r2; cbn; repeat split; try lia; try discriminate; try congruence; try tauto;
    intros H; try discriminate; try (destruct H; discriminate); try (exfalso; apply H; reflexivity).
Qed.
