(* Proofs/PingMore.v — corollaries: distinct identifiers, exact table contents, own-reply-only,
   commutation of notifications, sufficient conditions for [young], non-vacuity. *)
From PV Require Import Base.Prelude Model.Ping Model.PingTrace Proofs.Ping Proofs.PingIff.
Open Scope N_scope.

(* ------------------------------------------------------------------ *)
(* identifiers *)

(* ids are next0 + (number of earlier Begin events), modulo 2^16; no look at the table *)
Theorem id_rule fx n tr s q pg : n < 65536 -> run fx (init n) tr = Ok s ->
  pget (pings s) q = Some pg -> p_id pg = (n + p_seq pg) mod 65536 /\ p_seq pg < cnt s.
Proof. intros Hn H Hq. eapply inv2_id; eauto. eapply Inv2_run; eauto. Qed.

Theorem ids_equal_exact fx n tr s q1 q2 pg1 pg2 : n < 65536 -> run fx (init n) tr = Ok s ->
  pget (pings s) q1 = Some pg1 -> pget (pings s) q2 = Some pg2 ->
  (p_id pg1 = p_id pg2 <-> p_seq pg1 mod 65536 = p_seq pg2 mod 65536).
Proof. intros Hn H. eapply id_equal_iff. eapply Inv2_run; eauto. Qed.

Theorem distinct_run fx n tr s q1 q2 pg1 pg2 : n < 65536 -> run fx (init n) tr = Ok s -> young s ->
  q1 <> q2 -> pget (pings s) q1 = Some pg1 -> pget (pings s) q2 = Some pg2 ->
  outstanding pg1 = true -> outstanding pg2 = true -> p_id pg1 <> p_id pg2.
Proof. intros Hn H. eapply ids_distinct. eapply Inv2_run; eauto. Qed.

(* ------------------------------------------------------------------ *)
(* sufficient conditions for [young] *)

Lemma always_impl fx (P Q : state -> Prop) tr : (forall s, P s -> Q s) ->
  forall s, always fx P s tr -> always fx Q s tr.
Proof.
  intros HPQ. induction tr as [|e r IH]; intros s; cbn [always]; intros [A B]; split; auto.
  destruct (step fx s e); auto.
Qed.

Definition count_begins (tr : list event) : N :=
  fold_right (fun e acc => match e with Begin _ => acc + 1 | BulkFail n => acc + n | _ => acc end) 0 tr.

Lemma cnt_bounded fx tr : forall s, cnt s + count_begins tr < 65536 ->
  always fx (fun s => cnt s < 65536) s tr.
Proof.
  induction tr as [|e r IH]; intros s H; cbn [always count_begins fold_right] in *.
  - split; [lia|exact I].
  - fold (count_begins r) in H. split; [destruct e; lia|].
    destruct (step fx s e) eqn:E; auto. apply IH.
    destruct (step_cnt _ _ _ _ E) as [-> _]. destruct e; lia.
Qed.

Lemma small_cnt_young s : cnt s < 65536 -> young s.
Proof. intros H q pg _ _. lia. Qed.

(* a history that hands out fewer than 65536 identifiers in total is young throughout *)
Theorem few_begins_young fx n tr : count_begins tr < 65536 -> always fx young (init n) tr.
Proof.
  intros H. eapply always_impl; [apply small_cnt_young|]. apply cnt_bounded. cbn [init cnt]. lia.
Qed.

Lemma youngb_spec s : youngb s = true -> young s.
Proof.
  unfold youngb, young. rewrite forallb_forall. intros H q pg Hq W.
  assert (Hin : In (q, pg) (pings s)).
  { clear -Hq. induction (pings s) as [|[q' v] r IH]; cbn [pget] in Hq; [discriminate|].
    destruct (Nat.eqb_spec q' q); [inversion Hq; subst; left; reflexivity|right; auto]. }
  specialize (H _ Hin). cbn [snd] in H. rewrite W in H. lia.
Qed.

Lemma not_known_wrap_young s : known_C19_wrap s = false -> young s.
Proof. unfold known_C19_wrap. intros H. apply youngb_spec. destruct (youngb s); [reflexivity|discriminate]. Qed.

(* ------------------------------------------------------------------ *)
(* the table holds exactly the calls that wait and have not been woken *)

Theorem table_exact fx n tr s : n < 65536 -> run fx (init n) tr = Ok s ->
  always fx young (init n) tr -> (fx = true \/ known_C19_sendfail tr = false) ->
  forall i q, tget (tbl s) i = Some q <->
    exists pg, pget (pings s) q = Some pg /\ outstanding pg = true /\ p_recv pg = false /\ p_id pg = i.
Proof.
  intros Hn H A Hfx i q.
  destruct (Good_run _ _ _ _ _ (Good_init _ Hn) A H) as [[HI _ HE] _].
  assert (Ho : owned_by_waiting s).
  { apply (owned_run fx tr (init n) s Hfx (Inv_init n Hn)); [intros ? ?; cbn; discriminate|exact H]. }
  split.
  - intros T. destruct (inv_entry _ HI _ _ T) as (pg & Hp & Hid & _ & Hr).
    exists pg. repeat split; auto. specialize (Ho _ _ T). unfold waiting in Ho. rewrite Hp in Ho. exact Ho.
  - intros (pg & Hp & W & R & Hid). subst i. apply HE; auto.
Qed.

(* ------------------------------------------------------------------ *)
(* a notification touches only the call that owns the entry of that identifier *)

Theorem notify_only_owner fx s i s' q : Inv s -> step fx s (Notify i) = Ok s' ->
  pget (pings s') q <> pget (pings s) q ->
  exists pg, pget (pings s) q = Some pg /\ p_id pg = i /\ tget (tbl s) i = Some q.
Proof.
  intros HI H Hne. cbn [step] in H. destruct (tget (tbl s) i) as [q0|] eqn:Eq.
  - destruct (inv_entry _ HI _ _ Eq) as (pg & Hp & Hid & Hc & _). rewrite Hp, Hc in H.
    inversion H; subst s'; clear H. cbn [pings] in Hne. rewrite pget_pset in Hne.
    destruct (Nat.eqb_spec q q0); [subst; eauto|congruence].
  - inversion H; subst. congruence.
Qed.

(* ------------------------------------------------------------------ *)
(* notifications commute (frames parsed concurrently may be linearised in any order) *)

Lemma pset_comm l p v q w : p <> q -> pget l p <> None -> pget l q <> None ->
  pset (pset l p v) q w = pset (pset l q w) p v.
Proof.
  intros Hne. induction l as [|[k u] r IH]; cbn [pget]; [congruence|].
  intros Hp Hq. unfold pset; fold pset.
  destruct (Nat.eqb_spec k p) as [E1|E1]; destruct (Nat.eqb_spec k q) as [E2|E2]; try lia.
  - subst k. unfold pset; fold pset. destruct (Nat.eqb_spec p q); [lia|].
    rewrite Nat.eqb_refl. reflexivity.
  - subst k. unfold pset; fold pset. destruct (Nat.eqb_spec q p); [lia|].
    rewrite Nat.eqb_refl. reflexivity.
  - unfold pset; fold pset.
    destruct (Nat.eqb_spec k p); [lia|]. destruct (Nat.eqb_spec k q); [lia|].
    f_equal. apply IH; auto.
Qed.

Theorem notify_comm fx s a b : Inv s ->
  run fx s [Notify a; Notify b] = run fx s [Notify b; Notify a].
Proof.
  intros HI. pose proof (inv_entry _ HI) as Hent. cbn [run step].
  destruct (N.eqb_spec a b) as [->|Hab]; [reflexivity|].
  destruct (tget (tbl s) a) as [qa|] eqn:Ea; destruct (tget (tbl s) b) as [qb|] eqn:Eb.
  - destruct (Hent _ _ Ea) as (pa & Hpa & Hia & Hca & _).
    destruct (Hent _ _ Eb) as (pb & Hpb & Hib & Hcb & _).
    assert (Hq : qa <> qb) by (intros ->; congruence).
    rewrite Hpa, Hca, Hpb, Hcb. cbn [tbl pings next cnt].
    rewrite !tget_tdel. destruct (N.eqb_spec b a); [lia|]. destruct (N.eqb_spec a b); [lia|].
    rewrite Ea, Eb, !pget_pset.
    destruct (Nat.eqb_spec qb qa); [congruence|]. destruct (Nat.eqb_spec qa qb); [congruence|].
    rewrite Hpa, Hca, Hpb, Hcb. cbn [tbl pings next cnt].
    rewrite (tdel_comm (tbl s) a b). f_equal. f_equal.
    apply pset_comm; [exact Hq|congruence|congruence].
  - destruct (Hent _ _ Ea) as (pa & Hpa & Hia & Hca & _). rewrite Hpa, Hca. cbn [tbl pings next cnt].
    rewrite tget_tdel. destruct (N.eqb_spec b a); [lia|]. rewrite Eb. cbn [tbl pings next cnt]. rewrite ?Ea, ?Hpa, ?Hca. reflexivity.
  - destruct (Hent _ _ Eb) as (pb & Hpb & Hib & Hcb & _).
    cbv iota. rewrite ?Eb, ?Hpb, ?Hcb. cbv iota. cbn [tbl pings next cnt].
    rewrite tget_tdel. destruct (N.eqb_spec a b); [lia|]. rewrite Ea. reflexivity.
  - cbv iota. rewrite ?Ea, ?Eb. cbv iota. rewrite ?Ea, ?Eb. reflexivity.
Qed.

(* ------------------------------------------------------------------ *)
(* non-vacuity of ping_iff: both outcomes occur in one young history *)

Fixpoint alwaysb (fx : bool) (P : state -> bool) (s : state) (tr : list event) : bool :=
  P s && match tr with
         | [] => true
         | e :: r => match step fx s e with Ok s' => alwaysb fx P s' r | _ => true end
         end.

Lemma alwaysb_spec fx (P : state -> bool) (Q : state -> Prop) tr : (forall s, P s = true -> Q s) ->
  forall s, alwaysb fx P s tr = true -> always fx Q s tr.
Proof.
  intros HPQ. induction tr as [|e r IH]; intros s; cbn [alwaysb always]; intros H;
    apply andb_true_iff in H; destruct H as [A B]; split; auto.
  destruct (step fx s e); auto.
Qed.

Definition ex_pre : list event := [Begin 0%nat; Sent 0%nat true].
(* call 1 (id 2): a foreign reply arrives while it is still inside its send, another one later *)
Definition ex_mid : list event :=
  [Notify 1; Sent 1%nat true; Begin 2%nat; Notify 3; Sent 2%nat true; Timeout 1%nat; Skip].
Definition ex_post : list event := [End 0%nat; Notify 2].
Definition ex_history : list event := ex_pre ++ Begin 1%nat :: ex_mid ++ End 1%nat :: ex_post.

Example ping_iff_nonvacuous :
  exists s, run false init_go ex_history = Ok s /\ always false young init_go ex_history /\
            id_of s 1%nat = Some 2 /\ result_of s 1%nat = Some RTimeout /\
            id_of s 0%nat = Some 1 /\ result_of s 0%nat = Some RNil /\
            id_of s 2%nat = Some 3 /\ result_of s 2%nat = None.
Proof.
  eexists. split; [vm_compute; reflexivity|].
  split; [apply (alwaysb_spec false youngb young _ youngb_spec); vm_compute; reflexivity|].
  repeat split; vm_compute; reflexivity.
Qed.

(* a reply parsed while the call is still inside its send completes it: the waiter is registered
   before the request is written *)
Definition ex_during_send : list event :=
  [Begin 0%nat; Notify 1; Sent 0%nat true; End 0%nat].
Example reply_during_send :
  exists s, run FIX24 init_go ex_during_send = Ok s /\ result_of s 0%nat = Some RNil /\ tbl s = [].
Proof. eexists. split; [vm_compute; reflexivity|]. split; vm_compute; reflexivity. Qed.

(* the send returning and a notification commute (a reply delivered by another goroutine right
   after WriteTo may be parsed before or after the pinging goroutine sees WriteTo return) *)
Lemma pset_pset l p v w : pset (pset l p v) p w = pset l p w.
Proof.
  induction l as [|[k u] r IH]; unfold pset; fold pset.
  - rewrite Nat.eqb_refl. reflexivity.
  - destruct (Nat.eqb_spec k p); unfold pset; fold pset.
    + rewrite Nat.eqb_refl. reflexivity.
    + destruct (Nat.eqb_spec k p); [lia|]. rewrite IH. reflexivity.
Qed.

Theorem sent_notify_comm fx s p i pg : Inv s ->
  pget (pings s) p = Some pg -> p_phase pg = Sending ->
  run fx s [Sent p true; Notify i] = run fx s [Notify i; Sent p true].
Proof.
  intros HI Hp Hph. pose proof (inv_entry _ HI) as Hent. cbn [run step]. rewrite Hp, Hph.
  unfold set_pings. cbn [tbl pings next cnt].
  destruct (tget (tbl s) i) as [q|] eqn:Eq.
  - destruct (Hent _ _ Eq) as (pq & Hpq & Hiq & Hcq & _).
    rewrite pget_pset. destruct (Nat.eqb_spec q p) as [->|Hne].
    + rewrite Hp in Hpq. inversion Hpq; subst pq. cbn [p_closed]. rewrite Hp, Hcq.
      cbn [tbl pings next cnt]. rewrite pget_pset, Nat.eqb_refl. cbn [p_phase]. rewrite Hph.
      cbn [tbl pings next cnt p_id p_recv p_closed p_fired p_seq].
      rewrite !pset_pset. reflexivity.
    + rewrite Hpq, Hcq. cbn [tbl pings next cnt]. rewrite pget_pset.
      destruct (Nat.eqb_spec p q); [congruence|]. rewrite Hp, Hph.
      cbn [tbl pings next cnt]. f_equal. f_equal.
      apply pset_comm; [congruence|congruence|congruence].
  - cbn [tbl pings]. rewrite Hp, Hph. reflexivity.
Qed.
