(* Proofs/DHCP.v — invariants of the DHCP lease-table model over all histories. *)
From PV Require Import Base.Prelude Model.DHCP Spec.DHCP.
Open Scope N_scope.

(* ---------------------------------------------------------------- *)
(* table well-formedness: client ids are unique keys *)

Definition keys (t : list lease) : list cid := map l_cid t.
Definition wf (s : dstate) : Prop := NoDup (keys (tbl s)).

Lemma in_tdel k t l : In l (tdel k t) <-> In l t /\ l_cid l <> k.
Proof.
  unfold tdel. rewrite filter_In. split; intros [H1 H2]; split; auto.
  - intro E. rewrite E, N.eqb_refl in H2. discriminate.
  - apply negb_true_iff. apply N.eqb_neq. exact H2.
Qed.

Lemma keys_tdel_notin k t : ~ In k (keys (tdel k t)).
Proof.
  unfold keys. rewrite in_map_iff. intros [l [E H]]. apply in_tdel in H. tauto.
Qed.

Lemma nodup_tdel k t : NoDup (keys t) -> NoDup (keys (tdel k t)).
Proof.
  unfold keys, tdel. induction t as [|l r IH]; simpl; intros H; [constructor|].
  inversion H; subst. destruct (negb (l_cid l =? k)); simpl; auto.
  constructor; auto. rewrite in_map_iff in *. intros [x [E Hx]]. apply filter_In in Hx.
  apply H2. exists x. tauto.
Qed.

Lemma nodup_tset l t : NoDup (keys t) -> NoDup (keys (tset l t)).
Proof.
  intros H. unfold tset. simpl. constructor.
  - apply keys_tdel_notin.
  - apply nodup_tdel. exact H.
Qed.

Lemma keys_freeLeases now t : keys (freeLeases now t) = keys t.
Proof.
  unfold keys, freeLeases. rewrite map_map. apply map_ext. intros l.
  destruct (_ && _); reflexivity.
Qed.

Lemma wf_put s l : wf s -> wf (put s l).
Proof. unfold wf, put. simpl. apply nodup_tset. Qed.
Lemma wf_set_ss s x : wf s -> wf (set_ss s x).
Proof. auto. Qed.
Lemma wf_set_next s b v : wf s -> wf (set_next s b v).
Proof. unfold set_next; destruct b; auto. Qed.
Lemma wf_set_tbl_tdel s k : wf s -> wf (set_tbl s (tdel k (tbl s))).
Proof. unfold wf. simpl. apply nodup_tdel. Qed.

Lemma wf_findOrCreate c s k mc : wf s -> wf (fst (findOrCreate c s k mc)).
Proof.
  intros H. unfold findOrCreate. destruct (tget k (tbl s)) as [l|].
  - destruct (_ && _); simpl; auto using wf_put.
  - simpl. auto using wf_put.
Qed.

Lemma wf_alloc c ch s l req : wf s -> wf (snd (allocIPOffer c ch s l req)).
Proof.
  intros H. unfold allocIPOffer.
  destruct (phase1 c ch s l req); simpl; auto.
  destruct (scan _ _ _ _); simpl; auto using wf_set_next.
  destruct (scan _ _ _ _); simpl; auto using wf_set_next.
Qed.

Lemma wf_parse_effect c s m : wf s -> wf (parse_effect c s m).
Proof. unfold parse_effect. destruct (_ && _); auto. Qed.

Lemma wf_handleDiscover c ch now s m : wf s -> wf (fst (handleDiscover c ch now s m)).
Proof.
  intros H. unfold handleDiscover.
  pose proof (wf_findOrCreate c s (getcid m) (m_chaddr m) H) as H1.
  destruct (findOrCreate c s (getcid m) (m_chaddr m)) as [s1 l]. simpl in H1.
  set (l1 := match l_offer (discover_reset now l m) with Some x => _ | None => _ end).
  assert (Hp : wf (put s1 l1)) by auto using wf_put.
  destruct (l_offer l1) as [x|].
  - simpl. auto using wf_put.
  - pose proof (wf_alloc c ch (put s1 l1) l1 (m_req m) Hp) as H2.
    destruct (allocIPOffer c ch (put s1 l1) l1 (m_req m)) as [[x|] s2]; simpl in *.
    + auto using wf_put.
    + apply wf_set_tbl_tdel. exact H2.
Qed.

Ltac wf_branches :=
  repeat match goal with
         | |- context [if ?b then _ else _] => destruct b
         | |- context [match ?x with Selecting => _ | _ => _ end] => destruct x
         end; simpl; auto using wf_put, wf_set_ss.

Lemma wf_handleRequest c now s m : wf s -> wf (fst (handleRequest c now s m)).
Proof.
  intros H. unfold handleRequest.
  destruct (classify m) as [oper req].
  destruct (req =? 0); simpl; auto.
  pose proof (wf_findOrCreate c s (getcid m) (m_chaddr m) H) as H1.
  destruct (findOrCreate c s (getcid m) (m_chaddr m)) as [s1 l]. simpl in H1.
  destruct oper; wf_branches.
Qed.

Lemma wf_handleDecline c s m : wf s -> wf (fst (handleDecline c s m)).
Proof.
  intros H. unfold handleDecline.
  pose proof (wf_findOrCreate c s (getcid m) (m_chaddr m) H) as H1.
  destruct (findOrCreate c s (getcid m) (m_chaddr m)) as [s1 l]. simpl in H1.
  wf_branches.
Qed.

Lemma wf_handleRelease c s m : wf s -> wf (fst (handleRelease c s m)).
Proof.
  intros H. unfold handleRelease.
  pose proof (wf_findOrCreate c s (getcid m) (m_chaddr m) H) as H1.
  destruct (findOrCreate c s (getcid m) (m_chaddr m)) as [s1 l]. simpl in *. exact H1.
Qed.

Lemma wf_step c ch s o : wf s -> wf (fst (step c ch s o)).
Proof.
  intros H. destruct o; simpl.
  - apply wf_handleDiscover, wf_parse_effect, H.
  - apply wf_handleRequest, wf_parse_effect, H.
  - apply wf_handleDecline, wf_parse_effect, H.
  - apply wf_handleRelease, wf_parse_effect, H.
  - exact H.
  - exact H.
  - unfold wf. simpl. rewrite keys_freeLeases. exact H.
  - destruct (tget k (tbl s)); auto using wf_put.
Qed.

Lemma run_cons c s ch o h :
  run c s ((ch, o) :: h) =
  (fst (run c (fst (step c ch s o)) h), snd (step c ch s o) :: snd (run c (fst (step c ch s o)) h)).
Proof.
  simpl. destruct (step c ch s o) as [s1 rp]. simpl. destruct (run c s1 h). reflexivity.
Qed.

Lemma wf_run c h : forall s, wf s -> wf (fst (run c s h)).
Proof.
  induction h as [|[ch o] r IH]; intros s H; [exact H|].
  rewrite run_cons. simpl. apply IH. apply wf_step. exact H.
Qed.

Lemma wf_init c : wf (init c).
Proof. constructor. Qed.

Theorem table_keys_unique : forall c h, NoDup (map l_cid (tbl (fst (run c (init c) h)))).
Proof. intros c h. apply (wf_run c h (init c) (wf_init c)). Qed.

(* ---------------------------------------------------------------- *)
(* boolean reflection of the spec vocabulary *)

Lemma lstate_eqb_eq a b : lstate_eqb a b = true <-> a = b.
Proof. destruct a, b; simpl; split; intros H; try reflexivity; discriminate. Qed.

Lemma oeqb_eq a b : oeqb a b = true <-> a = b.
Proof.
  destruct a as [x|], b as [y|]; simpl; split; intros H; try reflexivity; try discriminate.
  - apply N.eqb_eq in H. subst. reflexivity.
  - inversion H. apply N.eqb_refl.
Qed.

Lemma acked_to_other_spec t k x :
  acked_to_other t k x = true <->
  exists l, In l t /\ l_state l = SAllocated /\ l_ip l = Some x /\ l_cid l <> k.
Proof.
  unfold acked_to_other. rewrite existsb_exists. split.
  - intros [l [Hin H]]. apply andb_true_iff in H as [H H3]. apply andb_true_iff in H as [H1 H2].
    exists l. repeat split; auto.
    + apply lstate_eqb_eq; auto.
    + apply oeqb_eq; auto.
    + apply negb_true_iff in H3. apply N.eqb_neq; auto.
  - intros [l [Hin [H1 [H2 H3]]]]. exists l. split; auto.
    rewrite H1, H2. simpl. rewrite N.eqb_refl. simpl. apply negb_true_iff. apply N.eqb_neq; auto.
Qed.

Lemma uniqb_spec t : uniqb t = true <-> Uniq t.
Proof.
  unfold uniqb, Uniq. rewrite forallb_forall. split.
  - intros H l1 l2 x H1 H2 S1 S2 I1 I2.
    specialize (H l1 H1). rewrite S1, I1 in H. apply negb_true_iff in H.
    destruct (N.eq_dec (l_cid l1) (l_cid l2)) as [E|E]; auto.
    assert (A : acked_to_other t (l_cid l1) x = true).
    { apply acked_to_other_spec. exists l2. repeat split; auto. }
    congruence.
  - intros H l Hl. destruct (l_state l) eqn:S; auto. destruct (l_ip l) as [x|] eqn:I; auto.
    apply negb_true_iff. destruct (acked_to_other t (l_cid l) x) eqn:A; auto.
    apply acked_to_other_spec in A as [l2 [H2 [S2 [I2 N2]]]].
    exfalso. apply N2. symmetry. apply (H l l2 x); auto.
Qed.
