(* Proofs/ParseEffect.v — Session.Parse including its side effect on process state.

   Besides its return value Parse calls echoNotify(id) on the package-global ping waiter table exactly when the
   model's [f_echo] is [Some id] (Model/Parse.v, echo_gate).  The waiter table is PING's model (Model/Ping.v,
   imported read-only: [step fx st (Notify id)] is echoNotify, with "close of a closed channel" as Panic).
   [parse_effect] composes the two; it never panics and never runs out of fuel in any state of the waiter table
   that a history of Ping / Ping6 calls, send results, replies, timeouts and returns can reach. *)
From PV Require Import Base.Prelude Base.Slice Model.Parse Proofs.Parse.
From PV Require Model.Ping Proofs.Ping.
Open Scope N_scope.

Definition parse_effect (fx : bool) (c : cfg) (s : slice) (st : Ping.state) : res (frame * Ping.state) :=
  match parse c s with
  | Ok f =>
      match f_echo f with
      | Some id => match Ping.step fx st (Ping.Notify id) with
                   | Ok st' => Ok (f, st') | Err e => Err e | Panic => Panic | Fuel => Fuel
                   end
      | None => Ok (f, st)
      end
  | Err e => Err e
  | Panic => Panic
  | Fuel => Fuel
  end.

Theorem parse_effect_no_panic fx c s n tr st :
  wf s -> n < 65536 -> Ping.run fx (Ping.init n) tr = Ok st -> safe (parse_effect fx c s st).
Proof.
  intros Hwf Hn Hrun. unfold parse_effect.
  pose proof (parse_no_panic c s Hwf) as [Hp Hf].
  destruct (parse c s) as [f|e| |]; try (split; congruence); try (split; discriminate).
  destruct (f_echo f) as [id|]; [|split; discriminate].
  pose proof (Proofs.Ping.run_no_panic fx n (tr ++ [Ping.Notify id]) Hn) as H1.
  pose proof (Proofs.Ping.run_no_fuel fx n (tr ++ [Ping.Notify id]) Hn) as H2.
  rewrite (Proofs.Ping.run_snoc fx _ tr (Ping.Notify id) st Hrun) in H1, H2.
  destruct (Ping.step fx st (Ping.Notify id)); split; congruence.
Qed.

(* the same frame parsed twice in a row (the second echo reply arrives before the pinging goroutine ran): still safe,
   and the second call leaves the waiter table as the first one left it *)
Theorem parse_effect_twice fx c s n tr st f st1 :
  wf s -> n < 65536 -> Ping.run fx (Ping.init n) tr = Ok st ->
  parse_effect fx c s st = Ok (f, st1) -> safe (parse_effect fx c s st1).
Proof.
  intros Hwf Hn Hrun H1. unfold parse_effect in H1.
  destruct (parse c s) as [f0|e| |] eqn:Hp; try discriminate.
  destruct (f_echo f0) as [id|] eqn:He.
  - destruct (Ping.step fx st (Ping.Notify id)) as [st'| | |] eqn:Hs; try discriminate.
    injection H1 as <- <-.
    apply (parse_effect_no_panic fx c s n (tr ++ [Ping.Notify id]) st'); auto.
    rewrite (Proofs.Ping.run_snoc fx _ tr (Ping.Notify id) st Hrun). exact Hs.
  - injection H1 as <- <-. apply (parse_effect_no_panic fx c s n tr st); auto.
Qed.

(* Parse is a function of (configuration, bytes) only: whatever the waiter table holds - no waiter, a waiter with the
   identifier of this very echo reply, other waiters - the frame Parse returns is the one of the pure [parse]. *)
Theorem parse_independent_of_ping_table fx c s st st' f :
  parse_effect fx c s st = Ok (f, st') -> parse c s = Ok f.
Proof.
  unfold parse_effect. destruct (parse c s) as [f0|e| |]; try discriminate.
  destruct (f_echo f0); [destruct (Ping.step fx st (Ping.Notify _)); try discriminate|];
  intros E; injection E as <- _; reflexivity.
Qed.

Corollary parse_same_frame_any_table fx c s st1 st2 f1 f2 st1' st2' :
  parse_effect fx c s st1 = Ok (f1, st1') -> parse_effect fx c s st2 = Ok (f2, st2') -> f1 = f2.
Proof.
  intros H1 H2. apply parse_independent_of_ping_table in H1. apply parse_independent_of_ping_table in H2. congruence.
Qed.
