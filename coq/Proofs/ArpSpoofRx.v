(* Proofs/ArpSpoofRx.v — the receive path equals the spec for every state and packet (decoded and raw), witnesses. *)
From PV Require Import Base.Prelude Base.Slice Model.ArpSpoof Spec.ArpSpoof Proofs.ArpSpoof Proofs.ArpSpoofLoops.
Open Scope N_scope.

(* ---------------------------------------------------------------- *)
(* receive path = spec, for every state and packet *)

Lemma link_local_zero : link_local 0 = false.
Proof. reflexivity. Qed.

(* what the property text says a received ARP packet must be answered with: nothing, or a reply (the probe-reject,
   the spoof reply) that is decided now and written by RxReply; RxNow (a frame written by ProcessPacket before it
   unlocks) no longer occurs *)
Inductive rx_act := RxNone | RxNow (f : frame) | RxQueue (f : frame).

Definition rx_answer (c : cfg) (s : state) (p : arp_pkt) : rx_act :=
  if closed s then RxNone
  else if sp_is_probe p
  then (if sp_reject_cond c (offer_of (psmac p) (offers s)) p then RxQueue (probe_reject c p) else RxNone)
  else (if sp_asks_router c p && hunted s (psmac p) then RxQueue (spoof_reply c p) else RxNone).

Theorem rx_spec : forall c s p,
  step c s (RxArp p) = match rx_answer c s p with
                       | RxNone => (s, [])
                       | RxNow f => wr2 s f
                       | RxQueue f => (set_rxq s (rxq s ++ [f]), [])
                       end.
Proof.
  intros c s p. simpl. unfold rx_arp, rx_answer. destruct (closed s); [reflexivity|].
  unfold classify, sp_is_probe, sp_reject_cond, sp_is_probe, sp_asks_router, hunted, IP4_ZERO.
  destruct (psip p =? 0) eqn:Es.
  - assert (Hs : psip p = 0) by lia. rewrite Hs in *. rewrite link_local_zero. simpl.
    destruct (link_local (ptip p)) eqn:Elt; simpl.
    + destruct (pop p =? 1), (ptip p =? 0); simpl; try reflexivity;
        rewrite ?andb_false_r; reflexivity.
    + destruct (pop p =? 2) eqn:E2.
      * assert (pop p =? 1 = false) by lia. rewrite H. simpl. reflexivity.
      * destruct (pop p =? 1) eqn:E1; simpl; [|reflexivity].
        destruct (0 =? ptip p) eqn:Et.
        -- assert (ptip p =? 0 = true) by lia. rewrite H. simpl. rewrite ?andb_false_r. reflexivity.
        -- assert (ptip p =? 0 = false) by lia. rewrite H. simpl.
           destruct (offer_of (psmac p) (offers s)); [rewrite <- andb_assoc; destruct (_ && _)|]; reflexivity.
  - rewrite !andb_false_r. simpl.
    destruct (link_local (psip p)) eqn:Els; simpl.
    + rewrite ?andb_false_r. reflexivity.
    + destruct (link_local (ptip p)) eqn:Elt; simpl.
      * rewrite ?andb_false_r. reflexivity.
      * destruct (pop p =? 2) eqn:E2.
        -- assert (pop p =? 1 = false) by lia. rewrite H. reflexivity.
        -- destruct (pop p =? 1) eqn:E1; simpl; [|reflexivity].
           destruct (psip p =? ptip p) eqn:Est; simpl.
           ++ rewrite ?andb_false_r. reflexivity.
           ++ rewrite !andb_true_r. rewrite andb_comm. destruct (_ && _); reflexivity.
Qed.

(* raw frames: the spec's own decoder and the model's slice code agree *)
Lemma N_of_bytes_snoc l b : N_of_bytes (l ++ [b]) = N_of_bytes l * 256 + b.
Proof. unfold N_of_bytes. rewrite fold_left_app. reflexivity. Qed.

Lemma sp_num_eq l : sp_num l = N_of_bytes l.
Proof.
  unfold sp_num. induction l as [|b r IH] using rev_ind; [reflexivity|].
  rewrite rev_app_distr. simpl. rewrite IH, N_of_bytes_snoc. lia.
Qed.

Lemma firstn2_nth (l : bytes) k : (k + 2 <= List.length l)%nat ->
  firstn 2 (skipn k l) = [nth k l 0; nth (k + 1) l 0].
Proof.
  revert l. induction k as [|k IH]; intros l H.
  - destruct l as [|x [|y r]]; simpl in *; try lia. reflexivity.
  - destruct l as [|x r]; simpl in *; [lia|]. apply IH. lia.
Qed.

Lemma firstn1_nth (l : bytes) k : (k + 1 <= List.length l)%nat -> firstn 1 (skipn k l) = [nth k l 0].
Proof.
  revert l. induction k as [|k IH]; intros l H.
  - destruct l as [|x r]; simpl in *; try lia. reflexivity.
  - destruct l as [|x r]; simpl in *; [lia|]. apply IH. lia.
Qed.

Lemma sp_field2 l k : (k + 2 <= List.length l)%nat -> sp_field l k 2 = be16 (nth k l 0) (nth (k + 1) l 0).
Proof. intros H. unfold sp_field. rewrite sp_num_eq, firstn2_nth by lia. unfold N_of_bytes, be16. simpl. lia. Qed.

Lemma sp_field1 l k : (k + 1 <= List.length l)%nat -> sp_field l k 1 = nth k l 0.
Proof. intros H. unfold sp_field. rewrite sp_num_eq, firstn1_nth by lia. unfold N_of_bytes. simpl. lia. Qed.

Definition hdr_ok (b : bytes) : bool :=
  Nat.leb 28 (List.length b)
  && (sp_field b 0 2 =? 1) && (sp_field b 2 2 =? 2048) && (sp_field b 4 1 =? 6) && (sp_field b 5 1 =? 4).

Lemma arp_valid_iff b : arp_is_valid (of_bytes b) = Ok tt <-> hdr_ok b = true.
Proof.
  unfold hdr_ok, arp_is_valid, ARP_LEN.
  assert (Hc : cap (of_bytes b) = List.length b) by reflexivity.
  assert (Hl : len (of_bytes b) = List.length b) by reflexivity.
  destruct (Nat.ltb_spec (len (of_bytes b)) 28) as [Hlt|Hge].
  - destruct (Nat.leb_spec 28 (List.length b)); [lia|]. cbn [andb]. split; discriminate.
  - destruct (Nat.leb_spec 28 (List.length b)); [|lia]. cbn [andb].
    rewrite !be16_at_ok by lia. cbn [bind]. rewrite !sp_field2, !sp_field1 by lia.
    change (arr (of_bytes b)) with b.
    destruct (be16 (nth 0 b 0) (nth (0 + 1) b 0) =? 1); cbn [negb andb]; [|split; discriminate].
    destruct (be16 (nth 2 b 0) (nth (2 + 1) b 0) =? 2048); cbn [negb andb]; [|split; discriminate].
    rewrite !idx_ok by lia. cbn [bind]. change (arr (of_bytes b)) with b.
    destruct (nth 4 b 0 =? 6); cbn [negb andb]; [|split; discriminate].
    destruct (nth 5 b 0 =? 4); cbn [negb andb]; split; auto; discriminate.
Qed.

Theorem raw_spec : forall c s et b,
  step c s (RxRaw et b) = match sp_decode et b with Some p => step c s (RxArp p) | None => (s, []) end.
Proof.
  intros c s et b. cbn [step]. unfold process_raw, sp_decode, ETH_P_ARP.
  destruct (et =? 2054); cbn [negb andb]; [|reflexivity].
  fold (hdr_ok b). destruct (hdr_ok b) eqn:Hh.
  - pose proof (proj2 (arp_valid_iff b) Hh) as Hv. rewrite Hv. cbn [bind].
    assert (Hge : (28 <= List.length b)%nat).
    { unfold hdr_ok in Hh. destruct (Nat.leb_spec 28 (List.length b)); [auto|discriminate]. }
    rewrite (arp_decode_ok 0 b Hge). cbn [bind]. unfold decoded.
    rewrite sp_field2 by lia. unfold sp_field. rewrite !sp_num_eq. reflexivity.
  - destruct (arp_is_valid_shape b) as [Hv|[e Hv]].
    + apply arp_valid_iff in Hv. congruence.
    + rewrite Hv. reflexivity.
Qed.

(* ---------------------------------------------------------------- *)
(* witnesses *)

Definition wit_cfg : cfg := mkCfg 366503875925 3232235649 439804651110 3232235531 3232235520 24.
  (* host 00:55:55:55:55:55 192.168.0.129, router 00:66:66:66:66:66 192.168.0.11, LAN 192.168.0.0/24 *)
Definition wit_m1 : mac := 2199023255553.  (* 02:00:00:00:00:01 *)
Definition wit_m2 : mac := 2199023255554.
Definition wit_m3 : mac := 2199023255555.
Definition wit_a1 : addr := mkAddr wit_m1 3232235522.

Lemma wit_cfg_ok : cfg_ok wit_cfg.
Proof. unfold cfg_ok, wit_cfg; simpl. repeat split; lia. Qed.

(* "hunted at the moment of emission" is false of the code: StopHunt returns between a loop's decision and
   its write; the frame already decided still goes out (the interleaving is the witness) *)
Theorem confined_at_emission_refuted :
  exists c evs s e out f,
    cfg_ok c /\ In (s, e, out) (trace c init_state evs) /\ In f out /\ forged c f = true /\
    caller_forged c e = false /\ hunted s (fedst f) = false.
Proof.
  exists wit_cfg, [StartHunt wit_a1; Lookup 0; Check 0; StopHunt wit_m1; Send 0].
  eexists; eexists; eexists; eexists.
  split; [exact wit_cfg_ok|].
  split; [vm_compute; do 4 right; left; reflexivity|].
  split; [left; reflexivity|]. repeat split; vm_compute; reflexivity.
Qed.

(* "nothing after Close" is false of the code for the same reason *)
Theorem silent_after_close_refuted :
  exists c pre post s e out f,
    cfg_ok c /\ In (s, e, out) (trace c (final c init_state (pre ++ [Close])) post) /\
    is_api_send e = false /\ In f out.
Proof.
  exists wit_cfg, [StartHunt wit_a1; Lookup 0; Check 0], [Send 0].
  eexists; eexists; eexists; eexists.
  split; [exact wit_cfg_ok|].
  split; [vm_compute; left; reflexivity|]. split; [reflexivity|left; reflexivity].
Qed.

(* non-vacuity: the ordinary life of a hunt, with the stale frame, the restore, and the public API *)
Example run_nonvacuous :
  let c := wit_cfg in
  outputs c init_state
    [StartHunt wit_a1; Lookup 0; Check 0; Send 0;
     RxArp (mkPkt 1 wit_m1 wit_m1 3232235522 0 3232235531); RxReply 0;
     Lookup 0; StopHunt wit_m1; Check 0; Send 0;           (* decided before StopHunt: one more forged frame *)
     Lookup 0; Check 0; Send 0;                            (* next iteration: restore, loop returns *)
     Lookup 0; Check 0; Send 0;
     ApiAnnounceTo wit_m2 3232235531; ApiRequest 3232235522]
  = [[]; []; []; [announce c wit_m1];
     []; [mkFrame 2 wit_m1 (host_mac c) (router_ip c) wit_m1 3232235522];
     []; []; []; [announce c wit_m1];
     []; []; [restore c wit_m1];
     []; []; [];
     [announce c wit_m2]; [request_to c MAC_BCAST 3232235522]].
Proof. vm_compute. reflexivity. Qed.

