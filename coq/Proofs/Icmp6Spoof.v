(* Proofs/Icmp6Spoof.v — proofs about the icmp_spoofer event system (C14). *)
From PV Require Import Base.Prelude Base.Text Model.Icmp6SpoofRA Model.Icmp6Spoof Spec.RFC4861 Model.Icmp6SpoofKnown Proofs.Icmp6SpoofRA.
Open Scope N_scope.

(* ---------------------------------------------------------------- *)
(* traces *)

Lemma run_app c st e1 e2 :
  run c st (e1 ++ e2) =
  let '(t1, s1) := run c st e1 in let '(t2, s2) := run c s1 e2 in (t1 ++ t2, s2).
Proof.
  revert st. induction e1 as [|e r IH]; intros st; simpl.
  - destruct (run c st e2); reflexivity.
  - destruct (step c st e) as [st' o]. rewrite IH.
    destruct (run c st' r) as [t1 s1]. destruct (run c s1 e2) as [t2 s2]. reflexivity.
Qed.

(* every trace entry is a step of the model; states reachable along the run *)
Inductive reach (c : config) (s0 : state) : state -> Prop :=
| reach0 : reach c s0 s0
| reachS st e : reach c s0 st -> reach c s0 (fst (step c st e)).

Lemma run_entries c s0 : forall evs st, reach c s0 st ->
  forall x, In x (fst (run c st evs)) ->
    let '(s, e, o) := x in reach c s0 s /\ snd (step c s e) = o.
Proof.
  induction evs as [|e r IH]; intros st Hr x Hin; simpl in *; [contradiction|].
  destruct (step c st e) as [st' o] eqn:Hs.
  destruct (run c st' r) as [tr fin] eqn:Hrun. simpl in Hin.
  destruct Hin as [<-|Hin].
  - split; [exact Hr|]. rewrite Hs. reflexivity.
  - apply (IH st'); [|rewrite Hrun; exact Hin].
    replace st' with (fst (step c st e)) by (rewrite Hs; reflexivity). constructor. exact Hr.
Qed.

Lemma run_final_reach c s0 : forall evs st, reach c s0 st -> reach c s0 (snd (run c st evs)).
Proof.
  induction evs as [|e r IH]; intros st Hr; simpl; [exact Hr|].
  destruct (step c st e) as [st' o] eqn:Hs. destruct (run c st' r) as [tr fin] eqn:Hrun.
  simpl. replace fin with (snd (run c st' r)) by (rewrite Hrun; reflexivity).
  apply IH. replace st' with (fst (step c st e)) by (rewrite Hs; reflexivity). constructor. exact Hr.
Qed.

(* ---------------------------------------------------------------- *)
(* invariants *)

(* ---------------------------------------------------------------- *)
(* invariants *)

Definition dst_ok (a : addr) : Prop := is_llu (a_ip a) || is_llm (a_ip a) = true.
Definition pend_ok (st : state) (l : sloop) : Prop :=
  Forall (fun ip => rt_find (routers st) ip <> None) (l_pending l).

Record inv (st : state) : Prop := {
  inv_loops : Forall (fun l => dst_ok (l_dst l)) (loops st);
  inv_def : forall k, defrouter st = Some k -> rt_find (routers st) k <> None;
  inv_rt : routers st <> [] -> defrouter st <> None;
  inv_keys : Forall (fun kr => r_ip (snd kr) = fst kr) (routers st);
  inv_pend : Forall (pend_ok st) (loops st)     (* what a loop still has to send are learned routers *)
}.

Lemma kill_dst l i : Forall (fun l => dst_ok (l_dst l)) l -> Forall (fun l => dst_ok (l_dst l)) (kill l i).
Proof.
  revert i; induction l as [|x r IH]; intros i H; simpl; [destruct i; constructor|].
  inversion H; subst. destruct i; constructor; auto.
Qed.
Lemma set_pending_dst l i p : Forall (fun l => dst_ok (l_dst l)) l -> Forall (fun l => dst_ok (l_dst l)) (set_pending l i p).
Proof.
  revert i; induction l as [|x r IH]; intros i H; simpl; [destruct i; constructor|].
  inversion H; subst. destruct i; constructor; auto.
Qed.

(* loops addressed by position *)
Lemma nth_kill_eq : forall l i x, nth_error l i = Some x -> nth_error (kill l i) i = Some (mkLoop (l_dst x) false []).
Proof. induction l as [|y r IH]; intros [|i] x H; simpl in *; try discriminate; [inversion H; reflexivity|auto]. Qed.
Lemma nth_kill_ne : forall l i j, i <> j -> nth_error (kill l i) j = nth_error l j.
Proof. induction l as [|y r IH]; intros [|i] [|j] H; simpl; try reflexivity; try lia. apply IH. lia. Qed.
Lemma nth_setp_eq : forall l i p x, nth_error l i = Some x ->
  nth_error (set_pending l i p) i = Some (mkLoop (l_dst x) (l_alive x) p).
Proof. induction l as [|y r IH]; intros [|i] p x H; simpl in *; try discriminate; [inversion H; reflexivity|auto]. Qed.
Lemma nth_setp_ne : forall l i j p, i <> j -> nth_error (set_pending l i p) j = nth_error l j.
Proof. induction l as [|y r IH]; intros [|i] [|j] p H; simpl; try reflexivity; try lia. apply IH. lia. Qed.

Lemma Forall_kill (P : sloop -> Prop) l i : (forall d, P (mkLoop d false [])) -> Forall P l -> Forall P (kill l i).
Proof.
  intros Hk. revert i; induction l as [|x r IH]; intros i H; simpl; [destruct i; constructor|].
  inversion H; subst. destruct i; constructor; auto.
Qed.
Lemma Forall_setp (P : sloop -> Prop) l i p :
  (forall x, In x l -> P x -> P (mkLoop (l_dst x) (l_alive x) p)) -> Forall P l -> Forall P (set_pending l i p).
Proof.
  revert i; induction l as [|x r IH]; intros i Hp H; simpl; [destruct i; constructor|].
  inversion H; subst. destruct i; constructor; auto.
  - apply Hp; [left; reflexivity|assumption].
  - apply IH; auto. intros y Hy. apply Hp. right. exact Hy.
Qed.

Lemma pick_in {A} (order : list nat) (l : list A) x : In x (pick order l) -> In x l.
Proof.
  unfold pick. intros H. apply in_flat_map in H as [k [_ Hk]].
  destruct (nth_error l k) as [y|] eqn:E; [|contradiction]. destruct Hk as [<-|[]].
  eapply nth_error_In; eauto.
Qed.

Lemma all_nodes_llm : is_llm all_nodes = true.
Proof. vm_compute. reflexivity. Qed.

Lemma bytes_eqb_refl a : bytes_eqb a a = true.
Proof. induction a; simpl; auto. rewrite N.eqb_refl. exact IHa. Qed.

Lemma bytes_eqb_eq a b : bytes_eqb a b = true <-> a = b.
Proof.
  split; [|intros ->; apply bytes_eqb_refl].
  revert b; induction a as [|x a IH]; intros [|y b] H; simpl in H; try discriminate; auto.
  apply andb_true_iff in H as [H1 H2]. apply N.eqb_eq in H1. f_equal; auto.
Qed.

Lemma rt_find_set l ip r : rt_find (rt_set l ip r) ip = Some r.
Proof.
  induction l as [|[k r0] t IH]; simpl.
  - rewrite bytes_eqb_refl. reflexivity.
  - destruct (bytes_eqb k ip) eqn:E; simpl; rewrite E; auto.
Qed.

Lemma rt_find_set_other l ip r k : rt_find l k <> None -> rt_find (rt_set l ip r) k <> None.
Proof.
  induction l as [|[k0 r0] t IH]; simpl; intros H; [congruence|].
  destruct (bytes_eqb k0 ip) eqn:E; simpl.
  - destruct (bytes_eqb k0 k); [discriminate|exact H].
  - destruct (bytes_eqb k0 k); [discriminate|]. apply IH. exact H.
Qed.

Lemma rt_set_keys l r :
  Forall (fun kr => r_ip (snd kr) = fst kr) l -> Forall (fun kr => r_ip (snd kr) = fst kr) (rt_set l (r_ip r) r).
Proof.
  induction l as [|[k r0] t IH]; intros H; simpl.
  - constructor; auto.
  - inversion H as [|x y H1 H2]; subst x y. destruct (bytes_eqb k (r_ip r)) eqn:E.
    + constructor; auto. simpl. apply bytes_eqb_eq in E. congruence.
    + constructor; auto.
Qed.

Lemma rt_find_keys l k r : Forall (fun kr => r_ip (snd kr) = fst kr) l -> rt_find l k = Some r -> r_ip r = k.
Proof.
  induction l as [|[k0 r0] t IH]; simpl; intros H Hf; [discriminate|].
  inversion H; subst. destruct (bytes_eqb k0 k) eqn:E.
  - apply bytes_eqb_eq in E. inversion Hf; subst. assumption.
  - auto.
Qed.

Lemma rt_set_nonempty l ip r : rt_set l ip r <> [].
Proof. destruct l as [|[k r0] t]; simpl; [discriminate|]. destruct (bytes_eqb k ip); discriminate. Qed.

Lemma router_update_ip r p o : r_ip (router_update r p o) = r_ip r.
Proof. reflexivity. Qed.


Lemma rt_find_in l k r : In (k, r) l -> rt_find l k <> None.
Proof.
  induction l as [|[k0 r0] t IH]; simpl; intros H; [contradiction|].
  destruct H as [H|H].
  - inversion H; subst. rewrite bytes_eqb_refl. discriminate.
  - destruct (bytes_eqb k0 k); [discriminate|auto].
Qed.

Lemma inv_init rep : inv (init rep).
Proof. constructor; simpl; auto; try discriminate; try congruence. Qed.

(* Lookup and Send touch nothing but the loop records *)
Lemma lookup_frame st i order : let st' := fst (lookup st i order) in
  hunt st' = hunt st /\ routers st' = routers st /\ defrouter st' = defrouter st /\ closed st' = closed st /\ repeat_ st' = repeat_ st.
Proof.
  unfold lookup. destruct (nth_error (loops st) i) as [l|]; [|(cbn [fst set_loops hunt routers defrouter closed repeat_]; repeat split; reflexivity)].
  destruct (negb (l_alive l)); [(cbn [fst set_loops hunt routers defrouter closed repeat_]; repeat split; reflexivity)|]. destruct (l_pending l); [|(cbn [fst set_loops hunt routers defrouter closed repeat_]; repeat split; reflexivity)].
  destruct (negb (al_has (hunt st) (a_mac (l_dst l))) || closed st); [(cbn [fst set_loops hunt routers defrouter closed repeat_]; repeat split; reflexivity)|].
  destruct (defrouter st) eqn:Ed; (cbn [fst set_loops hunt routers defrouter closed repeat_]; rewrite ?Ed; repeat split; reflexivity).
Qed.
Lemma send_frame c st i : let st' := fst (send c st i) in
  hunt st' = hunt st /\ routers st' = routers st /\ defrouter st' = defrouter st /\ closed st' = closed st /\ repeat_ st' = repeat_ st.
Proof.
  unfold send. destruct (nth_error (loops st) i) as [l|]; [|(cbn [fst set_loops hunt routers defrouter closed repeat_]; repeat split; reflexivity)].
  destruct (l_pending l); (cbn [fst set_loops hunt routers defrouter closed repeat_]; repeat split; reflexivity).
Qed.

Lemma pend_ok_routers st st' l : (forall k, rt_find (routers st) k <> None -> rt_find (routers st') k <> None) ->
  pend_ok st l -> pend_ok st' l.
Proof. unfold pend_ok. intros H Hp. eapply Forall_impl; [|exact Hp]. intros a Ha. apply H. exact Ha. Qed.

Lemma step_inv c st e : inv st -> inv (fst (step c st e)).
Proof.
  intros Hinv. pose proof Hinv as [Hl Hd Hr Hk Hp]. destruct e as [a|a| |i order|i|src eth p hk|q| ]; cbn [step].
  - unfold start_hunt.
    destruct (is4 (a_ip a)) eqn:E4; [exact Hinv|].
    destruct (is6 (a_ip a) && negb (is_llu (a_ip a))) eqn:E6; [exact Hinv|].
    destruct (al_has (hunt st) (a_mac a)); [exact Hinv|].
    constructor; cbn [fst loops routers defrouter]; auto.
    + apply Forall_app; split; [assumption|]. constructor; [|constructor]. unfold dst_ok; cbn [l_dst].
      destruct (ip_valid (a_ip a)) eqn:Ev; cbn [a_ip].
      * unfold ip_valid in Ev. rewrite E4 in Ev. cbn [orb] in Ev. rewrite Ev in E6. cbn [andb] in E6.
        apply negb_false_iff in E6. rewrite E6. reflexivity.
      * vm_compute. reflexivity.
    + apply Forall_app; split; [exact Hp|]. constructor; [|constructor]. unfold pend_ok. cbn [l_pending]. constructor.
  - unfold stop_hunt. destruct (ip_valid (a_ip a) && negb (is_llu (a_ip a))); [exact Hinv|].
    constructor; cbn [fst loops routers defrouter]; auto.
  - unfold close. destruct (closed st); [exact Hinv|]. constructor; cbn [fst loops routers defrouter]; auto.
  - unfold lookup. destruct (nth_error (loops st) i) as [l|] eqn:En; [|exact Hinv].
    destruct (negb (l_alive l)); [exact Hinv|]. destruct (l_pending l); [|exact Hinv].
    destruct (negb (al_has (hunt st) (a_mac (l_dst l))) || closed st).
    + constructor; cbn [fst set_loops loops routers defrouter]; auto.
      * apply kill_dst. assumption.
      * apply Forall_kill; [intros d; unfold pend_ok; cbn [l_pending]; constructor|exact Hp].
    + destruct (defrouter st) eqn:Ed; [|exact Hinv].
      constructor; cbn [fst set_loops loops routers defrouter];
        try exact (inv_def _ Hinv); try exact (inv_rt _ Hinv); auto.
      * apply set_pending_dst. assumption.
      * apply Forall_setp; [|exact Hp]. intros x _ _. unfold pend_ok. cbn [l_pending routers].
        apply Forall_forall. intros ip Hip. apply pick_in in Hip. apply in_map_iff in Hip as [[k r] [Hkr Hin]].
        rewrite Forall_forall in Hk. specialize (Hk _ Hin). cbn [fst snd] in *. subst ip. rewrite Hk.
        eapply rt_find_in; eauto.
  - unfold send. destruct (nth_error (loops st) i) as [l|] eqn:En; [|exact Hinv].
    destruct (l_pending l) as [|ip rest] eqn:Ep; [exact Hinv|].
    constructor; cbn [fst set_loops loops routers defrouter]; auto.
    + apply set_pending_dst. assumption.
    + assert (Hrest : Forall (fun ip => rt_find (routers st) ip <> None) rest).
      { rewrite Forall_forall in Hp. specialize (Hp l (nth_error_In _ _ En)). unfold pend_ok in Hp. rewrite Ep in Hp.
        inversion Hp; assumption. }
      apply Forall_setp; [|exact Hp]. intros x _ _. unfold pend_ok. cbn [l_pending routers]. exact Hrest.
  - unfold rx_ra. destruct (blen p <? 16); [exact Hinv|].
    destruct (negb (Z.rem (repeat_ st + 1) 4 =? 0)%Z); [constructor; cbn [fst loops routers defrouter]; auto|].
    destruct (negb hk); [constructor; cbn [fst loops routers defrouter]; auto|].
    destruct (ra_options p) as [o|e| |]; try (constructor; cbn [fst loops routers defrouter]; auto; fail).
    destruct (rt_find (routers st) src) as [r|] eqn:Ef; cbn [fst].
    + constructor; cbn [loops routers defrouter]; auto.
      * intros k Hk'. apply rt_find_set_other. auto.
      * intros _. apply Hr. intros E. rewrite E in Ef. discriminate.
      * assert (Hip : r_ip r = src) by (eapply rt_find_keys; eauto).
        rewrite <- Hip at 1. rewrite <- (router_update_ip r p o). apply rt_set_keys; auto.
      * eapply Forall_impl; [|exact Hp]. intros x Hx. eapply pend_ok_routers; [|exact Hx].
        cbn [routers]. intros k Hk'. apply rt_find_set_other. exact Hk'.
    + constructor; cbn [loops routers defrouter]; auto.
      * intros k Hk'. inversion Hk'; subst. rewrite rt_find_set. discriminate.
      * intros _. discriminate.
      * apply (rt_set_keys (routers st) (router_update (router_new (if (List.length (o_slla o) =? 6)%nat then o_slla o else eth) src) p o)); auto.
      * eapply Forall_impl; [|exact Hp]. intros x Hx. eapply pend_ok_routers; [|exact Hx].
        cbn [routers]. intros k Hk'. apply rt_find_set_other. exact Hk'.
  - exact Hinv.
  - constructor; cbn [fst loops routers defrouter]; auto.
Qed.

Lemma reach_inv c s0 st : inv s0 -> reach c s0 st -> inv st.
Proof. intros H0 Hr. induction Hr; auto. apply step_inv. assumption. Qed.

(* ---------------------------------------------------------------- *)
(* C14_confined, one step.  A frame leaves only in a Send step, for the head of the loop's list: *)

(* what holds of every emitted advertisement AT EMISSION *)
Definition forged_shape (c : config) (st : state) (n : na) : Prop :=
  defrouter st <> None /\
  (exists k r, rt_find (routers st) k = Some r /\ na_target n = k) /\
  na_ip_src n = na_target n /\ na_tlla n = host_mac c /\ na_eth_src n = host_mac c /\
  na_override n = true /\ na_solicited n = false /\ na_router n = false /\ na_hop n = 255.

(* what holds when the frame is DECIDED (Lookup, under the lock) *)
Definition decided_ok (st : state) (mac : bytes) : Prop :=
  al_has (hunt st) mac = true /\ closed st = false /\ defrouter st <> None.

Lemma step_sent c st e l : inv st -> snd (step c st e) = ONAs l ->
  exists i lp ip rest, e = Send i /\ nth_error (loops st) i = Some lp /\ l_pending lp = ip :: rest /\
    l = [forge c (l_dst lp) ip] /\ forged_shape c st (forge c (l_dst lp) ip).
Proof.
  intros Hinv Hs. destruct e as [a|a| |i order|i|src eth p hk|q| ]; cbn [step] in Hs.
  - unfold start_hunt in Hs. destruct (is4 _); [discriminate|]. destruct (is6 _ && _); [discriminate|].
    destruct (al_has _ _); discriminate.
  - unfold stop_hunt in Hs. destruct (_ && _); discriminate.
  - unfold close in Hs. destruct (closed st); discriminate.
  - unfold lookup in Hs. destruct (nth_error (loops st) i) as [lp|]; [|discriminate].
    destruct (negb (l_alive lp)); [discriminate|]. destruct (l_pending lp); [|discriminate].
    destruct (negb _ || closed st); [discriminate|]. destruct (defrouter st); discriminate.
  - unfold send in Hs. destruct (nth_error (loops st) i) as [lp|] eqn:En; [|discriminate].
    destruct (l_pending lp) as [|ip rest] eqn:Ep; [discriminate|]. cbn [snd] in Hs. inversion Hs; subst l.
    exists i, lp, ip, rest. repeat split; auto.
    + assert (Hr : routers st <> []).
      { pose proof (inv_pend _ Hinv) as Hp. rewrite Forall_forall in Hp. specialize (Hp lp (nth_error_In _ _ En)).
        unfold pend_ok in Hp. rewrite Ep in Hp. inversion Hp; subst. intros E. rewrite E in *. cbn in *. congruence. }
      apply (inv_rt _ Hinv Hr).
    + pose proof (inv_pend _ Hinv) as Hp. rewrite Forall_forall in Hp. specialize (Hp lp (nth_error_In _ _ En)).
      unfold pend_ok in Hp. rewrite Ep in Hp. inversion Hp as [|? ? Hip _]; subst.
      destruct (rt_find (routers st) ip) as [r|] eqn:Ef; [|congruence]. exists ip, r. split; [exact Ef|reflexivity].

  - unfold rx_ra in Hs.
    repeat match type of Hs with
    | snd (if ?b then _ else _) = _ => destruct b; simpl in Hs; try discriminate
    | snd (match ?x with _ => _ end) = _ => destruct x; simpl in Hs; try discriminate
    | snd (let '(_, _) := ?x in _) = _ => destruct x; simpl in Hs; try discriminate
    end.
  - discriminate Hs.
  - discriminate Hs.
Qed.

(* a Lookup puts frames on a loop's list only for a MAC that is hunted, while the handler is open
   and a router is known; and only Lookup ever adds to a list *)
Lemma lookup_decides st i order k : snd (lookup st i order) = OLook true (S k) ->
  exists lp, nth_error (loops st) i = Some lp /\ l_pending lp = [] /\ decided_ok st (a_mac (l_dst lp)).
Proof.
  unfold lookup. intros H. destruct (nth_error (loops st) i) as [lp|]; [|discriminate H].
  destruct (negb (l_alive lp)); [discriminate H|]. destruct (l_pending lp) eqn:Ep; [|discriminate H].
  destruct (negb (al_has (hunt st) (a_mac (l_dst lp))) || closed st) eqn:Eh; [discriminate H|].
  apply orb_false_iff in Eh as [Eh Ec]. apply negb_false_iff in Eh.
  destruct (defrouter st) eqn:Ed; [|discriminate H]. exists lp. repeat split; auto; congruence.
Qed.

(* over every history from the initial state *)
Theorem confined_run c rep evs st e l :
  In (st, e, ONAs l) (fst (run c (init rep) evs)) ->
  exists i lp ip rest, e = Send i /\ nth_error (loops st) i = Some lp /\ l_pending lp = ip :: rest /\
    l = [forge c (l_dst lp) ip] /\ forged_shape c st (forge c (l_dst lp) ip).
Proof.
  intros Hin.
  pose proof (run_entries c (init rep) evs (init rep) (reach0 _ _) _ Hin) as [Hr Hs].
  eapply step_sent; eauto. eapply reach_inv; eauto. apply inv_init.
Qed.

(* non-vacuity: a history in which a forged advertisement is emitted *)
Definition ex_mac : bytes := [2;0;0;0;0;1].
Definition ex_src : bytes := [254;128;0;0;0;0;0;0;0;0;0;0;0;1;0;17].
Definition ex_ra : bytes := [134;0;0;0;64;192;7;8;0;0;0;1;0;0;0;2;1;1;170;187;204;221;238;255].
Definition ex_cfg : config := mkCfg [0;85;85;85;85;85] [254;128;0;0;0;0;0;0;0;0;0;0;0;1;1;41].
Definition ex_hist : list event :=
  [StartHunt (mkAddr ex_mac []); Lookup 0 [0%nat]; RxRA ex_src [0;102;102;102;102;102] ex_ra true; Lookup 0 [0%nat]; Send 0].

Example confined_nonvacuous :
  exists st e n, In (st, e, ONAs [n]) (fst (run ex_cfg (init (-1)) ex_hist)) /\ na_eth_dst n = ex_mac.
Proof.
  eexists. eexists. eexists. split.
  - vm_compute. right. right. right. right. left. reflexivity.
  - reflexivity.
Qed.


(* ---------------------------------------------------------------- *)
(* C14_router_exact *)

Definition processed_ra (st : state) : Prop := Z.rem (repeat_ st + 1) 4 = 0%Z.

Definition learned_mac (d : ra_info) (eth : bytes) : bytes :=
  let m := last (sllas (ra_opts d)) [] in if (List.length m =? 6)%nat then m else eth.

Definition ra_result (st : state) (src eth p : bytes) (d : ra_info) : Prop :=
  let st' := fst (rx_ra st src eth p true) in
  snd (rx_ra st src eth p true) = ORA (Ok tt) /\
  exists r, rt_find (routers st') src = Some r /\
    hdr_exact r d /\ opts_exact r d /\
    routes_exact r d /\ rdnss_exact r d /\ dnssl_exact r d /\ legacy_exact r d /\
    (rt_find (routers st) src = None ->
       defrouter st' = Some src /\ r_ip r = src /\ r_mac r = learned_mac d eth) /\
    (forall r0, rt_find (routers st) src = Some r0 ->
       defrouter st' = defrouter st /\ r_ip r = r_ip r0 /\ r_mac r = r_mac r0).

Lemma update_exact r0 p d :
  bytes_ok p -> ra_decode p = Some d ->
  let r := router_update r0 p (fold_left apply1 (ra_opts d) opts_zero) in
  hdr_exact r d /\ opts_exact r d /\ routes_exact r d /\ rdnss_exact r d /\ dnssl_exact r d /\ legacy_exact r d.
Proof.
  intros Hok Hd.
  unfold ra_decode in Hd.
  destruct p as [|a0 [|a1 [|a2 [|a3 [|a4 [|a5 [|a6 [|a7 [|a8 [|a9 [|a10 [|a11 [|a12 [|a13 [|a14 [|a15 optb]]]]]]]]]]]]]]]];
    try discriminate.
  destruct (split_tlv _ _) as [tl|]; [|discriminate].
  destruct (decode_all tl) as [os|]; [|discriminate]. inversion Hd; subst d. clear Hd.
  do 16 (apply bytes_ok_cons' in Hok; destruct Hok as [? Hok]).
  cbv zeta. cbn [ra_opts] in *.
  split; [|split; [|split; [|split; [|split]]]].
  - unfold hdr_exact, router_update. cbn [r_managed r_other r_prf r_hop r_life r_reach r_retrans
      ra_managed ra_other ra_prf ra_hop ra_life ra_reach ra_retrans].
    unfold be32_at, be16_at, at_. cbn [nth Nat.add].
    rewrite bit7, bit6, prf_bits, !be32_w32 by assumption. unfold be16. repeat split; reflexivity.
  - unfold opts_exact, router_update. cbn [r_opts r_mtu r_prefixes ra_opts].
    rewrite fold_slla, fold_mtu, fold_prefixes. cbn [opts_zero o_slla o_mtu o_prefixes app]. repeat split; reflexivity.
  - unfold routes_exact, router_update. cbn [r_opts ra_opts]. rewrite fold_routes. reflexivity.
  - unfold rdnss_exact, router_update. cbn [r_opts ra_opts]. rewrite fold_rdnss_all. reflexivity.
  - unfold dnssl_exact, router_update. cbn [r_opts ra_opts]. rewrite fold_dnssl_all. reflexivity.
  - unfold legacy_exact, router_update. cbn [r_opts ra_opts]. rewrite fold_ri, fold_dnssl, fold_rdnss.
    cbn [opts_zero o_ri o_dnssl o_rdnss rd_life rd_servers app]. repeat split; reflexivity.
Qed.

Lemma ra_decode_len p d : ra_decode p = Some d -> (blen p <? 16) = false.
Proof.
  unfold ra_decode. intros H.
  destruct p as [|a0 [|a1 [|a2 [|a3 [|a4 [|a5 [|a6 [|a7 [|a8 [|a9 [|a10 [|a11 [|a12 [|a13 [|a14 [|a15 optb]]]]]]]]]]]]]]]];
    try discriminate.
  unfold blen. cbn [List.length]. lia.
Qed.

Theorem router_exact st src eth p d :
  bytes_ok p -> ra_decode p = Some d -> processed_ra st -> ra_result st src eth p d.
Proof.
  intros Hok Hd Hp. unfold ra_result, rx_ra.
  rewrite (ra_decode_len _ _ Hd). unfold processed_ra in Hp. rewrite Hp.
  change (negb (0 =? 0)%Z) with false. cbv iota. change (negb true) with false. cbv iota.
  rewrite (ra_options_exact _ _ Hok Hd).
  set (o := fold_left apply1 (ra_opts d) opts_zero).
  assert (Hslla : o_slla o = last (sllas (ra_opts d)) []) by (unfold o; rewrite fold_slla; reflexivity).
  destruct (update_exact (router_new (if (List.length (o_slla o) =? 6)%nat then o_slla o else eth) src) p d Hok Hd) as [H1 [H2 [H3 [H4 [H5 H6]]]]].
  destruct (rt_find (routers st) src) as [r0|] eqn:Ef; cbn [fst snd].
  - split; [reflexivity|]. exists (router_update r0 p o). cbn [routers defrouter]. rewrite rt_find_set.
    destruct (update_exact r0 p d Hok Hd) as [G1 [G2 [G3 [G4 [G5 G6]]]]].
    split; [reflexivity|]. split; [exact G1|]. split; [exact G2|]. split; [exact G3|]. split; [exact G4|].
    split; [exact G5|]. split; [exact G6|]. split; [discriminate|].
    intros r1 Hr1. inversion Hr1; subst. repeat split; reflexivity.
  - split; [reflexivity|]. eexists. cbn [routers defrouter]. rewrite rt_find_set.
    split; [reflexivity|]. split; [exact H1|]. split; [exact H2|]. split; [exact H3|]. split; [exact H4|].
    split; [exact H5|]. split; [exact H6|]. split; [|discriminate].
    intros _. split; [reflexivity|]. split; [reflexivity|].
    unfold learned_mac. rewrite <- Hslla. reflexivity.
Qed.

(* an advertisement that is not processed leaves the router table alone *)
Theorem router_skipped st src eth p hk :
  Z.rem (repeat_ st + 1) 4 <> 0%Z \/ hk = false ->
  routers (fst (rx_ra st src eth p hk)) = routers st /\ defrouter (fst (rx_ra st src eth p hk)) = defrouter st.
Proof.
  intros H. unfold rx_ra. destruct (blen p <? 16); [auto|].
  destruct (Z.eqb_spec (Z.rem (repeat_ st + 1) 4) 0) as [E|E]; cbn [negb]; [|auto].
  destruct H as [H | ->]; [congruence|]. cbn [negb]. auto.
Qed.

(* witnesses: the advertisements with two route / RDNSS / DNSSL options that used to be recorded only
   in part (findings ri-multiple, rdnss-multiple, dnssl-multiple, repaired) *)
Definition hexb (s : string) : bytes := match bytes_of_hex s with Some b => b | None => [] end.
Definition wit_ri : bytes := hexb "86000000400007080000000000000000180230080000025820010db80001000018023818000002bc20010db800020300".
Definition wit_rdnss : bytes := hexb "8600000040000708000000000000000019030000000002582001486048600000000000000000888819030000000004b020014860486000000000000000008844".
Definition wit_dnssl : bytes := hexb "860000004000070800000000000000001f03000000000258076578616d706c6503636f6d000000001f0300000000038404686f6d650461727061000000000000".

Definition learn1 (p : bytes) : option router :=
  rt_find (routers (fst (rx_ra (init 3) ex_src [0;102;102;102;102;102] p true))) ex_src.

Example multi_recorded :
  (exists r, learn1 wit_ri = Some r /\ List.length (o_routes (r_opts r)) = 2%nat) /\
  (exists r, learn1 wit_rdnss = Some r /\ List.length (o_rdnss_all (r_opts r)) = 2%nat) /\
  (exists r, learn1 wit_dnssl = Some r /\ List.length (o_dnssl_all (r_opts r)) = 2%nat).
Proof.
  repeat split.
  - destruct (learn1 wit_ri) as [r|] eqn:E; [|vm_compute in E; discriminate]. exists r. split; [reflexivity|].
    vm_compute in E. inversion E; subst r. reflexivity.
  - destruct (learn1 wit_rdnss) as [r|] eqn:E; [|vm_compute in E; discriminate]. exists r. split; [reflexivity|].
    vm_compute in E. inversion E; subst r. reflexivity.
  - destruct (learn1 wit_dnssl) as [r|] eqn:E; [|vm_compute in E; discriminate]. exists r. split; [reflexivity|].
    vm_compute in E. inversion E; subst r. reflexivity.
Qed.

(* non-vacuity of router_exact: an advertisement with one option of every kind is in its domain
   and outside every recorded class *)
Definition wit_all : bytes := hexb
  "8600000040c8070800000001000000020101aabbccddeeff05010000000005dc03043cc000015180000038400000000020010db8000100ff000000000000000018023c080000025820010db8000000f01903000000000258200148604860000000000000000088881f03000000000258076578616d706c6503636f6d000000000e01010203040506".

Example router_exact_nonvacuous : exists d,
  bytes_ok wit_all /\ ra_decode wit_all = Some d /\ processed_ra (init 3) /\
  List.length (ra_opts d) = 7%nat.
Proof.
  destruct (ra_decode wit_all) as [d|] eqn:E; [|vm_compute in E; discriminate].
  exists d. split; [apply bytes_okb_spec; vm_compute; reflexivity|]. split; [reflexivity|].
  split; [reflexivity|]. vm_compute in E. inversion E; subst d. reflexivity.
Qed.

(* ---------------------------------------------------------------- *)
(* C14_start_filters *)

Theorem start_rejects_ip4 c st a : is4 (a_ip a) = true ->
  step c st (StartHunt a) = (st, OStage NoChange (Some EInvalidIP)).
Proof. intros H. cbn [step]. unfold start_hunt. rewrite H. reflexivity. Qed.

Theorem start_ignores_non_lla c st a : is6 (a_ip a) = true -> is_llu (a_ip a) = false ->
  step c st (StartHunt a) = (st, OStage NoChange None).
Proof.
  intros H6 Hl. cbn [step]. unfold start_hunt.
  assert (H4 : is4 (a_ip a) = false).
  { unfold is4, is6 in *. apply Nat.eqb_eq in H6. rewrite H6. reflexivity. }
  rewrite H4, H6, Hl. reflexivity.
Qed.

Lemma al_index_app_has l a : al_has (l ++ [a]) (a_mac a) = true.
Proof.
  unfold al_has. induction l as [|x r IH]; cbn [app al_index].
  - rewrite bytes_eqb_refl. reflexivity.
  - destruct (bytes_eqb (a_mac x) (a_mac a)); [reflexivity|].
    destruct (al_index (r ++ [a]) (a_mac a)); [reflexivity|discriminate].
Qed.

Lemma al_has_add l a : al_has (al_add l a) (a_mac a) = true.
Proof. unfold al_add. destruct (al_has l (a_mac a)) eqn:E; [exact E|apply al_index_app_has]. Qed.

(* StartHunt of a MAC that is already hunted changes nothing and starts no loop;
   after any accepted StartHunt the MAC is hunted (so the next one is such a no-op) *)
Theorem start_idempotent c st a : al_has (hunt st) (a_mac a) = true ->
  is4 (a_ip a) = false -> (is6 (a_ip a) && negb (is_llu (a_ip a))) = false ->
  step c st (StartHunt a) = (st, OStage Hunt None).
Proof. intros H H4 H6. cbn [step]. unfold start_hunt. rewrite H4, H6, H. reflexivity. Qed.

Theorem start_then_hunted c st a : snd (step c st (StartHunt a)) = OStage Hunt None ->
  al_has (hunt (fst (step c st (StartHunt a)))) (a_mac a) = true.
Proof.
  cbn [step]. unfold start_hunt.
  destruct (is4 (a_ip a)); [discriminate|].
  destruct (is6 (a_ip a) && negb (is_llu (a_ip a))); [discriminate|].
  destruct (al_has (hunt st) (a_mac a)) eqn:E; intros _; cbn [fst hunt]; [exact E|apply al_has_add].
Qed.

(* an accepted StartHunt of a new MAC adds exactly that MAC and exactly one loop *)
Theorem start_new c st a : al_has (hunt st) (a_mac a) = false ->
  is4 (a_ip a) = false -> (is6 (a_ip a) && negb (is_llu (a_ip a))) = false ->
  let st' := fst (step c st (StartHunt a)) in
  hunt st' = hunt st ++ [a] /\ List.length (loops st') = S (List.length (loops st)).
Proof.
  intros H H4 H6. cbn [step]. unfold start_hunt, al_add. rewrite H4, H6, H. cbn [fst hunt loops].
  split; [reflexivity|]. rewrite app_length. cbn [List.length]. lia.
Qed.

Example start_filters_nonvacuous :
  is4 [192;168;0;10] = true /\
  (is6 (hexb "20010db8000000000000000000000001") = true /\ is_llu (hexb "20010db8000000000000000000000001") = false) /\
  (is4 (hexb "fe800000000000000000000000000001") = false /\
   (is6 (hexb "fe800000000000000000000000000001") && negb (is_llu (hexb "fe800000000000000000000000000001"))) = false).
Proof. vm_compute. auto. Qed.

(* ---------------------------------------------------------------- *)
(* C14_stop *)

Fixpoint uniq (l : list addr) : Prop :=
  match l with [] => True | a :: r => al_has r (a_mac a) = false /\ uniq r end.

Lemma al_has_cons a r mac : al_has (a :: r) mac = bytes_eqb (a_mac a) mac || al_has r mac.
Proof. unfold al_has. cbn [al_index]. destruct (bytes_eqb (a_mac a) mac); [reflexivity|].
  destruct (al_index r mac); reflexivity. Qed.

Lemma al_has_app l a mac : al_has (l ++ [a]) mac = al_has l mac || bytes_eqb (a_mac a) mac.
Proof.
  induction l as [|x r IH]; cbn [app].
  - rewrite al_has_cons. unfold al_has at 1 2. cbn [al_index]. rewrite orb_false_r. reflexivity.
  - rewrite !al_has_cons, IH. rewrite orb_assoc. reflexivity.
Qed.

Lemma bytes_eqb_sym a b : bytes_eqb a b = bytes_eqb b a.
Proof.
  destruct (bytes_eqb a b) eqn:E.
  - apply bytes_eqb_eq in E. subst. symmetry. apply bytes_eqb_refl.
  - destruct (bytes_eqb b a) eqn:E2; [|reflexivity]. apply bytes_eqb_eq in E2. subst.
    rewrite bytes_eqb_refl in E. discriminate.
Qed.

Lemma bytes_eqb_trans_false a b c : bytes_eqb a b = true -> bytes_eqb a c = bytes_eqb b c.
Proof. intros H. apply bytes_eqb_eq in H. subst. reflexivity. Qed.

Lemma al_has_del_other l m mac : al_has l mac = false -> al_has (al_del l m) mac = false.
Proof.
  induction l as [|a r IH]; intros H; [reflexivity|]. rewrite al_has_cons in H.
  apply orb_false_iff in H as [H1 H2]. cbn [al_del].
  destruct (bytes_eqb (a_mac a) m); [exact H2|]. rewrite al_has_cons, H1. cbn [orb]. apply IH. exact H2.
Qed.

Lemma al_del_removes l mac : uniq l -> al_has (al_del l mac) mac = false.
Proof.
  induction l as [|a r IH]; intros H; [reflexivity|]. destruct H as [Ha Hr]. cbn [al_del].
  destruct (bytes_eqb (a_mac a) mac) eqn:E.
  - apply bytes_eqb_eq in E. subst mac. exact Ha.
  - rewrite al_has_cons, E. cbn [orb]. apply IH. exact Hr.
Qed.

Lemma uniq_del l m : uniq l -> uniq (al_del l m).
Proof.
  induction l as [|a r IH]; intros H; [exact I|]. destruct H as [Ha Hr]. cbn [al_del].
  destruct (bytes_eqb (a_mac a) m); [exact Hr|]. split; [|apply IH; exact Hr].
  apply al_has_del_other. exact Ha.
Qed.

Lemma uniq_app l a : uniq l -> al_has l (a_mac a) = false -> uniq (l ++ [a]).
Proof.
  induction l as [|x r IH]; intros H Hn; cbn [app].
  - split; [reflexivity|exact I].
  - destruct H as [Hx Hr]. rewrite al_has_cons in Hn. apply orb_false_iff in Hn as [Hn1 Hn2].
    split; [|apply IH; assumption]. rewrite al_has_app, Hx. cbn [orb].
    rewrite bytes_eqb_sym. exact Hn1.
Qed.

Lemma step_uniq c st e : uniq (hunt st) -> uniq (hunt (fst (step c st e))).
Proof.
  intros H. destruct e as [a|a| |i order|i|src eth p hk|q| ]; cbn [step].
  - unfold start_hunt. destruct (is4 (a_ip a)); [exact H|].
    destruct (is6 (a_ip a) && negb (is_llu (a_ip a))); [exact H|].
    destruct (al_has (hunt st) (a_mac a)) eqn:E; [exact H|]. cbn [fst hunt]. unfold al_add. rewrite E.
    apply uniq_app; assumption.
  - unfold stop_hunt. destruct (ip_valid (a_ip a) && negb (is_llu (a_ip a))); [exact H|].
    cbn [fst hunt]. apply uniq_del. exact H.
  - unfold close. destruct (closed st); exact H.
  - destruct (lookup_frame st i order) as [Fh [Fr [Fd [Fc Fp]]]]. rewrite ?Fh, ?Fr, ?Fd, ?Fc. exact H.
  - destruct (send_frame c st i) as [Fh [Fr [Fd [Fc Fp]]]]. rewrite ?Fh, ?Fr, ?Fd, ?Fc. exact H.
  - unfold rx_ra. destruct (blen p <? 16); [exact H|].
    destruct (negb (Z.rem (repeat_ st + 1) 4 =? 0)%Z); [exact H|].
    destruct (negb hk); [exact H|].
    destruct (ra_options p); try exact H.
    destruct (rt_find (routers st) src); exact H.
  - exact H.
  - exact H.
Qed.

Lemma reach_uniq c s0 st : uniq (hunt s0) -> reach c s0 st -> uniq (hunt st).
Proof. intros H0 Hr. induction Hr; auto. apply step_uniq. assumption. Qed.

Definition stop_effective (a : addr) : Prop := ip_valid (a_ip a) = false \/ is_llu (a_ip a) = true.

(* right after an effective StopHunt the MAC is not hunted *)
Lemma stop_unhunts c st a : uniq (hunt st) -> stop_effective a ->
  step c st (StopHunt a) = (fst (step c st (StopHunt a)), OStage Normal None) /\
  al_has (hunt (fst (step c st (StopHunt a)))) (a_mac a) = false.
Proof.
  intros Hu He. cbn [step]. unfold stop_hunt.
  assert (Hc : (ip_valid (a_ip a) && negb (is_llu (a_ip a))) = false).
  { destruct He as [-> | ->]; [reflexivity|]. cbn [negb]. apply andb_false_r. }
  rewrite Hc. cbn [fst hunt]. split; [reflexivity|]. apply al_del_removes. exact Hu.
Qed.

(* not hunted stays not hunted along any history without a StartHunt of that MAC *)
Definition no_start (mac : bytes) (evs : list event) : Prop :=
  forall a, In (StartHunt a) evs -> bytes_eqb (a_mac a) mac = false.

Lemma step_keeps_unhunted c st e mac :
  al_has (hunt st) mac = false -> (forall a, e = StartHunt a -> bytes_eqb (a_mac a) mac = false) ->
  al_has (hunt (fst (step c st e))) mac = false.
Proof.
  intros H Hs. destruct e as [a|a| |i order|i|src eth p hk|q| ]; cbn [step].
  - unfold start_hunt. destruct (is4 (a_ip a)); [exact H|].
    destruct (is6 (a_ip a) && negb (is_llu (a_ip a))); [exact H|].
    destruct (al_has (hunt st) (a_mac a)) eqn:E; [exact H|]. cbn [fst hunt]. unfold al_add. rewrite E.
    rewrite al_has_app, H. cbn [orb]. apply Hs. reflexivity.
  - unfold stop_hunt. destruct (ip_valid (a_ip a) && negb (is_llu (a_ip a))); [exact H|].
    cbn [fst hunt]. apply al_has_del_other. exact H.
  - unfold close. destruct (closed st); exact H.
  - destruct (lookup_frame st i order) as [Fh [Fr [Fd [Fc Fp]]]]. rewrite ?Fh, ?Fr, ?Fd, ?Fc. exact H.
  - destruct (send_frame c st i) as [Fh [Fr [Fd [Fc Fp]]]]. rewrite ?Fh, ?Fr, ?Fd, ?Fc. exact H.
  - unfold rx_ra. destruct (blen p <? 16); [exact H|].
    destruct (negb (Z.rem (repeat_ st + 1) 4 =? 0)%Z); [exact H|].
    destruct (negb hk); [exact H|].
    destruct (ra_options p); try exact H.
    destruct (rt_find (routers st) src); exact H.
  - exact H.
  - exact H.
Qed.

(* C14_stop, Close part: once closed, no loop pass emits anything, whatever happens afterwards *)
Lemma step_closed c st e : closed st = true -> closed (fst (step c st e)) = true.
Proof.
  intros H. destruct e as [a|a| |i order|i|src eth p hk|q| ]; cbn [step].
  - unfold start_hunt. destruct (is4 (a_ip a)); [exact H|].
    destruct (is6 (a_ip a) && negb (is_llu (a_ip a))); [exact H|].
    destruct (al_has (hunt st) (a_mac a)); exact H.
  - unfold stop_hunt. destruct (ip_valid (a_ip a) && negb (is_llu (a_ip a))); exact H.
  - unfold close. rewrite H. exact H.
  - destruct (lookup_frame st i order) as [Fh [Fr [Fd [Fc Fp]]]]. rewrite ?Fh, ?Fr, ?Fd, ?Fc. exact H.
  - destruct (send_frame c st i) as [Fh [Fr [Fd [Fc Fp]]]]. rewrite ?Fh, ?Fr, ?Fd, ?Fc. exact H.
  - unfold rx_ra. destruct (blen p <? 16); [exact H|].
    destruct (negb (Z.rem (repeat_ st + 1) 4 =? 0)%Z); [exact H|].
    destruct (negb hk); [exact H|].
    destruct (ra_options p); try exact H.
    destruct (rt_find (routers st) src); exact H.
  - exact H.
  - exact H.
Qed.

(* ---------------------------------------------------------------- *)
(* C14_router_persistent: a table entry is retained state.  In the model every field of a router
   record is a value (an owned copy of the bytes it was decoded from); nothing refers to the packet
   buffer.  Hence no later event other than a processed RA from the same source can change it: *)

Lemma rt_find_set_ne l ip r k : bytes_eqb ip k = false -> rt_find (rt_set l ip r) k = rt_find l k.
Proof.
  intros H. induction l as [|[k0 r0] t IH]; cbn [rt_set rt_find].
  - rewrite H. reflexivity.
  - destruct (bytes_eqb k0 ip) eqn:E; cbn [rt_find].
    + apply bytes_eqb_eq in E. subst k0. rewrite H. reflexivity.
    + rewrite IH. reflexivity.
Qed.

Definition not_ra_from (k : bytes) (e : event) : Prop :=
  match e with RxRA s _ _ _ => bytes_eqb s k = false | _ => True end.

Lemma step_keeps_router c st e k : not_ra_from k e ->
  rt_find (routers (fst (step c st e))) k = rt_find (routers st) k.
Proof.
  intros H. destruct e as [a|a| |i order|i|src eth p hk|q| ]; cbn [step].
  - unfold start_hunt. destruct (is4 (a_ip a)); [reflexivity|].
    destruct (is6 (a_ip a) && negb (is_llu (a_ip a))); [reflexivity|].
    destruct (al_has (hunt st) (a_mac a)); reflexivity.
  - unfold stop_hunt. destruct (ip_valid (a_ip a) && negb (is_llu (a_ip a))); reflexivity.
  - unfold close. destruct (closed st); reflexivity.
  - destruct (lookup_frame st i order) as [Fh [Fr [Fd [Fc Fp]]]]. rewrite Fr. reflexivity.
  - destruct (send_frame c st i) as [Fh [Fr [Fd [Fc Fp]]]]. rewrite Fr. reflexivity.
  - cbn [not_ra_from] in H. unfold rx_ra. destruct (blen p <? 16); [reflexivity|].
    destruct (negb (Z.rem (repeat_ st + 1) 4 =? 0)%Z); [reflexivity|].
    destruct (negb hk); [reflexivity|].
    destruct (ra_options p); try reflexivity.
    destruct (rt_find (routers st) src); cbn [fst routers]; apply rt_find_set_ne; exact H.
  - reflexivity.
  - reflexivity.
Qed.

Lemma run_keeps_router c k : forall evs st, Forall (not_ra_from k) evs ->
  rt_find (routers (snd (run c st evs))) k = rt_find (routers st) k.
Proof.
  induction evs as [|e r IH]; intros st H; [reflexivity|]. inversion H as [|? ? He Hr]; subst.
  cbn [run]. destruct (step c st e) as [st' o] eqn:Hs. destruct (run c st' r) as [tr fin] eqn:Hrun.
  cbn [snd]. replace fin with (snd (run c st' r)) by (rewrite Hrun; reflexivity). rewrite IH by exact Hr.
  replace st' with (fst (step c st e)) by (rewrite Hs; reflexivity). apply step_keeps_router. exact He.
Qed.

(* what "learned exactly" means for one entry, as one predicate *)
Definition entry_exact (r : router) (d : ra_info) : Prop :=
  hdr_exact r d /\ opts_exact r d /\ routes_exact r d /\ rdnss_exact r d /\ dnssl_exact r d /\ legacy_exact r d.

(* after ANY history evs1, a processed RA p from src, then ANY later history evs2 without another RA
   from src (StartHunt/StopHunt/Close, loop passes, RAs of other routers, any other ICMPv6 message):
   the entry of src still records exactly the decoding of p *)
Theorem router_persistent c rep evs1 src eth p d evs2 :
  bytes_ok p -> ra_decode p = Some d ->
  let st := snd (run c (init rep) evs1) in
  processed_ra st -> Forall (not_ra_from src) evs2 ->
  let fin := snd (run c (fst (step c st (RxRA src eth p true))) evs2) in
  exists r, rt_find (routers fin) src = Some r /\ entry_exact r d.
Proof.
  intros Hok Hd st Hp H2 fin.
  destruct (router_exact st src eth p d Hok Hd Hp) as [_ [r [Hf [H1 [H3 [H4 [H5 [H6 [H7 _]]]]]]]]].
  exists r. split; [|split; [exact H1|split; [exact H3|split; [exact H4|split; [exact H5|split; [exact H6|exact H7]]]]]].
  unfold fin. rewrite run_keeps_router by exact H2. exact Hf.
Qed.

Example router_persistent_nonvacuous :
  Forall (not_ra_from ex_src)
    [StartHunt (mkAddr ex_mac []); Lookup 0 [0%nat]; Send 0; RxRA [254;128;0;0;0;0;0;0;0;0;0;0;0;1;0;18] [0;119;119;119;119;119] wit_rdnss true;
     RxOther [128;0;0;0]; StopHunt (mkAddr ex_mac []); Close].
Proof. repeat constructor. Qed.

(* ---------------------------------------------------------------- *)
(* non-vacuity of the lenient-decoder theorem (Proofs/Icmp6SpoofRA.v ra_options_lenient):
   wit_mal carries a malformed MTU (length 2), a route option with the reserved preference and an
   RDNSS option of length 2 between a source LLA and a prefix: the three are skipped;
   wit_rej carries a source LLA option of length 2: the advertisement is rejected *)
Definition wit_mal : bytes := hexb "860000004000070800000000000000000101aabbccddeeff0502000000000000000000000000000018023010000002bc000000000000000019020000000000090000000000000000030440c000015180000038400000000020010db8000100020000000000000000".
Definition wit_rej : bytes := hexb "86000000400007080000000000000000030440c000015180000038400000000020010db800010002000000000000000001020000000000000000000000000000".

Example lenient_nonvacuous :
  (exists tl d, split_tlv (List.length (skipn 16 wit_mal)) (skipn 16 wit_mal) = Some tl /\ dnssl_wf tl /\
     ra_decode wit_mal = None /\ ra_decode_lenient wit_mal = Some d /\ List.length (ra_opts d) = 2%nat /\
     ra_options wit_mal = Ok (fold_left apply1 (ra_opts d) opts_zero)) /\
  (exists tl, split_tlv (List.length (skipn 16 wit_rej)) (skipn 16 wit_rej) = Some tl /\ dnssl_wf tl /\
     ra_decode_lenient wit_rej = None /\ ra_options wit_rej = Err EOther).
Proof.
  split.
  - destruct (split_tlv (List.length (skipn 16 wit_mal)) (skipn 16 wit_mal)) as [tl|] eqn:E; [|vm_compute in E; discriminate].
    destruct (ra_decode_lenient wit_mal) as [d|] eqn:El; [|vm_compute in El; discriminate].
    exists tl, d. split; [reflexivity|]. vm_compute in E. inversion E; subst tl. clear E.
    split; [repeat constructor; intros; discriminate|]. split; [vm_compute; reflexivity|]. split; [reflexivity|].
    vm_compute in El. inversion El; subst d. split; [reflexivity|]. vm_compute. reflexivity.
  - destruct (split_tlv (List.length (skipn 16 wit_rej)) (skipn 16 wit_rej)) as [tl|] eqn:E; [|vm_compute in E; discriminate].
    exists tl. split; [reflexivity|]. vm_compute in E. inversion E; subst tl. clear E.
    split; [repeat constructor; intros; discriminate|]. split; vm_compute; reflexivity.
Qed.
