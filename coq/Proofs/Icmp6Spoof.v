(* Proofs/Icmp6Spoof.v — proofs about the icmp_spoofer event system (C14). *)
From PV Require Import Base.Prelude Model.Icmp6SpoofRA Model.Icmp6Spoof.
Open Scope N_scope.

(* ---------------------------------------------------------------- *)
(* traces *)

Lemma run_app c st e1 e2 :
  run c st (e1 ++ e2) =
  let '(t1, s1) := run c st e1 in let '(t2, s2) := run c s1 e2 in (t1 ++ t2, s2).
Proof.
  revert st. induction e1 as [|e r IH]; intros st; simpl.
  - destruct (run c st e2); reflexivity.
  - destruct (step c st e) as [st' o]. rewrite IH.
    destruct (run c st' r) as [t1 s1]. destruct (run c s1 e2) as [t2 s2]. reflexivity.
Qed.

(* every trace entry is a step of the model; states reachable along the run *)
Inductive reach (c : config) (s0 : state) : state -> Prop :=
| reach0 : reach c s0 s0
| reachS st e : reach c s0 st -> reach c s0 (fst (step c st e)).

Lemma run_entries c s0 : forall evs st, reach c s0 st ->
  forall x, In x (fst (run c st evs)) ->
    let '(s, e, o) := x in reach c s0 s /\ snd (step c s e) = o.
Proof.
  induction evs as [|e r IH]; intros st Hr x Hin; simpl in *; [contradiction|].
  destruct (step c st e) as [st' o] eqn:Hs.
  destruct (run c st' r) as [tr fin] eqn:Hrun. simpl in Hin.
  destruct Hin as [<-|Hin].
  - split; [exact Hr|]. rewrite Hs. reflexivity.
  - apply (IH st'); [|rewrite Hrun; exact Hin].
    replace st' with (fst (step c st e)) by (rewrite Hs; reflexivity). constructor. exact Hr.
Qed.

Lemma run_final_reach c s0 : forall evs st, reach c s0 st -> reach c s0 (snd (run c st evs)).
Proof.
  induction evs as [|e r IH]; intros st Hr; simpl; [exact Hr|].
  destruct (step c st e) as [st' o] eqn:Hs. destruct (run c st' r) as [tr fin] eqn:Hrun.
  simpl. replace fin with (snd (run c st' r)) by (rewrite Hrun; reflexivity).
  apply IH. replace st' with (fst (step c st e)) by (rewrite Hs; reflexivity). constructor. exact Hr.
Qed.

(* ---------------------------------------------------------------- *)
(* invariants *)

Definition dst_ok (a : addr) : Prop := is_llu (a_ip a) || is_llm (a_ip a) = true.

Record inv (st : state) : Prop := {
  inv_loops : Forall (fun l => dst_ok (l_dst l)) (loops st);
  inv_def : forall k, defrouter st = Some k -> rt_find (routers st) k <> None;
  inv_rt : routers st <> [] -> defrouter st <> None;
  inv_keys : Forall (fun kr => r_ip (snd kr) = fst kr) (routers st)
}.

Lemma kill_dst l i : Forall (fun l => dst_ok (l_dst l)) l -> Forall (fun l => dst_ok (l_dst l)) (kill l i).
Proof.
  revert i; induction l as [|x r IH]; intros i H; simpl; [destruct i; constructor|].
  inversion H; subst. destruct i; constructor; auto.
Qed.

Lemma all_nodes_llm : is_llm all_nodes = true.
Proof. vm_compute. reflexivity. Qed.

Lemma bytes_eqb_refl a : bytes_eqb a a = true.
Proof. induction a; simpl; auto. rewrite N.eqb_refl. exact IHa. Qed.

Lemma bytes_eqb_eq a b : bytes_eqb a b = true <-> a = b.
Proof.
  split; [|intros ->; apply bytes_eqb_refl].
  revert b; induction a as [|x a IH]; intros [|y b] H; simpl in H; try discriminate; auto.
  apply andb_true_iff in H as [H1 H2]. apply N.eqb_eq in H1. f_equal; auto.
Qed.

Lemma rt_find_set l ip r : rt_find (rt_set l ip r) ip = Some r.
Proof.
  induction l as [|[k r0] t IH]; simpl.
  - rewrite bytes_eqb_refl. reflexivity.
  - destruct (bytes_eqb k ip) eqn:E; simpl; rewrite E; auto.
Qed.

Lemma rt_find_set_other l ip r k : rt_find l k <> None -> rt_find (rt_set l ip r) k <> None.
Proof.
  induction l as [|[k0 r0] t IH]; simpl; intros H; [congruence|].
  destruct (bytes_eqb k0 ip) eqn:E; simpl.
  - destruct (bytes_eqb k0 k); [discriminate|exact H].
  - destruct (bytes_eqb k0 k); [discriminate|]. apply IH. exact H.
Qed.

Lemma rt_set_keys l r :
  Forall (fun kr => r_ip (snd kr) = fst kr) l -> Forall (fun kr => r_ip (snd kr) = fst kr) (rt_set l (r_ip r) r).
Proof.
  induction l as [|[k r0] t IH]; intros H; simpl.
  - constructor; auto.
  - inversion H as [|x y H1 H2]; subst x y. destruct (bytes_eqb k (r_ip r)) eqn:E.
    + constructor; auto. simpl. apply bytes_eqb_eq in E. congruence.
    + constructor; auto.
Qed.

Lemma rt_find_keys l k r : Forall (fun kr => r_ip (snd kr) = fst kr) l -> rt_find l k = Some r -> r_ip r = k.
Proof.
  induction l as [|[k0 r0] t IH]; simpl; intros H Hf; [discriminate|].
  inversion H; subst. destruct (bytes_eqb k0 k) eqn:E.
  - apply bytes_eqb_eq in E. inversion Hf; subst. assumption.
  - auto.
Qed.

Lemma rt_set_nonempty l ip r : rt_set l ip r <> [].
Proof. destruct l as [|[k r0] t]; simpl; [discriminate|]. destruct (bytes_eqb k ip); discriminate. Qed.

Lemma router_update_ip r p o : r_ip (router_update r p o) = r_ip r.
Proof. reflexivity. Qed.

Lemma inv_init rep : inv (init rep).
Proof. constructor; simpl; auto; try discriminate; try congruence. Qed.

Lemma step_inv c st e : inv st -> inv (fst (step c st e)).
Proof.
  intros Hinv. pose proof Hinv as [Hl Hd Hr Hk]. destruct e as [a|a| |i|src eth p hk]; simpl.
  - unfold start_hunt.
    destruct (is4 (a_ip a)) eqn:E4; [(simpl; first [exact Hinv | constructor; assumption])|].
    destruct (is6 (a_ip a) && negb (is_llu (a_ip a))) eqn:E6; [(simpl; first [exact Hinv | constructor; assumption])|].
    destruct (al_has (hunt st) (a_mac a)); [(simpl; first [exact Hinv | constructor; assumption])|].
    constructor; simpl; auto.
    apply Forall_app; split; [assumption|]. constructor; [|constructor]. unfold dst_ok; simpl.
    destruct (ip_valid (a_ip a)) eqn:Ev; simpl.
    + unfold ip_valid in Ev. rewrite E4 in Ev. simpl in Ev. rewrite Ev in E6. simpl in E6.
      apply negb_false_iff in E6. rewrite E6. reflexivity.
    + vm_compute. reflexivity.
  - unfold stop_hunt. destruct (ip_valid (a_ip a) && negb (is_llu (a_ip a))); (simpl; first [exact Hinv | constructor; assumption]).
  - unfold close. destruct (closed st); (simpl; first [exact Hinv | constructor; assumption]).
  - unfold wake. destruct (nth_error (loops st) i) as [l|]; [|(simpl; first [exact Hinv | constructor; assumption])].
    destruct (negb (l_alive l)); [(simpl; first [exact Hinv | constructor; assumption])|].
    destruct (negb (al_has (hunt st) (a_mac (l_dst l))) || closed st).
    + constructor; simpl; auto. apply kill_dst. assumption.
    + destruct (defrouter st); (simpl; first [exact Hinv | constructor; assumption]).
  - unfold rx_ra. destruct (blen p <? 16); [(simpl; first [exact Hinv | constructor; assumption])|].
    destruct (negb (Z.rem (repeat_ st + 1) 4 =? 0)%Z); [(simpl; first [exact Hinv | constructor; assumption])|].
    destruct (negb hk); [(simpl; first [exact Hinv | constructor; assumption])|].
    destruct (ra_options p) as [o|e| |]; try ((simpl; first [exact Hinv | constructor; assumption])).
    destruct (rt_find (routers st) src) as [r|] eqn:Ef; simpl.
    + constructor; simpl; auto.
      * intros k Hk'. apply rt_find_set_other. auto.
      * intros _. apply Hr. intros E. rewrite E in Ef. discriminate.
      * assert (Hip : r_ip r = src) by (eapply rt_find_keys; eauto).
        rewrite <- Hip at 1. rewrite <- (router_update_ip r p o). apply rt_set_keys; auto.
    + constructor; simpl; auto.
      * intros k Hk'. inversion Hk'; subst. rewrite rt_find_set. discriminate.
      * intros _. discriminate.
      * apply (rt_set_keys (routers st) (router_update (router_new (if (List.length (o_slla o) =? 6)%nat then o_slla o else eth) src) p o)); auto.
Qed.

Lemma reach_inv c s0 st : inv s0 -> reach c s0 st -> inv st.
Proof. intros H0 Hr. induction Hr; auto. apply step_inv. assumption. Qed.

(* ---------------------------------------------------------------- *)
(* C14_confined at the level of one step *)

Definition forged_ok (c : config) (st : state) (n : na) : Prop :=
  al_has (hunt st) (na_eth_dst n) = true /\
  closed st = false /\
  defrouter st <> None /\
  (exists k r, rt_find (routers st) k = Some r /\ na_target n = k) /\
  na_ip_src n = na_target n /\ na_tlla n = host_mac c /\ na_eth_src n = host_mac c /\
  na_override n = true /\ na_solicited n = false /\ na_hop n = 255.

Lemma rt_find_in l k r : In (k, r) l -> rt_find l k <> None.
Proof.
  induction l as [|[k0 r0] t IH]; simpl; intros H; [contradiction|].
  destruct H as [H|H].
  - inversion H; subst. rewrite bytes_eqb_refl. discriminate.
  - destruct (bytes_eqb k0 k); [discriminate|auto].
Qed.

Lemma step_confined c st e l :
  inv st -> snd (step c st e) = ONAs l -> forall n, In n l -> forged_ok c st n.
Proof.
  intros Hinv Hs n Hn. destruct e as [a|a| |i|src eth p hk]; simpl in Hs.
  - unfold start_hunt in Hs. repeat (destruct (_ : bool) in Hs; simpl in Hs; try discriminate).
  - unfold stop_hunt in Hs. destruct (_ : bool) in Hs; discriminate.
  - unfold close in Hs. destruct (closed st); discriminate.
  - unfold wake in Hs. destruct (nth_error (loops st) i) as [lp|] eqn:En; [|discriminate].
    destruct (negb (l_alive lp)); [discriminate|].
    destruct (negb (al_has (hunt st) (a_mac (l_dst lp))) || closed st) eqn:Eh.
    + simpl in Hs. inversion Hs; subst. contradiction.
    + apply orb_false_iff in Eh as [Eh Ec]. apply negb_false_iff in Eh.
      destruct (defrouter st) as [k|] eqn:Ed; simpl in Hs; inversion Hs; subst; [|contradiction].
      apply in_map_iff in Hn as [[k0 r0] [<- Hin]]. simpl.
      assert (Hdst : dst_ok (l_dst lp)).
      { pose proof (inv_loops _ Hinv) as Hl. rewrite Forall_forall in Hl. apply Hl.
        eapply nth_error_In; eauto. }
      pose proof (inv_keys _ Hinv) as Hk. rewrite Forall_forall in Hk.
      specialize (Hk _ Hin). simpl in Hk.
      unfold forged_ok, forge; simpl. repeat split; auto; try congruence.
      * destruct (rt_find (routers st) k0) as [r1|] eqn:Ef.
        -- exists k0, r1. split; auto.
        -- exfalso. eapply rt_find_in; eauto.
      * unfold dst_ok in Hdst. rewrite Hdst. reflexivity.
  - unfold rx_ra in Hs.
    repeat match type of Hs with
    | snd (if ?b then _ else _) = _ => destruct b; simpl in Hs; try discriminate
    | snd (match ?x with _ => _ end) = _ => destruct x; simpl in Hs; try discriminate
    | snd (let '(_, _) := ?x in _) = _ => destruct x; simpl in Hs; try discriminate
    end.
Qed.

(* over every history from the initial state *)
Theorem confined_run c rep evs st e l :
  In (st, e, ONAs l) (fst (run c (init rep) evs)) -> forall n, In n l -> forged_ok c st n.
Proof.
  intros Hin n Hn.
  pose proof (run_entries c (init rep) evs (init rep) (reach0 _ _) _ Hin) as [Hr Hs].
  eapply step_confined; eauto. eapply reach_inv; eauto. apply inv_init.
Qed.

(* non-vacuity: a history in which a forged advertisement is emitted *)
Definition ex_mac : bytes := [2;0;0;0;0;1].
Definition ex_src : bytes := [254;128;0;0;0;0;0;0;0;0;0;0;0;1;0;17].
Definition ex_ra : bytes := [134;0;0;0;64;192;7;8;0;0;0;1;0;0;0;2;1;1;170;187;204;221;238;255].
Definition ex_cfg : config := mkCfg [0;85;85;85;85;85] [254;128;0;0;0;0;0;0;0;0;0;0;0;1;1;41].
Definition ex_hist : list event :=
  [StartHunt (mkAddr ex_mac []); Wake 0; RxRA ex_src [0;102;102;102;102;102] ex_ra true; Wake 0].

Example confined_nonvacuous :
  exists st e n, In (st, e, ONAs [n]) (fst (run ex_cfg (init (-1)) ex_hist)) /\ na_eth_dst n = ex_mac.
Proof.
  eexists. eexists. eexists. split.
  - vm_compute. right. right. right. left. reflexivity.
  - reflexivity.
Qed.
