(* Proofs/LeaseGlueStep.v — C18 glue, part 1: a structural fact about ONE step of the DHCP cluster's model
   (Model/DHCP.v, imported read-only): which leases of the table after a step can be in state Allocated.
   Every lease after a step is either [kept] (it continues a lease of the table before; if it is Allocated it was
   Allocated before with the same client id, MAC, address and subnet) or [made] by the message of the step (its
   client id is getcid of the message; it is Allocated only if the reply of the step is an ACK, and then it has an
   address).  Consequences used by Proofs/LeaseGlue.v: client ids of the table are client ids of messages;
   Allocated leases have addresses; a step that does not ACK creates no new Allocated binding. *)
From PV Require Import Base.Prelude Model.DHCP Spec.DHCP Spec.DHCPCheck Proofs.DHCP Proofs.DHCPInv.
Open Scope list_scope.
Open Scope N_scope.

(* what the lease file stores of an acknowledged lease: client id, MAC, address, (subnet,) expiry *)
Definition same_binding (l0 l : lease) : Prop :=
  l_cid l0 = l_cid l /\ l_mac l0 = l_mac l /\ l_ip l0 = l_ip l /\ l_net2 l0 = l_net2 l /\ l_exp l0 = l_exp l.

Definition is_ack_reply (rp : option reply) : bool :=
  match rp with Some r => is_ack r | None => false end.

Definition kept (t : list lease) (l : lease) : Prop :=
  exists l0, In l0 t /\ l_cid l0 = l_cid l
             /\ (l_state l = SAllocated -> l_state l0 = SAllocated /\ same_binding l0 l).

Definition made (k : cid) (acked : bool) (l : lease) : Prop :=
  l_cid l = k /\ (l_state l = SAllocated -> acked = true /\ l_ip l <> None).

Definition shaped (t : list lease) (k : cid) (acked : bool) (t' : list lease) : Prop :=
  forall l, In l t' -> kept t l \/ made k acked l.

Lemma kept_refl t l : In l t -> kept t l.
Proof. intros H. exists l. repeat split; auto. Qed.

Lemma shaped_refl t k a : shaped t k a t.
Proof. intros l H. left. apply kept_refl. exact H. Qed.

Lemma shaped_tset t k a t' l' :
  shaped t k a t' -> (kept t l' \/ made k a l') -> shaped t k a (tset l' t').
Proof.
  intros H Hl l Hin. apply in_tset in Hin. destruct Hin as [->|[Hin _]]; auto.
Qed.

Lemma shaped_tdel t k a t' x : shaped t k a t' -> shaped t k a (tdel x t').
Proof. intros H l Hin. apply in_tdel in Hin. destruct Hin as [Hin _]. auto. Qed.

(* a lease obtained from a kept/made one by changes that keep the client id and do not make it Allocated *)
Lemma kept_made_nonalloc t k a l l' :
  (kept t l \/ made k a l) -> l_cid l' = l_cid l -> l_state l' <> SAllocated -> kept t l' \/ made k a l'.
Proof.
  intros [[l0 [H0 [Hc _]]]|[Hc _]] Ec Hs.
  - left. exists l0. repeat split; try congruence; contradiction.
  - right. split; [congruence|]. intros; contradiction.
Qed.

(* ... or that keep state, client id, MAC, address and subnet *)
Lemma kept_made_same t k a l l' :
  (kept t l \/ made k a l) -> l_state l' = l_state l -> same_binding l l' -> kept t l' \/ made k a l'.
Proof.
  intros [[l0 [H0 [Hc Ha]]]|[Hc Ha]] Es [E1 [E2 [E3 [E4 E5]]]].
  - left. exists l0. split; auto. split; [congruence|]. intros Hs. rewrite Es in Hs. destruct (Ha Hs) as [S0 [B1 [B2 [B3 [B4 B5]]]]].
    split; auto. repeat split; congruence.
  - right. split; [congruence|]. intros Hs. rewrite Es in Hs. destruct (Ha Hs) as [A1 A2]. split; auto. congruence.
Qed.

(* findOrCreate *)
Lemma foc_shaped c s k mc s1 l a :
  findOrCreate c s k mc = (s1, l) ->
  shaped (tbl s) k a (tbl s1) /\ (kept (tbl s) l \/ made k a l) /\ l_cid l = k.
Proof.
  intros H. apply foc_spec in H as [_ [_ [_ [Hk [_ [_ [[E1 E2]|[E1 E2]]]]]]]].
  - subst s1. split; [apply shaped_refl|]. split; auto. left. apply kept_refl. apply tget_in in E2. tauto.
  - assert (Hm : made k a l) by (subst l; split; [reflexivity|discriminate]).
    subst s1. simpl. split; [|split; auto].
    apply shaped_tset; [apply shaped_refl|auto].
Qed.

Lemma alloc_tbl c ch s l req : tbl (snd (allocIPOffer c ch s l req)) = tbl s.
Proof.
  unfold allocIPOffer. destruct (phase1 c ch s l req); simpl; auto.
  destruct (scan ch s (get_next s (l_net2 l)) (n_bcast c (l_net2 l))); simpl; [apply set_next_same|].
  destruct (scan ch s (n_first c (l_net2 l)) (n_bcast c (l_net2 l))); simpl; apply set_next_same.
Qed.

Lemma discover_reset_same now l m :
  l_state (discover_reset now l m) = l_state l /\ same_binding l (discover_reset now l m).
Proof.
  unfold discover_reset, same_binding. destruct (l_state l) eqn:E; simpl; rewrite ?E; auto 10;
    destruct (oeqb (l_xid l) (Some (m_xid m))); simpl; rewrite ?E; auto 10.
Qed.

Lemma discover_shaped c ch now s m s' rp :
  handleDiscover c ch now s m = (s', rp) -> shaped (tbl s) (getcid m) (is_ack_reply rp) (tbl s').
Proof.
  unfold handleDiscover. set (k := getcid m).
  destruct (findOrCreate c s k (m_chaddr m)) as [s1 l] eqn:Ef.
  destruct (discover_reset_same now l m) as [R1 R2].
  set (l0 := discover_reset now l m) in *.
  set (l1 := match l_offer l0 with Some x => if taken s1 l0 x then set_offer l0 None else l0 | None => l0 end).
  assert (L1 : l_state l1 = l_state l /\ same_binding l l1).
  { unfold l1. destruct (l_offer l0) as [x|]; [|auto]. destruct (taken s1 l0 x); [|auto].
    destruct R2 as [A [B [C [D E]]]]. simpl. repeat split; auto. }
  intros H.
  assert (Hgen : forall a, shaped (tbl s) k a (tbl s1) /\ (kept (tbl s) l1 \/ made k a l1) /\ l_cid l1 = k).
  { intros a. destruct (foc_shaped c s k (m_chaddr m) s1 l a Ef) as [S1 [Kl Ck]].
    split; auto. destruct L1 as [E1 E2]. split; [eapply kept_made_same; eauto|].
    destruct E2 as [E2 _]. congruence. }
  destruct (match l_offer l1 with
            | Some x => (Some x, put s1 l1)
            | None => allocIPOffer c ch (put s1 l1) l1 (m_req m)
            end) as [off s2] eqn:Eo.
  assert (T2 : tbl s2 = tset l1 (tbl s1)).
  { destruct (l_offer l1) as [x|].
    - inversion Eo; subst. reflexivity.
    - pose proof (alloc_tbl c ch (put s1 l1) l1 (m_req m)) as A. rewrite Eo in A. simpl in A. exact A. }
  destruct off as [x|]; inversion H; subst s' rp; clear H; simpl.
  - destruct (Hgen false) as [S1 [K1 C1]].
    rewrite T2. apply shaped_tset; [apply shaped_tset; auto|].
    eapply kept_made_nonalloc; [exact K1|reflexivity|discriminate].
  - destruct (Hgen false) as [S1 [K1 C1]].
    apply shaped_tdel. rewrite T2. apply shaped_tset; auto.
Qed.

(* do_ack: the acknowledged lease *)
Lemma do_ack_shaped c now m s l s' rp t k :
  do_ack c now m s l = (s', rp) ->
  shaped t k true (tbl s) -> l_cid l = k ->
  (match l_state l with SDiscover => l_offer l <> None | SAllocated => l_ip l <> None | SFree => False end) ->
  is_ack_reply rp = true /\ shaped t k true (tbl s').
Proof.
  unfold do_ack. intros H S Hk Hip. inversion H; subst s' rp; clear H. split; [reflexivity|].
  simpl. apply shaped_tset; auto. right. split.
  - destruct (l_state l); simpl; auto.
  - intros _. split; auto. destruct (l_state l); simpl; auto; try contradiction.
Qed.

Lemma oeqb_some a x : negb (oeqb a (Some x)) = false -> a <> None.
Proof. destruct a; simpl; intros; discriminate. Qed.

(* from "c1 || c2 || ... = false" (the NAK condition of a branch did not fire) to the facts the ACK needs;
   written so that further disjuncts added to the conditions of Model/DHCP.v do not break the proof *)
Ltac split_ors :=
  repeat match goal with
         | H : (_ || _) = false |- _ => apply orb_false_iff in H; destruct H
         end.
Ltac ack_has_address l :=
  destruct (l_state l); simpl in *; try discriminate; split_ors;
  match goal with
  | H : negb (oeqb ?a (Some _)) = false |- ?a <> None => exact (oeqb_some _ _ H)
  end.

Lemma shaped_weaken t k t' : shaped t k false t' -> shaped t k true t'.
Proof.
  intros H l Hin. destruct (H l Hin) as [K|[C A]]; auto. right. split; auto.
  intros Hs. destruct (A Hs) as [F _]. discriminate.
Qed.

Lemma request_shaped c now s m s' rp :
  handleRequest c now s m = (s', rp) -> shaped (tbl s) (getcid m) (is_ack_reply rp) (tbl s').
Proof.
  unfold handleRequest. set (k := getcid m).
  set (sid := match m_sid m with Some r => r | None => 0 end).
  destruct (classify m) as [oper req].
  destruct (req =? 0); [intros H; inversion H; subst; apply shaped_refl|].
  destruct (findOrCreate c s k (m_chaddr m)) as [s1 l] eqn:Ef.
  assert (Hgen : forall a, shaped (tbl s) k a (tbl s1) /\ (kept (tbl s) l \/ made k a l) /\ l_cid l = k)
    by (intros a; apply (foc_shaped c s k (m_chaddr m) s1 l a Ef)).
  set (captured := sess_captured (ss s) (m_chaddr m)).
  (* the three ways a branch ends *)
  assert (Hnak : forall s2 r, tbl s2 = tbl s1 -> is_ack r = false -> shaped (tbl s) k (is_ack_reply (Some r)) (tbl s2)).
  { intros s2 r E F. simpl. rewrite F, E. apply (Hgen false). }
  assert (Hack : forall s2, tbl s2 = tbl s1 ->
            (match l_state l with SDiscover => l_offer l <> None | SAllocated => l_ip l <> None | SFree => False end) ->
            forall s3 rp3, do_ack c now m s2 l = (s3, rp3) -> shaped (tbl s) k (is_ack_reply rp3) (tbl s3)).
  { intros s2 E Hip s3 rp3 H3. destruct (Hgen true) as [S1 [_ C1]].
    destruct (do_ack_shaped c now m s2 l s3 rp3 (tbl s) k H3) as [A S3]; auto.
    - rewrite E. exact S1.
    - rewrite A. exact S3. }
  destruct oper.
  - (* selecting *)
    destruct (negb (sid =? n_server c captured)).
    + set (l' := if lstate_eqb (l_state l) SDiscover then l else set_ip (set_state l SFree) None).
      assert (Kl' : forall a, kept (tbl s) l' \/ made k a l').
      { intros a. destruct (Hgen a) as [_ [Kl Ck]]. unfold l'. destruct (lstate_eqb (l_state l) SDiscover); auto.
        eapply kept_made_nonalloc; [exact Kl|reflexivity|discriminate]. }
      destruct (attack_mode c captured); intros H; inversion H; subst s' rp; simpl;
        (apply shaped_tset; [apply (Hgen false)|apply Kl']).
    + match goal with |- context [if ?b then (s1, _) else _] => destruct b eqn:Ec end.
      * intros H; inversion H; subst. apply Hnak; reflexivity.
      * apply Hack; auto. ack_has_address l.
  - (* renewing *)
    match goal with |- context [if ?b then (s1, _) else _] => destruct b eqn:Ec end.
    + intros H; inversion H; subst. apply Hnak; reflexivity.
    + apply Hack; auto. ack_has_address l.
  - (* rebinding *)
    set (s2 := set_ss s1 (dhcp_update (ss s1) (m_chaddr m) (Some req))).
    destruct (lstate_eqb (l_state l) SFree && attack_mode c captured);
      [intros H; inversion H; subst; apply Hnak; reflexivity|].
    match goal with |- context [if ?b then (s2, _) else _] => destruct b eqn:Ec end.
    + intros H; inversion H; subst. apply Hnak; reflexivity.
    + apply (Hack s2); auto. ack_has_address l.
  - (* rebooting *)
    set (s2 := set_ss s1 (dhcp_update (ss s1) (m_chaddr m) (Some req))).
    destruct (lstate_eqb (l_state l) SFree && attack_mode c captured);
      [intros H; inversion H; subst; apply Hnak; reflexivity|].
    match goal with |- context [if ?b then (s2, _) else _] => destruct b eqn:Ec end.
    + intros H; inversion H; subst. apply Hnak; reflexivity.
    + apply (Hack s2); auto. ack_has_address l.
Qed.

Lemma decline_shaped c s m s' rp :
  handleDecline c s m = (s', rp) -> shaped (tbl s) (getcid m) (is_ack_reply rp) (tbl s').
Proof.
  unfold handleDecline. destruct (findOrCreate c s (getcid m) (m_chaddr m)) as [s1 l] eqn:Ef.
  destruct (foc_shaped c s (getcid m) (m_chaddr m) s1 l false Ef) as [S1 [Kl Ck]].
  destruct (negb (oeqb (Some (n_server c (l_net2 l))) (m_sid m))); [intros H; inversion H; subst; exact S1|].
  destruct (negb (oeqb (l_ip l) (m_req m)) || negb (l_mac l =? m_chaddr m)); intros H; inversion H; subst; simpl; auto.
  apply shaped_tset; auto. eapply kept_made_nonalloc; [exact Kl|reflexivity|discriminate].
Qed.

Lemma release_shaped c s m s' rp :
  handleRelease c s m = (s', rp) -> shaped (tbl s) (getcid m) (is_ack_reply rp) (tbl s').
Proof.
  unfold handleRelease. destruct (findOrCreate c s (getcid m) (m_chaddr m)) as [s1 l] eqn:Ef.
  destruct (foc_shaped c s (getcid m) (m_chaddr m) s1 l false Ef) as [S1 _].
  intros H; inversion H; subst. exact S1.
Qed.

(* the client id a step can introduce: getcid of its message (0 for the ops without a message: they introduce none) *)
Definition op_cid (o : op) : cid := match op_msg o with Some m => getcid m | None => 0 end.

(* one step of the library.  OSetExp is the verif hook VerifSetLeaseExpiry (build tag verif, not part of the
   library): it rewrites an expiry in memory only; its leases are kept up to the expiry. *)
Definition hook_op (o : op) : Prop := exists k t, o = OSetExp k t.
Definition kept_upto_exp (t : list lease) (l : lease) : Prop :=
  exists l0, In l0 t /\ l_cid l0 = l_cid l /\ l_state l0 = l_state l /\ l_ip l0 = l_ip l.

Lemma step_shaped c ch s o s' rp :
  step c ch s o = (s', rp) ->
  forall l, In l (tbl s') ->
    kept (tbl s) l \/ (op_msg o <> None /\ made (op_cid o) (is_ack_reply rp) l) \/ (hook_op o /\ kept_upto_exp (tbl s) l).
Proof.
  destruct o as [now m|now m|m|m|x|x|now|k t]; simpl; unfold op_cid; simpl; intros H l Hin.
  - apply discover_shaped in H. rewrite parse_tbl in H. destruct (H l Hin); auto. right. left. split; [discriminate|auto].
  - apply request_shaped in H. rewrite parse_tbl in H. destruct (H l Hin); auto. right. left. split; [discriminate|auto].
  - apply decline_shaped in H. rewrite parse_tbl in H. destruct (H l Hin); auto. right. left. split; [discriminate|auto].
  - apply release_shaped in H. rewrite parse_tbl in H. destruct (H l Hin); auto. right. left. split; [discriminate|auto].
  - inversion H; subst. left. apply kept_refl. exact Hin.
  - inversion H; subst. left. apply kept_refl. exact Hin.
  - inversion H; subst. simpl in Hin. apply in_freeLeases in Hin. destruct Hin as [l0 [H0 [->| ->]]].
    + left. apply kept_refl. exact H0.
    + left. exists l0. repeat split; auto; simpl; discriminate.
  - inversion H; subst. destruct (tget k (tbl s)) as [l0|] eqn:E; [|left; apply kept_refl; exact Hin].
    simpl in Hin. destruct Hin as [<-|Hin]; [|apply in_tdel in Hin; destruct Hin as [Hin _]; left; apply kept_refl; exact Hin].
    right. right. split; [exists k, t; reflexivity|]. apply tget_in in E as [E _]. exists l0. repeat split; auto.
Qed.
