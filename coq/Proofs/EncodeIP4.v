(* Proofs/EncodeIP4.v — C03: IPv4 and UDP encoders round-trip. *)
From PV Require Import Base.Prelude Base.Slice Model.EncodeBase Model.Encode Model.Checksum
     Spec.EncodeRef Spec.OnesComplement Proofs.EncodeLemmas Proofs.Checksum.
Open Scope N_scope.

Lemma verifiesb_true l : verifies l -> verifiesb l = true.
Proof. unfold verifies, verifiesb. intros ->. reflexivity. Qed.

(* the 20 header bytes EncodeIP4 + SetPayload/AppendPayload produce, before the checksum write *)
Definition ip4_hdr0 (tl ttl proto : N) (src dst : bytes) : bytes :=
  [69; 192; hi8 tl; lo8 tl; 0; 0; 0; 0; ttl; proto; 0; 0] ++ src ++ dst.

Lemma encode_ip4_bytes p ttl src dst :
  (10 <= len p)%nat -> (20 <= cap p)%nat -> is4 src = true -> is4 dst = true ->
  encode_ip4 p ttl src dst = Ok (mkSlice (ip4_hdr0 20 ttl 0 src dst ++ skipn 20 (arr p)) 20).
Proof.
  intros Hl Hc Hs Hd.
  destruct p as [a l]. unfold cap in *. cbn [arr len] in *.
  do 20 (destr_list a Hc).
  unfold is4 in *.
  do 4 (destr_list src Hs). destruct src; [|discriminate].
  do 4 (destr_list dst Hd). destruct dst; [|discriminate].
  unfold encode_ip4, v4_or_zero, is4, seti, put16, copyto, reslice, cap. run. reflexivity.
Qed.

Lemma to_nat_tl n : 20 + N.of_nat n < 65536 ->
  N.to_nat (be16 (hi8 (u16 (20 + N.of_nat n))) (lo8 (u16 (20 + N.of_nat n)))) = (20 + n)%nat.
Proof. intros H. rewrite be16_hi_lo by (unfold u16; lia). unfold u16. rewrite N.mod_small by lia. lia. Qed.
Lemma to_nat_u16_tl n : 20 + N.of_nat n < 65536 -> N.to_nat (u16 (20 + N.of_nat n)) = (20 + n)%nat.
Proof. intros H. unfold u16. rewrite N.mod_small by lia. lia. Qed.

Ltac ev_hook ::= try change (N.to_nat (69 mod 16) * 4)%nat with 20%nat; rewrite ?to_nat_tl, ?to_nat_u16_tl by assumption.

Lemma ip4_append_bytes ttl src dst rest b proto :
  length src = 4%nat -> length dst = 4%nat -> (length b <= length rest)%nat ->
  20 + N.of_nat (length b) < 65536 ->
  ip4_append (mkSlice (ip4_hdr0 20 ttl 0 src dst ++ rest) 20) b proto =
  Ok (mkSlice (ip4_store_checksum (ip4_hdr0 (20 + N.of_nat (length b)) ttl proto src dst) ++ b ++ skipn (length b) rest)
              (20 + length b)).
Proof.
  intros Hs Hd Hb Hsz.
  do 4 (destr_list src Hs). destruct src; [|discriminate].
  do 4 (destr_list dst Hd). destruct dst; [|discriminate].
  unfold ip4_append, ip4_ihl, ip4_totlen, ip4_write_checksum, seti, put16, copyto, reslice, idx, be16_at, cap.
  run.
  rewrite Nat.sub_0_r, firstn_all, blit0 by lia.
  unfold u16. rewrite (N.mod_small (20 + N.of_nat (length b)) 65536) by lia.
  unfold ip4_store_checksum, ip4_hdr0, ip4_calc_checksum. cbn [app set_nth firstn sub skipn Nat.add].
  reflexivity.
Qed.

(* SetPayload: only the length is used; the bytes after the header stay what they are *)
Lemma ip4_set_payload_bytes ttl src dst rest n proto :
  length src = 4%nat -> length dst = 4%nat -> (n <= length rest)%nat ->
  20 + N.of_nat n < 65536 ->
  ip4_set_payload (mkSlice (ip4_hdr0 20 ttl 0 src dst ++ rest) 20) n proto =
  Ok (mkSlice (ip4_store_checksum (ip4_hdr0 (20 + N.of_nat n) ttl proto src dst) ++ rest) (20 + n)).
Proof.
  intros Hs Hd Hb Hsz.
  do 4 (destr_list src Hs). destruct src; [|discriminate].
  do 4 (destr_list dst Hd). destruct dst; [|discriminate].
  unfold ip4_set_payload, ip4_write_checksum, seti, put16, reslice, cap.
  run.
  unfold u16. rewrite (N.mod_small (20 + N.of_nat n) 65536) by lia.
  unfold ip4_store_checksum, ip4_hdr0, ip4_calc_checksum. cbn [app set_nth firstn sub skipn Nat.add].
  reflexivity.
Qed.

Ltac ev_hook ::= try change (N.to_nat (69 mod 16) * 4)%nat with 20%nat; try change (69 / 16) with 4;
   rewrite ?be16_hi_lo by assumption;
   repeat match goal with E : N.to_nat ?t = _ |- context [N.to_nat ?t] => rewrite E end.
Opaque ip4_calc_checksum.

(* what a finished IPv4 packet decodes to: library view and reference decoder *)
Lemma ip4_frame_decodes tl ttl proto src dst b T :
  length src = 4%nat -> length dst = 4%nat -> bytes_ok src -> bytes_ok dst -> bytes_ok b ->
  ttl < 256 -> proto < 256 -> tl = 20 + N.of_nat (length b) -> tl < 65536 ->
  let r := mkSlice (ip4_store_checksum (ip4_hdr0 tl ttl proto src dst) ++ b ++ T) (20 + length b) in
  bytes_ok (view r) /\
  ip4_decode_lib r = Ok {| iv_version := 4; iv_ihl := 20; iv_tos := 192; iv_totlen := 20 + length b; iv_id := 0;
                           iv_flags := 0; iv_ttl := ttl; iv_proto := proto; iv_src := src; iv_dst := dst;
                           iv_payload := b |} /\
  ref_ip4 (view r) = Some {| r4_tos := 192; r4_totlen := tl; r4_id := 0; r4_flags := 0;
                             r4_frag := 0; r4_ttl := ttl; r4_proto := proto; r4_src := src; r4_dst := dst;
                             r4_options := []; r4_payload := b |}.
Proof.
  intros Hs' Hd' Bs Bd Bb Httl Hpr Htl Hsz r. subst r.
  assert (Hver : verifiesb (ip4_store_checksum (ip4_hdr0 tl ttl proto src dst)) = true).
  { apply verifiesb_true. apply ip4_header_verifies.
    - unfold ip4_hdr0. repeat (apply bytes_ok_cons; split; [first [lia | apply hi8_lt | apply lo8_lt]|]).
      apply bytes_ok_app. split; assumption.
    - unfold ip4_hdr0. cbn [app length]. rewrite app_length. lia. }
  do 4 (destr_list src Hs'). destruct src; [|discriminate].
  do 4 (destr_list dst Hd'). destruct dst; [|discriminate].
  assert (Etl : N.to_nat tl = (20 + length b)%nat) by lia.
  unfold ip4_store_checksum, ip4_hdr0 in *. cbn [app set_nth] in *.
  set (c := ip4_calc_checksum _) in *.
  split.
  { unfold view. cbn [arr len Nat.add firstn]. rewrite firstn_app_exact.
    repeat (apply bytes_ok_cons in Bs; destruct Bs as [? Bs]).
    repeat (apply bytes_ok_cons in Bd; destruct Bd as [? Bd]).
    repeat (apply bytes_ok_cons; split; [first [assumption | lia | apply hi8_lt | apply lo8_lt | apply u8_lt]|]).
    assumption. }
  split.
  { unfold ip4_decode_lib, ip4_payload, ip4_is_valid, ip4_version, ip4_ihl, ip4_tos, ip4_totlen, ip4_id, ip4_flags,
      ip4_ttl, ip4_protocol, ip4_src, ip4_dst, idx, be16_at, sl, cap.
    run. unfold view; cbn [arr len]; rewrite ?Nat.sub_0_r, ?firstn_app_exact. reflexivity. }
  unfold view. cbn [arr len Nat.add firstn]. rewrite firstn_app_exact.
  unfold ref_ip4, take, drop, w16.
  change (69 / 16 =? 4) with true. change (4 * N.to_nat (69 mod 16))%nat with 20%nat.
  rewrite !w16_hi_lo by assumption. rewrite Etl.
  cbn [firstn skipn Nat.sub Nat.add length].
  match goal with |- context [verifiesb ?l] => replace (verifiesb l) with true by (symmetry; exact Hver) end.
  rewrite Nat.sub_0_r, firstn_all.
  repeat match goal with |- context [Nat.leb ?a ?b] =>
    let H := fresh in destruct (Nat.leb_spec a b) as [H|H]; [clear H|exfalso; lia] end.
  cbn [andb]. reflexivity.
Qed.

(* the same packet followed by k trailing bytes inside the view (Ethernet padding): the library's
   IP4.Payload() = p[IHL:TotalLen] and the reference decoder both stop at TotalLen *)
Lemma ip4_frame_decodes_padded tl ttl proto src dst b T k :
  length src = 4%nat -> length dst = 4%nat -> bytes_ok src -> bytes_ok dst -> bytes_ok b ->
  ttl < 256 -> proto < 256 -> tl = 20 + N.of_nat (length b) -> tl < 65536 -> (k <= length T)%nat ->
  let r := mkSlice (ip4_store_checksum (ip4_hdr0 tl ttl proto src dst) ++ b ++ T) (20 + length b + k) in
  view r = ip4_store_checksum (ip4_hdr0 tl ttl proto src dst) ++ b ++ firstn k T /\
  ip4_decode_lib r = Ok {| iv_version := 4; iv_ihl := 20; iv_tos := 192; iv_totlen := 20 + length b; iv_id := 0;
                           iv_flags := 0; iv_ttl := ttl; iv_proto := proto; iv_src := src; iv_dst := dst;
                           iv_payload := b |} /\
  ref_ip4 (view r) = Some {| r4_tos := 192; r4_totlen := tl; r4_id := 0; r4_flags := 0;
                             r4_frag := 0; r4_ttl := ttl; r4_proto := proto; r4_src := src; r4_dst := dst;
                             r4_options := []; r4_payload := b |}.
Proof.
  intros Hs' Hd' Bs Bd Bb Httl Hpr Htl Hsz Hk r. subst r.
  assert (Hver : verifiesb (ip4_store_checksum (ip4_hdr0 tl ttl proto src dst)) = true).
  { apply verifiesb_true. apply ip4_header_verifies.
    - unfold ip4_hdr0. repeat (apply bytes_ok_cons; split; [first [lia | apply hi8_lt | apply lo8_lt]|]).
      apply bytes_ok_app. split; assumption.
    - unfold ip4_hdr0. cbn [app length]. rewrite app_length. lia. }
  do 4 (destr_list src Hs'). destruct src; [|discriminate].
  do 4 (destr_list dst Hd'). destruct dst; [|discriminate].
  assert (Etl : N.to_nat tl = (20 + length b)%nat) by lia.
  unfold ip4_store_checksum, ip4_hdr0 in *. cbn [app set_nth] in *.
  set (c := ip4_calc_checksum _) in *.
  assert (Hv : forall h : bytes, firstn (length b + k) (b ++ T) = b ++ firstn k T).
  { intros _. rewrite firstn_app_2. reflexivity. }
  split.
  { unfold view. cbn [arr len Nat.add firstn]. rewrite (Hv []). reflexivity. }
  split.
  { unfold ip4_decode_lib, ip4_payload, ip4_is_valid, ip4_version, ip4_ihl, ip4_tos, ip4_totlen, ip4_id, ip4_flags,
      ip4_ttl, ip4_protocol, ip4_src, ip4_dst, idx, be16_at, sl, cap.
    run. unfold view; cbn [arr len]; rewrite ?Nat.sub_0_r, ?firstn_app_exact. reflexivity. }
  unfold view. cbn [arr len Nat.add firstn]. rewrite (Hv []).
  unfold ref_ip4, take, drop, w16.
  change (69 / 16 =? 4) with true. change (4 * N.to_nat (69 mod 16))%nat with 20%nat.
  rewrite !w16_hi_lo by assumption. rewrite Etl.
  cbn [firstn skipn Nat.sub Nat.add length].
  match goal with |- context [verifiesb ?l] => replace (verifiesb l) with true by (symmetry; exact Hver) end.
  rewrite Nat.sub_0_r, firstn_app_exact.
  repeat match goal with |- context [Nat.leb ?a ?b] =>
    let H := fresh in destruct (Nat.leb_spec a b) as [H|H]; [clear H|exfalso; rewrite ?app_length in H; lia] end.
  cbn [andb]. reflexivity.
Qed.

Definition ip4_expected_view ttl proto src dst (b : bytes) : ip4_view :=
  {| iv_version := 4; iv_ihl := 20; iv_tos := 192; iv_totlen := 20 + length b; iv_id := 0;
     iv_flags := 0; iv_ttl := ttl; iv_proto := proto; iv_src := src; iv_dst := dst; iv_payload := b |}.
Definition ip4_expected_ref ttl proto src dst (b : bytes) : r_ip4 :=
  {| r4_tos := 192; r4_totlen := 20 + N.of_nat (length b); r4_id := 0; r4_flags := 0;
     r4_frag := 0; r4_ttl := ttl; r4_proto := proto; r4_src := src; r4_dst := dst;
     r4_options := []; r4_payload := b |}.

(* EncodeIP4 + AppendPayload *)
Theorem ip4_append_rt p ttl src dst b proto :
  (10 <= len p)%nat -> (20 + length b <= cap p)%nat ->
  is4 src = true -> is4 dst = true -> bytes_ok src -> bytes_ok dst -> bytes_ok b ->
  ttl < 256 -> proto < 256 -> 20 + N.of_nat (length b) < 65536 ->
  exists ip r,
    encode_ip4 p ttl src dst = Ok ip /\ len ip = 20%nat /\
    ip4_append ip b proto = Ok r /\
    len r = (20 + length b)%nat /\ cap r = cap p /\
    skipn (20 + length b) (arr r) = skipn (20 + length b) (arr p) /\
    bytes_ok (view r) /\
    ip4_decode_lib r = Ok (ip4_expected_view ttl proto src dst b) /\
    ref_ip4 (view r) = Some (ip4_expected_ref ttl proto src dst b).
Proof.
  intros Hl Hc Hs Hd Bs Bd Bb Httl Hpr Hsz.
  assert (Hs' : length src = 4%nat) by (unfold is4 in Hs; apply Nat.eqb_eq; exact Hs).
  assert (Hd' : length dst = 4%nat) by (unfold is4 in Hd; apply Nat.eqb_eq; exact Hd).
  eexists. eexists. split. { apply encode_ip4_bytes; try assumption; lia. }
  split. { reflexivity. }
  assert (Hrest : (length b <= length (skipn 20 (arr p)))%nat) by (rewrite skipn_length; unfold cap in Hc; lia).
  split. { apply ip4_append_bytes; assumption. }
  assert (Hl20 : length (ip4_store_checksum (ip4_hdr0 (20 + N.of_nat (length b)) ttl proto src dst)) = 20%nat).
  { unfold ip4_store_checksum. rewrite !set_nth_length. unfold ip4_hdr0. cbn [app length]. rewrite app_length. lia. }
  split. { reflexivity. }
  split. { unfold cap in *. cbn [arr]. rewrite !app_length, !skipn_length, Hl20. lia. }
  split. { cbn [arr]. transitivity (skipn (length b) (skipn 20 (arr p))); [|apply skipn_skipn'].
           rewrite <- skipn_skipn'. rewrite (skipn_app_len 20) by exact Hl20. apply skipn_app_exact. }
  apply ip4_frame_decodes; auto.
Qed.

(* EncodeIP4 + SetPayload, the payload having been written in place after the header *)
Theorem ip4_set_payload_rt p ttl src dst b proto :
  (10 <= len p)%nat -> (20 + length b <= cap p)%nat ->
  is4 src = true -> is4 dst = true -> bytes_ok src -> bytes_ok dst -> bytes_ok b ->
  ttl < 256 -> proto < 256 -> 20 + N.of_nat (length b) < 65536 ->
  firstn (length b) (skipn 20 (arr p)) = b ->
  exists ip r,
    encode_ip4 p ttl src dst = Ok ip /\ len ip = 20%nat /\
    ip4_set_payload ip (length b) proto = Ok r /\
    len r = (20 + length b)%nat /\ cap r = cap p /\
    skipn 20 (arr r) = skipn 20 (arr p) /\
    bytes_ok (view r) /\
    ip4_decode_lib r = Ok (ip4_expected_view ttl proto src dst b) /\
    ref_ip4 (view r) = Some (ip4_expected_ref ttl proto src dst b).
Proof.
  intros Hl Hc Hs Hd Bs Bd Bb Httl Hpr Hsz Hin.
  assert (Hs' : length src = 4%nat) by (unfold is4 in Hs; apply Nat.eqb_eq; exact Hs).
  assert (Hd' : length dst = 4%nat) by (unfold is4 in Hd; apply Nat.eqb_eq; exact Hd).
  eexists. eexists. split. { apply encode_ip4_bytes; try assumption; lia. }
  split. { reflexivity. }
  assert (Hrest : (length b <= length (skipn 20 (arr p)))%nat) by (rewrite skipn_length; unfold cap in Hc; lia).
  split. { apply ip4_set_payload_bytes; assumption. }
  assert (Hl20 : length (ip4_store_checksum (ip4_hdr0 (20 + N.of_nat (length b)) ttl proto src dst)) = 20%nat).
  { unfold ip4_store_checksum. rewrite !set_nth_length. unfold ip4_hdr0. cbn [app length]. rewrite app_length. lia. }
  split. { reflexivity. }
  split. { unfold cap in *. cbn [arr]. rewrite !app_length, !skipn_length, Hl20. lia. }
  split. { cbn [arr]. apply skipn_app_len. exact Hl20. }
  rewrite <- (firstn_skipn (length b) (skipn 20 (arr p))), Hin.
  apply ip4_frame_decodes; auto.
Qed.

(* Outside "fits": totalLen is a uint16, so a payload of 65516 bytes or more wraps the length
   field and SetPayload returns a slice shorter than the header + payload. *)
Lemma ip4_set_payload_wrap_refuted :
  exists (p : slice) (b : bytes), (20 + length b <= cap p)%nat /\ (10 <= len p)%nat /\
    (ip <- encode_ip4 p 64 [10;0;0;1] [10;0;0;2] ;;
     r <- ip4_set_payload ip (length b) 17 ;; Ok (len r))%res = Ok 0%nat.
Proof.
  exists (mkSlice (repeat 0 (N.to_nat 65536)) 20), (repeat 0 (N.to_nat 65516)).
  split. { unfold cap. cbn [arr]. rewrite !repeat_length. lia. }
  split. { cbn [len]. lia. }
  vm_compute. reflexivity.
Qed.

(* ================================================================ *)
(* UDP *)
Ltac ev_hook ::= rewrite ?be16_hi_lo by assumption.

Definition udp_hdr (sp dp ln : N) : bytes := [hi8 sp; lo8 sp; hi8 dp; lo8 dp; hi8 ln; lo8 ln; 0; 0].

Lemma encode_udp_bytes p sp dp :
  (8 <= cap p)%nat -> encode_udp p sp dp = Ok (mkSlice (udp_hdr sp dp 0 ++ skipn 8 (arr p)) 8).
Proof.
  intros Hc. destruct p as [a l]. unfold cap in *. cbn [arr len] in *.
  do 8 (destr_list a Hc).
  unfold encode_udp, put16, reslice, cap. run. reflexivity.
Qed.

Lemma udp_append_bytes sp dp rest b :
  (length b <= length rest)%nat ->
  udp_append (mkSlice (udp_hdr sp dp 0 ++ rest) 8) b =
  Ok (mkSlice (udp_hdr sp dp (udp_lenfield (length b)) ++ b ++ skipn (length b) rest) (8 + length b)).
Proof.
  intros Hb. unfold udp_append, copyfrom, put16, reslice, cap. run.
  rewrite Nat.sub_0_r, firstn_all, blit0 by lia. reflexivity.
Qed.

Lemma udp_set_payload_bytes sp dp rest n :
  (n <= length rest)%nat ->
  udp_set_payload (mkSlice (udp_hdr sp dp 0 ++ rest) 8) n =
  Ok (mkSlice (udp_hdr sp dp (udp_lenfield n) ++ rest) (8 + n)).
Proof. intros Hb. unfold udp_set_payload, put16, reslice, cap. run. reflexivity. Qed.

Lemma udp_lenfield_small n : 8 + N.of_nat n < 65536 -> udp_lenfield n = 8 + N.of_nat n.
Proof. intros H. unfold udp_lenfield, u16. rewrite (N.mod_small (N.of_nat n)) by lia. apply N.mod_small. lia. Qed.

Definition udp_expected_view sp dp (b : bytes) : udp_view :=
  {| uv_sport := sp; uv_dport := dp; uv_len := 8 + N.of_nat (length b); uv_cksum := 0; uv_payload := b |}.
Definition udp_expected_ref sp dp (b : bytes) : r_udp :=
  {| ru_sport := sp; ru_dport := dp; ru_len := 8 + N.of_nat (length b); ru_cksum := 0; ru_payload := b |}.

Lemma udp_frame_decodes sp dp b T :
  sp < 65536 -> dp < 65536 -> bytes_ok b -> 8 + N.of_nat (length b) < 65536 ->
  let r := mkSlice (udp_hdr sp dp (8 + N.of_nat (length b)) ++ b ++ T) (8 + length b) in
  bytes_ok (view r) /\
  udp_decode_lib r = Ok (udp_expected_view sp dp b) /\
  ref_udp (view r) = Some (udp_expected_ref sp dp b).
Proof.
  intros Hsp Hdp Bb Hsz r. subst r.
  set (ln := 8 + N.of_nat (length b)) in *.
  assert (Eln : N.to_nat ln = (8 + length b)%nat) by lia.
  unfold udp_hdr. cbn [app].
  split.
  { unfold view. cbn [arr len Nat.add firstn]. rewrite firstn_app_exact.
    repeat (apply bytes_ok_cons; split; [first [lia | apply hi8_lt | apply lo8_lt]|]). assumption. }
  split.
  { unfold udp_decode_lib, udp_is_valid, udp_srcport, udp_dstport, udp_len, udp_checksum, udp_payload, be16_at, slfrom, cap.
    run. unfold view; cbn [arr len]; rewrite ?Nat.sub_0_r, ?firstn_app_exact. reflexivity. }
  unfold view. cbn [arr len Nat.add firstn]. rewrite firstn_app_exact.
  unfold ref_udp, take, w16. rewrite !w16_hi_lo by assumption. rewrite Eln.
  cbn [length Nat.add Nat.sub]. rewrite Nat.sub_0_r, firstn_all.
  repeat match goal with |- context [Nat.leb ?a ?b] =>
    let H := fresh in destruct (Nat.leb_spec a b) as [H|H]; [clear H|exfalso; lia] end.
  cbn [andb]. reflexivity.
Qed.

Theorem udp_append_rt p sp dp b :
  (8 + length b <= cap p)%nat -> sp < 65536 -> dp < 65536 -> bytes_ok b -> 8 + N.of_nat (length b) < 65536 ->
  exists u r,
    encode_udp p sp dp = Ok u /\ len u = 8%nat /\
    udp_append u b = Ok r /\
    len r = (8 + length b)%nat /\ cap r = cap p /\
    skipn (8 + length b) (arr r) = skipn (8 + length b) (arr p) /\
    bytes_ok (view r) /\
    udp_decode_lib r = Ok (udp_expected_view sp dp b) /\
    ref_udp (view r) = Some (udp_expected_ref sp dp b).
Proof.
  intros Hc Hsp Hdp Bb Hsz.
  eexists. eexists. split. { apply encode_udp_bytes. lia. }
  split. { reflexivity. }
  assert (Hrest : (length b <= length (skipn 8 (arr p)))%nat) by (rewrite skipn_length; unfold cap in Hc; lia).
  split. { apply udp_append_bytes. assumption. }
  rewrite udp_lenfield_small by assumption.
  split. { reflexivity. }
  split. { unfold cap in *. cbn [arr]. rewrite !app_length, !skipn_length. cbn [udp_hdr length]. lia. }
  split. { cbn [arr]. transitivity (skipn (length b) (skipn 8 (arr p))); [|apply skipn_skipn'].
           rewrite <- skipn_skipn'. rewrite (skipn_app_len 8) by reflexivity. apply skipn_app_exact. }
  apply udp_frame_decodes; auto.
Qed.

Theorem udp_set_payload_rt p sp dp b :
  (8 + length b <= cap p)%nat -> sp < 65536 -> dp < 65536 -> bytes_ok b -> 8 + N.of_nat (length b) < 65536 ->
  firstn (length b) (skipn 8 (arr p)) = b ->
  exists u r,
    encode_udp p sp dp = Ok u /\ len u = 8%nat /\
    udp_set_payload u (length b) = Ok r /\
    len r = (8 + length b)%nat /\ cap r = cap p /\
    skipn 8 (arr r) = skipn 8 (arr p) /\
    bytes_ok (view r) /\
    udp_decode_lib r = Ok (udp_expected_view sp dp b) /\
    ref_udp (view r) = Some (udp_expected_ref sp dp b).
Proof.
  intros Hc Hsp Hdp Bb Hsz Hin.
  eexists. eexists. split. { apply encode_udp_bytes. lia. }
  split. { reflexivity. }
  assert (Hrest : (length b <= length (skipn 8 (arr p)))%nat) by (rewrite skipn_length; unfold cap in Hc; lia).
  split. { apply udp_set_payload_bytes. assumption. }
  rewrite udp_lenfield_small by assumption.
  split. { reflexivity. }
  split. { unfold cap in *. cbn [arr]. rewrite !app_length, !skipn_length. cbn [udp_hdr length]. lia. }
  split. { cbn [arr]. apply skipn_app_len. reflexivity. }
  rewrite <- (firstn_skipn (length b) (skipn 8 (arr p))), Hin.
  apply udp_frame_decodes; auto.
Qed.

(* the UDP length field is uint16 arithmetic: outside "fits" it wraps *)
Lemma udp_lenfield_wrap_refuted : udp_lenfield (N.to_nat 65528) = 0.
Proof. vm_compute. reflexivity. Qed.
