(* Proofs/Lease.v — proofs about Model/Lease.v (C18). *)
From PV Require Import Base.Prelude Model.LeaseBase Model.Lease.
From Coq Require Import Permutation.
Open Scope N_scope.

(* ---------------------------------------------------------------- *)
(* equality tests *)

Lemma bytes_eqb_eq a b : bytes_eqb a b = true <-> a = b.
Proof.
  revert b; induction a as [|x a IH]; intros [|y b]; simpl; split; intros H; try discriminate; auto.
  - apply andb_true_iff in H. destruct H as [H1 H2]. apply N.eqb_eq in H1. apply IH in H2. congruence.
  - inversion H; subst. apply andb_true_iff. split. apply N.eqb_refl. apply IH. reflexivity.
Qed.

Lemma bytes_eqb_refl a : bytes_eqb a a = true.
Proof. apply bytes_eqb_eq. reflexivity. Qed.

Lemma bytes_eqb_neq a b : bytes_eqb a b = false <-> a <> b.
Proof.
  split.
  - intros H E. apply bytes_eqb_eq in E. congruence.
  - intros H. destruct (bytes_eqb a b) eqn:E; auto. apply bytes_eqb_eq in E. contradiction.
Qed.

Lemma addr_eqb_eq a b : addr_eqb a b = true <-> a = b.
Proof.
  destruct a as [|n|v z], b as [|m|w y]; simpl; split; intros H; try discriminate; auto.
  - apply N.eqb_eq in H. congruence.
  - inversion H. apply N.eqb_refl.
  - apply andb_true_iff in H. destruct H as [H1 H2]. apply N.eqb_eq in H1. apply bytes_eqb_eq in H2. congruence.
  - inversion H; subst. rewrite N.eqb_refl, bytes_eqb_refl. reflexivity.
Qed.

Lemma addr_eqb_refl a : addr_eqb a a = true.
Proof. apply addr_eqb_eq. reflexivity. Qed.

(* ---------------------------------------------------------------- *)
(* the table as a map keyed by client id *)

Lemma tinsert_In l x t : In l (tinsert x t) -> l = x \/ In l t.
Proof.
  induction t as [|y t IH]; simpl.
  - intros [H|[]]; auto.
  - destruct (bytes_eqb (l_cid y) (l_cid x)).
    + intros [H|H]; auto.
    + intros [H|H]; auto. destruct (IH H); auto.
Qed.

Lemma tinsert_fresh x t : ~ In (l_cid x) (map l_cid t) -> tinsert x t = t ++ [x].
Proof.
  induction t as [|y t IH]; simpl; intros H; auto.
  destruct (bytes_eqb (l_cid y) (l_cid x)) eqn:E.
  - apply bytes_eqb_eq in E. exfalso. apply H. left. exact E.
  - rewrite IH; auto.
Qed.

(* ---------------------------------------------------------------- *)
(* C18_load_filters: whatever the document, every loaded lease passed the filters *)

Definition loaded_ok (s1 : subnet) (rs : list lease_rec) (l : lease) : Prop :=
  allocated l = true
  /\ contains (s_lan (n_cfg s1)) (r_ip (l_rec l)) = true
  /\ r_cid (l_rec l) <> []
  /\ In (l_rec l) rs.

Lemma load_loop_filters cap s1 s2 all rs : forall tt,
  (forall r, In r rs -> In r all) ->
  (forall l, In l tt -> loaded_ok s1 all l) ->
  forall l, In l (load_loop cap s1 s2 rs tt) -> loaded_ok s1 all l.
Proof.
  induction rs as [|v rest IH]; intros tt Hsub Htt; [exact Htt|].
  assert (Hrest : forall r, In r rest -> In r all) by (intros r Hr; apply Hsub; right; exact Hr).
  assert (Hv : In v all) by (apply Hsub; left; reflexivity).
  simpl.
  destruct (r_state v =? 2)%Z eqn:Est; simpl; [|apply IH; auto].
  destruct (avalid (r_ip v)) eqn:Eval; simpl; [|apply IH; auto].
  destruct (contains (s_lan (n_cfg s1)) (r_ip v)) eqn:Ec; simpl; [|apply IH; auto].
  destruct (r_cid v) as [|c0 cs] eqn:Ecid; [apply IH; auto|].
  apply IH; auto.
  intros l Hl. apply tinsert_In in Hl. destruct Hl as [->|Hl]; auto.
  unfold loaded_ok, allocated; simpl. repeat split; auto. rewrite Ecid. discriminate.
Qed.

Lemma load_filters cap d s1 s2 t :
  load cap d = Ok (s1, s2, t) ->
  forall l, In l t -> loaded_ok s1 (d_leases d) l.
Proof.
  unfold load. intros H.
  destruct (opt_subnet (d_net1 d)) as [o1| | |]; simpl in H; try discriminate.
  destruct (opt_subnet (d_net2 d)) as [o2| | |]; simpl in H; try discriminate.
  destruct o1 as [a|]; [|discriminate]. destruct o2 as [b|]; [|discriminate].
  inversion H; subst.
  apply load_loop_filters; auto.
  intros l [].
Qed.

(* non-vacuity: a document whose load succeeds with a non-empty table *)
Definition ex_net1 : subnetcfg :=
  {| s_lan := P (A4 3232235520) 24; s_gw := A4 3232235531; s_dhcp := A4 3232235649; s_dns := A4 134744072;
     s_first := A4 3232235521; s_dur := four_hours; s_stage := 1 |}.
Definition ex_net2 : subnetcfg :=
  {| s_lan := P (A4 3232235648) 25; s_gw := A4 3232235649; s_dhcp := A4 3232235649; s_dns := cloudflare_family1;
     s_first := A4 3232235649; s_dur := four_hours; s_stage := 3 |}.
Definition ex_rec : lease_rec :=
  {| r_cid := [1; 2; 3]; r_state := 2%Z; r_mac := [2; 0; 0; 0; 0; 1]; r_ip := A4 3232235532; r_expiry := 1000%Z |}.
Definition ex_doc : doc := {| d_net1 := Some ex_net1; d_net2 := Some ex_net2; d_leases := [ex_rec] |}.

Example load_filters_nonvacuous :
  exists s1 s2 t, load (fun _ => false) ex_doc = Ok (s1, s2, t) /\ t <> [].
Proof. vm_compute. do 3 eexists. split; [reflexivity|discriminate]. Qed.

(* ---------------------------------------------------------------- *)
(* save then load gives the table back *)

(* a lease record survives loadByteArray's validation against net1 *)
Definition rec_ok (s1 : subnet) (r : lease_rec) : bool :=
  avalid (r_ip r) && contains (s_lan (n_cfg s1)) (r_ip r) && negb (bytes_eqb (r_cid r) []).

(* the subnet loadByteArray attaches *)
Definition sub_of (cap : sess) (s2 : subnet) (r : lease_rec) : N :=
  if cap (r_mac r)
  then (if contains (s_lan (n_cfg s2)) (r_ip r) && negb (addr_eqb (r_ip r) (paddr (s_lan (n_cfg s2))))
           && negb (addr_eqb (r_ip r) (n_bcast s2)) then 2 else 1)
  else 1.
Definition restored (cap : sess) (s2 : subnet) (r : lease_rec) : lease :=
  {| l_rec := r; l_sub := sub_of cap s2 r |}.

Lemma load_loop_all_ok cap s1 s2 rs : forall tt,
  (forall r, In r rs -> (r_state r =? 2)%Z = true /\ rec_ok s1 r = true) ->
  NoDup (map l_cid tt ++ map r_cid rs) ->
  load_loop cap s1 s2 rs tt = tt ++ map (restored cap s2) rs.
Proof.
  induction rs as [|v rest IH]; intros tt Hok Hnd; simpl.
  - rewrite app_nil_r. reflexivity.
  - destruct (Hok v (or_introl eq_refl)) as [Hst Hrec].
    unfold rec_ok in Hrec. apply andb_true_iff in Hrec. destruct Hrec as [Hrec Hcid].
    apply andb_true_iff in Hrec. destruct Hrec as [Hval Hc].
    rewrite Hst, Hval, Hc. simpl.
    destruct (r_cid v) as [|c0 cs] eqn:Ecid; [simpl in Hcid; discriminate|].
    assert (Hfresh : ~ In (l_cid (restored cap s2 v)) (map l_cid tt)).
    { apply NoDup_remove_2 in Hnd. intros Hin. apply Hnd. apply in_or_app. left. exact Hin. }
    assert (Hnd' : NoDup (map l_cid (tt ++ [restored cap s2 v]) ++ map r_cid rest)).
    { rewrite map_app, <- app_assoc. simpl. exact Hnd. }
    assert (Hrest : forall r, In r rest -> (r_state r =? 2)%Z = true /\ rec_ok s1 r = true)
      by (intros r Hr; apply Hok; right; exact Hr).
    fold (sub_of cap s2 v). fold (restored cap s2 v).
    rewrite (tinsert_fresh _ tt Hfresh). rewrite (IH _ Hrest Hnd'). rewrite <- app_assoc. reflexivity.
Qed.

Lemma load_loop_roundtrip cap s1 s2 rs :
  (forall r, In r rs -> (r_state r =? 2)%Z = true /\ rec_ok s1 r = true) ->
  NoDup (map r_cid rs) ->
  load_loop cap s1 s2 rs [] = map (restored cap s2) rs.
Proof. intros H1 H2. exact (load_loop_all_ok cap s1 s2 rs [] H1 H2). Qed.
